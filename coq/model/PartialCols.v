(* C08: horizontal (column) structure of a cropped decode: which sample columns of a component an output column is made of.
   jdsample.c (h2v1_fancy_upsample / h2v2_fancy_upsample / box replication), jdapistd.c jpeg_crop_scanline
   (per-component block windows, recomputed downsampled_width). *)
From Coq Require Import ZArith Bool.
From LJT Require Import model.Partial.
Open Scope Z_scope.

(* hr = (max_h_samp_factor * min_DCT_h_scaled_size) / (h_samp_factor * DCT_h_scaled_size): output columns per sample
   column; fancyh: the triangle filter (hr = 2, do_fancy_upsampling); dsw = compptr->downsampled_width.
   Result: (nearer sample column, further sample column); at the two edges of the component plane the filter has no
   further column and uses the nearer one alone, which is (c, c) here.  Without the filter the pair is (c, c) too. *)
Definition col_prov (fancyh : bool) (hr dsw X : Z) : Z * Z :=
  let c := X / hr in
  if fancyh
  then (c, if Z.even X then (if c =? 0 then c else c - 1) else (if c =? dsw - 1 then c else c + 1))
  else (c, c).

(* cropped decode: the component's sample rows start at block column f (blocks of dct samples), the upsampler sees
   a plane of width dsw' and output column j of the region *)
Definition col_prov_crop (fancyh : bool) (hr dct f dsw' j : Z) : Z * Z :=
  let '(a, b) := col_prov fancyh hr dsw' j in (f * dct + a, f * dct + b).

(* ---- jpeg_crop_scanline called a second time (libjpeg.txt allows it; in buffered-image mode: before a later pass) ---- *)
(* region (xoffset, width) delivered after one call on an uncropped decompressor of row width ow *)
Definition crop_region (ow align x w : Z) : option (Z * Z) :=
  match crop_scanline ow align x w with
  | CropErr => None
  | CropWhole => Some (0, ow)
  | CropOk x' w' _ _ => Some (x', w')
  end.

(* the code that exists tests the second request against cinfo->output_width, which the first call has already reduced:
   ReErr = JERR_WIDTH_OVERFLOW, ReIgnored x w = early return "caller wants the entire width", the region (x, w) of the
   first call stays in force while the caller's xoffset/width come back unchanged *)
Inductive recrop_out := ReErr | ReIgnored (x w : Z) | ReOk (x w : Z).
Definition recrop_faithful (ow align x1 w1 x2 w2 : Z) : option recrop_out :=
  match crop_region ow align x1 w1 with
  | None => None
  | Some (xa, wa) =>
      Some (match crop_scanline wa align x2 w2 with
            | CropErr => ReErr
            | CropWhole => ReIgnored xa wa
            | CropOk x' w' _ _ => ReOk x' w'
            end)
  end.
(* what the documentation promises: xoffset and width are relative to the (scaled) image row *)
Definition recrop_documented (ow align x2 w2 : Z) : option (Z * Z) := crop_region ow align x2 w2.
