(* C15 -- the error CODE of a TurboJPEG instance (tj3GetErrorCode), one thread's view.  src/turbojpeg.c:
     GET_*INSTANCE                         this->jerr.warning = FALSE                    -> CCall
     THROW* macros, my_error_exit          warning = FALSE (a fatal error supersedes)     -> CFail i false
     my_emit_message (msg_level < 0)       warning = TRUE; the call returns -1            -> CFail i true   (no fatal error followed)
     tj3GetErrorCode(handle)               warning ? TJERR_WARNING (0) : TJERR_FATAL (1)  -> CCode
     tj3Init                               warning FALSE                                  -> CNew
   Instance-less functions do not touch it (COther).  No proofs here. *)
From Coq Require Import List ZArith Bool Arith.
From LJT Require Import model.Threads model.ErrState.
Import ListNotations.
Local Open Scope Z_scope.

Inductive cop :=
| CNew (i : nat)
| CCall (i : nat)
| CFail (i : nat) (warning : bool)
| COther
| CCode (i : nat).

Definition TJERR_WARNING : Z := 0.
Definition TJERR_FATAL : Z := 1.
Definition code_of (w : bool) : Z := if w then TJERR_WARNING else TJERR_FATAL.

Definition wstate := nat -> bool.
Definition wupd (f : wstate) (i : nat) (v : bool) : wstate := fun j => if Nat.eqb j i then v else f j.

Definition cstep (o : cop) (s : wstate) : wstate * option Z :=
  match o with
  | CNew i | CCall i => (wupd s i false, None)
  | CFail i w => (wupd s i w, None)
  | COther => (s, None)
  | CCode i => (s, Some (code_of (s i)))
  end.

Fixpoint crun (tr : list cop) (s : wstate) : wstate * list Z :=
  match tr with
  | [] => (s, [])
  | o :: tr' =>
      let '(s1, r) := cstep o s in
      let '(s2, rs) := crun tr' s1 in
      (s2, match r with Some m => m :: rs | None => rs end)
  end.

Definition ctouches (i : nat) (o : cop) : bool :=
  match o with CNew j | CCall j | CFail j _ => Nat.eqb j i | _ => false end.

(* as steps of the thread model: the warning flag of instance i is Inst i 0 (1 = set) *)
Definition cop_step (o : cop) : step :=
  match o with
  | CNew i | CCall i => mk_step [] [Inst i 0] (fun _ _ => 0)
  | CFail i w => mk_step [] [Inst i 0] (fun _ _ => if w then 1 else 0)
  | COther => mk_step [] [] (fun _ _ => 0)
  | CCode i => mk_step [Inst i 0] [] (fun _ _ => 0)
  end.
Definition cop_inst (o : cop) : option nat :=
  match o with CNew i | CCall i | CFail i _ | CCode i => Some i | COther => None end.
Definition is_cquery (o : cop) : bool := match o with CCode _ => true | _ => false end.
Definition decode_code (vs : list val) : Z :=
  match vs with [w] => if Z.eqb w 0 then TJERR_FATAL else TJERR_WARNING | _ => TJERR_FATAL end.

(* replay of a merged trace in the thread model, function state and finite-map state (the latter is extracted) *)
Fixpoint creplay (tr : list (nat * cop)) (s : state) : list Z :=
  match tr with
  | [] => []
  | (_, o) :: r =>
      let st := cop_step o in
      (if is_cquery o then [decode_code (observe st s)] else []) ++ creplay r (exec st s)
  end.
Fixpoint lcreplay (tr : list (nat * cop)) (ls : lstate) : list Z :=
  match tr with
  | [] => []
  | (_, o) :: r =>
      let st := cop_step o in
      (if is_cquery o then [decode_code (map (lget ls) (reads st))] else []) ++ lcreplay r (lexec st ls)
  end.

Fixpoint cprog (ths : list (list cop)) : program :=
  match ths with [] => [] | th :: r => map cop_step th :: cprog r end.
