(* C15 -- "the dummy destination buffer is replaced before the first byte is emitted": structured call trees of the
   TurboJPEG functions that can emit JPEG bytes (generated from the clang AST into gen/GenGlobals.v: emit_trees) and the
   static check over them.  Calls: 0 = irrelevant, 1 = jpeg_mem_dest_tj (installs the caller's buffer in the destination
   manager, replacing whatever was there -- the dummy after tj3Init), 2 = a libjpeg call that can write to the
   destination.  NCallF f = call of another function of the same translation unit (by name).
   NIf g bs: g <> 0 identifies the (side-effect free) condition text; two `if`s with the same g inside one loop
   iteration / function body take the same branch (the translator gives g <> 0 only when no identifier of the condition
   is assigned in the function outside for-loop headers).  No proofs here. *)
From Coq Require Import List ZArith Bool Arith String.
Import ListNotations.

Inductive node :=
| NCall (c : nat)
| NCallF (f : string)
| NSeq (l : list node)
| NIf (g : nat) (bs : list node)       (* bs = [then] or [then; else] *)
| NLoop (b : node).

Definition cstate := (bool * list nat)%type.    (* (destination installed on every path so far, guards under which it was installed) *)

Fixpoint chk (safe : list string) (s : cstate) (n : node) {struct n} : option cstate :=
  match n with
  | NCall c =>
      if Nat.eqb c 2 then (if fst s then Some s else None)
      else if Nat.eqb c 1 then Some (true, snd s) else Some s
  | NCallF f => if existsb (String.eqb f) safe then Some s else (if fst s then Some s else None)
  | NSeq l =>
      (fix go (s : cstate) (l : list node) : option cstate :=
         match l with
         | [] => Some s
         | n :: r => match chk safe s n with Some s' => go s' r | None => None end
         end) s l
  | NIf g bs =>
      let known := negb (Nat.eqb g 0) && existsb (Nat.eqb g) (snd s) in
      match bs with
      | [] => Some s
      | th :: rest =>
          match chk safe (fst s || known, snd s) th with
          | None => None
          | Some st =>
              if forallb (fun b => match chk safe s b with Some _ => true | None => false end) rest
              then Some (fst s, if negb (Nat.eqb g 0) && fst st then g :: snd s else snd s)
              else None
          end
      end
  | NLoop b => match chk safe (fst s, []) b with Some _ => Some s | None => None end
  end.

(* the functions are listed callees-first; a function that passes becomes "safe to call" for the later ones *)
Fixpoint chk_all (safe : list string) (fs : list (string * node)) : bool :=
  match fs with
  | [] => true
  | (f, n) :: r => match chk safe (false, []) n with Some _ => chk_all (f :: safe) r | None => false end
  end.

(* ---- trace semantics of a call tree (for the soundness theorem of chk) ----
   rho gives the value of the identified conditions; an `if` with g = 0 may take any branch; every loop iteration may see
   different condition values; execution may stop anywhere (error exit / goto bailout / longjmp): completed = false. *)
Definition callf_event (safe : list string) (f : string) : nat := if existsb (String.eqb f) safe then 0 else 2.

Inductive exec (safe : list string) : (nat -> bool) -> node -> list nat -> bool -> Prop :=
| x_stop rho n : exec safe rho n [] false
| x_call rho c : exec safe rho (NCall c) [c] true
| x_callf rho f : exec safe rho (NCallF f) [callf_event safe f] true
| x_nil rho : exec safe rho (NSeq []) [] true
| x_cons rho n l t1 t2 b : exec safe rho n t1 true -> exec safe rho (NSeq l) t2 b -> exec safe rho (NSeq (n :: l)) (t1 ++ t2) b
| x_abort rho n l t1 : exec safe rho n t1 false -> exec safe rho (NSeq (n :: l)) t1 false
| x_if_none rho g : exec safe rho (NIf g []) [] true
| x_then rho g th rest t b : (g <> 0 -> rho g = true) -> exec safe rho th t b -> exec safe rho (NIf g (th :: rest)) t b
| x_else rho g th rest n t b : (g <> 0 -> rho g = false) -> In n rest -> exec safe rho n t b -> exec safe rho (NIf g (th :: rest)) t b
| x_skip rho g th rest : (g <> 0 -> rho g = false) -> exec safe rho (NIf g (th :: rest)) [] true
| x_loop0 rho b : exec safe rho (NLoop b) [] true
| x_loop rho rho' b t1 t2 c : exec safe rho' b t1 true -> exec safe rho (NLoop b) t2 c -> exec safe rho (NLoop b) (t1 ++ t2) c
| x_loop_abort rho rho' b t1 : exec safe rho' b t1 false -> exec safe rho (NLoop b) t1 false.

(* a trace is safe when every emitting call (2) comes after an installing call (1); d = installed before the trace *)
Fixpoint tsafe (d : bool) (t : list nat) : bool :=
  match t with
  | [] => true
  | c :: r => if Nat.eqb c 2 then d && tsafe d r else tsafe (d || Nat.eqb c 1) r
  end.
Definition after (d : bool) (t : list nat) : bool := d || existsb (Nat.eqb 1) t.
