(* LosslessLazy.v -- the decoder side as the code runs it: a bit buffer that is
   refilled lazily, MCU row by MCU row, with the row-level restart counters.
     jdhuff.c   jpeg_fill_bit_buffer: load bytes until MIN_GET_BITS bits are held
                (FF 00 -> data FF, FF.. m -> unread_marker = m and stop; if the
                request cannot be met: JWRN_HIT_MARKER, zero bits, insufficient_data)
     jdhuff.h   HUFF_DECODE ("if (bits_left < HUFF_LOOKAHEAD) fill(0)"), CHECK_BIT_BUFFER(s)
     jdlhuff.c  decode_mcus (one MCU row per call), process_restart (drop the bits)
     jdmarker.c read_restart_marker / next_marker (good path: the expected RSTn)
     jddiffct.c decompress_data with one MCU row per iMCU row (the compressor forces
                sampling factors 1): restart_rows_to_go, the per-MCU-row restart
                test, restart_pending bit 0 -> start_pass_lossless before undifferencing
   No proofs here (proofs/LosslessLazyProofs.v). *)
From Coq Require Import List ZArith Bool.
From LJT Require Import model.Huff model.Lossless model.LosslessBytes.
Import ListNotations.
Local Open Scope Z_scope.

Record brstate := { br_buf : list bool;          (* get_buffer, bits_left = length *)
                    br_inp : list Z;             (* next_input_byte .. *)
                    br_marker : option Z;        (* cinfo->unread_marker *)
                    br_insuf : bool }.           (* entropy->insufficient_data *)

Definition MIN_GET_BITS : nat := 57.             (* BIT_BUF_SIZE - 7, 64-bit bit_buf_type *)

(* next byte of the segment: inl c = data byte, inr m = marker; None = the source
   has nothing more right now (suspension) *)
Fixpoint next_unit (inp : list Z) : option ((Z + Z) * list Z) :=
  match inp with
  | [] => None
  | c :: t =>
      if c =? 255 then
        (fix after_ff (t : list Z) : option ((Z + Z) * list Z) :=
           match t with
           | [] => None
           | c2 :: t2 => if c2 =? 255 then after_ff t2
                         else if c2 =? 0 then Some (inl 255, t2) else Some (inr c2, t2)
           end) t
      else Some (inl c, t)
  end.

(* "while (bits_left < MIN_GET_BITS) { read a byte ... get_buffer = (get_buffer << 8) | c; }" *)
Fixpoint fill_loop (fuel : nat) (buf : list bool) (inp : list Z) : option (list bool * list Z * option Z) :=
  match fuel with
  | O => Some (buf, inp, None)
  | S k =>
      if (length buf <? MIN_GET_BITS)%nat then
        match next_unit inp with
        | None => None
        | Some (inl c, t) => fill_loop k (buf ++ bits_of 8 c) t
        | Some (inr m, t) => Some (buf, t, Some m)
        end
      else Some (buf, inp, None)
  end.

(* no_more_bytes: "if (nbits > bits_left) { WARNMS(JWRN_HIT_MARKER); insufficient_data = TRUE;
   get_buffer <<= MIN_GET_BITS - bits_left; bits_left = MIN_GET_BITS; }" *)
Definition no_more_bytes (buf : list bool) (inp : list Z) (m : Z) (insuf : bool) (nbits : nat) : brstate :=
  if (length buf <? nbits)%nat
  then {| br_buf := buf ++ repeat false (MIN_GET_BITS - length buf); br_inp := inp; br_marker := Some m; br_insuf := true |}
  else {| br_buf := buf; br_inp := inp; br_marker := Some m; br_insuf := insuf |}.

Definition fill_bit_buffer (st : brstate) (nbits : nat) : option brstate :=
  match br_marker st with
  | Some m => Some (no_more_bytes (br_buf st) (br_inp st) m (br_insuf st) nbits)
  | None =>
      match fill_loop 8 (br_buf st) (br_inp st) with
      | None => None
      | Some (b, i, None) => Some {| br_buf := b; br_inp := i; br_marker := None; br_insuf := br_insuf st |}
      | Some (b, i, Some m) => Some (no_more_bytes b i m (br_insuf st) nbits)
      end
  end.

Definition with_buf (st : brstate) (b : list bool) : brstate :=
  {| br_buf := b; br_inp := br_inp st; br_marker := br_marker st; br_insuf := br_insuf st |}.

(* one difference: HUFF_DECODE, then CHECK_BIT_BUFFER(s) + GET_BITS(s) + HUFF_EXTEND.
   None = suspension, or a code that does not fit the bits of the segment (the C then
   zero-fills with a warning; not reached on a well-formed segment) *)
Definition lazy_decode_tok (dec : Z -> list bool -> option (Z * list bool)) (tbl : Z) (st : brstate)
  : option (Z * brstate) :=
  match (if (length (br_buf st) <? 8)%nat then fill_bit_buffer st 0 else Some st) with
  | None => None
  | Some st0 =>
   (* slow path jpeg_huff_decode: CHECK_BIT_BUFFER(l) refills when the code is longer than
      the bits held; modelled as one refill up front when fewer than 16 bits (the longest
      code) are held -- same decoded values, possibly an earlier suspension *)
   match (if (length (br_buf st0) <? 16)%nat then fill_bit_buffer st0 0 else Some st0) with
   | None => None
   | Some st1 =>
      match dec tbl (br_buf st1) with
      | None => None
      | Some (s, b2) =>
          let st2 := with_buf st1 b2 in
          if s =? 0 then Some (0, st2)
          else if s =? 16 then Some (32768, st2)
          else
            match (if (length b2 <? Z.to_nat s)%nat then fill_bit_buffer st2 (Z.to_nat s) else Some st2) with
            | None => None
            | Some st3 =>
                match get_bits (Z.to_nat s) 0 (br_buf st3) with
                | None => None
                | Some (r, b4) => Some (huff_extend r s, with_buf st3 b4)
                end
            end
      end
   end
  end.

Fixpoint lazy_decode_toks (dec : Z -> list bool -> option (Z * list bool)) (tbls : list Z) (st : brstate)
  : option (list Z * brstate) :=
  match tbls with
  | [] => Some ([], st)
  | tbl :: t =>
      match lazy_decode_tok dec tbl st with
      | None => None
      | Some (d, st') =>
          match lazy_decode_toks dec t st' with
          | None => None
          | Some (ds, st'') => Some (d :: ds, st'')
          end
      end
  end.

(* jdlhuff.c process_restart + jdmarker.c read_restart_marker: the bits still in the
   buffer are dropped; the marker already met, or the next bytes, must be RST(num) *)
Definition process_restart_bytes (st : brstate) (num : Z) : option brstate :=
  match br_marker st with
  | Some m => if m =? JPEG_RST0 + num
              then Some {| br_buf := []; br_inp := br_inp st; br_marker := None; br_insuf := false |}
              else None
  | None =>
      match next_unit (br_inp st) with
      | Some (inr m, t) => if m =? JPEG_RST0 + num
                           then Some {| br_buf := []; br_inp := t; br_marker := None; br_insuf := false |}
                           else None
      | _ => None
      end
  end.

(* jddiffct.c decompress_data, input half, one MCU row per call: the result row is
   (restart_pending bit 0, the difference rows of the components of the scan) *)
Fixpoint dec_rows_lazy (dec : Z -> list bool -> option (Z * list bool)) (ri mpr : Z) (tbls : list Z) (w : nat)
         (h : nat) (st : brstate) (rtg num : Z) : option (list (bool * list (list Z)) * (brstate * Z * Z)) :=
  match h with
  | O => Some ([], (st, rtg, num))
  | S h' =>
      let restart := negb (ri =? 0) && (rtg =? 0) in
      match (if restart then process_restart_bytes st num else Some st) with
      | None => None
      | Some st1 =>
          let rtg1 := if restart then ri / mpr else rtg in
          let num1 := if restart then Z.land (num + 1) 7 else num in
          match lazy_decode_toks dec (concat (repeat tbls w)) st1 with
          | None => None
          | Some (ds, st2) =>
              let rtg2 := if ri =? 0 then rtg1 else u32 (rtg1 - 1) in
              match dec_rows_lazy dec ri mpr tbls w h' st2 rtg2 num1 with
              | None => None
              | Some (rows, st3) =>
                  Some ((restart, transpose (length tbls) (chunks (length tbls) w ds)) :: rows, st3)
              end
          end
      end
  end.

(* output half: "if (restart_pending & 1) start_pass_lossless" (every component back to the
   first-row undifferencer), undifference each component against its previous row, scale *)
Fixpoint undiff_rows_pending (psv prec pt : Z) (firsts : list bool) (prevs : list (list Z))
         (rows : list (bool * list (list Z))) : list (list (list Z)) :=
  match rows with
  | [] => []
  | (pending, dm) :: t =>
      let firsts1 := if pending then map (fun _ => true) firsts else firsts in
      let us := dec_mrow psv prec pt firsts1 prevs dm in
      map (scale_up (bits_of_prec prec) pt) us
        :: undiff_rows_pending psv prec pt (map (fun f => after_first_row f psv) firsts1) us t
  end.

(* the whole scan: sample rows -> bytes, and bytes -> sample rows *)
Definition encode_scan_e2e (cts : Z -> ctbl) (n : nat) (ri psv prec pt : Z) (tbls : list Z) (w : nat)
           (mrows : list (list (list Z))) : option (list Z) :=
  if params_ok psv prec pt && start_pass_ok ri (Z.of_nat w) then
    encode_scan_bytes cts ri tbls w
      (enc_scan_rows ri (Z.of_nat w) psv prec pt (repeat (reset_predictor ri (Z.of_nat w)) n) (repeat [] n) mrows)
  else None.

Definition decode_scan_e2e (dec : Z -> list bool -> option (Z * list bool)) (n : nat) (ri psv prec pt : Z)
           (tbls : list Z) (w h : nat) (bytes : list Z) : option (list (list (list Z)) * brstate) :=
  if params_ok psv prec pt && start_pass_ok ri (Z.of_nat w) then
    match dec_rows_lazy dec ri (Z.of_nat w) tbls w h
            {| br_buf := []; br_inp := bytes; br_marker := None; br_insuf := false |} (ri / Z.of_nat w) 0 with
    | None => None
    | Some (rows, (st, _, _)) => Some (undiff_rows_pending psv prec pt (repeat true n) (repeat [] n) rows, st)
    end
  else None.
