(* Huff.v -- executable model of the Huffman table machinery of libjpeg-turbo:
   jchuff.c  jpeg_gen_optimal_table, jpeg_make_c_derived_tbl
   jdhuff.c  jpeg_make_d_derived_tbl, jpeg_huff_decode (bit-serial F.16 path and
             the HUFF_LOOKAHEAD=8 table path of jdhuff.h HUFF_DECODE)
   jpeg_nbits.h JPEG_NBITS.
   No proofs here (they live in proofs/HuffProofs*.v) so that the model still
   extracts and runs when a proof breaks.  C integers are unbounded Z except
   where the code stores into UINT8 (bits[]), which is written as wrap8. *)
From Coq Require Import List ZArith Bool Lia.
Import ListNotations.
Local Open Scope Z_scope.

(* ------------------------------------------------------------------ nbits *)
Fixpoint nbits_pos (p : positive) : Z :=
  match p with xH => 1 | xO q => 1 + nbits_pos q | xI q => 1 + nbits_pos q end.
Definition nbits (x : Z) : Z := match x with Zpos p => nbits_pos p | _ => 0 end.

(* ------------------------------------------------------------ list helpers *)
Fixpoint upd {A} (i : nat) (x : A) (l : list A) : list A :=
  match l, i with
  | [], _ => []
  | _ :: t, O => x :: t
  | h :: t, S k => h :: upd k x t
  end.
Definition nthZ (l : list Z) (i : nat) : Z := nth i l 0.
Definition wrap8 (x : Z) : Z := x mod 256.
Fixpoint sumZ (l : list Z) : Z := match l with [] => 0 | x :: t => x + sumZ t end.

(* --------------------------------------------- jpeg_gen_optimal_table model *)
Definition SENT : Z := 1000000000.   (* v = v2 = 1000000000L                *)
Definition DEAD : Z := 1000000001.   (* freq[c2] = 1000000001L              *)
Definition MAX_CLEN : nat := 64.     (* #define MAX_CLEN  64                     *)
Definition LIMIT_LEN : nat := 16.    (* "for (i = MAX_CLEN; i > 16; i--)"        *)
Definition PSEUDO_SYM : nat := 256.  (* "freq[256] = 1": index ...               *)
Definition PSEUDO_COUNT : Z := 1.    (* ... and count of the pseudo symbol       *)

Inductive gen_err := ClenOverflow | OutOfFuel | IndexUnderflow.

(* the selection loop "for (i = 0; i < num_nz_symbols; i++) if (freq[i] <= v2) ..." *)
Record sel := { c1 : option nat; c2 : option nat; v : Z; v2 : Z }.
Definition sel0 : sel := {| c1 := None; c2 := None; v := SENT; v2 := SENT |}.
Definition sel_step (s : sel) (i : nat) (f : Z) : sel :=
  if f <=? v2 s then
    if f <=? v s then {| c1 := Some i; c2 := c1 s; v := f; v2 := v s |}
    else {| c1 := c1 s; c2 := Some i; v := v s; v2 := f |}
  else s.
Fixpoint sel_scan (fs : list Z) (i : nat) (s : sel) : sel :=
  match fs with [] => s | f :: r => sel_scan r (S i) (sel_step s i f) end.

(* A "chain" is the others[]-linked branch hanging off a live slot; each member
   carries its codesize.  chains[i] = [] for slots merged away. *)
Definition chain := list (nat * Z).
Record mstate := { freq : list Z; chains : list chain }.

Definition bump (ch : chain) : chain := map (fun sc => (fst sc, snd sc + 1)) ch.

Definition merge_step (st : mstate) : option mstate :=
  let s := sel_scan (freq st) 0 sel0 in
  match c1 s, c2 s with
  | Some a, Some b =>
      let fa := nthZ (freq st) a in
      let fb := nthZ (freq st) b in
      Some {| freq := upd b DEAD (upd a (fa + fb) (freq st));
              chains := upd b [] (upd a (bump (nth a (chains st) []) ++ bump (nth b (chains st) []))
                                        (chains st)) |}
  | _, _ => None
  end.

Fixpoint merge_loop (fuel : nat) (st : mstate) : option mstate :=
  match fuel with
  | O => None
  | S k => match merge_step st with
           | None => Some st
           | Some st' => merge_loop k st'
           end
  end.

Fixpoint init_chains (n i : nat) : list chain :=
  match n with O => [] | S k => [(i, 0)] :: init_chains k (S i) end.

Fixpoint lookup_cs (i : nat) (ch : chain) : Z :=
  match ch with
  | [] => 0
  | (s, c) :: t => if Nat.eqb s i then c else lookup_cs i t
  end.

(* codesize[i] for i < n, read back from the chains *)
Definition codesizes (n : nat) (st : mstate) : list Z :=
  let all := concat (chains st) in map (fun i => lookup_cs i all) (seq 0 n).

(* "bits[codesize[i]]++" into UINT8 bits[MAX_CLEN+1] *)
Fixpoint count_bits (cs : list Z) (bits : list Z) : option (list Z) :=
  match cs with
  | [] => Some bits
  | c :: t => if c >? Z.of_nat MAX_CLEN then None
              else count_bits t (upd (Z.to_nat c) (wrap8 (nthZ bits (Z.to_nat c) + 1)) bits)
  end.

(* "j = i - 2; while (bits[j] == 0) j--;"  None = the C would index below 0 *)
Fixpoint find_j (bits : list Z) (j : nat) : option nat :=
  if nthZ bits j =? 0 then match j with O => None | S j' => find_j bits j' end
  else Some j.

Definition limit_once (bits : list Z) (i : nat) : option (list Z) :=
  match find_j bits (i - 2) with
  | None => None
  | Some j =>
      let b1 := upd i (wrap8 (nthZ bits i - 2)) bits in
      let b2 := upd (i - 1) (wrap8 (nthZ b1 (i - 1) + 1)) b1 in
      let b3 := upd (j + 1) (wrap8 (nthZ b2 (j + 1) + 2)) b2 in
      let b4 := upd j (wrap8 (nthZ b3 j - 1)) b3 in
      Some b4
  end.

(* "while (bits[i] > 0) {...}" on explicit fuel *)
Fixpoint limit_while (fuel : nat) (bits : list Z) (i : nat) : option (option (list Z)) :=
  if nthZ bits i >? 0 then
    match fuel with
    | O => Some None                         (* out of fuel *)
    | S k => match limit_once bits i with
             | None => None                  (* index underflow *)
             | Some b => limit_while k b i
             end
    end
  else Some (Some bits).

(* "for (i = MAX_CLEN; i > 16; i--)" : k counts the remaining iterations, i = 16 + k;
   called with k = MAX_CLEN - LIMIT_LEN *)
Fixpoint limit_for (k : nat) (bits : list Z) : option (option (list Z)) :=
  match k with
  | O => Some (Some bits)
  | S k' => match limit_while 300 bits (LIMIT_LEN + k) with
            | Some (Some b) => limit_for k' b
            | r => r
            end
  end.

(* "while (bits[i] == 0) i--; bits[i]--;" starting at i = 16 *)
Definition remove_pseudo (bits : list Z) : option (list Z) :=
  match find_j bits LIMIT_LEN with
  | None => None
  | Some i => Some (upd i (wrap8 (nthZ bits i - 1)) bits)
  end.

(* huffval: the first num_nz-1 slots ordered by (original codesize, slot) --
   what the bit_pos[] counting sort produces *)
Definition symbols_of_len (cs : list Z) (nz : list Z) (n1 : nat) (l : Z) : list Z :=
  map (fun i => nthZ nz i) (filter (fun i => nthZ cs i =? l) (seq 0 n1)).
Definition huffval_of (cs : list Z) (nz : list Z) (n1 : nat) : list Z :=
  concat (map (fun l => symbols_of_len cs nz n1 (Z.of_nat l)) (seq 1 MAX_CLEN)).

(* grouping of the non-zero frequencies; freq256 has 257 entries, entry 256 := 1 *)
Fixpoint nz_scan (fs : list Z) (i : Z) : list (Z * Z) :=
  match fs with
  | [] => []
  | f :: t => if f =? 0 then nz_scan t (i + 1) else (i, f) :: nz_scan t (i + 1)
  end.

Record hufftbl := { h_bits : list Z (* 17 entries, [0] unused *); h_vals : list Z }.

Definition gen_codesizes (freq256 : list Z) : gen_err + (list Z * list Z) :=
  let nzs := nz_scan (firstn PSEUDO_SYM freq256 ++ [PSEUDO_COUNT]) 0 in
  let n := length nzs in
  let st0 := {| freq := map snd nzs; chains := init_chains n 0 |} in
  match merge_loop n st0 with
  | None => inl OutOfFuel
  | Some st => inr (map fst nzs, codesizes n st)
  end.

Definition gen_optimal_table (freq256 : list Z) : gen_err + hufftbl :=
  match gen_codesizes freq256 with
  | inl e => inl e
  | inr (nz, cs) =>
      match count_bits cs (repeat 0 (S MAX_CLEN)) with
      | None => inl ClenOverflow
      | Some bits0 =>
          match limit_for (MAX_CLEN - LIMIT_LEN) bits0 with
          | None => inl IndexUnderflow
          | Some None => inl OutOfFuel
          | Some (Some bits1) =>
              match remove_pseudo bits1 with
              | None => inl IndexUnderflow
              | Some bits2 =>
                  inr {| h_bits := firstn 17 bits2;
                         h_vals := huffval_of cs nz (length nz - 1) |}
              end
          end
      end
  end.

(* ------------------------------------- derived tables (Figures C.1 - C.3) *)
Inductive tbl_err := BadHuffTable.

(* C.1: huffsize[] ; None = "p + i > 256" *)
Fixpoint huffsizes (bits : list Z) (l : Z) (p : Z) : option (list Z) :=
  match bits with
  | [] => Some []
  | b :: t => if (b <? 0) || (p + b >? 256) then None
              else match huffsizes t (l + 1) (p + b) with
                   | None => None
                   | Some r => Some (repeat l (Z.to_nat b) ++ r)
                   end
  end.

(* C.2: canonical codes with the legality test "code >= 1 << si => error".
   The C alternates  "while (huffsize[p] == si) assign"  and
   "test; code <<= 1; si++".  Between two assigned sizes si < s the test is
   repeated on code*2^k against 2^(si+k), which is the same comparison each
   time, so the (s - si) shift steps are folded into one multiplication.
   sizes is non-decreasing by construction (huffsizes). *)
Fixpoint codes_from (sizes : list Z) (code si : Z) : option (list Z) :=
  match sizes with
  | [] => if code >=? 2 ^ si then None else Some []
  | s :: t =>
      if s =? si then
        match codes_from t (code + 1) si with None => None | Some r => Some (code :: r) end
      else if code >=? 2 ^ si then None
      else
        let c := code * 2 ^ (s - si) in
        match codes_from t (c + 1) s with None => None | Some r => Some (c :: r) end
  end.

Definition gen_codes (sizes : list Z) : option (list Z) :=
  match sizes with
  | [] => Some []
  | s0 :: _ => codes_from sizes 0 s0
  end.

Record ctbl := { ehufco : list Z; ehufsi : list Z }.   (* 256 (or 257) entries *)

Fixpoint fill_c (vals codes sizes : list Z) (maxsym : Z) (co si : list Z) : option ctbl :=
  match vals, codes, sizes with
  | sym :: vt, c :: ct, s :: st =>
      if (sym <? 0) || (sym >? maxsym) || negb (nthZ si (Z.to_nat sym) =? 0) then None
      else fill_c vt ct st maxsym (upd (Z.to_nat sym) c co) (upd (Z.to_nat sym) s si)
  | _, _, _ => Some {| ehufco := co; ehufsi := si |}
  end.

(* bits: 17 entries (index 0 ignored), vals: huffval prefix (at least sum bits) *)
Definition make_c_derived (bits vals : list Z) (maxsym : Z) : option ctbl :=
  match huffsizes (skipn 1 (firstn 17 bits)) 1 0 with
  | None => None
  | Some sizes =>
      match gen_codes sizes with
      | None => None
      | Some codes => fill_c (firstn (length sizes) vals) codes sizes maxsym (repeat 0 257) (repeat 0 257)
      end
  end.

Record dtbl := { maxcode : list Z;    (* 18 entries, [0] unused, [17] = 0xFFFFF *)
                 valoffset : list Z;  (* 18 entries *)
                 lookup : list Z;     (* 256 entries: (nb << 8) | sym *)
                 d_vals : list Z }.

Fixpoint d_scan (bits : list Z) (codes : list Z) (p : Z) : list (Z * Z) :=
  (* per length l (from 1): (maxcode, valoffset) *)
  match bits with
  | [] => []
  | b :: t =>
      if b =? 0 then (-1, 0) :: d_scan t codes p
      else
        let first := nthZ codes (Z.to_nat p) in
        let last := nthZ codes (Z.to_nat (p + b - 1)) in
        (last, p - first) :: d_scan t codes (p + b)
  end.

Definition HUFF_LOOKAHEAD : Z := 8.

(* lookup table, built functionally: entry for 8-bit index x = first code (in
   table order) of length l <= 8 whose left-justified range contains x; later
   codes overwrite earlier ones in the C, which for a prefix code never overlap *)
Fixpoint look_fill (codes sizes vals : list Z) (tab : list Z) : list Z :=
  match codes, sizes, vals with
  | c :: ct, s :: st, v :: vt =>
      if s <=? HUFF_LOOKAHEAD then
        let base := c * 2 ^ (HUFF_LOOKAHEAD - s) in
        let cnt := Z.to_nat (2 ^ (HUFF_LOOKAHEAD - s)) in
        let tab' := fold_left (fun tb k => upd (Z.to_nat (base + Z.of_nat k)) (s * 256 + v) tb) (seq 0 cnt) tab in
        look_fill ct st vt tab'
      else tab   (* sizes are sorted: nothing shorter follows *)
  | _, _, _ => tab
  end.

Definition make_d_derived (bits vals : list Z) (isDC : bool) (maxdc : Z) : option dtbl :=
  match huffsizes (skipn 1 (firstn 17 bits)) 1 0 with
  | None => None
  | Some sizes =>
      match gen_codes sizes with
      | None => None
      | Some codes =>
          let n := length sizes in
          let vs := firstn n vals in
          if isDC && negb (forallb (fun s => (0 <=? s) && (s <=? maxdc)) vs) then None
          else
            let mv := d_scan (skipn 1 (firstn 17 bits)) codes 0 in
            Some {| maxcode := (0 :: map fst mv) ++ [1048575];
                    valoffset := (0 :: map snd mv) ++ [0];
                    lookup := look_fill codes sizes vs (repeat ((HUFF_LOOKAHEAD + 1) * 256) 256);
                    d_vals := vs |}
      end
  end.

(* ------------------------------------------------ bit-level encode / decode *)
(* a code (value c, length s) as a list of bits, MSB first *)
Fixpoint bits_of (s : nat) (c : Z) : list bool :=
  match s with
  | O => []
  | S k => Z.testbit c (Z.of_nat k) :: bits_of k c
  end.

Definition encode_sym (t : ctbl) (sym : Z) : option (list bool) :=
  let s := nthZ (ehufsi t) (Z.to_nat sym) in
  if s =? 0 then None else Some (bits_of (Z.to_nat s) (nthZ (ehufco t) (Z.to_nat sym))).

Definition b2z (b : bool) : Z := if b then 1 else 0.

(* jpeg_huff_decode: bit-serial, starting with l = min_bits already fetched.
   Returns (symbol, remaining bits); None = ran out of bits (suspension);
   l = 17 sentinel => (0, rest) as in the C ("fake a zero") with warn flag *)
Fixpoint serial_loop (fuel : nat) (t : dtbl) (code l : Z) (bs : list bool) : option (Z * bool * list bool) :=
  if code >? nthZ (maxcode t) (Z.to_nat l) then
    match fuel, bs with
    | S k, b :: r => serial_loop k t (2 * code + b2z b) (l + 1) r
    | _, _ => None
    end
  else if l >? 16 then Some (0, true, bs)
  else Some (nthZ (d_vals t) (Z.to_nat (code + nthZ (valoffset t) (Z.to_nat l))), false, bs).

Fixpoint take_code (n : nat) (bs : list bool) (acc : Z) : option (Z * list bool) :=
  match n, bs with
  | O, _ => Some (acc, bs)
  | S k, b :: r => take_code k r (2 * acc + b2z b)
  | S _, [] => None
  end.

Definition decode_serial (t : dtbl) (min_bits : nat) (bs : list bool) : option (Z * bool * list bool) :=
  match take_code min_bits bs 0 with
  | None => None
  | Some (code, r) => serial_loop 20 t code (Z.of_nat min_bits) r
  end.

(* HUFF_DECODE with look-ahead: peek 8 bits (when available), table hit => nb
   bits consumed; else fall to the serial path with min_bits = 9.  When fewer
   than 8 bits are available the C goes to the slow label with min_bits = 1. *)
Definition decode_lookahead (t : dtbl) (bs : list bool) : option (Z * bool * list bool) :=
  if (8 <=? length bs)%nat then
    match take_code 8 bs 0 with
    | None => None
    | Some (look, _) =>
        let e := nthZ (lookup t) (Z.to_nat look) in
        let nb := e / 256 in
        if nb <=? HUFF_LOOKAHEAD then Some (e mod 256, false, skipn (Z.to_nat nb) bs)
        else decode_serial t 9 bs
    end
  else decode_serial t 1 bs.

(* ------------------------------------------------------- validity predicate *)
(* what C19 demands of a generated table, as a boolean *)
Definition kraft16 (bits : list Z) : Z :=    (* sum_{l=1..16} bits[l] * 2^(16-l) *)
  sumZ (map (fun l => nthZ bits l * 2 ^ (16 - Z.of_nat l)) (seq 1 16)).
Definition maxlen (bits : list Z) : Z :=
  fold_left (fun m l => if nthZ bits l >? 0 then Z.of_nat l else m) (seq 1 16) 0.
Definition nsyms (bits : list Z) : Z := sumZ (skipn 1 (firstn 17 bits)).
Fixpoint nodupZ (l : list Z) : bool :=
  match l with [] => true | x :: t => negb (existsb (Z.eqb x) t) && nodupZ t end.

Definition valid_table (t : hufftbl) : bool :=
  (length (h_bits t) =? 17)%nat &&
  forallb (fun b => 0 <=? b) (h_bits t) &&
  (nsyms (h_bits t) =? Z.of_nat (length (h_vals t))) &&
  (nsyms (h_bits t) <=? 256) &&
  nodupZ (h_vals t) &&
  forallb (fun s => (0 <=? s) && (s <=? 255)) (h_vals t) &&
  ((nsyms (h_bits t) =? 0) ||
   (kraft16 (h_bits t) + 2 ^ (16 - maxlen (h_bits t)) <=? 2 ^ 16)).
