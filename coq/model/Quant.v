(* C07 -- executable model of the quantisation side of src/jcdctmgr.c
   (flss, compute_reciprocal, the divisor set-up of start_pass_fdctmgr for
   JDCT_ISLOW, quantize).  No proofs here.

   Machine arithmetic is written out: wrapU w / wrapS w are the conversions to
   an unsigned / signed C integer type of w bits.  A build is described by
     c_bits : BITS_IN_JSAMPLE (8 or 12)
     c_dw   : width of DCTELEM     (8-bit WITH_SIMD: short = 16; 8-bit scalar: int = 32;
                                    12-bit: JLONG = long = 64)
     c_mw   : width of MULTIPLIER / ISLOW_MULT_TYPE (short = 16 or int = 32)
     c_simd : WITH_SIMD defined in the translation unit
   UDCTELEM has c_dw bits and UDCTELEM2 has 2*c_dw bits (unsigned int / unsigned long long). *)
From Coq Require Import List ZArith Bool.
From LJT Require Import gen.GenDctConst.
Import ListNotations.
Local Open Scope Z_scope.

Definition wrapU (w x : Z) : Z := x mod 2 ^ w.
Definition wrapS (w x : Z) : Z := (x + 2 ^ (w - 1)) mod 2 ^ w - 2 ^ (w - 1).

Record cfg := mkcfg { c_bits : Z; c_dw : Z; c_mw : Z; c_simd : bool }.

(* LOCAL(int) flss(UINT16 val) *)
Definition flss (val0 : Z) : Z :=
  let val := wrapU 16 val0 in
  let bit := 16 in
  if val =? 0 then 0 else
  let '(bit, val) := if Z.land val 65280 =? 0 then (bit - 8, wrapU 16 (Z.shiftl val 8)) else (bit, val) in
  let '(bit, val) := if Z.land val 61440 =? 0 then (bit - 4, wrapU 16 (Z.shiftl val 4)) else (bit, val) in
  let '(bit, val) := if Z.land val 49152 =? 0 then (bit - 2, wrapU 16 (Z.shiftl val 2)) else (bit, val) in
  let '(bit, val) := if Z.land val 32768 =? 0 then (bit - 1, wrapU 16 (Z.shiftl val 1)) else (bit, val) in
  bit.

(* the four dtbl[] entries written by compute_reciprocal (as DCTELEM values) and its result *)
Record recip := mkrecip { r_recip : Z; r_corr : Z; r_scale : Z; r_shift : Z; r_ret : Z }.

(* LOCAL(int) compute_reciprocal(UINT16 divisor, DCTELEM *dtbl); None = the integer
   division by zero that traps (SIGFPE) when the 16-bit parameter is 0 *)
Definition compute_reciprocal (cf : cfg) (divisor0 : Z) : option recip :=
  let W := c_dw cf in
  let divisor := wrapU 16 divisor0 in                         (* UINT16 parameter *)
  if divisor =? 1 then
    Some (mkrecip (wrapS W 1) (wrapS W 0) (wrapS W 1) (wrapS W (- wrapS W W)) 0)
  else if divisor =? 0 then None
  else
    let b := flss divisor - 1 in
    let r := W + b in
    let fq := wrapU (2 * W) (Z.shiftl 1 r) / divisor in       (* ((UDCTELEM2)1 << r) / divisor *)
    let fr := wrapU (2 * W) (Z.shiftl 1 r) mod divisor in
    let c := wrapU W (divisor / 2) in                         (* UDCTELEM c *)
    let '(fq, r, c) :=
      if fr =? 0 then (Z.shiftr fq 1, r - 1, c)
      else if fr <=? divisor / 2 then (fq, r, wrapU W (c + 1))
      else (wrapU (2 * W) (fq + 1), r, c) in
    Some (mkrecip (wrapS W fq) (wrapS W c)
                  (if c_simd cf then wrapS W (Z.shiftl 1 (W * 2 - r)) else 1)
                  (wrapS W (wrapS W r - W))
                  (if r <=? 16 then 0 else 1)).

(* one element of quantize(), BITS_IN_JSAMPLE == 8 arm *)
Definition quantize_recip_one (cf : cfg) (rc : recip) (temp0 : Z) : Z :=
  let W := c_dw cf in
  let recip := wrapU W (r_recip rc) in        (* UDCTELEM recip = divisors[i + DCTSIZE2 * 0] *)
  let corr := wrapU W (r_corr rc) in
  let shift := r_shift rc in
  if temp0 <? 0 then
    let temp := wrapS W (- temp0) in
    let product := wrapU (2 * W) (wrapU 32 (temp + corr) * recip) in
    let product := Z.shiftr product (shift + W) in
    let temp := wrapS W product in
    wrapS 16 (wrapS W (- temp))
  else
    let product := wrapU (2 * W) (wrapU 32 (temp0 + corr) * recip) in
    let product := Z.shiftr product (shift + W) in
    wrapS 16 (wrapS W product).

(* jsimd_quantize (SSE2/AVX2 pmulhuw twice): ((|x| + corr) * recip >> 16) * scale >> 16, sign restored *)
Definition quantize_simd_one (rc : recip) (x : Z) : Z :=
  let a := wrapU 16 (Z.abs x + wrapU 16 (r_corr rc)) in
  let h := Z.shiftr (a * wrapU 16 (r_recip rc)) 16 in
  let h := Z.shiftr (h * wrapU 16 (r_scale rc)) 16 in
  wrapS 16 (if x <? 0 then - h else h).

(* one element of quantize(), 12-bit arm: DIVIDE_BY(a, b) = if (a >= b) a /= b; else a = 0 *)
Definition divide_by (a b : Z) : Z := if a >=? b then a / b else 0.
Definition quantize_div_one (qval temp0 : Z) : Z :=
  if temp0 <? 0 then
    let temp := - temp0 in
    let temp := temp + Z.shiftr qval 1 in
    let temp := divide_by temp qval in
    wrapS 16 (- temp)
  else
    let temp := temp0 + Z.shiftr qval 1 in
    wrapS 16 (divide_by temp qval).

(* the divisor handed to compute_reciprocal by start_pass_fdctmgr (JDCT_ISLOW, 8-bit):
   quantval << 3 in int, then CLAMP_DIVISOR if the source has it, then the UINT16 parameter *)
Definition scaled_divisor (quantval : Z) : Z :=
  let d := Z.shiftl quantval divisor_shift in
  if divisor_clamped then (if d >? divisor_clamp_limit then wrapU 16 divisor_clamp_limit else wrapU 16 d)
  else wrapU 16 d.

Inductive divisor := DRecip (rc : recip) | DDiv (qval : Z).

Definition start_pass_divisor (cf : cfg) (quantval : Z) : option divisor :=
  if c_bits cf =? 8 then
    match compute_reciprocal cf (scaled_divisor quantval) with
    | Some rc => Some (DRecip rc)
    | None => None
    end
  else Some (DDiv (wrapS (c_dw cf) (Z.shiftl quantval divisor_shift_12))).

Fixpoint all_some {A} (l : list (option A)) : option (list A) :=
  match l with
  | [] => Some []
  | None :: _ => None
  | Some x :: t => match all_some t with Some t' => Some (x :: t') | None => None end
  end.

Definition start_pass_divisors (cf : cfg) (qtbl : list Z) : option (list divisor) :=
  all_some (map (start_pass_divisor cf) qtbl).

Definition quantize_one (cf : cfg) (d : divisor) (x : Z) : Z :=
  match d with
  | DRecip rc => quantize_recip_one cf rc x
  | DDiv qval => quantize_div_one qval x
  end.

Fixpoint map2 {A B C} (f : A -> B -> C) (l : list A) (m : list B) : list C :=
  match l, m with
  | a :: l', b :: m' => f a b :: map2 f l' m'
  | _, _ => []
  end.

(* quantize(coef_block, divisors, workspace) *)
Definition quantize_block (cf : cfg) (divs : list divisor) (ws : list Z) : list Z :=
  map2 (quantize_one cf) divs ws.

(* the specification the quantiser is compared with: round-half-up division of the magnitude *)
Definition rdiv (x d : Z) : Z := Z.sgn x * ((Z.abs x + d / 2) / d).
