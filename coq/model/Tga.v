(* C18 -- executable model of the Targa reader (src/rdtarga.c): start_input_tga, read_colormap,
   read_non_rle_pixel, read_rle_pixel (block / duplicate counts carried across rows),
   get_8bit_gray_row, get_8bit_row, get_16bit_row, get_24bit_row (= get_32bit_row), and the
   bottom-up path preload_image + get_memory_row.  tga_pixel[] starts "never written".
   Constants come from gen/GenImgRd.v.  No proofs here. *)
From Coq Require Import List ZArith Bool.
From LJT Require Import gen.GenImgRd model.RdCommon.
Import ListNotations.
Local Open Scope Z_scope.

Record tga_hdr := { t_w : Z; t_h : Z; t_rle : bool; t_sub : Z (* 1, 2, 3 *); t_psize : Z; t_bottom_up : bool;
                    t_cmap : list (Z * Z * Z); t_comps : Z }.

(* read_colormap: B, G, R per entry *)
Fixpoint tga_cmap (n : nat) (l : list Z) : list (Z * Z * Z) :=
  match n with
  | O => []
  | S m => (znth l 2 0, znth l 1 0, znth l 0 0) :: tga_cmap m (skipn 3 l)
  end.

Definition tga_header (maxpixels : Z) (s : list Z) : rres (tga_hdr * list Z) :=
  match take_n 18 s with
  | None => RErr R_EOF
  | Some (h, s1) =>
    let depth := if znth h 16 0 =? 15 then 16 else znth h 16 0 in
    let idlen := znth h 0 0 in
    let cmaptype := znth h 1 0 in
    let subtype := znth h 2 0 in
    let maplen := le16 h 5 in
    let w := le16 h 12 in
    let ht := le16 h 14 in
    let psize := depth / 8 in
    let flags := znth h 17 0 in
    let bottom_up := Z.land flags 32 =? 0 in
    let interlace := flags / 64 in
    if (cmaptype >? 1) || (psize <? 1) || (psize >? 4) || negb (Z.land depth 7 =? 0) || negb (interlace =? 0)
       || (w =? 0) || (ht =? 0) then RErr R_TGA_BADPARMS
    else if negb (maxpixels =? 0) && (w * ht >? maxpixels) then RErr R_TOOBIG
    else
      let rle := subtype >? 8 in
      let sub := if rle then subtype - 8 else subtype in
      let^ comps :=
        (if sub =? 1 then (if (psize =? 1) && (cmaptype =? 1) then ROk 3 else RErr R_TGA_BADPARMS)
         else if sub =? 2 then (if (psize =? 2) || (psize =? 3) || (psize =? 4) then ROk 3 else RErr R_TGA_BADPARMS)
         else if sub =? 3 then (if psize =? 1 then ROk 1 else RErr R_TGA_BADPARMS)
         else RErr R_TGA_BADPARMS) in
      let^ (_, s2) := rtake idlen s1 in
      let^ (cm, s3) :=
        (if maplen >? 0 then
           if (maplen >? tga_max_maplen) || negb (le16 h 3 =? 0) then RErr R_TGA_BADCMAP
           else if negb (znth h 7 0 =? tga_cmap_entry_bits) then RErr R_TGA_BADCMAP
           else let^ (cb, s3) := rtake (maplen * 3) s2 in ROk (tga_cmap (Z.to_nat maplen) cb, s3)
         else if negb (cmaptype =? 0) then RErr R_TGA_BADPARMS
         else ROk ([], s2)) in
      ROk ({| t_w := w; t_h := ht; t_rle := rle; t_sub := sub; t_psize := psize; t_bottom_up := bottom_up;
              t_cmap := cm; t_comps := comps |}, s3)
  end.

(* reader state: rest of file, tga_pixel (None = never written), block_count, dup_pixel_count *)
Record tga_st := { ts_in : list Z; ts_px : option (list Z); ts_block : Z; ts_dup : Z }.

(* for (i = 0; i < pixel_size; i++) tga_pixel[i] = read_byte() *)
Definition read_raw_pixel (psize : Z) (st : tga_st) : rres tga_st :=
  if psize >? 4 then RErr R_OOB else                       (* U_CHAR tga_pixel[4] *)
  let^ (px, rest) := rtake psize (ts_in st) in
  ROk {| ts_in := rest; ts_px := Some px; ts_block := ts_block st; ts_dup := ts_dup st |}.

(* read_rle_pixel *)
Definition read_rle_pixel (psize : Z) (st : tga_st) : rres tga_st :=
  if ts_dup st >? 0 then
    ROk {| ts_in := ts_in st; ts_px := ts_px st; ts_block := ts_block st; ts_dup := ts_dup st - 1 |}
  else
    let^ st1 :=
      (if ts_block st - 1 <? 0 then
         match ts_in st with
         | [] => RErr R_EOF
         | i :: rest =>
           if negb (Z.land i 128 =? 0)
           then ROk {| ts_in := rest; ts_px := ts_px st; ts_block := 0; ts_dup := Z.land i 127 |}
           else ROk {| ts_in := rest; ts_px := ts_px st; ts_block := Z.land i 127; ts_dup := 0 |}
         end
       else ROk {| ts_in := ts_in st; ts_px := ts_px st; ts_block := ts_block st - 1; ts_dup := ts_dup st |}) in
    read_raw_pixel psize st1.

Definition read_pixel (hd : tga_hdr) (st : tga_st) : rres tga_st :=
  if t_rle hd then read_rle_pixel (t_psize hd) st else read_raw_pixel (t_psize hd) st.

Definition c5 (i : Z) : rres Z :=
  match nth_error c5to8 (Z.to_nat i) with Some v => ROk v | None => RErr R_OOB end.

(* one pixel of get_8bit_gray_row / get_8bit_row / get_16bit_row / get_24bit_row *)
Definition tga_out_pixel (hd : tga_hdr) (st : tga_st) : rres (list Z) :=
  match ts_px st with
  | None => RErr R_UNINIT
  | Some px =>
    if t_sub hd =? 3 then ROk [znth px 0 0]
    else if t_sub hd =? 1 then
      let t := znth px 0 0 in
      if tga_index_check && (t >=? Z.of_nat (length (t_cmap hd))) then RErr R_TGA_BADPARMS else
      match nth_error (t_cmap hd) (Z.to_nat t) with
      | Some (r, g, b) => ROk [r; g; b]
      | None => RErr R_OOB
      end
    else if t_psize hd =? 2 then
      let t := znth px 0 0 + 256 * znth px 1 0 in
      let^ b := c5 (t mod 32) in
      let^ g := c5 ((t / 32) mod 32) in
      let^ r := c5 ((t / 1024) mod 32) in
      ROk [r; g; b]
    else ROk [znth px 2 0; znth px 1 0; znth px 0 0]
  end.

Fixpoint tga_row (hd : tga_hdr) (n : nat) (st : tga_st) : rres (list Z * tga_st) :=
  match n with
  | O => ROk ([], st)
  | S m =>
    let^ st1 := read_pixel hd st in
    let^ px := tga_out_pixel hd st1 in
    let^ (rest, st2) := tga_row hd m st1 in
    ROk (px ++ rest, st2)
  end.

Fixpoint tga_rows (hd : tga_hdr) (n : nat) (st : tga_st) : rres (list (list Z)) :=
  match n with
  | O => ROk []
  | S m =>
    let^ (row, st1) := tga_row hd (Z.to_nat (t_w hd)) st in
    let^ rows := tga_rows hd m st1 in
    ROk (row :: rows)
  end.

(* rows in top-down order: file order when the top-down flag is set, reversed otherwise
   (preload_image + get_memory_row: source_row = height - current_row - 1) *)
Definition load_tga (maxpixels : Z) (s : list Z) : rres (Z * Z * Z * list (list Z)) :=
  let^ (hd, s1) := tga_header maxpixels s in
  let^ rows := tga_rows hd (Z.to_nat (t_h hd)) {| ts_in := s1; ts_px := None; ts_block := 0; ts_dup := 0 |} in
  ROk (t_w hd, t_h hd, t_comps hd, if t_bottom_up hd then rev rows else rows).
