(* MarkerScan.v -- executable model of the marker scanner of jdmarker.c (C16): next_marker (skips garbage bytes counting
   them in discarded_bytes, swallows FF fill bytes without counting them, discards stuffed FF 00 pairs counting 2) and
   first_marker (the SOI test).  The other C16 models read well-formed marker sequences; this is the code they step over.
   The two nested loops of next_marker are the two states of one automaton over the input bytes:
     after_ff = false : "INPUT_BYTE(c); while (c != 0xFF) { discarded_bytes++; INPUT_BYTE(c); }"
     after_ff = true  : "do INPUT_BYTE(c) while (c == 0xFF); if (c != 0) break; discarded_bytes += 2;"
   None = the data ran out (suspension, nothing decided).  No proofs here. *)
From Coq Require Import List ZArith Bool.
From LJT Require Import gen.GenIccConst.
Import ListNotations.
Local Open Scope Z_scope.

Fixpoint next_marker_scan (bs : list Z) (after_ff : bool) (disc : Z) : option (Z * Z * list Z) :=
  match bs with
  | [] => None
  | c :: r =>
      if after_ff then
        if c =? 255 then next_marker_scan r true disc
        else if c =? 0 then next_marker_scan r false (disc + 2)
        else Some (c, disc, r)                                   (* unread_marker, discarded_bytes, rest *)
      else if c =? 255 then next_marker_scan r true disc
      else next_marker_scan r false (disc + 1)
  end.
Definition next_marker_full (bs : list Z) : option (Z * Z * list Z) := next_marker_scan bs false 0.

Inductive first_res := FSuspend | FNoSoi (c c2 : Z) | FOk (rest : list Z).
Definition first_marker (bs : list Z) : first_res :=
  match bs with
  | c :: c2 :: r => if (c =? 255) && (c2 =? M_SOI) then FOk r else FNoSoi c c2
  | _ => FSuspend
  end.

(* the markers the reader meets up to the first SOS, each with the number of bytes discarded in front of it; the
   parameters of every marker are stepped over by its length word (this list is what JWRN_EXTRANEOUS_DATA reports) *)
Fixpoint scan_header (fuel : nat) (bs : list Z) : list (Z * Z) :=
  match fuel with
  | O => []
  | S f =>
      match next_marker_full bs with
      | None => []
      | Some (m, d, r) =>
          if m =? M_SOS then [(m, d)]
          else if (m =? M_SOI) || (m =? M_EOI) || ((M_RST0 <=? m) && (m <=? M_RST7)) || (m =? M_TEM) then (m, d) :: scan_header f r
          else match r with
               | hi :: lo :: r2 => (m, d) :: scan_header f (skipn (Z.to_nat (hi * 256 + lo - 2)) r2)
               | _ => [(m, d)]
               end
      end
  end.
