(* C15 -- threads, steps with footprints, interleavings.  Executable model, no proofs.

   A program is a list of threads, a thread a list of steps.  A step declares the
   locations it reads and writes; its semantics receives ONLY the values of the
   locations it reads (so it is a function of them by construction) and
   produces the new values of the locations it writes.  An interleaving is any
   merge of the threads' step lists. *)
From Coq Require Import List ZArith Bool Arith.
Import ListNotations.

Inductive loc :=
| Inst (i f : nat)      (* field f of instance i (tjinstance / jpeg_(de)compress_struct + its pools) *)
| TlsL (t g : nat)      (* thread-local object g of thread t (errStr, simd_support, simd_huffman) *)
| Glob (g : nat)        (* process-wide static-storage object g (an entry of the generated inventory) *)
| Env.                  (* the process environment *)

Definition loc_eqb (a b : loc) : bool :=
  match a, b with
  | Inst i f, Inst j g => Nat.eqb i j && Nat.eqb f g
  | TlsL t g, TlsL u h => Nat.eqb t u && Nat.eqb g h
  | Glob g, Glob h => Nat.eqb g h
  | Env, Env => true
  | _, _ => false
  end.

Definition is_shared (l : loc) : bool := match l with Glob _ | Env => true | _ => false end.

Definition val := Z.
Definition state := loc -> val.

Record step := mk_step {
  reads  : list loc;
  writes : list loc;
  sem    : list val -> loc -> val      (* values of [reads], in order -> new value of each written location *)
}.

Definition mem (l : loc) (ls : list loc) : bool := existsb (loc_eqb l) ls.

Definition observe (st : step) (s : state) : list val := map s (reads st).

Definition exec (st : step) (s : state) : state :=
  fun l => if mem l (writes st) then sem st (observe st s) l else s l.

Definition footprint (st : step) : list loc := reads st ++ writes st.

Definition thread := list step.
Definition program := list thread.
Definition event := (nat * step)%type.       (* (thread id, step) *)

Fixpoint run (tr : list event) (s : state) : state :=
  match tr with
  | [] => s
  | e :: tr' => run tr' (exec (snd e) s)
  end.

(* what thread t observes (the values each of its steps reads) along a run *)
Fixpoint obs_of (t : nat) (tr : list event) (s : state) : list (list val) :=
  match tr with
  | [] => []
  | e :: tr' =>
      let r := obs_of t tr' (exec (snd e) s) in
      if Nat.eqb (fst e) t then observe (snd e) s :: r else r
  end.

Definition solo (t : nat) (th : thread) : list event := map (pair t) th.

Definition proj (t : nat) (tr : list event) : list step :=
  map snd (filter (fun e => Nat.eqb (fst e) t) tr).

(* tr is a merge of the threads of p: every event belongs to a thread of p and the
   sub-sequence of thread t's events is exactly thread t, in order *)
Definition is_interleaving (p : program) (tr : list event) : Prop :=
  (forall e, In e tr -> fst e < length p) /\
  (forall t, t < length p -> proj t tr = nth t p []).

(* the same notion, inductively: repeatedly pick a thread with a pending step *)
Fixpoint upd {A} (l : list A) (k : nat) (x : A) : list A :=
  match l, k with
  | [], _ => []
  | _ :: tl, O => x :: tl
  | h :: tl, S k' => h :: upd tl k' x
  end.

Inductive Merge : program -> list event -> Prop :=
| Merge_nil p : (forall th, In th p -> th = []) -> Merge p []
| Merge_cons p t st rest tr :
    nth_error p t = Some (st :: rest) -> Merge (upd p t rest) tr -> Merge p ((t, st) :: tr).

(* executable enumeration of all merges of two event lists *)
Fixpoint merges2 (a : list event) : list event -> list (list event) :=
  fix inner (b : list event) : list (list event) :=
    match a, b with
    | [], _ => [b]
    | _, [] => [a]
    | x :: a', y :: b' => map (cons x) (merges2 a' b) ++ map (cons y) (inner b')
    end.

(* hypotheses of the noninterference theorem *)
Definition no_shared_writes (p : program) : Prop :=
  forall th st l, In th p -> In st th -> In l (writes st) -> is_shared l = false.

Definition private_disjoint (p : program) : Prop :=
  forall t u a b l, t <> u -> In a (nth t p []) -> In b (nth u p []) ->
    In l (footprint a) -> In l (footprint b) -> is_shared l = true.

Definition conflict (a b : step) (l : loc) : Prop :=
  (In l (writes a) /\ In l (footprint b)) \/ (In l (writes b) /\ In l (footprint a)).

Definition touches (th : thread) (l : loc) : Prop := exists st, In st th /\ In l (footprint st).
Definition writes_loc (th : thread) (l : loc) : Prop := exists st, In st th /\ In l (writes st).

(* boolean versions (for the examples) *)
Definition no_shared_writes_b (p : program) : bool :=
  forallb (fun th => forallb (fun st => forallb (fun l => negb (is_shared l)) (writes st)) th) p.

Definition steps_disjoint_b (a b : step) : bool :=
  forallb (fun l => negb (mem l (footprint b)) || is_shared l) (footprint a).

Fixpoint private_disjoint_b (p : program) : bool :=
  match p with
  | [] => true
  | th :: rest =>
      forallb (fun a => forallb (fun th' => forallb (fun b => steps_disjoint_b a b) th') rest) th
      && private_disjoint_b rest
  end.

(* ------------------------------------------------------------------ API level
   The shape the library's operations have once the generated inventory is
   benign: an operation of thread t on its instance i reads and writes fields of
   instance i and thread t's thread-local objects, reads process-wide objects
   and the environment, and writes neither. *)
Inductive api_op :=
| OpCreate | OpDestroy | OpSet | OpCompress | OpDecompress | OpTransform
| OpFail | OpGetErr | OpHelper.

Definition n_inst_fields := 4%nat.   (* 0 codec state incl. pools, 1 errStr, 2 isInstanceError/warning, 3 dummy-buffer pointer/output *)
Definition n_tls := 3%nat.           (* 0 errStr, 1 simd_support, 2 simd_huffman *)

Definition own_locs (t : nat) (i : option nat) : list loc :=
  match i with
  | Some i => map (Inst i) (seq 0 n_inst_fields)
  | None => []
  end ++ map (TlsL t) (seq 0 n_tls).

Definition shared_locs (nglob : nat) : list loc := Env :: map Glob (seq 0 nglob).

Record api_call := mk_call {
  c_inst : option nat;                 (* None: instance-less helper (tj3JPEGBufSize, tj3Alloc, ...) *)
  c_op   : api_op;
  c_rsel : loc -> bool;                (* which of the admissible locations this call really reads *)
  c_wsel : loc -> bool;                (* ... and writes *)
  c_sem  : list val -> loc -> val
}.

Definition api_step (nglob t : nat) (c : api_call) : step :=
  mk_step (filter (c_rsel c) (own_locs t (c_inst c) ++ shared_locs nglob))
          (filter (c_wsel c) (own_locs t (c_inst c)))
          (c_sem c).

(* a program built from per-call steps mk t c (thread t performs call c) *)
Fixpoint call_threads (mk : nat -> api_call -> step) (t : nat) (p : list (list api_call)) : program :=
  match p with
  | [] => []
  | th :: r => map (mk t) th :: call_threads mk (S t) r
  end.

Definition call_program (mk : nat -> api_call -> step) (p : list (list api_call)) : program := call_threads mk 0 p.

Definition api_program (nglob : nat) (p : list (list api_call)) : program := call_program (api_step nglob) p.

(* the footprint of the step that stands for call c of thread t stays inside what the
   inventory allows: writes only its own instance and its own thread-local objects,
   reads those, process-wide objects and the environment *)
Definition within_inventory (nglob : nat) (mk : nat -> api_call -> step) : Prop :=
  forall t c,
    (forall l, In l (writes (mk t c)) -> In l (own_locs t (c_inst c))) /\
    (forall l, In l (reads (mk t c)) -> In l (own_locs t (c_inst c)) \/ In l (shared_locs nglob)).

(* each instance is used by one thread only *)
Definition instances_exclusive (p : list (list api_call)) : Prop :=
  forall t u a b i, t <> u -> In a (nth t p []) -> In b (nth u p []) ->
    c_inst a = Some i -> c_inst b = Some i -> False.

(* ------------------------------------------------------------------ executable checks (examples) *)
Fixpoint leqb {A} (eqb : A -> A -> bool) (a b : list A) : bool :=
  match a, b with
  | [], [] => true
  | x :: a', y :: b' => eqb x y && leqb eqb a' b'
  | _, _ => false
  end.

Definition touches_b (th : thread) (l : loc) : bool := existsb (fun st => mem l (footprint st)) th.

(* does trace tr give every thread of p its solo observations and solo final values (on locs)? *)
Definition check_trace (p : program) (locs : list loc) (s0 : state) (tr : list event) : bool :=
  forallb (fun t =>
    leqb (leqb Z.eqb) (obs_of t tr s0) (obs_of t (solo t (nth t p [])) s0) &&
    forallb (fun l => if touches_b (nth t p []) l
                      then Z.eqb (run tr s0 l) (run (solo t (nth t p [])) s0 l) else true) locs)
    (seq 0 (length p)).

Local Open Scope Z_scope.

(* a 2-thread, 2-instance program, 3 steps per thread:
     create   : Inst i 0 := k
     compress : reads Inst i 0, the const table Glob 0, the env, TLS simd word;  writes Inst i 3 (output), TlsL t 1
     failing  : reads Inst i 0; writes Inst i 1 (instance errStr), Inst i 2, TlsL t 0 (thread-local errStr) *)
Definition ex_thread (t i : nat) (k : Z) : thread :=
  [ mk_step [] [Inst i 0] (fun _ _ => k);
    mk_step [Inst i 0; Glob 0; Env; TlsL t 1] [Inst i 3; TlsL t 1]
            (fun vs l => match l with Inst _ _ => fold_right Z.add 0 vs * 3 + k | _ => 1 end);
    mk_step [Inst i 0; Inst i 3] [Inst i 1; Inst i 2; TlsL t 0]
            (fun vs l => match l with Inst _ 1 => fold_right Z.add 5 vs | Inst _ _ => 1 | _ => fold_right Z.add 7 vs end) ].

Definition ex_program : program := [ex_thread 0 0 11; ex_thread 1 1 23].

Definition ex_locs : list loc :=
  [Inst 0 0; Inst 0 1; Inst 0 2; Inst 0 3; Inst 1 0; Inst 1 1; Inst 1 2; Inst 1 3;
   TlsL 0 0; TlsL 0 1; TlsL 1 0; TlsL 1 1; Glob 0; Env].

Definition ex_s0 : state :=
  fun l => match l with Glob g => 100 + Z.of_nat g | Env => 42 | TlsL _ _ => -1 | Inst _ _ => 0 end.

Definition ex_traces : list (list event) :=
  merges2 (solo 0 (nth 0 ex_program [])) (solo 1 (nth 1 ex_program [])).

(* the same program with a process-wide cache (Glob 1) updated by the compress step:
   the hypotheses fail and so does the conclusion *)
Definition bad_thread (t i : nat) (k : Z) : thread :=
  [ mk_step [] [Inst i 0] (fun _ _ => k);
    mk_step [Inst i 0; Glob 1] [Inst i 3; Glob 1]
            (fun vs l => match l with Glob _ => fold_right Z.add 1 vs | _ => fold_right Z.add 0 vs end);
    mk_step [Inst i 3] [Inst i 1] (fun vs _ => fold_right Z.add 0 vs) ].
Definition bad_program : program := [bad_thread 0 0 11; bad_thread 1 1 23].
Definition bad_traces : list (list event) :=
  merges2 (solo 0 (nth 0 bad_program [])) (solo 1 (nth 1 bad_program [])).
