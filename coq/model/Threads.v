(* C15 -- threads, steps with footprints, interleavings.  Executable model, no proofs.

   A program is a list of threads, a thread a list of steps.  A step declares the
   locations it reads and writes; its semantics receives ONLY the values of the
   locations it reads (so it is a function of them by construction) and
   produces the new values of the locations it writes.  An interleaving is any
   merge of the threads' step lists. *)
From Coq Require Import List ZArith Bool Arith.
Import ListNotations.

Inductive loc :=
| Inst (i f : nat)      (* field f of instance i (tjinstance / jpeg_(de)compress_struct + its pools) *)
| TlsL (t g : nat)      (* thread-local object g of thread t (errStr, simd_support, simd_huffman) *)
| Glob (g : nat)        (* process-wide static-storage object g (an entry of the generated inventory) *)
| Env.                  (* the process environment *)

Definition loc_eqb (a b : loc) : bool :=
  match a, b with
  | Inst i f, Inst j g => Nat.eqb i j && Nat.eqb f g
  | TlsL t g, TlsL u h => Nat.eqb t u && Nat.eqb g h
  | Glob g, Glob h => Nat.eqb g h
  | Env, Env => true
  | _, _ => false
  end.

Definition is_shared (l : loc) : bool := match l with Glob _ | Env => true | _ => false end.

Definition val := Z.
Definition state := loc -> val.

Record step := mk_step {
  reads  : list loc;
  writes : list loc;
  sem    : list val -> loc -> val      (* values of [reads], in order -> new value of each written location *)
}.

Definition mem (l : loc) (ls : list loc) : bool := existsb (loc_eqb l) ls.

Definition observe (st : step) (s : state) : list val := map s (reads st).

Definition exec (st : step) (s : state) : state :=
  fun l => if mem l (writes st) then sem st (observe st s) l else s l.

Definition footprint (st : step) : list loc := reads st ++ writes st.

Definition thread := list step.
Definition program := list thread.
Definition event := (nat * step)%type.       (* (thread id, step) *)

Fixpoint run (tr : list event) (s : state) : state :=
  match tr with
  | [] => s
  | e :: tr' => run tr' (exec (snd e) s)
  end.

(* what thread t observes (the values each of its steps reads) along a run *)
Fixpoint obs_of (t : nat) (tr : list event) (s : state) : list (list val) :=
  match tr with
  | [] => []
  | e :: tr' =>
      let r := obs_of t tr' (exec (snd e) s) in
      if Nat.eqb (fst e) t then observe (snd e) s :: r else r
  end.

Definition solo (t : nat) (th : thread) : list event := map (pair t) th.

Definition proj (t : nat) (tr : list event) : list step :=
  map snd (filter (fun e => Nat.eqb (fst e) t) tr).

(* tr is a merge of the threads of p: every event belongs to a thread of p and the
   sub-sequence of thread t's events is exactly thread t, in order *)
Definition is_interleaving (p : program) (tr : list event) : Prop :=
  (forall e, In e tr -> fst e < length p) /\
  (forall t, t < length p -> proj t tr = nth t p []).

(* the same notion, inductively: repeatedly pick a thread with a pending step *)
Fixpoint upd {A} (l : list A) (k : nat) (x : A) : list A :=
  match l, k with
  | [], _ => []
  | _ :: tl, O => x :: tl
  | h :: tl, S k' => h :: upd tl k' x
  end.

Inductive Merge : program -> list event -> Prop :=
| Merge_nil p : (forall th, In th p -> th = []) -> Merge p []
| Merge_cons p t st rest tr :
    nth_error p t = Some (st :: rest) -> Merge (upd p t rest) tr -> Merge p ((t, st) :: tr).

(* executable enumeration of all merges of two event lists *)
Fixpoint merges2 (a : list event) : list event -> list (list event) :=
  fix inner (b : list event) : list (list event) :=
    match a, b with
    | [], _ => [b]
    | _, [] => [a]
    | x :: a', y :: b' => map (cons x) (merges2 a' b) ++ map (cons y) (inner b')
    end.

(* hypotheses of the noninterference theorem *)
Definition no_shared_writes (p : program) : Prop :=
  forall th st l, In th p -> In st th -> In l (writes st) -> is_shared l = false.

Definition private_disjoint (p : program) : Prop :=
  forall t u a b l, t <> u -> In a (nth t p []) -> In b (nth u p []) ->
    In l (footprint a) -> In l (footprint b) -> is_shared l = true.

Definition conflict (a b : step) (l : loc) : Prop :=
  (In l (writes a) /\ In l (footprint b)) \/ (In l (writes b) /\ In l (footprint a)).

Definition touches (th : thread) (l : loc) : Prop := exists st, In st th /\ In l (footprint st).
Definition writes_loc (th : thread) (l : loc) : Prop := exists st, In st th /\ In l (writes st).

(* boolean versions (for the examples) *)
Definition no_shared_writes_b (p : program) : bool :=
  forallb (fun th => forallb (fun st => forallb (fun l => negb (is_shared l)) (writes st)) th) p.

Definition steps_disjoint_b (a b : step) : bool :=
  forallb (fun l => negb (mem l (footprint b)) || is_shared l) (footprint a).

Fixpoint private_disjoint_b (p : program) : bool :=
  match p with
  | [] => true
  | th :: rest =>
      forallb (fun a => forallb (fun th' => forallb (fun b => steps_disjoint_b a b) th') rest) th
      && private_disjoint_b rest
  end.

(* ------------------------------------------------------------------ API level
   The shape the library's operations have once the generated inventory is
   benign: an operation of thread t on its instance i reads and writes fields of
   instance i and thread t's thread-local objects, reads process-wide objects
   and the environment, and writes neither. *)
Inductive api_op :=
| OpCreate | OpDestroy | OpSet | OpCompress | OpDecompress | OpTransform
| OpFail | OpGetErr | OpHelper.

Definition n_inst_fields := 4%nat.   (* 0 codec state incl. pools, 1 errStr, 2 isInstanceError/warning, 3 dummy-buffer pointer/output *)
Definition n_tls := 3%nat.           (* 0 errStr, 1 simd_support, 2 simd_huffman *)

Definition own_locs (t : nat) (i : option nat) : list loc :=
  match i with
  | Some i => map (Inst i) (seq 0 n_inst_fields)
  | None => []
  end ++ map (TlsL t) (seq 0 n_tls).

Definition shared_locs (nglob : nat) : list loc := Env :: map Glob (seq 0 nglob).

Record api_call := mk_call {
  c_inst : option nat;                 (* None: instance-less helper (tj3JPEGBufSize, tj3Alloc, ...) *)
  c_op   : api_op;
  c_rsel : loc -> bool;                (* which of the admissible locations this call really reads *)
  c_wsel : loc -> bool;                (* ... and writes *)
  c_sem  : list val -> loc -> val
}.

Definition api_step (nglob t : nat) (c : api_call) : step :=
  mk_step (filter (c_rsel c) (own_locs t (c_inst c) ++ shared_locs nglob))
          (filter (c_wsel c) (own_locs t (c_inst c)))
          (c_sem c).

Fixpoint api_threads (nglob t : nat) (p : list (list api_call)) : program :=
  match p with
  | [] => []
  | th :: r => map (api_step nglob t) th :: api_threads nglob (S t) r
  end.

Definition api_program (nglob : nat) (p : list (list api_call)) : program := api_threads nglob 0 p.

(* each instance is used by one thread only *)
Definition instances_exclusive (p : list (list api_call)) : Prop :=
  forall t u a b i, t <> u -> In a (nth t p []) -> In b (nth u p []) ->
    c_inst a = Some i -> c_inst b = Some i -> False.
