(* MarkerSeq.v -- executable model of the marker reader over ARBITRARY sequences of table / misc markers
   (C16): jdmarker.c read_markers dispatch with get_dqt, get_dht, get_dri, get_sof, COM/APPn processing, in the
   header and between scans; and the abstract header record that the sequence denotes (later markers
   override earlier ones: DRI, DQT per table number, DHT per class/number, JFIF / Adobe fields; COM/APPn
   accumulate; a second SOFn is an error).  jcmarker.c emit_dqt.  No proofs here. *)
From Coq Require Import List ZArith Bool.
From LJT Require Import gen.GenIccConst gen.GenStdHuff model.MarkerRT.
Import ListNotations.
Local Open Scope Z_scope.

(* ------------------------------------------------------------ reader state *)
Definition slots (A : Type) := Z -> option A.
Definition slot_set {A} (s : slots A) (k : Z) (v : A) : slots A := fun j => if j =? k then Some v else s j.
Definition slots_empty {A} : slots A := fun _ => None.

Record rstate := mkRstate {
  r_h : hinfo; r_saved : list saved; r_sofcode : Z; r_frame : option frame;
  r_qt : slots (list Z);                  (* quant_tbl_ptrs[n]->quantval, natural order *)
  r_dc : slots (list Z * list Z);         (* dc_huff_tbl_ptrs[n]: bits[1..16], huffval[0..count-1] *)
  r_ac : slots (list Z * list Z);
  r_dac : Z -> Z }.                       (* index 0..15: arith_dc_L + 16 * arith_dc_U; 16..31: arith_ac_K *)
(* get_soi: arith_dc_L = 0, arith_dc_U = 1, arith_ac_K = 5 *)
Definition dac_init : Z -> Z := fun k => if k <? NUM_ARITH_TBLS then 16 else 5.
Definition rstate_init : rstate := mkRstate hinfo_init [] 0 None slots_empty slots_empty slots_empty dac_init.

(* ------------------------------------------------------------------- DQT *)
(* quantval[jpeg_natural_order[i]] = zz[i] *)
Fixpoint index_of (k : Z) (l : list Z) (i : nat) : nat :=
  match l with [] => i | x :: r => if x =? k then i else index_of k r (S i) end.
Definition to_natural (zz : list Z) : list Z :=
  map (fun k => nth (index_of (Z.of_nat k) jpeg_natural_order 0) zz 0) (seq 0 (Z.to_nat DCTSIZE2)).
Definition to_zigzag (nat_ : list Z) : list Z := map (fun k => nthz nat_ k) jpeg_natural_order.

Fixpoint read_entries (n : nat) (two : bool) (bs : list Z) : option (list Z * list Z) :=
  match n with
  | O => Some ([], bs)
  | S k =>
      if two then
        match bs with
        | hi :: lo :: r => match read_entries k two r with Some (vs, r') => Some ((hi * 256 + lo) mod 65536 :: vs, r') | None => None end
        | _ => None
        end
      else
        match bs with
        | b :: r => match read_entries k two r with Some (vs, r') => Some (b :: vs, r') | None => None end
        | _ => None
        end
  end.

(* body of "while (length > 0)"; fuel = one table per unit; None = ERREXIT / out of data *)
Fixpoint get_dqt_loop (fuel : nat) (length : Z) (qt : slots (list Z)) (bs : list Z) : option (slots (list Z) * list Z) :=
  if length <=? 0 then (if length =? 0 then Some (qt, bs) else None)
  else match fuel with
  | O => None
  | S f =>
      match bs with
      | [] => None
      | n0 :: r =>
          let prec := n0 / 16 in
          let n := n0 mod 16 in
          if NUM_QUANT_TBLS <=? n then None
          else match read_entries (Z.to_nat DCTSIZE2) (negb (prec =? 0)) r with
               | None => None
               | Some (zz, r') =>
                   get_dqt_loop f (length - (DCTSIZE2 + 1) - (if prec =? 0 then 0 else DCTSIZE2)) (slot_set qt n (to_natural zz)) r'
               end
      end
  end.
Definition get_dqt (qt : slots (list Z)) (bs : list Z) : option (slots (list Z) * list Z) :=
  match get_2bytes bs with
  | None => None
  | Some (l, r) => get_dqt_loop (Z.to_nat l) (l - 2) qt r
  end.

(* emit_dqt for one table held in natural order (sent_table bookkeeping outside) *)
Definition dqt_prec (natural : list Z) : Z := if existsb (fun q => 255 <? q) natural then 1 else 0.
Definition emit_dqt (index : Z) (natural : list Z) : list Z :=
  let prec := dqt_prec natural in
  emit_marker M_DQT ++ emit_2bytes (if prec =? 0 then DCTSIZE2 + 1 + 2 else DCTSIZE2 * 2 + 1 + 2)
  ++ [byte_of (index + prec * 16)]
  ++ flat_map (fun q => if prec =? 0 then [byte_of q] else [byte_of (q / 256); byte_of q]) (to_zigzag natural).

(* ------------------------------------------------------------------- DHT *)
Fixpoint read_bytes (n : nat) (bs : list Z) : option (list Z * list Z) :=
  match n with
  | O => Some ([], bs)
  | S k => match bs with b :: r => match read_bytes k r with Some (vs, r') => Some (b :: vs, r') | None => None end | [] => None end
  end.
Fixpoint sumz (l : list Z) : Z := match l with [] => 0 | x :: r => x + sumz r end.

Fixpoint get_dht_loop (fuel : nat) (length : Z) (dc ac : slots (list Z * list Z)) (bs : list Z)
  : option (slots (list Z * list Z) * slots (list Z * list Z) * list Z) :=
  if length <=? 16 then (if length =? 0 then Some (dc, ac, bs) else None)
  else match fuel with
  | O => None
  | S f =>
      match bs with
      | [] => None
      | index :: r =>
          match read_bytes 16 r with
          | None => None
          | Some (bits, r1) =>
              let count := sumz bits in
              let length1 := length - (1 + 16) in
              if (256 <? count) || (length1 <? count) then None
              else match read_bytes (Z.to_nat count) r1 with
                   | None => None
                   | Some (vals, r2) =>
                       let length2 := length1 - count in
                       if 16 <=? index mod 32 then      (* index & 0x10 *)
                         let i := index - 16 in
                         if (i <? 0) || (NUM_HUFF_TBLS <=? i) then None
                         else get_dht_loop f length2 dc (slot_set ac i (bits, vals)) r2
                       else
                         if (index <? 0) || (NUM_HUFF_TBLS <=? index) then None
                         else get_dht_loop f length2 (slot_set dc index (bits, vals)) ac r2
                   end
          end
      end
  end.
Definition get_dht (dc ac : slots (list Z * list Z)) (bs : list Z) :=
  match get_2bytes bs with
  | None => None
  | Some (l, r) => get_dht_loop (Z.to_nat l) (l - 2) dc ac r
  end.

(* ------------------------------------------------------------------- DAC *)
Fixpoint get_dac_loop (fuel : nat) (length : Z) (dac : Z -> Z) (bs : list Z) : option ((Z -> Z) * list Z) :=
  if length <=? 0 then (if length =? 0 then Some (dac, bs) else None)
  else match fuel with
  | O => None
  | S f =>
      match bs with
      | index :: val :: r =>
          if (index <? 0) || (2 * NUM_ARITH_TBLS <=? index) then None              (* JERR_DAC_INDEX *)
          else if (index <? NUM_ARITH_TBLS) && (val / 16 <? val mod 16) then None     (* JERR_DAC_VALUE: L > U *)
          else get_dac_loop f (length - 2) (fun k => if k =? index then val else dac k) r
      | _ => None
      end
  end.
Definition get_dac (dac : Z -> Z) (bs : list Z) : option ((Z -> Z) * list Z) :=
  match get_2bytes bs with
  | None => None
  | Some (l, r) => get_dac_loop (Z.to_nat l) (l - 2) dac r
  end.

(* ------------------------------------------------ one marker, any sequence *)
Definition set_restart (h : hinfo) (ri : Z) : hinfo :=
  mkHinfo (h_saw_jfif h) (h_major h) (h_minor h) (h_unit h) (h_xd h) (h_yd h) (h_saw_adobe h) (h_transform h) ri.

(* read_markers dispatch for the markers that may precede an SOS (header or between scans) *)
Definition marker_step (c : cfg) (st : rstate) (code : Z) (bs : list Z) : option (rstate * list Z) :=
  if is_app_or_com code then
    match process_app c code (r_h st) (r_saved st) bs with
    | Some (h', acc', r) => Some (mkRstate h' acc' (r_sofcode st) (r_frame st) (r_qt st) (r_dc st) (r_ac st) (r_dac st), r)
    | None => None
    end
  else if code =? M_DRI then
    match get_dri bs with
    | Some (ri, r) => Some (mkRstate (set_restart (r_h st) ri) (r_saved st) (r_sofcode st) (r_frame st) (r_qt st) (r_dc st) (r_ac st) (r_dac st), r)
    | None => None
    end
  else if code =? M_DQT then
    match get_dqt (r_qt st) bs with
    | Some (qt, r) => Some (mkRstate (r_h st) (r_saved st) (r_sofcode st) (r_frame st) qt (r_dc st) (r_ac st) (r_dac st), r)
    | None => None
    end
  else if code =? M_DHT then
    match get_dht (r_dc st) (r_ac st) bs with
    | Some (dc, ac, r) => Some (mkRstate (r_h st) (r_saved st) (r_sofcode st) (r_frame st) (r_qt st) dc ac (r_dac st), r)
    | None => None
    end
  else if code =? M_DAC then
    match get_dac (r_dac st) bs with
    | Some (dac, r) => Some (mkRstate (r_h st) (r_saved st) (r_sofcode st) (r_frame st) (r_qt st) (r_dc st) (r_ac st) dac, r)
    | None => None
    end
  else if code =? M_DNL then
    (* "Ignore DNL ... perhaps the wrong thing": skip_variable *)
    match get_2bytes bs with
    | Some (l, r) => if Zlength r <? l - 2 then None else Some (st, skipn (Z.to_nat (l - 2)) r)
    | None => None
    end
  else if ((M_RST0 <=? code) && (code <=? M_RST7)) || (code =? M_TEM) then Some (st, bs)   (* parameterless: traced, ignored *)
  else match sof_flags code with
       | Some _ =>
           match r_frame st with
           | Some _ => None                                   (* JERR_SOF_DUPLICATE *)
           | None => match get_sof bs with
                     | Some (fr, r) => Some (mkRstate (r_h st) (r_saved st) code (Some fr) (r_qt st) (r_dc st) (r_ac st) (r_dac st), r)
                     | None => None
                     end
           end
       | None => None
       end.

Definition ends_run (code : Z) : bool := (code =? M_SOS) || (code =? M_EOI).

(* markers up to (not including) the next SOS / EOI *)
Fixpoint read_marker_seq (fuel : nat) (c : cfg) (st : rstate) (bs : list Z) : option (rstate * list Z) :=
  match fuel with
  | O => None
  | S f =>
      match next_marker bs with
      | None => None
      | Some (code, r) =>
          if ends_run code then Some (st, bs)
          else match marker_step c st code r with
               | Some (st', r') => read_marker_seq f c st' r'
               | None => None
               end
      end
  end.

(* --------------------------------------------- the abstract side: what a sequence denotes *)
Record qtable := mkQ { q_prec : Z; q_n : Z; q_zz : list Z }.                 (* Pq, Tq, 64 values in zigzag order *)
Record htable := mkH { ht_index : Z; ht_bits : list Z; ht_vals : list Z }.    (* Tc*16+Th, 16 counts, symbols *)
Inductive amarker :=
| AApp (code : Z) (data : list Z)
| ADri (ri : Z)
| ADqt (ts : list qtable)
| ADht (ts : list htable)
| ASof (code : Z) (f : frame)
| ADac (pairs : list (Z * Z))              (* (Tc*16+Tb, value) *)
| ADnl (data : list Z).

(* what the decompressor looks at of a COM/APPn marker: (bytes, datalen) handed to examine_app0/14 *)
Definition app_seen (c : cfg) (code : Z) (data : list Z) : list Z * Z :=
  let len := Zlength data in
  if c code =? 0 then
    if (code =? M_APP0) || (code =? M_APP14) then
      let n := if APPN_DATA_LEN <=? len then APPN_DATA_LEN else if 0 <? len then len else 0 in
      (firstn (Z.to_nat n) (map byte_of data), n)
    else ([], 0)
  else let n := Z.min len (c code) in (firstn (Z.to_nat n) (map byte_of data), n).
Definition app_keep (c : cfg) (code : Z) (data : list Z) : list saved :=
  if c code =? 0 then []
  else [mkSaved code (Zlength data) (firstn (Z.to_nat (Z.min (Zlength data) (c code))) (map byte_of data))].

Definition apply_qt (qt : slots (list Z)) (t : qtable) : slots (list Z) := slot_set qt (q_n t) (to_natural (q_zz t)).
Definition apply_ht (da : slots (list Z * list Z) * slots (list Z * list Z)) (t : htable) :=
  if 16 <=? ht_index t then (fst da, slot_set (snd da) (ht_index t - 16) (ht_bits t, ht_vals t))
  else (slot_set (fst da) (ht_index t) (ht_bits t, ht_vals t), snd da).

Definition apply_marker (c : cfg) (st : rstate) (m : amarker) : option rstate :=
  match m with
  | AApp code data =>
      let '(seen, n) := app_seen c code data in
      let h' := examine code (r_h st) seen n in          (* examine only looks at APP0 / APP14 *)
      Some (mkRstate h' (r_saved st ++ app_keep c code data) (r_sofcode st) (r_frame st) (r_qt st) (r_dc st) (r_ac st) (r_dac st))
  | ADri ri => Some (mkRstate (set_restart (r_h st) ri) (r_saved st) (r_sofcode st) (r_frame st) (r_qt st) (r_dc st) (r_ac st) (r_dac st))
  | ADqt ts => Some (mkRstate (r_h st) (r_saved st) (r_sofcode st) (r_frame st) (fold_left apply_qt ts (r_qt st)) (r_dc st) (r_ac st) (r_dac st))
  | ADht ts => let da := fold_left apply_ht ts (r_dc st, r_ac st) in
               Some (mkRstate (r_h st) (r_saved st) (r_sofcode st) (r_frame st) (r_qt st) (fst da) (snd da) (r_dac st))
  | ASof code f => match r_frame st with
                   | Some _ => None
                   | None => Some (mkRstate (r_h st) (r_saved st) code (Some f) (r_qt st) (r_dc st) (r_ac st) (r_dac st))
                   end
  | ADac pairs => Some (mkRstate (r_h st) (r_saved st) (r_sofcode st) (r_frame st) (r_qt st) (r_dc st) (r_ac st)
                                 (fold_left (fun d iv => fun k => if k =? fst iv then snd iv else d k) pairs (r_dac st)))
  | ADnl _ => Some st
  end.
Fixpoint apply_markers (c : cfg) (st : rstate) (ms : list amarker) : option rstate :=
  match ms with
  | [] => Some st
  | m :: r => match apply_marker c st m with Some st' => apply_markers c st' r | None => None end
  end.

(* serialisation of an abstract marker (what an encoder may write) *)
Definition qt_bytes (t : qtable) : list Z :=
  byte_of (q_prec t * 16 + q_n t)
  :: flat_map (fun q => if q_prec t =? 0 then [byte_of q] else [byte_of (q / 256); byte_of q]) (q_zz t).
Definition ht_bytes (t : htable) : list Z := byte_of (ht_index t) :: map byte_of (ht_bits t) ++ map byte_of (ht_vals t).
Definition emit_amarker (m : amarker) : option (list Z) :=
  match m with
  | AApp code data => write_marker (code, data)
  | ADri ri => Some (emit_dri ri)
  | ADqt ts => let body := flat_map qt_bytes ts in Some (emit_marker M_DQT ++ emit_2bytes (Zlength body + 2) ++ body)
  | ADht ts => let body := flat_map ht_bytes ts in Some (emit_marker M_DHT ++ emit_2bytes (Zlength body + 2) ++ body)
  | ASof code f => emit_sof code f
  | ADac pairs => let body := flat_map (fun iv => [byte_of (fst iv); byte_of (snd iv)]) pairs in
                  Some (emit_marker M_DAC ++ emit_2bytes (Zlength body + 2) ++ body)
  | ADnl data => write_marker (M_DNL, data)
  end.
Fixpoint emit_amarkers (ms : list amarker) : option (list Z) :=
  match ms with
  | [] => Some []
  | m :: r => match emit_amarker m, emit_amarkers r with Some a, Some b => Some (a ++ b) | _, _ => None end
  end.

(* --------------------------------------------------- scans: the whole file *)
(* entropy-coded data: up to the next marker that is not a stuffed zero or RSTn (well-formed streams) *)
Fixpoint skip_ecs (bs : list Z) : list Z :=
  match bs with
  | ff :: r =>
      if ff =? 255 then
        match r with
        | m :: r' => if (m =? 0) || ((M_RST0 <=? m) && (m <=? M_RST7)) || (m =? 255) then skip_ecs r else bs
        | [] => bs
        end
      else skip_ecs r
  | [] => []
  end.

(* jdhuff.c jinit_huff_decoder (sequential Huffman only; run by jpeg_start_decompress after the header has been
   read): std_huff_tables fills the DC/AC slots 0 and 1 that no DHT has defined (add_huff_table returns when the
   slot is already allocated in a decompressor) *)
Definition fill_slot {A} (s : slots A) (k : Z) (v : A) : slots A := match s k with Some _ => s | None => slot_set s k v end.
Definition std_fill (st : rstate) : rstate :=
  mkRstate (r_h st) (r_saved st) (r_sofcode st) (r_frame st) (r_qt st)
    (fill_slot (fill_slot (r_dc st) 0 (tl std_bits_dc_luminance, std_val_dc_luminance)) 1 (tl std_bits_dc_chrominance, std_val_dc_chrominance))
    (fill_slot (fill_slot (r_ac st) 0 (tl std_bits_ac_luminance, std_val_ac_luminance)) 1 (tl std_bits_ac_chrominance, std_val_ac_chrominance))
    (r_dac st).
Definition sequential_huffman (code : Z) : bool :=
  match sof_flags code with Some (false, false, false) => true | _ => false end.

(* state in force at each SOS: (scan, restart interval, tables) for every scan of the file *)
Record scan_view := mkScanView { sv_scan : scan; sv_state : rstate }.
Fixpoint read_scans (nscans : nat) (first : bool) (fuel : nat) (c : cfg) (st : rstate) (bs : list Z) : option (list scan_view * rstate) :=
  match nscans with
  | O => None
  | S k =>
      match read_marker_seq fuel c st bs with
      | None => None
      | Some (st', r) =>
          match next_marker r with
          | Some (code, r1) =>
              if code =? M_EOI then Some ([], st')
              else match r_frame st' with
                   | None => None
                   | Some fr =>
                       match get_sos (map c_id (f_comps fr)) r1 with
                       | None => None
                       | Some (sc, r2) =>
                           let st2 := if first && sequential_huffman (r_sofcode st') then std_fill st' else st' in
                           match read_scans k false fuel c st2 (skip_ecs r2) with
                           | Some (views, stf) => Some (mkScanView sc st' :: views, stf)
                           | None => None
                           end
                       end
                   end
          | None => None
          end
      end
  end.
Definition read_file (c : cfg) (bs : list Z) : option (list scan_view * rstate) :=
  match next_marker bs with
  | Some (soi, r) => if soi =? M_SOI then read_scans 4096 true (S (length r)) c rstate_init r else None
  | None => None
  end.
