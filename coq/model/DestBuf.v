(* C14 -- ownership protocol of the in-memory JPEG destination buffer
   (src/jdatadst.c jpeg_mem_dest, src/jdatadst-tj.c jpeg_mem_dest_tj, and the exit paths
   of their callers: tj3Compress*, tj3CompressFromYUVPlanes8, tj3Transform, or the
   application for the libjpeg API).

   dest manager (permanent): newbuffer = the buffer the manager allocated most recently
   (the only one empty_mem_output_buffer may free), buffer = the current buffer.
   One image:  the application sets *outbuffer (NULL / its own buffer / the previous result);
   jpeg_mem_dest clears newbuffer according to the POLICY, allocates 4096 bytes when
   *outbuffer is NULL; each growth: nb = malloc; free(newbuffer); newbuffer = buffer = nb;
   term_destination: *outbuffer = buffer.  It runs in jpeg_finish_compress; on a failure
   it runs only if the caller's exit path calls it (flags term_on_throw / term_on_longjmp,
   read from the source).  Afterwards the application owns *outbuffer and its own buffers
   and frees each exactly once.  No malloc-failure oracle here: WHERE a call fails is part of
   the script (exit kind), which quantifies over all failure points. *)
From Coq Require Import List ZArith Bool.
Import ListNotations.
Local Open Scope Z_scope.

Inductive policy := ResetAlways | ResetUnlessReused | ResetFirstOnly.
Record dcfg := { pol : policy; term_on_throw : bool; term_on_longjmp : bool }.

Inductive bmode := MLib | MCaller | MReuse.
Inductive exitk :=
| EFinish              (* jpeg_finish_compress *)
| EThrow               (* TurboJPEG-level failure while the image is being written: goto bailout, no longjmp *)
| ELongjmp             (* libjpeg ERREXIT while the image is being written (e.g. a growth malloc failed) *)
| EInitFail.           (* the initial 4096-byte malloc inside jpeg_mem_dest failed (only when *outbuffer was NULL) *)
Record call := { c_mode : bmode; c_grows : nat; c_exit : exitk; c_free_after : bool }.

Record ds := {
  b_live : list Z; b_nxt : Z;
  dnew : option Z; dbuf : option Z; created : bool;
  b_owned : list Z;            (* blocks the application has to free: its own buffers and results handed over *)
  b_last : option Z;           (* the result pointer of the previous call, if the application still holds it *)
  b_badfree : Z;               (* free() of a block that is not allocated *)
  b_stolen : Z                 (* the library freed a block b_owned by the application *)
}.

Definition zin (x : Z) (l : list Z) : bool := existsb (Z.eqb x) l.
Definition zrem (x : Z) (l : list Z) : list Z := filter (fun y => negb (y =? x)) l.
Definition oeq (a b : option Z) : bool :=
  match a, b with Some x, Some y => x =? y | None, None => true | _, _ => false end.

Definition upd_live (s : ds) l n := {| b_live := l; b_nxt := n; dnew := dnew s; dbuf := dbuf s; created := created s; b_owned := b_owned s; b_last := b_last s; b_badfree := b_badfree s; b_stolen := b_stolen s |}.
Definition upd_dest (s : ds) a b c := {| b_live := b_live s; b_nxt := b_nxt s; dnew := a; dbuf := b; created := c; b_owned := b_owned s; b_last := b_last s; b_badfree := b_badfree s; b_stolen := b_stolen s |}.
Definition upd_own (s : ds) o l := {| b_live := b_live s; b_nxt := b_nxt s; dnew := dnew s; dbuf := dbuf s; created := created s; b_owned := o; b_last := l; b_badfree := b_badfree s; b_stolen := b_stolen s |}.

Definition alloc (s : ds) : Z * ds := (b_nxt s, upd_live s (b_nxt s :: b_live s) (b_nxt s + 1)).

Definition lib_free (s : ds) (x : Z) : ds :=
  {| b_live := zrem x (b_live s); b_nxt := b_nxt s; dnew := dnew s; dbuf := dbuf s; created := created s; b_owned := b_owned s; b_last := b_last s;
     b_badfree := if zin x (b_live s) then b_badfree s else b_badfree s + 1;
     b_stolen := if zin x (b_owned s) then b_stolen s + 1 else b_stolen s |}.

Definition app_free (s : ds) (x : Z) : ds :=
  {| b_live := zrem x (b_live s); b_nxt := b_nxt s; dnew := dnew s; dbuf := dbuf s; created := created s; b_owned := zrem x (b_owned s); b_last := b_last s;
     b_badfree := if zin x (b_live s) then b_badfree s else b_badfree s + 1; b_stolen := b_stolen s |}.

Fixpoint app_free_list (s : ds) (l : list Z) : ds :=
  match l with [] => s | x :: r => app_free_list (app_free s x) r end.
Definition app_free_all (s : ds) : ds := upd_own (app_free_list s (b_owned s)) [] None.

Fixpoint grow (n : nat) (s : ds) : ds :=
  match n with
  | O => s
  | S k =>
      let (nb, s1) := alloc s in
      let s2 := match dnew s1 with Some x => lib_free s1 x | None => s1 end in
      grow k (upd_dest s2 (Some nb) (Some nb) (created s2))
  end.

(* the application takes whatever is in *outbuffer after the call *)
Definition settle (s : ds) (v : option Z) (free_after : bool) : ds :=
  let o := match v with Some x => if zin x (b_owned s) then b_owned s else x :: b_owned s | None => b_owned s end in
  let s1 := upd_own s o v in
  if free_after then app_free_all s1 else s1.

Definition do_call (cf : dcfg) (s : ds) (c : call) : ds :=
  (* the application prepares *outbuffer *)
  let '(s0, var) :=
    match c_mode c with
    | MLib => (s, None)
    | MCaller => let (b, s') := alloc s in (upd_own s' (b :: b_owned s') (b_last s'), Some b)
    | MReuse => (s, b_last s)
    end in
  (* jpeg_mem_dest / jpeg_mem_dest_tj *)
  let reused := match pol cf with ResetUnlessReused => match var with Some _ => oeq (dbuf s0) var | None => false end | _ => false end in
  let nb0 := match pol cf with
             | ResetAlways => None
             | ResetUnlessReused => if reused then dnew s0 else None
             | ResetFirstOnly => if created s0 then dnew s0 else None
             end in
  (* a reused buffer that the manager itself allocated goes back to the library *)
  let s1 := upd_dest (if reused then match nb0 with Some x => upd_own s0 (zrem x (b_owned s0)) (b_last s0) | None => s0 end else s0) nb0 (dbuf s0) true in
  match var, c_exit c with
  | None, EInitFail => settle s1 None (c_free_after c)
  | _, _ =>
      let '(s2, var1) := match var with
                         | None => let (b, s') := alloc s1 in (upd_dest s' (Some b) (dbuf s') true, Some b)
                         | Some _ => (s1, var)
                         end in
      let s3 := grow (c_grows c) (upd_dest s2 (dnew s2) var1 true) in
      let termd := match c_exit c with
                   | EFinish => true
                   | EThrow => term_on_throw cf
                   | ELongjmp | EInitFail => term_on_longjmp cf
                   end in
      settle s3 (if termd then dbuf s3 else var1) (c_free_after c)
  end.

Fixpoint run_calls (cf : dcfg) (s : ds) (cs : list call) : ds :=
  match cs with [] => s | c :: r => run_calls cf (do_call cf s c) r end.

Definition ds0 : ds :=
  {| b_live := []; b_nxt := 0; dnew := None; dbuf := None; created := false; b_owned := []; b_last := None; b_badfree := 0; b_stolen := 0 |}.

(* all calls, then the application releases everything it holds *)
Definition final (cf : dcfg) (cs : list call) : ds := app_free_all (run_calls cf ds0 cs).
Definition safe (s : ds) : Prop := b_live s = [] /\ b_badfree s = 0 /\ b_stolen s = 0.
Definition safeb (s : ds) : bool := match b_live s with [] => true | _ => false end && (b_badfree s =? 0) && (b_stolen s =? 0).
