(* Script.v -- executable model of jcmaster.c validate_script (scan scripts).
   Same order of checks as the C; the result is the error the C raises (code and
   the scan number it reports) or the mode and the final last_bitpos[][] /
   component_sent[] state.  No proofs here. *)
From Coq Require Import List ZArith Bool Lia.
From LJT Require Import model.Huff.
Import ListNotations.
Local Open Scope Z_scope.

Record scan := { s_comps : list Z; s_Ss : Z; s_Se : Z; s_Ah : Z; s_Al : Z }.

Inductive verr :=
| E_BAD_SCAN_SCRIPT (scanno : Z)
| E_COMPONENT_COUNT (ncomps : Z)
| E_BAD_PROG_SCRIPT (scanno : Z)
| E_MISSING_DATA.

Inductive vmode := Sequential | Progressive | Lossless.

Definition MAX_COMPS_IN_SCAN : Z := 4.

(* "thisi < 0 || thisi >= num_components" ; "ci > 0 && thisi <= component_index[ci-1]" *)
Fixpoint comps_ok (num_components : Z) (prev : option Z) (l : list Z) : bool :=
  match l with
  | [] => true
  | c :: t =>
      if (c <? 0) || (c >=? num_components) then false
      else if (match prev with Some p => c <=? p | None => false end) then false
      else comps_ok num_components (Some c) t
  end.

(* "for (coefi = Ss; coefi <= Se; coefi++) { check; last_bitpos_ptr[coefi] = Al; }" *)
Fixpoint prog_coefs (idx : list nat) (Ah Al : Z) (row : list Z) : option (list Z) :=
  match idx with
  | [] => Some row
  | k :: t =>
      let lb := nthZ row k in
      if (if lb <? 0 then negb (Ah =? 0)                       (* first scan of this coefficient *)
          else negb (Ah =? lb) || negb (Al =? Ah - 1))         (* not first scan *)
      then None
      else prog_coefs t Ah Al (upd k Al row)
  end.

(* "for (ci = 0; ci < ncomps; ci++) { row = last_bitpos[component_index[ci]]; ... }" *)
Fixpoint prog_comps (comps : list Z) (Ss Se Ah Al : Z) (lb : list (list Z)) : option (list (list Z)) :=
  match comps with
  | [] => Some lb
  | c :: t =>
      let row := nth (Z.to_nat c) lb [] in
      if negb (Ss =? 0) && (nthZ row 0 <? 0) then None         (* AC without prior DC scan *)
      else match prog_coefs (seq (Z.to_nat Ss) (Z.to_nat (Se - Ss + 1))) Ah Al row with
           | None => None
           | Some row' => prog_comps t Ss Se Ah Al (upd (Z.to_nat c) row' lb)
           end
  end.

(* "if (component_sent[thisi]) ERREXIT; component_sent[thisi] = TRUE;" *)
Fixpoint mark_sent (comps : list Z) (sent : list bool) : option (list bool) :=
  match comps with
  | [] => Some sent
  | c :: t => if nth (Z.to_nat c) sent false then None else mark_sent t (upd (Z.to_nat c) true sent)
  end.

Definition st := (list (list Z) * list bool)%type.

Definition scan_step (mode : vmode) (num_components data_precision : Z) (scanno : Z) (s : scan) (state : st)
  : verr + st :=
  let ncomps := Z.of_nat (length (s_comps s)) in
  if (ncomps <=? 0) || (ncomps >? MAX_COMPS_IN_SCAN) then inl (E_COMPONENT_COUNT ncomps)
  else if negb (comps_ok num_components None (s_comps s)) then inl (E_BAD_SCAN_SCRIPT scanno)
  else
    let Ss := s_Ss s in let Se := s_Se s in let Ah := s_Ah s in let Al := s_Al s in
    match mode with
    | Progressive =>
        let max_Ah_Al := if data_precision =? 12 then 13 else 10 in
        if (Ss <? 0) || (Ss >=? 64) || (Se <? Ss) || (Se >=? 64) ||
           (Ah <? 0) || (Ah >? max_Ah_Al) || (Al <? 0) || (Al >? max_Ah_Al)
        then inl (E_BAD_PROG_SCRIPT scanno)
        else if (if Ss =? 0 then negb (Se =? 0) else negb (ncomps =? 1))
        then inl (E_BAD_PROG_SCRIPT scanno)
        else match prog_comps (s_comps s) Ss Se Ah Al (fst state) with
             | None => inl (E_BAD_PROG_SCRIPT scanno)
             | Some lb => inr (lb, snd state)
             end
    | _ =>
        if (match mode with
            | Lossless => (Ss <? 1) || (Ss >? 7) || negb (Se =? 0) || negb (Ah =? 0) ||
                          (Al <? 0) || (Al >=? data_precision)
            | _ => negb (Ss =? 0) || negb (Se =? 63) || negb (Ah =? 0) || negb (Al =? 0)
            end)
        then inl (E_BAD_PROG_SCRIPT scanno)
        else match mark_sent (s_comps s) (snd state) with
             | None => inl (E_BAD_SCAN_SCRIPT scanno)
             | Some sent => inr (fst state, sent)
             end
    end.

Fixpoint scan_loop (mode : vmode) (nc prec : Z) (scanno : Z) (l : list scan) (state : st) : verr + st :=
  match l with
  | [] => inr state
  | s :: t => match scan_step mode nc prec scanno s state with
              | inl e => inl e
              | inr state' => scan_loop mode nc prec (scanno + 1) t state'
              end
  end.

Definition script_mode (first : scan) : vmode :=
  if negb (s_Ss first =? 0) && (s_Se first =? 0) then Lossless
  else if negb (s_Ss first =? 0) || negb (s_Se first =? 63) then Progressive
  else Sequential.

Definition validate_script (num_components data_precision : Z) (scans : list scan)
  : verr + (vmode * st) :=
  match scans with
  | [] => inl (E_BAD_SCAN_SCRIPT 0)
  | first :: _ =>
      let mode := script_mode first in
      let n := Z.to_nat num_components in
      match scan_loop mode num_components data_precision 1 scans
                      (repeat (repeat (-1) 64) n, repeat false n) with
      | inl e => inl e
      | inr state =>
          match mode with
          | Progressive =>
              if forallb (fun row => 0 <=? nthZ row 0) (fst state) then inr (mode, state)
              else inl E_MISSING_DATA
          | _ => if forallb (fun b => b) (snd state) then inr (mode, state) else inl E_MISSING_DATA
          end
      end
  end.

(* "every chain ends at Al = 0 and all 64 positions are covered" *)
Definition script_complete (state : st) : bool :=
  forallb (fun row => forallb (Z.eqb 0) (firstn 64 row) && (length row =? 64)%nat) (fst state).
