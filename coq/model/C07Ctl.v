(* C07 -- the two control rules of the compressor the round-trip bound rests on
   (no proofs here).

   (1) src/jccoefct.c compress_data(): one MCU row under output suspension.  A call starts at
       MCU column s = coef->mcu_ctr, hands forward_DCT the sample column xpos of every MCU it
       reaches, and is cut short when encode_mcu() refuses an MCU (the MCU is re-done by the next
       call).  `rule = true` is the code as generated from the source
       (xpos = MCU_col_num * MCU_sample_width); `rule = false` is a running offset that every call
       restarts at 0.
   (2) the sent_table protocol: jpeg_add_quant_table / direct edits / jpeg_start_compress
       (write_all_tables) / jpeg_write_tables on the compressor, DQT markers on the decoder. *)
From Coq Require Import List ZArith Bool Arith.
From LJT Require Import gen.GenC07Ctl.
Import ListNotations.
Local Open Scope Z_scope.

(* ---------------------------------------------------------------- (1) MCU row *)
(* MCUs k, k+1, ... (c of them) of one call; off = running offset of that call *)
Fixpoint emit_run (rule : bool) (w k off : Z) (c : nat) : list (Z * Z) :=
  match c with
  | O => []
  | S c' => (k, if rule then k * w else off) :: emit_run rule w (k + 1) (off + w) c'
  end.

(* n MCUs remain, the next call starts at column s; sched = number of MCUs each successive call
   gets through before encode_mcu suspends (when sched is exhausted the call runs to the end) *)
Fixpoint mcu_row (rule : bool) (w : Z) (n : nat) (s : Z) (sched : list nat) : list (Z * Z) :=
  match sched with
  | [] => emit_run rule w s 0 n
  | c :: rest =>
      let c' := Nat.min c n in
      emit_run rule w s 0 c' ++
      (if (n - c' =? 0)%nat then [] else mcu_row rule w (n - c')%nat (s + Z.of_nat c') rest)
  end.

Definition compress_row (w : Z) (n : nat) (sched : list nat) : list (Z * Z) :=
  mcu_row xpos_is_mcu_col_times_width w n 0 sched.

(* ---------------------------------------------------------------- (2) sent_table protocol *)
Record ctab := mkctab { t_vals : list Z; t_sent : bool }.
Definition cstate := nat -> option ctab.          (* cinfo->quant_tbl_ptrs[] of the compressor *)
Definition dstate := nat -> option (list Z).      (* tables the decompression object holds *)

Definition upd {A} (f : nat -> A) (t : nat) (v : A) : nat -> A := fun u => if (u =? t)%nat then v else f u.

Inductive op :=
| AddQuant (t : nat) (v : list Z)        (* jpeg_add_quant_table (also through jpeg_set_quality) *)
| DirectEdit (t : nat) (v : list Z)      (* application writes quantval[] and sets sent_table = FALSE *)
| Start (wat : bool) (used : list nat)   (* jpeg_start_compress(write_all_tables); used = quant_tbl_no of the components *)
| WriteTables.                           (* jpeg_write_tables *)

(* jpeg_suppress_tables(cinfo, suppress): for (i = 0; i < NUM_QUANT_TBLS; i++) sent_table = suppress *)
Definition suppress_tables (c : cstate) (suppress : bool) : cstate :=
  fun t => if (t <? 4)%nat then match c t with Some tb => Some (mkctab (t_vals tb) suppress) | None => None end else c t.

(* emit_dqt(index): marker written iff !sent_table, then sent_table = TRUE *)
Definition emit_dqt (cd : cstate * dstate) (t : nat) : cstate * dstate :=
  let (c, d) := cd in
  match c t with
  | Some tb => if t_sent tb then (c, d) else (upd c t (Some (mkctab (t_vals tb) true)), upd d t (Some (t_vals tb)))
  | None => (c, d)
  end.

Definition step (cd : cstate * dstate) (o : op) : cstate * dstate :=
  let (c, d) := cd in
  match o with
  | AddQuant t v =>
      let old_sent := match c t with Some tb => t_sent tb | None => false end in
      (upd c t (Some (mkctab v (if add_quant_table_resets_sent then false else old_sent))), d)
  | DirectEdit t v => (upd c t (Some (mkctab v false)), d)
  | Start wat used => fold_left emit_dqt used ((if wat then suppress_tables c false else c), d)
  | WriteTables => let (c', d') := fold_left emit_dqt [0%nat; 1%nat; 2%nat; 3%nat] (c, d) in (suppress_tables c' true, d')
  end.

Definition run (cd : cstate * dstate) (ops : list op) : cstate * dstate := fold_left step ops cd.

(* every table marked "sent" is the table the decoder holds *)
Definition consistent (cd : cstate * dstate) : Prop :=
  forall t tb, fst cd t = Some tb -> t_sent tb = true -> snd cd t = Some (t_vals tb).

(* ---------------------------------------------------------------- (3) decompress_data: "force some input" *)
(* input position: scan si, ri = input_iMCU_row = iMCU rows of scan si read completely (the row the
   input side is about to read); one consume_input step reads one more row, after the last row of a
   scan the next scan starts at row 0 *)
Definition input_step (nrows : nat) (p : nat * nat) : nat * nat :=
  let (si, ri) := p in if (S ri <? nrows)%nat then (si, S ri) else (S si, O).

(* the loop condition, `ahead` = rows the input must have completed beyond output_iMCU_row when the
   scans coincide (the source has ahead = 1: input_iMCU_row <= output_iMCU_row keeps reading) *)
Definition must_read (ahead so ro : nat) (p : nat * nat) : bool :=
  let (si, ri) := p in (si <? so)%nat || ((si =? so)%nat && (ri <? ro + ahead)%nat).

Fixpoint force_input (fuel : nat) (ahead nrows so ro : nat) (p : nat * nat) : nat * nat :=
  match fuel with
  | O => p
  | S f => if must_read ahead so ro p then force_input f ahead nrows so ro (input_step nrows p) else p
  end.

(* row ro of the coefficient arrays already holds the data of scan so *)
Definition row_has_scan_data (so ro : nat) (p : nat * nat) : Prop :=
  let (si, ri) := p in (so < si)%nat \/ (si = so /\ (ro < ri)%nat).

(* ---------------------------------------------------------------- (4) jddctmgr.c start_pass, one component *)
(* per output pass: lat = the component's latched quant table (None before its first scan);
   state = (marked built for this method, multiplier table; None = still all-zero) *)
Definition idct_start_pass (mark_after_check : bool) (st : bool * option (list Z)) (lat : option (list Z))
  : bool * option (list Z) :=
  let (built, tbl) := st in
  if built then st
  else if mark_after_check then
    match lat with None => st | Some q => (true, Some q) end
  else
    match lat with None => (true, tbl) | Some q => (true, Some q) end.

Definition idct_passes (lats : list (option (list Z))) : bool * option (list Z) :=
  fold_left (idct_start_pass idct_marks_table_built_after_quant_table_check) lats (false, None).

(* a quant table, once latched for an image, stays the same *)
Fixpoint latch_monotone (q : list Z) (lats : list (option (list Z))) : Prop :=
  match lats with
  | [] => True
  | None :: r => latch_monotone q r
  | Some q' :: r => q' = q /\ Forall (fun x => x = Some q) r
  end.
