(* C18 -- executable model of the Windows/OS2 BMP reader (src/rdbmp.c:
   start_input_bmp, read_colormap, get_8bit_row / get_24bit_row / get_32bit_row
   as driven by tj3LoadImage8, i.e. without the inversion array) and of the BMP
   writer (src/wrbmp.c: write_bmp_header, write_colormap, put_pixel_rows,
   put_gray_rows as driven by tj3SaveImage8).  No proofs here.

   Of the memory manager only one limit is modelled: alloc_sarray refuses a
   sample row longer than MAX_ALLOC_CHUNK (the C code may already have failed
   in alloc_small for the I/O buffer; both are error exits, the model says
   B_WIDTH).  Without it a 24-bit file of width 0x55555555 would wrap
   row_width to 0 and the row reader would run off a zero-length buffer. *)
From Coq Require Import List ZArith Bool.
From LJT Require Import gen.GenPnm model.Pnm.
Import ListNotations.
Local Open Scope Z_scope.

Inductive berr :=
| B_EOF | B_NOT | B_BADHEADER | B_BADDEPTH | B_COMPRESSED | B_EMPTY | B_TOOBIG
| B_BADPLANES | B_BADCMAP | B_BADCS | B_RANGE | B_WIDTH
| B_OOB.     (* NOT a C error: colormap indexed outside its allocation *)

Inductive bres (A : Type) := BOk (a : A) | BErr (e : berr).
Arguments BOk {A} a.
Arguments BErr {A} e.

Definition bbind {A B} (r : bres A) (f : A -> bres B) : bres B :=
  match r with BOk a => f a | BErr e => BErr e end.
Notation "'let?' x ':=' r 'in' k" := (bbind r (fun x => k))
  (at level 200, x pattern, r at level 100, k at level 200).

(* GET_2B / GET_4B, and the conversion of a 32-bit pattern to int *)
Definition get2 (l : list Z) (o : Z) : Z := nthz l o + 256 * nthz l (o + 1).
Definition get4 (l : list Z) (o : Z) : Z :=
  nthz l o + 256 * nthz l (o + 1) + 65536 * nthz l (o + 2) + 16777216 * nthz l (o + 3).
Definition s32 (x : Z) : Z := if x >=? 2147483648 then x - 4294967296 else x.

(* ReadOK(file, buf, n) / n times read_byte : premature end => JERR_INPUT_EOF *)
Definition take (n : Z) (s : list Z) : bres (list Z * list Z) :=
  if Z.of_nat (length s) <? n then BErr B_EOF else
  match take_exact (Z.to_nat n) s with
  | Some p => BOk p
  | None => BErr B_EOF
  end.

(* read_colormap: entries are B,G,R[,0]; result is the list of (r,g,b) *)
Fixpoint parse_cmap (n : nat) (es : Z) (l : list Z) : list (Z * Z * Z) :=
  match n with
  | O => []
  | S m =>
    (nthz l 2, nthz l 1, nthz l 0) :: parse_cmap m es (skipn (Z.to_nat es) l)
  end.

Definition is_gray_cmap (cm : list (Z * Z * Z)) : bool :=
  forallb (fun e => let '(r, g, b) := e in (b =? g) && (g =? r)) cm.

Record bmp_hdr := { b_w : Z; b_h : Z; b_bpp : Z; b_cmap : list (Z * Z * Z); b_t : target; b_roww : Z }.

Definition ext_rgb : target := TRgb {| l_r := 0; l_g := 1; l_b := 2; l_a := -1; l_ps := 3 |}.
Definition ext_bgr : target := TRgb {| l_r := 2; l_g := 1; l_b := 0; l_a := -1; l_ps := 3 |}.
Definition ext_bgra : target := TRgb {| l_r := 2; l_g := 1; l_b := 0; l_a := 3; l_ps := 4 |}.

Definition is_gray_t (t : option target) : bool := match t with Some TGray => true | _ => false end.

(* start_input_bmp *)
(* guess = true: the caller is cjpeg, whose in_color_space is the "arbitrary guess" JCS_RGB (treated like
   JCS_UNKNOWN by the gray-palette switch, like JCS_EXT_RGB otherwise); guess = false: tj3LoadImage8 *)
Definition bmp_header (guess : bool) (maxpixels : Z) (want : option target) (s : list Z) : bres (bmp_hdr * list Z) :=
  let? (fh, s1) := take 14 s in
  if negb (get2 fh 0 =? 19778) then BErr B_NOT else
  let offbits := s32 (get4 fh 10) in
  let? (ih0, s2) := take 4 s1 in
  let hsize := s32 (get4 ih0 0) in
  if (hsize <? 12) || (hsize >? 64) || (hsize + 14 >? offbits) then BErr B_BADHEADER else
  let? (ih1, s3) := take (hsize - 4) s2 in
  let ih := ih0 ++ ih1 in
  let? (w, h, planes, bpp, clrused) :=
    (if hsize =? 12 then
       let bpp := get2 ih 10 in
       if (bpp =? 8) || (bpp =? 24) || (bpp =? 32)
       then BOk (get2 ih 4, get2 ih 6, get2 ih 8, bpp, 0)
       else BErr B_BADDEPTH
     else if (hsize =? 40) || (hsize =? 64) then
       let bpp := get2 ih 14 in
       if negb ((bpp =? 8) || (bpp =? 24) || (bpp =? 32)) then BErr B_BADDEPTH
       else if negb (get4 ih 16 =? 0) then BErr B_COMPRESSED
       else BOk (s32 (get4 ih 4), s32 (get4 ih 8), get2 ih 12, bpp, s32 (get4 ih 32))
     else BErr B_BADHEADER) in
  let mapentry := if bpp =? 8 then (if hsize =? 12 then 3 else 4) else 0 in
  if (w <=? 0) || (h <=? 0) then BErr B_EMPTY
  else if negb (maxpixels =? 0) && (w * h >? maxpixels) then BErr B_TOOBIG
  else if negb (planes =? 1) then BErr B_BADPLANES
  else
  let bpad := offbits - (hsize + 14) in
  let? (cmap, want1, bpad1, s4) :=
    (if mapentry >? 0 then
       let n := if clrused <=? 0 then 256 else clrused in
       if n >? 256 then BErr B_BADCMAP else
       let? (cmb, s4) := take (n * mapentry) s3 in
       let cm := parse_cmap (Z.to_nat n) mapentry cmb in
       let gray := is_gray_cmap cm in
       let want1 := match want with None => if gray then Some TGray else None | _ => want end in
       if is_gray_t want1 && negb gray then BErr B_BADCS
       else BOk (cm, want1, bpad - n * mapentry, s4)
     else BOk ([], want, bpad, s3)) in
  if bpad1 <? 0 then BErr B_BADHEADER else
  let? (_, s5) := take bpad1 s4 in
  let? t :=
    (if bpp =? 8 then BOk (match want1 with None => ext_rgb | Some t => t end)
     else match want1 with
          | None => BOk (if guess then ext_rgb else if bpp =? 24 then ext_bgr else ext_bgra)
          | Some TGray => BErr B_BADCS
          | Some t => BOk t
          end) in
  let bytespp := bpp / 8 in
  if w * bytespp >? 4294967295 then BErr B_WIDTH else
  (* while ((row_width & 3) != 0) row_width++;   in a 32-bit JDIMENSION *)
  let roww := ((w * bytespp + 3) / 4 * 4) mod 4294967296 in
  if w * target_ps t >? 4294967295 then BErr B_WIDTH else
  (* alloc_sarray(w * components): rows above MAX_ALLOC_CHUNK samples are refused (an error exit) *)
  if w * target_ps t >? max_alloc_chunk then BErr B_WIDTH else
  BOk ({| b_w := w; b_h := h; b_bpp := bpp; b_cmap := cmap; b_t := t; b_roww := roww |}, s5).

Section BmpRows.
  Variable cmyk : Z -> Z -> Z -> Z -> list Z.

  Definition out_pixel (t : target) (r g b a : Z) : list Z :=
    match t with
    | TGray => [r]
    | TRgb l => mk_pixel l r g b a
    | TCmyk => cmyk 255 r g b
    end.

  (* one pixel of get_8bit_row / get_24bit_row / get_32bit_row *)
  Definition bmp_pixel (hd : bmp_hdr) (px : list Z) : bres (list Z) :=
    if negb (Z.of_nat (length px) =? b_bpp hd / 8) then BErr B_OOB   (* read past the row buffer *)
    else if b_bpp hd =? 8 then
      let t := nthz px 0 in
      if t >=? Z.of_nat (length (b_cmap hd)) then BErr B_RANGE else
      match nth_error (b_cmap hd) (Z.to_nat t) with
      | Some (r, g, b) => BOk (out_pixel (b_t hd) r g b 255)
      | None => BErr B_OOB
      end
    else if b_bpp hd =? 24 then BOk (out_pixel (b_t hd) (nthz px 2) (nthz px 1) (nthz px 0) 255)
    else BOk (out_pixel (b_t hd) (nthz px 2) (nthz px 1) (nthz px 0) (nthz px 3)).

  Fixpoint bmp_pixels (hd : bmp_hdr) (n : nat) (buf : list Z) : bres (list Z) :=
    match n with
    | O => BOk []
    | S m =>
      let k := Z.to_nat (b_bpp hd / 8) in
      let? px := bmp_pixel hd (firstn k buf) in
      let? r := bmp_pixels hd m (skipn k buf) in
      BOk (px ++ r)
    end.

  Fixpoint bmp_rows (hd : bmp_hdr) (n : nat) (s : list Z) : bres (list (list Z)) :=
    match n with
    | O => BOk []
    | S m =>
      let? (buf, s1) := take (b_roww hd) s in
      let? row := bmp_pixels hd (Z.to_nat (b_w hd)) buf in
      let? rows := bmp_rows hd m s1 in
      BOk (row :: rows)
    end.

  (* tj3LoadImage8 on a BMP file: invert = !bottomUp; rows of the result in buffer order *)
  Definition load_bmp (maxpixels : Z) (want : option target) (bottomup : bool) (s : list Z)
    : bres (Z * Z * target * list (list Z)) :=
    let? (hd, s1) := bmp_header false maxpixels want s in
    let? rows := bmp_rows hd (Z.to_nat (b_h hd)) s1 in
    BOk (b_w hd, b_h hd, b_t hd, if bottomup then rows else rev rows).

  (* cjpeg: jinit_read_bmp(cinfo, TRUE).  preload_image() first reads all image_height rows of the file into
     the whole_image virtual array (premature end => EOF), then get_*_row serves them from source_row =
     image_height-1 down to 0, i.e. top row first; a palette index out of range is reported while serving *)
  Fixpoint bmp_preload (hd : bmp_hdr) (n : nat) (s : list Z) : bres (list (list Z)) :=
    match n with
    | O => BOk []
    | S m => let? (buf, s1) := take (b_roww hd) s in
             let? rest := bmp_preload hd m s1 in
             BOk (buf :: rest)
    end.

  Fixpoint bmp_serve (hd : bmp_hdr) (bufs : list (list Z)) : bres (list (list Z)) :=
    match bufs with
    | [] => BOk []
    | buf :: t => let? row := bmp_pixels hd (Z.to_nat (b_w hd)) buf in
                  let? rows := bmp_serve hd t in
                  BOk (row :: rows)
    end.

  Definition load_bmp_cj (maxpixels : Z) (s : list Z) : bres (Z * Z * target * list (list Z)) :=
    let? (hd, s1) := bmp_header true maxpixels None s in
    let? bufs := bmp_preload hd (Z.to_nat (b_h hd)) s1 in
    let? rows := bmp_serve hd (rev bufs) in
    BOk (b_w hd, b_h hd, b_t hd, rows).
End BmpRows.

(* ------------------------------------------------------------- wrbmp.c *)
Definition put2 (v : Z) : list Z := [v mod 256; (v / 256) mod 256].
Definition put4 (v : Z) : list Z := [v mod 256; (v / 256) mod 256; (v / 65536) mod 256; (v / 16777216) mod 256].

Section BmpWriter.
  Variable uncmyk : Z -> Z -> Z -> Z -> Z -> (Z * Z * Z).

  Definition w_bpp (t : target) : Z := match t with TGray => 8 | _ => 24 end.
  Definition w_datawidth (t : target) (w : Z) : Z := (w * (w_bpp t / 8)) mod 4294967296.
  Definition w_roww (t : target) (w : Z) : Z := ((w_datawidth t w + 3) / 4 * 4) mod 4294967296.

  Definition gray_cmap_bytes : list Z := flat_map (fun i => [i; i; i; 0]) (zseq 0 256).

  (* write_bmp_header (density unit 0: the resolution fields stay 0) *)
  Definition bmp_file_header (t : target) (w h : Z) : list Z :=
    let cme := match t with TGray => 256 | _ => 0 end in
    let hs := 14 + 40 + cme * 4 in
    let bfsize := hs + w_roww t w * h in
    [66; 77] ++ put4 bfsize ++ [0; 0; 0; 0] ++ put4 hs ++
    put2 40 ++ [0; 0] ++ put4 w ++ put4 h ++ put2 1 ++ put2 (w_bpp t) ++
    [0; 0; 0; 0] ++ [0; 0; 0; 0] ++ [0; 0; 0; 0] ++ [0; 0; 0; 0] ++ put2 cme ++ [0; 0] ++ [0; 0; 0; 0] ++
    (match t with TGray => gray_cmap_bytes | _ => [] end).

  Definition bmp_write_pixel (t : target) (px : list Z) : list Z :=
    match t with
    | TGray => [nthz px 0]
    | TRgb l => [nthz px (l_b l); nthz px (l_g l); nthz px (l_r l)]
    | TCmyk => let '(r, g, b) := uncmyk 255 (nthz px 0) (nthz px 1) (nthz px 2) (nthz px 3) in [b; g; r]
    end.

  Fixpoint bmp_write_pixels (t : target) (n : nat) (row : list Z) : list Z :=
    match n with
    | O => []
    | S m => let ps := Z.to_nat (target_ps t) in
             bmp_write_pixel t (firstn ps row) ++ bmp_write_pixels t m (skipn ps row)
    end.

  Definition bmp_write_row (t : target) (w : Z) (row : list Z) : list Z :=
    bmp_write_pixels t (Z.to_nat w) row ++ repeat 0 (Z.to_nat (w_roww t w - w_datawidth t w)).

  (* tj3SaveImage8 to a .bmp file: invert = !bottomUp *)
  Definition save_bmp (t : target) (bottomup : bool) (w h : Z) (rows : list (list Z)) : list Z :=
    bmp_file_header t w h ++ flat_map (bmp_write_row t w) (if bottomup then rows else rev rows).
End BmpWriter.
