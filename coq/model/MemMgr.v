(* C14 -- executable model of the libjpeg-turbo memory manager (src/jmemmgr.c with
   src/jmemnobs.c) over an abstract heap with a failure ORACLE.

   heap   : finite map block-id -> size (association list), a counter for fresh ids,
            the oracle (list of booleans: head = "the next malloc fails"; an
            exhausted oracle never fails), a bad-free counter and the event trace.
   mgr    : my_memory_mgr: small_list[2], large_list[2] (pool headers: block id,
            bytes_used, bytes_left), virt_sarray_list, virt_barray_list,
            total_space_allocated, max_memory_to_use, the control block itself.
   ERREXIT = a result [Some e] together with the state exactly as the C code leaves
            it when error_exit longjmps.

   [W] is the size_t arithmetic used for the computations that feed malloc:
   the identity (ideal integers) or [w64] (mod 2^64).  No proofs in this file. *)
From Coq Require Import List ZArith Bool.
Import ListNotations.
Local Open Scope Z_scope.

Definition w64 (x : Z) : Z := x mod 18446744073709551616.
Definition wid (x : Z) : Z := x.
Definition two64 : Z := 18446744073709551616.
Definition two63 : Z := 9223372036854775808.
Definition two32 : Z := 4294967296.

(* ------------------------------------------------------------------ config *)
Record cfg := {
  c_align : Z;      (* ALIGN_SIZE *)
  c_hdr : Z;        (* sizeof(small_pool_hdr) = sizeof(large_pool_hdr) *)
  c_max : Z;        (* MAX_ALLOC_CHUNK *)
  c_first0 : Z; c_first1 : Z;   (* first_pool_slop[] *)
  c_extra0 : Z; c_extra1 : Z;   (* extra_pool_slop[] *)
  c_minslop : Z;    (* MIN_SLOP *)
  c_mgr : Z;        (* sizeof(my_memory_mgr) *)
  c_sctl : Z;       (* sizeof(struct jvirt_sarray_control) *)
  c_bctl : Z;       (* sizeof(struct jvirt_barray_control) *)
  c_ptr : Z;        (* sizeof(JSAMPROW) = sizeof(JBLOCKROW) *)
  c_block : Z;      (* sizeof(JBLOCK) *)
  c_bigmh : Z       (* 1000000000L: "all the minheights you want" *)
}.

(* -------------------------------------------------------------------- heap *)
Inductive event :=
| EMalloc (sz : Z) (res : option Z)     (* malloc(sz) -> block id / NULL *)
| EFree (id : Z).

Record heap := {
  live : list (Z * Z);     (* (block id, size) *)
  next : Z;                (* next fresh id = number of successful mallocs *)
  orc : list bool;         (* failure oracle *)
  badfree : Z;             (* number of free() calls on a block that was not live *)
  trace : list event       (* newest first *)
}.

Definition id_live (id : Z) (l : list (Z * Z)) : bool := existsb (fun x => fst x =? id) l.
Definition remove_id (id : Z) (l : list (Z * Z)) : list (Z * Z) := filter (fun x => negb (fst x =? id)) l.

Definition malloc (h : heap) (sz : Z) : heap * option Z :=
  match orc h with
  | true :: r =>
      ({| live := live h; next := next h; orc := r; badfree := badfree h;
          trace := EMalloc sz None :: trace h |}, None)
  | _ =>
      ({| live := (next h, sz) :: live h; next := next h + 1; orc := tl (orc h); badfree := badfree h;
          trace := EMalloc sz (Some (next h)) :: trace h |}, Some (next h))
  end.

Definition free (h : heap) (id : Z) : heap :=
  {| live := remove_id id (live h); next := next h; orc := orc h;
     badfree := if id_live id (live h) then badfree h else badfree h + 1;
     trace := EFree id :: trace h |}.

(* ----------------------------------------------------------------- manager *)
Record pool := { p_id : Z; p_used : Z; p_left : Z }.

Record varr := {
  v_width : Z;          (* samplesperrow / blocksperrow *)
  v_rows : Z;           (* rows_in_array *)
  v_maxacc : Z;         (* maxaccess *)
  v_real : bool;        (* mem_buffer != NULL *)
  v_inmem : Z           (* rows_in_mem (meaningful once computed by realize) *)
}.

Record mgr := {
  m_blk : Z;                       (* the my_memory_mgr block *)
  m_small0 : list pool; m_small1 : list pool;     (* small_list[PERMANENT], small_list[IMAGE], head first *)
  m_large0 : list pool; m_large1 : list pool;     (* large_list[...] *)
  m_vs : list varr; m_vb : list varr;             (* virt_sarray_list, virt_barray_list, head first *)
  m_total : Z;                     (* total_space_allocated *)
  m_maxmem : Z                     (* pub.max_memory_to_use *)
}.

Inductive err :=
| OOM (which : Z)       (* JERR_OUT_OF_MEMORY, case n *)
| BadPool               (* JERR_BAD_POOL_ID *)
| WidthOverflow         (* JERR_WIDTH_OVERFLOW *)
| NoBackingStore        (* JERR_NO_BACKING_STORE (jmemnobs.c) *)
| NoMgr                 (* caller error: cinfo->mem == NULL / already initialised; not C behaviour *)
| Undef                 (* outside the modelled domain: division by zero, signed overflow / wrap in the accounting *)
| OutOfFuel.            (* never returned (theorem) *)

Definition get_small (m : mgr) (pid : Z) := if pid =? 0 then m_small0 m else m_small1 m.
Definition get_large (m : mgr) (pid : Z) := if pid =? 0 then m_large0 m else m_large1 m.

Definition set_small (m : mgr) (pid : Z) (l : list pool) : mgr :=
  if pid =? 0 then
    {| m_blk := m_blk m; m_small0 := l; m_small1 := m_small1 m; m_large0 := m_large0 m; m_large1 := m_large1 m;
       m_vs := m_vs m; m_vb := m_vb m; m_total := m_total m; m_maxmem := m_maxmem m |}
  else
    {| m_blk := m_blk m; m_small0 := m_small0 m; m_small1 := l; m_large0 := m_large0 m; m_large1 := m_large1 m;
       m_vs := m_vs m; m_vb := m_vb m; m_total := m_total m; m_maxmem := m_maxmem m |}.

Definition set_large (m : mgr) (pid : Z) (l : list pool) : mgr :=
  if pid =? 0 then
    {| m_blk := m_blk m; m_small0 := m_small0 m; m_small1 := m_small1 m; m_large0 := l; m_large1 := m_large1 m;
       m_vs := m_vs m; m_vb := m_vb m; m_total := m_total m; m_maxmem := m_maxmem m |}
  else
    {| m_blk := m_blk m; m_small0 := m_small0 m; m_small1 := m_small1 m; m_large0 := m_large0 m; m_large1 := l;
       m_vs := m_vs m; m_vb := m_vb m; m_total := m_total m; m_maxmem := m_maxmem m |}.

Definition set_total (m : mgr) (t : Z) : mgr :=
  {| m_blk := m_blk m; m_small0 := m_small0 m; m_small1 := m_small1 m; m_large0 := m_large0 m; m_large1 := m_large1 m;
     m_vs := m_vs m; m_vb := m_vb m; m_total := t; m_maxmem := m_maxmem m |}.

Definition set_maxmem (m : mgr) (x : Z) : mgr :=
  {| m_blk := m_blk m; m_small0 := m_small0 m; m_small1 := m_small1 m; m_large0 := m_large0 m; m_large1 := m_large1 m;
     m_vs := m_vs m; m_vb := m_vb m; m_total := m_total m; m_maxmem := x |}.

Definition set_vs (m : mgr) (l : list varr) : mgr :=
  {| m_blk := m_blk m; m_small0 := m_small0 m; m_small1 := m_small1 m; m_large0 := m_large0 m; m_large1 := m_large1 m;
     m_vs := l; m_vb := m_vb m; m_total := m_total m; m_maxmem := m_maxmem m |}.

Definition set_vb (m : mgr) (l : list varr) : mgr :=
  {| m_blk := m_blk m; m_small0 := m_small0 m; m_small1 := m_small1 m; m_large0 := m_large0 m; m_large1 := m_large1 m;
     m_vs := m_vs m; m_vb := l; m_total := m_total m; m_maxmem := m_maxmem m |}.

Definition res := (mgr * heap * option err)%type.

Section Model.
Variable W : Z -> Z.      (* size_t arithmetic *)
Variable c : cfg.

(* round_up_pow2(a, b) = (a + b - 1) & ~(b - 1) in size_t, b a power of two *)
Definition rup (a b : Z) : Z := W (a + b - 1) / b * b.

Definition bad_pool (pid : Z) : bool := (pid <? 0) || (pid >=? 2).
Definition first_slop (pid : Z) := if pid =? 0 then c_first0 c else c_first1 c.
Definition extra_slop (pid : Z) := if pid =? 0 then c_extra0 c else c_extra1 c.

(* the while loop of alloc_small over the pool list: first pool with bytes_left >= size
   gets the object (bytes_used += size; bytes_left -= size) *)
Fixpoint find_pool (l : list pool) (sz : Z) : option (list pool) :=
  match l with
  | [] => None
  | p :: r =>
      if p_left p >=? sz then
        Some ({| p_id := p_id p; p_used := p_used p + sz; p_left := p_left p - sz |} :: r)
      else match find_pool r sz with
           | Some r' => Some (p :: r')
           | None => None
           end
  end.

Inductive getres := GotPool (id slop : Z) | GaveUp | NoFuel.

(* for (;;) { hdr = jpeg_get_small(min_request + slop); if (hdr) break; slop /= 2;
              if (slop < MIN_SLOP) out_of_memory(2); } *)
Fixpoint get_pool_mem (fuel : nat) (h : heap) (minreq slop : Z) : heap * getres :=
  match fuel with
  | O => (h, NoFuel)
  | S f =>
      let (h', r) := malloc h (W (minreq + slop)) in
      match r with
      | Some id => (h', GotPool id slop)
      | None =>
          let slop' := slop / 2 in
          if slop' <? c_minslop c then (h', GaveUp) else get_pool_mem f h' minreq slop'
      end
  end.

Definition alloc_small (m : mgr) (h : heap) (pid sz0 : Z) : res :=
  if sz0 >? c_max c then (m, h, Some (OOM 7)) else
  let sz := rup sz0 (c_align c) in
  if W (c_hdr c + sz + c_align c - 1) >? c_max c then (m, h, Some (OOM 1)) else
  if bad_pool pid then (m, h, Some BadPool) else
  match find_pool (get_small m pid) sz with
  | Some l' => (set_small m pid l', h, None)
  | None =>
      let minreq := W (c_hdr c + sz + c_align c - 1) in
      let slop0 := match get_small m pid with [] => first_slop pid | _ => extra_slop pid end in
      let slop := if slop0 >? W (c_max c - minreq) then W (c_max c - minreq) else slop0 in
      match get_pool_mem 64 h minreq slop with
      | (h', GotPool id slop') =>
          let p := {| p_id := id; p_used := sz; p_left := W (sz + slop') - sz |} in
          (set_total (set_small m pid (get_small m pid ++ [p])) (m_total m + W (minreq + slop')), h', None)
      | (h', GaveUp) => (m, h', Some (OOM 2))
      | (h', NoFuel) => (m, h', Some OutOfFuel)
      end
  end.

Definition alloc_large (m : mgr) (h : heap) (pid sz0 : Z) : res :=
  if sz0 >? c_max c then (m, h, Some (OOM 8)) else
  let sz := rup sz0 (c_align c) in
  if W (c_hdr c + sz + c_align c - 1) >? c_max c then (m, h, Some (OOM 3)) else
  if bad_pool pid then (m, h, Some BadPool) else
  let req := W (sz + c_hdr c + c_align c - 1) in
  match malloc h req with
  | (h', None) => (m, h', Some (OOM 4))
  | (h', Some id) =>
      let p := {| p_id := id; p_used := sz; p_left := 0 |} in
      (set_total (set_large m pid (p :: get_large m pid)) (m_total m + req), h', None)
  end.

(* while (currow < numrows) { rowsperchunk = MIN(rowsperchunk, numrows - currow);
     alloc_large(rowsperchunk * width * unit); currow += rowsperchunk; } *)
Fixpoint alloc_rows (fuel : nat) (m : mgr) (h : heap) (pid rpc width unit currow numrows : Z) : res :=
  if currow <? numrows then
    match fuel with
    | O => (m, h, Some OutOfFuel)
    | S f =>
        let rpc' := Z.min rpc (numrows - currow) in
        match alloc_large m h pid (W (W (rpc' * width) * unit)) with
        | (m', h', Some e) => (m', h', Some e)
        | (m', h', None) => alloc_rows f m' h' pid rpc' width unit (currow + rpc') numrows
        end
    end
  else (m, h, None).

(* sample_size: sizeof(JSAMPLE) = 1, sizeof(J12SAMPLE) = sizeof(J16SAMPLE) = 2 *)
Definition sample_size (prec : Z) : Z := if prec >? 8 then 2 else 1.

Definition alloc_sarray (m : mgr) (h : heap) (prec pid width0 numrows : Z) : res :=
  let ss := sample_size prec in
  if negb (c_align c mod ss =? 0) then (m, h, Some (OOM 5)) else
  if width0 >? c_max c then (m, h, Some (OOM 9)) else
  let width := rup width0 (2 * c_align c / ss) mod two32 in
  let denom := width * ss in
  if denom =? 0 then (m, h, Some Undef) else
  let ltemp := (c_max c - c_hdr c) / denom in
  if ltemp <=? 0 then (m, h, Some WidthOverflow) else
  let rpc := if ltemp <? numrows then ltemp else numrows in
  match alloc_small m h pid (W (numrows * c_ptr c)) with
  | (m', h', Some e) => (m', h', Some e)
  | (m', h', None) => alloc_rows (Z.to_nat numrows) m' h' pid rpc width ss 0 numrows
  end.

Definition alloc_barray (m : mgr) (h : heap) (pid width numrows : Z) : res :=
  if negb (c_block c mod c_align c =? 0) then (m, h, Some (OOM 6)) else
  let denom := width * c_block c in
  if denom =? 0 then (m, h, Some Undef) else
  let ltemp := (c_max c - c_hdr c) / denom in
  if ltemp <=? 0 then (m, h, Some WidthOverflow) else
  let rpc := if ltemp <? numrows then ltemp else numrows in
  match alloc_small m h pid (W (numrows * c_ptr c)) with
  | (m', h', Some e) => (m', h', Some e)
  | (m', h', None) => alloc_rows (Z.to_nat numrows) m' h' pid rpc width (c_block c) 0 numrows
  end.

Definition new_varr (width rows maxacc : Z) : varr :=
  {| v_width := width; v_rows := rows; v_maxacc := maxacc; v_real := false; v_inmem := 0 |}.

Definition request_virt_sarray (m : mgr) (h : heap) (pid width rows maxacc : Z) : res :=
  if negb (pid =? 1) then (m, h, Some BadPool) else
  match alloc_small m h pid (c_sctl c) with
  | (m', h', Some e) => (m', h', Some e)
  | (m', h', None) => (set_vs m' (new_varr width rows maxacc :: m_vs m'), h', None)
  end.

Definition request_virt_barray (m : mgr) (h : heap) (pid width rows maxacc : Z) : res :=
  if negb (pid =? 1) then (m, h, Some BadPool) else
  match alloc_small m h pid (c_bctl c) with
  | (m', h', Some e) => (m', h', Some e)
  | (m', h', None) => (set_vb m' (new_varr width rows maxacc :: m_vb m'), h', None)
  end.

(* ---- realize_virt_arrays: the accounting pass ---- *)
(* (long)a * (long)b * unit: a value >= 2^63 is signed overflow / wrap: outside the model *)
Definition vbytes (v : varr) (rows unit : Z) : Z := rows * v_width v * unit.

(* returns None when a computation leaves the modelled domain, Some (Some which) for
   out_of_memory(10/11), Some None otherwise; accumulates (space_per_minheight, maximum_space) *)
Fixpoint space_pass (l : list varr) (unit which : Z) (acc : Z * Z) : option (option Z) * (Z * Z) :=
  match l with
  | [] => (Some None, acc)
  | v :: r =>
      if v_real v then space_pass r unit which acc else
      let new_space := vbytes v (v_rows v) unit in
      let minh := vbytes v (v_maxacc v) unit in
      if (new_space >=? two63) || (minh >=? two63) then (None, acc) else
      let spm := fst acc + minh in
      if spm >=? two64 then (None, acc) else
      if two64 - 1 - snd acc <? new_space then (Some (Some which), (spm, snd acc)) else
      space_pass r unit which (spm, snd acc + new_space)
  end.

(* jpeg_mem_available of jmemnobs.c *)
Definition mem_available (maxmem max_needed already : Z) : Z :=
  if maxmem =? 0 then max_needed else
  if maxmem >? already then maxmem - already else 0.

Definition max_minheights (avail spm maximum : Z) : Z :=
  if avail >=? maximum then c_bigmh c else
  let q := avail / spm in if q <=? 0 then 1 else q.

(* the allocation pass over one list; [alloc] is alloc_sarray / alloc_barray at JPOOL_IMAGE.
   Returns the updated list (same order) with the manager/heap/result. *)
Fixpoint realize_list (alloc : mgr -> heap -> Z -> Z -> res) (l : list varr) (m : mgr) (h : heap) (maxmh : Z)
  : list varr * res :=
  match l with
  | [] => ([], (m, h, None))
  | v :: r =>
      if v_real v then
        let '(r', x) := realize_list alloc r m h maxmh in (v :: r', x)
      else if v_maxacc v =? 0 then (v :: r, (m, h, Some Undef)) else
      let minheights := Z.quot (v_rows v - 1) (v_maxacc v) + 1 in
      if minheights <=? maxmh then
        let v1 := {| v_width := v_width v; v_rows := v_rows v; v_maxacc := v_maxacc v; v_real := false; v_inmem := v_rows v |} in
        (* the fields are JDIMENSION (unsigned 32-bit) in C *)
        match alloc m h (v_width v mod two32) (v_rows v mod two32) with
        | (m', h', Some e) => (v1 :: r, (m', h', Some e))
        | (m', h', None) =>
            let v2 := {| v_width := v_width v; v_rows := v_rows v; v_maxacc := v_maxacc v; v_real := true; v_inmem := v_rows v |} in
            let '(r', x) := realize_list alloc r m' h' maxmh in (v2 :: r', x)
        end
      else
        (* rows_in_mem = max_minheights * maxaccess; jpeg_open_backing_store -> ERREXIT *)
        let v1 := {| v_width := v_width v; v_rows := v_rows v; v_maxacc := v_maxacc v; v_real := false;
                     v_inmem := (maxmh * v_maxacc v) mod two32 |} in
        (v1 :: r, (m, h, Some NoBackingStore))
  end.

Definition realize_virt_arrays (m : mgr) (h : heap) (prec : Z) : res :=
  let ss := sample_size prec in
  match space_pass (m_vs m) ss 10 (0, 0) with
  | (None, _) => (m, h, Some Undef)
  | (Some (Some w), _) => (m, h, Some (OOM w))
  | (Some None, acc1) =>
      match space_pass (m_vb m) (c_block c) 11 acc1 with
      | (None, _) => (m, h, Some Undef)
      | (Some (Some w), _) => (m, h, Some (OOM w))
      | (Some None, (spm, maximum)) =>
          if spm <=? 0 then (m, h, None) else
          let avail := mem_available (m_maxmem m) maximum (m_total m) in
          let maxmh := max_minheights avail spm maximum in
          match realize_list (fun m h w r => alloc_sarray m h prec 1 w r) (m_vs m) m h maxmh with
          | (vs', (m1, h1, Some e)) => (set_vs m1 vs', h1, Some e)
          | (vs', (m1, h1, None)) =>
              match realize_list (fun m h w r => alloc_barray m h 1 w r) (m_vb m) (set_vs m1 vs') h1 maxmh with
              | (vb', (m2, h2, r)) => (set_vb m2 vb', h2, r)
              end
          end
      end
  end.

(* ---- free_pool / self_destruct ---- *)
Definition recsize (p : pool) : Z := p_used p + p_left p + c_hdr c + c_align c - 1.

Fixpoint free_list (l : list pool) (h : heap) (total : Z) : heap * Z :=
  match l with
  | [] => (h, total)
  | p :: r => free_list r (free h (p_id p)) (total - recsize p)
  end.

Definition free_pool (m : mgr) (h : heap) (pid : Z) : res :=
  if bad_pool pid then (m, h, Some BadPool) else
  let m1 := if pid =? 1 then set_vb (set_vs m []) [] else m in
  let '(h1, t1) := free_list (get_large m1 pid) h (m_total m1) in
  let m2 := set_large m1 pid [] in
  let '(h2, t2) := free_list (get_small m2 pid) h1 t1 in
  (set_total (set_small m2 pid []) t2, h2, None).

Definition self_destruct (m : mgr) (h : heap) : heap :=
  let '(m1, h1, _) := free_pool m h 1 in
  let '(m2, h2, _) := free_pool m1 h1 0 in
  free h2 (m_blk m2).

Definition jinit_memory_mgr (h : heap) : option mgr * heap * option err :=
  match malloc h (W (c_mgr c)) with
  | (h', None) => (None, h', Some (OOM 0))
  | (h', Some id) =>
      (Some {| m_blk := id; m_small0 := []; m_small1 := []; m_large0 := []; m_large1 := [];
               m_vs := []; m_vb := []; m_total := c_mgr c; m_maxmem := 0 |}, h', None)
  end.

(* ------------------------------------------------------ client operations *)
Inductive op :=
| OInit                                   (* jinit_memory_mgr on a fresh object *)
| OSmall (pid sz : Z)
| OLarge (pid sz : Z)
| OSarray (pid width rows : Z)
| OBarray (pid width rows : Z)
| OReqS (pid width rows maxacc : Z)
| OReqB (pid width rows maxacc : Z)
| ORealize
| OFreePool (pid : Z)
| ODestroy                                (* self_destruct *)
| OSetMax (x : Z)                         (* cinfo->mem->max_memory_to_use = x *)
| OSetPrec (p : Z).                       (* cinfo->data_precision = p *)

Record st := { s_mgr : option mgr; s_heap : heap; s_prec : Z }.

Definition mk (r : res) (prec : Z) : st * option err :=
  let '(m, h, e) := r in ({| s_mgr := Some m; s_heap := h; s_prec := prec |}, e).

Definition step (o : op) (s : st) : st * option err :=
  match o, s_mgr s with
  | OSetPrec p, _ => ({| s_mgr := s_mgr s; s_heap := s_heap s; s_prec := p |}, None)
  | OInit, None =>
      let '(om, h, e) := jinit_memory_mgr (s_heap s) in
      ({| s_mgr := om; s_heap := h; s_prec := s_prec s |}, e)
  | OInit, Some _ => (s, Some NoMgr)
  | _, None => (s, Some NoMgr)
  | OSmall pid sz, Some m => mk (alloc_small m (s_heap s) pid sz) (s_prec s)
  | OLarge pid sz, Some m => mk (alloc_large m (s_heap s) pid sz) (s_prec s)
  | OSarray pid w r, Some m => mk (alloc_sarray m (s_heap s) (s_prec s) pid w r) (s_prec s)
  | OBarray pid w r, Some m => mk (alloc_barray m (s_heap s) pid w r) (s_prec s)
  | OReqS pid w r a, Some m => mk (request_virt_sarray m (s_heap s) pid w r a) (s_prec s)
  | OReqB pid w r a, Some m => mk (request_virt_barray m (s_heap s) pid w r a) (s_prec s)
  | ORealize, Some m => mk (realize_virt_arrays m (s_heap s) (s_prec s)) (s_prec s)
  | OFreePool pid, Some m => mk (free_pool m (s_heap s) pid) (s_prec s)
  | ODestroy, Some m => ({| s_mgr := None; s_heap := self_destruct m (s_heap s); s_prec := s_prec s |}, None)
  | OSetMax x, Some m => ({| s_mgr := Some (set_maxmem m x); s_heap := s_heap s; s_prec := s_prec s |}, None)
  end.

(* a client that catches every error (setjmp) and carries on *)
Fixpoint run (ops : list op) (s : st) : st :=
  match ops with
  | [] => s
  | o :: r => run r (fst (step o s))
  end.

End Model.

Definition empty_heap (oracle : list bool) : heap :=
  {| live := []; next := 0; orc := oracle; badfree := 0; trace := [] |}.
Definition init_st (oracle : list bool) : st :=
  {| s_mgr := None; s_heap := empty_heap oracle; s_prec := 8 |}.

(* ------------------------------------------------------------------ limits *)
(* if (maxPixels && (T)w * h > maxPixels) reject, T an unsigned type of [bits] bits *)
Definition pixels_rejected (bits w h lim : Z) : bool :=
  negb (lim =? 0) && ((w * h) mod 2 ^ bits >? lim).
(* if (scanLimit) install progress monitor: if (scan_no > scanLimit) reject *)
Definition scan_rejected (strict : bool) (scan_no lim : Z) : bool :=
  negb (lim =? 0) && (if strict then scan_no >? lim else scan_no >=? lim).
