(* C11 -- the replicating upsamplers of src/jdsample.c and h1v2_fancy_upsample: which sample indices of
   an input row are read and which of an output row are stored.  No proofs.
   int_upsample (h_expand, v_expand = max_samp / samp, 1..4), one output row:
       outend = outptr + cinfo->output_width;
       while (outptr < outend) { invalue = *inptr++; for (h = h_expand; h > 0; h--) *outptr++ = invalue; }
       if (v_expand > 1) jcopy_sample_rows(output_data, outrow, output_data, outrow + 1, v_expand - 1, output_width);
   h2v1_upsample / h2v2_upsample: the same with two explicit stores (h_expand = 2), h2v2 copies one more row.
   h1v2_fancy_upsample: for (colctr = 0; colctr < downsampled_width; colctr++) one load from each of two input
       rows, one store.
   The output rows are color_buf rows: alloc_sarray(round_up(output_width, max_h_samp_factor), ...). *)
From Coq Require Import List ZArith Bool.
From LJT Require Import model.Extent.
Import ListNotations.
Local Open Scope Z_scope.

Fixpoint zseq (a : Z) (n : nat) : list Z := match n with O => [] | S k => a :: zseq (a + 1) k end.

(* the "while (outptr < outend)" loop: (indices read from the input row, indices stored in the output row) *)
Fixpoint int_ups_row (fuel : nat) (h_expand output_width outp inp : Z) : list Z * list Z :=
  match fuel with
  | O => ([], [])
  | S f =>
    if outp <? output_width then
      let '(r, w) := int_ups_row f h_expand output_width (outp + h_expand) (inp + 1) in
      (inp :: r, zseq outp (Z.to_nat h_expand) ++ w)
    else ([], [])
  end.
Definition int_upsample_row (h_expand output_width : Z) : list Z * list Z :=
  int_ups_row (S (Z.to_nat output_width)) h_expand output_width 0 0.

(* h2v1_upsample / h2v2_upsample: *outptr++ = invalue; *outptr++ = invalue; *)
Fixpoint h2_ups_row (fuel : nat) (output_width outp inp : Z) : list Z * list Z :=
  match fuel with
  | O => ([], [])
  | S f =>
    if outp <? output_width then
      let '(r, w) := h2_ups_row f output_width (outp + 2) (inp + 1) in (inp :: r, outp :: (outp + 1) :: w)
    else ([], [])
  end.
Definition h2_upsample_row (output_width : Z) : list Z * list Z := h2_ups_row (S (Z.to_nat output_width)) output_width 0 0.

(* jcopy_sample_rows(..., num_rows, num_cols): every destination row gets columns [0, num_cols) *)
Definition copy_row_stores (num_cols : Z) : list Z := zseq 0 (Z.to_nat num_cols).
(* h1v2_fancy_upsample: loads and stores at colctr = 0 .. downsampled_width - 1 *)
Definition h1v2_fancy_row (downsampled_width : Z) : list Z * list Z :=
  (zseq 0 (Z.to_nat downsampled_width), zseq 0 (Z.to_nat downsampled_width)).

Definition ceil_div (a b : Z) : Z := (a + b - 1) / b.
Definition round_up (a b : Z) : Z := ceil_div a b * b.
