(* C20 -- library side of the raw-data paths, from facts generated out of jutils.c, jdinput.c, jcmaster.c, jdmaster.c,
   jdcoefct.c, jdapistd.c, jcapistd.c; the compress edge replication of tj3CompressFromYUVPlanes8; the scratch buffers of
   tj3EncodeYUVPlanes8 / tj3DecodeYUVPlanes8. *)
From Coq Require Import ZArith List Bool.
From LJT Require Import gen.GenSubsamp model.Geometry model.YuvCopy.
Import ListNotations.
Local Open Scope Z_scope.
Local Open Scope bool_scope.

(* ---- jpeg_core_output_dimensions: walk the ladder of `scale_num * DCTSIZE <= scale_denom * N` tests ---- *)
Fixpoint ladder_find (l : list (Z * Z * Z * Z * Z)) (num denom : Z) : Z * Z * Z * Z :=
  match l with
  | [] => lj_scale_else
  | (n, wm, hm, dh, dv) :: t => if num * DCTSIZE <=? denom * n then (wm, hm, dh, dv) else ladder_find t num denom
  end.
Definition ljg_rung (num denom : Z) := ladder_find lj_scale_ladder num denom.
Definition ljg_out_w (w num denom : Z) : Z := let '(wm, _, _, _) := ljg_rung num denom in jdiv_round_up_c (w * wm) DCTSIZE.
Definition ljg_out_h (h num denom : Z) : Z := let '(_, hm, _, _) := ljg_rung num denom in jdiv_round_up_c (h * hm) DCTSIZE.
Definition ljg_min_dct (num denom : Z) : Z := let '(_, _, dh, _) := ljg_rung num denom in dh.
Definition ljg_min_dct_v (num denom : Z) : Z := let '(_, _, _, dv) := ljg_rung num denom in dv.

(* blocks per component (decompressor and compressor compute them with the same statement) *)
Definition ljg_wib (i w s : Z) : Z := ljd_wib w (lj_hs i s) (comp_hsamp0 s) DCTSIZE.
Definition ljg_hib (i h s : Z) : Z := ljd_hib h (lj_vs i s) (comp_vsamp0 s) DCTSIZE.
Definition ljg_imcu_rows (h s : Z) : Z := ljd_imcu_rows h (comp_vsamp0 s) DCTSIZE.

(* sample rows of component i that raw-data call number k (0-based) produces/consumes: block rows x scaled block size *)
Definition ljg_rows_in_call (k total hib vs dss : Z) : Z :=
  (if k <? total - 1 then vs else ljd_block_rows_last hib vs) * dss.

(* ---- the calling protocol: TurboJPEG's loop variable `row` against the library's scanline counter ---- *)
Inductive raw_outcome := RawOk (calls : Z) | RawBufferSize | RawTooMuchData | RawFuel.
(* for (row = 0; row < height; row += step) jpeg_xxx_raw_data(.., lines) ; scan = the library's output_scanline/next_scanline *)
Fixpoint raw_protocol (fuel : nat) (row scan height step lines lib_lines calls : Z) : raw_outcome :=
  match fuel with
  | O => if row <? height then RawFuel else RawOk calls
  | S k =>
    if row <? height then
      if scan >=? height then RawTooMuchData            (* rr_done / wr_done *)
      else if lines <? lib_lines then RawBufferSize       (* rr_toosmall / wr_toosmall *)
      else raw_protocol k (row + step) (scan + lib_lines) height step lines lib_lines (calls + 1)
    else RawOk calls
  end.
Definition dtp_protocol (outh maxv mindct : Z) : raw_outcome :=
  raw_protocol (Z.to_nat outh) 0 0 outh (dtp_loopstep maxv mindct) (dtp_rawlines maxv mindct) (rr_lines maxv mindct) 0.
Definition cfp_protocol (h maxv : Z) : raw_outcome :=
  raw_protocol (Z.to_nat h) 0 0 h (cfp_loopstep maxv) (cfp_rawlines maxv) (wr_lines maxv) 0.

(* ---- tj3CompressFromYUVPlanes8, one component in one iteration: which cells (row j, column k) of the intermediate rows
        are written, and from where.  Events in program order. ---- *)
Inductive tev :=
| TCopy (j src_row len : Z)        (* memcpy(tmpbuf[j], inbuf[src_row], len) *)
| TPad (j k src_k : Z)             (* tmpbuf[j][k] = tmpbuf[j][src_k] *)
| TDup (j src_j len : Z)           (* memcpy(tmpbuf[j], tmpbuf[src_j], len) *)
| TLib (j len : Z).                (* jpeg_write_raw_data reads tmpbuf[j][0..len) *)

Fixpoint zseq (lo : Z) (n : nat) : list Z := match n with O => [] | S k => lo :: zseq (lo + 1) k end.

Definition cfp_iteration (pw ph iw ih th crow : Z) : list tev :=
  let n1 := cfp_copy_n th ph crow in
  flat_map (fun j => TCopy j (cfp_copy_src crow j) (cfp_copy_len pw)
                     :: map (fun k => TPad j k (cfp_pad_src pw)) (zseq (cfp_pad_from pw) (Z.to_nat (cfp_pad_to iw - cfp_pad_from pw))))
           (zseq 0 (Z.to_nat n1))
  ++ map (fun j => TDup j (cfp_dup_src ph crow) (cfp_dup_len iw)) (zseq (cfp_dup_from ph crow) (Z.to_nat (cfp_dup_to th - cfp_dup_from ph crow)))
  ++ map (fun j => TLib j iw) (zseq 0 (Z.to_nat (Z.min th (ih - crow)))).

(* initialised cells are tracked per row as "columns [0, n) initialised" (every write in this code extends a prefix) *)
Definition row_init (st : list (Z * Z)) (j : Z) : Z :=
  fold_left (fun acc p => if fst p =? j then Z.max acc (snd p) else acc) st 0.
(* check one event against the state; returns the new state or None when it reads an uninitialised cell / leaves the row *)
Definition tev_step (rows width : Z) (st : list (Z * Z)) (e : tev) : option (list (Z * Z)) :=
  let inrow j := (0 <=? j) && (j <? rows) in
  match e with
  | TCopy j _ len => if inrow j && (0 <=? len) && (len <=? width) then Some ((j, len) :: st) else None
  | TPad j k src => if inrow j && (0 <=? src) && (src <? row_init st j) && (k =? row_init st j) && (k <? width) then Some ((j, k + 1) :: st) else None
  | TDup j src len => if inrow j && inrow src && (len <=? row_init st src) && (len <=? width) then Some ((j, len) :: st) else None
  | TLib j len => if inrow j && (len <=? row_init st j) then Some st else None
  end.
Fixpoint tev_run (rows width : Z) (st : list (Z * Z)) (l : list tev) : bool :=
  match l with
  | [] => true
  | e :: t => match tev_step rows width st e with Some st' => tev_run rows width st' t | None => false end
  end.
Definition cfp_iteration_ok (pw ph iw ih th crow : Z) : bool := tev_run th iw [] (cfp_iteration pw ph iw ih th crow).

(* ---- scratch buffers of tj3EncodeYUVPlanes8 / tj3DecodeYUVPlanes8: last byte touched in a row of `width` samples
        starting `slack` bytes (alignment of the malloc'ed pointer to 32, at most 31) after the block start ---- *)
Definition scratch_ok (size rows width slack : Z) (rowoff : Z -> Z) : bool :=
  forallb (fun r => (0 <=? slack + rowoff r) && (slack + rowoff r + width <=? size)) (zseq 0 (Z.to_nat rows)).
