(* C05 -- chroma down/upsampling: the C loops of src/jcsample.c / src/jdsample.c
   and the block-wise lane models of simd/x86_64/jcsample-{sse2,avx2}.asm and
   jdsample-{sse2,avx2}.asm.  V is the number of OUTPUT columns (downsample) resp.
   INPUT columns (upsample) one loop iteration of the kernel handles: 16 for
   SSE2, 32 for AVX2.  No proofs here. *)
From Coq Require Import List ZArith Bool Arith.
From LJT Require Import lib.Words gen.GenSimdConst.
Import ListNotations.
Local Open Scope Z_scope.

(* ------------------------------------------------------------ common *)
Fixpoint pairs (l : list Z) : list (Z * Z) :=
  match l with a :: b :: t => (a, b) :: pairs t | _ => [] end.
(* expand_right_edge(row, input_cols = iw, output_cols = need): the asm does it with rep stosb *)
Definition expand_right (iw need : nat) (row : list Z) : list Z :=
  firstn iw row ++ repeat (nth (iw - 1) row 0) (need - iw).
(* apply f0 to lanes 0,2,4,.. and f1 to lanes 1,3,5,.. *)
Fixpoint alt {A B} (f0 f1 : A -> B) (l : list A) : list B :=
  match l with [] => [] | a :: t => f0 a :: alt f1 f0 t end.

(* ------------------------------------------------------------ downsample, C *)
Definition c3_1 (t : Z * Z * Z) := fst (fst t).
Definition c3_2 (t : Z * Z * Z) := snd (fst t).
Definition c3_3 (t : Z * Z * Z) := snd t.
(* for (outcol...) { *outptr++ = (in[0] + in[1] + bias) >> 1; bias ^= 1; inptr += 2; } *)
Fixpoint c_h2v1_loop (bias : Z) (ps : list (Z * Z)) : list Z :=
  match ps with
  | [] => []
  | (a, b) :: t => w8 (Z.shiftr (a + b + bias) (c3_2 c_h2v1_down)) :: c_h2v1_loop (Z.lxor bias (c3_3 c_h2v1_down)) t
  end.
Definition c_h2v1_downsample (iw ocols : nat) (row : list Z) : list Z :=
  c_h2v1_loop (c3_1 c_h2v1_down) (pairs (firstn (2 * ocols) (expand_right iw (2 * ocols) row))).
Fixpoint c_h2v2_loop (bias : Z) (qs : list ((Z * Z) * (Z * Z))) : list Z :=
  match qs with
  | [] => []
  | ((a0, b0), (a1, b1)) :: t =>
      w8 (Z.shiftr (a0 + b0 + a1 + b1 + bias) (c3_2 c_h2v2_down)) :: c_h2v2_loop (Z.lxor bias (c3_3 c_h2v2_down)) t
  end.
Definition c_h2v2_downsample (iw ocols : nat) (row0 row1 : list Z) : list Z :=
  c_h2v2_loop (c3_1 c_h2v2_down)
    (combine (pairs (firstn (2 * ocols) (expand_right iw (2 * ocols) row0)))
             (pairs (firstn (2 * ocols) (expand_right iw (2 * ocols) row1)))).

(* ------------------------------------------------------------ downsample, asm *)
(* One loop iteration: V word lanes (two registers), lane k holds the byte pair
   (in[2k], in[2k+1]); pand 0x00FF / psrlw 8 split it, paddw adds, the bias register
   {b0,b1,b0,b1,..} is added, psrlw shifts, packuswb narrows both registers. *)
Definition asm_h2v1_lane (bias shift : Z) (p : Z * Z) : Z :=
  packuswb (psrlw (paddw (paddw (fst p) (snd p)) bias) shift).
Definition asm_h2v2_lane (bias shift : Z) (q : (Z * Z) * (Z * Z)) : Z :=
  packuswb (psrlw (paddw (paddw (paddw (fst (fst q)) (snd (fst q))) (paddw (fst (snd q)) (snd (snd q)))) bias) shift).
(* the two registers of an iteration; the bias pattern restarts in each register *)
Definition asm_down_block {A} (g0 g1 : A -> Z) (V : nat) (blk : list A) : list Z :=
  alt g0 g1 (firstn (V / 2) blk) ++ alt g0 g1 (skipn (V / 2) blk).
(* .columnloop while at least V output columns remain, then .columnloop_r8/r16/r24 once with
   the missing input zero-filled (pxor); the block always stores V bytes *)
Fixpoint asm_down_row {A} (fuel : nat) (g0 g1 : A -> Z) (zero : A) (V : nat) (ps : list A) : list Z :=
  match fuel with
  | O => []
  | S f =>
      if (length ps <? V)%nat then asm_down_block g0 g1 V (ps ++ repeat zero (V - length ps))
      else asm_down_block g0 g1 V (firstn V ps) ++
           (if (length ps =? V)%nat then [] else asm_down_row f g0 g1 zero V (skipn V ps))
  end.
Record down_consts := { dn_b1 : Z * Z; dn_b2 : Z * Z; dn_s1 : Z; dn_s2 : Z }.
Definition jcsample_sse2_consts : down_consts :=
  {| dn_b1 := jcsample_sse2_bias_h2v1; dn_b2 := jcsample_sse2_bias_h2v2;
     dn_s1 := nth 0 jcsample_sse2_shifts 0; dn_s2 := nth 2 jcsample_sse2_shifts 0 |}.
Definition jcsample_avx2_consts : down_consts :=
  {| dn_b1 := jcsample_avx2_bias_h2v1; dn_b2 := jcsample_avx2_bias_h2v2;
     dn_s1 := nth 0 jcsample_avx2_shifts 0; dn_s2 := nth 2 jcsample_avx2_shifts 0 |}.
Definition asm_h2v1_downsample (K : down_consts) (V iw ocols : nat) (row : list Z) : list Z :=
  let ps := pairs (firstn (2 * ocols) (expand_right iw (2 * ocols) row)) in
  firstn ocols (asm_down_row (S (length ps)) (asm_h2v1_lane (fst (dn_b1 K)) (dn_s1 K))
                             (asm_h2v1_lane (snd (dn_b1 K)) (dn_s1 K)) (0, 0) V ps).
Definition asm_h2v2_downsample (K : down_consts) (V iw ocols : nat) (row0 row1 : list Z) : list Z :=
  let qs := combine (pairs (firstn (2 * ocols) (expand_right iw (2 * ocols) row0)))
                    (pairs (firstn (2 * ocols) (expand_right iw (2 * ocols) row1))) in
  firstn ocols (asm_down_row (S (length qs)) (asm_h2v2_lane (fst (dn_b2 K)) (dn_s2 K))
                             (asm_h2v2_lane (snd (dn_b2 K)) (dn_s2 K)) ((0, 0), (0, 0)) V qs).

(* ------------------------------------------------------------ fancy upsample *)
(* three-point stencil over a row: column i sees (left, this, right); the first column's left
   neighbour is prev, the last column's right neighbour is next *)
Fixpoint stencil {A B} (f : A -> A -> A -> B) (prev : A) (l : list A) (next : A) : list B :=
  match l with
  | [] => []
  | x :: t =>
      match t with
      | [] => [f prev x next]
      | y :: _ => f prev x y :: stencil f x t next
      end
  end.
Definition flat2 (l : list (Z * Z)) : list Z := flat_map (fun p => [fst p; snd p]) l.

(* ---- C: h2v1_fancy_upsample, one row of w >= 3 columns ---- *)
Definition sh (x n : Z) := Z.shiftr x n.
Definition c5 (t : Z * Z * Z * Z * Z) (i : nat) : Z :=
  let '(a, b, c, d, e) := t in nth i [a; b; c; d; e] 0.
(* middle loop with inptr[-2], inptr[0]; ends with the special last column *)
Fixpoint c_h2v1_mid (left this : Z) (rest : list Z) : list (Z * Z) :=
  match rest with
  | [] => [(w8 (sh (this * c3_1 c_h2v1_fancy_last + left + c3_2 c_h2v1_fancy_last) (c3_3 c_h2v1_fancy_last)), this)]
  | nxt :: r =>
      (w8 (sh (this * c5 c_h2v1_fancy_mid 0 + left + c5 c_h2v1_fancy_mid 1) (c5 c_h2v1_fancy_mid 2)),
       w8 (sh (this * c5 c_h2v1_fancy_mid 0 + nxt + c5 c_h2v1_fancy_mid 3) (c5 c_h2v1_fancy_mid 4)))
      :: c_h2v1_mid this nxt r
  end.
Definition c_h2v1_fancy (row : list Z) : list (Z * Z) :=
  match row with
  | x0 :: x1 :: r =>
      (x0, w8 (sh (x0 * c3_1 c_h2v1_fancy_first + x1 + c3_2 c_h2v1_fancy_first) (c3_3 c_h2v1_fancy_first)))
      :: c_h2v1_mid x0 x1 r
  | _ => []
  end.

(* ---- C: h2v2_fancy_upsample, one output row from the nearer (in0) and farther (in1) input row ---- *)
Definition z6 (l : list Z) (i : nat) := nth i l 0.
Definition c_colsum (a b : Z) : Z := a * c_h2v2_fancy_vmult + b.
Fixpoint c_h2v2_mid (lastc this : Z) (rest : list Z) : list (Z * Z) :=
  match rest with
  | [] => [(w8 (sh (this * z6 c_h2v2_fancy_last 0 + lastc + z6 c_h2v2_fancy_last 1) (z6 c_h2v2_fancy_last 2)),
            w8 (sh (this * z6 c_h2v2_fancy_last 3 + z6 c_h2v2_fancy_last 4) (z6 c_h2v2_fancy_last 5)))]
  | nxt :: r =>
      (w8 (sh (this * z6 c_h2v2_fancy_mid 0 + lastc + z6 c_h2v2_fancy_mid 1) (z6 c_h2v2_fancy_mid 2)),
       w8 (sh (this * z6 c_h2v2_fancy_mid 3 + nxt + z6 c_h2v2_fancy_mid 4) (z6 c_h2v2_fancy_mid 5)))
      :: c_h2v2_mid this nxt r
  end.
Definition c_h2v2_fancy (in0 in1 : list Z) : list (Z * Z) :=
  match map2 c_colsum in0 in1 with
  | s0 :: s1 :: r =>
      (w8 (sh (s0 * z6 c_h2v2_fancy_first 0 + z6 c_h2v2_fancy_first 1) (z6 c_h2v2_fancy_first 2)),
       w8 (sh (s0 * z6 c_h2v2_fancy_first 3 + s1 + z6 c_h2v2_fancy_first 4) (z6 c_h2v2_fancy_first 5)))
      :: c_h2v2_mid s0 s1 r
  | _ => []
  end.

(* ---- asm ---- *)
Definition el2 (row : Z * list Z) : Z := nth 0 (snd row) 0.
Record up_consts := { u_ONE : Z; u_TWO : Z; u_THREE : Z; u_SEVEN : Z; u_EIGHT : Z; u_s1 : Z; u_s2 : Z }.
Definition jdsample_sse2_consts : up_consts :=
  {| u_ONE := w16 (el2 jdsample_sse2_PW_ONE); u_TWO := w16 (el2 jdsample_sse2_PW_TWO);
     u_THREE := w16 (el2 jdsample_sse2_PW_THREE); u_SEVEN := w16 (el2 jdsample_sse2_PW_SEVEN);
     u_EIGHT := w16 (el2 jdsample_sse2_PW_EIGHT);
     u_s1 := nth 0 jdsample_sse2_h2v1_fancy_psrlw 0; u_s2 := nth 0 jdsample_sse2_h2v2_fancy_psrlw 0 |}.
Definition jdsample_avx2_consts : up_consts :=
  {| u_ONE := w16 (el2 jdsample_avx2_PW_ONE); u_TWO := w16 (el2 jdsample_avx2_PW_TWO);
     u_THREE := w16 (el2 jdsample_avx2_PW_THREE); u_SEVEN := w16 (el2 jdsample_avx2_PW_SEVEN);
     u_EIGHT := w16 (el2 jdsample_avx2_PW_EIGHT);
     u_s1 := nth 0 jdsample_avx2_h2v1_fancy_psrlw 0; u_s2 := nth 0 jdsample_avx2_h2v2_fancy_psrlw 0 |}.

(* h2v1: word lanes this*3 (pmullw PW_THREE), left + PW_ONE, right + PW_TWO; psrlw 2;
   odd result shifted into the high byte and or-ed; the two stored bytes *)
Definition asm_h2v1_lane_f (U : up_consts) (l t r : Z) : Z * Z :=
  let t3 := pmullw t (u_THREE U) in
  let e := psrlw (paddw (paddw l (u_ONE U)) t3) (u_s1 U) in
  let o := psrlw (paddw (paddw r (u_TWO U)) t3) (u_s1 U) in
  (lo8 (pack_eo e o), hi8 (pack_eo e o)).
(* h2v2: lanes are the 16-bit column sums; this*3, left + PW_EIGHT, right + PW_SEVEN; psrlw 4 *)
Definition asm_colsum (U : up_consts) (a b : Z) : Z := paddw b (pmullw a (u_THREE U)).
Definition asm_h2v2_lane_f (U : up_consts) (l t r : Z) : Z * Z :=
  let t3 := pmullw t (u_THREE U) in
  let e := psrlw (paddw (paddw l (u_EIGHT U)) t3) (u_s2 U) in
  let o := psrlw (paddw (paddw r (u_SEVEN U)) t3) (u_s2 U) in
  (lo8 (pack_eo e o), hi8 (pack_eo e o)).

(* the block loop: xmm7 carries the last lane of the previous block (initially lane 0 of the
   first), the next block's lane 0 is fetched with pslldq 15 (.columnloop) or, for the last
   block, the block's own last lane is used (.columnloop_last) *)
Fixpoint asm_fancy_blocks {A B} (fuel : nat) (f : A -> A -> A -> B) (V : nat) (prev : A) (row : list A) : list B :=
  match fuel with
  | O => []
  | S fu =>
      let blk := firstn V row in
      match skipn V row with
      | [] => stencil f prev blk (last blk prev)
      | (n :: _) as rest => stencil f prev blk n ++ asm_fancy_blocks fu f V (last blk prev) rest
      end
  end.
Definition roundup (w V : nat) : nat := (if w mod V =? 0 then w else (w / V + 1) * V)%nat.
(* "insert a dummy sample": buf[w] := buf[w-1] when w is not a multiple of the vector size *)
Definition dummy (w V : nat) (buf : list Z) : list Z :=
  if (w mod V =? 0)%nat then buf else firstn w buf ++ [nth (w - 1) buf 0] ++ skipn (S w) buf.
(* buf: the input row buffer, at least roundup w V bytes long (the memory manager pads rows) *)
Definition asm_h2v1_fancy (U : up_consts) (V w : nat) (buf : list Z) : list (Z * Z) :=
  let row := firstn (roundup w V) (dummy w V buf) in
  firstn w (asm_fancy_blocks (S (length row)) (asm_h2v1_lane_f U) V (hd 0 row) row).
Definition asm_h2v2_fancy (U : up_consts) (V w : nat) (buf0 buf1 : list Z) : list (Z * Z) :=
  let r0 := firstn (roundup w V) (dummy w V buf0) in
  let r1 := firstn (roundup w V) (dummy w V buf1) in
  let sums := map2 (asm_colsum U) r0 r1 in
  firstn w (asm_fancy_blocks (S (length sums)) (asm_h2v2_lane_f U) V (hd 0 sums) sums).

(* plain (box) upsampling: punpcklbw x,x / punpckhbw x,x duplicates every byte;
   the C loop stores invalue twice *)
Definition c_h2v1_plain (row : list Z) : list Z := flat_map (fun a => [a; a]) row.
Definition asm_h2v1_plain (V : nat) (row : list Z) : list Z := interleave row row.
