(* C11 -- rows delivered per call by the post-processing controller (src/jdpostct.c) and the length of
   the spare-row copy of the merged upsampler (src/jdmerge.c merged_2v_upsample, with out_row_width set
   in _jinit_merged_upsampler and again in jpeg_crop_scanline, src/jdapistd.c).  No proofs.
   post_process_1pass:  max_rows = MIN(out_rows_avail - *out_row_ctr, strip_height); the upsampler delivers
                        num_rows <= max_rows (and <= its rows_to_go); *out_row_ctr += num_rows.
   post_process_prepass: nothing is stored through output_buf (color_quantize gets NULL).
   post_process_2pass:  num_rows = strip_height - next_row; clamp to out_rows_avail - *out_row_ctr; clamp to
                        the bottom of the image [pp2_clamp: which expression]; emit; next_row += num_rows;
                        if (next_row >= strip_height) { starting_row += strip_height; next_row = 0; } *)
From Coq Require Import List ZArith Bool.
From LJT Require Import model.Extent model.ExtentRows.
Import ListNotations.
Local Open Scope Z_scope.

(* right-hand side of the bottom-of-image clamp: 0 = output_height - starting_row,
   1 = output_height - starting_row - next_row, 2 = image_height - starting_row *)
Definition pp2_bottom (clamp : Z) (H imgH start next : Z) : Z :=
  if clamp =? 0 then H - start else if clamp =? 1 then H - start - next else imgH - start.

Definition pp2_num_rows (clamp s H imgH start next avail ctr : Z) : Z :=
  Z.min (Z.min (s - next) (avail - ctr)) (pp2_bottom clamp H imgH start next).

(* the second pass driven by jpeg_read_scanlines(max_lines = m): rows delivered by each call *)
Fixpoint pp2_run (fuel : nat) (clamp s m H imgH start next scan : Z) : list (Z * Z) :=
  match fuel with
  | O => []
  | S f =>
    if H <=? scan then []
    else
      let n := pp2_num_rows clamp s H imgH start next m 0 in
      let next' := next + n in
      (scan, n) :: (if s <=? next' then pp2_run f clamp s m H imgH (start + s) 0 (scan + n)
                    else pp2_run f clamp s m H imgH start next' (scan + n))
  end.

(* post_process_1pass on top of the upsampler clamp of ExtentRows *)
Definition pp1_num_rows (have rtg strip avail ctr : Z) : Z :=
  ups_num_rows true have rtg 0 (Z.min (avail - ctr) strip).

(* ---- merged_2v_upsample, spare row: _jcopy_sample_rows(&spare_row, 0, output_buf + ctr, 0, 1, size) *)
Definition orw_formula (special565 is565 : bool) (ow ncomp : Z) : Z :=
  if special565 && is565 then ow * 2 else ow * ncomp.
(* copy565 / init565 / crop565: does the site have the "JCS_RGB565 -> output_width * 2" special case *)
Definition spare_copy_len (copy565 init565 crop565 is565 cropped : bool) (ow_init ow_now ncomp : Z) : Z :=
  let orw := if cropped then orw_formula crop565 is565 ow_now ncomp else orw_formula init565 is565 ow_init ncomp in
  if copy565 && is565 then ow_now * 2 else orw.
(* size of an output row in samples: RGB565 packs a pixel into 2 bytes although out_color_components = 3 *)
Definition out_row_size (is565 : bool) (ow ncomp : Z) : Z := if is565 then ow * 2 else ow * ncomp.
