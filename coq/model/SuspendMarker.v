(* C09 -- model of the marker reader of jdmarker.c as suspendable units.

   Every routine that uses INPUT_VARS / INPUT_BYTE / INPUT_2BYTES / INPUT_SYNC is
   written in a parser monad P over the unread bytes that LOGS the assignments
   to cinfo fields in program order (`emit`).  When the input runs out the
   routine returns PMore with the assignments made so far: they are applied to
   the permanent state (that is what the C code has done when it executes
   `return FALSE`), nothing is consumed, and the routine is re-run from the
   marker start on the next call.  State changes that are not plain
   assignments of values computed from the bytes (counters, list appends,
   warnings, flags that gate the parse) are returned as a `commit` function
   and are applied only together with INPUT_SYNC.                             *)
From Coq Require Import List ZArith Bool.
From LJT Require Import model.SuspendCore.
Import ListNotations.
Local Open Scope Z_scope.

(* ---------------------------------------------------------------- errors *)
Inductive merr :=
| E_SOI_DUPLICATE | E_SOF_DUPLICATE | E_EMPTY_IMAGE | E_BAD_LENGTH | E_SOS_NO_SOF
| E_BAD_COMPONENT_ID | E_BAD_HUFF_TABLE | E_DHT_INDEX | E_DQT_INDEX | E_NO_SOI
| E_SOF_UNSUPPORTED | E_UNKNOWN_MARKER | E_ARITH_UNMODELLED.

(* ------------------------------------------- assignable part of the state *)
(* cells : rows of integer cells (cinfo scalars, comp_info[] columns, quantval[])
   rows  : whole-array objects written by one memcpy (JHUFF_TBL bits / huffval)  *)
Inductive mwrite :=
| WCell (g i : nat) (v : Z)
| WRow (r : nat) (l : list Z).

Fixpoint upd {A} (i : nat) (v : A) (l : list A) : list A :=
  match l with
  | [] => []
  | x :: t => match i with O => v :: t | S j => x :: upd j v t end
  end.

Definition cset (g i : nat) (v : Z) (c : list (list Z)) : list (list Z) :=
  upd g (upd i v (nth g c [])) c.
Definition cget (g i : nat) (c : list (list Z)) : Z := nth i (nth g c []) 0.

(* row numbers of `cells` *)
Definition G_SC := 0%nat.      (* scalars, see S_* *)
Definition G_ID := 1%nat.      (* comp_info[ci].component_id *)
Definition G_H := 2%nat.       (* h_samp_factor *)
Definition G_V := 3%nat.       (* v_samp_factor *)
Definition G_TQ := 4%nat.      (* quant_tbl_no *)
Definition G_DC := 5%nat.      (* dc_tbl_no *)
Definition G_AC := 6%nat.      (* ac_tbl_no *)
Definition G_CUR := 7%nat.     (* cur_comp_info[i] : 0 = NULL, ci+1 *)
Definition G_Q (n : nat) := (8 + n)%nat.   (* quant_tbl_ptrs[n]->quantval[64], natural order *)
Definition G_QA := 12%nat.     (* quant_tbl_ptrs[n] != NULL *)
(* scalars *)
Definition S_PROG := 0%nat.  Definition S_LOSSLESS := 1%nat.  Definition S_ARITH := 2%nat.
Definition S_PREC := 3%nat.  Definition S_HEIGHT := 4%nat.    Definition S_WIDTH := 5%nat.
Definition S_NCOMP := 6%nat. Definition S_CIS := 7%nat.
Definition S_SS := 8%nat.    Definition S_SE := 9%nat.  Definition S_AH := 10%nat.  Definition S_AL := 11%nat.
Definition S_RI := 12%nat.
(* `rows` : 2*t = dc table t bits, 2*t+1 = dc huffval, 8+2*t / 9+2*t = ac *)
Definition R_BITS (ac : bool) (t : nat) := ((if ac then 8 else 0) + 2 * t)%nat.
Definition R_VALS (ac : bool) (t : nat) := ((if ac then 9 else 1) + 2 * t)%nat.

Record saved := { sv_marker : Z; sv_orig : nat; sv_dlen : nat; sv_data : list byte }.

Record mstate := {
  cells : list (list Z);
  rows : list (list Z);
  saw_SOI : bool;
  saw_SOF : bool;
  unread_marker : Z;
  discarded : Z;                       (* marker->discarded_bytes *)
  warnings : list (Z * Z * Z);         (* emitted warnings, newest first: (code, p1, p2) *)
  next_restart_num : Z;
  input_scan_number : Z;
  jfif : list Z;                       (* saw_JFIF_marker major minor unit X Y *)
  adobe : list Z;                      (* saw_Adobe_marker transform *)
  cur_marker : option saved;           (* marker being saved (NULL = None) *)
  bytes_read : nat;
  marker_list : list saved;            (* newest last *)
  proc : list nat;                     (* 17 entries: APP0..15, COM : 0 skip_variable, 1 get_interesting_appn, 2 save_marker *)
  limit : list nat;                    (* length_limit_APPn[16], length_limit_COM *)
  halted : Z                           (* 0 running, 1 JPEG_REACHED_SOS, 2 JPEG_REACHED_EOI *)
}.

Definition set_cells c s := {| cells := c; rows := rows s; saw_SOI := saw_SOI s; saw_SOF := saw_SOF s;
  unread_marker := unread_marker s; discarded := discarded s; warnings := warnings s;
  next_restart_num := next_restart_num s; input_scan_number := input_scan_number s; jfif := jfif s;
  adobe := adobe s; cur_marker := cur_marker s; bytes_read := bytes_read s; marker_list := marker_list s;
  proc := proc s; limit := limit s; halted := halted s |}.
Definition set_rows r s := {| cells := cells s; rows := r; saw_SOI := saw_SOI s; saw_SOF := saw_SOF s;
  unread_marker := unread_marker s; discarded := discarded s; warnings := warnings s;
  next_restart_num := next_restart_num s; input_scan_number := input_scan_number s; jfif := jfif s;
  adobe := adobe s; cur_marker := cur_marker s; bytes_read := bytes_read s; marker_list := marker_list s;
  proc := proc s; limit := limit s; halted := halted s |}.
Definition set_saw_SOI b s := {| cells := cells s; rows := rows s; saw_SOI := b; saw_SOF := saw_SOF s;
  unread_marker := unread_marker s; discarded := discarded s; warnings := warnings s;
  next_restart_num := next_restart_num s; input_scan_number := input_scan_number s; jfif := jfif s;
  adobe := adobe s; cur_marker := cur_marker s; bytes_read := bytes_read s; marker_list := marker_list s;
  proc := proc s; limit := limit s; halted := halted s |}.
Definition set_saw_SOF b s := {| cells := cells s; rows := rows s; saw_SOI := saw_SOI s; saw_SOF := b;
  unread_marker := unread_marker s; discarded := discarded s; warnings := warnings s;
  next_restart_num := next_restart_num s; input_scan_number := input_scan_number s; jfif := jfif s;
  adobe := adobe s; cur_marker := cur_marker s; bytes_read := bytes_read s; marker_list := marker_list s;
  proc := proc s; limit := limit s; halted := halted s |}.
Definition set_unread m s := {| cells := cells s; rows := rows s; saw_SOI := saw_SOI s; saw_SOF := saw_SOF s;
  unread_marker := m; discarded := discarded s; warnings := warnings s;
  next_restart_num := next_restart_num s; input_scan_number := input_scan_number s; jfif := jfif s;
  adobe := adobe s; cur_marker := cur_marker s; bytes_read := bytes_read s; marker_list := marker_list s;
  proc := proc s; limit := limit s; halted := halted s |}.
Definition set_discarded d s := {| cells := cells s; rows := rows s; saw_SOI := saw_SOI s; saw_SOF := saw_SOF s;
  unread_marker := unread_marker s; discarded := d; warnings := warnings s;
  next_restart_num := next_restart_num s; input_scan_number := input_scan_number s; jfif := jfif s;
  adobe := adobe s; cur_marker := cur_marker s; bytes_read := bytes_read s; marker_list := marker_list s;
  proc := proc s; limit := limit s; halted := halted s |}.
Definition add_warning w s := {| cells := cells s; rows := rows s; saw_SOI := saw_SOI s; saw_SOF := saw_SOF s;
  unread_marker := unread_marker s; discarded := discarded s; warnings := w :: warnings s;
  next_restart_num := next_restart_num s; input_scan_number := input_scan_number s; jfif := jfif s;
  adobe := adobe s; cur_marker := cur_marker s; bytes_read := bytes_read s; marker_list := marker_list s;
  proc := proc s; limit := limit s; halted := halted s |}.
Definition set_scan nr sn s := {| cells := cells s; rows := rows s; saw_SOI := saw_SOI s; saw_SOF := saw_SOF s;
  unread_marker := unread_marker s; discarded := discarded s; warnings := warnings s;
  next_restart_num := nr; input_scan_number := sn; jfif := jfif s;
  adobe := adobe s; cur_marker := cur_marker s; bytes_read := bytes_read s; marker_list := marker_list s;
  proc := proc s; limit := limit s; halted := halted s |}.
Definition set_jfif j s := {| cells := cells s; rows := rows s; saw_SOI := saw_SOI s; saw_SOF := saw_SOF s;
  unread_marker := unread_marker s; discarded := discarded s; warnings := warnings s;
  next_restart_num := next_restart_num s; input_scan_number := input_scan_number s; jfif := j;
  adobe := adobe s; cur_marker := cur_marker s; bytes_read := bytes_read s; marker_list := marker_list s;
  proc := proc s; limit := limit s; halted := halted s |}.
Definition set_adobe a s := {| cells := cells s; rows := rows s; saw_SOI := saw_SOI s; saw_SOF := saw_SOF s;
  unread_marker := unread_marker s; discarded := discarded s; warnings := warnings s;
  next_restart_num := next_restart_num s; input_scan_number := input_scan_number s; jfif := jfif s;
  adobe := a; cur_marker := cur_marker s; bytes_read := bytes_read s; marker_list := marker_list s;
  proc := proc s; limit := limit s; halted := halted s |}.
Definition set_cur cm br s := {| cells := cells s; rows := rows s; saw_SOI := saw_SOI s; saw_SOF := saw_SOF s;
  unread_marker := unread_marker s; discarded := discarded s; warnings := warnings s;
  next_restart_num := next_restart_num s; input_scan_number := input_scan_number s; jfif := jfif s;
  adobe := adobe s; cur_marker := cm; bytes_read := br; marker_list := marker_list s;
  proc := proc s; limit := limit s; halted := halted s |}.
Definition set_mlist l s := {| cells := cells s; rows := rows s; saw_SOI := saw_SOI s; saw_SOF := saw_SOF s;
  unread_marker := unread_marker s; discarded := discarded s; warnings := warnings s;
  next_restart_num := next_restart_num s; input_scan_number := input_scan_number s; jfif := jfif s;
  adobe := adobe s; cur_marker := cur_marker s; bytes_read := bytes_read s; marker_list := l;
  proc := proc s; limit := limit s; halted := halted s |}.
Definition set_halted h s := {| cells := cells s; rows := rows s; saw_SOI := saw_SOI s; saw_SOF := saw_SOF s;
  unread_marker := unread_marker s; discarded := discarded s; warnings := warnings s;
  next_restart_num := next_restart_num s; input_scan_number := input_scan_number s; jfif := jfif s;
  adobe := adobe s; cur_marker := cur_marker s; bytes_read := bytes_read s; marker_list := marker_list s;
  proc := proc s; limit := limit s; halted := h |}.

Definition apply_write (w : mwrite) (s : mstate) : mstate :=
  match w with
  | WCell g i v => set_cells (cset g i v (cells s)) s
  | WRow r l => set_rows (upd r l (rows s)) s
  end.
Definition apply_all (ws : list mwrite) (s : mstate) : mstate := fold_left (fun s w => apply_write w s) ws s.

(* ------------------------------------------------------------ the monad *)
Inductive pr (A : Type) :=
| POk (a : A) (pos : nat) (ws : list mwrite)
| PMore (ws : list mwrite)
| PErr (e : merr).
Arguments POk {A}. Arguments PMore {A}. Arguments PErr {A}.

Definition P (A : Type) := list byte -> nat -> pr A.

Definition ret {A} (a : A) : P A := fun _ pos => POk a pos [].
Definition bind {A B} (m : P A) (f : A -> P B) : P B := fun p pos =>
  match m p pos with
  | POk a pos' w1 =>
      match f a p pos' with
      | POk b pos'' w2 => POk b pos'' (w1 ++ w2)
      | PMore w2 => PMore (w1 ++ w2)
      | PErr e => PErr e
      end
  | PMore w1 => PMore w1
  | PErr e => PErr e
  end.
(* INPUT_BYTE(cinfo, V, return FALSE) *)
Definition input_byte : P Z := fun p pos =>
  match nth_error p pos with Some b => POk b (S pos) [] | None => PMore [] end.
Definition emit (w : mwrite) : P unit := fun _ pos => POk tt pos [w].
Definition pfail {A} (e : merr) : P A := fun _ _ => PErr e.

Notation "x <- m ;; f" := (bind m (fun x => f)) (at level 61, m at next level, right associativity).
Notation "m ;;; f" := (bind m (fun _ => f)) (at level 61, right associativity).

(* INPUT_2BYTES *)
Definition input_2bytes : P Z :=
  a <- input_byte ;; b <- input_byte ;; ret (a * 256 + b).

(* for (i = i0; i < i0 + n; i++) body *)
Fixpoint rep {A} (n : nat) (body : nat -> A -> P A) (i : nat) (a : A) : P A :=
  match n with
  | O => ret a
  | S n' => a' <- body i a ;; rep n' body (S i) a'
  end.

Definition commit := mstate -> mstate.
Definition routine := P (commit * nat).     (* state change at INPUT_SYNC, bytes for skip_input_data *)

Definition sc (i : nat) (v : Z) := emit (WCell G_SC i v).

(* ------------------------------------------------------------- get_soi *)
(* reads nothing: a pure state function (can not suspend) *)
Definition get_soi (s : mstate) : mstate + merr :=
  if saw_SOI s then inr E_SOI_DUPLICATE
  else inl (set_saw_SOI true (set_adobe [0; 0] (set_jfif [0; 1; 1; 0; 1; 1]
             (apply_write (WCell G_SC S_RI 0) s)))).

(* ------------------------------------------------------------- get_sof *)
Definition get_sof (sawsof : bool) (is_prog is_lossless is_arith : Z) : routine :=
  if sawsof then pfail E_SOF_DUPLICATE else
  sc S_PROG is_prog ;;; sc S_LOSSLESS is_lossless ;;; sc S_ARITH is_arith ;;;
  length <- input_2bytes ;;
  prec <- input_byte ;; sc S_PREC prec ;;;
  h <- input_2bytes ;; sc S_HEIGHT h ;;;
  w <- input_2bytes ;; sc S_WIDTH w ;;;
  nc <- input_byte ;; sc S_NCOMP nc ;;;
  let length := length - 8 in
  if (h <=? 0) || (w <=? 0) || (nc <=? 0) then pfail E_EMPTY_IMAGE else
  if negb (length =? nc * 3) then pfail E_BAD_LENGTH else
  rep (Z.to_nat nc) (fun ci _ =>
      id <- input_byte ;; emit (WCell G_ID ci id) ;;;
      c <- input_byte ;;
      emit (WCell G_H ci (Z.land (Z.shiftr c 4) 15)) ;;;
      emit (WCell G_V ci (Z.land c 15)) ;;;
      tq <- input_byte ;; emit (WCell G_TQ ci tq)) 0%nat tt ;;;
  ret (set_saw_SOF true, 0%nat).

(* ------------------------------------------------------------- get_sos *)
(* search of the component (current source):
     for (ci = 0; ci < num_components; ci++)
       if (cc == comp_info[ci].component_id) {
         for (pi = 0; pi < i; pi++) if (cur_comp_info[pi] == compptr) break;
         if (pi == i) goto id_found; }
   `cur` mirrors cinfo->cur_comp_info[] as rewritten by THIS invocation (0 = NULL, ci+1) *)
Fixpoint find_comp (cc : Z) (ids : list Z) (cur : list Z) (i : nat) (ci : nat) (fuel : nat) : option nat :=
  match fuel with
  | O => None
  | S f =>
    if (cc =? nth ci ids 0) && negb (existsb (fun x => x =? Z.of_nat ci + 1) (firstn i cur)) then Some ci
    else find_comp cc ids cur i (S ci) f
  end.

Definition get_sos (sawsof : bool) (ncomp : Z) (ids : list Z) : routine :=
  if negb sawsof then pfail E_SOS_NO_SOF else
  length <- input_2bytes ;;
  n <- input_byte ;;
  if negb (length =? n * 2 + 6) || (n <? 1) || (n >? 4) then pfail E_BAD_LENGTH else
  sc S_CIS n ;;;
  emit (WCell G_CUR 0 0) ;;; emit (WCell G_CUR 1 0) ;;; emit (WCell G_CUR 2 0) ;;; emit (WCell G_CUR 3 0) ;;;
  rep (Z.to_nat n) (fun i cur =>
      cc <- input_byte ;;
      c <- input_byte ;;
      match find_comp cc ids cur i 0 (Z.to_nat ncomp) with
      | None => pfail E_BAD_COMPONENT_ID
      | Some ci =>
          emit (WCell G_CUR i (Z.of_nat ci + 1)) ;;;
          emit (WCell G_DC ci (Z.land (Z.shiftr c 4) 15)) ;;;
          emit (WCell G_AC ci (Z.land c 15)) ;;;
          (* for (pi = 0; pi < i; pi++) if (cur_comp_info[pi] == compptr) ERREXIT *)
          if existsb (fun x => x =? Z.of_nat ci + 1) (firstn i cur) then pfail E_BAD_COMPONENT_ID
          else ret (upd i (Z.of_nat ci + 1) cur)
      end) 0%nat [0; 0; 0; 0] ;;;
  c <- input_byte ;; sc S_SS c ;;;
  c <- input_byte ;; sc S_SE c ;;;
  c <- input_byte ;; sc S_AH (Z.land (Z.shiftr c 4) 15) ;;; sc S_AL (Z.land c 15) ;;;
  (* next_restart_num = 0; input_scan_number++ : only here, after the last read *)
  ret (fun s => set_scan 0 (input_scan_number s + 1) s, 0%nat).

(* ------------------------------------------------------------- get_dht *)
Definition zeros (n : nat) : list Z := repeat 0 n.

Fixpoint dht_loop (fuel : nat) (length : Z) : P Z :=
  match fuel with
  | O => ret length
  | S f =>
    if length >? 16 then
      index <- input_byte ;;
      bits <- rep 16 (fun _ acc => b <- input_byte ;; ret (acc ++ [b])) 1%nat [] ;;
      let count := fold_left Z.add bits 0 in
      let length := length - 17 in
      if (count >? 256) || (count >? length) then pfail E_BAD_HUFF_TABLE else
      vals <- rep (Z.to_nat count) (fun _ acc => b <- input_byte ;; ret (acc ++ [b])) 0%nat [] ;;
      let length := length - count in
      let isac := negb (Z.land index 16 =? 0) in
      let idx := if isac then index - 16 else index in
      if (idx <? 0) || (idx >=? 4) then pfail E_DHT_INDEX else
      emit (WRow (R_BITS isac (Z.to_nat idx)) (0 :: bits)) ;;;
      emit (WRow (R_VALS isac (Z.to_nat idx)) (vals ++ zeros (256 - Z.to_nat count))) ;;;
      dht_loop f length
    else ret length
  end.

Definition get_dht : routine :=
  length <- input_2bytes ;;
  rest <- dht_loop (Z.to_nat length) (length - 2) ;;
  if negb (rest =? 0) then pfail E_BAD_LENGTH else ret (fun s => s, 0%nat).

(* ------------------------------------------------------------- get_dqt *)
Definition natural_order : list nat :=
  [0; 1; 8; 16; 9; 2; 3; 10; 17; 24; 32; 25; 18; 11; 4; 5; 12; 19; 26; 33; 40; 48; 41; 34; 27; 20; 13; 6; 7; 14; 21; 28;
   35; 42; 49; 56; 57; 50; 43; 36; 29; 22; 15; 23; 30; 37; 44; 51; 58; 59; 52; 45; 38; 31; 39; 46; 53; 60; 61; 54; 47; 55; 62; 63]%nat.

Fixpoint dqt_loop (fuel : nat) (length : Z) : P Z :=
  match fuel with
  | O => ret length
  | S f =>
    if length >? 0 then
      n0 <- input_byte ;;
      let prec := Z.shiftr n0 4 in
      let n := Z.land n0 15 in
      if n >=? 4 then pfail E_DQT_INDEX else
      emit (WCell G_QA (Z.to_nat n) 1) ;;;
      rep 64 (fun i _ =>
          tmp <- (if prec =? 0 then input_byte else input_2bytes) ;;
          emit (WCell (G_Q (Z.to_nat n)) (nth i natural_order 0%nat) tmp)) 0%nat tt ;;;
      dqt_loop f (length - 65 - (if prec =? 0 then 0 else 64))
    else ret length
  end.

Definition get_dqt : routine :=
  length <- input_2bytes ;;
  rest <- dqt_loop (Z.to_nat length) (length - 2) ;;
  if negb (rest =? 0) then pfail E_BAD_LENGTH else ret (fun s => s, 0%nat).

(* ------------------------------------------------------------- get_dri *)
Definition get_dri : routine :=
  length <- input_2bytes ;;
  if negb (length =? 4) then pfail E_BAD_LENGTH else
  tmp <- input_2bytes ;;
  sc S_RI tmp ;;;
  ret (fun s => s, 0%nat).

(* ------------------------------------------------------- skip_variable *)
Definition skip_variable : routine :=
  length <- input_2bytes ;;
  ret (fun s => s, Z.to_nat (length - 2)).

(* ------------------------------------------ examine_app0 / examine_app14 *)
Definition JWRN_JFIF_MAJOR := 1.
Definition JWRN_EXTRANEOUS_DATA := 2.

Definition nthz (i : nat) (l : list Z) := nth i l 0.
Definition examine_app0 (data : list Z) : commit := fun s =>
  if (Nat.leb 14 (length data)) && (nthz 0 data =? 74) && (nthz 1 data =? 70) && (nthz 2 data =? 73)
     && (nthz 3 data =? 70) && (nthz 4 data =? 0)
  then
    let s1 := set_jfif [1; nthz 5 data; nthz 6 data; nthz 7 data;
                        nthz 8 data * 256 + nthz 9 data; nthz 10 data * 256 + nthz 11 data] s in
    if nthz 5 data =? 1 then s1 else add_warning (JWRN_JFIF_MAJOR, nthz 5 data, nthz 6 data) s1
  else s.
Definition examine_app14 (data : list Z) : commit := fun s =>
  if (Nat.leb 12 (length data)) && (nthz 0 data =? 65) && (nthz 1 data =? 100) && (nthz 2 data =? 111)
     && (nthz 3 data =? 98) && (nthz 4 data =? 101)
  then set_adobe [1; nthz 11 data] s
  else s.
Definition examine (marker : Z) (data : list Z) : commit :=
  if marker =? 224 then examine_app0 data else if marker =? 238 then examine_app14 data else fun s => s.

(* ------------------------------------------------- get_interesting_appn *)
Definition get_interesting_appn (marker : Z) : routine :=
  length <- input_2bytes ;;
  let length := length - 2 in
  let numtoread := if length >=? 14 then 14%nat else if length >? 0 then Z.to_nat length else 0%nat in
  b <- rep numtoread (fun _ acc => x <- input_byte ;; ret (acc ++ [x])) 0%nat [] ;;
  if negb ((marker =? 224) || (marker =? 238)) then pfail E_UNKNOWN_MARKER else
  ret (examine marker b, Z.to_nat (length - Z.of_nat numtoread)).

(* -------------------------------------------------------- first_marker *)
Definition first_marker : routine :=
  c <- input_byte ;;
  c2 <- input_byte ;;
  if negb (c =? 255) || negb (c2 =? 216) then pfail E_NO_SOI else
  ret (set_unread c2, 0%nat).

(* from a routine to a unit *)
Definition run_routine (m : routine) (after : commit) (s : mstate) (p : list byte) : ures mstate merr :=
  match m p 0%nat with
  | POk (c, k) n ws => Done (after (c (apply_all ws s))) n k
  | PMore ws => More (apply_all ws s) 0
  | PErr e => Fail e
  end.

(* --------------------------------------------------------- next_marker *)
(* Written directly on the byte list because it moves the restart point while
   it goes (INPUT_SYNC after every discarded byte).
     disc : marker->discarded_bytes
     n    : bytes consumed up to the last INPUT_SYNC
     k    : 0 = in the `while (c != 0xFF)` garbage loop (everything read is synced)
            k > 0 = k 0xFF bytes read since the last sync (do { } while (c == 0xFF)) *)
Inductive nm_res := NM_found (c : Z) (disc : Z) (n : nat) | NM_more (disc : Z) (n : nat).

Fixpoint nm (p : list byte) (disc : Z) (n k : nat) : nm_res :=
  match p with
  | [] => NM_more disc n                                             (* suspend at the last sync *)
  | c :: p' =>
    match k with
    | O => if c =? 255 then nm p' disc n 1
           else nm p' (disc + 1) (S n) 0                             (* discarded_bytes++; INPUT_SYNC *)
    | S _ => if c =? 255 then nm p' disc n (S k)                     (* duplicate FF: not counted *)
             else if c =? 0 then nm p' (disc + 2) (n + k + 1) 0      (* FF/00: discarded_bytes += 2; SYNC *)
             else NM_found c disc (n + k + 1)
    end
  end.

Definition next_marker (s : mstate) (p : list byte) : ures mstate merr :=
  match nm p (discarded s) 0 0 with
  | NM_more disc n => More (set_discarded disc s) n
  | NM_found c disc n =>
      let s0 := set_discarded disc s in      (* the C code updates the field in place *)
      let s1 := if disc =? 0 then s0
                else set_discarded 0 (add_warning (JWRN_EXTRANEOUS_DATA, disc, c) s0) in
      Done (set_unread c s1) n 0
  end.

(* --------------------------------------------------------- save_marker *)
Definition proc_index (marker : Z) : nat := if marker =? 254 then 16%nat else Z.to_nat (marker - 224).

(* the copy loop + completion, shared by the fresh and the resumed entry;
   n0 bytes already consumed in this call (the length word) *)
Definition save_copy (s : mstate) (cm : saved) (br : nat) (p : list byte) (n0 : nat) : ures mstate merr :=
  let want := (sv_dlen cm - br)%nat in
  let got := firstn want p in
  let cm' := {| sv_marker := sv_marker cm; sv_orig := sv_orig cm; sv_dlen := sv_dlen cm;
                sv_data := sv_data cm ++ got |} in
  let br' := (br + length got)%nat in
  if Nat.ltb br' (sv_dlen cm) then
    (* INPUT_SYNC; marker->bytes_read = bytes_read; MAKE_BYTE_AVAIL -> return FALSE *)
    More (set_cur (Some cm') br' s) (n0 + length got)
  else
    let s1 := set_mlist (marker_list s ++ [cm']) s in
    let s2 := set_cur None br' s1 in
    let s3 := examine (unread_marker s) (sv_data cm') s2 in
    Done (set_unread 0 s3) (n0 + length got) (sv_orig cm - sv_dlen cm).

Definition save_marker (s : mstate) (p : list byte) : ures mstate merr :=
  match cur_marker s with
  | None =>
    match p with
    | b1 :: b2 :: p' =>
      let length := b1 * 256 + b2 - 2 in
      if length >=? 0 then
        let lim := Nat.min (nth (proc_index (unread_marker s)) (limit s) 0%nat) (Z.to_nat length) in
        let cm := {| sv_marker := unread_marker s; sv_orig := Z.to_nat length; sv_dlen := lim; sv_data := [] |} in
        save_copy s cm 0 p' 2
      else
        (* bogus length word: nothing saved, nothing skipped *)
        Done (set_unread 0 (examine (unread_marker s) [] (set_cur None (bytes_read s) s))) 2 0
    | _ => More s 0
    end
  | Some cm => save_copy s cm (bytes_read s) p 0
  end.

(* -------------------------------------------------------- read_markers *)
Definition after_marker : commit := set_unread 0.

(* the switch of read_markers: which routine runs in state s *)
Inductive branch :=
| BHalt                                        (* JPEG_REACHED_SOS / JPEG_REACHED_EOI already returned *)
| BNext                                        (* next_marker *)
| BRoutine (m : routine) (after : commit)      (* INPUT_VARS routine, then unread_marker = 0 *)
| BPure (f : mstate -> mstate + merr)          (* parameterless markers *)
| BFail (e : merr)
| BSave.                                       (* save_marker *)

Definition select' (hlt m : Z) (sawsoi sawsof : bool) (procs : list nat) (ncomp : Z) (ids : list Z) : branch :=
  if negb (hlt =? 0) then BHalt else
  if m =? 0 then
    if sawsoi then BNext else BRoutine first_marker (fun s => s)
  else if m =? 216 then                      (* SOI *)
    BPure (fun s => match get_soi s with inl s' => inl (after_marker s') | inr e => inr e end)
  else if (m =? 192) || (m =? 193) then BRoutine (get_sof sawsof 0 0 0) after_marker
  else if m =? 194 then BRoutine (get_sof sawsof 1 0 0) after_marker
  else if m =? 195 then BRoutine (get_sof sawsof 0 1 0) after_marker
  else if m =? 201 then BRoutine (get_sof sawsof 0 0 1) after_marker
  else if m =? 202 then BRoutine (get_sof sawsof 1 0 1) after_marker
  else if m =? 203 then BRoutine (get_sof sawsof 0 1 1) after_marker
  else if (m =? 197) || (m =? 198) || (m =? 199) || (m =? 200) || (m =? 205) || (m =? 206) || (m =? 207)
       then BFail E_SOF_UNSUPPORTED
  else if m =? 218 then                      (* SOS: return JPEG_REACHED_SOS *)
    BRoutine (get_sos sawsof ncomp ids) (fun s => set_halted 1 (after_marker s))
  else if m =? 217 then BPure (fun s => inl (set_halted 2 (after_marker s)))      (* EOI *)
  else if m =? 204 then BFail E_ARITH_UNMODELLED                                  (* DAC *)
  else if m =? 196 then BRoutine get_dht after_marker
  else if m =? 219 then BRoutine get_dqt after_marker
  else if m =? 221 then BRoutine get_dri after_marker
  else if ((224 <=? m) && (m <=? 239)) || (m =? 254) then
    match nth (proc_index m) procs 0%nat with
    | 0%nat => BRoutine skip_variable after_marker
    | 1%nat => BRoutine (get_interesting_appn m) after_marker
    | _ => BSave
    end
  else if ((208 <=? m) && (m <=? 215)) || (m =? 1) then BPure (fun s => inl (after_marker s))  (* RSTn, TEM *)
  else if m =? 220 then BRoutine skip_variable after_marker                      (* DNL *)
  else BFail E_UNKNOWN_MARKER.

Definition select (s : mstate) : branch :=
  select' (halted s) (unread_marker s) (saw_SOI s) (saw_SOF s) (proc s)
          (cget G_SC S_NCOMP (cells s)) (nth G_ID (cells s) []).

Definition exec (b : branch) (s : mstate) (p : list byte) : ures mstate merr :=
  match b with
  | BHalt => Halt
  | BNext => next_marker s p
  | BRoutine m after => run_routine m after s p
  | BPure f => match f s with inl s' => Done s' 0 0 | inr e => Fail e end
  | BFail e => Fail e
  | BSave => save_marker s p
  end.

Definition marker_unit (s : mstate) (p : list byte) : ures mstate merr := exec (select s) s p.

Definition marker_slack (s : mstate) : nat :=
  if negb (halted s =? 0) then 0%nat else if unread_marker s =? 0 then 0%nat else 1%nat.

(* jinit_marker_reader + jpeg_save_markers configuration *)
Definition minit (procs limits : list nat) : mstate :=
  {| cells := [zeros 16; zeros 256; zeros 256; zeros 256; zeros 256; zeros 256; zeros 256; zeros 4;
               zeros 64; zeros 64; zeros 64; zeros 64; zeros 4];
     rows := repeat [] 16;
     saw_SOI := false; saw_SOF := false; unread_marker := 0; discarded := 0; warnings := [];
     next_restart_num := 0; input_scan_number := 0; jfif := [0; 1; 1; 0; 1; 1]; adobe := [0; 0];
     cur_marker := None; bytes_read := 0%nat; marker_list := []; proc := procs; limit := limits; halted := 0 |}.

Definition default_procs : list nat := [1; 0; 0; 0; 0; 0; 0; 0; 0; 0; 0; 0; 0; 0; 1; 0; 0]%nat.
Definition default_limits : list nat := repeat 0%nat 17.

(* continue after JPEG_REACHED_SOS (the caller has consumed the entropy-coded segment) *)
Definition resume_after_sos (s : mstate) : mstate := if halted s =? 1 then set_halted 0 s else s.

Definition run_markers (cs : list (list byte)) (s : mstate) := run_chunked marker_unit marker_slack cs s.
