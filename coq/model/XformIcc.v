(* C13, "worst-case size + ICC" for lossless transforms: the ICC term of tj3TransformBufSize()
   next to the ICC payload that tj3Transform() writes (one transform, n = 1), both built from
   the conditions translated from the source (gen/GenXformIcc.v).  No proofs here. *)
From Coq Require Import ZArith Bool.
From LJT Require Import gen.GenXformIcc gen.GenDest.
Local Open Scope Z_scope.
Local Open Scope bool_scope.

Record xsetup := mkX {
  x_save : Z;          (* TJPARAM_SAVEMARKERS 0..4 (= JCOPY_OPTION) *)
  x_copynone : bool;   (* TJXOPT_COPYNONE *)
  x_src : Z;           (* size of the ICC profile embedded in the source JPEG, 0 = none *)
  x_inst : Z;          (* size of the profile set with tj3SetICCProfile(), 0 = none *)
  x_got : bool }.      (* tj3GetICCProfile() called between tj3DecompressHeader() and tj3TransformBufSize() *)

(* tempICCSize when tj3TransformBufSize() is called; [zeroes] = tj3GetICCProfile() resets it *)
Definition temp_icc_with (zeroes : bool) (x : xsetup) : Z :=
  if gen_header_extracts (x_save x) && negb (x_got x && zeroes) then x_src x else 0.
Definition size_term_with (term : Z -> bool -> Z -> Z -> Z) (zeroes : bool) (x : xsetup) : Z :=
  term (x_save x) (x_copynone x) (temp_icc_with zeroes x) (x_inst x).

(* the tree as it is *)
Definition temp_icc (x : xsetup) : Z := temp_icc_with gen_get_zeroes_temp x.
Definition size_term (x : xsetup) : Z := size_term_with gen_size_term gen_get_zeroes_temp x.

(* the rules before the two fixes (bc00053, 63ab915), kept as refuted models *)
Definition old_size_term_rule (save : Z) (copynone : bool) (temp inst : Z) : Z :=
  if ((save =? 2) || (save =? 4)) && negb copynone then temp else inst.

(* tj3Transform: the source header is read again with the markers selected by the copy option *)
Definition copy_opt (x : xsetup) : Z := gen_copy_option (x_save x) (x_copynone x).
Definition saved_icc (x : xsetup) : bool := gen_saves_app2 (copy_opt x) && (0 <? x_src x).
Definition copied_bytes (x : xsetup) : Z := if saved_icc x && gen_copies_app2 (copy_opt x) then x_src x else 0.
Definition icc_copied (x : xsetup) : bool := gen_icc_copied (copy_opt x) (saved_icc x).
Definition inst_bytes (x : xsetup) : Z := if gen_writes_inst (x_inst x) (icc_copied x) then x_inst x else 0.
Definition icc_written (x : xsetup) : Z := copied_bytes x + inst_bytes x.

Definition valid_setup (x : xsetup) : Prop :=
  gen_savemarkers_min <= x_save x <= gen_savemarkers_max /\ 0 <= x_src x /\ 0 <= x_inst x.


(* ---- bytes, not only payload: every APP2 chunk costs icc_chunk_overhead more bytes (marker, length,
        "ICC_PROFILE\0", sequence number, count).  A copied source profile keeps the chunking of the source
        (1..255 chunks, any sizes); jpeg_write_icc_profile cuts the instance profile into 65519-byte chunks. *)
Definition icc_chunk_overhead : Z := 2 + 2 + GenDest.icc_overhead_len.
Definition inst_chunks (inst : Z) : Z := (inst + (GenDest.icc_max_bytes_in_marker - GenDest.icc_overhead_len) - 1)
                                         / (GenDest.icc_max_bytes_in_marker - GenDest.icc_overhead_len).
Definition chunks_written (x : xsetup) (src_chunks : Z) : Z :=
  (if saved_icc x && gen_copies_app2 (copy_opt x) then src_chunks else 0) +
  (if gen_writes_inst (x_inst x) (icc_copied x) then inst_chunks (x_inst x) else 0).
Definition icc_bytes_written (x : xsetup) (src_chunks : Z) : Z :=
  icc_written x + icc_chunk_overhead * chunks_written x src_chunks.
(* the part of tj3TransformBufSize() that is not the per-sample budget of the image *)
Definition marker_budget (x : xsetup) : Z := size_term x + GenDest.bufsize_slack.

(* ---- the size function with the per-chunk overhead (gen_chunk_overhead = 0 while it counts the payload only):
        source chunks are counted when the header is read (k = number of APP2 ICC markers of the source), the instance
        profile is assumed to be written in gen_inst_chunk-byte chunks *)
Definition temp_markers (x : xsetup) (k : Z) : Z := if gen_header_extracts (x_save x) then k else 0.
Definition inst_chunks_assumed (chunk inst : Z) : Z :=
  if inst =? 0 then 0 else inst / chunk + (if inst mod chunk =? 0 then 0 else 1).
Definition size_term_bytes_with (ov chunk : Z) (x : xsetup) (k : Z) : Z :=
  size_term x + ov *
    (if gen_size_picks_temp (x_save x) (x_copynone x) (temp_icc x) (x_inst x) then temp_markers x k
     else inst_chunks_assumed chunk (x_inst x)).
Definition size_term_bytes (x : xsetup) (k : Z) : Z := size_term_bytes_with gen_chunk_overhead gen_inst_chunk x k.
