(* C11 -- extent of caller memory the TurboJPEG API hands to the core library and
   that the SIMD colour-conversion kernels touch.  Executable model, no proofs.

   An access is (buffer, byte offset, byte length, R|W).  Offsets are relative to
   the pointer the caller passed for that buffer.

   (a) row-pointer construction of src/turbojpeg-mp.c (tj3Compress8/12/16, tj3Decompress8/12/16)
       and src/turbojpeg.c (tj3EncodeYUVPlanes8, tj3DecodeYUVPlanes8), and the
       per-row interval num_cols*pixelsize*samplesize the converters are told;
   (b) the load / store cascades of simd/x86_64/j{c,d}colext-*.asm,
       jdmrgext-*.asm, jcgryext-*.asm as small programs, and their interpreter;
   (c) round_up_pow2 / alloc_sarray row rounding of src/jmemmgr.c and PAD of
       src/turbojpeg.c;
   (d) plane geometry (tj3YUVPlaneWidth/Height/Size, tj3YUVBufSize) and the plane
       row loops of the four YUV entry points. *)
From Coq Require Import List ZArith Bool.
Import ListNotations.
Local Open Scope Z_scope.

Inductive rw := R | W.
Record access := mkAcc { a_buf : Z; a_off : Z; a_len : Z; a_rw : rw }.

(* ------------------------------------------------------------------ (c) *)
(* jmemmgr.c: return ((a + b - 1) & (~(b - 1)));   turbojpeg.c: PAD(v, p) *)
Definition round_up_pow2 (a b : Z) : Z := Z.land (a + b - 1) (Z.lnot (b - 1)).
Definition PAD := round_up_pow2.

(* alloc_sarray: samplesperrow = round_up_pow2(samplesperrow, (2 * ALIGN_SIZE) / sample_size) *)
Definition sarray_row_len (align_size sample_size samplesperrow : Z) : Z :=
  round_up_pow2 samplesperrow ((2 * align_size) / sample_size).

(* columns a kernel with vector width v touches when asked for n columns: it
   always loads/stores whole vectors on its INTERNAL side *)
Definition simd_touched (v n : Z) : Z := ((n + v - 1) / v) * v.

(* ------------------------------------------------------------------ (a) *)
(* row_pointer[i] = &buf[(height - i - 1) * pitch]  /  &buf[i * pitch]   (samples) *)
Definition row_ptr (base pitch h : Z) (bottomUp : bool) (i : Z) : Z :=
  if bottomUp then base + (h - i - 1) * pitch else base + i * pitch.

Fixpoint rows_from (base pitch h : Z) (bottomUp : bool) (i : Z) (n : nat) : list Z :=
  match n with
  | O => []
  | S k => row_ptr base pitch h bottomUp i :: rows_from base pitch h bottomUp (i + 1) k
  end.

(* for (i = 0; i < height; i++) row_pointer[i] = ... *)
Definition rows (base pitch h : Z) (bottomUp : bool) : list Z :=
  rows_from base pitch h bottomUp 0 (Z.to_nat h).

(* if (pitch == 0) pitch = width * tjPixelSize[pixelFormat]; *)
Definition eff_pitch (pitch w ps : Z) : Z := if pitch =? 0 then w * ps else pitch.

(* what jpeg_write_scanlines / jpeg_read_scanlines are told for each row pointer:
   num_cols = w pixels of ps samples of ssize bytes.  pitch is in samples. *)
Definition packed_accesses (k : rw) (w pitch h ps ssize : Z) (bottomUp : bool) : list access :=
  map (fun p => mkAcc 0 (p * ssize) (w * ps * ssize) k) (rows 0 (eff_pitch pitch w ps) h bottomUp).

Definition compress_accesses := packed_accesses R.

(* TJSCALED *)
Definition tjscaled (dim num den : Z) : Z := (dim * num + den - 1) / den.

Record region := mkRegion { r_x : Z; r_y : Z; r_w : Z; r_h : Z }.

(* tj3SetCroppingRegion: validation and normalisation (mcuw = tjMCUWidth[subsamp]) *)
Definition set_crop (jw jh num den mcuw : Z) (c : region) : option region :=
  if (r_x c =? 0) && (r_y c =? 0) && (r_w c =? 0) && (r_h c =? 0) then Some c else
  if (r_x c <? 0) || (r_y c <? 0) || (r_w c <? 0) || (r_h c <? 0) then None else
  let sw := tjscaled jw num den in
  let sh := tjscaled jh num den in
  if negb (r_x c mod tjscaled mcuw num den =? 0) then None else
  let w := if r_w c =? 0 then sw - r_x c else r_w c in
  let h := if r_h c =? 0 then sh - r_y c else r_h c in
  if (w <=? 0) || (h <=? 0) || (sw <? r_x c + w) || (sh <? r_y c + h) then None
  else Some (mkRegion (r_x c) (r_y c) w h).

(* tj3Decompress8/12/16: output_width after the optional jpeg_crop_scanline, croppedHeight *)
Definition dec_out_w (jw num den : Z) (c : region) : Z :=
  let sw := tjscaled jw num den in
  if negb (r_x c =? 0) || (negb (r_w c =? 0) && negb (r_w c =? sw)) then r_w c else sw.
Definition dec_out_h (jh num den : Z) (c : region) : Z :=
  if negb (r_y c =? 0) || negb (r_h c =? 0) then r_h c else tjscaled jh num den.

Definition decompress_accesses (jw jh num den : Z) (c : region) (pitch ps ssize : Z) (bottomUp : bool) : list access :=
  packed_accesses W (dec_out_w jw num den c) pitch (dec_out_h jh num den c) ps ssize bottomUp.

(* ------------------------------------------------------------------ (b) *)
(* Store epilogue ("cmp rcx, T / jb next / stores / add rdi, A / sub rcx, D [/ jmp L]"):
   s_skip = number of following steps the trailing jmp jumps over. *)
Record st_step := mkSt { s_thr : Z; s_acc : list (Z * Z); s_adv : Z; s_dec : Z; s_skip : nat }.

Definition shift (off : Z) (a : Z * Z) : Z * Z := (off + fst a, snd a).

Fixpoint run_st (steps : list st_step) (skip : nat) (cnt off : Z) : list (Z * Z) :=
  match steps with
  | [] => []
  | s :: t =>
    match skip with
    | S k => run_st t k cnt off
    | O => if cnt <? s_thr s then run_st t O cnt off
           else map (shift off) (s_acc s) ++ run_st t (s_skip s) (cnt - s_dec s) (off + s_adv s)
    end
  end.

(* Load prologue ("test cl, K / jz next / [sub rcx, D] / loads [/ jmp cnv]"):
   a load is (relative?, offset, length); relative means [rsi + rcx*scale + offset]
   with rcx the value AFTER the sub. *)
Record ld_step := mkLd { l_bit : Z; l_dec : Z; l_acc : list (bool * Z * Z); l_exit : bool }.

Definition ld_addr (scale cnt : Z) (a : bool * Z * Z) : Z * Z :=
  let '(rel, o, len) := a in ((if rel then cnt * scale + o else o), len).

Fixpoint run_ld (steps : list ld_step) (scale cnt : Z) : list (Z * Z) :=
  match steps with
  | [] => []
  | s :: t =>
    if Z.land cnt (l_bit s) =? 0 then run_ld t scale cnt
    else let cnt' := cnt - l_dec s in
         map (ld_addr scale cnt') (l_acc s) ++ (if l_exit s then [] else run_ld t scale cnt')
  end.

(* A kernel: vector width in columns (k_vec), caller-side bytes per column (k_ps),
   counter multiplier applied before the cascade ("lea rcx,[rcx+rcx*2]": 3, else 1),
   the full-vector caller-side accesses of one main-loop iteration, the cascade. *)
Record st_kernel := mkStK { sk_vec : Z; sk_ps : Z; sk_mult : Z; sk_full : list (Z * Z); sk_tail : list st_step }.
Record ld_kernel := mkLdK { lk_vec : Z; lk_ps : Z; lk_mult : Z; lk_scale : Z; lk_full : list (Z * Z); lk_tail : list ld_step }.

(* .columnloop of jdcolext / jdmrgext:  convert; cmp rcx, V; jb tail; full stores;
   add rdi, ps*V; sub rcx, V; jz nextrow; jmp columnloop *)
Fixpoint st_row (fuel : nat) (k : st_kernel) (cols off : Z) : option (list (Z * Z)) :=
  match fuel with
  | O => None
  | S f =>
    if cols <? sk_vec k then Some (run_st (sk_tail k) O (cols * sk_mult k) off)
    else
      let full := map (shift off) (sk_full k) in
      if cols - sk_vec k =? 0 then Some full
      else match st_row f k (cols - sk_vec k) (off + sk_ps k * sk_vec k) with
           | Some l => Some (full ++ l)
           | None => None
           end
  end.

(* jccolext / jcgryext: cmp rcx, V; jae columnloop; (tail loads) ; convert ; sub rcx, V;
   add rsi, ps*V; cmp rcx, V; jae columnloop; test rcx, rcx; jnz column_ld1 *)
Fixpoint ld_row (fuel : nat) (k : ld_kernel) (cols off : Z) : option (list (Z * Z)) :=
  match fuel with
  | O => None
  | S f =>
    if cols <? lk_vec k then
      Some (if cols =? 0 then [] else map (shift off) (run_ld (lk_tail k) (lk_scale k) (cols * lk_mult k)))
    else
      match ld_row f k (cols - lk_vec k) (off + lk_ps k * lk_vec k) with
      | Some l => Some (map (shift off) (lk_full k) ++ l)
      | None => None
      end
  end.

Definition st_row_stores (k : st_kernel) (cols : Z) := st_row (S (Z.to_nat cols)) k cols 0.
Definition ld_row_loads (k : ld_kernel) (cols : Z) := ld_row (S (Z.to_nat cols)) k cols 0.

(* ---- hand transcription of the epilogues (the translator tools/gen_Tail.py re-reads
   them from the .asm files on every run; proofs/ExtentProofs.v shows both agree) ---- *)
(* jdcolext-sse2.asm / jdmrgext-sse2.asm, RGB_PIXELSIZE == 3: counter in bytes *)
Definition sse2_st3 : st_kernel := mkStK 16 3 3 [(0,16); (16,16); (32,16)]
  [ mkSt 32 [(0,16); (16,16)] 32 32 1;   (* .column_st32, jmp .column_st15 *)
    mkSt 16 [(0,16)] 16 16 0;            (* .column_st16 *)
    mkSt 8  [(0,8)] 8 8 0;               (* .column_st15 *)
    mkSt 4  [(0,4)] 4 4 0;               (* .column_st7  *)
    mkSt 2  [(0,2)] 2 2 0;               (* .column_st3  *)
    mkSt 1  [(0,1)] 1 1 0 ].             (* .column_st1  *)
(* RGB_PIXELSIZE == 4: counter in pixels *)
Definition sse2_st4 : st_kernel := mkStK 16 4 1 [(0,16); (16,16); (32,16); (48,16)]
  [ mkSt 8 [(0,16); (16,16)] 32 8 0;
    mkSt 4 [(0,16)] 16 4 0;
    mkSt 2 [(0,8)] 8 2 0;
    mkSt 1 [(0,4)] 4 1 0 ].
(* jdcolext-avx2.asm / jdmrgext-avx2.asm *)
Definition avx2_st3 : st_kernel := mkStK 32 3 3 [(0,32); (32,32); (64,32)]
  [ mkSt 64 [(0,32); (32,32)] 64 64 1;   (* .column_st64, jmp .column_st31 *)
    mkSt 32 [(0,32)] 32 32 0;            (* .column_st32, jmp .column_st31 (next) *)
    mkSt 16 [(0,16)] 16 16 0;            (* .column_st31 *)
    mkSt 8  [(0,8)] 8 8 0;
    mkSt 4  [(0,4)] 4 4 0;
    mkSt 2  [(0,2)] 2 2 0;
    mkSt 1  [(0,1)] 1 1 0 ].
Definition avx2_st4 : st_kernel := mkStK 32 4 1 [(0,32); (32,32); (64,32); (96,32)]
  [ mkSt 16 [(0,32); (32,32)] 64 16 0;
    mkSt 8 [(0,32)] 32 8 0;
    mkSt 4 [(0,16)] 16 4 0;
    mkSt 2 [(0,8)] 8 2 0;
    mkSt 1 [(0,4)] 4 1 0 ].

(* jccolext-sse2.asm / jcgryext-sse2.asm *)
Definition sse2_ld3 : ld_kernel := mkLdK 16 3 3 1 [(0,16); (16,16); (32,16)]
  [ mkLd 1 1 [(true,0,1)] false;
    mkLd 2 2 [(true,0,2)] false;
    mkLd 4 4 [(true,0,4)] false;
    mkLd 8 8 [(true,0,8)] false;
    mkLd 16 0 [(false,0,16)] true;
    mkLd 32 0 [(false,0,16); (false,16,16)] true ].
Definition sse2_ld4 : ld_kernel := mkLdK 16 4 1 4 [(0,16); (16,16); (32,16); (48,16)]
  [ mkLd 1 1 [(true,0,4)] false;
    mkLd 2 2 [(true,0,8)] false;
    mkLd 4 4 [(true,0,16)] false;
    mkLd 8 0 [(false,0,16); (false,16,16)] true ].
Definition avx2_ld3 : ld_kernel := mkLdK 32 3 3 1 [(0,32); (32,32); (64,32)]
  [ mkLd 1 1 [(true,0,1)] false;
    mkLd 2 2 [(true,0,2)] false;
    mkLd 4 4 [(true,0,4)] false;
    mkLd 8 8 [(true,0,8)] false;
    mkLd 16 16 [(true,0,16)] false;
    mkLd 32 32 [(false,0,32)] false;
    mkLd 64 0 [(false,0,32); (false,32,32)] true ].
Definition avx2_ld4 : ld_kernel := mkLdK 32 4 1 4 [(0,32); (32,32); (64,32); (96,32)]
  [ mkLd 1 1 [(true,0,4)] false;
    mkLd 2 2 [(true,0,8)] false;
    mkLd 4 4 [(true,0,16)] false;
    mkLd 8 8 [(true,0,32)] false;
    mkLd 16 0 [(false,0,32); (false,32,32)] true ].

(* ------------------------------------------------------------------ (d) *)
(* subsampling -> (h_samp, v_samp) of the luma component; chroma is 1x1.
   TJSAMP_444=0 422=1 420=2 GRAY=3 440=4 411=5 441=6 *)
Definition samp_h (ss : Z) : Z := if (ss =? 1) || (ss =? 2) then 2 else if ss =? 5 then 4 else 1.
Definition samp_v (ss : Z) : Z := if (ss =? 2) || (ss =? 4) then 2 else if ss =? 6 then 4 else 1.
Definition ncomp (ss : Z) : Z := if ss =? 3 then 1 else 3.
(* tjMCUWidth[ss] = 8 * samp_h, tjMCUHeight[ss] = 8 * samp_v *)

(* tj3YUVPlaneWidth: pw = PAD(width, tjMCUWidth/8); comp 0: pw, else pw*8/tjMCUWidth *)
Definition plane_w (comp width ss : Z) : Z :=
  let pw := PAD width (samp_h ss) in if comp =? 0 then pw else pw * 8 / (8 * samp_h ss).
Definition plane_h (comp height ss : Z) : Z :=
  let ph := PAD height (samp_v ss) in if comp =? 0 then ph else ph * 8 / (8 * samp_v ss).
(* ptr += (strides && strides[i] != 0) ? strides[i] : pw[i] *)
Definition eff_stride (stride pw : Z) : Z := if stride =? 0 then pw else stride.
(* tj3YUVPlaneSize *)
Definition plane_size (comp width stride height ss : Z) : Z :=
  let pw := plane_w comp width ss in let ph := plane_h comp height ss in
  eff_stride (Z.abs stride) pw * (ph - 1) + pw.

(* one memcpy / jcopy_sample_rows / IDCT row of pw bytes into plane row r *)
Definition plane_row (k : rw) (comp stride pw r : Z) : access := mkAcc comp (r * stride) pw k.

(* rows crow .. crow+cnt-1 *)
Fixpoint row_span (k : rw) (comp stride pw crow : Z) (cnt : nat) : list access :=
  match cnt with
  | O => []
  | S c => plane_row k comp stride pw crow :: row_span k comp stride pw (crow + 1) c
  end.

(* tj3DecompressToYUVPlanes8 with usetmpbuf (copy-out), tj3CompressFromYUVPlanes8 with
   usetmpbuf (copy-in):
     for (row = 0; row < out_h; row += step) {
       crow = row * v / maxv;
       for (j = 0; j < MIN(th, ph - crow); j++) memcpy(plane row crow + j, pw bytes) }
   iters = number of iterations of the outer loop (the model is told; the theorem
   holds for every value). *)
Fixpoint tmp_copy_loop (k : rw) (comp stride pw ph th v maxv step row : Z) (iters : nat) : list access :=
  match iters with
  | O => []
  | S it =>
    let crow := row * v / maxv in
    row_span k comp stride pw crow (Z.to_nat (Z.min th (ph - crow)))
      ++ tmp_copy_loop k comp stride pw ph th v maxv step (row + step) it
  end.

Definition outer_iters (out_h step : Z) : nat := Z.to_nat ((out_h + step - 1) / step).

(* tj3EncodeYUVPlanes8 / tj3DecodeYUVPlanes8:
     for (row = 0; row < ph0; row += maxv)
       jcopy_sample_rows(..., plane rows row*v/maxv .. +v-1, pw bytes)   *)
Fixpoint enc_copy_loop (k : rw) (comp stride pw v maxv row : Z) (iters : nat) : list access :=
  match iters with
  | O => []
  | S it =>
    row_span k comp stride pw (row * v / maxv) (Z.to_nat v)
      ++ enc_copy_loop k comp stride pw v maxv (row + maxv) it
  end.

Definition comp_h (comp ss : Z) : Z := if comp =? 0 then samp_h ss else 1.
Definition comp_v (comp ss : Z) : Z := if comp =? 0 then samp_v ss else 1.

(* plane accesses of tj3EncodeYUVPlanes8 (W) / tj3DecodeYUVPlanes8 (R) for one component.
   pw0 = PAD(width, maxh), ph0 = PAD(height, maxv), pw[i] = pw0*h/maxh *)
Definition encdec_plane (k : rw) (comp width height ss stride : Z) : list access :=
  let maxh := samp_h ss in let maxv := samp_v ss in
  let pw0 := PAD width maxh in let ph0 := PAD height maxv in
  let pw := pw0 * comp_h comp ss / maxh in
  enc_copy_loop k comp (eff_stride stride pw) pw (comp_v comp ss) maxv 0 (Z.to_nat (ph0 / maxv)).

(* plane accesses of tj3DecompressToYUVPlanes8 (W) / tj3CompressFromYUVPlanes8 (R) for
   one component; dct = DCTSIZE*num/denom (8 for compression); width,height = output dims *)
Definition rawdata_plane (k : rw) (comp width height ss stride dct : Z) : list access :=
  let maxv := samp_v ss in
  let v := comp_v comp ss in
  let pw := plane_w comp width ss in let ph := plane_h comp height ss in
  tmp_copy_loop k comp (eff_stride stride pw) pw ph (v * dct) v maxv (maxv * dct) 0
                (outer_iters height (maxv * dct)).

Fixpoint comps_from (c : Z) (n : nat) : list Z := match n with O => [] | S k => c :: comps_from (c + 1) k end.

(* unified-buffer entry points (tj3DecompressToYUV8, tj3EncodeYUV8, tj3DecodeYUV8,
   tj3CompressFromYUV8): strides[i] = PAD(pw_i, align), plane i starts at sum_{j<i} stride_j*ph_j *)
Definition unified_off (comp width height ss align : Z) : Z :=
  let s0 := PAD (plane_w 0 width ss) align * plane_h 0 height ss in
  let s1 := PAD (plane_w 1 width ss) align * plane_h 1 height ss in
  if comp =? 0 then 0 else if comp =? 1 then s0 else s0 + s1.
(* tj3YUVBufSize *)
Definition yuv_buf_size (width align height ss : Z) : Z :=
  fold_right Z.add 0 (map (fun c => PAD (plane_w c width ss) align * plane_h c height ss)
                          (comps_from 0 (Z.to_nat (ncomp ss)))).

(* ------------------------------------------------------------ utilities *)
(* number of intervals of l that contain byte x *)
Fixpoint cover_count (l : list (Z * Z)) (x : Z) : Z :=
  match l with
  | [] => 0
  | (o, len) :: t => (if (o <=? x) && (x <? o + len) then 1 else 0) + cover_count t x
  end.

(* ascending contiguity: Some b when l tiles [a, b) in order with non-empty pieces *)
Fixpoint contig (a : Z) (l : list (Z * Z)) : option Z :=
  match l with
  | [] => Some a
  | (o, len) :: t => if (o =? a) && (0 <? len) then contig (a + len) t else None
  end.

Fixpoint insert_iv (a : Z * Z) (l : list (Z * Z)) : list (Z * Z) :=
  match l with
  | [] => [a]
  | b :: t => if fst a <=? fst b then a :: l else b :: insert_iv a t
  end.
Definition sort_iv (l : list (Z * Z)) : list (Z * Z) := fold_right insert_iv [] l.

(* merged, sorted interval form of an access list on one buffer (what the harness prints) *)
Fixpoint merge_sorted (l : list (Z * Z)) : list (Z * Z) :=
  match l with
  | [] => []
  | (o, len) :: t =>
    match merge_sorted t with
    | (o2, len2) :: t2 => if o + len =? o2 then (o, len + len2) :: t2 else (o, len) :: (o2, len2) :: t2
    | [] => [(o, len)]
    end
  end.
Definition on_buf (b : Z) (l : list access) : list (Z * Z) :=
  map (fun a => (a_off a, a_len a)) (filter (fun a => a_buf a =? b) l).
Definition footprint (b : Z) (l : list access) : list (Z * Z) := merge_sorted (sort_iv (on_buf b l)).
