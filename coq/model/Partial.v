(* C08 -- executable model of partial decompression (no proofs here).

   (a) geometry: jdiv_round_up, jpeg_core_output_dimensions' if-chain (the chain
       itself is a generated fact, gen/GenScaling.v), TJSCALED, jpeg_crop_scanline,
       the per-component IDCT window, tj3SetCroppingRegion;
   (b) the row scheduler behind jpeg_read_scanlines / jpeg_skip_scanlines:
       jdapistd.c  _jpeg_read_scanlines, read_and_discard_scanlines,
                   increment_simple_rowgroup_ctr, _jpeg_skip_scanlines
       jdmainct.c  process_data_simple_main, process_data_context_main,
                   make_funny_pointers, set_wraparound_pointers, set_bottom_pointers
       jdsample.c  sep_upsample (next_row_out / rows_to_go)
       jdmerge.c   merged_2v_upsample (spare row), merged_1v_upsample
       jdcoefct.c  decompress_onepass / decompress_data seen as "deliver iMCU row r"
   A delivered row is abstracted to its PROVENANCE.  In the no-context model it is
   the image row whose row group fed it; in the context model it is, for one
   tracked component, the pair (centre sample row, context sample row). *)
From Coq Require Import List ZArith Bool.
Import ListNotations.
Local Open Scope Z_scope.

(* ------------------------------------------------------------------ *)
(* (a) geometry                                                        *)
(* ------------------------------------------------------------------ *)

(* jutils.c jdiv_round_up *)
Definition jdiv_round_up (a b : Z) : Z := (a + b - 1) / b.

(* turbojpeg.h TJSCALED(dimension, scalingFactor) *)
Definition tjscaled (dim num den : Z) : Z := (dim * num + den - 1) / den.

(* jdmaster.c jpeg_core_output_dimensions: first branch of the chain whose test
   scale_num * DCTSIZE <= scale_denom * k holds (k = 0 marks the final else) *)
Fixpoint chain_pick (chain : list (Z * Z * Z * Z * Z)) (dct num den : Z) : option (Z * Z * Z * Z) :=
  match chain with
  | [] => None
  | (k, mw, mh, sh, sv) :: t =>
      if (k =? 0) || (num * dct <=? den * k) then Some (mw, mh, sh, sv) else chain_pick t dct num den
  end.

(* (output_width, output_height, min_DCT_h_scaled_size, min_DCT_v_scaled_size) *)
Definition core_output_dims (chain : list (Z * Z * Z * Z * Z)) (dct W H num den : Z) : option (Z * Z * Z * Z) :=
  match chain_pick chain dct num den with
  | Some (mw, mh, sh, sv) => Some (jdiv_round_up (W * mw) dct, jdiv_round_up (H * mh) dct, sh, sv)
  | None => None
  end.

(* jdapistd.c _jpeg_crop_scanline *)
Definition crop_align (single : bool) (M hmax : Z) : Z := if single then M else M * hmax.

Inductive crop_out :=
| CropErr                                  (* JERR_WIDTH_OVERFLOW *)
| CropWhole                                (* width = output_width: nothing to do *)
| CropOk (x' w' first_iMCU last_iMCU : Z).

Definition crop_scanline (ow align x w : Z) : crop_out :=
  if (w =? 0) || (ow <? x + w) then CropErr
  else if w =? ow then CropWhole
  else
    let x' := (x / align) * align in
    let w' := w + x - x' in
    CropOk x' w' (x' / align) (jdiv_round_up (x' + w') align - 1).

(* first_MCU_col[ci], last_MCU_col[ci]; hsf = 1 for a single-component image *)
Definition comp_window (align x' w' hsf : Z) : Z * Z :=
  ((x' * hsf) / align, jdiv_round_up ((x' + w') * hsf) align - 1).

(* the recomputed compptr->downsampled_width *)
Definition comp_dsw (w' hsamp dct hmax M : Z) : Z := jdiv_round_up (w' * (hsamp * dct)) (hmax * M).

(* turbojpeg.c tj3SetCroppingRegion (header already read, lossy 8/12-bit, known subsampling) *)
Inductive tj_out := TjUncropped | TjErr | TjOk (x y w h : Z).

Definition tj_set_region (jw jh num den mcuw x y w h : Z) : tj_out :=
  if (x =? 0) && (y =? 0) && (w =? 0) && (h =? 0) then TjUncropped
  else if (x <? 0) || (y <? 0) || (w <? 0) || (h <? 0) then TjErr
  else
    let sw := tjscaled jw num den in
    let sh := tjscaled jh num den in
    if negb (x mod (tjscaled mcuw num den) =? 0) then TjErr
    else
      let w1 := if w =? 0 then sw - x else w in
      let h1 := if h =? 0 then sh - y else h in
      if (w1 <=? 0) || (h1 <=? 0) || (sw <? x + w1) || (sh <? y + h1) then TjErr
      else TjOk x y w1 h1.

(* ------------------------------------------------------------------ *)
(* (b) scheduler: common definitions                                   *)
(* ------------------------------------------------------------------ *)

Inductive op := Read (n : Z) | Skip (n : Z).

Definition prov := (Z * Z)%type.

Record geom := mkGeom {
  gM : Z;            (* min_DCT_scaled_size = row groups per iMCU row *)
  gv : Z;            (* max_v_samp_factor = output rows per row group *)
  gH : Z;            (* output_height *)
  gT : Z;            (* total_iMCU_rows *)
  gmerged : bool;    (* master->using_merged_upsample *)
  gctx : bool;       (* upsample->need_context_rows *)
  (* tracked component of the context model *)
  grg : Z;           (* its row-group height  v_samp*DCT_scaled/min_DCT *)
  gdsh : Z;          (* its downsampled_height *)
  ghrows : Z;        (* height_in_blocks * DCT_scaled_size: sample rows the IDCT really writes *)
  gfancyv : bool;    (* does its upsampling method read a context row (h2v2/h1v2 fancy) *)
  grg0 : Z;          (* component 0: row-group height *)
  gdsh0 : Z;         (* component 0: downsampled_height *)
  (* which variant of jpeg_skip_scanlines the source tree has (generated facts, tools/gen_Scaling.py):
     repairs of hazards 1, 2, 4 and 6 present in the code *)
  gfx1 : bool; gfx2 : bool; gfx4 : bool; gfx6 : bool
}.

Definition gL (g : geom) : Z := gM g * gv g.      (* lines_per_iMCU_row *)

Fixpoint zseq (lo : Z) (n : nat) : list Z :=
  match n with O => [] | S k => lo :: zseq (lo + 1) k end.

Definition zlen {A} (l : list A) : Z := Z.of_nat (length l).

(* the rows a call may deliver: the first num of a list *)
Definition ztake {A} (n : Z) (l : list A) : list A := firstn (Z.to_nat n) l.

(* ------------------------------------------------------------------ *)
(* (b1) no-context ("simple") main controller, separate or merged upsampler *)
(* ------------------------------------------------------------------ *)

Record sst := mkS {
  scan : Z;          (* cinfo->output_scanline *)
  bfull : bool;      (* main->buffer_full *)
  rgctr : Z;         (* main->rowgroup_ctr *)
  imcu : Z;          (* iMCU row the coefficient controller delivers next
                        (output_iMCU_row for multi-scan, input_iMCU_row for one-pass) *)
  bufrow : Z;        (* provenance: iMCU row held by main->buffer *)
  nro : Z;           (* upsample->next_row_out (separate upsampler) *)
  rtg : Z;           (* upsample->rows_to_go *)
  cbuf : Z;          (* provenance: global row group held by upsample->color_buf *)
  sfull : bool;      (* merged upsampler: spare_full *)
  spare : Z          (* provenance: image row held by spare_row *)
}.

Definition s_init (g : geom) : sst :=
  mkS 0 false 0 0 (-1) (gv g) (gH g) (-1) false (-1).

(* jdsample.c sep_upsample; the caller passes avail = out_rows_avail - *out_row_ctr *)
Definition sep_upsample_s (g : geom) (st : sst) (avail : Z) : sst * list prov :=
  let v := gv g in
  let '(nro1, cbuf1) := if v <=? nro st then (0, bufrow st * gM g + rgctr st) else (nro st, cbuf st) in
  let num := Z.max 0 (Z.min (Z.min (v - nro1) (rtg st)) avail) in
  let rows := map (fun k => (cbuf1 * v + nro1 + k, -1)) (zseq 0 (Z.to_nat num)) in
  let nro2 := nro1 + num in
  (mkS (scan st) (bfull st) (if v <=? nro2 then rgctr st + 1 else rgctr st) (imcu st) (bufrow st)
       nro2 (rtg st - num) cbuf1 (sfull st) (spare st), rows).

(* jdmerge.c merged_2v_upsample *)
Definition merged_2v_s (g : geom) (st : sst) (avail : Z) : sst * list prov :=
  if sfull st then
    (mkS (scan st) (bfull st) (rgctr st + 1) (imcu st) (bufrow st) (nro st) (rtg st - 1) (cbuf st) false (spare st),
     [(spare st, -1)])
  else
    let num := Z.max 0 (Z.min (Z.min 2 (rtg st)) avail) in
    let r0 := (bufrow st * gM g + rgctr st) * 2 in
    let two := 1 <? num in
    (mkS (scan st) (bfull st) (if two then rgctr st + 1 else rgctr st) (imcu st) (bufrow st) (nro st) (rtg st - num)
         (cbuf st) (negb two) (if two then spare st else r0 + 1),
     ztake num [(r0, -1); (r0 + 1, -1)]).

(* jdmerge.c merged_1v_upsample *)
Definition merged_1v_s (g : geom) (st : sst) : sst * list prov :=
  (mkS (scan st) (bfull st) (rgctr st + 1) (imcu st) (bufrow st) (nro st) (rtg st) (cbuf st) (sfull st) (spare st),
   [(bufrow st * gM g + rgctr st, -1)]).

Definition upsample_s (g : geom) (st : sst) (avail : Z) : sst * list prov :=
  if gmerged g then (if gv g =? 2 then merged_2v_s g st avail else merged_1v_s g st)
  else sep_upsample_s g st avail.

(* jdmainct.c process_data_simple_main *)
Definition simple_main (g : geom) (st : sst) (avail : Z) : sst * list prov :=
  let st1 := if bfull st then st
             else mkS (scan st) true (rgctr st) (imcu st + 1) (imcu st) (nro st) (rtg st) (cbuf st) (sfull st) (spare st) in
  let '(st2, rows) := upsample_s g st1 avail in
  let st3 := if gM g <=? rgctr st2
             then mkS (scan st2) false 0 (imcu st2) (bufrow st2) (nro st2) (rtg st2) (cbuf st2) (sfull st2) (spare st2)
             else st2 in
  (st3, rows).

Definition set_scan (st : sst) (s : Z) : sst :=
  mkS s (bfull st) (rgctr st) (imcu st) (bufrow st) (nro st) (rtg st) (cbuf st) (sfull st) (spare st).

(* jdapistd.c _jpeg_read_scanlines: one call *)
Definition read_scanlines_s (g : geom) (st : sst) (maxl : Z) : sst * list prov :=
  if gH g <=? scan st then (st, [])
  else let '(st1, rows) := simple_main g st maxl in (set_scan st1 (scan st1 + zlen rows), rows).

(* the application loop of op Read n: call until n rows were delivered or the bottom is reached;
   result: state, per-call return values, delivered rows *)
Fixpoint read_loop_s (g : geom) (fuel : nat) (st : sst) (n : Z) : sst * list Z * list prov :=
  match fuel with
  | O => (st, [], [])
  | S f =>
      if (n <=? 0) || (gH g <=? scan st) then (st, [], [])
      else
        let '(st1, rows) := read_scanlines_s g st n in
        let k := zlen rows in
        if k =? 0 then (st1, [0], [])
        else let '(st2, cs, rs) := read_loop_s g f st1 (n - k) in (st2, k :: cs, rows ++ rs)
  end.

(* jdapistd.c read_and_discard_scanlines *)
Fixpoint read_and_discard_s (g : geom) (n : nat) (st : sst) : sst :=
  match n with
  | O => st
  | S k => read_and_discard_s g k (fst (read_scanlines_s g st 1))
  end.

(* jdapistd.c increment_simple_rowgroup_ctr *)
Definition set_rtg_now (g : geom) (st : sst) : sst :=
  mkS (scan st) (bfull st) (rgctr st) (imcu st) (bufrow st) (nro st) (gH g - scan st) (cbuf st) (sfull st) (spare st).

Definition increment_s (g : geom) (st : sst) (rows : Z) : sst :=
  if gmerged g && (gv g =? 2) then read_and_discard_s g (Z.to_nat rows) st
  else
    (* repair of hazard 2: rows still pending in the conversion buffer are read first *)
    let partial := if gfx2 g && negb (gmerged g) && (nro st <? gv g) then Z.min (gv g - nro st) rows else 0 in
    let st0 := read_and_discard_s g (Z.to_nat partial) st in
    let rows0 := rows - partial in
    let rows_left := rows0 mod gv g in
    let st1 := mkS (scan st0 + (rows0 - rows_left)) (bfull st0) (rgctr st0 + rows0 / gv g) (imcu st0) (bufrow st0)
                   (nro st0) (rtg st0) (cbuf st0) (sfull st0) (spare st0) in
    (* repair of hazard 4 (separate upsampler): rows_to_go follows output_scanline *)
    let st1 := if gfx4 g && negb (gmerged g) then set_rtg_now g st1 else st1 in
    read_and_discard_s g (Z.to_nat rows_left) st1.

Definition reset_rtg (g : geom) (st : sst) : sst :=
  if gmerged g then st else set_rtg_now g st.

(* the reset at the end of jpeg_skip_scanlines; repair of hazard 4: also for the merged upsampler *)
Definition reset_rtg_final (g : geom) (st : sst) : sst :=
  if gmerged g && negb (gfx4 g) then st else set_rtg_now g st.

(* jdapistd.c _jpeg_skip_scanlines, branch !need_context_rows; returns the new state and the return value *)
Definition jdim (x : Z) : Z := x mod 4294967296.     (* JDIMENSION arithmetic *)

Definition skip_s (g : geom) (st : sst) (n : Z) : sst * Z :=
  if gH g <=? scan st + n then (set_scan st (gH g), jdim (gH g - scan st))
  else if n =? 0 then (st, 0)
  else
    let L := gL g in
    let ll := (L - scan st mod L) mod L in
    let la := n - ll in
    if n <? ll then (increment_s g st n, n)
    else
      (* repair of hazard 1: an iMCU row that an earlier skip entered without decoding it is skipped as a whole *)
      let rewind := gfx1 g && negb (bfull st) && (0 <? ll) in
      let scan0 := if rewind then scan st - (L - ll) else scan st in
      let ll := if rewind then 0 else ll in
      let la := if rewind then n + (L - ((L - scan st mod L) mod L)) else la in
      let st1 := mkS (scan0 + ll) false 0 (imcu st) (bufrow st)
                     (if gmerged g then nro st else gv g) (rtg st) (cbuf st) (sfull st) (spare st) in
      let st1 := reset_rtg g st1 in
      let lts := (la / L) * L in
      let ltr := la - lts in
      let st2 := mkS (scan st1 + lts) (bfull st1) (rgctr st1) (imcu st1 + lts / L) (bufrow st1)
                     (nro st1) (rtg st1) (cbuf st1) (sfull st1) (spare st1) in
      let st3 := increment_s g st2 ltr in
      (reset_rtg_final g st3, n).

(* result of one op: return values (one per library call) and delivered rows *)
Definition step_s (g : geom) (st : sst) (o : op) : sst * (list Z * list prov) :=
  match o with
  | Read n => let '(st1, cs, rs) := read_loop_s g (Z.to_nat n) st n in (st1, (cs, rs))
  | Skip n => let '(st1, r) := skip_s g st n in (st1, ([r], []))
  end.

(* a run: for every op, (output_scanline before, returns, delivered rows, output_scanline after) *)
Fixpoint run_s (g : geom) (st : sst) (ops : list op) : sst * list (Z * list Z * list prov * Z) :=
  match ops with
  | [] => (st, [])
  | o :: t =>
      let '(st1, (cs, rs)) := step_s g st o in
      let '(st2, tr) := run_s g st1 t in
      (st2, (scan st, cs, rs, scan st1) :: tr)
  end.

(* what a full decode delivers at scanline y *)
Definition ideal_s (y : Z) : prov := (y, -1).

(* ------------------------------------------------------------------ *)
(* hazards of the no-context scheduler: an abstract interpretation of a *)
(* history over (scanline, pending iMCU row, rows_to_go exact).  The     *)
(* theorems say: no hazard => the history behaves like a full decode;    *)
(* each hazard class has a witness on which the model (and the code)     *)
(* delivers wrong rows.                                                  *)
(*   1 skip issued while an earlier skip left an iMCU row pending        *)
(*     (buffer_full = FALSE, rowgroup_ctr > 0) and reaching its end      *)
(*   2 skip of >= v rows starting inside a row group (separate upsampler)*)
(*   3 merged 2v upsampling: skip reaching the end of the iMCU row while *)
(*     the spare row is occupied (odd output_scanline)                   *)
(*   4 rows_to_go left stale by a skip, read with max_lines beyond the   *)
(*     bottom of an image whose height is not a multiple of v            *)
(* ------------------------------------------------------------------ *)
Record astate := mkA { a_s : Z; a_pend : bool; a_exact : bool }.

Definition merged2v (g : geom) : bool := gmerged g && (gv g =? 2).

Definition haz_step (g : geom) (a : astate) (o : op) : Z * astate :=
  let H := gH g in let v := gv g in let L := gL g in let s := a_s a in
  match o with
  | Read n =>
      if (n <=? 0) || (H <=? s) then (0, a)
      else ((if negb (a_exact a) && (H <? s + n) && negb (H mod v =? 0) then 4 else 0),
            mkA (Z.min H (s + n)) false (a_exact a))
  | Skip n =>
      if H <=? s + n then (0, mkA H false true)
      else if n =? 0 then (0, a)
      else
        let r := s mod v in
        let ll := (L - s mod L) mod L in
        if n <? ll then
          if merged2v g then (0, mkA (s + n) false (a_exact a))
          else
            (* with the repair of hazard 2 the rows pending in the conversion buffer are read first *)
            let p := if gfx2 g && negb (gmerged g) && negb (r =? 0) then Z.min (v - r) n else 0 in
            let n0 := n - p in
            if (r =? 0) || (n <? v) || (0 <? p)
            then (0, mkA (s + n) (a_pend a && (p =? 0) && (n0 mod v =? 0))
                         (if gfx4 g && negb (gmerged g) then true else a_exact a && (n0 <? v)))
            else (2, a)
        else if a_pend a && negb (gfx1 g) then (1, a)
        else if merged2v g && (r =? 1) then (3, a)
        else
          let off := if a_pend a then L - ll else 0 in     (* repaired hazard 1: restart from the first line of the pending row *)
          let ll := if a_pend a then 0 else ll in
          let la := n + off - ll in
          let ltr := la mod L in
          (0, mkA (s + n) (negb (merged2v g) && (0 <? ltr) && (ltr mod v =? 0))
                  (if merged2v g then gfx4 g || (a_exact a && (ll + (la - ltr) =? 0)) else true))
  end.

(* first hazard of a history (0 = none) *)
Fixpoint first_hazard (g : geom) (a : astate) (ops : list op) : Z :=
  match ops with
  | [] => 0
  | o :: t => let '(h, a1) := haz_step g a o in if h =? 0 then first_hazard g a1 t else h
  end.

Definition a_init : astate := mkA 0 false true.

(* ------------------------------------------------------------------ *)
(* (b2) context main controller (fancy h2v2 / h1v2 upsampling)        *)
(* ------------------------------------------------------------------ *)

Definition getz (l : list Z) (i : Z) : Z := if i <? 0 then -2 else nth (Z.to_nat i) l (-2).

Fixpoint upd_nat (l : list Z) (i : nat) (x : Z) : list Z :=
  match l, i with
  | [], _ => []
  | _ :: t, O => x :: t
  | a :: t, S k => a :: upd_nat t k x
  end.
Definition upd (l : list Z) (i x : Z) : list Z := if i <? 0 then l else upd_nat l (Z.to_nat i) x.

Record cst := mkC {
  c_scan : Z; c_bfull : bool; c_rgctr : Z; c_imcu : Z;
  c_nro : Z; c_rtg : Z; c_cbuf : list prov;         (* separate upsampler; color_buf as the v provenances of its rows *)
  c_which : Z;        (* main->whichptr *)
  c_state : Z;        (* main->context_state: 0 PREPARE_FOR_IMCU, 1 PROCESS_IMCU, 2 POSTPONED_ROW *)
  c_avail : Z;        (* main->rowgroups_avail *)
  c_ictr : Z;         (* main->iMCU_row_ctr *)
  c_xb0 : list Z;     (* xbuffer[0][ci]: logical index i in [-rg, rg*(M+3)) at position i+rg; value = physical row, -1 = never written *)
  c_xb1 : list Z;     (* xbuffer[1][ci] *)
  c_phys : list Z     (* main->buffer[ci]: physical rows -> global sample row of the component, -2 = garbage *)
}.

Definition xb_get (g : geom) (xb : list Z) (i : Z) : Z := getz xb (i + grg g).
Definition xb_set (g : geom) (xb : list Z) (i x : Z) : list Z := upd xb (i + grg g) x.

(* jdmainct.c make_funny_pointers (alloc_funny_pointers leaves the rest unset) *)
Definition make_funny (g : geom) : list Z * list Z :=
  let rg := grg g in let M := gM g in
  let base := map (fun p => let j := p - rg in if (0 <=? j) && (j <? rg * (M + 2)) then j else -1)
                  (zseq 0 (Z.to_nat (rg * (M + 4)))) in
  let xb1 := fold_left (fun xb i =>
                xb_set g (xb_set g xb (rg * (M - 2) + i) (rg * M + i)) (rg * M + i) (rg * (M - 2) + i))
             (zseq 0 (Z.to_nat (rg * 2))) base in
  let xb0 := fold_left (fun xb i => xb_set g xb (i - rg) (xb_get g xb 0)) (zseq 0 (Z.to_nat rg)) base in
  (xb0, xb1).

(* jdmainct.h set_wraparound_pointers, on one list *)
Definition wrap_one (g : geom) (xb : list Z) : list Z :=
  let rg := grg g in let M := gM g in
  fold_left (fun xb i =>
      let xb := xb_set g xb (i - rg) (xb_get g xb (rg * (M + 1) + i)) in
      xb_set g xb (rg * (M + 2) + i) (xb_get g xb i))
    (zseq 0 (Z.to_nat rg)) xb.

Definition c_with_ptrs (st : cst) (x0 x1 : list Z) : cst :=
  mkC (c_scan st) (c_bfull st) (c_rgctr st) (c_imcu st) (c_nro st) (c_rtg st) (c_cbuf st)
      (c_which st) (c_state st) (c_avail st) (c_ictr st) x0 x1 (c_phys st).

Definition set_wraparound (g : geom) (st : cst) : cst :=
  c_with_ptrs st (wrap_one g (c_xb0 st)) (wrap_one g (c_xb1 st)).

Definition rows_left_of (dsh ih : Z) : Z := let r := dsh mod ih in if r =? 0 then ih else r.

(* jdmainct.c set_bottom_pointers *)
Definition set_bottom (g : geom) (st : cst) : cst :=
  let rg := grg g in
  let rl := rows_left_of (gdsh g) (rg * gM g) in
  let rl0 := rows_left_of (gdsh0 g) (grg0 g * gM g) in
  let fix_ xb := fold_left (fun xb i => xb_set g xb (rl + i) (xb_get g xb (rl - 1))) (zseq 0 (Z.to_nat (rg * 2))) xb in
  let st1 := if c_which st =? 0 then c_with_ptrs st (fix_ (c_xb0 st)) (c_xb1 st)
             else c_with_ptrs st (c_xb0 st) (fix_ (c_xb1 st)) in
  mkC (c_scan st1) (c_bfull st1) (c_rgctr st1) (c_imcu st1) (c_nro st1) (c_rtg st1) (c_cbuf st1)
      (c_which st1) (c_state st1) ((rl0 - 1) / grg0 g + 1) (c_ictr st1) (c_xb0 st1) (c_xb1 st1) (c_phys st1).

Definition c_xb (st : cst) : list Z := if c_which st =? 0 then c_xb0 st else c_xb1 st.

(* coefficient controller: IDCT iMCU row c_imcu through xbuffer[whichptr] *)
Definition decode_c (g : geom) (st : cst) : cst :=
  let ih := grg g * gM g in
  let xb := c_xb st in
  let phys := fold_left (fun ph j =>
                 let tok := c_imcu st * ih + j in
                 if tok <? ghrows g then upd ph (xb_get g xb j) tok else ph)
              (zseq 0 (Z.to_nat ih)) (c_phys st) in
  mkC (c_scan st) true (c_rgctr st) (c_imcu st + 1) (c_nro st) (c_rtg st) (c_cbuf st)
      (c_which st) (c_state st) (c_avail st) (c_ictr st + 1) (c_xb0 st) (c_xb1 st) phys.

Definition tokat (g : geom) (xb phys : list Z) (i : Z) : Z :=
  let p := xb_get g xb i in if p <? 0 then -2 else getz phys p.

(* what the upsampling method of the tracked component reads for the v output rows of row group rgc *)
Definition group_prov (g : geom) (xb phys : list Z) (rgc : Z) : list prov :=
  map (fun k =>
         if gfancyv g then
           let idx := rgc * grg g + k / 2 in
           (tokat g xb phys idx, tokat g xb phys (if Z.even k then idx - 1 else idx + 1))
         else (tokat g xb phys (rgc * grg g + k / (gv g / grg g)), -1))
      (zseq 0 (Z.to_nat (gv g))).

Definition zdrop {A} (n : Z) (l : list A) : list A := skipn (Z.to_nat n) l.

(* jdsample.c sep_upsample reading xbuffer[whichptr] *)
Definition sep_upsample_c (g : geom) (st : cst) (avail : Z) : cst * list prov :=
  let v := gv g in
  let '(nro1, cbuf1) := if v <=? c_nro st then (0, group_prov g (c_xb st) (c_phys st) (c_rgctr st))
                        else (c_nro st, c_cbuf st) in
  let num := Z.max 0 (Z.min (Z.min (v - nro1) (c_rtg st)) avail) in
  let rows := ztake num (zdrop nro1 cbuf1) in
  let nro2 := nro1 + num in
  (mkC (c_scan st) (c_bfull st) (if v <=? nro2 then c_rgctr st + 1 else c_rgctr st) (c_imcu st)
       nro2 (c_rtg st - num) cbuf1 (c_which st) (c_state st) (c_avail st) (c_ictr st)
       (c_xb0 st) (c_xb1 st) (c_phys st), rows).

Definition c_set_main (st : cst) (bf : bool) (rgc which state avail : Z) : cst :=
  mkC (c_scan st) bf rgc (c_imcu st) (c_nro st) (c_rtg st) (c_cbuf st) which state avail (c_ictr st)
      (c_xb0 st) (c_xb1 st) (c_phys st).

(* jdmainct.c process_data_context_main, case CTX_PROCESS_IMCU; got = *out_row_ctr so far *)
Definition ctx_process (g : geom) (st : cst) (got : list prov) (avail : Z) : cst * list prov :=
  let '(st1, rows) := sep_upsample_c g st (avail - zlen got) in
  let out := got ++ rows in
  if c_rgctr st1 <? c_avail st1 then (st1, out)
  else
    let st2 := if c_ictr st1 =? 1 then set_wraparound g st1 else st1 in
    (c_set_main st2 false (gM g + 1) (if c_which st2 =? 0 then 1 else 0) 2 (gM g + 2), out).

(* case CTX_PREPARE_FOR_IMCU *)
Definition ctx_prepare (g : geom) (st : cst) (got : list prov) (avail : Z) : cst * list prov :=
  let st1 := c_set_main st (c_bfull st) 0 (c_which st) (c_state st) (gM g - 1) in
  let st2 := if c_ictr st1 =? gT g then set_bottom g st1 else st1 in
  let st3 := c_set_main st2 (c_bfull st2) (c_rgctr st2) (c_which st2) 1 (c_avail st2) in
  ctx_process g st3 got avail.

Definition context_main (g : geom) (st : cst) (avail : Z) : cst * list prov :=
  let st0 := if c_bfull st then st else decode_c g st in
  if c_state st0 =? 2 then
    let '(st1, rows) := sep_upsample_c g st0 avail in
    if c_rgctr st1 <? c_avail st1 then (st1, rows)
    else
      let st2 := c_set_main st1 (c_bfull st1) (c_rgctr st1) (c_which st1) 0 (c_avail st1) in
      if avail <=? zlen rows then (st2, rows) else ctx_prepare g st2 rows avail
  else if c_state st0 =? 0 then ctx_prepare g st0 [] avail
  else ctx_process g st0 [] avail.

Definition c_set_scan (st : cst) (s : Z) : cst :=
  mkC s (c_bfull st) (c_rgctr st) (c_imcu st) (c_nro st) (c_rtg st) (c_cbuf st) (c_which st) (c_state st)
      (c_avail st) (c_ictr st) (c_xb0 st) (c_xb1 st) (c_phys st).

Definition read_scanlines_c (g : geom) (st : cst) (maxl : Z) : cst * list prov :=
  if gH g <=? c_scan st then (st, [])
  else let '(st1, rows) := context_main g st maxl in (c_set_scan st1 (c_scan st1 + zlen rows), rows).

Fixpoint read_loop_c (g : geom) (fuel : nat) (st : cst) (n : Z) : cst * list Z * list prov :=
  match fuel with
  | O => (st, [], [])
  | S f =>
      if (n <=? 0) || (gH g <=? c_scan st) then (st, [], [])
      else
        let '(st1, rows) := read_scanlines_c g st n in
        let k := zlen rows in
        if k =? 0 then (st1, [0], [])
        else let '(st2, cs, rs) := read_loop_c g f st1 (n - k) in (st2, k :: cs, rows ++ rs)
  end.

Fixpoint read_and_discard_c (g : geom) (n : nat) (st : cst) : cst :=
  match n with
  | O => st
  | S k => read_and_discard_c g k (fst (read_scanlines_c g st 1))
  end.

Definition c_init (g : geom) : cst :=
  let '(x0, x1) := make_funny g in
  mkC 0 false 0 0 (gv g) (gH g) [] 0 0 0 0 x0 x1
      (map (fun _ => -2) (zseq 0 (Z.to_nat (grg g * (gM g + 2))))).

(* jdapistd.c _jpeg_skip_scanlines, branch need_context_rows *)
Definition skip_c (g : geom) (st : cst) (n : Z) : cst * Z :=
  if gH g <=? c_scan st + n then (c_set_scan st (gH g), jdim (gH g - c_scan st))
  else if n =? 0 then (st, 0)
  else
    let L := gL g in
    let ll := (L - c_scan st mod L) mod L in
    let la := n - ll in
    (* "the next iMCU row has already been decoded": lines_left <= 1, or with the repair of hazard 6 lines_left < v *)
    let near := if gfx6 g then ll <? gv g else ll <=? 1 in
    if (n <? ll + 1) || (near && c_bfull st && (la <? L + 1))
    then (read_and_discard_c g (Z.to_nat n) st, n)
    else
      let ahead := near && c_bfull st in
      let scan1 := if ahead then c_scan st + ll + L else c_scan st + ll in
      let la1 := if ahead then la - L else la in
      let st1 := if (c_ictr st =? 0) || ((c_ictr st =? 1) && (2 <? ll)) then set_wraparound g st else st in
      let st2 := mkC scan1 false 0 (c_imcu st1) (gv g) (gH g - scan1) (c_cbuf st1) (c_which st1) 0 (c_avail st1)
                     (c_ictr st1) (c_xb0 st1) (c_xb1 st1) (c_phys st1) in
      let lts := ((la1 - 1) / L) * L in
      let ltr := la1 - lts in
      let st3 := mkC (c_scan st2 + lts) (c_bfull st2) (c_rgctr st2) (c_imcu st2 + lts / L) (c_nro st2) (c_rtg st2)
                     (c_cbuf st2) (c_which st2) (c_state st2) (c_avail st2) (c_ictr st2 + lts / L)
                     (c_xb0 st2) (c_xb1 st2) (c_phys st2) in
      let st4 := read_and_discard_c g (Z.to_nat ltr) st3 in
      (mkC (c_scan st4) (c_bfull st4) (c_rgctr st4) (c_imcu st4) (c_nro st4) (gH g - c_scan st4) (c_cbuf st4)
           (c_which st4) (c_state st4) (c_avail st4) (c_ictr st4) (c_xb0 st4) (c_xb1 st4) (c_phys st4), n).

Definition step_c (g : geom) (st : cst) (o : op) : cst * (list Z * list prov) :=
  match o with
  | Read n => let '(st1, cs, rs) := read_loop_c g (Z.to_nat n) st n in (st1, (cs, rs))
  | Skip n => let '(st1, r) := skip_c g st n in (st1, ([r], []))
  end.

Fixpoint run_c (g : geom) (st : cst) (ops : list op) : cst * list (Z * list Z * list prov * Z) :=
  match ops with
  | [] => (st, [])
  | o :: t =>
      let '(st1, (cs, rs)) := step_c g st o in
      let '(st2, tr) := run_c g st1 t in
      (st2, (c_scan st, cs, rs, c_scan st1) :: tr)
  end.


(* hazard 6 (context controller): the skip code recognises "the next iMCU row has already been decoded" only
   0 or 1 rows before the iMCU boundary (lines_left_in_iMCU_row <= 1 && buffer_full); with max_v_samp_factor = 4
   that is also the case 2 and 3 rows before it, and the decoded row is then dropped without being accounted for *)
Definition skip_c_hazard (g : geom) (st : cst) (n : Z) : bool :=
  if gH g <=? c_scan st + n then false
  else if n =? 0 then false
  else
    let L := gL g in
    let ll := (L - c_scan st mod L) mod L in
    let la := n - ll in
    if (n <? ll + 1) || ((ll <=? 1) && c_bfull st && (la <? L + 1)) then false
    else negb (gfx6 g) && (1 <? ll) && (ll <? gv g) && c_bfull st.

Fixpoint first_hazard_c (g : geom) (st : cst) (ops : list op) : Z :=
  match ops with
  | [] => 0
  | o :: t =>
      if match o with Skip n => skip_c_hazard g st n | Read _ => false end then 6
      else first_hazard_c g (fst (step_c g st o)) t
  end.

(* what a full decode reads, for the tracked component, to produce output row y *)
Definition ideal_c (g : geom) (y : Z) : prov :=
  let G := y / gv g in let k := y mod gv g in
  if gfancyv g then
    let s := G * grg g + k / 2 in
    (s, if Z.even k then Z.max (s - 1) 0 else Z.min (s + 1) (gdsh g - 1))
  else (G * grg g + k / (gv g / grg g), -1).

(* both controllers behind one interface *)
Definition run (g : geom) (ops : list op) : Z * list (Z * list Z * list prov * Z) :=
  if gctx g then let '(st, tr) := run_c g (c_init g) ops in (c_scan st, tr)
  else let '(st, tr) := run_s g (s_init g) ops in (scan st, tr).

(* did the run ask the coefficient controller for an iMCU row past the last one?  (the implementation then
   reads past the coefficient arrays / waits forever for input; only hazardous histories do that) *)
Definition overread (g : geom) (ops : list op) : bool :=
  if gctx g then gT g <? c_imcu (fst (run_c g (c_init g) ops))
  else gT g <? imcu (fst (run_s g (s_init g) ops)).

Definition ideal (g : geom) (y : Z) : prov := if gctx g then ideal_c g y else ideal_s y.

(* which full-decode row a delivered provenance is (first match, preferring the expected one); -1 if none *)
Definition row_of_prov (g : geom) (expected : Z) (p : prov) : Z :=
  let eqp (a b : prov) := (fst a =? fst b) && (snd a =? snd b) in
  if (0 <=? expected) && (expected <? gH g) && eqp (ideal g expected) p then expected
  else match find (fun y => eqp (ideal g y) p) (zseq 0 (Z.to_nat (gH g))) with Some y => y | None => -1 end.

(* ------------------------------------------------------------------ *)
(* (c) configuration: jdmaster.c / jdsample.c decisions from the frame *)
(* ------------------------------------------------------------------ *)

(* jpeg_calc_output_dimensions: per-component DCT_scaled_size *)
Fixpoint dct_scale_loop (fuel : nat) (ssize dct hmax vmax M hs vs : Z) : Z :=
  match fuel with
  | O => ssize
  | S f =>
      if (ssize <? dct) && ((hmax * M) mod (hs * ssize * 2) =? 0) && ((vmax * M) mod (vs * ssize * 2) =? 0)
      then dct_scale_loop f (ssize * 2) dct hmax vmax M hs vs else ssize
  end.

Definition zmaxl (l : list Z) : Z := fold_left Z.max l 0.

Inductive umethod := UNoop | UFull | UH2V1 | UH2V1Fancy | UH1V2Fancy | UH2V2 | UH2V2Fancy | UInt | UBad.

(* jdsample.c jinit_upsampler, per component *)
Definition pick_method (needed do_fancy : bool) (h_in v_in hmax vmax dsw : Z) : umethod :=
  if negb needed then UNoop
  else if (h_in =? hmax) && (v_in =? vmax) then UFull
  else if (h_in * 2 =? hmax) && (v_in =? vmax) then (if do_fancy && (2 <? dsw) then UH2V1Fancy else UH2V1)
  else if (h_in =? hmax) && (v_in * 2 =? vmax) && do_fancy then UH1V2Fancy
  else if (h_in * 2 =? hmax) && (v_in * 2 =? vmax) then (if do_fancy && (2 <? dsw) then UH2V2Fancy else UH2V2)
  else if (0 <? h_in) && (0 <? v_in) && (hmax mod h_in =? 0) && (vmax mod v_in =? 0) then UInt
  else UBad.

Definition is_ctx_method (m : umethod) : bool :=
  match m with UH1V2Fancy | UH2V2Fancy => true | _ => false end.

Record config := mkCfg {
  k_ow : Z; k_oh : Z; k_M : Z; k_hmax : Z; k_vmax : Z; k_merged : bool; k_ctx : bool; k_bad : bool;
  k_dct : list Z; k_geom : geom }.

(* comps = (h_samp, v_samp) list; ycc3 = YCbCr 3-component frame; rgbout = output colour space is RGB-like;
   grayout = grayscale output requested from a YCbCr frame (components 1.. not needed) *)
Definition derive_config (chain : list (Z * Z * Z * Z * Z)) (dct W H : Z) (comps : list (Z * Z))
           (scale_num scale_den : Z) (fancy ycc3 rgbout grayout : bool) (f1 f2 f4 f6 : bool) : option config :=
  match core_output_dims chain dct W H scale_num scale_den with
  | None => None
  | Some (ow, oh, M, _) =>
      let hmax := zmaxl (map fst comps) in
      let vmax := zmaxl (map snd comps) in
      let dcts := map (fun c => dct_scale_loop 4 M dct hmax vmax M (fst c) (snd c)) comps in
      let cd := combine comps dcts in
      let merged :=
        negb fancy && ycc3 && rgbout &&
        match cd with
        | ((h0, v0), d0) :: ((h1, v1), d1) :: ((h2, v2), d2) :: [] =>
            (h0 =? 2) && (h1 =? 1) && (h2 =? 1) && (v0 <=? 2) && (v1 =? 1) && (v2 =? 1) &&
            (d0 =? M) && (d1 =? M) && (d2 =? M)
        | _ => false
        end in
      let do_fancy := fancy && (1 <? M) in
      let methods :=
        map (fun ic => let '(i, ((h, v), d)) := ic in
               pick_method ((i =? 0) || negb grayout) do_fancy ((h * d) / M) ((v * d) / M) hmax vmax
                           (jdiv_round_up (W * (h * d)) (hmax * dct)))
            (combine (zseq 0 (length cd)) cd) in
      let ctx := negb merged && existsb is_ctx_method methods in
      let bad := negb merged && existsb (fun m => match m with UBad => true | _ => false end) methods in
      (* tracked component: the first one whose method reads a context row, else component 0 *)
      let idx := match find (fun im => is_ctx_method (snd im)) (combine (zseq 0 (length methods)) methods) with
                 | Some (i, _) => i | None => 0 end in
      let comp_at i := nth (Z.to_nat i) cd ((1, 1), M) in
      let rg_of c := let '((h, v), d) := c in (v * d) / M in
      let dsh_of c := let '((h, v), d) := c in jdiv_round_up (H * (v * d)) (vmax * dct) in
      let hrows_of c := let '((h, v), d) := c in jdiv_round_up (H * v) (vmax * dct) * d in
      let tc := comp_at idx in
      let c0 := comp_at 0 in
      Some (mkCfg ow oh M hmax vmax merged ctx bad dcts
              (mkGeom M vmax oh (jdiv_round_up H (vmax * dct)) merged ctx
                      (rg_of tc) (dsh_of tc) (hrows_of tc)
                      (is_ctx_method (nth (Z.to_nat idx) methods UNoop)) (rg_of c0) (dsh_of c0) f1 f2 f4 f6))
  end.

(* hazard 5: jpeg_crop_scanline calls jinit_upsampler(no_alloc) when a component's new downsampled_width
   drops below 2; with merged upsampling the object it re-initialises is a my_merged_upsampler *)
Definition crop_reinit_hazard (dct W : Z) (comps : list (Z * Z)) (k : config) (w' : Z) : bool :=
  k_merged k &&
  existsb (fun cd => let '((h, _), d) := cd in
             (comp_dsw w' h d (k_hmax k) (k_M k) <? 2) && (2 <=? jdiv_round_up (W * (h * d)) (k_hmax k * dct)))
          (combine comps (k_dct k)).
