(* C05 -- row loops of the sample kernels.  Every kernel call handles a whole row group:
   the counter is max_v_samp_factor (upsampling) or v_samp_factor (downsampling) and each
   iteration consumes `ins` input rows, produces `outs` output rows and subtracts `dec`
   from the counter (dec / sub rcx,2 ; jg .rowloop).  The three numbers come from
   gen/GenSimdConst.v (read from the row-loop tail of each function).  No proofs here. *)
From Coq Require Import List ZArith Bool.
From LJT Require Import lib.Words gen.GenSimdConst.
Import ListNotations.
Local Open Scope Z_scope.

Section Loop.
Context {A B : Type}.
Variable f : list A -> list B.     (* one iteration: reads the first `ins` rows of what is left *)

(* asm: "test rcx,rcx ; jz .return" ... ".rowloop: <body> ; add rsi,ins ; add rdi,outs ; sub rcx,dec ; jg .rowloop" *)
Fixpoint asm_rowloop (fuel : nat) (ins : nat) (dec : Z) (cnt : Z) (rows : list A) : list B :=
  match fuel with
  | O => []
  | S k => f rows ++ (if 0 <? cnt - dec then asm_rowloop k ins dec (cnt - dec) (skipn ins rows) else [])
  end.
Definition asm_rows (steps : Z * Z * Z) (cnt : Z) (rows : list A) : list B :=
  let '(ins, outs, dec) := steps in
  if cnt <=? 0 then [] else asm_rowloop (Z.to_nat cnt) (Z.to_nat ins) dec cnt rows.

(* C: "outrow = 0; while (outrow < n) { <body>; inrow += ins; outrow += outs; }" *)
Fixpoint c_rowloop (fuel : nat) (ins : nat) (outs : Z) (outrow n : Z) (rows : list A) : list B :=
  match fuel with
  | O => []
  | S k => if outrow <? n then f rows ++ c_rowloop k ins outs (outrow + outs) n (skipn ins rows) else []
  end.
Definition c_rows (ins : nat) (outs : Z) (n : Z) (rows : list A) : list B :=
  c_rowloop (S (Z.to_nat n)) ins outs 0 n rows.
End Loop.

(* the C loops (src/jdsample.c, src/jcsample.c): rows consumed / produced per iteration *)
Definition c_steps_h2v1_upsample : nat * Z := (1%nat, 1).        (* for (inrow = 0; inrow < max_v; inrow++) *)
Definition c_steps_h2v2_upsample : nat * Z := (1%nat, 2).        (* while (outrow < max_v) { ...; inrow++; outrow += 2; } *)
Definition c_steps_h2v1_fancy : nat * Z := (1%nat, 1).
Definition c_steps_h2v2_fancy : nat * Z := (1%nat, 2).           (* two output rows (v = 0, 1) per input row *)
Definition c_steps_h2v1_down : nat * Z := (1%nat, 1).            (* for (outrow = 0; outrow < v_samp_factor; outrow++) *)
Definition c_steps_h2v2_down : nat * Z := (2%nat, 1).            (* ...; inrow += 2 *)

(* plain upsampling of a row group, concretely *)
Definition dup_row (r : list Z) : list Z := flat_map (fun a => [a; a]) r.
Definition plain1_body (rows : list (list Z)) : list (list Z) := [dup_row (hd [] rows)].
Definition plain2_body (rows : list (list Z)) : list (list Z) := [dup_row (hd [] rows); dup_row (hd [] rows)].
Definition asm_h2v1_plain_group (steps : Z * Z * Z) (max_v : Z) (rows : list (list Z)) := asm_rows plain1_body steps max_v rows.
Definition c_h2v1_plain_group (max_v : Z) (rows : list (list Z)) := c_rows plain1_body 1 1 max_v rows.
Definition asm_h2v2_plain_group (steps : Z * Z * Z) (max_v : Z) (rows : list (list Z)) := asm_rows plain2_body steps max_v rows.
Definition c_h2v2_plain_group (max_v : Z) (rows : list (list Z)) := c_rows plain2_body 1 2 max_v rows.

(* ---- h2v2 merged upsampling: order of the row stores.  jpeg_skip_scanlines() passes the SAME buffer
   (spare_row) for both output rows, so what the buffer holds afterwards is decided by which row is
   stored last.  alias r = buffer that output row r points to; data r = pixels of output row r. *)
Definition final_store (order : list Z) (alias : Z -> Z) (data : Z -> list Z) (b : Z) : option (list Z) :=
  fold_left (fun acc r => if alias r =? b then Some (data r) else acc) order None.
(* asm: one h2v1 call per entry of merged_h2v2_call_rows_* (generated), each storing a whole row *)
Definition asm_merged2_final (calls : list Z) := final_store calls.
(* C (h2v2_merged_upsample_internal): per column pair, outptr0 is stored before outptr1 *)
Definition c_merged2_final (alias : Z -> Z) (data : Z -> list Z) (b : Z) : option (list Z) :=
  final_store [0; 1] alias data b.
