(* DProg.v -- index discipline of the progressive (jdphuff.c) and lossless (jdlhuff.c) Huffman decoders
   (C01).  Same conventions as DMarkers.v: bits are an abstract list (None / Susp = the source ran dry),
   every array index the C forms is recorded with the declared size of the array:
     jpeg_natural_order[k] (80), block[pos] (64), newnz_pos[num_newnz] (64), coef_bits[row][coefi],
     output_ptr_info[ptrn] / output_ptr_index[sampn] / cur_tbls[sampn] (10).  No proofs here. *)
From Coq Require Import List ZArith Bool Lia.
From LJT Require Import gen.GenLimits model.Huff model.DMarkers.
Import ListNotations.
Local Open Scope Z_scope.

Definition lg (i b : Z) (tr : list (Z * Z)) : list (Z * Z) := (i, b) :: tr.

(* ---------------------------------------------------- decode_mcu_AC_first, one block, EOBRUN = 0 *)
Inductive pres := PDone (eobrun : Z) (tr : list (Z * Z)) (rest : list bool) (st : list (Z * Z)) | PSusp (tr : list (Z * Z)) | PFuel (tr : list (Z * Z)).

(* "for (k = Ss; k <= Se; k++) { s = HUFF_DECODE; r = s >> 4; s &= 15;
      if (s) { k += r; r = GET_BITS(s); block[natural_order[k]] = HUFF_EXTEND(r, s) << Al; }
      else if (r == 15) k += 15; else { EOBRUN = 1 << r; if (r) EOBRUN += GET_BITS(r); EOBRUN--; break; } }" *)
Fixpoint ac_first_loop (fuel : nat) (t : dtbl) (Se Al k : Z) (bs : list bool) (tr : list (Z * Z)) (st : list (Z * Z)) : pres :=
  if k <=? Se then
    match fuel with
    | O => PFuel tr
    | S f =>
        match decode_lookahead t bs with
        | None => PSusp tr
        | Some (sym, _, bs1) =>
            let r := sym / 16 in
            let s := sym mod 16 in
            if s =? 0 then
              if r =? 15 then ac_first_loop f t Se Al (k + 15 + 1) bs1 tr st
              else
                match (if r =? 0 then Some (0, bs1) else take_code (Z.to_nat r) bs1 0) with
                | None => PSusp tr
                | Some (v, bs2) => PDone (2 ^ r + v - 1) tr bs2 st
                end
            else
              let k' := k + r in
              match take_code (Z.to_nat s) bs1 0 with
              | None => PSusp tr
              | Some (v, bs2) =>
                  let tr1 := lg k' bound_natural_order tr in
                  let tr2 := lg (nthd natural_order k' (-1)) L_DCTSIZE2 tr1 in
                  ac_first_loop f t Se Al (k' + 1) bs2 tr2 ((nthd natural_order k' (-1), huff_extend v s * 2 ^ Al) :: st)
              end
        end
    end
  else PDone 0 tr bs st.

(* ------------------------------------------------------------ decode_mcu_AC_refine, one block *)
Inductive ires := IOk (k : Z) (blk : list Z) (bs : list bool) (tr : list (Z * Z)) | ISusp (tr : list (Z * Z)) | IFuel (tr : list (Z * Z)).

(* "do { thiscoef = block + natural_order[k];
         if (thiscoef[0] != 0) { if (GET_BITS(1)) if ((thiscoef[0] & p1) == 0) thiscoef[0] += (>= 0 ? p1 : m1); }
         else if (--r < 0) break;
         k++; } while (k <= Se);" *)
Fixpoint refine_inner (fuel : nat) (Se p1 m1 k r : Z) (blk : list Z) (bs : list bool) (tr : list (Z * Z)) : ires :=
  match fuel with
  | O => IFuel tr
  | S f =>
      let tr1 := lg k bound_natural_order tr in
      let pos := nthd natural_order k (-1) in
      let tr2 := lg pos L_DCTSIZE2 tr1 in
      let c := nthd blk pos 0 in
      if negb (c =? 0) then
        match bs with
        | [] => ISusp tr2
        | b :: bs' =>
            let blk' := if b && (Z.land c p1 =? 0) then updz pos (c + (if c >=? 0 then p1 else m1)) blk else blk in
            if k + 1 <=? Se then refine_inner f Se p1 m1 (k + 1) r blk' bs' tr2 else IOk (k + 1) blk' bs' tr2
        end
      else if r - 1 <? 0 then IOk k blk bs tr2
      else if k + 1 <=? Se then refine_inner f Se p1 m1 (k + 1) (r - 1) blk bs tr2 else IOk (k + 1) blk bs tr2
  end.

Inductive ores := OEob (eobrun k : Z) (blk : list Z) (bs : list bool) (nnz : Z) (tr : list (Z * Z))
                | ODone (k : Z) (blk : list Z) (bs : list bool) (nnz : Z) (tr : list (Z * Z))
                | OSusp (tr : list (Z * Z)) | OFuel (tr : list (Z * Z)).

(* "for (; k <= Se; k++) { s = HUFF_DECODE; r = s >> 4; s &= 15;
      if (s) { s = GET_BITS(1) ? p1 : m1; } else if (r != 15) { EOBRUN = 1 << r; if (r) EOBRUN += GET_BITS(r); break; }
      <inner loop>; if (s) { pos = natural_order[k]; block[pos] = s; newnz_pos[num_newnz++] = pos; } }" *)
Fixpoint refine_outer (fuel : nat) (t : dtbl) (Se p1 m1 k : Z) (blk : list Z) (bs : list bool) (nnz : Z) (tr : list (Z * Z)) : ores :=
  if k <=? Se then
    match fuel with
    | O => OFuel tr
    | S f =>
        match decode_lookahead t bs with
        | None => OSusp tr
        | Some (sym, _, bs1) =>
            let r := sym / 16 in
            let s := sym mod 16 in
            if (s =? 0) && negb (r =? 15) then
              match (if r =? 0 then Some (0, bs1) else take_code (Z.to_nat r) bs1 0) with
              | None => OSusp tr
              | Some (v, bs2) => OEob (2 ^ r + v) k blk bs2 nnz tr
              end
            else
              match (if s =? 0 then Some (0, bs1) else
                       match bs1 with [] => None | b :: bs2 => Some (if b then p1 else m1, bs2) end) with
              | None => OSusp tr
              | Some (sv, bs2) =>
                  match refine_inner 65 Se p1 m1 k r blk bs2 tr with
                  | ISusp tr' => OSusp tr'
                  | IFuel tr' => OFuel tr'
                  | IOk k' blk' bs3 tr' =>
                      if s =? 0 then refine_outer f t Se p1 m1 (k' + 1) blk' bs3 nnz tr'
                      else
                        let tr1 := lg k' bound_natural_order tr' in
                        let pos := nthd natural_order k' (-1) in
                        let tr2 := lg pos L_DCTSIZE2 tr1 in
                        let tr3 := lg nnz bound_newnz_pos tr2 in          (* newnz_pos[num_newnz++] *)
                        refine_outer f t Se p1 m1 (k' + 1) (updz pos sv blk') bs3 (nnz + 1) tr3
                  end
              end
        end
    end
  else ODone k blk bs nnz tr.

(* "if (EOBRUN > 0) { for (; k <= Se; k++) { thiscoef = block + natural_order[k]; if (thiscoef[0] != 0) { GET_BITS(1) ... } } EOBRUN--; }" *)
Fixpoint refine_tail (fuel : nat) (Se p1 m1 k : Z) (blk : list Z) (bs : list bool) (tr : list (Z * Z)) : ires :=
  if k <=? Se then
    match fuel with
    | O => IFuel tr
    | S f =>
        let tr1 := lg k bound_natural_order tr in
        let pos := nthd natural_order k (-1) in
        let tr2 := lg pos L_DCTSIZE2 tr1 in
        let c := nthd blk pos 0 in
        if negb (c =? 0) then
          match bs with
          | [] => ISusp tr2
          | b :: bs' =>
              let blk' := if b && (Z.land c p1 =? 0) then updz pos (c + (if c >=? 0 then p1 else m1)) blk else blk in
              refine_tail f Se p1 m1 (k + 1) blk' bs' tr2
          end
        else refine_tail f Se p1 m1 (k + 1) blk bs tr2
    end
  else IOk k blk bs tr.

(* one block of decode_mcu_AC_refine; result: block, remaining bits, new EOBRUN, index trace *)
Inductive rres := RDone (blk : list Z) (bs : list bool) (eobrun : Z) (tr : list (Z * Z)) | RSusp (tr : list (Z * Z)) | RFuel (tr : list (Z * Z)).
Definition ac_refine_block (t : dtbl) (Ss Se Al eobrun : Z) (blk : list Z) (bs : list bool) : rres :=
  let p1 := 2 ^ Al in let m1 := - 2 ^ Al in
  let finish := fun e k blk bs tr =>
    if e >? 0 then
      match refine_tail 65 Se p1 m1 k blk bs tr with
      | IOk _ blk' bs' tr' => RDone blk' bs' (e - 1) tr'
      | ISusp tr' => RSusp tr' | IFuel tr' => RFuel tr'
      end
    else RDone blk bs e tr in
  if eobrun =? 0 then
    match refine_outer 65 t Se p1 m1 Ss blk bs 0 [] with
    | OEob e k blk' bs' _ tr => finish e k blk' bs' tr
    | ODone k blk' bs' _ tr => finish 0 k blk' bs' tr
    | OSusp tr => RSusp tr | OFuel tr => RFuel tr
    end
  else finish eobrun Ss blk bs [].

(* ------------------------------------------------- start_pass_phuff_decoder: coef_bits[][] accesses *)
(* "coef_bit_ptr = &coef_bits[cindex][0]; prev_coef_bit_ptr = &coef_bits[cindex + num_components][0];
    for (coefi = MIN(Ss, 1); coefi <= MAX(Se, 9); coefi++) prev[coefi] = ...;
    for (coefi = Ss; coefi <= Se; coefi++) ... coef_bit_ptr[coefi] = Al;"  rows: 2 * num_components, columns: DCTSIZE2 *)
Definition coef_bits_trace (nc cindex Ss Se : Z) : list (Z * Z) :=
  [(cindex, 2 * nc); (cindex + nc, 2 * nc)] ++
  map (fun i => (Z.min Ss 1 + Z.of_nat i, L_DCTSIZE2)) (seq 0 (Z.to_nat (Z.max Se 9 - Z.min Ss 1 + 1))) ++
  map (fun i => (Ss + Z.of_nat i, L_DCTSIZE2)) (seq 0 (Z.to_nat (Se - Ss + 1))).

(* -------------------------------------------------------- start_pass_lhuff_decoder / decode_mcus *)
(* "for (sampn = 0, ptrn = 0; sampn < blocks_in_MCU;) { compptr = cur_comp_info[MCU_membership[sampn]];
      for (yoffset = 0; yoffset < MCU_height; yoffset++, ptrn++) { output_ptr_info[ptrn] = ...;
        for (xoffset = 0; xoffset < MCU_width; xoffset++, sampn++) { output_ptr_index[sampn] = ptrn; cur_tbls[sampn] = ...; } } }"
   comps = (MCU_width, MCU_height) of the scan components in MCU order; returns (output_ptr_index, num_output_ptrs, trace) *)
Fixpoint lh_row (w : nat) (sampn ptrn : Z) (tr : list (Z * Z)) : list Z * Z * list (Z * Z) :=
  match w with
  | O => ([], sampn, tr)
  | S w' =>
      let tr1 := lg sampn bound_lh_arrays (lg sampn bound_lh_arrays tr) in   (* output_ptr_index[sampn], cur_tbls[sampn] *)
      let '(idx, sampn', tr') := lh_row w' (sampn + 1) ptrn tr1 in
      (ptrn :: idx, sampn', tr')
  end.
Fixpoint lh_comp (h : nat) (w : nat) (sampn ptrn : Z) (tr : list (Z * Z)) : list Z * Z * Z * list (Z * Z) :=
  match h with
  | O => ([], sampn, ptrn, tr)
  | S h' =>
      let tr1 := lg ptrn bound_lh_arrays tr in                                  (* output_ptr_info[ptrn] *)
      let '(idx1, sampn1, tr2) := lh_row w sampn ptrn tr1 in
      let '(idx2, sampn2, ptrn2, tr3) := lh_comp h' w sampn1 (ptrn + 1) tr2 in
      (idx1 ++ idx2, sampn2, ptrn2, tr3)
  end.
Fixpoint lh_setup (comps : list (Z * Z)) (sampn ptrn : Z) (tr : list (Z * Z)) : list Z * Z * list (Z * Z) :=
  match comps with
  | [] => ([], ptrn, tr)
  | (w, h) :: t =>
      let '(idx1, sampn1, ptrn1, tr1) := lh_comp (Z.to_nat h) (Z.to_nat w) sampn ptrn tr in
      let '(idx2, n, tr2) := lh_setup t sampn1 ptrn1 tr1 in
      (idx1 ++ idx2, n, tr2)
  end.
(* decode_mcus, one MCU: "entropy->output_ptr[entropy->output_ptr_index[sampn]]++ = s": indices into output_ptr[] *)
Definition lh_mcu_trace (idx : list Z) : list (Z * Z) := map (fun p => (p, bound_lh_arrays)) idx.
