(* LosslessBitReg.v -- the numeric bit-extraction register of the Huffman decoder:
     jdhuff.h  bit_buf_type get_buffer (64 bits in this build), int bits_left,
               PEEK_BITS(n) = ((int)(get_buffer >> (bits_left - n))) & ((1 << n) - 1)
               GET_BITS(n)  = the same with bits_left -= n,   DROP_BITS(n): bits_left -= n
     jdhuff.c  jpeg_fill_bit_buffer: "get_buffer = (get_buffer << 8) | c; bits_left += 8"
               while bits_left < MIN_GET_BITS; after a marker, if the request cannot be met:
               "get_buffer <<= MIN_GET_BITS - bits_left; bits_left = MIN_GET_BITS"
   model/LosslessLazy.v keeps the register as the LIST of its low bits_left bits;
   proofs/LosslessBitRegProofs.v shows these definitions refine that list. *)
From Coq Require Import List ZArith Bool.
From LJT Require Import model.Huff model.Lossless model.LosslessBytes model.LosslessLazy.
Import ListNotations.
Local Open Scope Z_scope.

Definition bitreg := (Z * Z)%type.                 (* get_buffer, bits_left *)
Definition BIT_BUF_SIZE : Z := 64.
Definition wrap64 (x : Z) : Z := x mod 2 ^ 64.     (* bit_buf_type arithmetic *)

(* the bits the register holds: the low bits_left bits of get_buffer, first bit first *)
Definition reg_bits (r : bitreg) : list bool := bits_of (Z.to_nat (snd r)) (fst r).

Definition reg_load (r : bitreg) (c : Z) : bitreg :=            (* (get_buffer << 8) | c; bits_left += 8 *)
  (Z.lor (wrap64 (Z.shiftl (fst r) 8)) c, snd r + 8).

Definition reg_peek (r : bitreg) (n : Z) : Z :=                  (* PEEK_BITS(n) *)
  Z.land (to_int32 (Z.shiftr (fst r) (snd r - n))) (Z.shiftl 1 n - 1).
Definition reg_drop (r : bitreg) (n : Z) : bitreg := (fst r, snd r - n).          (* DROP_BITS(n) *)
Definition reg_get (r : bitreg) (n : Z) : Z * bitreg := (reg_peek r n, reg_drop r n).   (* GET_BITS(n) *)

Definition reg_zero_fill (r : bitreg) : bitreg :=               (* get_buffer <<= MIN_GET_BITS - bits_left *)
  (wrap64 (Z.shiftl (fst r) (Z.of_nat MIN_GET_BITS - snd r)), Z.of_nat MIN_GET_BITS).

Fixpoint reg_fill_loop (fuel : nat) (r : bitreg) (inp : list Z) : option (bitreg * list Z * option Z) :=
  match fuel with
  | O => Some (r, inp, None)
  | S k =>
      if snd r <? Z.of_nat MIN_GET_BITS then
        match next_unit inp with
        | None => None
        | Some (inl c, t) => reg_fill_loop k (reg_load r c) t
        | Some (inr m, t) => Some (r, t, Some m)
        end
      else Some (r, inp, None)
  end.

Record rstate := { rs_reg : bitreg; rs_inp : list Z; rs_marker : option Z; rs_insuf : bool }.
Definition abs_state (s : rstate) : brstate :=
  {| br_buf := reg_bits (rs_reg s); br_inp := rs_inp s; br_marker := rs_marker s; br_insuf := rs_insuf s |}.

Definition reg_no_more_bytes (r : bitreg) (inp : list Z) (m : Z) (insuf : bool) (nbits : Z) : rstate :=
  if snd r <? nbits
  then {| rs_reg := reg_zero_fill r; rs_inp := inp; rs_marker := Some m; rs_insuf := true |}
  else {| rs_reg := r; rs_inp := inp; rs_marker := Some m; rs_insuf := insuf |}.

Definition reg_fill_bit_buffer (s : rstate) (nbits : Z) : option rstate :=
  match rs_marker s with
  | Some m => Some (reg_no_more_bytes (rs_reg s) (rs_inp s) m (rs_insuf s) nbits)
  | None =>
      match reg_fill_loop 8 (rs_reg s) (rs_inp s) with
      | None => None
      | Some (r, i, None) => Some {| rs_reg := r; rs_inp := i; rs_marker := None; rs_insuf := rs_insuf s |}
      | Some (r, i, Some m) => Some (reg_no_more_bytes r i m (rs_insuf s) nbits)
      end
  end.

(* one difference with the numeric register: the Huffman step is the table decoder on the
   bits held, followed by DROP_BITS of what it consumed; the extra bits are a GET_BITS *)
Definition reg_with (s : rstate) (r : bitreg) : rstate :=
  {| rs_reg := r; rs_inp := rs_inp s; rs_marker := rs_marker s; rs_insuf := rs_insuf s |}.

Definition reg_decode_tok (dec : Z -> list bool -> option (Z * list bool)) (tbl : Z) (st : rstate)
  : option (Z * rstate) :=
  match (if snd (rs_reg st) <? 8 then reg_fill_bit_buffer st 0 else Some st) with
  | None => None
  | Some st0 =>
   match (if snd (rs_reg st0) <? 16 then reg_fill_bit_buffer st0 0 else Some st0) with
   | None => None
   | Some st1 =>
      match dec tbl (reg_bits (rs_reg st1)) with
      | None => None
      | Some (s, rest) =>
          let st2 := reg_with st1 (reg_drop (rs_reg st1) (snd (rs_reg st1) - Z.of_nat (length rest))) in
          if s =? 0 then Some (0, st2)
          else if s =? 16 then Some (32768, st2)
          else
            match (if snd (rs_reg st2) <? s then reg_fill_bit_buffer st2 s else Some st2) with
            | None => None
            | Some st3 =>
                if snd (rs_reg st3) <? s then None
                else let (r, reg') := reg_get (rs_reg st3) s in Some (huff_extend r s, reg_with st3 reg')
            end
      end
   end
  end.
