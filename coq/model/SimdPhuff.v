(* C05 -- progressive Huffman "prepare" kernels: src/jcphuff.c COMPUTE_ABSVALUES_AC_FIRST / _AC_REFINE (per
   coefficient k < Sl, gathered through jpeg_natural_order_start) and the word-lane dataflow of
   simd/x86_64/jcphuff-sse2.asm (pcmpgtw sign mask, paddw/pxor abs, psrlw Al, pxor complement, pcmpeqw ONE,
   pcmpeqw ZERO / pmovmskb / not for the bit masks, bsr for the EOB index).  Masks are lists of booleans. *)
From Coq Require Import List ZArith Bool.
From LJT Require Import lib.Words.
Import ListNotations.
Local Open Scope Z_scope.

(* ---- one lane (x given as its 16-bit pattern) ---- *)
Definition k_neg (x : Z) : Z := if s16 x <? 0 then 65535 else 0.                    (* pcmpgtw N, X with N = 0 *)
Definition k_abs_al (x al : Z) : Z := psrlw (pxor16 (paddw x (k_neg x)) (k_neg x)) al.
Definition k_first (x al : Z) : Z * Z := let v := k_abs_al x al in (v, pxor16 (k_neg x) v).   (* values[k], values[k+64] *)
Definition k_refine (x al : Z) : Z * bool * bool :=        (* absvalues[k], sign-mask bit after "not", abs == 1 *)
  let v := k_abs_al x al in (v, negb (k_neg x =? 65535), v =? 1).
(* ---- C (int arithmetic, stores into UJCOEF = unsigned short) ---- *)
Definition c_sign (x : Z) : Z := if x <? 0 then -1 else 0.                          (* temp >> 31 *)
Definition c_abs_al (x al : Z) : Z := Z.shiftr (Z.lxor x (c_sign x) - c_sign x) al.
Definition c_first (x al : Z) : Z * Z := let t := c_abs_al x al in (w16 t, w16 (Z.lxor (c_sign x) t)).
Definition c_refine (x al : Z) : Z * bool * bool :=        (* absvalues[k], signbits bit, temp == 1 *)
  let t := c_abs_al x al in (w16 t, negb (t =? 0) && (c_sign x + 1 =? 1), t =? 1).

(* ---- whole call: coefficient list (already gathered, k < Sl), zero padding to 64 lanes ---- *)
Definition pad64 {A} (d : A) (l : list A) : list A := l ++ repeat d (64 - length l).
Definition k_first_prepare (xs : list Z) (al : Z) : list Z * list Z * list bool :=
  let r := map (fun x => k_first (w16 x) al) xs in
  (pad64 0 (map fst r), pad64 0 (map snd r), pad64 false (map (fun p => negb (fst p =? 0)) r)).      (* values, values+64, zerobits *)
Fixpoint last_true (l : list bool) (k : Z) (acc : Z) : Z :=
  match l with [] => acc | b :: t => last_true t (k + 1) (if b then k else acc) end.
Definition k_refine_prepare (xs : list Z) (al : Z) : list Z * list bool * list bool * Z :=
  let r := map (fun x => k_refine (w16 x) al) xs in
  (pad64 0 (map (fun p => fst (fst p)) r), pad64 false (map (fun p => negb (fst (fst p) =? 0)) r),
   pad64 true (map (fun p => snd (fst p)) r), last_true (map snd r) 0 0).     (* absvalues, zerobits, signbits, EOB *)
Definition c_refine_prepare (xs : list Z) (al : Z) : list Z * list bool * list bool * Z :=
  let r := map (fun x => c_refine x al) xs in
  (pad64 0 (map (fun p => fst (fst p)) r), pad64 false (map (fun p => negb (fst (fst p) =? 0)) r),
   pad64 false (map (fun p => snd (fst p)) r), last_true (map snd r) 0 0).
