(* DMarkers.v -- executable model of the marker reader and scan set-up of the
   libjpeg-turbo decompressor (C01):
     jdmarker.c  first_marker next_marker read_markers get_soi get_sof get_sos
                 get_dac get_dht get_dqt get_dri get_interesting_appn skip_variable
     jdatasrc.c / jdatasrc-tj.c   fill_mem_input_buffer (fake EOI), skip_input_data
     jdinput.c   consume_markers initial_setup per_scan_setup latch_quant_tables
     jdmaster.c  master_selection (only: lossless + arithmetic => ARITH_NOTIMPL)
     jdhuff.c    start_pass_huff_decoder (+ jpeg_make_d_derived_tbl = Huff.make_d_derived),
                 decode_mcu_slow block loop (k += r; store at natural_order[k])
     jdphuff.c / jdarith.c start_pass parameter validation, jdlhuff.c start_pass,
     jdlossls.c start_pass_lossless, jddiffct.c start_input_pass restart check.
   Statement order of the C is kept.  Every array index the C forms is recorded
   with the declared size of the array (log i bound); sizes and constants come
   from gen/GenLimits.v (regenerated from the source on every run).
   No proofs here. *)
From Coq Require Import List ZArith Bool Lia.
From LJT Require Import gen.GenLimits model.Huff.
(* note: the source tree is a moving target; gen_Limits.py fails when a guard mirrored here changes *)
Import ListNotations.
Local Open Scope Z_scope.

(* ------------------------------------------------------------------ errors *)
Inductive derr :=
| E_INPUT_EMPTY | E_NO_SOI | E_SOI_DUPLICATE | E_SOF_DUPLICATE | E_SOF_UNSUPPORTED
| E_SOS_NO_SOF | E_SOF_NO_SOS | E_BAD_LENGTH | E_EMPTY_IMAGE | E_BAD_COMPONENT_ID
| E_DHT_INDEX | E_BAD_HUFF_TABLE | E_DQT_INDEX | E_DAC_INDEX | E_DAC_VALUE
| E_UNKNOWN_MARKER | E_IMAGE_TOO_BIG | E_BAD_PRECISION | E_COMPONENT_COUNT
| E_BAD_SAMPLING | E_BAD_MCU_SIZE | E_NO_QUANT_TABLE | E_NO_HUFF_TABLE
| E_NO_ARITH_TABLE | E_BAD_PROGRESSION | E_ARITH_NOTIMPL | E_BAD_RESTART | E_EOI_EXPECTED
| E_OUT_OF_FUEL.

(* --------------------------------------------------- input/effect state (io) *)
(* real  : bytes of the caller's buffer not yet consumed
   fake  : true  = memory source (jpeg_mem_src / TurboJPEG): at end of buffer
                   fill_mem_input_buffer supplies FF D9 and warns, forever
           false = a suspending source: end of data => Susp
   phase : inside a fake FF D9 pair: the next byte is D9
   eofw  : number of fill_mem_input_buffer calls (JWRN_JPEG_EOF)
   warns : err->num_warnings;  discarded : marker->discarded_bytes
   trace : (index, declared array size) of every array access formed so far *)
Record io := mkio { real : list Z; fake : bool; phase : bool; eofw : Z;
                    warns : Z; discarded : Z; trace : list (Z * Z) }.

Inductive res (A : Type) :=
| Done (a : A) (s : io)
| Susp
| Fail (e : derr) (s : io).
Arguments Done {A}. Arguments Susp {A}. Arguments Fail {A}.

Definition M (A : Type) := io -> res A.
Definition ret {A} (a : A) : M A := fun s => Done a s.
Definition bind {A B} (m : M A) (f : A -> M B) : M B :=
  fun s => match m s with Done a s' => f a s' | Susp => Susp | Fail e s' => Fail e s' end.
Definition fail {A} (e : derr) : M A := fun s => Fail e s.

Notation "x <- m ;; k" := (bind m (fun x => k)) (at level 61, m at next level, right associativity).
Notation "' p <- m ;; k" := (bind m (fun x => match x with p => k end))
  (at level 61, p pattern, m at next level, right associativity).
Notation "m ;;; k" := (bind m (fun _ => k)) (at level 61, right associativity).

Definition get_byte : M Z := fun s =>
  match real s with
  | b :: t => Done b (mkio t (fake s) (phase s) (eofw s) (warns s) (discarded s) (trace s))
  | [] =>
      if fake s then
        if phase s then Done 217 (mkio [] true false (eofw s) (warns s) (discarded s) (trace s))
        else Done 255 (mkio [] true true (eofw s + 1) (warns s + 1) (discarded s) (trace s))
      else Susp
  end.

Definition get2 : M Z := a <- get_byte ;; b <- get_byte ;; ret (a * 256 + b).

Definition log (i bound : Z) : M unit := fun s =>
  Done tt (mkio (real s) (fake s) (phase s) (eofw s) (warns s) (discarded s) ((i, bound) :: trace s)).
Definition warn : M unit := fun s =>
  Done tt (mkio (real s) (fake s) (phase s) (eofw s) (warns s + 1) (discarded s) (trace s)).
Definition warn_n (n : Z) : M unit := fun s =>
  Done tt (mkio (real s) (fake s) (phase s) (eofw s) (warns s + n) (discarded s) (trace s)).
Definition add_discard (n : Z) : M unit := fun s =>
  Done tt (mkio (real s) (fake s) (phase s) (eofw s) (warns s) (discarded s + n) (trace s)).
(* "if (discarded_bytes != 0) { WARNMS2(JWRN_EXTRANEOUS_DATA); discarded_bytes = 0; }" *)
Definition flush_discard : M unit := fun s =>
  if discarded s =? 0 then Done tt s
  else Done tt (mkio (real s) (fake s) (phase s) (eofw s) (warns s + 1) 0 (trace s)).

(* skip_input_data(num_bytes), num_bytes > 0, of jdatasrc.c / jdatasrc-tj.c:
     while (num_bytes > bytes_in_buffer) { num_bytes -= bytes_in_buffer; fill(); }
     next_input_byte += num_bytes; bytes_in_buffer -= num_bytes;
   every fill() delivers the 2-byte fake EOI buffer and one warning. *)
Definition skip_input (n : Z) : M unit := fun s =>
  let l := Z.of_nat (length (real s)) in
  let avail := match real s with [] => if phase s then 1 else 0 | _ => l end in
  if n <=? avail then
    match real s with
    | [] => Done tt (mkio [] (fake s) false (eofw s) (warns s) (discarded s) (trace s))
    | _ => Done tt (mkio (skipn (Z.to_nat n) (real s)) (fake s) (phase s) (eofw s) (warns s) (discarded s) (trace s))
    end
  else if fake s then
    let n1 := n - avail in
    let fills := (n1 + 1) / 2 in
    Done tt (mkio [] true (n1 mod 2 =? 1) (eofw s + fills) (warns s + fills) (discarded s) (trace s))
  else Done tt (mkio [] false false (eofw s) (warns s) (discarded s) (trace s)).

(* log i, i+1, .. for k consecutive accesses of one array *)
Fixpoint log_range (k : nat) (i bound : Z) : M unit :=
  match k with O => ret tt | S k' => log i bound ;;; log_range k' (i + 1) bound end.

(* ------------------------------------------------------------ parsed state *)
Record comp := mkcomp { c_id : Z; c_h : Z; c_v : Z; c_tq : Z; c_td : Z; c_ta : Z }.
Record frame := mkframe { f_prog : bool; f_lossless : bool; f_arith : bool;
                          f_prec : Z; f_height : Z; f_width : Z; f_nc : Z; f_comps : list comp }.
Record scan := mkscan { s_n : Z; s_cur : list Z;   (* component index of each scan slot *)
                        s_Ss : Z; s_Se : Z; s_Ah : Z; s_Al : Z }.
Definition htbl := (list Z * list Z)%type.      (* bits[0..16], huffval[0..255] *)
Record hdr := mkhdr {
  saw_SOI : bool; saw_SOF : bool;
  h_frame : frame; h_scan : scan;
  dc_tbls : list (option htbl); ac_tbls : list (option htbl);
  q_tbls : list (option (list Z));
  ar_L : list Z; ar_U : list Z; ar_K : list Z;
  h_ri : Z;
  h_jfif : list Z;       (* saw_JFIF, major, minor, density_unit, X_density, Y_density *)
  h_adobe : list Z;      (* saw_Adobe, transform *)
  h_nscans : Z }.

Definition frame0 := mkframe false false false 0 0 0 0 [].
Definition scan0 := mkscan 0 [] 0 0 0 0.
Definition hdr0 : hdr :=
  mkhdr false false frame0 scan0 (repeat None 4) (repeat None 4) (repeat None 4)
        (repeat 0 16) (repeat 1 16) (repeat 5 16) 0 [0; 1; 1; 0; 1; 1] [0; 0] 0.

Definition nthd {A} (l : list A) (i : Z) (d : A) : A := nth (Z.to_nat i) l d.
Definition updz {A} (i : Z) (x : A) (l : list A) : list A := upd (Z.to_nat i) x l.

(* ------------------------------------------------ first_marker / next_marker *)
Definition first_marker : M Z :=
  c <- get_byte ;; c2 <- get_byte ;;
  if negb (c =? 255) || negb (c2 =? M_SOI) then fail E_NO_SOI else ret c2.

(* next_marker as the two-state machine of its loops:
   inFF = false : "while (c != 0xFF) { discarded_bytes++; INPUT_BYTE }"
   inFF = true  : "do INPUT_BYTE while (c == 0xFF)"; c = 0 => discarded_bytes += 2, start over *)
Fixpoint nm_loop (fuel : nat) (inFF : bool) : M Z :=
  match fuel with
  | O => fail E_OUT_OF_FUEL
  | S k =>
      c <- get_byte ;;
      if inFF then
        if c =? 255 then nm_loop k true
        else if c =? 0 then add_discard 2 ;;; nm_loop k false
        else ret c
      else
        if c =? 255 then nm_loop k true
        else add_discard 1 ;;; nm_loop k false
  end.

Definition next_marker : M Z := fun s =>
  (c <- nm_loop (length (real s) + 4) false ;; flush_discard ;;; ret c) s.

(* ------------------------------------------------------------------ get_soi *)
Definition get_soi (h : hdr) : M hdr :=
  if saw_SOI h then fail E_SOI_DUPLICATE else
  log_range (Z.to_nat L_NUM_ARITH_TBLS) 0 bound_arith_dc_L ;;;
  log_range (Z.to_nat L_NUM_ARITH_TBLS) 0 bound_arith_dc_U ;;;
  log_range (Z.to_nat L_NUM_ARITH_TBLS) 0 bound_arith_ac_K ;;;
  ret (mkhdr true (saw_SOF h) (h_frame h) (h_scan h) (dc_tbls h) (ac_tbls h) (q_tbls h)
             (repeat 0 16) (repeat 1 16) (repeat 5 16) 0 [0; 1; 1; 0; 1; 1] [0; 0] (h_nscans h)).

(* ------------------------------------------------------------------ get_sof *)
Fixpoint sof_comps (k : nat) (ci nc : Z) : M (list comp) :=
  match k with
  | O => ret []
  | S k' =>
      log ci nc ;;;                          (* comp_info[ci] *)
      id <- get_byte ;; c <- get_byte ;; tq <- get_byte ;;
      rest <- sof_comps k' (ci + 1) nc ;;
      ret (mkcomp id ((c / 16) mod 16) (c mod 16) tq 0 0 :: rest)
  end.

Definition get_sof (prog lossless arith : bool) (h : hdr) : M hdr :=
  if saw_SOF h then fail E_SOF_DUPLICATE else
  length <- get2 ;;
  prec <- get_byte ;; height <- get2 ;; width <- get2 ;; nc <- get_byte ;;
  let length := length - 8 in
  if (height <=? 0) || (width <=? 0) || (nc <=? 0) then fail E_EMPTY_IMAGE else
  if negb (length =? nc * 3) then fail E_BAD_LENGTH else
  comps <- sof_comps (Z.to_nat nc) 0 nc ;;
  ret (mkhdr (saw_SOI h) true (mkframe prog lossless arith prec height width nc comps) (h_scan h)
             (dc_tbls h) (ac_tbls h) (q_tbls h) (ar_L h) (ar_U h) (ar_K h) (h_ri h)
             (h_jfif h) (h_adobe h) (h_nscans h)).

(* ------------------------------------------------------------------ get_sos *)
(* "for (pi = 0; pi < i; pi++) if (cinfo->cur_comp_info[pi] == compptr) break;"  true = found *)
Fixpoint in_scan (k : nat) (pi : Z) (cur : list (option Z)) (ci : Z) : M bool :=
  match k with
  | O => ret false
  | S k' =>
      log pi bound_cur_comp_info ;;;
      match nthd cur pi None with
      | Some x => if x =? ci then ret true else in_scan k' (pi + 1) cur ci
      | None => in_scan k' (pi + 1) cur ci
      end
  end.

(* "for (ci = 0, compptr = comp_info; ci < num_components; ci++, compptr++)
      if (cc == compptr->component_id) { for (pi..) ...; if (pi == i) goto id_found; }" *)
Fixpoint find_comp (cc : Z) (cs : list comp) (cur : list (option Z)) (i ci nc : Z) : M (option Z) :=
  match cs with
  | [] => ret None
  | c :: t =>
      if ci <? nc then
        log ci nc ;;;                        (* comp_info[ci].component_id *)
        if cc =? c_id c then
          b <- in_scan (Z.to_nat i) 0 cur ci ;;
          if b then find_comp cc t cur i (ci + 1) nc else ret (Some ci)
        else find_comp cc t cur i (ci + 1) nc
      else ret None
  end.

(* "for (pi = 0; pi < i; pi++) if (cur_comp_info[pi] == compptr) ERREXIT" *)
Fixpoint dup_check (k : nat) (pi : Z) (cur : list (option Z)) (ci : Z) : M unit :=
  match k with
  | O => ret tt
  | S k' =>
      log pi bound_cur_comp_info ;;;
      match nthd cur pi None with
      | Some x => if x =? ci then fail E_BAD_COMPONENT_ID else dup_check k' (pi + 1) cur ci
      | None => dup_check k' (pi + 1) cur ci
      end
  end.

Definition set_tbl_no (c : comp) (td ta : Z) : comp := mkcomp (c_id c) (c_h c) (c_v c) (c_tq c) td ta.

Fixpoint sos_comps (k : nat) (i nc : Z) (comps : list comp) (cur : list (option Z))
  : M (list comp * list (option Z)) :=
  match k with
  | O => ret (comps, cur)
  | S k' =>
      cc <- get_byte ;; c <- get_byte ;;
      r <- find_comp cc comps cur i 0 nc ;;
      match r with
      | None => fail E_BAD_COMPONENT_ID
      | Some ci =>
          log i bound_cur_comp_info ;;;      (* cur_comp_info[i] = compptr *)
          let cur' := updz i (Some ci) cur in
          let comps' := updz ci (set_tbl_no (nthd comps ci (mkcomp 0 0 0 0 0 0)) ((c / 16) mod 16) (c mod 16)) comps in
          dup_check (Z.to_nat i) 0 cur' ci ;;;
          sos_comps k' (i + 1) nc comps' cur'
      end
  end.

Definition opt_get (o : option Z) : Z := match o with Some x => x | None => 0 end.

Definition get_sos (h : hdr) : M hdr :=
  if negb (saw_SOF h) then fail E_SOS_NO_SOF else
  length <- get2 ;;
  n <- get_byte ;;
  if negb (length =? n * 2 + 6) || (n <? 1) || (n >? L_MAX_COMPS_IN_SCAN) then fail E_BAD_LENGTH else
  log_range (Z.to_nat L_MAX_COMPS_IN_SCAN) 0 bound_cur_comp_info ;;;   (* cur_comp_info[i] = NULL *)
  let f := h_frame h in
  '(comps, cur) <- sos_comps (Z.to_nat n) 0 (f_nc f) (f_comps f) (repeat None 4) ;;
  ss <- get_byte ;; se <- get_byte ;; c <- get_byte ;;
  ret (mkhdr (saw_SOI h) (saw_SOF h)
             (mkframe (f_prog f) (f_lossless f) (f_arith f) (f_prec f) (f_height f) (f_width f) (f_nc f) comps)
             (mkscan n (map opt_get (firstn (Z.to_nat n) cur)) ss se ((c / 16) mod 16) (c mod 16))
             (dc_tbls h) (ac_tbls h) (q_tbls h) (ar_L h) (ar_U h) (ar_K h) (h_ri h)
             (h_jfif h) (h_adobe h) (h_nscans h + 1)).

(* ------------------------------------------------------------------ get_dac *)
Fixpoint dac_loop (fuel : nat) (length : Z) (L U K : list Z) : M (list Z * list Z * list Z) :=
  if length >? 0 then
    match fuel with
    | O => fail E_OUT_OF_FUEL
    | S f =>
        index <- get_byte ;; val <- get_byte ;;
        let length := length - 2 in
        if (index <? 0) || (index >=? 2 * L_NUM_ARITH_TBLS) then fail E_DAC_INDEX else
        if index >=? L_NUM_ARITH_TBLS then
          log (index - L_NUM_ARITH_TBLS) bound_arith_ac_K ;;;
          dac_loop f length L U (updz (index - L_NUM_ARITH_TBLS) val K)
        else
          log index bound_arith_dc_L ;;; log index bound_arith_dc_U ;;;
          let l := val mod 16 in let u := val / 16 in
          if l >? u then fail E_DAC_VALUE
          else dac_loop f length (updz index l L) (updz index u U) K
    end
  else if length =? 0 then ret (L, U, K) else fail E_BAD_LENGTH.

Definition get_dac (h : hdr) : M hdr :=
  length <- get2 ;;
  '(L, U, K) <- dac_loop (Z.to_nat length) (length - 2) (ar_L h) (ar_U h) (ar_K h) ;;
  ret (mkhdr (saw_SOI h) (saw_SOF h) (h_frame h) (h_scan h) (dc_tbls h) (ac_tbls h) (q_tbls h)
             L U K (h_ri h) (h_jfif h) (h_adobe h) (h_nscans h)).

(* ------------------------------------------------------------------ get_dht *)
(* "for (i = 1; i <= 16; i++) { INPUT_BYTE(bits[i]); count += bits[i]; }" *)
Fixpoint dht_bits (k : nat) (i : Z) : M (list Z * Z) :=
  match k with
  | O => ret ([], 0)
  | S k' =>
      log i bound_get_dht_bits ;;;
      b <- get_byte ;;
      '(rest, cnt) <- dht_bits k' (i + 1) ;;
      ret (b :: rest, b + cnt)
  end.
(* "for (i = 0; i < count; i++) INPUT_BYTE(huffval[i])" *)
Fixpoint dht_vals (k : nat) (i : Z) : M (list Z) :=
  match k with
  | O => ret []
  | S k' =>
      log i bound_get_dht_huffval ;;;
      v <- get_byte ;;
      rest <- dht_vals k' (i + 1) ;;
      ret (v :: rest)
  end.

Fixpoint dht_loop (fuel : nat) (length : Z) (dc ac : list (option htbl))
  : M (list (option htbl) * list (option htbl)) :=
  if length >? 16 then
    match fuel with
    | O => fail E_OUT_OF_FUEL
    | S f =>
        index <- get_byte ;;
        log 0 bound_get_dht_bits ;;;                 (* bits[0] = 0 *)
        '(bits, count) <- dht_bits 16 1 ;;
        let length := length - (1 + 16) in
        if (count >? 256) || (count >? length) then fail E_BAD_HUFF_TABLE else
        vals <- dht_vals (Z.to_nat count) 0 ;;
        (* memset(&huffval[count], 0, 256 - count) *)
        let vals := vals ++ repeat 0 (Z.to_nat (256 - count)) in
        let length := length - count in
        if Z.testbit index 4 then
          let index := index - 16 in
          if (index <? 0) || (index >=? L_NUM_HUFF_TBLS) then fail E_DHT_INDEX else
          log index bound_ac_huff_tbl_ptrs ;;;
          dht_loop f length dc (updz index (Some (0 :: bits, vals)) ac)
        else
          if (index <? 0) || (index >=? L_NUM_HUFF_TBLS) then fail E_DHT_INDEX else
          log index bound_dc_huff_tbl_ptrs ;;;
          dht_loop f length (updz index (Some (0 :: bits, vals)) dc) ac
    end
  else if length =? 0 then ret (dc, ac) else fail E_BAD_LENGTH.

Definition get_dht (h : hdr) : M hdr :=
  length <- get2 ;;
  '(dc, ac) <- dht_loop (Z.to_nat length) (length - 2) (dc_tbls h) (ac_tbls h) ;;
  ret (mkhdr (saw_SOI h) (saw_SOF h) (h_frame h) (h_scan h) dc ac (q_tbls h)
             (ar_L h) (ar_U h) (ar_K h) (h_ri h) (h_jfif h) (h_adobe h) (h_nscans h)).

(* ------------------------------------------------------------------ get_dqt *)
(* "for (i = 0; i < DCTSIZE2; i++) { tmp = prec ? 2 bytes : 1 byte;
      quant_ptr->quantval[jpeg_natural_order[i]] = (UINT16)tmp; }" *)
Fixpoint dqt_vals (k : nat) (i : Z) (prec : Z) (q : list Z) : M (list Z) :=
  match k with
  | O => ret q
  | S k' =>
      tmp <- (if prec =? 0 then get_byte else get2) ;;
      log i bound_natural_order ;;;
      let pos := nthd natural_order i 0 in
      log pos bound_quantval ;;;
      dqt_vals k' (i + 1) prec (updz pos (tmp mod 65536) q)
  end.

Fixpoint dqt_loop (fuel : nat) (length : Z) (qt : list (option (list Z))) : M (list (option (list Z))) :=
  if length >? 0 then
    match fuel with
    | O => fail E_OUT_OF_FUEL
    | S f =>
        n0 <- get_byte ;;
        let prec := n0 / 16 in
        let n := n0 mod 16 in
        if n >=? L_NUM_QUANT_TBLS then fail E_DQT_INDEX else
        log n bound_quant_tbl_ptrs ;;;
        let q0 := match nthd qt n None with Some q => q | None => repeat 0 64 end in
        q <- dqt_vals (Z.to_nat L_DCTSIZE2) 0 prec q0 ;;
        let length := length - (L_DCTSIZE2 + 1) in
        let length := if prec =? 0 then length else length - L_DCTSIZE2 in
        dqt_loop f length (updz n (Some q) qt)
    end
  else if length =? 0 then ret qt else fail E_BAD_LENGTH.

Definition get_dqt (h : hdr) : M hdr :=
  length <- get2 ;;
  qt <- dqt_loop (Z.to_nat length) (length - 2) (q_tbls h) ;;
  ret (mkhdr (saw_SOI h) (saw_SOF h) (h_frame h) (h_scan h) (dc_tbls h) (ac_tbls h) qt
             (ar_L h) (ar_U h) (ar_K h) (h_ri h) (h_jfif h) (h_adobe h) (h_nscans h)).

(* ------------------------------------------------------------------ get_dri *)
Definition get_dri (h : hdr) : M hdr :=
  length <- get2 ;;
  if negb (length =? 4) then fail E_BAD_LENGTH else
  tmp <- get2 ;;
  ret (mkhdr (saw_SOI h) (saw_SOF h) (h_frame h) (h_scan h) (dc_tbls h) (ac_tbls h) (q_tbls h)
             (ar_L h) (ar_U h) (ar_K h) tmp (h_jfif h) (h_adobe h) (h_nscans h)).

(* ------------------------------------------- skip_variable / interesting APPn *)
Definition skip_variable : M unit :=
  length <- get2 ;;
  let length := length - 2 in
  if length >? 0 then skip_input length else ret tt.

Fixpoint appn_bytes (k : nat) (i : Z) : M (list Z) :=
  match k with
  | O => ret []
  | S k' => log i bound_appn_b ;;; b <- get_byte ;; rest <- appn_bytes k' (i + 1) ;; ret (b :: rest)
  end.

Definition starts_with (pre l : list Z) : bool :=
  forallb (fun p => fst p =? snd p) (combine pre (firstn (length pre) l)) && (length pre <=? length l)%nat.

Definition get_interesting_appn (marker : Z) (h : hdr) : M hdr :=
  length <- get2 ;;
  let length := length - 2 in
  let numtoread := if length >=? L_APPN_DATA_LEN then L_APPN_DATA_LEN else if length >? 0 then length else 0 in
  b <- appn_bytes (Z.to_nat numtoread) 0 ;;
  let length := length - numtoread in
  let d := fun i => nthd b i 0 in
  h' <- (if marker =? M_APP0 then
           (* examine_app0 *)
           if (numtoread >=? L_APP0_DATA_LEN) && starts_with [74; 70; 73; 70; 0] b then
             (if negb (d 5 =? 1) then warn else ret tt) ;;;
             ret (mkhdr (saw_SOI h) (saw_SOF h) (h_frame h) (h_scan h) (dc_tbls h) (ac_tbls h) (q_tbls h)
                        (ar_L h) (ar_U h) (ar_K h) (h_ri h)
                        [1; d 5; d 6; d 7; d 8 * 256 + d 9; d 10 * 256 + d 11] (h_adobe h) (h_nscans h))
           else ret h
         else
           (* examine_app14 *)
           if (numtoread >=? L_APP14_DATA_LEN) && starts_with [65; 100; 111; 98; 101] b then
             ret (mkhdr (saw_SOI h) (saw_SOF h) (h_frame h) (h_scan h) (dc_tbls h) (ac_tbls h) (q_tbls h)
                        (ar_L h) (ar_U h) (ar_K h) (h_ri h) (h_jfif h) [1; d 11] (h_nscans h))
           else ret h) ;;
  (if length >? 0 then skip_input length else ret tt) ;;;
  ret h'.

(* ------------------------------------------------------------- read_markers *)
Inductive step := Continue (h : hdr) | ReachedSOS (h : hdr) | ReachedEOI (h : hdr).

Fixpoint assocZ {B} (k : Z) (l : list (Z * B)) : option B :=
  match l with [] => None | (k', v) :: t => if k =? k' then Some v else assocZ k t end.

Definition cont (m : M hdr) : M step := h <- m ;; ret (Continue h).

(* the switch of read_markers *)
Definition dispatch (c : Z) (h : hdr) : M step :=
  if c =? M_SOI then cont (get_soi h) else
  match assocZ c sof_dispatch with
  | Some (p, l, a) => cont (get_sof p l a h)
  | None =>
    if existsb (Z.eqb c) sof_unsupported then fail E_SOF_UNSUPPORTED else
    if c =? M_SOS then (h' <- get_sos h ;; ret (ReachedSOS h')) else
    if c =? M_EOI then ret (ReachedEOI h) else
    if c =? M_DAC then cont (get_dac h) else
    if c =? M_DHT then cont (get_dht h) else
    if c =? M_DQT then cont (get_dqt h) else
    if c =? M_DRI then cont (get_dri h) else
    if (M_APP0 <=? c) && (c <=? M_APP15) then
      log (c - M_APP0) bound_process_APPn ;;;       (* process_APPn[unread_marker - M_APP0] *)
      if (c =? M_APP0) || (c =? M_APP14) then cont (get_interesting_appn c h)
      else (skip_variable ;;; ret (Continue h))
    else
    if c =? M_COM then (skip_variable ;;; ret (Continue h)) else
    if ((M_RST0 <=? c) && (c <=? M_RST7)) || (c =? M_TEM) then ret (Continue h) else
    if c =? M_DNL then (skip_variable ;;; ret (Continue h)) else
    fail E_UNKNOWN_MARKER
  end.

(* "for (;;)" of read_markers; unread_marker == 0 on entry *)
Fixpoint read_markers (fuel : nat) (h : hdr) : M step :=
  match fuel with
  | O => fail E_OUT_OF_FUEL
  | S k =>
      c <- (if saw_SOI h then next_marker else first_marker) ;;
      r <- dispatch c h ;;
      match r with
      | Continue h' => read_markers k h'
      | _ => ret r
      end
  end.

(* iterations needed: one per two bytes of real input, plus the fake EOI *)
Definition marker_fuel (s : io) : nat := Nat.div2 (length (real s)) + 3.

(* -------------------------------------------------------------- initial_setup *)
Definition div_round_up (a b : Z) : Z := (a + b - 1) / b.

Record setup := mksetup { su_maxh : Z; su_maxv : Z; su_wib : list Z; su_hib : list Z;
                          su_irows : Z; su_multi : bool }.

Fixpoint samp_check (cs : list comp) (mh mv : Z) : M (Z * Z) :=
  match cs with
  | [] => ret (mh, mv)
  | c :: t =>
      if (c_h c <=? 0) || (c_h c >? L_MAX_SAMP_FACTOR) || (c_v c <=? 0) || (c_v c >? L_MAX_SAMP_FACTOR)
      then fail E_BAD_SAMPLING
      else samp_check t (Z.max mh (c_h c)) (Z.max mv (c_v c))
  end.

Fixpoint comp_dims (cs : list comp) (ci : Z) (w hgt mh mv du : Z) : M (list Z * list Z) :=
  match cs with
  | [] => ret ([], [])
  | c :: t =>
      log ci bound_first_MCU_col ;;;                (* master->first_MCU_col[ci] / last_MCU_col[ci] *)
      '(ws, hs) <- comp_dims t (ci + 1) w hgt mh mv du ;;
      ret (div_round_up (w * c_h c) (mh * du) :: ws, div_round_up (hgt * c_v c) (mv * du) :: hs)
  end.

Definition initial_setup (h : hdr) : M setup :=
  let f := h_frame h in
  let du := if f_lossless f then 1 else L_DCTSIZE in
  if (f_height f >? L_JPEG_MAX_DIMENSION) || (f_width f >? L_JPEG_MAX_DIMENSION) then fail E_IMAGE_TOO_BIG else
  if (if f_lossless f then (f_prec f <? 2) || (f_prec f >? 16)
      else negb (f_prec f =? 8) && negb (f_prec f =? 12)) then fail E_BAD_PRECISION else
  if f_nc f >? L_MAX_COMPONENTS then fail E_COMPONENT_COUNT else
  '(mh, mv) <- samp_check (f_comps f) 1 1 ;;
  '(ws, hs) <- comp_dims (f_comps f) 0 (f_width f) (f_height f) mh mv du ;;
  ret (mksetup mh mv ws hs (div_round_up (f_height f) (mv * du))
               ((s_n (h_scan h) <? f_nc f) || f_prog f)).

(* default_decompress_parms (jdapimin.c): the only effect kept is WARNMS1(JWRN_ADOBE_XFORM) *)
Definition default_parms_warn (h : hdr) : M unit :=
  let nc := f_nc (h_frame h) in
  let sawj := nthd (h_jfif h) 0 0 in
  let sawa := nthd (h_adobe h) 0 0 in
  let tr := nthd (h_adobe h) 1 0 in
  if nc =? 3 then
    if negb (sawj =? 0) then ret tt
    else if negb (sawa =? 0) && negb (tr =? 0) && negb (tr =? 1) then warn else ret tt
  else if nc =? 4 then
    if negb (sawa =? 0) && negb (tr =? 0) && negb (tr =? 2) then warn else ret tt
  else ret tt.

(* ------------------------------------------------- consume_markers (headers) *)
Inductive outcome := HeaderOK (h : hdr) (su : setup) | TablesOnly (h : hdr).

Definition read_header : M outcome := fun s =>
  (r <- read_markers (marker_fuel s) hdr0 ;;
   match r with
   | ReachedSOS h => su <- initial_setup h ;; default_parms_warn h ;;; ret (HeaderOK h su)
   | ReachedEOI h => if saw_SOF h then fail E_SOF_NO_SOS else ret (TablesOnly h)
   | Continue h => fail E_OUT_OF_FUEL
   end) s.

(* jpeg_mem_src: "if (inbuffer == NULL || insize == 0) ERREXIT(JERR_INPUT_EMPTY)" *)
Definition io0 (data : list Z) (fk : bool) : io := mkio data fk false 0 0 0 [].
Definition read_header_mem (data : list Z) : res outcome :=
  match data with
  | [] => Fail E_INPUT_EMPTY (io0 [] true)
  | _ => read_header (io0 data true)
  end.
(* the same parser on a suspending source (jpeg_stdio_src-like, no fake EOI) *)
Definition read_header_susp (data : list Z) : res outcome := read_header (io0 data false).

(* --------------------------------------------------------- start_input_pass *)
Record scaninfo := mkscaninfo { si_mcus_per_row : Z; si_mcu_rows : Z; si_blocks : Z; si_member : list Z }.

Definition comp_at (h : hdr) (ci : Z) : comp := nthd (f_comps (h_frame h)) ci (mkcomp 0 0 0 0 0 0).

(* "while (mcublks-- > 0) MCU_membership[blocks_in_MCU++] = ci;" *)
Fixpoint member_fill (k : nat) (blocks ci : Z) : M (list Z) :=
  match k with
  | O => ret []
  | S k' => log blocks bound_MCU_membership ;;; r <- member_fill k' (blocks + 1) ci ;; ret (ci :: r)
  end.

Fixpoint psetup_loop (cur : list Z) (ci : Z) (h : hdr) (blocks : Z) : M (Z * list Z) :=
  match cur with
  | [] => ret (blocks, [])
  | cidx :: t =>
      log ci bound_cur_comp_info ;;;
      let c := comp_at h cidx in
      let mcublks := c_h c * c_v c in
      if blocks + mcublks >? L_D_MAX_BLOCKS_IN_MCU then fail E_BAD_MCU_SIZE else
      m1 <- member_fill (Z.to_nat mcublks) blocks ci ;;
      '(b, m2) <- psetup_loop t (ci + 1) h (blocks + mcublks) ;;
      ret (b, m1 ++ m2)
  end.

Definition per_scan_setup (h : hdr) (su : setup) : M scaninfo :=
  let f := h_frame h in let sc := h_scan h in
  let du := if f_lossless f then 1 else L_DCTSIZE in
  if s_n sc =? 1 then
    log 0 bound_cur_comp_info ;;;
    let cidx := nthd (s_cur sc) 0 0 in
    log 0 bound_MCU_membership ;;;
    ret (mkscaninfo (nthd (su_wib su) cidx 0) (nthd (su_hib su) cidx 0) 1 [0])
  else
    if (s_n sc <=? 0) || (s_n sc >? L_MAX_COMPS_IN_SCAN) then fail E_COMPONENT_COUNT else
    '(b, m) <- psetup_loop (s_cur sc) 0 h 0 ;;
    ret (mkscaninfo (div_round_up (f_width f) (su_maxh su * du))
                    (div_round_up (f_height f) (su_maxv su * du)) b m).

Fixpoint latch_loop (cur : list Z) (ci : Z) (h : hdr) : M unit :=
  match cur with
  | [] => ret tt
  | cidx :: t =>
      log ci bound_cur_comp_info ;;;
      let q := c_tq (comp_at h cidx) in
      if (q <? 0) || (q >=? L_NUM_QUANT_TBLS) then fail E_NO_QUANT_TABLE else
      log q bound_quant_tbl_ptrs ;;;
      match nthd (q_tbls h) q None with
      | None => fail E_NO_QUANT_TABLE
      | Some _ => latch_loop t (ci + 1) h
      end
  end.

(* jpeg_make_d_derived_tbl: table lookup + Huff.make_d_derived *)
Definition derive (h : hdr) (isDC : bool) (tblno : Z) : M dtbl :=
  if (tblno <? 0) || (tblno >=? L_NUM_HUFF_TBLS) then fail E_NO_HUFF_TABLE else
  log tblno (if isDC then bound_dc_huff_tbl_ptrs else bound_ac_huff_tbl_ptrs) ;;;
  match nthd (if isDC then dc_tbls h else ac_tbls h) tblno None with
  | None => fail E_NO_HUFF_TABLE
  | Some (bits, vals) =>
      match make_d_derived bits vals isDC (if f_lossless (h_frame h) then 16 else 15) with
      | None => fail E_BAD_HUFF_TABLE
      | Some d => ret d
      end
  end.

(* tables in use by the scan: (slot, derived table) *)
Definition used := list (bool * Z * dtbl).       (* isDC, table number, derived table *)

Fixpoint huff_tables (cur : list Z) (ci : Z) (h : hdr) : M used :=
  match cur with
  | [] => ret []
  | cidx :: t =>
      log ci bound_cur_comp_info ;;;
      let c := comp_at h cidx in
      d <- derive h true (c_td c) ;;
      log (c_td c) bound_dc_derived_tbls ;;;
      a <- derive h false (c_ta c) ;;
      log (c_ta c) bound_ac_derived_tbls ;;;
      log ci bound_last_dc_val ;;;
      r <- huff_tables t (ci + 1) h ;;
      ret ((true, c_td c, d) :: (false, c_ta c, a) :: r)
  end.

(* "for (blkn = 0; blkn < blocks_in_MCU; blkn++) { ci = MCU_membership[blkn]; compptr = cur_comp_info[ci];
      dc_cur_tbls[blkn] = dc_derived_tbls[compptr->dc_tbl_no]; ... }" *)
Fixpoint huff_blocks (member : list Z) (blkn : Z) (h : hdr) : M unit :=
  match member with
  | [] => ret tt
  | ci :: t =>
      log blkn bound_MCU_membership ;;;
      log ci bound_cur_comp_info ;;;
      let c := comp_at h (nthd (s_cur (h_scan h)) ci 0) in
      log (c_td c) bound_dc_derived_tbls ;;; log (c_ta c) bound_ac_derived_tbls ;;;
      log blkn bound_dc_cur_tbls ;;;
      huff_blocks t (blkn + 1) h
  end.

(* jinit_huff_decoder: std_huff_tables() fills the EMPTY dc/ac slots 0 and 1
   (add_huff_table keeps a table the datastream defined) *)
Definition pad256 (v : list Z) : list Z := v ++ repeat 0 (256 - length v).
Definition std_fill1 (dc ac : list (option htbl)) (e : bool * Z * list Z * list Z) :=
  match e with
  | (isdc, slot, bits, vals) =>
      if isdc then
        (match nthd dc slot None with None => updz slot (Some (bits, pad256 vals)) dc | Some _ => dc end, ac)
      else
        (dc, match nthd ac slot None with None => updz slot (Some (bits, pad256 vals)) ac | Some _ => ac end)
  end.
Definition std_fill (h : hdr) : hdr :=
  let '(dc, ac) := fold_left (fun p e => std_fill1 (fst p) (snd p) e) std_huff (dc_tbls h, ac_tbls h) in
  mkhdr (saw_SOI h) (saw_SOF h) (h_frame h) (h_scan h) dc ac (q_tbls h)
        (ar_L h) (ar_U h) (ar_K h) (h_ri h) (h_jfif h) (h_adobe h) (h_nscans h).

Definition start_pass_huff (h0 : hdr) (si : scaninfo) : M used :=
  let h := std_fill h0 in
  let sc := h_scan h in
  (if negb (s_Ss sc =? 0) || negb (s_Se sc =? L_DCTSIZE2 - 1) || negb (s_Ah sc =? 0) || negb (s_Al sc =? 0)
   then warn else ret tt) ;;;
  u <- huff_tables (s_cur sc) 0 h ;;
  huff_blocks (si_member si) 0 h ;;;
  ret u.

(* progression check shared by jdphuff.c and jdarith.c *)
Definition bad_progression (sc : scan) : bool :=
  (if s_Ss sc =? 0 then negb (s_Se sc =? 0)
   else (s_Ss sc >? s_Se sc) || (s_Se sc >=? L_DCTSIZE2) || negb (s_n sc =? 1))
  || (negb (s_Ah sc =? 0) && negb (s_Al sc =? s_Ah sc - 1))
  || (s_Al sc >? 13).

(* first scan: coef_bits[] are all -1, so per component: one warning for an AC scan,
   one per coefficient Ss..Se when Ah != 0 *)
Definition first_scan_prog_warnings (sc : scan) : Z :=
  s_n sc * ((if s_Ss sc =? 0 then 0 else 1) + (if s_Ah sc =? 0 then 0 else s_Se sc - s_Ss sc + 1)).

Fixpoint phuff_tables (cur : list Z) (ci : Z) (h : hdr) : M used :=
  match cur with
  | [] => ret []
  | cidx :: t =>
      log ci bound_cur_comp_info ;;;
      let c := comp_at h cidx in let sc := h_scan h in
      u <- (if s_Ss sc =? 0 then
              if s_Ah sc =? 0 then
                d <- derive h true (c_td c) ;; log (c_td c) bound_phuff_derived_tbls ;;; ret [(true, c_td c, d)]
              else ret []
            else
              a <- derive h false (c_ta c) ;; log (c_ta c) bound_phuff_derived_tbls ;;; ret [(false, c_ta c, a)]) ;;
      log ci bound_last_dc_val ;;;
      r <- phuff_tables t (ci + 1) h ;;
      ret (u ++ r)
  end.

Definition start_pass_phuff (h : hdr) : M used :=
  let sc := h_scan h in
  if bad_progression sc then fail E_BAD_PROGRESSION else
  warn_n (first_scan_prog_warnings sc) ;;;
  phuff_tables (s_cur sc) 0 h.

Fixpoint arith_tables (cur : list Z) (ci : Z) (h : hdr) : M unit :=
  match cur with
  | [] => ret tt
  | cidx :: t =>
      log ci bound_cur_comp_info ;;;
      let c := comp_at h cidx in let sc := h_scan h in let f := h_frame h in
      (if negb (f_prog f) || ((s_Ss sc =? 0) && (s_Ah sc =? 0)) then
         if (c_td c <? 0) || (c_td c >=? L_NUM_ARITH_TBLS) then fail E_NO_ARITH_TABLE
         else log (c_td c) bound_arith_dc_stats
       else ret tt) ;;;
      (if negb (f_prog f) || negb (s_Ss sc =? 0) then
         if (c_ta c <? 0) || (c_ta c >=? L_NUM_ARITH_TBLS) then fail E_NO_ARITH_TABLE
         else log (c_ta c) bound_arith_ac_stats
       else ret tt) ;;;
      arith_tables t (ci + 1) h
  end.

Definition start_pass_arith (h : hdr) : M used :=
  let sc := h_scan h in
  (if f_prog (h_frame h) then
     if bad_progression sc then fail E_BAD_PROGRESSION else warn_n (first_scan_prog_warnings sc)
   else
     if negb (s_Ss sc =? 0) || negb (s_Se sc =? L_DCTSIZE2 - 1) || negb (s_Ah sc =? 0) || negb (s_Al sc =? 0)
     then warn else ret tt) ;;;
  arith_tables (s_cur sc) 0 h ;;;
  ret [].

Fixpoint lhuff_tables (cur : list Z) (ci : Z) (h : hdr) : M used :=
  match cur with
  | [] => ret []
  | cidx :: t =>
      log ci bound_cur_comp_info ;;;
      let c := comp_at h cidx in
      d <- derive h true (c_td c) ;;
      log (c_td c) bound_lhuff_derived_tbls ;;;
      r <- lhuff_tables t (ci + 1) h ;;
      ret ((true, c_td c, d) :: r)
  end.

Definition start_pass_lossless (h : hdr) (si : scaninfo) : M unit :=
  let sc := h_scan h in
  if (s_Ss sc <? 1) || (s_Ss sc >? 7) || negb (s_Se sc =? 0) || negb (s_Ah sc =? 0)
     || (s_Al sc <? 0) || (s_Al sc >=? f_prec (h_frame h)) then fail E_BAD_PROGRESSION else
  if negb (h_ri h mod si_mcus_per_row si =? 0) then fail E_BAD_RESTART else ret tt.

(* master_selection (entropy-decoder choice) + inputctl->start_input_pass for the first scan *)
Definition start_input_pass (h : hdr) (su : setup) : M (scaninfo * used) :=
  let f := h_frame h in
  if f_lossless f && f_arith f then fail E_ARITH_NOTIMPL else
  si <- per_scan_setup h su ;;
  (if f_lossless f then ret tt else latch_loop (s_cur (h_scan h)) 0 h) ;;;
  u <- (if f_lossless f then
          u <- lhuff_tables (s_cur (h_scan h)) 0 h ;;
          log_range (Z.to_nat (si_blocks si)) 0 bound_dc_cur_tbls ;;;
          start_pass_lossless h si ;;; ret u
        else if f_arith f then start_pass_arith h
        else if f_prog f then start_pass_phuff h
        else start_pass_huff h si) ;;
  ret (si, u).

(* header + first scan set-up on a memory source (what jpeg_read_header followed
   by jpeg_start_decompress does before any entropy-coded byte is consumed) *)
Inductive started := Started (h : hdr) (su : setup) (si : scaninfo) (u : used) | OnlyTables (h : hdr).
Definition read_and_start (data : list Z) : res started :=
  match read_header_mem data with
  | Done (HeaderOK h su) s =>
      match start_input_pass h su s with
      | Done (si, u) s' => Done (Started h su si u) s'
      | Susp => Susp
      | Fail e s' => Fail e s'
      end
  | Done (TablesOnly h) s => Done (OnlyTables h) s
  | Susp => Susp
  | Fail e s => Fail e s
  end.

(* ------------------------------------------------ whole-stream marker level *)
(* After an SOS the entropy decoder consumes some bytes (possibly none, possibly up to
   the next marker, possibly resynchronising over restart markers) and the marker reader
   resumes at a later position.  ec abstracts that consumer: ANY function that only moves
   forward in the input.  decode_stream counts the scans until EOI. *)
Fixpoint decode_stream (ec : hdr -> io -> io) (fuel : nat) (h : hdr) (nsos : Z) (s : io) : res (hdr * Z) :=
  match fuel with
  | O => Fail E_OUT_OF_FUEL s
  | S k =>
      match read_markers (marker_fuel s) h s with
      | Done (ReachedSOS h') s' => decode_stream ec k h' (nsos + 1) (ec h' s')
      | Done (ReachedEOI h') s' => Done (h', nsos) s'
      | Done (Continue _) s' => Fail E_OUT_OF_FUEL s'
      | Susp => Susp
      | Fail e s' => Fail e s'
      end
  end.

(* ------------------------------------------ sequential Huffman block decoding *)
(* decode_mcu_slow, one block: DC symbol + extra bits, then
     for (k = 1; k < DCTSIZE2; k++) { s = HUFF_DECODE; r = s >> 4; s &= 15;
       if (s) { k += r; r = GET_BITS(s); block[jpeg_natural_order[k]] = HUFF_EXTEND(r, s); }
       else { if (r != 15) break; k += 15; } }
   Bits are an abstract list (after unstuffing; the "hit a marker => zero bits"
   rule only makes the list longer).  None = the bit source ran dry (suspension).
   Each store is recorded as (k, natural_order[k], value). *)
Definition huff_extend (x s : Z) : Z := if x <? 2 ^ (s - 1) then x - 2 ^ s + 1 else x.

Inductive blk_res := BlkDone (stores : list (Z * Z * Z)) (rest : list bool)
                   | BlkSusp (stores : list (Z * Z * Z))
                   | BlkFuel (stores : list (Z * Z * Z)).

Fixpoint ac_loop (fuel : nat) (t : dtbl) (k : Z) (bs : list bool) (acc : list (Z * Z * Z)) : blk_res :=
  if k <? L_DCTSIZE2 then
    match fuel with
    | O => BlkFuel acc
    | S f =>
        match decode_lookahead t bs with
        | None => BlkSusp acc
        | Some (sym, _, bs1) =>
            let r := sym / 16 in
            let s := sym mod 16 in
            if s =? 0 then
              if r =? 15 then ac_loop f t (k + 15 + 1) bs1 acc
              else BlkDone acc bs1
            else
              let k' := k + r in
              match take_code (Z.to_nat s) bs1 0 with
              | None => BlkSusp acc
              | Some (v, bs2) =>
                  ac_loop f t (k' + 1) bs2 ((k', nthd natural_order k' (-1), huff_extend v s) :: acc)
              end
        end
    end
  else BlkDone acc bs.

Definition decode_block (dct act : dtbl) (bs : list bool) : blk_res :=
  match decode_lookahead dct bs with
  | None => BlkSusp []
  | Some (s, _, bs1) =>
      match (if s =? 0 then Some (0, bs1) else take_code (Z.to_nat s) bs1 0) with
      | None => BlkSusp []
      | Some (v, bs2) =>
          let dc := if s =? 0 then 0 else huff_extend v s in
          ac_loop 64 act 1 bs2 [(0, 0, dc)]
      end
  end.

(* the coefficient block produced by the stores (later stores overwrite earlier ones) *)
Definition apply_stores (st : list (Z * Z * Z)) : list Z :=
  fold_right (fun p blk => updz (snd (fst p)) (snd p) blk) (repeat 0 64) st.
