(* C11 -- parameter histories on one decompression handle, and the C type of the row-pointer
   arithmetic.  No proofs.
   The cropping region is validated by tj3SetCroppingRegion (Extent.set_crop) against the image and
   scaling factor current AT THAT TIME; tj3Decompress8/12 (src/turbojpeg-mp.c) re-checks it against the
   image and scaling factor it actually uses:
     if (x != 0 || (w != 0 && w != scaledWidth)) {
       crop_x = x; crop_w = w; jpeg_crop_scanline(dinfo, &crop_x, &crop_w);
       if ((int)crop_x != x) THROWI(... left boundary);  if ((int)crop_w != w) THROWI(... width); }
     croppedHeight = (y != 0 || h != 0) ? h : output_height;
     [chk_bottom: y + h > output_height -> THROW]
     jpeg_skip_scanlines(y) must return y;  while (output_scanline < y + h) jpeg_read_scanlines(...)
   jdapistd.c jpeg_crop_scanline: error if width == 0 or xoffset + width > output_width;
     align = min_DCT_scaled_size * (single-component ? 1 : max_h_samp_factor);
     xoffset' = (xoffset / align) * align;  width' = width + xoffset - xoffset';  output_width = width'.
   chk_left / chk_width / chk_bottom say which of the checks the source under test has
   (tools/gen_Align.py). *)
From Coq Require Import List ZArith Bool.
From LJT Require Import model.Extent.
Import ListNotations.
Local Open Scope Z_scope.

Inductive dec_result :=
| Rejected                       (* returns -1 before anything is written *)
| Accepted (ow oh : Z)           (* returns 0 after writing oh rows of ow pixels *)
| NoReturn.                      (* the read loop never terminates *)

Definition crop_align (num den maxh : Z) (single : bool) : Z := (8 * num / den) * (if single then 1 else maxh).

Definition dec_recheck (chk_left chk_width chk_bottom : bool) (jw jh num den align : Z) (c : region) : dec_result :=
  let sw := tjscaled jw num den in
  let sh := tjscaled jh num den in
  let cropx := negb (r_x c =? 0) || (negb (r_w c =? 0) && negb (r_w c =? sw)) in
  let x' := (r_x c / align) * align in
  let w' := r_w c + r_x c - x' in
  if cropx && ((r_w c =? 0) || (sw <? r_x c + r_w c)) then Rejected else
  if cropx && chk_left && negb (x' =? r_x c) then Rejected else
  if cropx && chk_width && negb (w' =? r_w c) then Rejected else
  let ow := if cropx then w' else sw in
  if negb (r_y c =? 0) || negb (r_h c =? 0) then
    if chk_bottom && (sh <? r_y c + r_h c) then Rejected else
    if sh <? r_y c then Rejected                       (* jpeg_skip_scanlines returns sh <> y *)
    else if sh <? r_y c + r_h c then NoReturn          (* jpeg_read_scanlines keeps returning 0 *)
    else Accepted ow (r_h c)
  else Accepted ow sh.

(* a history: region requested against image A at scale 1, then scale 2 and image B *)
Definition hist_region (jwA jhA n1 d1 mcuwA : Z) (req : region) : region :=
  match set_crop jwA jhA n1 d1 mcuwA req with Some c => c | None => mkRegion 0 0 0 0 end.

(* ---- C arithmetic of row_pointer[i] = &buf[i * (size_t)pitch]: i and pitch are ints; the product is
   formed in an unsigned type of `bits` bits (size_t), resp. in a signed int of 32 bits when the cast
   is missing ---- *)
Definition wrap_unsigned (bits v : Z) : Z := v mod 2 ^ bits.
Definition wrap_int32 (v : Z) : Z := (v + 2 ^ 31) mod 2 ^ 32 - 2 ^ 31.
Definition row_ptr_c (bits base pitch h : Z) (bottomUp : bool) (i : Z) : Z :=
  base + wrap_unsigned bits ((if bottomUp then h - i - 1 else i) * pitch).
