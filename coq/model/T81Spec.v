(* T81Spec.v -- an executable transcription of ITU-T T.81 (JPEG part 1) written
   from the Recommendation, NOT from libjpeg-turbo's sources:
     Annex B   interchange format syntax  (markers, segments, length fields,
               B.1.1.2 fill bytes, B.1.1.5 byte stuffing, B.2.1 RSTm cadence)
     Annex A   A.1.1 component dimensions, A.2.3/A.2.4 MCU ordering, A.3.6 zig-zag
     Annex C   C.2 generation of HUFFSIZE / HUFFCODE, ordering of codes
     Annex F   F.1.2 sequential Huffman encoding, F.2.2 decoding: DECODE with
               MINCODE/MAXCODE/VALPTR (F.15/F.16), RECEIVE (F.17), EXTEND (F.12),
               F.1.2.3 padding with 1-bits, E.1.4 / F.2.1.3 restart intervals
   Three entry points:
     t81_parse  : list byte -> option stream   strict syntax checker (all processes
                  at the marker layer; ranges per Tables B.2 - B.7)
     t81_decode : stream -> option (list comp_coefs)   baseline / extended
                  sequential Huffman (SOF0, SOF1)
     t81_emit   : choices -> image -> list byte   a writer exposing the legal
                  freedoms of the syntax
   No proofs in this file (proofs/T81*.v).  Bytes and all numbers are Z. *)
From Coq Require Import List ZArith Bool Lia.
Import ListNotations.
Local Open Scope Z_scope.

(* ------------------------------------------------------------------ helpers *)
Definition nthZ (l : list Z) (i : Z) : Z := nth (Z.to_nat i) l 0.
Fixpoint sumZ (l : list Z) : Z := match l with [] => 0 | x :: t => x + sumZ t end.
Definition lenZ {A} (l : list A) : Z := Z.of_nat (length l).
Definition in_range (lo hi x : Z) : bool := (lo <=? x) && (x <=? hi).
Definition is_byte (x : Z) : bool := in_range 0 255 x.
Definition cdiv (a b : Z) : Z := (a + b - 1) / b.          (* ceiling, a >= 0, b > 0 *)
Definition b2z (b : bool) : Z := if b then 1 else 0.
Fixpoint maxZ (l : list Z) : Z := match l with [] => 0 | x :: t => Z.max x (maxZ t) end.
Definition zrange (n : Z) : list Z := map Z.of_nat (seq 0 (Z.to_nat n)).

(* ------------------------------------------------------------- marker codes *)
Definition M_SOI := 216. Definition M_EOI := 217. Definition M_SOS := 218.
Definition M_DQT := 219. Definition M_DNL := 220. Definition M_DRI := 221.
Definition M_DHT := 196. Definition M_DAC := 204. Definition M_COM := 254.
Definition M_APP0 := 224. Definition M_SOF0 := 192. Definition M_RST0 := 208.

(* ------------------------------------------------------ the segment language *)
Definition qtab := (Z * Z * list Z)%type.            (* Pq, Tq, Q_0..Q_63 (zig-zag order) *)
Definition htab := (Z * Z * list Z * list Z)%type.   (* Tc, Th, L_1..L_16, V_ij            *)
Definition fcomp := (Z * Z * Z * Z)%type.            (* C_i, H_i, V_i, Tq_i                *)
Definition scomp := (Z * Z * Z)%type.                (* Cs_j, Td_j, Ta_j                   *)

Inductive segment :=
| SegDQT (tabs : list qtab)
| SegDHT (tabs : list htab)
| SegDAC (tabs : list (Z * Z * Z))                   (* Tc, Tb, Cs *)
| SegDRI (ri : Z)
| SegAPP (n : Z) (payload : list Z)
| SegCOM (payload : list Z)
| SegSOF (n : Z) (p y x : Z) (comps : list fcomp)
| SegSOS (comps : list scomp) (ss se ah al : Z)
         (first : list Z)                            (* entropy-coded bytes of interval 0, UNSTUFFED *)
         (rest : list (nat * list Z)).               (* (fill before RSTm, bytes) of intervals 1.. *)

(* SOI, segments (each with the number of fill bytes before its marker), EOI *)
Record stream := { st_segs : list (nat * segment); st_eoi_fill : nat }.

(* ================================================================= WRITER === *)
Definition be16 (x : Z) : list Z := [x / 256; x mod 256].
Definition nib (hi lo : Z) : Z := hi * 16 + lo.
Definition marker (fill : nat) (code : Z) : list Z := repeat 255 fill ++ [255; code].
Definition with_len (payload : list Z) : list Z := be16 (lenZ payload + 2) ++ payload.

(* B.1.1.5: a zero byte follows every X'FF' of the entropy-coded data *)
Fixpoint stuff (d : list Z) : list Z :=
  match d with [] => [] | b :: t => if b =? 255 then 255 :: 0 :: stuff t else b :: stuff t end.

Definition emit_qt (t : qtab) : list Z :=
  let '(pq, tq, q) := t in nib pq tq :: (if pq =? 0 then q else flat_map be16 q).
Definition emit_ht (t : htab) : list Z :=
  let '(tc, th, counts, vals) := t in nib tc th :: counts ++ vals.
Definition emit_ac (t : Z * Z * Z) : list Z := let '(tc, tb, cs) := t in [nib tc tb; cs].
Definition emit_fcomp (c : fcomp) : list Z := let '(ci, h, v, tq) := c in [ci; nib h v; tq].
Definition emit_scomp (c : scomp) : list Z := let '(cs, td, ta) := c in [cs; nib td ta].

(* RSTm: m = interval number modulo 8, starting with RST0 *)
Fixpoint emit_rsts (k : Z) (rest : list (nat * list Z)) : list Z :=
  match rest with
  | [] => []
  | (f, d) :: t => marker f (M_RST0 + k mod 8) ++ stuff d ++ emit_rsts (k + 1) t
  end.

Definition seg_code (s : segment) : Z :=
  match s with
  | SegDQT _ => M_DQT | SegDHT _ => M_DHT | SegDAC _ => M_DAC | SegDRI _ => M_DRI
  | SegAPP n _ => M_APP0 + n | SegCOM _ => M_COM | SegSOF n _ _ _ _ => M_SOF0 + n
  | SegSOS _ _ _ _ _ _ _ => M_SOS
  end.

Definition seg_payload (s : segment) : list Z :=
  match s with
  | SegDQT tabs => flat_map emit_qt tabs
  | SegDHT tabs => flat_map emit_ht tabs
  | SegDAC tabs => flat_map emit_ac tabs
  | SegDRI ri => be16 ri
  | SegAPP _ p => p
  | SegCOM p => p
  | SegSOF _ p y x comps => p :: be16 y ++ be16 x ++ lenZ comps :: flat_map emit_fcomp comps
  | SegSOS comps ss se ah al _ _ => lenZ comps :: flat_map emit_scomp comps ++ [ss; se; nib ah al]
  end.

Definition seg_ecs (s : segment) : list Z :=
  match s with
  | SegSOS _ _ _ _ _ first rest => stuff first ++ emit_rsts 0 rest
  | _ => []
  end.

Definition emit_seg (fs : nat * segment) : list Z :=
  marker (fst fs) (seg_code (snd fs)) ++ with_len (seg_payload (snd fs)) ++ seg_ecs (snd fs).

Definition emit_tail (segs : list (nat * segment)) (e : nat) : list Z :=
  flat_map emit_seg segs ++ marker e M_EOI.

Definition emit_stream (s : stream) : list Z := 255 :: M_SOI :: emit_tail (st_segs s) (st_eoi_fill s).

(* ================================================================= PARSER === *)
(* B.1.1.2: a marker is X'FF' followed by a byte that is neither 0 nor X'FF';
   any number of X'FF' fill bytes may precede it *)
Fixpoint skip_ff (bs : list Z) : nat * list Z :=
  match bs with
  | b :: t => if b =? 255 then let '(n, r) := skip_ff t in (S n, r) else (O, bs)
  | [] => (O, [])
  end.

Definition read_marker (bs : list Z) : option (nat * Z * list Z) :=
  match skip_ff bs with
  | (S n, c :: r) => if c =? 0 then None else Some (n, c, r)
  | _ => None
  end.

Definition take (n : nat) (bs : list Z) : option (list Z * list Z) :=
  if (n <=? length bs)%nat then Some (firstn n bs, skipn n bs) else None.

(* a marker segment: 2-byte length (counting itself) then length-2 bytes *)
Definition read_payload (bs : list Z) : option (list Z * list Z) :=
  match bs with
  | h :: l :: r => let len := h * 256 + l in if len <? 2 then None else take (Z.to_nat (len - 2)) r
  | _ => None
  end.

Fixpoint be16s (bs : list Z) : option (list Z) :=
  match bs with
  | [] => Some []
  | h :: l :: t => match be16s t with Some r => Some (h * 256 + l :: r) | None => None end
  | _ => None
  end.

(* B.2.4.1: Lq = 2 + sum (65 + 64*Pq) : the tables must fill the segment exactly *)
Fixpoint parse_qts (fuel : nat) (bs : list Z) : option (list qtab) :=
  match bs with
  | [] => Some []
  | b :: r =>
    match fuel with O => None | S k =>
      let pq := b / 16 in let tq := b mod 16 in
      match take (if pq =? 0 then 64%nat else 128%nat) r with
      | None => None
      | Some (d, r') =>
        match (if pq =? 0 then Some d else be16s d) with
        | None => None
        | Some q => match parse_qts k r' with Some ts => Some ((pq, tq, q) :: ts) | None => None end
        end
      end
    end
  end.

(* B.2.4.2: Lh = 2 + sum (17 + m_t), m_t = sum L_i *)
Fixpoint parse_hts (fuel : nat) (bs : list Z) : option (list htab) :=
  match bs with
  | [] => Some []
  | b :: r =>
    match fuel with O => None | S k =>
      match take 16 r with
      | None => None
      | Some (counts, r1) =>
        match take (Z.to_nat (sumZ counts)) r1 with
        | None => None
        | Some (vals, r2) =>
          match parse_hts k r2 with Some ts => Some ((b / 16, b mod 16, counts, vals) :: ts) | None => None end
        end
      end
    end
  end.

Fixpoint parse_acs (bs : list Z) : option (list (Z * Z * Z)) :=
  match bs with
  | [] => Some []
  | b :: c :: t => match parse_acs t with Some r => Some ((b / 16, b mod 16, c) :: r) | None => None end
  | _ => None
  end.

Fixpoint parse_fcomps (bs : list Z) : option (list fcomp) :=
  match bs with
  | [] => Some []
  | c :: hv :: tq :: t =>
      match parse_fcomps t with Some r => Some ((c, hv / 16, hv mod 16, tq) :: r) | None => None end
  | _ => None
  end.

Fixpoint parse_scomps (bs : list Z) : option (list scomp) :=
  match bs with
  | [] => Some []
  | c :: tda :: t => match parse_scomps t with Some r => Some ((c, tda / 16, tda mod 16) :: r) | None => None end
  | _ => None
  end.

Definition is_sof_code (c : Z) : bool :=
  in_range 192 207 c && negb (c =? 196) && negb (c =? 200) && negb (c =? 204).

(* payload of a non-SOS marker segment *)
Definition parse_payload (c : Z) (p : list Z) : option segment :=
  if c =? M_DQT then option_map SegDQT (parse_qts (length p) p)
  else if c =? M_DHT then option_map SegDHT (parse_hts (length p) p)
  else if c =? M_DAC then option_map SegDAC (parse_acs p)
  else if c =? M_DRI then match p with [h; l] => Some (SegDRI (h * 256 + l)) | _ => None end
  else if in_range 224 239 c then Some (SegAPP (c - M_APP0) p)
  else if c =? M_COM then Some (SegCOM p)
  else if is_sof_code c then
    match p with
    | pr :: yh :: yl :: xh :: xl :: nf :: cs =>
        match parse_fcomps cs with
        | Some comps => if lenZ comps =? nf then Some (SegSOF (c - M_SOF0) pr (yh * 256 + yl) (xh * 256 + xl) comps)
                        else None
        | None => None
        end
    | _ => None
    end
  else None.

Definition parse_sos_hdr (p : list Z) : option (list scomp * Z * Z * Z * Z) :=
  match p with
  | ns :: r =>
    match take (Z.to_nat (2 * ns)) r with
    | Some (cs, [ss; se; a]) =>
        match parse_scomps cs with
        | Some comps => if lenZ comps =? ns then Some (comps, ss, se, a / 16, a mod 16) else None
        | None => None
        end
    | _ => None
    end
  | [] => None
  end.

(* entropy-coded segment: bytes up to (not including) the next marker;
   X'FF00' stands for the data byte X'FF' *)
Fixpoint read_ecs (bs : list Z) : list Z * list Z :=
  match bs with
  | [] => ([], [])
  | b :: t =>
    if b =? 255 then
      match t with
      | z :: t' => if z =? 0 then let '(d, r) := read_ecs t' in (255 :: d, r) else ([], bs)
      | [] => ([], bs)
      end
    else let '(d, r) := read_ecs t in (b :: d, r)
  end.

(* B.2.1 / E.1.4: the intervals are separated by RSTm, m = 0,1,..,7,0,.. ; any
   other RST number is a syntax error; any other marker ends the scan *)
Fixpoint read_rsts (fuel : nat) (k : Z) (bs : list Z) : option (list (nat * list Z) * list Z) :=
  match fuel with O => None | S f =>
    match read_marker bs with
    | None => None
    | Some (n, c, r) =>
      if in_range 208 215 c then
        if c =? M_RST0 + k mod 8 then
          let '(d, r') := read_ecs r in
          match read_rsts f (k + 1) r' with
          | Some (l, r'') => Some ((n, d) :: l, r'')
          | None => None
          end
        else None
      else Some ([], bs)
    end
  end.

Fixpoint parse_segs (fuel : nat) (bs : list Z) : option (list (nat * segment) * nat) :=
  match fuel with O => None | S f =>
    match read_marker bs with
    | None => None
    | Some (n, c, r) =>
      if c =? M_EOI then match r with [] => Some ([], n) | _ => None end
      else
        match read_payload r with
        | None => None
        | Some (p, r1) =>
          if c =? M_SOS then
            match parse_sos_hdr p with
            | None => None
            | Some (comps, ss, se, ah, al) =>
              let '(d0, r2) := read_ecs r1 in
              match read_rsts (length r2) 0 r2 with
              | None => None
              | Some (rest, r3) =>
                match parse_segs f r3 with
                | Some (l, e) => Some ((n, SegSOS comps ss se ah al d0 rest) :: l, e)
                | None => None
                end
              end
            end
          else
            match parse_payload c p with
            | None => None
            | Some s => match parse_segs f r1 with Some (l, e) => Some ((n, s) :: l, e) | None => None end
            end
        end
    end
  end.

Definition parse_raw (bs : list Z) : option stream :=
  match bs with
  | a :: b :: r =>
      if (a =? 255) && (b =? M_SOI) then
        match parse_segs (length r) r with
        | Some (l, e) => Some {| st_segs := l; st_eoi_fill := e |}
        | None => None
        end
      else None
  | _ => None
  end.

(* ================================================ validity (Tables B.2-B.7) === *)
Definition all_bytes (l : list Z) : bool := forallb is_byte l.

Definition qtab_ok (t : qtab) : bool :=
  let '(pq, tq, q) := t in
  in_range 0 1 pq && in_range 0 3 tq && (length q =? 64)%nat &&
  forallb (in_range 1 (if pq =? 0 then 255 else 65535)) q.

Definition htab_ok (t : htab) : bool :=
  let '(tc, th, counts, vals) := t in
  in_range 0 1 tc && in_range 0 3 th && (length counts =? 16)%nat && all_bytes counts &&
  (sumZ counts =? lenZ vals) && all_bytes vals.

(* context-free part: every field fits its syntax element and the ranges of
   Tables B.2 - B.7 that do not depend on the coding process *)
Definition seg_ok (s : segment) : bool :=
  match s with
  | SegDQT tabs => forallb qtab_ok tabs && negb (length tabs =? 0)%nat && (lenZ (seg_payload s) <=? 65533)
  | SegDHT tabs => forallb htab_ok tabs && negb (length tabs =? 0)%nat && (lenZ (seg_payload s) <=? 65533)
  | SegDAC tabs => forallb (fun t => let '(tc, tb, cs) := t in in_range 0 1 tc && in_range 0 3 tb && is_byte cs &&
                                      (if tc =? 0 then (cs mod 16 <=? cs / 16) else in_range 1 63 cs)) tabs &&
                   negb (length tabs =? 0)%nat && (lenZ (seg_payload s) <=? 65533)
  | SegDRI ri => in_range 0 65535 ri
  | SegAPP n p => in_range 0 15 n && all_bytes p && (lenZ p <=? 65533)
  | SegCOM p => all_bytes p && (lenZ p <=? 65533)
  | SegSOF n p y x comps =>
      is_sof_code (M_SOF0 + n) && in_range 2 16 p && in_range 1 65535 y && in_range 1 65535 x &&
      in_range 1 255 (lenZ comps) &&
      forallb (fun c => let '(ci, h, v, tq) := c in is_byte ci && in_range 1 4 h && in_range 1 4 v && in_range 0 3 tq) comps
  | SegSOS comps ss se ah al first rest =>
      in_range 1 4 (lenZ comps) &&
      forallb (fun c => let '(cs, td, ta) := c in is_byte cs && in_range 0 3 td && in_range 0 3 ta) comps &&
      is_byte ss && is_byte se && in_range 0 15 ah && in_range 0 15 al &&
      all_bytes first && forallb (fun fd => all_bytes (snd fd)) rest
  end.

(* ---- the order / context dependent part (B.2.1 high-level syntax, B.2.2, B.2.3) *)
Record vstate := {
  vs_sof : option (Z * Z * Z * Z * list fcomp);  (* n, P, Y, X, comps *)
  vs_q : list bool;                               (* quantization table destinations defined *)
  vs_dc : list bool; vs_ac : list bool;           (* Huffman table destinations defined *)
  vs_ri : Z;
  vs_scans : nat;
  vs_coded : list Z;                              (* component ids coded so far (sequential) *)
  vs_prog : list (Z * list Z)                     (* progressive: per component id, per coefficient the Al reached, -1 = not coded *)
}.
Definition vs0 : vstate :=
  {| vs_sof := None; vs_q := repeat false 4; vs_dc := repeat false 4; vs_ac := repeat false 4;
     vs_ri := 0; vs_scans := O; vs_coded := []; vs_prog := [] |}.

Fixpoint set_nth {A} (i : nat) (x : A) (l : list A) : list A :=
  match l, i with [], _ => [] | _ :: t, O => x :: t | h :: t, S k => h :: set_nth k x t end.
Definition getb (l : list bool) (i : Z) : bool := nth (Z.to_nat i) l false.
Fixpoint find_comp (comps : list fcomp) (id : Z) (i : nat) : option (nat * fcomp) :=
  match comps with
  | [] => None
  | c :: t => let '(ci, _, _, _) := c in if ci =? id then Some (i, c) else find_comp t id (S i)
  end.
Fixpoint nodupZ (l : list Z) : bool :=
  match l with [] => true | x :: t => negb (existsb (Z.eqb x) t) && nodupZ t end.
Fixpoint increasing (l : list nat) : bool :=
  match l with a :: ((b :: _) as t) => (a <? b)%nat && increasing t | _ => true end.

(* process classes from the SOF number *)
Definition sof_huffman (n : Z) : bool := n <? 8.
Definition sof_lossless (n : Z) : bool := (n mod 4 =? 3).
Definition sof_progressive (n : Z) : bool := (n mod 4 =? 2).
Definition sof_differential (n : Z) : bool := (n mod 8 >=? 5).

Definition scan_comps_ok (fc : list fcomp) (sc : list scomp) : bool :=
  (* every Cs_j names a frame component; order of the frame header; sum Hj*Vj <= 10 when Ns > 1 *)
  let found := map (fun c => let '(cs, _, _) := c in find_comp fc cs O) sc in
  forallb (fun o => match o with Some _ => true | None => false end) found &&
  increasing (flat_map (fun o => match o with Some (i, _) => [i] | None => [] end) found) &&
  ((length sc <=? 1)%nat ||
   (sumZ (map (fun o => match o with Some (_, (_, h, v, _)) => h * v | None => 0 end) found) <=? 10)).

(* G.1.1.1: a band is first coded with Ah = 0, each refinement has Ah = the previous Al; AC
   scans of a component come after its first DC scan *)
Fixpoint assoc_prog (l : list (Z * list Z)) (id : Z) : list Z :=
  match l with [] => repeat (-1) 64 | (k, v) :: t => if k =? id then v else assoc_prog t id end.
Definition prog_scan_ok (pg : list (Z * list Z)) (id ss se ah : Z) : bool :=
  let cur := assoc_prog pg id in
  ((ss =? 0) || negb (nthZ cur 0 =? -1)) &&
  forallb (fun k => if ah =? 0 then nthZ cur k =? -1 else nthZ cur k =? ah) (map (fun i => ss + i) (zrange (se - ss + 1))).
Definition prog_update (pg : list (Z * list Z)) (ids : list Z) (ss se al : Z) : list (Z * list Z) :=
  fold_left (fun acc id =>
               (id, map (fun kv : Z * Z => if (ss <=? fst kv) && (fst kv <=? se) then al else snd kv)
                        (combine (zrange 64) (assoc_prog acc id))) :: acc) ids pg.

Definition v_step (st : vstate) (s : segment) : option vstate :=
  match s with
  | SegDQT tabs =>
      Some {| vs_sof := vs_sof st;
              vs_q := fold_left (fun q (t : qtab) => let '(_, tq, _) := t in set_nth (Z.to_nat tq) true q) tabs (vs_q st);
              vs_dc := vs_dc st; vs_ac := vs_ac st; vs_ri := vs_ri st; vs_scans := vs_scans st; vs_coded := vs_coded st; vs_prog := vs_prog st |}
  | SegDHT tabs =>
      Some {| vs_sof := vs_sof st; vs_q := vs_q st;
              vs_dc := fold_left (fun d (t : htab) => let '(tc, th, _, _) := t in if tc =? 0 then set_nth (Z.to_nat th) true d else d) tabs (vs_dc st);
              vs_ac := fold_left (fun d (t : htab) => let '(tc, th, _, _) := t in if tc =? 1 then set_nth (Z.to_nat th) true d else d) tabs (vs_ac st);
              vs_ri := vs_ri st; vs_scans := vs_scans st; vs_coded := vs_coded st; vs_prog := vs_prog st |}
  | SegDAC _ => Some st
  | SegDRI ri =>
      Some {| vs_sof := vs_sof st; vs_q := vs_q st; vs_dc := vs_dc st; vs_ac := vs_ac st;
              vs_ri := ri; vs_scans := vs_scans st; vs_coded := vs_coded st; vs_prog := vs_prog st |}
  | SegAPP _ _ | SegCOM _ => Some st
  | SegSOF n p y x comps =>
      match vs_sof st with
      | Some _ => None                                   (* one frame (non-hierarchical) *)
      | None =>
        if negb (sof_differential n) &&
           (if n =? 0 then (p =? 8) else if sof_lossless n then true else (p =? 8) || (p =? 12)) &&
           (if sof_progressive n then lenZ comps <=? 4 else true) &&
           nodupZ (map (fun c : fcomp => let '(ci, _, _, _) := c in ci) comps) &&
           (if sof_lossless n then forallb (fun c : fcomp => let '(_, _, _, tq) := c in tq =? 0) comps else true)
        then Some {| vs_sof := Some (n, p, y, x, comps); vs_q := vs_q st; vs_dc := vs_dc st; vs_ac := vs_ac st;
                     vs_ri := vs_ri st; vs_scans := vs_scans st; vs_coded := vs_coded st; vs_prog := vs_prog st |}
        else None
      end
  | SegSOS sc ss se ah al first rest =>
      match vs_sof st with
      | None => None
      | Some (n, p, y, x, fc) =>
        let ids := map (fun c : scomp => let '(cs, _, _) := c in cs) sc in
        let tabmax := if n =? 0 then 1 else 3 in
        let spectral :=
          if sof_lossless n then in_range 1 7 ss && (se =? 0) && (ah =? 0)
          else if sof_progressive n then
            (if ss =? 0 then (se =? 0) else (length sc =? 1)%nat && (ss <=? se) && (se <=? 63)) &&
            in_range 0 13 ah && in_range 0 13 al && ((ah =? 0) || (ah =? al + 1))
          else (ss =? 0) && (se =? 63) && (ah =? 0) && (al =? 0) in
        let tables :=
          forallb (fun c : scomp => let '(cs, td, ta) := c in
            (td <=? tabmax) && (ta <=? tabmax) &&
            (if sof_lossless n then (ta =? 0) else true) &&
            (if sof_huffman n then
               (if sof_progressive n
                then (if ss =? 0 then (if ah =? 0 then getb (vs_dc st) td else true) else getb (vs_ac st) ta)
                else getb (vs_dc st) td && (sof_lossless n || getb (vs_ac st) ta))
             else true) &&
            (if sof_lossless n then true
             else match find_comp fc cs O with Some (_, (_, _, _, tq)) => getb (vs_q st) tq | None => false end)) sc in
        let fresh := if sof_progressive n then true
                     else forallb (fun id => negb (existsb (Z.eqb id) (vs_coded st))) ids in
        let approx := if sof_progressive n then forallb (fun id => prog_scan_ok (vs_prog st) id ss se ah) ids else true in
        if scan_comps_ok fc sc && nodupZ ids && spectral && tables && fresh && approx
        then Some {| vs_sof := vs_sof st; vs_q := vs_q st; vs_dc := vs_dc st; vs_ac := vs_ac st;
                     vs_ri := vs_ri st; vs_scans := S (vs_scans st); vs_coded := ids ++ vs_coded st;
                     vs_prog := if sof_progressive n then prog_update (vs_prog st) ids ss se al else vs_prog st |}
        else None
      end
  end.

Fixpoint v_walk (st : vstate) (segs : list (nat * segment)) : option vstate :=
  match segs with
  | [] => Some st
  | (_, s) :: t => match v_step st s with Some st' => v_walk st' t | None => None end
  end.

Definition is_sos (s : segment) : bool := match s with SegSOS _ _ _ _ _ _ _ => true | _ => false end.

(* baseline process (SOF0): 8-bit quantization tables, Huffman destinations 0..1 only *)
Definition baseline_tables_ok (s : segment) : bool :=
  match s with
  | SegDQT tabs => forallb (fun t : qtab => let '(pq, _, _) := t in pq =? 0) tabs
  | SegDHT tabs => forallb (fun t : htab => let '(_, th, _, _) := t in th <=? 1) tabs
  | SegDAC _ => false
  | _ => true
  end.

(* the whole stream: fields in range, order legal, last segment is a scan,
   every component of a sequential / lossless frame coded exactly once *)
Definition stream_ok (s : stream) : bool :=
  forallb (fun fs => seg_ok (snd fs)) (st_segs s) &&
  match v_walk vs0 (st_segs s) with
  | Some st =>
      match vs_sof st with
      | Some (n, _, _, _, fc) =>
          (negb (n =? 0) || forallb (fun fs => baseline_tables_ok (snd fs)) (st_segs s)) &&
          (0 <? vs_scans st)%nat && is_sos (snd (last (st_segs s) (O, SegCOM []))) &&
          (sof_progressive n || (length (vs_coded st) =? length fc)%nat)
      | None => false
      end
  | None => false
  end.

Definition t81_parse (bs : list Z) : option stream :=
  match parse_raw bs with
  | Some s => if stream_ok s then Some s else None
  | None => None
  end.

(* ============================================== Annex C: Huffman code tables === *)
(* Figure C.1: HUFFSIZE from BITS(1..16) *)
Fixpoint huffsize (counts : list Z) (l : Z) : list Z :=
  match counts with [] => [] | c :: t => repeat l (Z.to_nat c) ++ huffsize t (l + 1) end.

(* Figure C.2: HUFFCODE; the inner "CODE <<= 1, SI++ until HUFFSIZE(K) = SI" is
   the multiplication by 2^(s - si) *)
Fixpoint huffcode (sizes : list Z) (code si : Z) : list Z :=
  match sizes with
  | [] => []
  | s :: t => let c := code * 2 ^ (s - si) in c :: huffcode t (c + 1) s
  end.

Definition gen_codes (counts : list Z) : list Z * list Z :=
  let sizes := huffsize counts 1 in (sizes, huffcode sizes 0 (hd 0 sizes)).

(* code validity (C: "the codes shall be generated such that the all-1-bits code
   word of any length is reserved as a prefix for longer code words") *)
Definition codes_ok (sizes codes : list Z) : bool :=
  forallb (fun sc => fst sc + 1 <? 2 ^ snd sc) (combine codes sizes).

(* a code word (value c, length s) MSB first *)
Fixpoint bits_of (s : nat) (c : Z) : list bool :=
  match s with O => [] | S k => Z.testbit c (Z.of_nat k) :: bits_of k c end.

(* Figure C.3 ordering: EHUFCO / EHUFSI indexed by symbol; as an association *)
Fixpoint lookup_code (vals sizes codes : list Z) (sym : Z) : option (list bool) :=
  match vals, sizes, codes with
  | v :: vt, s :: st, c :: ct => if v =? sym then Some (bits_of (Z.to_nat s) c) else lookup_code vt st ct sym
  | _, _, _ => None
  end.

(* Figure F.15 Decoder_tables: per length I = 1..16: (MAXCODE, MINCODE, VALPTR) *)
Fixpoint dec_tables (counts codes : list Z) (j : Z) : list (Z * Z * Z) :=
  match counts with
  | [] => []
  | b :: t => if b =? 0 then (-1, 0, 0) :: dec_tables t codes j
              else (nthZ codes (j + b - 1), nthZ codes j, j) :: dec_tables t codes (j + b)
  end.

(* Figure F.16 DECODE *)
Fixpoint decode_sym (tabs : list (Z * Z * Z)) (vals : list Z) (code : Z) (bs : list bool)
  : option (Z * list bool) :=
  match tabs with
  | [] => None
  | (mx, mn, vp) :: t =>
    match bs with
    | [] => None
    | b :: r => let code' := 2 * code + b2z b in
                if code' >? mx then decode_sym t vals code' r
                else Some (nthZ vals (vp + code' - mn), r)
    end
  end.

Record hcoder := { hc_enc : Z -> option (list bool); hc_dec : list bool -> option (Z * list bool) }.

Definition mk_coder (counts vals : list Z) : hcoder :=
  let '(sizes, codes) := gen_codes counts in
  let tabs := dec_tables counts codes 0 in
  {| hc_enc := lookup_code vals sizes codes; hc_dec := decode_sym tabs vals 0 |}.

(* ========================================= F.1.2 / F.2.2 block coding (bits) === *)
(* category SSSS = number of bits of |v| (Tables F.1, F.2) *)
Fixpoint nbits_pos (p : positive) : Z :=
  match p with xH => 1 | xO q => 1 + nbits_pos q | xI q => 1 + nbits_pos q end.
Definition category (v : Z) : Z := match v with Z0 => 0 | Zpos p => nbits_pos p | Zneg p => nbits_pos p end.

(* F.1.2.1.1: the SSSS low-order bits of v (v >= 0) or of v - 1 (v < 0) *)
Definition extra_bits (v : Z) : list bool :=
  let s := category v in bits_of (Z.to_nat s) (if v <? 0 then v - 1 + 2 ^ s else v).

(* Figure F.17 RECEIVE *)
Fixpoint receive (n : nat) (acc : Z) (bs : list bool) : option (Z * list bool) :=
  match n with
  | O => Some (acc, bs)
  | S k => match bs with b :: r => receive k (2 * acc + b2z b) r | [] => None end
  end.

(* Figure F.12 EXTEND *)
Definition extend (v t : Z) : Z := if v <? 2 ^ (t - 1) then v + (- (2 ^ t)) + 1 else v.

Definition recv_ext (s : Z) (bs : list bool) : option (Z * list bool) :=
  if s =? 0 then Some (0, bs)
  else match receive (Z.to_nat s) 0 bs with Some (v, r) => Some (extend v s, r) | None => None end.

Section BlockCoding.
  Variable dcE acE : Z -> option (list bool).
  Variable dcD acD : list bool -> option (Z * list bool).

  (* Figure F.2 / F.3: run-length coding of ZZ(1..63) *)
  Fixpoint zrls (n : nat) : option (list bool) :=
    match n with
    | O => Some []
    | S k => match acE 240, zrls k with Some a, Some b => Some (a ++ b) | _, _ => None end
    end.

  Fixpoint enc_ac (zs : list Z) (run : Z) : option (list bool) :=
    match zs with
    | [] => if run >? 0 then acE 0 else Some []
    | z :: t =>
      if z =? 0 then enc_ac t (run + 1)
      else match zrls (Z.to_nat (run / 16)), acE (16 * (run mod 16) + category z), enc_ac t 0 with
           | Some a, Some b, Some c => Some (a ++ b ++ extra_bits z ++ c)
           | _, _, _ => None
           end
    end.

  (* F.1.2.1: DIFF = ZZ(0) - PRED *)
  Definition enc_block (pred : Z) (zz : list Z) : option (list bool) :=
    match zz with
    | [] => None
    | dc :: acs =>
      let diff := dc - pred in
      match dcE (category diff), enc_ac acs 0 with
      | Some a, Some b => Some (a ++ extra_bits diff ++ b)
      | _, _ => None
      end
    end.

  (* Figure F.13 Decode_AC_coefficients; rem = 64 - K coefficients still to place *)
  Fixpoint dec_ac (fuel : nat) (rem : Z) (bs : list bool) : option (list Z * list bool) :=
    if rem <=? 0 then Some ([], bs) else
    match fuel with O => None | S f =>
      match acD bs with
      | None => None
      | Some (rs, r) =>
        let ssss := rs mod 16 in let rrrr := rs / 16 in
        if ssss =? 0 then
          if rrrr =? 15 then
            if rem <=? 16 then None            (* ZRL running past ZZ(63) *)
            else match dec_ac f (rem - 16) r with
                 | Some (l, r') => Some (repeat 0 16 ++ l, r')
                 | None => None
                 end
          else if rrrr =? 0 then Some (repeat 0 (Z.to_nat rem), r)   (* EOB *)
          else None                             (* EOBn is progressive only *)
        else
          if rem <=? rrrr then None            (* run past ZZ(63) *)
          else match recv_ext ssss r with
               | None => None
               | Some (v, r1) =>
                 match dec_ac f (rem - rrrr - 1) r1 with
                 | Some (l, r') => Some (repeat 0 (Z.to_nat rrrr) ++ v :: l, r')
                 | None => None
                 end
               end
      end
    end.

  (* F.2.2.1 + F.2.2.2 *)
  Definition dec_block (pred : Z) (bs : list bool) : option (list Z * list bool) :=
    match dcD bs with
    | None => None
    | Some (t, r) =>
      match recv_ext t r with
      | None => None
      | Some (diff, r1) =>
        match dec_ac 64 63 r1 with
        | Some (acs, r2) => Some ((pred + diff) :: acs, r2)
        | None => None
        end
      end
    end.
End BlockCoding.

(* ============================== bit packing, F.1.2.3 padding with 1-bits === *)
Definition bits_to_z (l : list bool) : Z := fold_left (fun a b => 2 * a + b2z b) l 0.

Fixpoint pack (bs : list bool) : list Z :=
  match bs with
  | [] => []
  | b7 :: b6 :: b5 :: b4 :: b3 :: b2 :: b1 :: b0 :: t => bits_to_z [b7; b6; b5; b4; b3; b2; b1; b0] :: pack t
  | _ => [bits_to_z (firstn 8 (bs ++ repeat true 7))]
  end.

Definition unpack (d : list Z) : list bool := flat_map (bits_of 8) d.

(* ================================= scan = sequence of blocks, restart intervals === *)
(* one coded block: index of its component within the scan and its 64 coefficients *)
Definition coders := list (hcoder * hcoder).       (* per scan component: (DC, AC) *)

Definition coder_at (cs : coders) (j : nat) : hcoder * hcoder :=
  nth j cs ({| hc_enc := fun _ => None; hc_dec := fun _ => None |},
            {| hc_enc := fun _ => None; hc_dec := fun _ => None |}).

Fixpoint enc_blocks (cs : coders) (preds : list Z) (blocks : list (nat * list Z)) : option (list bool) :=
  match blocks with
  | [] => Some []
  | (j, zz) :: t =>
    let '(dc, ac) := coder_at cs j in
    match enc_block (hc_enc dc) (hc_enc ac) (nth j preds 0) zz,
          enc_blocks cs (set_nth j (hd 0 zz) preds) t with
    | Some a, Some b => Some (a ++ b)
    | _, _ => None
    end
  end.

Fixpoint dec_blocks (cs : coders) (preds : list Z) (js : list nat) (bs : list bool)
  : option (list (nat * list Z) * list bool) :=
  match js with
  | [] => Some ([], bs)
  | j :: t =>
    let '(dc, ac) := coder_at cs j in
    match dec_block (hc_dec dc) (hc_dec ac) (nth j preds 0) bs with
    | None => None
    | Some (zz, r) =>
      match dec_blocks cs (set_nth j (hd 0 zz) preds) t r with
      | Some (l, r') => Some ((j, zz) :: l, r')
      | None => None
      end
    end
  end.

(* one restart interval: predictions reset to 0 (F.1.1.5.1 / E.1.4), final byte
   completed with 1-bits; the decoder insists on at most 7 padding bits, all 1 *)
Definition enc_interval (cs : coders) (ncomp : nat) (blocks : list (nat * list Z)) : option (list Z) :=
  option_map pack (enc_blocks cs (repeat 0 ncomp) blocks).

Definition dec_interval (cs : coders) (ncomp : nat) (js : list nat) (d : list Z) : option (list (nat * list Z)) :=
  match dec_blocks cs (repeat 0 ncomp) js (unpack d) with
  | Some (l, r) => if (length r <? 8)%nat && forallb (fun b => b) r then Some l else None
  | None => None
  end.

(* split into intervals of n blocks (n = Ri * blocks per MCU; n = 0: one interval) *)
Fixpoint chunks {A} (fuel : nat) (n : Z) (l : list A) : list (list A) :=
  match fuel with
  | O => [l]
  | S f => if lenZ l <=? n then [l] else firstn (Z.to_nat n) l :: chunks f n (skipn (Z.to_nat n) l)
  end.
Definition intervals {A} (n : Z) (l : list A) : list (list A) :=
  if n <=? 0 then [l] else chunks (length l) n l.

Fixpoint map_opt {A B} (f : A -> option B) (l : list A) : option (list B) :=
  match l with
  | [] => Some []
  | x :: t => match f x, map_opt f t with Some y, Some r => Some (y :: r) | _, _ => None end
  end.

Definition enc_scan (cs : coders) (ncomp : nat) (per : Z) (blocks : list (nat * list Z)) : option (list (list Z)) :=
  map_opt (enc_interval cs ncomp) (intervals per blocks).

Fixpoint dec_intervals (cs : coders) (ncomp : nat) (jss : list (list nat)) (ds : list (list Z))
  : option (list (nat * list Z)) :=
  match jss, ds with
  | [], [] => Some []
  | js :: jt, d :: dt =>
    match dec_interval cs ncomp js d, dec_intervals cs ncomp jt dt with
    | Some a, Some b => Some (a ++ b)
    | _, _ => None
    end
  | _, _ => None        (* number of restart intervals differs from ceil(MCUs / Ri) *)
  end.

Definition dec_scan (cs : coders) (ncomp : nat) (per : Z) (js : list nat) (ds : list (list Z))
  : option (list (nat * list Z)) :=
  dec_intervals cs ncomp (intervals per js) ds.

(* ======================================= A.1.1, A.2.3, A.2.4 geometry / MCU order === *)

Record geom := { g_y : Z; g_x : Z; g_hmax : Z; g_vmax : Z }.
Definition geom_of (y x : Z) (fc : list fcomp) : geom :=
  {| g_y := y; g_x := x;
     g_hmax := maxZ (map (fun c : fcomp => let '(_, h, _, _) := c in h) fc);
     g_vmax := maxZ (map (fun c : fcomp => let '(_, _, v, _) := c in v) fc) |}.

(* A.1.1: x_i = ceil(X * H_i / Hmax); blocks = ceil(x_i / 8) *)
Definition comp_wb (g : geom) (h : Z) : Z := cdiv (cdiv (g_x g * h) (g_hmax g)) 8.
Definition comp_hb (g : geom) (v : Z) : Z := cdiv (cdiv (g_y g * v) (g_vmax g)) 8.
(* A.2.4: MCU columns / rows of an interleaved scan *)
Definition mcu_cols (g : geom) : Z := cdiv (g_x g) (8 * g_hmax g).
Definition mcu_rows (g : geom) : Z := cdiv (g_y g) (8 * g_vmax g).

(* block positions (scan component index j, block row, block column) in coding order *)
Definition scan_positions (g : geom) (hv : list (Z * Z)) : list (nat * Z * Z) :=
  match hv with
  | [(h, v)] =>      (* A.2.3 non-interleaved: the component's own blocks, raster order, MCU = 1 block *)
      flat_map (fun r => map (fun c => (O, r, c)) (zrange (comp_wb g h))) (zrange (comp_hb g v))
  | _ =>             (* A.2.4 interleaved *)
      flat_map (fun mr => flat_map (fun mc =>
        flat_map (fun jhv : nat * (Z * Z) => let '(j, (h, v)) := jhv in
          flat_map (fun dv => map (fun dh => (j, mr * v + dv, mc * h + dh)) (zrange h)) (zrange v))
          (combine (seq 0 (length hv)) hv)) (zrange (mcu_cols g))) (zrange (mcu_rows g))
  end.

Definition blocks_per_mcu (hv : list (Z * Z)) : Z :=
  match hv with [_] => 1 | _ => sumZ (map (fun p => fst p * snd p) hv) end.

(* array width (in blocks) a component has inside a scan: padded to whole MCUs when interleaved *)
Definition scan_wb (g : geom) (hv : list (Z * Z)) (h : Z) : Z :=
  match hv with [_] => comp_wb g h | _ => mcu_cols g * h end.
Definition scan_hb (g : geom) (hv : list (Z * Z)) (v : Z) : Z :=
  match hv with [_] => comp_hb g v | _ => mcu_rows g * v end.

(* ========================================================= A.3.6 zig-zag === *)
(* zz_nat[k] = natural (row-major) index of the k-th coefficient of the zig-zag sequence (Figure A.6) *)
Definition zz_nat : list Z :=
  [ 0;  1;  8; 16;  9;  2;  3; 10; 17; 24; 32; 25; 18; 11;  4;  5;
   12; 19; 26; 33; 40; 48; 41; 34; 27; 20; 13;  6;  7; 14; 21; 28;
   35; 42; 49; 56; 57; 50; 43; 36; 29; 22; 15; 23; 30; 37; 44; 51;
   58; 59; 52; 45; 38; 31; 39; 46; 53; 60; 61; 54; 47; 55; 62; 63].
(* inverse permutation: zig-zag position of natural index n *)
Definition nat_zz : list Z :=
  map (fun n => fold_left (fun acc k => if nthZ zz_nat k =? n then k else acc) (zrange 64) 0) (zrange 64).
Definition to_natural (zz : list Z) : list Z := map (fun n => nthZ zz (nthZ nat_zz n)) (zrange 64).
Definition to_zigzag (blk : list Z) : list Z := map (fun k => nthZ blk (nthZ zz_nat k)) (zrange 64).

(* ================================================================ DECODER === *)
Record dstate := {
  ds_sof : option (Z * Z * Z * Z * list fcomp);
  ds_dc : list (option hcoder); ds_ac : list (option hcoder);
  ds_ri : Z;
  ds_out : list (nat * Z * Z * list Z)      (* frame component index, block row, column, zig-zag block *)
}.
Definition ds0 : dstate :=
  {| ds_sof := None; ds_dc := repeat None 4; ds_ac := repeat None 4; ds_ri := 0; ds_out := [] |}.

Definition none_coder : hcoder := {| hc_enc := fun _ => None; hc_dec := fun _ => None |}.
Definition get_coder (l : list (option hcoder)) (i : Z) : hcoder :=
  match nth (Z.to_nat i) l None with Some c => c | None => none_coder end.

Definition install (tabs : list htab) (cls : Z) (l : list (option hcoder)) : list (option hcoder) :=
  fold_left (fun d (t : htab) => let '(tc, th, counts, vals) := t in
               if tc =? cls then set_nth (Z.to_nat th) (Some (mk_coder counts vals)) d else d) tabs l.

(* Huffman table specification check used by decoder and writer: the code
   lengths describe a code in which no word is all ones (Annex C) *)
Definition htab_code_ok (t : htab) : bool :=
  let '(_, _, counts, _) := t in
  forallb (fun x => 0 <=? x) counts && (let '(sizes, codes) := gen_codes counts in codes_ok sizes codes).

Definition scan_info (fc : list fcomp) (sc : list scomp) : option (list (nat * Z * Z * Z * Z)) :=
  (* per scan component: frame index, H, V, Td, Ta *)
  map_opt (fun c : scomp => let '(cs, td, ta) := c in
             match find_comp fc cs O with
             | Some (i, (_, h, v, _)) => Some (i, h, v, td, ta)
             | None => None
             end) sc.

(* everything a scan needs from the tables/frame state, shared by decoder and writer *)
Record scan_ctx := {
  sx_info : list (nat * Z * Z * Z * Z);
  sx_geom : geom;
  sx_hv : list (Z * Z);
  sx_coders : coders;
  sx_pos : list (nat * Z * Z);
  sx_per : Z
}.

Definition scan_setup (st : dstate) (sc : list scomp) : option scan_ctx :=
  match ds_sof st with
  | None => None
  | Some (n, p, y, x, fc) =>
    match scan_info fc sc with
    | None => None
    | Some info =>
      let g := geom_of y x fc in
      let hv := map (fun i : nat * Z * Z * Z * Z => let '(_, h, v, _, _) := i in (h, v)) info in
      Some {| sx_info := info; sx_geom := g; sx_hv := hv;
              sx_coders := map (fun i : nat * Z * Z * Z * Z => let '(_, _, _, td, ta) := i in
                                  (get_coder (ds_dc st) td, get_coder (ds_ac st) ta)) info;
              sx_pos := scan_positions g hv;
              sx_per := ds_ri st * blocks_per_mcu hv |}
    end
  end.

(* blocks of a scan, tagged with frame component index and block coordinates *)
Definition place (cx : scan_ctx) (blocks : list (nat * list Z)) : list (nat * Z * Z * list Z) :=
  map (fun pb : (nat * Z * Z) * (nat * list Z) =>
         let '((j, r, c), (_, zz)) := pb in
         let '(i, _, _, _, _) := nth j (sx_info cx) (O, 0, 0, 0, 0) in (i, r, c, zz))
      (combine (sx_pos cx) blocks).

Definition add_out (st : dstate) (placed : list (nat * Z * Z * list Z)) : dstate :=
  {| ds_sof := ds_sof st; ds_dc := ds_dc st; ds_ac := ds_ac st; ds_ri := ds_ri st; ds_out := ds_out st ++ placed |}.

Definition d_step (st : dstate) (s : segment) : option dstate :=
  match s with
  | SegDHT tabs =>
      if forallb htab_code_ok tabs then
        Some {| ds_sof := ds_sof st; ds_dc := install tabs 0 (ds_dc st); ds_ac := install tabs 1 (ds_ac st);
                ds_ri := ds_ri st; ds_out := ds_out st |}
      else None
  | SegDRI ri => Some {| ds_sof := ds_sof st; ds_dc := ds_dc st; ds_ac := ds_ac st; ds_ri := ri; ds_out := ds_out st |}
  | SegSOF n p y x comps =>
      if in_range 0 1 n then
        Some {| ds_sof := Some (n, p, y, x, comps); ds_dc := ds_dc st; ds_ac := ds_ac st; ds_ri := ds_ri st; ds_out := ds_out st |}
      else None                                  (* only sequential Huffman is decoded *)
  | SegSOS sc ss se ah al first rest =>
      match scan_setup st sc with
      | None => None
      | Some cx =>
        match dec_scan (sx_coders cx) (length sc) (sx_per cx)
                       (map (fun p : nat * Z * Z => let '(j, _, _) := p in j) (sx_pos cx))
                       (first :: map snd rest) with
        | None => None
        | Some blocks => Some (add_out st (place cx blocks))
        end
      end
  | _ => Some st
  end.

Fixpoint d_walk (st : dstate) (segs : list (nat * segment)) : option dstate :=
  match segs with
  | [] => Some st
  | (_, s) :: t => match d_step st s with Some st' => d_walk st' t | None => None end
  end.

Fixpoint find_block (out : list (nat * Z * Z * list Z)) (i : nat) (r c : Z) : option (list Z) :=
  match out with
  | [] => None
  | (i', r', c', zz) :: t => if (Nat.eqb i i') && (r =? r') && (c =? c') then Some zz else find_block t i r c
  end.

(* result: per frame component (width in blocks, height in blocks, blocks in
   raster order, each 64 coefficients in NATURAL order); blocks added only to
   complete an MCU are dropped *)
Definition comp_coefs := (Z * Z * list (list Z))%type.

Definition coefs_of_state (st : dstate) : option (list comp_coefs) :=
  match ds_sof st with
  | None => None
  | Some (n, p, y, x, fc) =>
    let g := geom_of y x fc in
    map_opt (fun ic : nat * fcomp =>
               let '(i, (_, h, v, _)) := ic in
               let wb := comp_wb g h in let hb := comp_hb g v in
               match map_opt (fun rc : Z * Z => option_map to_natural (find_block (ds_out st) i (fst rc) (snd rc)))
                             (flat_map (fun r => map (fun c => (r, c)) (zrange wb)) (zrange hb)) with
               | Some bl => Some (wb, hb, bl)
               | None => None
               end)
            (combine (seq 0 (length fc)) fc)
  end.

Definition t81_decode (s : stream) : option (list comp_coefs) :=
  match d_walk ds0 (st_segs s) with
  | None => None
  | Some st => coefs_of_state st
  end.

(* ================================================================= WRITER === *)
(* image: frame parameters and, per frame component, its blocks (natural order,
   64 coefficients each) in raster order over the block array the component has
   in ITS scan (scan_wb x scan_hb: padded to whole MCUs when the scan is interleaved) *)
Record image := { im_p : Z; im_y : Z; im_x : Z; im_comps : list fcomp; im_coefs : list (list (list Z)) }.

(* the legal freedoms: the writer is driven by an item list; tables, DRI, APPn,
   COM are given verbatim (any grouping, any destination, any order, repeated),
   each with its number of fill bytes; a scan names its components and table
   selectors and the fill before each of its RSTm *)
Inductive item :=
| IMisc (fill : nat) (s : segment)
| IFrame (fill : nat) (n : Z)
| IScan (fill : nat) (sc : list scomp) (rst_fill : list nat).
Record choices := { ch_items : list item; ch_eoi_fill : nat }.

(* the blocks the writer codes in a scan, in coding order *)
Definition scan_blocks (im : image) (cx : scan_ctx) : list (nat * list Z) :=
  map (fun p : nat * Z * Z =>
         let '(j, r, c) := p in
         let '(i, h, _, _, _) := nth j (sx_info cx) (O, 0, 0, 0, 0) in
         (j, to_zigzag (nth (Z.to_nat (r * scan_wb (sx_geom cx) (sx_hv cx) h + c)) (nth i (im_coefs im) []) [])))
      (sx_pos cx).

(* the writer threads the same state as the decoder: after a scan, ds_out records
   (component, row, column, block) of everything it has written *)
Definition w_step (im : image) (st : dstate) (it : item) : option (dstate * (nat * segment)) :=
  match it with
  | IMisc f s =>
      match s with
      | SegSOF _ _ _ _ _ | SegSOS _ _ _ _ _ _ _ => None
      | _ => match d_step st s with Some st' => Some (st', (f, s)) | None => None end
      end
  | IFrame f n =>
      let s := SegSOF n (im_p im) (im_y im) (im_x im) (im_comps im) in
      match d_step st s with Some st' => Some (st', (f, s)) | None => None end
  | IScan f sc rf =>
      match scan_setup st sc with
      | None => None
      | Some cx =>
        let blocks := scan_blocks im cx in
        match enc_scan (sx_coders cx) (length sc) (sx_per cx) blocks with
        | Some (d0 :: ds) =>
            Some (add_out st (place cx blocks),
                  (f, SegSOS sc 0 63 0 0 d0 (combine (map (fun k => nth k rf O) (seq 0 (length ds))) ds)))
        | _ => None
        end
      end
  end.

Fixpoint w_walk (im : image) (st : dstate) (its : list item) : option (list (nat * segment) * dstate) :=
  match its with
  | [] => Some ([], st)
  | it :: t =>
    match w_step im st it with
    | None => None
    | Some (st', fs) => match w_walk im st' t with Some (l, stf) => Some (fs :: l, stf) | None => None end
    end
  end.

Definition layout (ch : choices) (im : image) : option stream :=
  match w_walk im ds0 (ch_items ch) with
  | Some (segs, _) => Some {| st_segs := segs; st_eoi_fill := ch_eoi_fill ch |}
  | None => None
  end.

(* what the writer itself recorded as written: the coefficient arrays of the image
   restricted to the real blocks (used to state writer_sound for the entropy layer) *)
Definition written (ch : choices) (im : image) : option (list comp_coefs) :=
  match w_walk im ds0 (ch_items ch) with
  | Some (_, stf) => coefs_of_state stf
  | None => None
  end.

Definition t81_emit (ch : choices) (im : image) : option (list Z) := option_map emit_stream (layout ch im).

(* ============================================== quantization tables in effect === *)
(* B.2.4.1: a table stays defined until redefined; the decoder uses, for each component,
   the table at destination Tq_i that is current when the component's (first) scan starts.
   Result: per frame component, Q in NATURAL order. *)
Record qstate := { qs_tabs : list (option (list Z)); qs_fc : list fcomp; qs_latched : list (Z * list Z) }.
Definition qs0 : qstate := {| qs_tabs := repeat None 4; qs_fc := []; qs_latched := [] |}.

Fixpoint assocZ {A} (l : list (Z * A)) (k : Z) : option A :=
  match l with [] => None | (k', v) :: t => if k =? k' then Some v else assocZ t k end.

Definition q_step (st : qstate) (s : segment) : option qstate :=
  match s with
  | SegDQT tabs =>
      Some {| qs_tabs := fold_left (fun q (t : qtab) => let '(_, tq, v) := t in set_nth (Z.to_nat tq) (Some v) q) tabs (qs_tabs st);
              qs_fc := qs_fc st; qs_latched := qs_latched st |}
  | SegSOF _ _ _ _ comps => Some {| qs_tabs := qs_tabs st; qs_fc := comps; qs_latched := qs_latched st |}
  | SegSOS sc _ _ _ _ _ _ =>
      let step (acc : option (list (Z * list Z))) (c : scomp) :=
        match acc with
        | None => None
        | Some l =>
          let '(cs, _, _) := c in
          match assocZ l cs with
          | Some _ => Some l
          | None =>
            match find_comp (qs_fc st) cs O with
            | Some (_, (_, _, _, tq)) =>
                match nth (Z.to_nat tq) (qs_tabs st) None with Some q => Some (l ++ [(cs, q)]) | None => None end
            | None => None
            end
          end
        end in
      match fold_left step sc (Some (qs_latched st)) with
      | Some l => Some {| qs_tabs := qs_tabs st; qs_fc := qs_fc st; qs_latched := l |}
      | None => None
      end
  | _ => Some st
  end.

Fixpoint q_walk (st : qstate) (segs : list (nat * segment)) : option qstate :=
  match segs with
  | [] => Some st
  | (_, s) :: t => match q_step st s with Some st' => q_walk st' t | None => None end
  end.

Definition t81_qtables (s : stream) : option (list (list Z)) :=
  match q_walk qs0 (st_segs s) with
  | None => None
  | Some st => map_opt (fun c : fcomp => let '(ci, _, _, _) := c in option_map to_natural (assocZ (qs_latched st) ci)) (qs_fc st)
  end.

(* ==================================================== Annex H: lossless (SOF3) === *)
(* Spatial prediction (Table H.1), differences modulo 2^16 coded as Huffman category
   SSSS in 0..16 plus SSSS extra bits (none for 16: DIFF = 32768), point transform Pt,
   H.1.2.1 prediction at the start of a scan / restart interval, data unit = 1 sample.
   No theorems about this part: it is used only in the correspondence (->). *)
From Coq Require Import FMapPositive.
Module PM := PositiveMap.

Definition lget (m : PM.t Z) (w r c : Z) : Z :=
  match PM.find (Z.to_pos (r * w + c + 1)) m with Some v => v | None => 0 end.
Definition lset (m : PM.t Z) (w r c v : Z) : PM.t Z := PM.add (Z.to_pos (r * w + c + 1)) v m.

Definition predict (psv ra rb rc : Z) : Z :=
  if psv =? 1 then ra else if psv =? 2 then rb else if psv =? 3 then rc
  else if psv =? 4 then ra + rb - rc
  else if psv =? 5 then ra + (rb - rc) / 2
  else if psv =? 6 then rb + (ra - rc) / 2
  else (ra + rb) / 2.

(* sample dimensions: A.1.1 with data unit 1 *)
Definition comp_ws (g : geom) (h : Z) : Z := cdiv (g_x g * h) (g_hmax g).
Definition comp_hs (g : geom) (v : Z) : Z := cdiv (g_y g * v) (g_vmax g).
Definition lmcu_cols (g : geom) : Z := cdiv (g_x g) (g_hmax g).
Definition lmcu_rows (g : geom) : Z := cdiv (g_y g) (g_vmax g).

(* MCUs of a lossless scan, each a list of (scan comp index, row, col) *)
Definition lscan_mcus (g : geom) (hv : list (Z * Z)) : list (list (nat * Z * Z)) :=
  match hv with
  | [(h, v)] => flat_map (fun r => map (fun c => [(O, r, c)]) (zrange (comp_ws g h))) (zrange (comp_hs g v))
  | _ =>
      flat_map (fun mr => map (fun mc =>
        flat_map (fun jhv : nat * (Z * Z) => let '(j, (h, v)) := jhv in
          flat_map (fun dv => map (fun dh => (j, mr * v + dv, mc * h + dh)) (zrange h)) (zrange v))
          (combine (seq 0 (length hv)) hv)) (zrange (lmcu_cols g))) (zrange (lmcu_rows g))
  end.
Definition lscan_w (g : geom) (hv : list (Z * Z)) (h : Z) : Z :=
  match hv with [_] => comp_ws g h | _ => lmcu_cols g * h end.

(* one difference: F.16 DECODE of SSSS, then RECEIVE/EXTEND (H.2) *)
Definition dec_diff (c : hcoder) (bs : list bool) : option (Z * list bool) :=
  match hc_dec c bs with
  | None => None
  | Some (t, r) => if t =? 16 then Some (32768, r) else if t >? 16 then None else recv_ext t r
  end.

(* arrays : per scan component, (width, map) ; row0 : per scan component first row of the interval *)
Fixpoint ldec_samples (cs : list hcoder) (ws : list Z) (psv p pt : Z) (row0 : list Z)
         (pos : list (nat * Z * Z)) (arrs : list (PM.t Z)) (bs : list bool)
  : option (list (PM.t Z) * list bool) :=
  match pos with
  | [] => Some (arrs, bs)
  | (j, r, c) :: t =>
    let m := nth j arrs (PM.empty Z) in let w := nth j ws 1 in
    let px := if r =? nth j row0 0 then (if c =? 0 then 2 ^ (p - pt - 1) else lget m w r (c - 1))
              else if c =? 0 then lget m w (r - 1) c
              else predict psv (lget m w r (c - 1)) (lget m w (r - 1) c) (lget m w (r - 1) (c - 1)) in
    match dec_diff (nth j cs none_coder) bs with
    | None => None
    | Some (d, rest) => ldec_samples cs ws psv p pt row0 t (set_nth j (lset m w r c ((px + d) mod 65536)) arrs) rest
    end
  end.

(* intervals: list of MCU lists; the first row of an interval for component j is the row of
   the first position of that component in the interval *)
Definition first_rows (ncomp : nat) (pos : list (nat * Z * Z)) : list Z :=
  map (fun j => match find (fun p : nat * Z * Z => let '(j', _, _) := p in Nat.eqb j j') pos with
                | Some (_, r, _) => r | None => 0 end) (seq 0 ncomp).

Fixpoint ldec_intervals (cs : list hcoder) (ws : list Z) (psv p pt : Z) (ncomp : nat)
         (ivs : list (list (nat * Z * Z))) (ds : list (list Z)) (arrs : list (PM.t Z)) : option (list (PM.t Z)) :=
  match ivs, ds with
  | [], [] => Some arrs
  | pos :: it, d :: dt =>
    match ldec_samples cs ws psv p pt (first_rows ncomp pos) pos arrs (unpack d) with
    | Some (arrs', r) =>
        if (length r <? 8)%nat && forallb (fun b => b) r then ldec_intervals cs ws psv p pt ncomp it dt arrs' else None
    | None => None
    end
  | _, _ => None
  end.

Record lstate := {
  ls_sof : option (Z * Z * Z * list fcomp);            (* P, Y, X, comps *)
  ls_dc : list (option hcoder); ls_ri : Z;
  ls_out : list (nat * Z * Z * PM.t Z)                  (* frame comp index, array width, Pt, samples *)
}.
Definition ls0 : lstate := {| ls_sof := None; ls_dc := repeat None 4; ls_ri := 0; ls_out := [] |}.

Definition l_step (st : lstate) (s : segment) : option lstate :=
  match s with
  | SegDHT tabs =>
      if forallb htab_code_ok tabs then
        Some {| ls_sof := ls_sof st; ls_dc := install tabs 0 (ls_dc st); ls_ri := ls_ri st; ls_out := ls_out st |}
      else None
  | SegDRI ri => Some {| ls_sof := ls_sof st; ls_dc := ls_dc st; ls_ri := ri; ls_out := ls_out st |}
  | SegSOF n p y x comps =>
      if n =? 3 then Some {| ls_sof := Some (p, y, x, comps); ls_dc := ls_dc st; ls_ri := ls_ri st; ls_out := ls_out st |}
      else None
  | SegSOS sc ss se ah al first rest =>
      match ls_sof st with
      | None => None
      | Some (p, y, x, fc) =>
        match scan_info fc sc with
        | None => None
        | Some info =>
          let g := geom_of y x fc in
          let hv := map (fun i : nat * Z * Z * Z * Z => let '(_, h, v, _, _) := i in (h, v)) info in
          let cs := map (fun i : nat * Z * Z * Z * Z => let '(_, _, _, td, _) := i in get_coder (ls_dc st) td) info in
          let ws := map (fun q : Z * Z => lscan_w g hv (fst q)) hv in
          let mcus := lscan_mcus g hv in
          (* H.1.2.1: the restart interval is a multiple of the MCUs in a line *)
          let per_line := match hv with [(h, _)] => comp_ws g h | _ => lmcu_cols g end in
          if negb (ls_ri st mod per_line =? 0) then None else
          let ivs := map (fun l => concat l) (intervals (ls_ri st) mcus) in
          match ldec_intervals cs ws ss p al (length sc) ivs (first :: map snd rest)
                               (repeat (PM.empty Z) (length sc)) with
          | None => None
          | Some arrs =>
            Some {| ls_sof := ls_sof st; ls_dc := ls_dc st; ls_ri := ls_ri st;
                    ls_out := ls_out st ++
                      map (fun ja : (nat * Z * Z * Z * Z) * (Z * PM.t Z) =>
                             let '((i, _, _, _, _), (w, m)) := ja in (i, w, al, m)) (combine info (combine ws arrs)) |}
          end
        end
      end
  | _ => Some st
  end.

Fixpoint l_walk (st : lstate) (segs : list (nat * segment)) : option lstate :=
  match segs with
  | [] => Some st
  | (_, s) :: t => match l_step st s with Some st' => l_walk st' t | None => None end
  end.

(* per frame component: width, height, samples (raster, after the inverse point transform) *)
Definition t81_decode_lossless (s : stream) : option (list (Z * Z * list Z)) :=
  match l_walk ls0 (st_segs s) with
  | None => None
  | Some st =>
    match ls_sof st with
    | None => None
    | Some (p, y, x, fc) =>
      let g := geom_of y x fc in
      map_opt (fun ic : nat * fcomp =>
                 let '(i, (_, h, v, _)) := ic in
                 match find (fun o : nat * Z * Z * PM.t Z => let '(i', _, _, _) := o in Nat.eqb i i') (ls_out st) with
                 | None => None
                 | Some (_, w, pt, m) =>
                     Some (comp_ws g h, comp_hs g v,
                           flat_map (fun r => map (fun c => lget m w r c * 2 ^ pt) (zrange (comp_ws g h))) (zrange (comp_hs g v)))
                 end)
              (combine (seq 0 (length fc)) fc)
    end
  end.

(* ======================================= Annex G: progressive DCT, Huffman (SOF2) === *)
(* G.1.2: DC first / refinement scans, AC first scans with EOBn runs, AC successive
   approximation refinement with correction bits.  Coefficients of the whole frame are
   kept per component in a map keyed by (block, zig-zag index).  No theorems about this
   part: it is used only in the correspondence (->). *)
Definition pkey (w r c k : Z) : positive := Z.to_pos ((r * w + c) * 64 + k + 1).
Definition pget (m : PM.t Z) (w r c k : Z) : Z := match PM.find (pkey w r c k) m with Some v => v | None => 0 end.
Definition pset (m : PM.t Z) (w r c k v : Z) : PM.t Z := PM.add (pkey w r c k) v m.

Definition read_bit (bs : list bool) : option (Z * list bool) :=
  match bs with b :: r => Some (b2z b, r) | [] => None end.

(* G.1.2.2 Figure G.3-like: AC first scan of one block, band k..se *)
Fixpoint pac_first (fuel : nat) (ac : hcoder) (m : PM.t Z) (w r c se al k : Z) (bs : list bool)
  : option (PM.t Z * Z * list bool) :=          (* map, EOBRUN left after this block, bits *)
  if k >? se then Some (m, 0, bs) else
  match fuel with O => None | S f =>
    match hc_dec ac bs with
    | None => None
    | Some (rs, r1) =>
      let ssss := rs mod 16 in let rrrr := rs / 16 in
      if ssss =? 0 then
        if rrrr =? 15 then (if k + 16 >? se then None else pac_first f ac m w r c se al (k + 16) r1)
        else match receive (Z.to_nat rrrr) 0 r1 with
             | None => None
             | Some (extra, r2) => Some (m, 2 ^ rrrr + extra - 1, r2)      (* EOBn: this block is the first of the run *)
             end
      else
        if k + rrrr >? se then None else
        match recv_ext ssss r1 with
        | None => None
        | Some (v, r2) => pac_first f ac (pset m w r c (k + rrrr) (v * 2 ^ al)) w r c se al (k + rrrr + 1) r2
        end
    end
  end.

(* correction bits for the already non-zero coefficients k..se (rest of band / EOB run) *)
Fixpoint pcorrect (fuel : nat) (m : PM.t Z) (w r c se p1 k : Z) (bs : list bool) : option (PM.t Z * list bool) :=
  if k >? se then Some (m, bs) else
  match fuel with O => None | S f =>
    let v := pget m w r c k in
    if v =? 0 then pcorrect f m w r c se p1 (k + 1) bs
    else match read_bit bs with
         | None => None
         | Some (b, r1) =>
             pcorrect f (if b =? 1 then pset m w r c k (if v >=? 0 then v + p1 else v - p1) else m) w r c se p1 (k + 1) r1
         end
  end.

(* skip rcnt zero-history coefficients, correcting the non-zero ones on the way;
   stops AT the (rcnt+1)-th zero-history coefficient (true) or past the band (false) *)
Fixpoint padvance (fuel : nat) (m : PM.t Z) (w r c se p1 k rcnt : Z) (bs : list bool)
  : option (PM.t Z * Z * bool * list bool) :=
  if k >? se then Some (m, k, false, bs) else
  match fuel with O => None | S f =>
    let v := pget m w r c k in
    if v =? 0 then
      if rcnt =? 0 then Some (m, k, true, bs) else padvance f m w r c se p1 (k + 1) (rcnt - 1) bs
    else match read_bit bs with
         | None => None
         | Some (b, r1) =>
             padvance f (if b =? 1 then pset m w r c k (if v >=? 0 then v + p1 else v - p1) else m) w r c se p1 (k + 1) rcnt r1
         end
  end.

(* G.1.2.3: AC refinement scan of one block (EOBRUN = 0 on entry) *)
Fixpoint pac_refine (fuel : nat) (ac : hcoder) (m : PM.t Z) (w r c se p1 k : Z) (bs : list bool)
  : option (PM.t Z * Z * list bool) :=
  if k >? se then Some (m, 0, bs) else
  match fuel with O => None | S f =>
    match hc_dec ac bs with
    | None => None
    | Some (rs, r1) =>
      let ssss := rs mod 16 in let rrrr := rs / 16 in
      if (ssss =? 0) && negb (rrrr =? 15) then
        match receive (Z.to_nat rrrr) 0 r1 with
        | None => None
        | Some (extra, r2) =>
          match pcorrect 64 m w r c se p1 k r2 with
          | Some (m', r3) => Some (m', 2 ^ rrrr + extra - 1, r3)
          | None => None
          end
        end
      else if ssss >? 1 then None
      else
        match (if ssss =? 1 then read_bit r1 else Some (0, r1)) with
        | None => None
        | Some (sign, r2) =>
          match padvance 64 m w r c se p1 k rrrr r2 with
          | None => None
          | Some (m', k', reached, r3) =>
            if negb reached then None
            else pac_refine f ac (if ssss =? 1 then pset m' w r c k' (if sign =? 1 then p1 else - p1) else m')
                            w r c se p1 (k' + 1) r3
          end
        end
    end
  end.

Record pscan := { ps_ss : Z; ps_se : Z; ps_ah : Z; ps_al : Z }.

(* blocks of one restart interval; st = (arrays per scan comp, preds, eobrun) *)
Fixpoint pdec_blocks (sp : pscan) (cs : coders) (ws : list Z) (pos : list (nat * Z * Z))
         (arrs : list (PM.t Z)) (preds : list Z) (eobrun : Z) (bs : list bool)
  : option (list (PM.t Z) * list bool) :=
  match pos with
  | [] => if eobrun =? 0 then Some (arrs, bs) else None      (* an EOB run may not cross the interval end *)
  | (j, r, c) :: t =>
    let m := nth j arrs (PM.empty Z) in let w := nth j ws 1 in
    let '(dc, ac) := coder_at cs j in
    if ps_ss sp =? 0 then
      if ps_ah sp =? 0 then
        match hc_dec dc bs with
        | None => None
        | Some (cat, r1) =>
          match recv_ext cat r1 with
          | None => None
          | Some (diff, r2) =>
            let p := nth j preds 0 + diff in
            pdec_blocks sp cs ws t (set_nth j (pset m w r c 0 (p * 2 ^ ps_al sp)) arrs) (set_nth j p preds) 0 r2
          end
        end
      else
        match read_bit bs with
        | None => None
        | Some (b, r1) =>
          pdec_blocks sp cs ws t (set_nth j (pset m w r c 0 (pget m w r c 0 + b * 2 ^ ps_al sp)) arrs) preds 0 r1
        end
    else
      if eobrun >? 0 then
        if ps_ah sp =? 0 then pdec_blocks sp cs ws t arrs preds (eobrun - 1) bs
        else match pcorrect 64 m w r c (ps_se sp) (2 ^ ps_al sp) (ps_ss sp) bs with
             | None => None
             | Some (m', r1) => pdec_blocks sp cs ws t (set_nth j m' arrs) preds (eobrun - 1) r1
             end
      else
        match (if ps_ah sp =? 0 then pac_first 64 ac m w r c (ps_se sp) (ps_al sp) (ps_ss sp) bs
               else pac_refine 64 ac m w r c (ps_se sp) (2 ^ ps_al sp) (ps_ss sp) bs) with
        | None => None
        | Some (m', run, r1) => pdec_blocks sp cs ws t (set_nth j m' arrs) preds run r1
        end
  end.

Fixpoint pdec_intervals (sp : pscan) (cs : coders) (ws : list Z) (ncomp : nat)
         (ivs : list (list (nat * Z * Z))) (ds : list (list Z)) (arrs : list (PM.t Z)) : option (list (PM.t Z)) :=
  match ivs, ds with
  | [], [] => Some arrs
  | pos :: it, d :: dt =>
    match pdec_blocks sp cs ws pos arrs (repeat 0 ncomp) 0 (unpack d) with
    | Some (arrs', r) =>
        if (length r <? 8)%nat && forallb (fun b => b) r then pdec_intervals sp cs ws ncomp it dt arrs' else None
    | None => None
    end
  | _, _ => None
  end.

Record pstate := {
  pp_sof : option (Z * Z * Z * list fcomp);
  pp_dc : list (option hcoder); pp_ac : list (option hcoder); pp_ri : Z;
  pp_arr : list (PM.t Z)                                (* per FRAME component, width mcu_cols * H *)
}.
Definition pp0 : pstate := {| pp_sof := None; pp_dc := repeat None 4; pp_ac := repeat None 4; pp_ri := 0; pp_arr := [] |}.

Definition p_step (st : pstate) (s : segment) : option pstate :=
  match s with
  | SegDHT tabs =>
      if forallb htab_code_ok tabs then
        Some {| pp_sof := pp_sof st; pp_dc := install tabs 0 (pp_dc st); pp_ac := install tabs 1 (pp_ac st);
                pp_ri := pp_ri st; pp_arr := pp_arr st |}
      else None
  | SegDRI ri => Some {| pp_sof := pp_sof st; pp_dc := pp_dc st; pp_ac := pp_ac st; pp_ri := ri; pp_arr := pp_arr st |}
  | SegSOF n p y x comps =>
      if n =? 2 then Some {| pp_sof := Some (p, y, x, comps); pp_dc := pp_dc st; pp_ac := pp_ac st; pp_ri := pp_ri st;
                             pp_arr := repeat (PM.empty Z) (length comps) |}
      else None
  | SegSOS sc ss se ah al first rest =>
      match pp_sof st with
      | None => None
      | Some (p, y, x, fc) =>
        match scan_info fc sc with
        | None => None
        | Some info =>
          let g := geom_of y x fc in
          let hv := map (fun i : nat * Z * Z * Z * Z => let '(_, h, v, _, _) := i in (h, v)) info in
          let cs := map (fun i : nat * Z * Z * Z * Z => let '(_, _, _, td, ta) := i in
                           (get_coder (pp_dc st) td, get_coder (pp_ac st) ta)) info in
          let ws := map (fun q : Z * Z => mcu_cols g * fst q) hv in
          let pos := scan_positions g hv in
          let ivs := intervals (pp_ri st * blocks_per_mcu hv) pos in
          let arrs := map (fun i : nat * Z * Z * Z * Z => let '(fi, _, _, _, _) := i in nth fi (pp_arr st) (PM.empty Z)) info in
          match pdec_intervals {| ps_ss := ss; ps_se := se; ps_ah := ah; ps_al := al |} cs ws (length sc) ivs
                               (first :: map snd rest) arrs with
          | None => None
          | Some arrs' =>
            Some {| pp_sof := pp_sof st; pp_dc := pp_dc st; pp_ac := pp_ac st; pp_ri := pp_ri st;
                    pp_arr := fold_left (fun a (ia : (nat * Z * Z * Z * Z) * PM.t Z) =>
                                           let '((fi, _, _, _, _), m) := ia in set_nth fi m a)
                                        (combine info arrs') (pp_arr st) |}
          end
        end
      end
  | _ => Some st
  end.

Fixpoint p_walk (st : pstate) (segs : list (nat * segment)) : option pstate :=
  match segs with
  | [] => Some st
  | (_, s) :: t => match p_step st s with Some st' => p_walk st' t | None => None end
  end.

Definition t81_decode_progressive (s : stream) : option (list comp_coefs) :=
  match p_walk pp0 (st_segs s) with
  | None => None
  | Some st =>
    match pp_sof st with
    | None => None
    | Some (p, y, x, fc) =>
      let g := geom_of y x fc in
      Some (map (fun ic : nat * fcomp =>
                   let '(i, (_, h, v, _)) := ic in
                   let m := nth i (pp_arr st) (PM.empty Z) in let w := mcu_cols g * h in
                   (comp_wb g h, comp_hb g v,
                    flat_map (fun r => map (fun c => to_natural (map (fun k => pget m w r c k) (zrange 64)))
                                           (zrange (comp_wb g h))) (zrange (comp_hb g v))))
                (combine (seq 0 (length fc)) fc))
    end
  end.

(* ------------------------------------------------------------ lossless writer *)
(* H.1.2: DIFF = (sample>>Pt - Px) mod 2^16 as a value in -32767..32768; SSSS = 16 for 32768 *)
Definition ldiff (s px : Z) : Z := let d := (s - px) mod 65536 in if d >? 32768 then d - 65536 else d.
Definition enc_diff (c : hcoder) (d : Z) : option (list bool) :=
  if d =? 32768 then hc_enc c 16
  else match hc_enc c (category d) with Some b => Some (b ++ extra_bits d) | None => None end.

(* the predictions use only samples coded before (H.1.2.1: Ra, Rb, Rc are reconstructed
   neighbours), so the encoder tracks the same arrays as the decoder: src = all samples of
   the scan components (point-transformed), coded = those coded so far *)
Fixpoint lenc_samples (cs : list hcoder) (ws : list Z) (psv p pt : Z) (row0 : list Z)
         (pos : list (nat * Z * Z)) (src coded : list (PM.t Z)) : option (list bool * list (PM.t Z)) :=
  match pos with
  | [] => Some ([], coded)
  | (j, r, c) :: t =>
    let m := nth j coded (PM.empty Z) in let w := nth j ws 1 in
    let s := lget (nth j src (PM.empty Z)) w r c in
    let px := if r =? nth j row0 0 then (if c =? 0 then 2 ^ (p - pt - 1) else lget m w r (c - 1))
              else if c =? 0 then lget m w (r - 1) c
              else predict psv (lget m w r (c - 1)) (lget m w (r - 1) c) (lget m w (r - 1) (c - 1)) in
    match enc_diff (nth j cs none_coder) (ldiff s px) with
    | None => None
    | Some a =>
      match lenc_samples cs ws psv p pt row0 t src (set_nth j (lset m w r c s) coded) with
      | Some (b, coded') => Some (a ++ b, coded')
      | None => None
      end
    end
  end.

Fixpoint lenc_intervals (cs : list hcoder) (ws : list Z) (psv p pt : Z) (ncomp : nat)
         (ivs : list (list (nat * Z * Z))) (src coded : list (PM.t Z)) : option (list (list Z) * list (PM.t Z)) :=
  match ivs with
  | [] => Some ([], coded)
  | pos :: it =>
    match lenc_samples cs ws psv p pt (first_rows ncomp pos) pos src coded with
    | None => None
    | Some (bits, coded1) =>
      match lenc_intervals cs ws psv p pt ncomp it src coded1 with
      | Some (ds, coded') => Some (pack bits :: ds, coded')
      | None => None
      end
    end
  end.

Record limage := { li_p : Z; li_y : Z; li_x : Z; li_comps : list fcomp; li_samples : list (list Z) }.
Inductive litem :=
| LMisc (fill : nat) (s : segment)
| LFrame (fill : nat)
| LScan (fill : nat) (sc : list scomp) (psv pt : Z) (rst_fill : list nat).

Definition pm_of_list (l : list Z) (pt : Z) : PM.t Z :=
  snd (fold_left (fun (a : positive * PM.t Z) v => (Pos.succ (fst a), PM.add (fst a) (v / 2 ^ pt) (snd a))) l (1%positive, PM.empty Z)).

Definition lw_step (im : limage) (st : lstate) (it : litem) : option (lstate * (nat * segment)) :=
  match it with
  | LMisc f s =>
      match s with
      | SegSOF _ _ _ _ _ | SegSOS _ _ _ _ _ _ _ => None
      | _ => match l_step st s with Some st' => Some (st', (f, s)) | None => None end
      end
  | LFrame f =>
      let s := SegSOF 3 (li_p im) (li_y im) (li_x im) (li_comps im) in
      match l_step st s with Some st' => Some (st', (f, s)) | None => None end
  | LScan f sc psv pt rf =>
      match ls_sof st with
      | None => None
      | Some (p, y, x, fc) =>
        match scan_info fc sc with
        | None => None
        | Some info =>
          let g := geom_of y x fc in
          let hv := map (fun i : nat * Z * Z * Z * Z => let '(_, h, v, _, _) := i in (h, v)) info in
          let cs := map (fun i : nat * Z * Z * Z * Z => let '(_, _, _, td, _) := i in get_coder (ls_dc st) td) info in
          let ws := map (fun q : Z * Z => lscan_w g hv (fst q)) hv in
          let src := map (fun i : nat * Z * Z * Z * Z => let '(fi, _, _, _, _) := i in
                            pm_of_list (nth fi (li_samples im) []) pt) info in
          let ivs := map (fun l => concat l) (intervals (ls_ri st) (lscan_mcus g hv)) in
          if negb (ls_ri st mod (match hv with [(h, _)] => comp_ws g h | _ => lmcu_cols g end) =? 0) then None else
          match lenc_intervals cs ws psv p pt (length sc) ivs src (repeat (PM.empty Z) (length sc)) with
          | Some (d0 :: ds, coded) =>
              Some ({| ls_sof := ls_sof st; ls_dc := ls_dc st; ls_ri := ls_ri st;
                       ls_out := ls_out st ++
                         map (fun ja : (nat * Z * Z * Z * Z) * (Z * PM.t Z) =>
                                let '((i, _, _, _, _), (w, m)) := ja in (i, w, pt, m)) (combine info (combine ws coded)) |},
                    (f, SegSOS sc psv 0 0 pt d0 (combine (map (fun k => nth k rf O) (seq 0 (length ds))) ds)))
          | _ => None
          end
        end
      end
  end.

Fixpoint lw_walk (im : limage) (st : lstate) (its : list litem) : option (list (nat * segment)) :=
  match its with
  | [] => Some []
  | it :: t =>
    match lw_step im st it with
    | None => None
    | Some (st', fs) => match lw_walk im st' t with Some l => Some (fs :: l) | None => None end
    end
  end.

Definition t81_emit_lossless (its : list litem) (eoi_fill : nat) (im : limage) : option (list Z) :=
  match lw_walk im ls0 its with
  | Some segs => Some (emit_stream {| st_segs := segs; st_eoi_fill := eoi_fill |})
  | None => None
  end.

(* ============== Annex G.1.2: a spec-level progressive Huffman WRITER (block level) === *)
(* Legal but simple: every block ends its own EOB run (EOB0), correction bits follow the
   symbol whose run passes them (G.1.2.3).  src holds the final coefficients (same keys as
   the decoder's arrays).  Used to state the Annex G round trip (proofs/T81ProgWriterProofs.v). *)
Definition pt_mag (v al : Z) : Z := if v <? 0 then - ((- v) / 2 ^ al) else v / 2 ^ al.

Definition pband (src : PM.t Z) (w r c ss se al : Z) : list Z :=
  map (fun i => pt_mag (pget src w r c (ss + i)) al) (zrange (se - ss + 1)).

Fixpoint wr_band (m : PM.t Z) (w r c k al : Z) (vs : list Z) : PM.t Z :=
  match vs with
  | [] => m
  | v :: t => wr_band (if v =? 0 then m else pset m w r c k (v * 2 ^ al)) w r c (k + 1) al t
  end.

(* AC first scan, one block: F.1.2.2 run-length coding of the point-transformed band *)
Definition penc_ac_first (ac : hcoder) (src : PM.t Z) (w r c ss se al : Z) : option (list bool) :=
  enc_ac (hc_enc ac) (pband src w r c ss se al) 0.

(* AC refinement: per band index (|ZZ(k)| >> Al, ZZ(k) < 0) *)
Definition pabs (src : PM.t Z) (w r c ss se al : Z) : list (Z * bool) :=
  map (fun i => let v := pget src w r c (ss + i) in (Z.abs v / 2 ^ al, v <? 0)) (zrange (se - ss + 1)).
Definition has_new (l : list (Z * bool)) : bool := existsb (fun p => fst p =? 1) l.
Definition corr_bits (l : list (Z * bool)) : list bool :=
  flat_map (fun p : Z * bool => if 2 <=? fst p then [Z.odd (fst p)] else []) l.

Fixpoint enc_ref (acE : Z -> option (list bool)) (l : list (Z * bool)) (top : bool) (z : Z) (br : list bool)
  : option (list bool) :=
  match l with
  | [] => Some []
  | (a, neg) :: t =>
    if top && negb (has_new l) then
      match acE 0 with Some e => Some (e ++ corr_bits l) | None => None end          (* EOB0 + correction bits *)
    else if a =? 0 then
      if z =? 15 then
        match acE 240, enc_ref acE t false 0 [] with Some zr, Some b => Some (zr ++ br ++ b) | _, _ => None end
      else enc_ref acE t false (z + 1) br
    else if a =? 1 then
      match acE (16 * z + 1), enc_ref acE t true 0 [] with
      | Some s, Some b => Some (s ++ [negb neg] ++ br ++ b)
      | _, _ => None
      end
    else enc_ref acE t false z (br ++ [Z.odd a])
  end.

Definition penc_ac_refine (ac : hcoder) (src : PM.t Z) (w r c ss se al : Z) : option (list bool) :=
  enc_ref (hc_enc ac) (pabs src w r c ss se al) true 0 [].

(* the arrays after the refinement of a band described by l, starting at index k *)
Fixpoint wr_ref (m : PM.t Z) (w r c k p1 : Z) (l : list (Z * bool)) : PM.t Z :=
  match l with
  | [] => m
  | (a, neg) :: t =>
    let v := pget m w r c k in
    let m1 := if a =? 1 then pset m w r c k (if neg then - p1 else p1)
              else if (2 <=? a) && Z.odd a then pset m w r c k (if v >=? 0 then v + p1 else v - p1)
              else m in
    wr_ref m1 w r c (k + 1) p1 t
  end.
