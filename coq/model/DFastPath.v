(* DFastPath.v -- byte-level model of the UNCHECKED Huffman fast path of jdhuff.c (C01):
     GET_BYTE (incl. the FF/00 stuffing and the "FF xx = marker" back-out), FILL_BIT_BUFFER_FAST
     (6 bytes when bits_left <= 16), HUFF_DECODE_FAST (jdhuff.h), decode_mcu_fast (DC, AC loop with
     k += r and the store at natural_order[k]) and the switch of decode_mcu
       "bytes_in_buffer < BUFSIZE * blocks_in_MCU || unread_marker != 0 => slow path".
   The source is the list of bytes at next_input_byte; EVERY index the code dereferences is recorded
   (f_reads), as is the number of refills.  No proofs here. *)
From Coq Require Import List ZArith Bool Lia.
From LJT Require Import gen.GenLimits model.Huff model.DMarkers.
Import ListNotations.
Local Open Scope Z_scope.

Record fstate := mkf {
  f_src : list Z;          (* bytes at next_input_byte (bytes_in_buffer = length) *)
  f_pos : Z;               (* buffer - next_input_byte *)
  f_bits : list bool;      (* get_buffer: the bits_left valid bits, MSB first *)
  f_marker : bool;         (* cinfo->unread_marker != 0 *)
  f_reads : list Z;        (* every index i for which the code evaluated buffer[i] *)
  f_fills : Z              (* executions of the body of FILL_BIT_BUFFER_FAST *)
}.

(* GET_BYTE: c0 = *buffer++; c1 = *buffer; if (c0 == 0xFF) { buffer++; if (c1 != 0) { marker; buffer -= 2; zero bits } } *)
Definition get_byte_fast (s : fstate) : fstate :=
  let c0 := nthd (f_src s) (f_pos s) 0 in
  let c1 := nthd (f_src s) (f_pos s + 1) 0 in
  let reads := (f_pos s + 1) :: f_pos s :: f_reads s in
  if c0 =? 255 then
    if c1 =? 0 then mkf (f_src s) (f_pos s + 2) (f_bits s ++ bits_of 8 255) (f_marker s) reads (f_fills s)
    else mkf (f_src s) (f_pos s) (f_bits s ++ repeat false 8) true reads (f_fills s)
  else mkf (f_src s) (f_pos s + 1) (f_bits s ++ bits_of 8 c0) (f_marker s) reads (f_fills s).

(* FILL_BIT_BUFFER_FAST (64-bit holding register): if (bits_left <= 16) { GET_BYTE x 6 } *)
Definition fill_fast (s : fstate) : fstate :=
  if (length (f_bits s) <=? 16)%nat then
    let s6 := get_byte_fast (get_byte_fast (get_byte_fast (get_byte_fast (get_byte_fast (get_byte_fast s))))) in
    mkf (f_src s6) (f_pos s6) (f_bits s6) (f_marker s6) (f_reads s6) (f_fills s6 + 1)
  else s.

Definition set_bits (s : fstate) (b : list bool) : fstate :=
  mkf (f_src s) (f_pos s) b (f_marker s) (f_reads s) (f_fills s).

(* HUFF_DECODE_FAST: refill, 8-bit look-ahead, else the bit-serial loop from 9 bits (= Huff.decode_lookahead
   on the holding register).  None = the register ran dry (shift by a negative count in C). *)
Definition huff_decode_fast (t : dtbl) (s : fstate) : option (Z * fstate) :=
  let s1 := fill_fast s in
  match decode_lookahead t (f_bits s1) with
  | Some (sym, _, rest) => Some (sym, set_bits s1 rest)
  | None => None
  end.

(* "FILL_BIT_BUFFER_FAST; r = GET_BITS(n)" *)
Definition get_bits_fast (n : Z) (s : fstate) : option (Z * fstate) :=
  let s1 := fill_fast s in
  match take_code (Z.to_nat n) (f_bits s1) 0 with
  | Some (v, rest) => Some (v, set_bits s1 rest)
  | None => None
  end.

Inductive fres := FDone (stores : list (Z * Z * Z)) (s : fstate) | FStuck | FFuel.

Fixpoint ac_loop_fast (fuel : nat) (t : dtbl) (k : Z) (s : fstate) (acc : list (Z * Z * Z)) : fres :=
  if k <? L_DCTSIZE2 then
    match fuel with
    | O => FFuel
    | S f =>
        match huff_decode_fast t s with
        | None => FStuck
        | Some (sym, s1) =>
            let r := sym / 16 in
            let sz := sym mod 16 in
            if sz =? 0 then
              if r =? 15 then ac_loop_fast f t (k + 15 + 1) s1 acc
              else FDone acc s1
            else
              let k' := k + r in
              match get_bits_fast sz s1 with
              | None => FStuck
              | Some (v, s2) => ac_loop_fast f t (k' + 1) s2 ((k', nthd natural_order k' (-1), huff_extend v sz) :: acc)
              end
        end
    end
  else FDone acc s.

Definition decode_block_fast (dct act : dtbl) (s : fstate) : fres :=
  match huff_decode_fast dct s with
  | None => FStuck
  | Some (sz, s1) =>
      match (if sz =? 0 then Some (0, s1) else get_bits_fast sz s1) with
      | None => FStuck
      | Some (v, s2) => ac_loop_fast 64 act 1 s2 [(0, 0, if sz =? 0 then 0 else huff_extend v sz)]
      end
  end.

(* decode_mcu_fast: the blocks of one MCU, each with its (DC, AC) derived tables *)
Fixpoint decode_mcu_fast (tbls : list (dtbl * dtbl)) (s : fstate) (out : list (list (Z * Z * Z))) : option (list (list (Z * Z * Z)) * fstate) :=
  match tbls with
  | [] => Some (rev out, s)
  | (d, a) :: t =>
      match decode_block_fast d a s with
      | FDone st s' => decode_mcu_fast t s' (st :: out)
      | _ => None
      end
  end.

(* decode_mcu: "if (cinfo->restart_interval) usefast = 0;
                if (src->bytes_in_buffer < BUFSIZE * blocks_in_MCU || cinfo->unread_marker != 0) usefast = 0;" *)
Definition use_fast (restart_interval bytes_in_buffer blocks : Z) (unread_marker : bool) : bool :=
  negb (negb (restart_interval =? 0)) && negb ((bytes_in_buffer <? L_BUFSIZE * blocks) || unread_marker).

Definition fstate0 (src : list Z) (bits : list bool) : fstate := mkf src 0 bits false [] 0.
