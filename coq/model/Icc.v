(* Icc.v -- executable model of jcicc.c jpeg_write_icc_profile and jdicc.c
   marker_is_icc / jpeg_read_icc_profile (C16).  Same loop structure and the same order
   of checks as the C text; the three arrays marker_present[], data_length[],
   data_offset[] are functions of the sequence number; the malloc'ed output buffer is a
   list that pass 2 overwrites piecewise (splice).  No proofs here. *)
From Coq Require Import List ZArith Bool.
From LJT Require Import lib.Sweep gen.GenIccConst model.MarkerRT.
Import ListNotations.
Local Open Scope Z_scope.

(* ------------------------------------------------------------------ writer *)
(* num_markers = icc_data_len / MAX_DATA_BYTES_IN_MARKER, rounded up *)
Definition icc_num_markers (len : Z) : Z :=
  let n := len / W_MAX_DATA_BYTES_IN_MARKER in
  if n * W_MAX_DATA_BYTES_IN_MARKER =? len then n else n + 1.

(* one iteration of "while (icc_data_len > 0)" per unit of fuel.
   None = ERREXIT from jpeg_write_m_header (JERR_BAD_LENGTH) or fuel exhausted. *)
Fixpoint write_icc_loop (fuel : nat) (data : list Z) (cur num : Z) : option (list segment) :=
  match data with
  | [] => Some []
  | _ :: _ =>
      match fuel with
      | O => None
      | S f =>
          let length := Z.min (Zlength data) W_MAX_DATA_BYTES_IN_MARKER in
          match write_marker_header W_ICC_MARKER (length + W_ICC_OVERHEAD_LEN) with
          | None => None
          | Some _ =>
              match write_icc_loop f (skipn (Z.to_nat length) data) (cur + 1) num with
              | None => None
              | Some rest =>
                  Some ((W_ICC_MARKER,
                         icc_sig_writer ++ [byte_of cur; byte_of num]
                         ++ firstn (Z.to_nat length) data) :: rest)
              end
          end
      end
  end.

(* jpeg_write_icc_profile: None = ERREXIT (empty profile: JERR_BUFFER_SIZE) *)
Definition write_icc (p : list Z) : option (list segment) :=
  if Zlength p =? 0 then None
  else let num := icc_num_markers (Zlength p) in
       write_icc_loop (Z.to_nat num) p 1 num.

(* the marker list a decompressor holds after reading these segments with a save limit
   that does not truncate (jpeg_save_markers(.., 0xFFFF)) *)
Definition saved_of (s : segment) : saved := mkSaved (fst s) (Zlength (snd s)) (snd s).
Definition markers_of (l : list segment) : list saved := map saved_of l.

(* ------------------------------------------------------------------ reader *)
Definition marker_is_icc (m : saved) : bool :=
  (sm_code m =? R_ICC_MARKER) && (R_ICC_OVERHEAD_LEN <=? Zlength (sm_data m))
  && has_prefix icc_sig_reader (sm_data m).

Definition icc_seq (m : saved) : Z := nthz (sm_data m) R_ICC_SEQ_INDEX.
Definition icc_count (m : saved) : Z := nthz (sm_data m) R_ICC_COUNT_INDEX.
Definition icc_plen (m : saved) : Z := Zlength (sm_data m) - R_ICC_OVERHEAD_LEN.
Definition icc_payload (m : saved) : list Z := skipn (Z.to_nat R_ICC_OVERHEAD_LEN) (sm_data m).

Inductive icc_result :=
| IccAbsent                     (* FALSE, no warning: no ICC marker *)
| IccBogus                      (* FALSE + WARNMS(JWRN_BOGUS_ICC) *)
| IccOk (profile : list Z).

(* state of the first pass: num_markers and marker_present/data_length *)
Definition icc_tbl := Z -> option Z.
Definition tbl_set (t : icc_tbl) (s v : Z) : icc_tbl := fun k => if k =? s then Some v else t k.

(* body of the first loop for one marker; None = WARNMS + return FALSE *)
Definition pass1_step (num : Z) (tbl : icc_tbl) (m : saved) : option (Z * icc_tbl) :=
  if marker_is_icc m then
    if negb (num =? 0) && negb (num =? icc_count m) then None   (* inconsistent num_markers *)
    else
      let num' := if num =? 0 then icc_count m else num in
      let s := icc_seq m in
      if (s <=? 0) || (num' <? s) then None                      (* bogus sequence number *)
      else match tbl s with
           | Some _ => None                                      (* duplicate sequence number *)
           | None => Some (num', tbl_set tbl s (icc_plen m))
           end
  else Some (num, tbl).

Fixpoint pass1 (ms : list saved) (num : Z) (tbl : icc_tbl) : option (Z * icc_tbl) :=
  match ms with
  | [] => Some (num, tbl)
  | m :: r => match pass1_step num tbl m with
              | None => None
              | Some (num', tbl') => pass1 r num' tbl'
              end
  end.

(* "for (seq_no = 1; seq_no <= num_markers; seq_no++)": missing check, offsets, total *)
Fixpoint icc_offsets (ks : list Z) (tbl : icc_tbl) (total : Z) (offs : Z -> Z)
  : option (Z * (Z -> Z)) :=
  match ks with
  | [] => Some (total, offs)
  | k :: r => match tbl k with
              | None => None                                     (* missing sequence number *)
              | Some l => icc_offsets r tbl (total + l) (fun j => if j =? k then total else offs j)
              end
  end.

(* copy d over buf at offset off *)
Definition splice (off : Z) (d buf : list Z) : list Z :=
  firstn (Z.to_nat off) buf ++ d ++ skipn (Z.to_nat off + length d) buf.

(* second loop: copy every ICC marker's data to its offset *)
Fixpoint pass2 (ms : list saved) (tbl : icc_tbl) (offs : Z -> Z) (buf : list Z) : list Z :=
  match ms with
  | [] => buf
  | m :: r =>
      if marker_is_icc m then
        let s := icc_seq m in
        let len := match tbl s with Some l => l | None => 0 end in
        pass2 r tbl offs (splice (offs s) (firstn (Z.to_nat len) (icc_payload m)) buf)
      else pass2 r tbl offs buf
  end.

(* jpeg_read_icc_profile; junk = the initial contents of the malloc'ed buffer *)
Definition read_icc_with (junk : Z) (ms : list saved) : icc_result :=
  match pass1 ms 0 (fun _ => None) with
  | None => IccBogus
  | Some (num, tbl) =>
      if num =? 0 then IccAbsent
      else match icc_offsets (zrange 1 (Z.to_nat num)) tbl 0 (fun _ => 0) with
           | None => IccBogus
           | Some (total, offs) =>
               if total =? 0 then IccBogus                       (* only empty markers *)
               else IccOk (pass2 ms tbl offs (repeat junk (Z.to_nat total)))
           end
  end.
Definition read_icc (ms : list saved) : icc_result := read_icc_with 0 ms.

(* The same function with the second pass replaced by its closed form (payloads looked up by
   sequence number and concatenated).  proofs/IccFast.v proves read_icc_with junk ms = read_icc_fast ms
   for every marker list; the extracted model uses it on profiles of more than 30 segments, where
   the list-splicing second pass above costs segments x length operations. *)
Definition icc_pick (ms : list saved) (k : Z) : list Z :=
  match find (fun m => marker_is_icc m && (icc_seq m =? k)) ms with
  | Some m => icc_payload m
  | None => []
  end.
Definition read_icc_fast (ms : list saved) : icc_result :=
  match pass1 ms 0 (fun _ => None) with
  | None => IccBogus
  | Some (num, tbl) =>
      if num =? 0 then IccAbsent
      else match icc_offsets (zrange 1 (Z.to_nat num)) tbl 0 (fun _ => 0) with
           | None => IccBogus
           | Some (total, _) =>
               if total =? 0 then IccBogus
               else IccOk (concat (map (icc_pick ms) (zrange 1 (Z.to_nat num))))
           end
  end.
