(* C05 -- accurate integer inverse DCT: src/jidctint.c jpeg_idct_islow (JLONG arithmetic, int workspace,
   zero-AC shortcuts, range_limit[x & RANGE_MASK]) and the lane dataflow of simd/x86_64/jidctint-sse2.asm
   (pmullw dequantisation, 16-bit paddw/psubw for in0+-in4, z3, z4, pmaddwd pairs, 32-bit paddd/psubd,
   paddd rounding, psrad, packssdw; pass 2: packsswb, paddb 128).  No proofs here (see design/C05.md, gaps):
   the boundary predicate c_idct_islow_ok is evaluated by the check on every tested block. *)
From Coq Require Import List ZArith Bool.
From LJT Require Import lib.Words gen.GenSimdConst model.SimdDct model.SimdIdctFast model.SimdFdctInt.
Import ListNotations.
Local Open Scope Z_scope.

Definition ci (k : nat) : Z :=
  nth k [c_jidctint_FIX_0_298631336; c_jidctint_FIX_0_390180644; c_jidctint_FIX_0_541196100; c_jidctint_FIX_0_765366865;
         c_jidctint_FIX_0_899976223; c_jidctint_FIX_1_175875602; c_jidctint_FIX_1_501321110; c_jidctint_FIX_1_847759065;
         c_jidctint_FIX_1_961570560; c_jidctint_FIX_2_053119869; c_jidctint_FIX_2_562915447; c_jidctint_FIX_3_072711026] 0.
(* the eight sums that are descaled at the end of a pass (exact integers) *)
Definition c_idctint1_wide (d : list Z) : list Z :=
  let g i := nth i d 0 in
  let z2 := g 2%nat in let z3 := g 6%nat in
  let z1 := (z2 + z3) * ci 2 in
  let tmp2 := z1 + z3 * (- ci 7) in let tmp3 := z1 + z2 * ci 3 in
  let tmp0 := (g 0%nat + g 4%nat) * 2 ^ c_jidctint_CONST_BITS in let tmp1 := (g 0%nat - g 4%nat) * 2 ^ c_jidctint_CONST_BITS in
  let tmp10 := tmp0 + tmp3 in let tmp13 := tmp0 - tmp3 in let tmp11 := tmp1 + tmp2 in let tmp12 := tmp1 - tmp2 in
  let t0 := g 7%nat in let t1 := g 5%nat in let t2 := g 3%nat in let t3 := g 1%nat in
  let z1 := t0 + t3 in let z2 := t1 + t2 in let z3 := t0 + t2 in let z4 := t1 + t3 in
  let z5 := (z3 + z4) * ci 5 in
  let t0 := t0 * ci 0 in let t1 := t1 * ci 9 in let t2 := t2 * ci 11 in let t3 := t3 * ci 6 in
  let z1 := z1 * (- ci 4) in let z2 := z2 * (- ci 10) in
  let z3 := z3 * (- ci 8) + z5 in let z4 := z4 * (- ci 1) + z5 in
  let t0 := t0 + z1 + z3 in let t1 := t1 + z2 + z4 in let t2 := t2 + z2 + z3 in let t3 := t3 + z1 + z4 in
  [tmp10 + t3; tmp11 + t2; tmp12 + t1; tmp13 + t0; tmp13 - t0; tmp12 - t1; tmp11 - t2; tmp10 - t3].
Definition cii_col (coef q : list Z) : list Z :=
  if all_zero (tl coef) then repeat (hd 0 coef * hd 0 q * 2 ^ jidctint_sse2_PASS1_BITS) 8
  else map (fun s => c_descale s (c_jidctint_CONST_BITS - jidctint_sse2_PASS1_BITS)) (c_idctint1_wide (map2 Z.mul coef q)).
Definition cii_row (ws : list Z) : list Z :=
  if all_zero (tl ws) then repeat (idct_range_limit (c_descale (hd 0 ws) (jidctint_sse2_PASS1_BITS + 3))) 8
  else map (fun s => idct_range_limit (c_descale s (c_jidctint_CONST_BITS + jidctint_sse2_PASS1_BITS + 3))) (c_idctint1_wide ws).
Definition c_idct_islow (coef q : list Z) : list Z :=
  let cols := transpose (chunk8 8 coef) in let qc := transpose (chunk8 8 q) in
  concat (map cii_row (transpose (map2 cii_col cols qc))).

(* ---- asm ---- *)
Definition psubd (a b : Z) : Z := w32 (a - b).
Definition maddi (a b : Z) (row : Z * list Z) : Z := pmaddwd a b (rw row 0) (rw row 1).
Definition asm_idctint1_wide (d : list Z) : list Z :=       (* dword lanes before rounding *)
  let g i := nth i d 0 in
  let tmp3 := maddi (g 2%nat) (g 6%nat) jidctint_sse2_PW_F130_F054 in
  let tmp2 := maddi (g 2%nat) (g 6%nat) jidctint_sse2_PW_F054_MF130 in
  let sh := 16 - jidctint_sse2_CONST_BITS in
  let tmp0 := psrad (dword_hi (paddw (g 0%nat) (g 4%nat))) sh in
  let tmp1 := psrad (dword_hi (psubw (g 0%nat) (g 4%nat))) sh in
  let tmp10 := paddd tmp0 tmp3 in let tmp13 := psubd tmp0 tmp3 in
  let tmp11 := paddd tmp1 tmp2 in let tmp12 := psubd tmp1 tmp2 in
  let z3 := paddw (g 3%nat) (g 7%nat) in let z4 := paddw (g 1%nat) (g 5%nat) in
  let z3d := maddi z3 z4 jidctint_sse2_PW_MF078_F117 in let z4d := maddi z3 z4 jidctint_sse2_PW_F117_F078 in
  let t0 := paddd (maddi (g 7%nat) (g 1%nat) jidctint_sse2_PW_MF060_MF089) z3d in
  let t3 := paddd (maddi (g 7%nat) (g 1%nat) jidctint_sse2_PW_MF089_F060) z4d in
  let t1 := paddd (maddi (g 5%nat) (g 3%nat) jidctint_sse2_PW_MF050_MF256) z4d in
  let t2 := paddd (maddi (g 5%nat) (g 3%nat) jidctint_sse2_PW_MF256_F050) z3d in
  [paddd tmp10 t3; paddd tmp11 t2; paddd tmp12 t1; paddd tmp13 t0; psubd tmp13 t0; psubd tmp12 t1; psubd tmp11 t2; psubd tmp10 t3].
Definition aii_p1 (x : Z) : Z := packssdw (psrad (paddd x (rd32 jidctint_sse2_PD_DESCALE_P1)) jidctint_sse2_DESCALE_P1).
Definition aii_p2 (x : Z) : Z :=
  w8 (packsswb (packssdw (psrad (paddd x (rd32 jidctint_sse2_PD_DESCALE_P2)) jidctint_sse2_DESCALE_P2)) + nth 0 (snd jidctint_sse2_PB_CENTERJSAMP) 0).
Definition asm_idct_islow (coef q : list Z) : list Z :=
  let cols := transpose (chunk8 8 (map w16 coef)) in let qc := transpose (chunk8 8 (map w16 q)) in
  (* .columnDCT is skipped when rows 1..7 of the whole block are zero: in0 * q0 << PASS1_BITS in 16-bit lanes *)
  let dc_only := forallb (fun c => all_zero (tl c)) (transpose (chunk8 8 coef)) in    (* rows 1..7 zero = every column has zero ACs *)
  let ws := transpose (map2 (fun c m => if dc_only then repeat (psllw (pmullw (hd 0 c) (hd 0 m)) jidctint_sse2_PASS1_BITS) 8
                                        else map aii_p1 (asm_idctint1_wide (map2 pmullw c m))) cols qc) in
  concat (map (fun r => map aii_p2 (asm_idctint1_wide r)) ws).

(* ---- boundary ---- *)
Definition fits32b (v : Z) : bool := (-2147483648 <=? v) && (v <? 2147483648).
Definition cii_checks16 (d : list Z) : list Z :=
  let g i := nth i d 0 in [g 0%nat + g 4%nat; g 0%nat - g 4%nat; g 3%nat + g 7%nat; g 1%nat + g 5%nat].
Definition c_idct_islow_ok (coef q : list Z) : bool :=
  let cols := transpose (chunk8 8 coef) in let qc := transpose (chunk8 8 q) in
  let deq := map2 (map2 Z.mul) cols qc in
  let p1 := map2 cii_col cols qc in
  let ws := transpose p1 in
  forallb (forallb fits16b) deq && forallb (fun c => forallb fits16b (cii_checks16 c)) deq &&
  forallb (fun c => forallb (fun s => fits32b (s + 1024)) (c_idctint1_wide c)) deq &&
  forallb (forallb fits16b) p1 && forallb (fun r => forallb fits16b (cii_checks16 r)) ws &&
  forallb (fun r => forallb (fun s => fits32b (s + 131072) &&
     let v := c_descale s (c_jidctint_CONST_BITS + jidctint_sse2_PASS1_BITS + 3) in (-512 <=? v) && (v <? 512)) (c_idctint1_wide r)) ws.
