(* TjHeader.v -- executable model of the TurboJPEG-level subsampling bookkeeping (C16):
   turbojpeg.c setCompDefaults (sampling factors chosen for a TJSAMP level) and getSubsamp
   (level reported by tj3DecompressHeader from the SOF sampling factors).  No proofs here. *)
From Coq Require Import List ZArith Bool.
From LJT Require Import gen.GenIccConst model.MarkerRT.
Import ListNotations.
Local Open Scope Z_scope.

Definition samp := (Z * Z)%type.
Definition mcu_w (i : Z) : Z := nthz tj_mcu_width i / 8.
Definition mcu_h (i : Z) : Z := nthz tj_mcu_height i / 8.

(* setCompDefaults: comp 0 (and comp 3 of a 4-component image) get the level's factors, 1 and 2 get 1x1 *)
Definition tj_factors (subsamp : Z) (ncomp : nat) : list samp :=
  map (fun k => if (k =? 0)%nat || (k =? 3)%nat then (mcu_w subsamp, mcu_h subsamp) else (1, 1)) (seq 0 ncomp).

Definition samp_eqb (a b : samp) : bool := (fst a =? fst b) && (snd a =? snd b).
(* "match == num_components - 1" over k = 1 .. n-1 *)
Fixpoint all_from (k : nat) (ref : nat -> samp) (cs : list samp) : bool :=
  match cs with [] => true | c :: r => samp_eqb c (ref k) && all_from (S k) ref r end.

(* one iteration of "for (i = 0; i < TJ_NUMSAMP; i++)"; result: (retval, break out of the loop) *)
Definition subsamp_step (four_cmyk : bool) (comps : list samp) (i retval : Z) : Z * bool :=
  match comps with
  | [] => (retval, false)
  | c0 :: rest =>
      if all_from 1 (fun k => if four_cmyk && (k =? 3)%nat then (mcu_w i, mcu_h i) else (1, 1)) rest
         && samp_eqb c0 (mcu_w i, mcu_h i) then (i, true)
      else if samp_eqb c0 (2, 2) && ((i =? TJSAMP_422) || (i =? TJSAMP_440))
              && all_from 1 (fun k => if four_cmyk && (k =? 3)%nat then (2, 2) else (mcu_h i, mcu_w i)) rest
      then (i, true)
      else if (fst c0 * snd c0 <=? D_MAX_BLOCKS_IN_MCU / 3) && (i =? TJSAMP_444)
              && all_from 1 (fun _ => c0) rest && negb (length rest =? 0)%nat
      then (i, false)
      else (retval, false)
  end.

Fixpoint subsamp_loop (four_cmyk : bool) (comps : list samp) (is : list Z) (retval : Z) : Z :=
  match is with
  | [] => retval
  | i :: r =>
      if i =? TJSAMP_GRAY then subsamp_loop four_cmyk comps r retval
      else let '(rv, brk) := subsamp_step four_cmyk comps i retval in
           if brk then rv else subsamp_loop four_cmyk comps r rv
  end.

(* getSubsamp; cs = jpeg_color_space as decided by default_decompress_parms *)
Definition get_subsamp (cs : cspace) (comps : list samp) : Z :=
  let n := length comps in
  if (n =? 1)%nat && (match cs with CS_GRAY => true | _ => false end) then TJSAMP_GRAY
  else
    let cmyk := match cs with CS_CMYK | CS_YCCK => true | _ => false end in
    if (n =? 3)%nat || (cmyk && (n =? 4)%nat)
    then subsamp_loop (cmyk && (n =? 4)%nat) comps (map Z.of_nat (seq 0 (Z.to_nat TJ_NUMSAMP))) TJSAMP_UNKNOWN
    else TJSAMP_UNKNOWN.
