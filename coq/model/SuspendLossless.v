(* C09 -- lossless decoder, non-interleaved scan of a component with v_samp_factor = V >= 1:
   jddiffct.c decompress_data (MCU_vert_offset / MCU_ctr, restart_rows_to_go, process_restart with the
   restart_pending mask, undifferencing of the V rows after all of them have been entropy-decoded),
   jdlhuff.c process_restart / decode_mcus, jdlossls.c (first-row predictor re-armed by start_pass,
   psv 1).  One unit = one step of the loops: either the restart processing due at the start of an MCU
   row, or one MCU (= one sample).  The position (yoffset, MCU_ctr), the pending mask and the differences
   decoded so far are permanent state, so a suspension anywhere -- in particular inside the restart marker
   of a row in the MIDDLE of an iMCU row -- resumes at the same MCU row with the mask intact.          *)
From Coq Require Import List ZArith Bool.
From LJT Require Import model.SuspendCore model.SuspendMarker model.SuspendHuff model.SuspendProg.
Import ListNotations.
Local Open Scope Z_scope.

Record lcfg := { lc_w : nat; lc_v : nat; lc_ri : Z (* restart interval in MCU rows, 0 = none *); lc_tbl : dtbl; lc_init : Z }.

Record ls := {
  l_gb : Z; l_bl : Z; l_um : Z; l_insuf : bool; l_warn : nat; l_disc : Z; l_nrn : Z;
  l_rtg : Z;                 (* diff->restart_rows_to_go *)
  l_y : nat;                 (* diff->MCU_vert_offset = yoffset *)
  l_x : nat;                 (* diff->MCU_ctr *)
  l_pending : list nat;      (* diff->restart_pending: MCU rows of this iMCU row that start a restart interval *)
  l_diff : list (list Z);    (* diff_buf: completed rows of this iMCU row, then the row being decoded *)
  l_first : bool;            (* predict_undifference == jpeg_undifference_first_row *)
  l_prev : list Z;           (* last undifferenced row *)
  l_left : nat;              (* iMCU rows still to decode *)
  l_out : list (list Z)
}.

Definition restart_due (c : lcfg) (s : ls) : bool := Nat.eqb (l_x s) 0 && negb (lc_ri c =? 0) && (l_rtg s =? 0).

(* jpeg_undifference_first_row / jpeg_undifference1 on one row *)
Fixpoint undiff_row (ds : list Z) (left : Z) : list Z :=
  match ds with [] => [] | d :: t => let v := (d + left) mod 65536 in v :: undiff_row t v end.

(* the undifferencing loop of decompress_data with the restart_pending tests *)
Fixpoint undiff_rows (c : lcfg) (rows : list (list Z)) (r : nat) (pending : list nat) (first : bool) (prev : list Z)
  : list (list Z) * bool * list Z :=
  match rows with
  | [] => ([], first, prev)
  | ds :: t =>
    let first1 := if existsb (Nat.eqb r) pending then true else first in           (* start_pass: re-arm *)
    let row := undiff_row ds (if first1 then lc_init c else nth 0 prev 0) in
    let '(rest, f, p) := undiff_rows c t (S r) pending false row in
    (row :: rest, f, p)
  end.

Definition set_br (s : ls) (b : br) : ls :=
  {| l_gb := gb b; l_bl := bl b; l_um := um b; l_insuf := insuf b; l_warn := wn b; l_disc := l_disc s; l_nrn := l_nrn s;
     l_rtg := l_rtg s; l_y := l_y s; l_x := l_x s; l_pending := l_pending s; l_diff := l_diff s; l_first := l_first s;
     l_prev := l_prev s; l_left := l_left s; l_out := l_out s |}.

(* one sample decoded: store it, advance MCU_ctr; at the end of the MCU row account for the restart interval;
   at the end of the iMCU row undifference and emit *)
Definition after_mcu (c : lcfg) (s : ls) (b : br) (d : Z) : ls :=
  let s1 := set_br s b in
  let rows := firstn (l_y s) (l_diff s) ++ [nth (l_y s) (l_diff s) [] ++ [d]] in
  if Nat.ltb (S (l_x s)) (lc_w c) then
    {| l_gb := l_gb s1; l_bl := l_bl s1; l_um := l_um s1; l_insuf := l_insuf s1; l_warn := l_warn s1; l_disc := l_disc s; l_nrn := l_nrn s;
       l_rtg := l_rtg s; l_y := l_y s; l_x := S (l_x s); l_pending := l_pending s; l_diff := rows; l_first := l_first s;
       l_prev := l_prev s; l_left := l_left s; l_out := l_out s |}
  else
    let rtg := if lc_ri c =? 0 then l_rtg s else l_rtg s - 1 in
    if Nat.ltb (S (l_y s)) (lc_v c) then
      {| l_gb := l_gb s1; l_bl := l_bl s1; l_um := l_um s1; l_insuf := l_insuf s1; l_warn := l_warn s1; l_disc := l_disc s; l_nrn := l_nrn s;
         l_rtg := rtg; l_y := S (l_y s); l_x := 0; l_pending := l_pending s; l_diff := rows; l_first := l_first s;
         l_prev := l_prev s; l_left := l_left s; l_out := l_out s |}
    else
      let '(out, f, p) := undiff_rows c rows 0 (l_pending s) (l_first s) (l_prev s) in
      {| l_gb := l_gb s1; l_bl := l_bl s1; l_um := l_um s1; l_insuf := l_insuf s1; l_warn := l_warn s1; l_disc := l_disc s; l_nrn := l_nrn s;
         l_rtg := rtg; l_y := 0; l_x := 0; l_pending := []; l_diff := []; l_first := f;
         l_prev := p; l_left := pred (l_left s); l_out := l_out s ++ out |}.

Definition l_load (s : ls) (p : list byte) : br :=
  {| gb := l_gb s; bl := l_bl s; rest := p; um := l_um s; insuf := l_insuf s; wn := l_warn s |}.

Definition sample (t : dtbl) : B Z :=
  s <~ huff_decode t ;;
  if s =? 0 then bret 0 else if s =? 16 then bret 32768
  else (_ <~ check_bits s ;; r <~ get_bits s ;; bret (huff_extend r s)).

Definition mcu_step (c : lcfg) (s : ls) (p : list byte) : ures ls herr :=
  if l_insuf s then Done (after_mcu c s (l_load s p) 0) 0 0                 (* out of data: zero differences *)
  else match sample (lc_tbl c) (l_load s p) with
       | BSusp => More s 0
       | BOk d b => Done (after_mcu c s b d) (length p - length (rest b)) 0
       end.

(* jdlhuff.c process_restart + jdmarker.c read_restart_marker + the jddiffct.c part *)
Definition with_marker (s : ls) (bl' disc um' : Z) (w : nat) : ls :=
  {| l_gb := l_gb s; l_bl := bl'; l_um := um'; l_insuf := l_insuf s; l_warn := w; l_disc := disc; l_nrn := l_nrn s;
     l_rtg := l_rtg s; l_y := l_y s; l_x := l_x s; l_pending := l_pending s; l_diff := l_diff s; l_first := l_first s;
     l_prev := l_prev s; l_left := l_left s; l_out := l_out s |}.

Definition restart_found (c : lcfg) (s1 : ls) (n : nat) : ures ls herr :=
  if l_um s1 =? 208 + l_nrn s1 then
    Done {| l_gb := l_gb s1; l_bl := l_bl s1; l_um := 0; l_insuf := false; l_warn := l_warn s1; l_disc := l_disc s1;
            l_nrn := Z.land (l_nrn s1 + 1) 7;
            l_rtg := lc_ri c;                                         (* restart_rows_to_go = interval / MCUs_per_row *)
            l_y := l_y s1; l_x := l_x s1;
            l_pending := l_y s1 :: l_pending s1;                      (* restart_pending |= 1U << yoffset *)
            l_diff := l_diff s1; l_first := l_first s1; l_prev := l_prev s1; l_left := l_left s1; l_out := l_out s1 |} n 0
  else Fail H_RESYNC.

Definition restart_step (c : lcfg) (s : ls) (p : list byte) : ures ls herr :=
  let disc0 := l_disc s + l_bl s / 8 in
  if l_um s =? 0 then
    match nm p disc0 0 0 with
    | NM_more d n => More (with_marker s 0 d 0 (l_warn s)) n
    | NM_found m d n =>
        if d =? 0 then restart_found c (with_marker s 0 0 m (l_warn s)) n
        else restart_found c (with_marker s 0 0 m (S (l_warn s))) n
    end
  else restart_found c (with_marker s 0 disc0 (l_um s) (l_warn s)) 0.

Definition lossless_unit (c : lcfg) (s : ls) (p : list byte) : ures ls herr :=
  match l_left s with
  | O => Halt
  | S _ =>
    if negb (Nat.ltb (l_x s) (lc_w c) && Nat.ltb (l_y s) (lc_v c)) then Fail H_RESYNC      (* not a position of the scan *)
    else if restart_due c s then restart_step c s p else mcu_step c s p
  end.

(* MCUs still to decode, and one more step when a restart is due *)
Definition lossless_slack (c : lcfg) (s : ls) : nat :=
  2 * (l_left s * (lc_v c * lc_w c) - (l_y s * lc_w c + l_x s)) + (if restart_due c s then 1 else 0).

Definition linit_ls (c : lcfg) (rows : nat) : ls :=
  {| l_gb := 0; l_bl := 0; l_um := 0; l_insuf := false; l_warn := 0%nat; l_disc := 0; l_nrn := 0; l_rtg := lc_ri c;
     l_y := 0; l_x := 0; l_pending := []; l_diff := []; l_first := true; l_prev := []; l_left := rows; l_out := [] |}.

Definition run_lossless (c : lcfg) (cs : list (list byte)) (s : ls) := run_chunked (lossless_unit c) (lossless_slack c) cs s.
