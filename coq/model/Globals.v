(* C15 -- vocabulary of the translator-generated inventory of static-storage
   objects (tools/gen_Globals.py -> gen/GenGlobals.v) and the boolean
   judgements over it.  No proofs here. *)
From Coq Require Import List ZArith String Bool.
Import ListNotations.
Local Open Scope string_scope.
Local Open Scope Z_scope.

(* a syntactic use site in the C text *)
Record site := mk_site {
  s_file : string;      (* file containing the site, relative to the source root *)
  s_fn   : string;      (* enclosing function ("" at file scope) *)
  s_line : Z;
  s_how  : string       (* "assign", "incdec", "dest-arg:memcpy", "arg1:jpeg_mem_dest_tj", "init-local:buf", ... *)
}.

Inductive cls :=
| Const                                  (* object type const-qualified at the top level (after arrays) *)
| Tls                                    (* __thread / _Thread_local *)
| MutableNeverWritten                    (* not const, but no syntactic write and no non-const alias *)
| MutableWritten (sites : list site)     (* at least one syntactic write *)
| AddressEscapes (sites : list site).    (* no direct write, but a non-const pointer to it leaves the expression *)

Record gvar := mk_gvar {
  g_name : string;
  g_file : string;      (* defining file *)
  g_fn   : string;      (* enclosing function for function-local statics, "" otherwise *)
  g_link : string;      (* "extern" | "static" | "local" *)
  g_type : string;
  g_nobj : Z;           (* number of compiled objects that contain a copy (8/12/16-bit multi-compilation, two libraries) *)
  g_tus  : list string; (* archive member names of the translation units that contain it ("turbojpeg.c.o", ...) *)
  g_cls  : cls
}.

(* process-global libc state: call sites of getenv/setenv/putenv/strerror/... and of the
   header wrappers GETENV_S / PUTENV_S *)
Record libc_site := mk_libc {
  l_callee : string;
  l_file   : string;
  l_fn     : string;
  l_arg    : string;    (* first string-literal argument ("" if none) *)
  l_guard  : string     (* source text of the innermost enclosing if-condition ("" if none) *)
}.

(* use-site data for an escaping object: everything the defining function does with it *)
Record escape_info := mk_esc {
  e_name : string; e_file : string; e_fn : string;
  e_direct : list string;              (* how of every direct use of the object in e_fn *)
  e_alias_uses : list (string * string); (* (local alias, how) for every use of a local initialised from it *)
  e_fn_byte_lvalues : Z;               (* lvalues of character type obtained by * or [] in e_fn *)
  e_callees : list (string * Z * Z)    (* callee receiving the alias: (name, byte lvalues, byte-pointer call arguments) in its body; -1 = body not found *)
}.

(* the binary side (tools/gen_GlobalsBin.py): data symbols of the built archives *)
Inductive bsec := RO | RelRo | Data | Bss | Tdata | Tbss | OtherW.
Record bsym := mk_bsym {
  b_name : string;      (* symbol name up to the first '.' (function-local statics are name.N) *)
  b_obj  : string;      (* archive member *)
  b_sec  : bsec;
  b_size : Z;
  b_cnt  : Z
}.

Definition bsec_writable (s : bsec) : bool := match s with Data | Bss | OtherW => true | _ => false end.
Definition bsec_tls (s : bsec) : bool := match s with Tdata | Tbss => true | _ => false end.

(* why a non-const object is harmless, and what checked fact justifies it *)
Inductive justification :=
| J_ThreadLocal            (* AST: __thread ; binary: .tdata/.tbss *)
| J_ConstAfterLoad_RO      (* AST: no write site, no non-const alias ; binary: the compiler placed it in a read-only section (or dropped it) *)
| J_ConstAfterLoad_NoWrite (* AST: no write site, no non-const alias ; binary: writable section (needs load-time relocation or is a dummy) *)
| J_DummyNeverAccessed     (* AST: dummy_ok use-site data ; binary: writable *)
| J_None.

Definition key (g : gvar) : string * string * string := (g_file g, g_fn g, g_name g).

Definition key_eqb (a b : string * string * string) : bool :=
  let '(a1, a2, a3) := a in let '(b1, b2, b3) := b in
  String.eqb a1 b1 && String.eqb a2 b2 && String.eqb a3 b3.

Definition cls_benign (c : cls) : bool :=
  match c with Const | Tls | MutableNeverWritten => true | _ => false end.

Definition is_escape (c : cls) : bool := match c with AddressEscapes _ => true | _ => false end.

(* the dummy-buffer reason: the object is only ever bound to ONE local alias, every
   use of the alias passes its address to a callee whose body contains no byte
   load/store and forwards no byte pointer, and the defining function itself
   contains no byte access: so the object's bytes are neither read nor written
   while the alias is live. *)
Definition callee_clean (cs : list (string * Z * Z)) (how : string) : bool :=
  existsb (fun c => let '(n, bl, bp) := c in
                    (String.eqb how ("addr-arg1:" ++ n) || String.eqb how ("addr-arg2:" ++ n) ||
                     String.eqb how ("addr-arg0:" ++ n) || String.eqb how ("addr-arg3:" ++ n))
                    && (bl =? 0) && (bp =? 0)) cs.

Definition is_init_local (how : string) : bool := String.prefix "init-local:" how.

Definition dummy_ok (e : escape_info) : bool :=
  match e_direct e with
  | [h] => is_init_local h
  | _ => false
  end
  && (e_fn_byte_lvalues e =? 0)
  && negb (match e_alias_uses e with [] => true | _ => false end)
  && forallb (fun u => callee_clean (e_callees e) (snd u)) (e_alias_uses e).

Definition esc_key (e : escape_info) := (e_file e, e_fn e, e_name e).

Definition entry_ok (allow : list (string * string * string)) (escs : list escape_info) (g : gvar) : bool :=
  cls_benign (g_cls g)
  || (is_escape (g_cls g) && existsb (key_eqb (key g)) allow
      && existsb (fun e => key_eqb (esc_key e) (key g) && dummy_ok e) escs).

Definition libc_eqb (a b : libc_site) : bool :=
  String.eqb (l_callee a) (l_callee b) && String.eqb (l_file a) (l_file b) &&
  String.eqb (l_fn a) (l_fn b) && String.eqb (l_arg a) (l_arg b) && String.eqb (l_guard a) (l_guard b).

Fixpoint list_eqb {A} (eqb : A -> A -> bool) (a b : list A) : bool :=
  match a, b with
  | [], [] => true
  | x :: a', y :: b' => eqb x y && list_eqb eqb a' b'
  | _, _ => false
  end.

Definition is_env_writer (c : string) : bool :=
  existsb (String.eqb c) ["setenv"; "putenv"; "unsetenv"; "clearenv"; "_putenv_s"; "PUTENV_S"].
Definition is_env_reader (c : string) : bool :=
  existsb (String.eqb c) ["getenv"; "secure_getenv"; "getenv_s"; "GETENV_S"].
