(* C18 -- executable model of the GIF reader (src/rdgif.c): start_input_gif, ReadColorMap,
   GetDataBlock / SkipDataBlocks, GetCode (bit extraction from code_buf), LZWReadByte (symbol
   table growth, Clear / End codes, symbol stack), get_pixel_rows, load_interlaced_image +
   get_interlaced_row.  Every array access is bounds-checked (R_OOB) and every table / colormap
   cell starts "never written" (R_UNINIT); warnings are counted.  Constants come from
   gen/GenImgRd.v.  No proofs here. *)
From Coq Require Import List ZArith Bool.
From LJT Require Import gen.GenImgRd model.RdCommon.
Import ListNotations.
Local Open Scope Z_scope.

Record lzw := {
  z_in : list Z;          (* rest of the file *)
  z_buf : list Z;         (* code_buf[0 .. last_byte) *)
  z_last_bit : Z;
  z_cur_bit : Z;
  z_first : bool;         (* first_time *)
  z_done : bool;          (* out_of_blocks *)
  z_ics : Z;              (* input_code_size *)
  z_cs : Z;               (* code_size *)
  z_limit : Z;            (* limit_code *)
  z_max : Z;              (* max_code *)
  z_old : Z;              (* oldcode *)
  z_fc : Z;               (* firstcode *)
  z_head : list Z;        (* symbol_head[LZW_TABLE_SIZE] *)
  z_tail : list Z;        (* symbol_tail[LZW_TABLE_SIZE] *)
  z_stack : list Z;       (* symbol_stack[0 .. sp), top first *)
  z_warn : Z              (* number of WARNMS calls *)
}.

Definition z_clear (st : lzw) : Z := 2 ^ z_ics st.
Definition z_end (st : lzw) : Z := z_clear st + 1.

Definition st_io (st : lzw) inp buf lastb curb : lzw :=
  {| z_in := inp; z_buf := buf; z_last_bit := lastb; z_cur_bit := curb; z_first := z_first st; z_done := z_done st;
     z_ics := z_ics st; z_cs := z_cs st; z_limit := z_limit st; z_max := z_max st; z_old := z_old st; z_fc := z_fc st;
     z_head := z_head st; z_tail := z_tail st; z_stack := z_stack st; z_warn := z_warn st |}.
Definition st_flags (st : lzw) first done : lzw :=
  {| z_in := z_in st; z_buf := z_buf st; z_last_bit := z_last_bit st; z_cur_bit := z_cur_bit st; z_first := first; z_done := done;
     z_ics := z_ics st; z_cs := z_cs st; z_limit := z_limit st; z_max := z_max st; z_old := z_old st; z_fc := z_fc st;
     z_head := z_head st; z_tail := z_tail st; z_stack := z_stack st; z_warn := z_warn st |}.
Definition st_warn (st : lzw) : lzw :=
  {| z_in := z_in st; z_buf := z_buf st; z_last_bit := z_last_bit st; z_cur_bit := z_cur_bit st; z_first := z_first st; z_done := z_done st;
     z_ics := z_ics st; z_cs := z_cs st; z_limit := z_limit st; z_max := z_max st; z_old := z_old st; z_fc := z_fc st;
     z_head := z_head st; z_tail := z_tail st; z_stack := z_stack st; z_warn := z_warn st + 1 |}.
Definition st_codes (st : lzw) cs limit mx : lzw :=
  {| z_in := z_in st; z_buf := z_buf st; z_last_bit := z_last_bit st; z_cur_bit := z_cur_bit st; z_first := z_first st; z_done := z_done st;
     z_ics := z_ics st; z_cs := cs; z_limit := limit; z_max := mx; z_old := z_old st; z_fc := z_fc st;
     z_head := z_head st; z_tail := z_tail st; z_stack := z_stack st; z_warn := z_warn st |}.
Definition st_old (st : lzw) old fc : lzw :=
  {| z_in := z_in st; z_buf := z_buf st; z_last_bit := z_last_bit st; z_cur_bit := z_cur_bit st; z_first := z_first st; z_done := z_done st;
     z_ics := z_ics st; z_cs := z_cs st; z_limit := z_limit st; z_max := z_max st; z_old := old; z_fc := fc;
     z_head := z_head st; z_tail := z_tail st; z_stack := z_stack st; z_warn := z_warn st |}.
Definition st_tabs (st : lzw) hd tl : lzw :=
  {| z_in := z_in st; z_buf := z_buf st; z_last_bit := z_last_bit st; z_cur_bit := z_cur_bit st; z_first := z_first st; z_done := z_done st;
     z_ics := z_ics st; z_cs := z_cs st; z_limit := z_limit st; z_max := z_max st; z_old := z_old st; z_fc := z_fc st;
     z_head := hd; z_tail := tl; z_stack := z_stack st; z_warn := z_warn st |}.
Definition st_stack (st : lzw) stk : lzw :=
  {| z_in := z_in st; z_buf := z_buf st; z_last_bit := z_last_bit st; z_cur_bit := z_cur_bit st; z_first := z_first st; z_done := z_done st;
     z_ics := z_ics st; z_cs := z_cs st; z_limit := z_limit st; z_max := z_max st; z_old := z_old st; z_fc := z_fc st;
     z_head := z_head st; z_tail := z_tail st; z_stack := stk; z_warn := z_warn st |}.

(* code_buf[i]: inside the 260-byte array or R_OOB; bytes at or beyond last_byte are stale in C
   (0 here): the extraction masks them away *)
Definition buf_get (st : lzw) (i : Z) : rres Z :=
  if (i <? 0) || (i >=? code_buf_size) then RErr R_OOB else ROk (znth (z_buf st) i 0).

(* GetDataBlock: count byte, then count bytes *)
Definition get_data_block (s : list Z) : rres (Z * list Z * list Z) :=
  match s with
  | [] => RErr R_EOF
  | count :: rest =>
    if count =? 0 then ROk (0, [], rest)
    else let^ (blk, rest') := rtake count rest in ROk (count, blk, rest')
  end.

(* SkipDataBlocks *)
Fixpoint skip_data_blocks (fuel : nat) (s : list Z) : rres (list Z) :=
  match fuel with
  | O => RErr R_FUEL
  | S f => let^ (count, _, rest) := get_data_block s in
           if count =? 0 then ROk rest else skip_data_blocks f rest
  end.

(* GetCode *)
Fixpoint get_code (fuel : nat) (st : lzw) : rres (Z * lzw) :=
  if z_cur_bit st + z_cs st >? z_last_bit st then
    match fuel with
    | O => RErr R_FUEL
    | S f =>
      if z_first st then ROk (z_clear st, st_flags st false (z_done st))
      else if z_done st then ROk (z_end st, st_warn st)
      else
        let lb := Z.of_nat (length (z_buf st)) in
        let^ b0 := buf_get st (lb - 2) in
        let^ b1 := buf_get st (lb - 1) in
        let^ (count, blk, rest) := get_data_block (z_in st) in
        if count =? 0 then ROk (z_end st, st_warn (st_flags (st_io st rest (z_buf st) (z_last_bit st) (z_cur_bit st)) false true))
        else
          (* &code_buf[2] must hold count bytes *)
          if 2 + count >? code_buf_size then RErr R_OOB else
          get_code f (st_io st rest (b0 :: b1 :: blk) ((2 + count) * 8) (z_cur_bit st - z_last_bit st + 16))
    end
  else
    let offs := z_cur_bit st / 8 in               (* cur_bit >> 3 *)
    let^ c2 := buf_get st (offs + 2) in
    let^ c1 := buf_get st (offs + 1) in
    let^ c0 := buf_get st offs in
    let accum := (c2 * 65536 + c1 * 256 + c0) / 2 ^ (z_cur_bit st mod 8) in
    ROk (accum mod 2 ^ z_cs st,
         st_io st (z_in st) (z_buf st) (z_last_bit st) (z_cur_bit st + z_cs st)).

Definition code_fuel (st : lzw) : nat := S (length (z_in st)).

(* ReInitLZW *)
Definition reinit (st : lzw) : lzw :=
  st_stack (st_codes st (z_ics st + 1) (z_clear st * 2) (z_clear st + 2)) [].

(* do { code = GetCode } while (code == clear_code) *)
Fixpoint skip_clears (fuel : nat) (st : lzw) : rres (Z * lzw) :=
  match fuel with
  | O => RErr R_FUEL
  | S f => let^ (code, st1) := get_code (code_fuel st) st in
           if code =? z_clear st1 then skip_clears f st1 else ROk (code, st1)
  end.

Definition clears_fuel (st : lzw) : nat := S (S (Z.to_nat (z_last_bit st) + 8 * length (z_in st))).

(* while (code >= clear_code) { *sp++ = symbol_tail[code]; code = symbol_head[code]; } *)
Fixpoint expand (fuel : nat) (clear : Z) (hd tl : list Z) (code : Z) (stk : list Z) : rres (Z * list Z) :=
  if code <? clear then ROk (code, stk) else
  match fuel with
  | O => RErr R_FUEL
  | S f =>
    let^ t := arr_get lzw_table_size tl code in
    if Z.of_nat (length stk) >=? lzw_table_size then RErr R_OOB else      (* symbol_stack[LZW_TABLE_SIZE] *)
    let^ h := arr_get lzw_table_size hd code in
    expand f clear hd tl h (t :: stk)
  end.

(* LZWReadByte *)
Definition lzw_read_byte (st : lzw) : rres (Z * lzw) :=
  match z_stack st with
  | b :: rest => ROk (b, st_stack st rest)
  | [] =>
    let^ (code, st1) := get_code (code_fuel st) st in
    if code =? z_clear st1 then
      let st2 := reinit st1 in
      let^ (code2, st3) := skip_clears (clears_fuel st2) st2 in
      let (code3, st4) := if code2 >? z_clear st3 then (0, st_warn st3) else (code2, st3) in
      ROk (code3, st_old st4 code3 code3)
    else if code =? z_end st1 then
      let^ st2 := (if z_done st1 then ROk st1
                   else let^ rest := skip_data_blocks (S (length (z_in st1))) (z_in st1) in
                        ROk (st_flags (st_io st1 rest (z_buf st1) (z_last_bit st1) (z_cur_bit st1)) (z_first st1) true)) in
      ROk (0, st_warn st2)
    else
      (* special case for a not-yet-defined symbol *)
      let^ (code', incode, stk, st2) :=
        (if code >=? z_max st1 then
           let (incode, st2) := if code >? z_max st1
                                then (if lzw_bad_incode_zero then 0 else code, st_warn st1) else (code, st1) in
           if Z.of_nat (length (z_stack st1)) >=? lzw_table_size then RErr R_OOB
           else ROk (z_old st1, incode, [z_fc st1 mod 256], st2)
         else ROk (code, code, [], st1)) in
      let^ (raw, stk') := expand (Z.to_nat lzw_table_size) (z_clear st2) (z_head st2) (z_tail st2) code' stk in
      let st3 := st_old st2 (z_old st2) raw in
      let^ st4 :=
        (if (if lzw_full_test_strict then z_max st3 <? lzw_table_size else z_max st3 <=? lzw_table_size) then
           let^ hd := arr_set lzw_table_size (z_head st3) (z_max st3) (z_old st3 mod 65536) in
           let^ tl := arr_set lzw_table_size (z_tail st3) (z_max st3) (raw mod 256) in
           let mx := z_max st3 + 1 in
           let grow := (mx >=? z_limit st3) &&
                       (if lzw_grow_guard_strict then z_cs st3 <? max_lzw_bits else z_cs st3 <=? max_lzw_bits) in
           ROk (st_codes (st_tabs st3 hd tl) (if grow then z_cs st3 + 1 else z_cs st3)
                         (if grow then z_limit st3 * 2 else z_limit st3) mx)
         else ROk st3) in
      ROk (raw, st_stack (st_old st4 incode raw) stk')
  end.

Fixpoint read_pixels (n : nat) (st : lzw) : rres (list Z * lzw) :=
  match n with
  | O => ROk ([], st)
  | S m => let^ (b, st1) := lzw_read_byte st in
           let^ (l, st2) := read_pixels m st1 in
           ROk (b :: l, st2)
  end.

(* ---------------------------------------------------------------- colormap *)
(* 256 cells of (r, g, b); (-1,-1,-1) = never written *)
Definition cmap := list (Z * Z * Z).
Definition cmap_empty : cmap := repeat (-1, -1, -1) (Z.to_nat gif_maxcolormap).

Fixpoint cmap_set (c : cmap) (n : nat) (v : Z * Z * Z) : cmap :=
  match c, n with
  | [], _ => []
  | _ :: t, O => v :: t
  | x :: t, S m => x :: cmap_set t m v
  end.

(* ReadColorMap: entries 0 .. len-1, three ReadByte each; also: are all entries gray? *)
Fixpoint read_colormap (n : nat) (i : nat) (c : cmap) (gray : bool) (s : list Z) : rres (cmap * bool * list Z) :=
  match n with
  | O => ROk (c, gray, s)
  | S m =>
    match s with
    | r :: g :: b :: rest =>
      if Z.of_nat i >=? gif_maxcolormap then RErr R_OOB else
      read_colormap m (S i) (cmap_set c i (r, g, b)) (gray && (r =? g) && (g =? b)) rest
    | _ => RErr R_EOF
    end
  end.

Definition cmap_get (c : cmap) (i : Z) : rres (Z * Z * Z) :=
  if (i <? 0) || (i >=? gif_maxcolormap) then RErr R_OOB else
  match nth_error c (Z.to_nat i) with
  | Some (r, g, b) => if r <? 0 then RErr R_UNINIT else ROk (r, g, b)
  | None => RErr R_OOB
  end.

(* for (c = colormaplen; c < clear_code; c++) colormap[*][c] = CENTERJSAMPLE *)
Fixpoint cmap_pad (n : nat) (i : nat) (c : cmap) : cmap :=
  match n with
  | O => c
  | S m => cmap_pad m (S i) (cmap_set c i (gif_pad_sample, gif_pad_sample, gif_pad_sample))
  end.

(* ---------------------------------------------------------------- start_input_gif *)
Record gif_hdr := { g_w : Z; g_h : Z; g_interlaced : bool; g_gray : bool; g_cmap : cmap; g_cmaplen : Z; g_ics : Z; g_warn : Z }.

(* the scan for the image separator *)
Fixpoint gif_scan (fuel : nat) (maxpixels : Z) (c : cmap) (cmaplen : Z) (gray : bool) (warn : Z) (s : list Z)
  : rres (gif_hdr * list Z) :=
  match fuel with
  | O => RErr R_FUEL
  | S f =>
    match s with
    | [] => RErr R_EOF
    | ch :: s1 =>
      if ch =? 59 then RErr R_GIF_NOIMAGE                      (* ';' *)
      else if ch =? 33 then                                     (* '!' : DoExtension *)
        match s1 with
        | [] => RErr R_EOF
        | _ :: s2 => let^ s3 := skip_data_blocks (S (length s2)) s2 in gif_scan f maxpixels c cmaplen gray warn s3
        end
      else if negb (ch =? 44) then gif_scan f maxpixels c cmaplen gray (warn + 1) s1      (* WARNMS1 JWRN_GIF_CHAR *)
      else
        match take_n 9 s1 with
        | None => RErr R_EOF
        | Some (d, s2) =>
          let w := le16 d 4 in
          let h := le16 d 6 in
          if (w =? 0) || (h =? 0) then RErr R_GIF_EMPTY
          else if negb (maxpixels =? 0) && (w * h >? maxpixels) then RErr R_TOOBIG
          else
            let fl := znth d 8 0 in
            let inter := negb (Z.land fl 64 =? 0) in
            let^ (c2, cmaplen2, gray2, s3) :=
              (if negb (Z.land fl 128 =? 0) then
                 let len := 2 * 2 ^ (Z.land fl 7) in
                 let^ (c2, g2, s3) := read_colormap (Z.to_nat len) 0 c true s2 in
                 ROk (c2, len, gray || g2, s3)
               else ROk (c, cmaplen, gray, s2)) in
            match s3 with
            | [] => RErr R_EOF
            | ics :: s4 =>
              if (ics <? gif_min_codesize) || (ics >? gif_max_codesize) then RErr R_GIF_CODESIZE
              else ROk ({| g_w := w; g_h := h; g_interlaced := inter; g_gray := gray2; g_cmap := c2; g_cmaplen := cmaplen2;
                           g_ics := ics; g_warn := warn |}, s4)
            end
        end
    end
  end.

Definition gif_header (maxpixels : Z) (s : list Z) : rres (gif_hdr * list Z) :=
  match take_n 6 s with
  | None => RErr R_GIF_NOT
  | Some (sig, s1) =>
    if negb ((znth sig 0 0 =? 71) && (znth sig 1 0 =? 73) && (znth sig 2 0 =? 70)) then RErr R_GIF_NOT else
    match take_n 7 s1 with
    | None => RErr R_EOF
    | Some (lsd, s2) =>
      let w := le16 lsd 0 in
      let h := le16 lsd 2 in
      if (w =? 0) || (h =? 0) then RErr R_GIF_EMPTY
      else if negb (maxpixels =? 0) && (w * h >? maxpixels) then RErr R_TOOBIG
      else
        let fl := znth lsd 4 0 in
        let^ (c, cmaplen, gray, s3) :=
          (if negb (Z.land fl 128 =? 0) then
             let len := 2 * 2 ^ (Z.land fl 7) in
             let^ (c, g, s3) := read_colormap (Z.to_nat len) 0 cmap_empty true s2 in
             ROk (c, len, g, s3)
           else ROk (cmap_empty, 0, false, s2)) in
        gif_scan (S (length s3)) maxpixels c cmaplen gray 0 s3
    end
  end.

(* InitLZWCode *)
Definition lzw_init (ics : Z) (warn : Z) (s : list Z) : lzw :=
  {| z_in := s; z_buf := [0; 0]; z_last_bit := 0; z_cur_bit := 0; z_first := true; z_done := false;
     z_ics := ics; z_cs := ics + 1; z_limit := 2 ^ ics * 2; z_max := 2 ^ ics + 2; z_old := -1; z_fc := -1;
     z_head := repeat (-1) (Z.to_nat lzw_table_size); z_tail := repeat (-1) (Z.to_nat lzw_table_size);
     z_stack := []; z_warn := warn |}.

(* get_interlaced_row: which stored row is output row r *)
Definition irow (h r : Z) : Z :=
  let p2 := (h + 7) / 8 in
  let p3 := p2 + (h + 3) / 8 in
  let p4 := p3 + (h + 1) / 4 in
  let k := r mod 8 in
  if k =? 0 then r / 8
  else if k =? 4 then r / 8 + p2
  else if (k =? 2) || (k =? 6) then r / 4 + p3
  else r / 2 + p4.

Fixpoint map_pixels (gray : bool) (c : cmap) (px : list Z) : rres (list Z) :=
  match px with
  | [] => ROk []
  | p :: t =>
    let^ (r, g, b) := cmap_get c p in
    let^ rest := map_pixels gray c t in
    ROk (if gray then r :: rest else r :: g :: b :: rest)
  end.

Fixpoint out_rows (n : nat) (r : Z) (hd : gif_hdr) (c : cmap) (px : list Z) : rres (list (list Z)) :=
  match n with
  | O => ROk []
  | S m =>
    let src := if g_interlaced hd then irow (g_h hd) r else r in
    if (src <? 0) || (src >=? g_h hd) then RErr R_OOB else      (* access_virt_sarray row index *)
    let^ row := map_pixels (g_gray hd) c (firstn (Z.to_nat (g_w hd)) (skipn (Z.to_nat (src * g_w hd)) px)) in
    let^ rows := out_rows m (r + 1) hd c px in
    ROk (row :: rows)
  end.

(* the whole reader as cjpeg drives it: (width, height, components, warnings, rows) *)
Definition load_gif (maxpixels : Z) (s : list Z) : rres (Z * Z * Z * Z * list (list Z)) :=
  let^ (hd, s1) := gif_header maxpixels s in
  let st0 := lzw_init (g_ics hd) (g_warn hd) s1 in
  let c := cmap_pad (Z.to_nat (z_clear st0 - g_cmaplen hd)) (Z.to_nat (g_cmaplen hd)) (g_cmap hd) in
  let^ (px, st1) := read_pixels (Z.to_nat (g_w hd * g_h hd)) st0 in
  let^ rows := out_rows (Z.to_nat (g_h hd)) 0 hd c px in
  ROk (g_w hd, g_h hd, if g_gray hd then 1 else 3, z_warn st1, rows).
