(* C18 -- which (entry point, file format, precision) combinations reach a row reader, and
   through which sample buffer.  Entry points: tj3LoadImage8/12/16 (turbojpeg-mp.c, compiled
   per sample width W) and cjpeg's main() with -precision N.  Readers: rdppm.c (compiled per
   W, fills the W-bit buffer), rdbmp.c / rdgif.c / rdtarga.c (8-bit only).
   The acceptance rules and buffer fields come from gen/GenImgPrec.v.  No proofs here. *)
From Coq Require Import ZArith Bool.
From LJT Require Import gen.GenImgPrec.
Local Open Scope Z_scope.

Inductive fmt := FPnm | FBmp | FGif | FTga | FUnknown.

(* jinit_read_*(): does the reader compiled for sample width W accept data_precision dp? *)
Definition reader_accepts (f : fmt) (W dp : Z) : bool :=
  match f with
  | FPnm => if W =? 8 then (ppm_low8 <=? dp) && (dp <=? 8) else (W - ppm_low_off <=? dp) && (dp <=? W)
  | FBmp => if bmp_requires_8 then dp =? 8 else true
  | FGif => if gif_requires_8 then dp =? 8 else true
  | FTga => if tga_requires_8 then dp =? 8 else true
  | FUnknown => false
  end.

(* width of the sample buffer (buffer / buffer12 / buffer16) the reader fills *)
Definition reader_fills (f : fmt) (W : Z) : Z :=
  match f with
  | FPnm => if ppm_fills_variant then W else 8
  | FBmp => bmp_fills | FGif => gif_fills | FTga => tga_fills
  | FUnknown => 0
  end.

(* ---- tj3LoadImage<W>(): dispatch on the first byte of the file *)
Definition tj_fmt (c : Z) : fmt := if c =? 66 then FBmp else if c =? 80 then FPnm else FUnknown.

(* cinfo->data_precision when the reader is created (req = TJPARAM_PRECISION) *)
Definition tj_dp (W req : Z) (f : fmt) : Z :=
  match f with
  | FPnm => if (if W =? 8 then (tj_ppm_override_low8 <=? req) && (req <=? 8)
                else (W - tj_ppm_override_low_off <=? req) && (req <=? W))
            then req else W
  | _ => W
  end.

(* Some dp: a reader is created and rows will be copied; None: reported error *)
Definition tj_load_dp (W req : Z) (f : fmt) : option Z :=
  if reader_accepts f W (tj_dp W req f) then Some (tj_dp W req f) else None.

(* width of the buffer tj3LoadImage<W> copies rows from *)
Definition tj_reads (W : Z) : Z := if tj_reads_variant_buffer then W else 8.

(* ---- cjpeg -precision N *)
Definition cj_variant (n : Z) : Z := if n <=? fst cj_thresholds then 8 else if n <=? snd cj_thresholds then 12 else 16.
Definition cj_fmt (is_targa : bool) (c : Z) : fmt :=
  if is_targa then FTga else if c =? 66 then FBmp else if c =? 71 then FGif else if c =? 80 then FPnm
  else if c =? 0 then FTga else FUnknown.
(* the reader variant select_file_type() creates *)
Definition cj_reader_width (f : fmt) (n : Z) : Z := match f with FPnm => cj_variant n | _ => 8 end.
Definition cj_accepts (f : fmt) (n : Z) : bool := reader_accepts f (cj_reader_width f n) n.
(* main() passes src_mgr->buffer / buffer12 / buffer16 to jpeg*_write_scanlines by precision *)
Definition cj_reads (n : Z) : Z := cj_variant n.
