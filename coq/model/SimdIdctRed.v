(* C05 -- reduced-size 2x2 inverse DCT: src/jidctred.c jpeg_idct_2x2 (JLONG arithmetic, int workspace, zero-AC
   shortcuts) and the lane dataflow of jsimd_idct_2x2_sse2 (simd/x86_64/jidctred-sse2.asm: pmullw, pmaddwd pairs,
   dword tmp10 via psrad / pslld, paddd/psubd, rounding, psrad; pass 2: packssdw, pmaddwd, packssdw, packsswb, paddb).
   Only rows / columns 0,1,3,5,7 of the coefficient block are read.  No proofs here. *)
From Coq Require Import List ZArith Bool.
From LJT Require Import lib.Words gen.GenSimdConst model.SimdDct model.SimdIdctFast model.SimdFdctInt model.SimdIdctInt.
Import ListNotations.
Local Open Scope Z_scope.

Definition used : list nat := [0; 1; 3; 5; 7]%nat.
Definition at8 (l : list Z) (r c : nat) : Z := nth (r * 8 + c) l 0.
(* tmp0 of jpeg_idct_2x2 from the four odd inputs (rows/columns 1, 3, 5, 7) *)
Definition c2_tmp0 (z1 z3 z5 z7 : Z) : Z :=
  z7 * (- c_jidctred_FIX_0_720959822) + z5 * c_jidctred_FIX_0_850430095 + z3 * (- c_jidctred_FIX_1_272758580) + z1 * c_jidctred_FIX_3_624509785.
Definition c2_wide (z0 z1 z3 z5 z7 : Z) : Z * Z :=
  let t10 := z0 * 2 ^ (c_jidctred_CONST_BITS + 2) in let t0 := c2_tmp0 z1 z3 z5 z7 in (t10 + t0, t10 - t0).
Definition c2_col (coef q : list Z) (c : nat) : Z * Z :=        (* wsptr[DCTSIZE*0], wsptr[DCTSIZE*1] of column c *)
  let d r := at8 coef r c * at8 q r c in
  if (at8 coef 1 c =? 0) && (at8 coef 3 c =? 0) && (at8 coef 5 c =? 0) && (at8 coef 7 c =? 0)
  then (d 0%nat * 2 ^ jidctred_sse2_PASS1_BITS, d 0%nat * 2 ^ jidctred_sse2_PASS1_BITS)
  else let '(a, b) := c2_wide (d 0%nat) (d 1%nat) (d 3%nat) (d 5%nat) (d 7%nat) in
       let n := c_jidctred_CONST_BITS - jidctred_sse2_PASS1_BITS + 2 in (c_descale a n, c_descale b n).
Definition c2_row (ws : list Z) : list Z :=                     (* ws = [ws0; ws1; ws3; ws5; ws7] *)
  match ws with
  | [w0; w1; w3; w5; w7] =>
      if (w1 =? 0) && (w3 =? 0) && (w5 =? 0) && (w7 =? 0)
      then let v := idct_range_limit (c_descale w0 (jidctred_sse2_PASS1_BITS + 3)) in [v; v]
      else let '(a, b) := c2_wide w0 w1 w3 w5 w7 in
           let n := c_jidctred_CONST_BITS + jidctred_sse2_PASS1_BITS + 3 + 2 in
           [idct_range_limit (c_descale a n); idct_range_limit (c_descale b n)]
  | _ => []
  end.
Definition c_idct_2x2 (coef q : list Z) : list Z :=
  let cols := map (c2_col coef q) used in
  c2_row (map fst cols) ++ c2_row (map snd cols).

(* ---- asm ---- *)
Definition a2_wide (z0 z1 z3 z5 z7 : Z) (t10 : Z) : Z * Z :=     (* word lanes z1..z7, dword tmp10 *)
  let t0 := paddd (maddi z1 z3 jidctred_sse2_PW_F362_MF127) (maddi z5 z7 jidctred_sse2_PW_F085_MF072) in
  (paddd t10 t0, psubd t10 t0).
Definition a2_desc (x : Z) (rnd : Z * list Z) (n : Z) : Z := psrad (paddd x (rd32 rnd)) n.
Definition a2_col (coef q : list Z) (c : nat) : Z * Z :=
  let d r := pmullw (w16 (at8 coef r c)) (w16 (at8 q r c)) in
  let t10 := psrad (dword_hi (d 0%nat)) (16 - jidctred_sse2_CONST_BITS - 2) in
  let '(a, b) := a2_wide (d 0%nat) (d 1%nat) (d 3%nat) (d 5%nat) (d 7%nat) t10 in
  (a2_desc a jidctred_sse2_PD_DESCALE_P1_2 jidctred_sse2_DESCALE_P1_2, a2_desc b jidctred_sse2_PD_DESCALE_P1_2 jidctred_sse2_DESCALE_P1_2).
Definition a2_final (x : Z) : Z :=
  w8 (packsswb (packssdw (a2_desc x jidctred_sse2_PD_DESCALE_P2_2 jidctred_sse2_DESCALE_P2_2)) + nth 0 (snd jidctred_sse2_PB_CENTERJSAMP) 0).
Definition a2_row (ws : list Z) : list Z :=                     (* dword lanes [A0; A1; A3; A5; A7] *)
  match ws with
  | [w0; w1; w3; w5; w7] =>
      let t10 := pslld w0 (jidctred_sse2_CONST_BITS + 2) in
      let '(a, b) := a2_wide 0 (packssdw w1) (packssdw w3) (packssdw w5) (packssdw w7) t10 in
      [a2_final a; a2_final b]
  | _ => []
  end.
Definition asm_idct_2x2 (coef q : list Z) : list Z :=
  let cols := map (a2_col coef q) used in
  a2_row (map fst cols) ++ a2_row (map snd cols).

(* ---- boundary ---- *)
Definition c2_ok (coef q : list Z) : bool :=
  let deq c := map (fun r => at8 coef r c * at8 q r c) used in
  let cols := map (c2_col coef q) used in
  let rowok (ws : list Z) :=
    match ws with
    | [w0; w1; w3; w5; w7] =>
        forallb fits16b [w1; w3; w5; w7] && fits32b w0 && fits32b (w0 * 2 ^ (c_jidctred_CONST_BITS + 2)) &&
        (let '(a, b) := c2_wide w0 w1 w3 w5 w7 in
         forallb (fun s => fits32b s && fits32b (s + 524288) &&
                           (let v := c_descale s (c_jidctred_CONST_BITS + jidctred_sse2_PASS1_BITS + 3 + 2) in (-512 <=? v) && (v <? 512))) [a; b])
    | _ => false
    end in
  forallb (fun c => forallb fits16b (deq c)) used &&
  forallb (fun c => match deq c with [z0; z1; z3; z5; z7] =>
                      let '(a, b) := c2_wide z0 z1 z3 z5 z7 in forallb (fun s => fits32b s && fits32b (s + 4096)) [a; b]
                    | _ => false end) used &&
  rowok (map fst cols) && rowok (map snd cols).
