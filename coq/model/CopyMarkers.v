(* CopyMarkers.v -- executable model of transupp.c jcopy_markers_setup and
   jcopy_markers_execute (C16), and of the way turbojpeg.c tj3Transform drives them
   (TJPARAM_SAVEMARKERS is cast to JCOPY_OPTION; TJXOPT_COPYNONE forces JCOPYOPT_NONE).
   No proofs here. *)
From Coq Require Import List ZArith Bool.
From LJT Require Import gen.GenIccConst model.MarkerRT model.Icc.
Import ListNotations.
Local Open Scope Z_scope.

(* jcopy_markers_setup: the jpeg_save_markers calls, in order *)
Fixpoint save_apps (opt : Z) (ms : list Z) (c : cfg) : cfg :=
  match ms with
  | [] => c
  | m :: r =>
      if (opt =? JCOPYOPT_ALL_EXCEPT_ICC) && (m =? 2) then save_apps opt r c
      else save_apps opt r (jpeg_save_markers c (JPEG_APP0 + m) COPY_SAVE_LIMIT)
  end.

Definition copy_setup (opt : Z) (c : cfg) : cfg :=
  let c1 := if negb (opt =? JCOPYOPT_NONE) && negb (opt =? JCOPYOPT_ICC)
            then jpeg_save_markers c JPEG_COM COPY_SAVE_LIMIT else c in
  let c2 := if (opt =? JCOPYOPT_ALL) || (opt =? JCOPYOPT_ALL_EXCEPT_ICC)
            then save_apps opt [0;1;2;3;4;5;6;7;8;9;10;11;12;13;14;15] c1 else c1 in
  if opt =? JCOPYOPT_ICC then jpeg_save_markers c2 (JPEG_APP0 + 2) COPY_SAVE_LIMIT else c2.

(* the two "reject duplicate" tests *)
Definition is_dup_jfif (write_jfif : bool) (m : saved) : bool :=
  write_jfif && (sm_code m =? JPEG_APP0) && (JFIF_COPY_MINLEN <=? Zlength (sm_data m))
  && has_prefix jfif_sig_copy (sm_data m).
Definition is_dup_adobe (write_adobe : bool) (m : saved) : bool :=
  write_adobe && (sm_code m =? JPEG_APP0 + 14) && (ADOBE_COPY_MINLEN <=? Zlength (sm_data m))
  && has_prefix adobe_sig_copy (sm_data m).

(* loop body of jcopy_markers_execute: true = the marker reaches jpeg_write_marker *)
Definition copy_keeps (opt : Z) (write_jfif write_adobe : bool) (m : saved) : bool :=
  if opt =? JCOPYOPT_NONE then false
  else if (opt =? JCOPYOPT_COMMENTS) && negb (sm_code m =? JPEG_COM) then false
  else if (opt =? JCOPYOPT_ALL_EXCEPT_ICC) && (sm_code m =? JPEG_APP0 + 2) then false
  else if (opt =? JCOPYOPT_ICC) && negb (sm_code m =? JPEG_APP0 + 2) then false
  else if is_dup_jfif write_jfif m then false
  else if is_dup_adobe write_adobe m then false
  else true.

(* jcopy_markers_execute: the jpeg_write_marker(dstinfo, marker, data, data_length) calls *)
Fixpoint copy_execute (opt : Z) (write_jfif write_adobe : bool) (ms : list saved) : list segment :=
  match ms with
  | [] => []
  | m :: r =>
      if copy_keeps opt write_jfif write_adobe m
      then (sm_code m, sm_data m) :: copy_execute opt write_jfif write_adobe r
      else copy_execute opt write_jfif write_adobe r
  end.

(* tj3Transform: option used for setup and for execute *)
Definition tj_setup_option (save_markers : Z) (all_copynone : bool) : Z :=
  if all_copynone then JCOPYOPT_NONE else save_markers.
Definition tj_execute_option (save_markers : Z) (copynone : bool) : Z :=
  if copynone then JCOPYOPT_NONE else save_markers.

(* source header markers -> extra markers of the transformed file: setup, read, execute *)
Definition copy_pipeline (setup_opt exec_opt : Z) (write_jfif write_adobe : bool) (fuel : nat)
  (src_after_soi : list Z) : option (list segment) :=
  match read_app_markers fuel (copy_setup setup_opt cfg_init) hinfo_init [] src_after_soi with
  | None => None
  | Some (_, ms, _) => Some (copy_execute exec_opt write_jfif write_adobe ms)
  end.

(* One decompressor used several times.  jcopy_markers_setup only ever ADDS save requests, and they live in the
   marker reader, which survives jpeg_abort / jpeg_finish_decompress; tj3DecompressHeader adds a request for APP2
   when TJPARAM_SAVEMARKERS is 2 or 4.  The limits in force for the current transform are therefore those of the
   whole history, then the current jcopy_markers_setup. *)
Inductive hstep := HSetup (opt : Z) | HTjHeader (save_markers : Z).
Definition hstep_cfg (c : cfg) (s : hstep) : cfg :=
  match s with
  | HSetup o => copy_setup o c
  | HTjHeader sm => if (sm =? 2) || (sm =? 4) then jpeg_save_markers c (JPEG_APP0 + 2) TJ_ICC_SAVE_LIMIT else c
  end.
Definition history_cfg (hist : list hstep) : cfg := fold_left hstep_cfg hist cfg_init.
Definition copy_pipeline_from (c0 : cfg) (setup_opt exec_opt : Z) (write_jfif write_adobe : bool) (fuel : nat)
  (src_after_soi : list Z) : option (list segment) :=
  match read_app_markers fuel (copy_setup setup_opt c0) hinfo_init [] src_after_soi with
  | None => None
  | Some (_, ms, _) => Some (copy_execute exec_opt write_jfif write_adobe ms)
  end.

(* tj3Transform, per transform: jcopy_markers_execute(dinfo, cinfo, copyOption), then
     iccCopied = (copyOption is JCOPYOPT_ALL or JCOPYOPT_ICC) and the source marker list holds an APP2 marker
                 of at least TJ_ICC_COPIED_MINLEN bytes starting with tj_icc_copied_sig;
     if (this->iccBuf != NULL && this->iccSize != 0 && !iccCopied) jpeg_write_icc_profile(cinfo, iccBuf, iccSize);
   TJ_TRANSFORM_ICC_UNCONDITIONAL = 1 (generated from the source) stands for the older text without the
   iccCopied test.  icc_buf = [] stands for "no profile set with tj3SetICCProfile". *)
Definition copies_app2 (opt : Z) : bool := (opt =? JCOPYOPT_ALL) || (opt =? JCOPYOPT_ICC).
Definition tj_icc_marker (m : saved) : bool :=
  (sm_code m =? JPEG_APP0 + 2) && (TJ_ICC_COPIED_MINLEN <=? Zlength (sm_data m)) && has_prefix tj_icc_copied_sig (sm_data m).
Definition tj_icc_copied (opt : Z) (src : list saved) : bool := copies_app2 opt && existsb tj_icc_marker src.
Definition tj_transform_extras (save_markers : Z) (copynone write_jfif write_adobe : bool)
  (src : list saved) (icc_buf : list Z) : list segment :=
  let opt := tj_execute_option save_markers copynone in
  copy_execute opt write_jfif write_adobe src ++
  (if (TJ_TRANSFORM_ICC_UNCONDITIONAL =? 1) || negb (tj_icc_copied opt src) then
     match icc_buf with
     | [] => []
     | _ => match write_icc icc_buf with Some segs => segs | None => [] end
     end
   else []).
