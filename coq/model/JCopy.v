(* C20 round 4 -- jutils.c jcopy_sample_rows, transcribed over the generated expressions: the list of
   (source row index, destination row index, bytes copied) of its memcpy calls, in program order. *)
From Coq Require Import ZArith List Bool.
From LJT Require Import gen.GenSubsamp.
Import ListNotations.
Local Open Scope Z_scope.

(* for (row = num_rows; row > 0; row--) { inptr = *input_array++; outptr = *output_array++; memcpy(outptr, inptr, count); } *)
Fixpoint jcopy_loop (fuel : nat) (row inrow outrow count : Z) : option (list (Z * Z * Z)) :=
  match fuel with
  | O => if row >? 0 then None else Some []
  | S k => if row >? 0 then option_map (cons (inrow, outrow, count)) (jcopy_loop k (row - 1) (inrow + 1) (outrow + 1) count)
           else Some []
  end.

Definition jcopy_sample_rows (source_row dest_row num_rows num_cols : Z) : option (list (Z * Z * Z)) :=
  jcopy_loop (Z.to_nat num_rows) (jcopy_iterations num_rows) (jcopy_src_first source_row) (jcopy_dst_first dest_row)
             (jcopy_count num_cols).
