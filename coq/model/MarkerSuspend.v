(* MarkerSuspend.v -- executable model of header reading through a SUSPENDING data source (C16).
   jdmarker.c: every marker routine reads through INPUT_BYTE / INPUT_2BYTES, which "return FALSE"
   (suspend) when the source has no more data, and commits what it has consumed only at INPUT_SYNC.
   All routines are atomic (nothing is committed before the whole marker has been read, a resumed
   call starts again at the restart point) except save_marker, which is a RESUMABLE unit:
     first entry   : INPUT_2BYTES(length); allocate the item; cur_marker := item; bytes_read := 0
     copy loop     : INPUT_SYNC  (this commits the length word before any data byte is needed),
                     marker->bytes_read := bytes_read, MAKE_BYTE_AVAIL or suspend, copy what is there
     resumed entry : continue at data + bytes_read
   read_markers keeps cinfo->unread_marker across suspensions, so the marker code is consumed (and
   committed by next_marker) once.  skip_input_data never suspends: the source manager remembers
   what remains to be skipped (pending skip) and applies it when data arrives.
   avail = the bytes between the restart point and the end of the data delivered so far. *)
From Coq Require Import List ZArith Bool.
From LJT Require Import gen.GenIccConst model.MarkerRT.
Import ListNotations.
Local Open Scope Z_scope.

Record partial := mkPartial { p_orig : Z; p_lim : Z; p_got : list Z }.
Inductive pending := PIdle | PCode (code : Z) | PSave (code : Z) (p : partial).
Record sstate := mkSstate { ss_h : hinfo; ss_acc : list saved; ss_pend : pending; ss_skip : Z }.

(* one unit of progress of the COM/APPn part of read_markers on the available bytes;
   None = suspension (nothing more can be committed with these bytes) or a marker outside COM/APPn *)
Definition app_step (c : cfg) (st : sstate) (avail : list Z) : option (sstate * list Z) :=
  if 0 <? ss_skip st then
    match avail with
    | [] => None
    | _ :: _ =>
        let n := Z.min (ss_skip st) (Zlength avail) in
        Some (mkSstate (ss_h st) (ss_acc st) (ss_pend st) (ss_skip st - n), skipn (Z.to_nat n) avail)
    end
  else
    match ss_pend st with
    | PIdle =>
        match next_marker avail with
        | Some (code, r) => Some (mkSstate (ss_h st) (ss_acc st) (PCode code) 0, r)
        | None => None
        end
    | PCode code =>
        if is_app_or_com code then
          match get_2bytes avail with
          | None => None
          | Some (l, r) =>
              let length := l - 2 in
              if c code =? 0 then
                if (code =? M_APP0) || (code =? M_APP14) then
                  (* get_interesting_appn: length word and the interesting bytes, all or nothing *)
                  let numtoread := if APPN_DATA_LEN <=? length then APPN_DATA_LEN
                                   else if 0 <? length then length else 0 in
                  if Zlength r <? numtoread then None
                  else Some (mkSstate (examine code (ss_h st) (firstn (Z.to_nat numtoread) r) numtoread)
                                      (ss_acc st) PIdle (Z.max 0 (length - numtoread)),
                             skipn (Z.to_nat numtoread) r)
                else (* skip_variable *)
                  Some (mkSstate (ss_h st) (ss_acc st) PIdle (Z.max 0 length), r)
              else if 0 <=? length then
                (* save_marker, first entry: the item exists, the length word is behind the restart point *)
                let lim := if length <? c code then length else c code in
                Some (mkSstate (ss_h st) (ss_acc st) (PSave code (mkPartial length lim [])) 0, r)
              else Some (mkSstate (examine code (ss_h st) [] 0) (ss_acc st) PIdle 0, r)
          end
        else None
    | PSave code p =>
        let need := p_lim p - Zlength (p_got p) in
        if need <=? 0 then
          (* done reading: append at marker_list_end, examine, skip the rest of the marker *)
          Some (mkSstate (examine code (ss_h st) (p_got p) (p_lim p))
                         (ss_acc st ++ [mkSaved (byte_of code) (p_orig p) (p_got p)])
                         PIdle (p_orig p - p_lim p), avail)
        else
          match avail with
          | [] => None
          | _ :: _ =>
              let n := Z.min need (Zlength avail) in
              Some (mkSstate (ss_h st) (ss_acc st)
                             (PSave code (mkPartial (p_orig p) (p_lim p) (p_got p ++ firstn (Z.to_nat n) avail))) 0,
                    skipn (Z.to_nat n) avail)
          end
    end.

(* run until nothing more can be done; a suspension is answered by delivering the next chunk *)
Fixpoint susp_run (fuel : nat) (c : cfg) (st : sstate) (avail : list Z) (chunks : list (list Z))
  : sstate * list Z :=
  match fuel with
  | O => (st, avail)
  | S f =>
      match app_step c st avail with
      | Some (st', avail') => susp_run f c st' avail' chunks
      | None =>
          match chunks with
          | [] => (st, avail)
          | ch :: cs => susp_run f c st (avail ++ ch) cs
          end
      end
  end.

(* ----------------------------------------------------------- whole header *)
(* the other markers up to the first SOS: atomic (the whole marker must be available) *)
Record hstate := mkHstate { hs_s : sstate; hs_sofcode : Z; hs_frame : option frame; hs_scan : option scan }.
Inductive hres := HProgress (hs : hstate) (avail : list Z) | HSuspend | HDone (hs : hstate) | HError.

Definition with_s (hs : hstate) (s : sstate) : hstate := mkHstate s (hs_sofcode hs) (hs_frame hs) (hs_scan hs).
Definition idle (s : sstate) (h : hinfo) : sstate := mkSstate h (ss_acc s) PIdle 0.

Definition hdr_step (c : cfg) (hs : hstate) (avail : list Z) : hres :=
  match app_step c (hs_s hs) avail with
  | Some (s', avail') => HProgress (with_s hs s') avail'
  | None =>
      let s := hs_s hs in
      if 0 <? ss_skip s then HSuspend
      else match ss_pend s with
      | PCode code =>
          if is_app_or_com code then HSuspend
          else if code =? M_SOI then HProgress (with_s hs (idle s (ss_h s))) avail
          else match get_2bytes avail with
          | None => HSuspend
          | Some (l, _) =>
              if Zlength avail <? l then HSuspend
              else if code =? M_DRI then
                match get_dri avail with
                | Some (ri, r) =>
                    let h := ss_h s in
                    HProgress (with_s hs (idle s (mkHinfo (h_saw_jfif h) (h_major h) (h_minor h) (h_unit h) (h_xd h) (h_yd h)
                                                           (h_saw_adobe h) (h_transform h) ri))) r
                | None => HError
                end
              else if code =? M_SOS then
                match hs_frame hs with
                | None => HError
                | Some fr =>
                    match get_sos (map c_id (f_comps fr)) avail with
                    | Some (sc, _) => HDone (mkHstate (idle s (ss_h s)) (hs_sofcode hs) (hs_frame hs) (Some sc))
                    | None => HError
                    end
                end
              else match sof_flags code with
              | Some _ =>
                  match hs_frame hs with
                  | Some _ => HError
                  | None => match get_sof avail with
                            | Some (fr, r) => HProgress (mkHstate (idle s (ss_h s)) code (Some fr) None) r
                            | None => HError
                            end
                  end
              | None =>
                  if (code =? M_DQT) || (code =? M_DHT) || (code =? M_DAC) then
                    match skip_segment avail with
                    | Some r => HProgress (with_s hs (idle s (ss_h s))) r
                    | None => HError
                    end
                  else HError
              end
          end
      | _ => HSuspend
      end
  end.

(* delivered = number of bytes handed to the library so far; the restart point at a suspension is
   delivered - |avail|; log collects the restart points (most recent first) *)
Fixpoint susp_header (fuel : nat) (c : cfg) (hs : hstate) (avail : list Z) (chunks : list (list Z))
  (delivered : Z) (log : list Z) : option (hstate * list Z) :=
  match fuel with
  | O => None
  | S f =>
      match hdr_step c hs avail with
      | HProgress hs' avail' => susp_header f c hs' avail' chunks delivered log
      | HDone hs' => Some (hs', log)
      | HError => None
      | HSuspend =>
          match chunks with
          | [] => None
          | ch :: cs => susp_header f c hs (avail ++ ch) cs (delivered + Zlength ch) ((delivered - Zlength avail) :: log)
          end
      end
  end.

Definition hstate_init : hstate := mkHstate (mkSstate hinfo_init [] PIdle 0) 0 None None.
Definition header_of (hs : hstate) : header :=
  mkHeader (ss_h (hs_s hs)) (ss_acc (hs_s hs)) (hs_sofcode hs) (hs_frame hs) (hs_scan hs).
