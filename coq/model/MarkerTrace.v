(* MarkerTrace.v -- executable model of the messages examine_app0 / examine_app14 / save_marker / skip_variable emit
   for COM/APPn markers (C16): JFIF version warning, JFIF trace, thumbnail dimensions and thumbnail-size consistency,
   the JFXX extension codes (thumbnail coded as JPEG / palette / RGB), unknown APP0 / APP14, Adobe.  No proofs here. *)
From Coq Require Import List ZArith Bool.
From LJT Require Import gen.GenIccConst model.MarkerRT.
Import ListNotations.
Local Open Scope Z_scope.

Inductive tr_event :=
| WarnJfifMajor (major minor : Z)            (* JWRN_JFIF_MAJOR *)
| TrJfif (major minor xd yd unit : Z)        (* JTRC_JFIF *)
| TrThumb (w h : Z)                          (* JTRC_JFIF_THUMBNAIL *)
| TrBadThumbSize (n : Z)                     (* JTRC_JFIF_BADTHUMBNAILSIZE *)
| TrThumbJpeg (n : Z) | TrThumbPalette (n : Z) | TrThumbRgb (n : Z)
| TrJfifExt (code n : Z)                     (* JTRC_JFIF_EXTENSION *)
| TrApp0 (n : Z)                             (* JTRC_APP0 *)
| TrAdobe (version flags0 flags1 transform : Z)
| TrApp14 (n : Z)
| TrMisc (code n : Z).                       (* JTRC_MISC_MARKER *)

Definition jfxx_sig : list Z := [74; 70; 88; 88; 0].

(* examine_app0(data, datalen, remaining): totallen = datalen + remaining *)
Definition trace_app0 (data : list Z) (datalen totallen : Z) : list tr_event :=
  if (APP0_DATA_LEN <=? datalen) && has_prefix jfif_sig_examine data then
    let major := nthz data 5 in let minor := nthz data 6 in
    (if major =? 1 then [] else [WarnJfifMajor major minor])
    ++ [TrJfif major minor (nthz data 8 * 256 + nthz data 9) (nthz data 10 * 256 + nthz data 11) (nthz data 7)]
    ++ (if (nthz data 12 =? 0) && (nthz data 13 =? 0) then [] else [TrThumb (nthz data 12) (nthz data 13)])
    ++ (if totallen - APP0_DATA_LEN =? nthz data 12 * nthz data 13 * 3 then [] else [TrBadThumbSize (totallen - APP0_DATA_LEN)])
  else if (6 <=? datalen) && has_prefix jfxx_sig data then
    let x := nthz data 5 in
    if x =? 16 then [TrThumbJpeg totallen] else if x =? 17 then [TrThumbPalette totallen]
    else if x =? 19 then [TrThumbRgb totallen] else [TrJfifExt x totallen]
  else [TrApp0 totallen].

Definition trace_app14 (data : list Z) (datalen totallen : Z) : list tr_event :=
  if (APP14_DATA_LEN <=? datalen) && has_prefix adobe_sig_examine data then
    [TrAdobe (nthz data 5 * 256 + nthz data 6) (nthz data 7 * 256 + nthz data 8) (nthz data 9 * 256 + nthz data 10) (nthz data 11)]
  else [TrApp14 totallen].

(* the messages for one COM/APPn marker with parameter bytes data, under the limits c
   (the part of the marker the routine looks at is the same in the saving and the non-saving path
   because of the APP0 / APP14 floors of jpeg_save_markers) *)
Definition trace_marker (c : cfg) (code : Z) (data : list Z) : list tr_event :=
  let len := Zlength data in
  let seen := if c code =? 0 then (if APPN_DATA_LEN <=? len then APPN_DATA_LEN else if 0 <? len then len else 0)
              else Z.min len (c code) in
  let d := firstn (Z.to_nat seen) data in
  if code =? M_APP0 then trace_app0 d seen len
  else if code =? M_APP14 then trace_app14 d seen len
  else [TrMisc code len].
