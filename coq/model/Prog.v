(* Prog.v -- executable model of the progressive Huffman coder, bit level:
     jcphuff.c  encode_mcu_DC_first, encode_mcu_AC_first (+ _prepare),
                encode_mcu_DC_refine, encode_mcu_AC_refine (+ _prepare),
                emit_eobrun (EOBRUN symbol + appended bits + BE correction bits),
                the forced flush at EOBRUN == 0x7FFF / BE > MAX_CORR_BITS-DCTSIZE2+1,
                finish_pass_phuff / emit_restart (flush of the pending EOBRUN)
     jdphuff.c  decode_mcu_DC_first, decode_mcu_AC_first, decode_mcu_DC_refine,
                decode_mcu_AC_refine
   Point transforms: DC uses the arithmetic shift of the signed value
   (IRIGHT_SHIFT), AC shifts the MAGNITUDE (abs, >>= Al, sign restored).
   The bitmap/count_zeroes formulation of the AC encoders (zerobits, signbits,
   cvalue pointers) is written as the plain "for k in Ss..Se" loop it
   implements; byte equality with the real encoder (SIMD and scalar) is checked
   by the correspondence stream of checks/C03.py.
   The byte/segment/restart layer is Seq.enc_scan / Seq.dec_scan.
   A decoder procedure transforms the CURRENT coefficient block (the virtual
   arrays of jdcoefct.c keep the state between scans).  No proofs here. *)
From Coq Require Import List ZArith Bool Lia.
From LJT Require Import model.Huff model.Seq.
Import ListNotations.
Local Open Scope Z_scope.

Definition EOBRUN_FLUSH : Z := 32767.        (* 0x7FFF *)
Definition MAX_CORR_BITS : Z := 1000.
Definition DCTSIZE2 : Z := 64.

Definition pt_dc (Al v : Z) : Z := Z.shiftr v Al.
Definition pt_ac (Al v : Z) : Z := if v <? 0 then - Z.shiftr (- v) Al else Z.shiftr v Al.

(* positions Ss..Se of the zigzag sequence *)
Definition band_idx (Ss Se : nat) : list nat := seq Ss (S Se - Ss).

(* ------------------------------------------------------------- DC first *)
Section DCFirst.
Variable dct : nat -> codec.
Variable max_coef_bits : Z.
Variable Al : Z.

Fixpoint enc_dcf_mcu (mem : list nat) (blocks : list (list Z)) (ldc : list Z) : option (list bool * list Z) :=
  match mem, blocks with
  | [], [] => Some ([], ldc)
  | ci :: mt, b :: bt =>
      let t2 := pt_dc Al (nth 0%nat b 0) in
      match enc_dc_diff (dct ci) max_coef_bits (t2 - nthZ ldc ci) 1 with
      | None => None
      | Some bits =>
          match enc_dcf_mcu mt bt (upd ci t2 ldc) with
          | None => None
          | Some (rest, ldc') => Some (bits ++ rest, ldc')
          end
      end
  | _, _ => None
  end.

Fixpoint enc_dcf_mcus (mem : list nat) (ms : list (list (list Z))) (ldc : list Z) : option (list bool) :=
  match ms with
  | [] => Some []
  | m :: t =>
      match enc_dcf_mcu mem m ldc with
      | None => None
      | Some (bits, ldc') =>
          match enc_dcf_mcus mem t ldc' with None => None | Some rest => Some (bits ++ rest) end
      end
  end.

(* "(*block)[0] = (JCOEF)LEFT_SHIFT(s, Al)" into the current block *)
Fixpoint dec_dcf_mcu (mem : list nat) (cur : list (list Z)) (ldc : list Z) (bs : list bool)
  : option (list (list Z) * list Z * list bool) :=
  match mem, cur with
  | [], [] => Some ([], ldc, bs)
  | ci :: mt, blk :: ct =>
      match dec_dc_diff (dct ci) bs with
      | None => None
      | Some (d, bs1) =>
          let s := d + nthZ ldc ci in
          match dec_dcf_mcu mt ct (upd ci s ldc) bs1 with
          | None => None
          | Some (bl, ldc', bs2) => Some (upd 0 (Z.shiftl s Al) blk :: bl, ldc', bs2)
          end
      end
  | _, _ => None
  end.

Fixpoint dec_dcf_mcus (mem : list nat) (cur : list (list (list Z))) (ldc : list Z) (bs : list bool)
  : option (list (list (list Z)) * list bool) :=
  match cur with
  | [] => Some ([], bs)
  | c :: t =>
      match dec_dcf_mcu mem c ldc bs with
      | None => None
      | Some (m, ldc', bs1) =>
          match dec_dcf_mcus mem t ldc' bs1 with
          | None => None
          | Some (ml, bs2) => Some (m :: ml, bs2)
          end
      end
  end.
End DCFirst.

(* ------------------------------------------------------------ DC refine *)
Section DCRefine.
Variable Al : Z.

(* "emit_bits(entropy, (unsigned int)(temp >> Al), 1)" : bit Al of the value *)
Definition enc_dcr_mcu (blocks : list (list Z)) : list bool :=
  map (fun b => Z.testbit (nth 0%nat b 0) Al) blocks.

Definition enc_dcr_mcus (ms : list (list (list Z))) : option (list bool) :=
  Some (flat_map enc_dcr_mcu ms).

(* "if (GET_BITS(1)) (*block)[0] |= p1" *)
Fixpoint dec_dcr_mcu (cur : list (list Z)) (bs : list bool) : option (list (list Z) * list bool) :=
  match cur with
  | [] => Some ([], bs)
  | blk :: ct =>
      match bs with
      | [] => None
      | bit :: bs1 =>
          match dec_dcr_mcu ct bs1 with
          | None => None
          | Some (bl, bs2) =>
              Some ((if bit then upd 0 (Z.lor (nth 0%nat blk 0) (Z.shiftl 1 Al)) blk else blk) :: bl, bs2)
          end
      end
  end.

Fixpoint dec_dcr_mcus (cur : list (list (list Z))) (bs : list bool) : option (list (list (list Z)) * list bool) :=
  match cur with
  | [] => Some ([], bs)
  | c :: t =>
      match dec_dcr_mcu c bs with
      | None => None
      | Some (m, bs1) =>
          match dec_dcr_mcus t bs1 with
          | None => None
          | Some (ml, bs2) => Some (m :: ml, bs2)
          end
      end
  end.
End DCRefine.

(* --------------------------------------------------------- emit_eobrun *)
(* "if (EOBRUN > 0) { nbits = JPEG_NBITS_NONZERO(EOBRUN) - 1; if (nbits > 14) ERREXIT;
     emit_symbol(nbits << 4); if (nbits) emit_bits(EOBRUN, nbits); EOBRUN = 0;
     emit_buffered_bits(bit_buffer, BE); BE = 0; }" *)
Definition emit_eobrun (ac : codec) (e : Z) (be : list bool) : option (list bool) :=
  if e >? 0 then
    let nb := nbits e - 1 in
    if nb >? 14 then None
    else match c_enc ac (nb * 16) with
         | None => None
         | Some c => Some (c ++ bits_of (Z.to_nat nb) e ++ be)
         end
  else Some [].

(* ------------------------------------------------------------- AC first *)
Section ACFirst.
Variable ac : codec.
Variable max_coef_bits : Z.
Variables Ss Se : nat.
Variable Al : Z.

Definition acf_band (b : list Z) : list Z := map (fun k => pt_ac Al (nth (order k) b 0)) (band_idx Ss Se).

(* one block (= one MCU); e = entropy->EOBRUN.  Returns bits and the new EOBRUN *)
Definition enc_acf_block (b : list Z) (e : Z) : option (list bool * Z) :=
  let band := acf_band b in
  let anynz := negb (forallb (Z.eqb 0) band) in
  (* "if (zerobits && (entropy->EOBRUN > 0)) emit_eobrun(entropy);" *)
  match (if anynz then emit_eobrun ac e [] else Some []) with
  | None => None
  | Some pre =>
      let e0 := if anynz then 0 else e in
      match enc_band ac max_coef_bits band 0 with
      | None => None
      | Some (bits, r) =>
          if r >? 0 then                      (* trailing zeroes: count an EOB *)
            let e1 := e0 + 1 in
            if e1 =? EOBRUN_FLUSH then
              match emit_eobrun ac e1 [] with
              | None => None
              | Some fl => Some (pre ++ bits ++ fl, 0)
              end
            else Some (pre ++ bits, e1)
          else Some (pre ++ bits, e0)
      end
  end.

(* one restart interval incl. the flush of finish_pass_phuff / emit_restart *)
Fixpoint enc_acf_blocks (bl : list (list Z)) (e : Z) : option (list bool) :=
  match bl with
  | [] => emit_eobrun ac e []
  | b :: t =>
      match enc_acf_block b e with
      | None => None
      | Some (bits, e') =>
          match enc_acf_blocks t e' with None => None | Some rest => Some (bits ++ rest) end
      end
  end.

(* "for (k = cinfo->Ss; k <= Se; k++) {...}" ; returns block, EOBRUN, bits *)
Fixpoint dec_acf_band (fuel : nat) (k : nat) (blk : list Z) (bs : list bool)
  : option (list Z * Z * list bool) :=
  match fuel with
  | O => None
  | S f =>
      if (Se <? k)%nat then Some (blk, 0, bs)
      else
        match c_dec ac bs with
        | None => None
        | Some (sym, bs1) =>
            let r := sym / 16 in
            let s := sym mod 16 in
            if s =? 0 then
              if r =? 15 then dec_acf_band f (k + 16)%nat blk bs1
              else
                if r =? 0 then Some (blk, 0, bs1)         (* EOBRUN = 1; EOBRUN-- *)
                else match get_bits r bs1 with
                     | None => None
                     | Some (x, bs2) => Some (blk, 2 ^ r + x - 1, bs2)
                     end
            else
              let k' := (k + Z.to_nat r)%nat in
              match get_bits s bs1 with
              | None => None
              | Some (x, bs2) =>
                  dec_acf_band f (S k') (upd (order k') (Z.shiftl (huff_extend x s) Al) blk) bs2
              end
        end
  end.

Fixpoint dec_acf_blocks (cur : list (list Z)) (E : Z) (bs : list bool) : option (list (list Z) * list bool) :=
  match cur with
  | [] => Some ([], bs)
  | blk :: t =>
      if E >? 0 then
        match dec_acf_blocks t (E - 1) bs with
        | None => None
        | Some (bl, bs') => Some (blk :: bl, bs')
        end
      else
        match dec_acf_band 64 Ss blk bs with
        | None => None
        | Some (blk', E', bs1) =>
            match dec_acf_blocks t E' bs1 with
            | None => None
            | Some (bl, bs2) => Some (blk' :: bl, bs2)
            end
        end
  end.
End ACFirst.

(* ------------------------------------------------------------ AC refine *)
Section ACRefine.
Variable ac : codec.
Variables Ss Se : nat.
Variable Al : Z.

(* encode_mcu_AC_refine_prepare: absvalues[], sign, EOB = band index of the
   last coefficient whose shifted magnitude is exactly 1 (0 if none) *)
Definition acr_abs (b : list Z) : list (Z * bool) :=
  map (fun k => let v := nth (order k) b 0 in (Z.shiftr (Z.abs v) Al, v <? 0)) (band_idx Ss Se).

Fixpoint acr_eob (l : list (Z * bool)) (idx EOB : nat) : nat :=
  match l with
  | [] => EOB
  | (a, _) :: t => acr_eob t (S idx) (if a =? 1 then idx else EOB)
  end.

(* main loop; state: r, BR bits, EOBRUN e, BE bits.  The "while (r > 15 && k <= EOB)"
   loop is folded: the first ZRL is preceded by emit_eobrun and followed by the
   BR bits, the remaining r/16 - 1 ZRLs are bare *)
Fixpoint enc_acr_loop (l : list (Z * bool)) (idx EOB : nat) (r : Z) (br : list bool) (e : Z) (be : list bool)
  : option (list bool * Z * list bool * Z * list bool) :=
  match l with
  | [] => Some ([], r, br, e, be)
  | (a, neg) :: t =>
      if a =? 0 then enc_acr_loop t (S idx) EOB (r + 1) br e be
      else
        let nz := if (r >? 15) && (idx <=? EOB)%nat then r / 16 else 0 in
        match (if nz >? 0 then
                 match emit_eobrun ac e be, c_enc ac 240 with
                 | Some fl, Some z => Some (fl ++ z ++ br ++ rep_bits (Z.to_nat (nz - 1)) z, r - 16 * nz, @nil bool, 0, @nil bool)
                 | _, _ => None
                 end
               else Some ([], r, br, e, be)) with
        | None => None
        | Some (o1, r1, br1, e1, be1) =>
            if a >? 1 then
              (* correction bit of an already-nonzero coefficient *)
              match enc_acr_loop t (S idx) EOB r1 (br1 ++ [Z.odd a]) e1 be1 with
              | None => None
              | Some (o2, r2, br2, e2, be2) => Some (o1 ++ o2, r2, br2, e2, be2)
              end
            else
              match emit_eobrun ac e1 be1, c_enc ac (r1 * 16 + 1) with
              | Some fl, Some c =>
                  match enc_acr_loop t (S idx) EOB 0 [] 0 [] with
                  | None => None
                  | Some (o2, r2, br2, e2, be2) =>
                      Some (o1 ++ fl ++ c ++ [negb neg] ++ br1 ++ o2, r2, br2, e2, be2)
                  end
              | _, _ => None
              end
        end
  end.

Definition enc_acr_block (b : list Z) (e : Z) (be : list bool) : option (list bool * Z * list bool) :=
  let l := acr_abs b in
  match enc_acr_loop l 0 (acr_eob l 0 0) 0 [] e be with
  | None => None
  | Some (o, r, br, e1, be1) =>
      if (r >? 0) || negb (match br with [] => true | _ => false end) then
        let e2 := e1 + 1 in
        let be2 := be1 ++ br in
        if (e2 =? EOBRUN_FLUSH) || (Z.of_nat (length be2) >? MAX_CORR_BITS - DCTSIZE2 + 1) then
          match emit_eobrun ac e2 be2 with
          | None => None
          | Some fl => Some (o ++ fl, 0, [])
          end
        else Some (o, e2, be2)
      else Some (o, e1, be1)
  end.

Fixpoint enc_acr_blocks (bl : list (list Z)) (e : Z) (be : list bool) : option (list bool) :=
  match bl with
  | [] => emit_eobrun ac e be
  | b :: t =>
      match enc_acr_block b e be with
      | None => None
      | Some (bits, e', be') =>
          match enc_acr_blocks t e' be' with None => None | Some rest => Some (bits ++ rest) end
      end
  end.

(* decoder *)
Definition p1 : Z := Z.shiftl 1 Al.

(* correction bit applied to an already-nonzero coefficient *)
Definition acr_correct (c : Z) (bit : bool) : Z :=
  if bit then
    if Z.land c p1 =? 0 then (if c >=? 0 then c + p1 else c - p1) else c
  else c.

(* the inner "do { ... k++; } while (k <= Se);" *)
Fixpoint acr_skip (fuel : nat) (k : nat) (r : Z) (blk : list Z) (bs : list bool)
  : option (nat * list Z * list bool) :=
  match fuel with
  | O => None
  | S f =>
      let c := nth (order k) blk 0 in
      if negb (c =? 0) then
        match bs with
        | [] => None
        | bit :: bs1 =>
            let blk1 := upd (order k) (acr_correct c bit) blk in
            if (S k <=? Se)%nat then acr_skip f (S k) r blk1 bs1 else Some (S k, blk1, bs1)
        end
      else if r - 1 <? 0 then Some (k, blk, bs)
      else if (S k <=? Se)%nat then acr_skip f (S k) (r - 1) blk bs else Some (S k, blk, bs)
  end.

(* "for (; k <= Se; k++) {...}" with EOBRUN == 0; returns block, EOBRUN, k, bits *)
Fixpoint dec_acr_loop (fuel : nat) (k : nat) (blk : list Z) (bs : list bool)
  : option (list Z * Z * nat * list bool) :=
  match fuel with
  | O => None
  | S f =>
      if (Se <? k)%nat then Some (blk, 0, k, bs)
      else
        match c_dec ac bs with
        | None => None
        | Some (sym, bs1) =>
            let r := sym / 16 in
            let s := sym mod 16 in
            if s =? 0 then
              if r =? 15 then
                match acr_skip 65 k 15 blk bs1 with
                | None => None
                | Some (k', blk', bs2) => dec_acr_loop f (S k') blk' bs2
                end
              else
                if r =? 0 then Some (blk, 1, k, bs1)
                else match get_bits r bs1 with
                     | None => None
                     | Some (x, bs2) => Some (blk, 2 ^ r + x, k, bs2)
                     end
            else
              match bs1 with
              | [] => None
              | bit :: bs2 =>
                  let v := if bit then p1 else - p1 in
                  match acr_skip 65 k r blk bs2 with
                  | None => None
                  | Some (k', blk', bs3) => dec_acr_loop f (S k') (upd (order k') v blk') bs3
                  end
              end
        end
  end.

(* "if (EOBRUN > 0) { for (; k <= Se; k++) correction bits }" *)
Fixpoint acr_tail (n : nat) (k : nat) (blk : list Z) (bs : list bool) : option (list Z * list bool) :=
  match n with
  | O => Some (blk, bs)
  | S n' =>
      let c := nth (order k) blk 0 in
      if negb (c =? 0) then
        match bs with
        | [] => None
        | bit :: bs1 => acr_tail n' (S k) (upd (order k) (acr_correct c bit) blk) bs1
        end
      else acr_tail n' (S k) blk bs
  end.

Definition dec_acr_block (blk : list Z) (E : Z) (bs : list bool) : option (list Z * Z * list bool) :=
  match (if E =? 0 then dec_acr_loop 65 Ss blk bs else Some (blk, E, Ss, bs)) with
  | None => None
  | Some (blk1, E1, k, bs1) =>
      if E1 >? 0 then
        match acr_tail (S Se - k) k blk1 bs1 with
        | None => None
        | Some (blk2, bs2) => Some (blk2, E1 - 1, bs2)
        end
      else Some (blk1, E1, bs1)
  end.

Fixpoint dec_acr_blocks (cur : list (list Z)) (E : Z) (bs : list bool) : option (list (list Z) * list bool) :=
  match cur with
  | [] => Some ([], bs)
  | blk :: t =>
      match dec_acr_block blk E bs with
      | None => None
      | Some (blk', E', bs1) =>
          match dec_acr_blocks t E' bs1 with
          | None => None
          | Some (bl, bs2) => Some (blk' :: bl, bs2)
          end
      end
  end.
End ACRefine.

(* ----------------------------------------------------- scans (byte level) *)
Definition dcf_enc_scan (dct : nat -> codec) (mcb Al : Z) (mem : list nat) (ncomp Ri : nat) ms :=
  enc_scan _ (fun seg => enc_dcf_mcus dct mcb Al mem seg (repeat 0 ncomp)) Ri ms.
Definition dcf_dec_scan (dct : nat -> codec) (Al : Z) (mem : list nat) (ncomp Ri : nat) cur bytes :=
  dec_scan _ _ (fun seg bs => dec_dcf_mcus dct Al mem seg (repeat 0 ncomp) bs) Ri cur bytes.
Definition dcr_enc_scan (Al : Z) (Ri : nat) ms := enc_scan _ (enc_dcr_mcus Al) Ri ms.
Definition dcr_dec_scan (Al : Z) (Ri : nat) cur bytes := dec_scan _ _ (dec_dcr_mcus Al) Ri cur bytes.
Definition acf_enc_scan (ac : codec) (mcb : Z) (Ss Se : nat) (Al : Z) (Ri : nat) bl :=
  enc_scan _ (fun seg => enc_acf_blocks ac mcb Ss Se Al seg 0) Ri bl.
Definition acf_dec_scan (ac : codec) (Ss Se : nat) (Al : Z) (Ri : nat) cur bytes :=
  dec_scan _ _ (fun seg bs => dec_acf_blocks ac Ss Se Al seg 0 bs) Ri cur bytes.
Definition acr_enc_scan (ac : codec) (Ss Se : nat) (Al : Z) (Ri : nat) bl :=
  enc_scan _ (fun seg => enc_acr_blocks ac Ss Se Al seg 0 []) Ri bl.
Definition acr_dec_scan (ac : codec) (Ss Se : nat) (Al : Z) (Ri : nat) cur bytes :=
  dec_scan _ _ (fun seg bs => dec_acr_blocks ac Ss Se Al seg 0 bs) Ri cur bytes.
