(* DCoefPos.v -- the block positions consume_data (jdcoefct.c) hands to the entropy decoder for one MCU, as (component,
   row, column) inside the component's virtual block array (C01).  comps = (component_index, h_samp_factor, v_samp_factor)
   of the scan; interleaved scan: MCU_width = h, MCU_height = v, yoffset = 0; single-component scan: one block per MCU,
   column = MCU_col_num, row = input_iMCU_row * v + yoffset.  No proofs here. *)
From Coq Require Import List ZArith Bool Lia.
From LJT Require Import gen.GenLimits model.Huff model.DMarkers model.DCoef.
Import ListNotations.
Local Open Scope Z_scope.

Definition block_row (r v y yoff : Z) : Z := r * v + (y + yoff).      (* access window starts at r * v; buffer[ci][yindex + yoffset] *)

Definition comp_positions (r yoff m : Z) (c : Z * Z * Z) : list (Z * Z * Z) :=
  let '(ci, h, v) := c in
  flat_map (fun y => map (fun x => (ci, block_row r v (Z.of_nat y) yoff, interleaved_col m h (Z.of_nat x))) (seq 0 (Z.to_nat h)))
           (seq 0 (Z.to_nat v)).

Definition mcu_positions (il : bool) (r yoff m : Z) (comps : list (Z * Z * Z)) : list (Z * Z * Z) :=
  if il then flat_map (comp_positions r yoff m) comps
  else match comps with
       | (ci, h, v) :: _ => [(ci, block_row r v 0 yoff, m)]
       | [] => []
       end.
