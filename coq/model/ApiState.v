(* C12 -- abstract TurboJPEG / libjpeg instance state and a small command language in
   which the API entry points are written (model/ApiOps.v).

   state  = scalar members (tjinstance parameters, global_state, marker-reader flags,
            compression parameters, ...) x image-pool pointer members, each carrying the
            EPOCH of the image pool it was allocated in, x the pool epoch of each object
            (jpeg_abort bumps it: every older pointer is dangling) x destination record.
   A command may read members, write them, allocate in the image pool, use a pointer
   (UseAfterFree when its epoch is old), abort, observe a value (the op's result is the
   list of observations) and raise a libjpeg error (longjmp to the installed setjmp
   handler) or a TurboJPEG THROW (goto bailout).  No proofs in this file. *)
From Coq Require Import List ZArith String Bool.
Import ListNotations.
Local Open Scope Z_scope.

Inductive obj := OC | OD | OT.             (* cinfo, dinfo, tjinstance *)
Definition fld := (obj * string)%type.

Definition obj_eqb (a b : obj) : bool :=
  match a, b with OC, OC | OD, OD | OT, OT => true | _, _ => false end.
Definition fld_eqb (a b : fld) : bool := obj_eqb (fst a) (fst b) && String.eqb (snd a) (snd b).
Fixpoint memf (f : fld) (l : list fld) : bool :=
  match l with [] => false | g :: t => fld_eqb f g || memf f t end.

Definition gsc : fld := (OC, "global_state"%string).
Definition gsd : fld := (OD, "global_state"%string).
Definition CSTART : Z := 100.
Definition DSTART : Z := 200.

Record state := mkst {
  sc : fld -> Z;                  (* scalar members *)
  pt : fld -> option Z;           (* image-pool pointers: None = NULL, Some e = allocated in epoch e *)
  ep : obj -> Z                   (* current image-pool epoch of each object *)
}.

Definition upd_sc (s : state) (f : fld) (v : Z) : state :=
  mkst (fun g => if fld_eqb g f then v else sc s g) (pt s) (ep s).
Definition upd_pt (s : state) (f : fld) (v : option Z) : state :=
  mkst (sc s) (fun g => if fld_eqb g f then v else pt s g) (ep s).

Inductive pstatus := PNull | PLive | PStale.
Definition pstat (s : state) (p : fld) : pstatus :=
  match pt s p with
  | None => PNull
  | Some e => if Z.eqb e (ep s (fst p)) then PLive else PStale
  end.

(* jpeg_abort: free the image pool (epoch + 1), global_state := START; the decompressor
   also forgets its marker list *)
Definition abort (s : state) (o : obj) : state :=
  let s1 := mkst (sc s) (pt s) (fun o' => if obj_eqb o' o then ep s o + 1 else ep s o') in
  match o with
  | OC => upd_sc s1 gsc CSTART
  | OD => upd_pt (upd_sc s1 gsd DSTART) (OD, "marker_list"%string) None
  | OT => s1
  end.

(* ---------------------------------------------------------------- expressions *)
Inductive expr :=
  | EC (z : Z)
  | EA (name : string)                 (* argument of the call / observed fact about the input *)
  | EG (f : fld)
  | EEq (a b : expr) | ELt (a b : expr) | ELe (a b : expr)
  | EAnd (a b : expr) | EOr (a b : expr) | ENot (a : expr)
  | EIte (c a b : expr).

Definition b2z (b : bool) : Z := if b then 1 else 0.
Definition env := string -> Z.

Fixpoint eval (en : env) (s : state) (e : expr) : Z :=
  match e with
  | EC z => z
  | EA n => en n
  | EG f => sc s f
  | EEq a b => b2z (Z.eqb (eval en s a) (eval en s b))
  | ELt a b => b2z (Z.ltb (eval en s a) (eval en s b))
  | ELe a b => b2z (Z.leb (eval en s a) (eval en s b))
  | EAnd a b => b2z (negb (Z.eqb (eval en s a) 0) && negb (Z.eqb (eval en s b) 0))
  | EOr a b => b2z (negb (Z.eqb (eval en s a) 0) || negb (Z.eqb (eval en s b) 0))
  | ENot a => b2z (Z.eqb (eval en s a) 0)
  | EIte c a b => if Z.eqb (eval en s c) 0 then eval en s b else eval en s a
  end.

Fixpoint reads (e : expr) : list fld :=
  match e with
  | EC _ | EA _ => []
  | EG f => [f]
  | EEq a b | ELt a b | ELe a b | EAnd a b | EOr a b => reads a ++ reads b
  | ENot a => reads a
  | EIte c a b => reads c ++ reads a ++ reads b
  end.

(* ---------------------------------------------------------------- destination manager + heap *)
(* buffers are numbered; `live` = currently allocated; the "caller" holds at most one
   JPEG buffer (the one it passes to / receives from the compression functions) *)
Record dest := mkdest {
  d_newbuffer : option Z;         (* dest->newbuffer *)
  d_buffer : option Z;            (* dest->buffer *)
  d_alloc : bool;                 (* dest->alloc *)
  live : list Z;
  next_buf : Z;
  caller_buf : option Z;
  d_doublefree : bool             (* free() of a buffer that is not live *)
}.
Definition dest0 : dest := mkdest None None false [] 1 None false.

Fixpoint zmem (b : Z) (l : list Z) : bool := match l with [] => false | x :: t => Z.eqb x b || zmem b t end.
Fixpoint zremove (b : Z) (l : list Z) : list Z :=
  match l with [] => [] | x :: t => if Z.eqb x b then t else x :: zremove b t end.

Definition heap_free (d : dest) (b : option Z) : dest :=
  match b with
  | None => d
  | Some x => if zmem x (live d)
              then mkdest (d_newbuffer d) (d_buffer d) (d_alloc d) (zremove x (live d)) (next_buf d) (caller_buf d) (d_doublefree d)
              else mkdest (d_newbuffer d) (d_buffer d) (d_alloc d) (live d) (next_buf d) (caller_buf d) true
  end.
Definition heap_alloc (d : dest) : dest * Z :=
  (mkdest (d_newbuffer d) (d_buffer d) (d_alloc d) (next_buf d :: live d) (next_buf d + 1) (caller_buf d) (d_doublefree d), next_buf d).

Inductive dact :=
  | DArgNull        (* caller: tj3Free(its buffer); *jpegBuf = NULL *)
  | DArgFresh       (* caller: nb = tj3Alloc(..); tj3Free(old); *jpegBuf = nb *)
  | DArgReuse       (* caller passes the buffer it holds *)
  | DMemDest (forget : bool)   (* jpeg_mem_dest_tj(cinfo, &buf, &size, alloc); forget = the F2 fix is present *)
  | DGrow           (* empty_mem_output_buffer *)
  | DTerm.          (* term_mem_destination *)

Definition set_caller (d : dest) (c : option Z) : dest :=
  mkdest (d_newbuffer d) (d_buffer d) (d_alloc d) (live d) (next_buf d) c (d_doublefree d).
Definition set_dest (d : dest) (nb b : option Z) (al : bool) : dest :=
  mkdest nb b al (live d) (next_buf d) (caller_buf d) (d_doublefree d).
Definition optz_eqb (a b : option Z) : bool :=
  match a, b with Some x, Some y => Z.eqb x y | None, None => true | _, _ => false end.

Definition dstep (a : dact) (alloc : bool) (d : dest) : dest :=
  match a with
  | DArgNull => set_caller (heap_free d (caller_buf d)) None
  | DArgFresh => let (d1, b) := heap_alloc d in set_caller (heap_free d1 (caller_buf d)) (Some b)
  | DArgReuse => d
  | DMemDest forget =>
      let reused := optz_eqb (d_buffer d) (caller_buf d) && (match caller_buf d with Some _ => true | None => false end) && alloc in
      let nb := if reused then d_newbuffer d else if forget then None else d_newbuffer d in
      match caller_buf d with
      | None => if alloc then let (d1, b) := heap_alloc d in set_caller (set_dest d1 (Some b) (Some b) alloc) (Some b)
                else set_dest d nb (d_buffer d) alloc          (* ERREXIT(JERR_BUFFER_SIZE): raised by the program *)
      | Some c => set_dest d nb (Some c) alloc
      end
  | DGrow =>
      if d_alloc d then
        let (d1, b) := heap_alloc d in
        let d2 := heap_free d1 (d_newbuffer d) in
        set_dest d2 (Some b) (Some b) true
      else d
  | DTerm => if d_alloc d then set_caller d (d_buffer d) else d
  end.

(* ---------------------------------------------------------------- commands *)
Inductive target := TBailout | TReturn.
Inductive cmd :=
  | CSkip
  | CSeq (a b : cmd)
  | CSet (f : fld) (e : expr)
  | CAlloc (p : fld)                 (* p := pointer into the CURRENT image pool of its object *)
  | CNull (p : fld)
  | CDeref (p : fld)                 (* use the object p points to *)
  | CIfNull (p : fld) (a b : cmd)    (* a when p == NULL, b otherwise *)
  | CIf (e : expr) (a b : cmd)
  | CAbort (o : obj)
  | CObs (tag : string) (e : expr)   (* the call's result depends on this value *)
  | CRaise                           (* ERREXIT: longjmp to the installed handler *)
  | CSetjmp (i : nat)
  | CGoto (t : target)
  | CDest (a : dact) (alloc : expr).

Inductive merr := UseAfterFree (p : fld) | NullDeref (p : fld).
Inductive ctl := KNext | KHandler | KBailout | KReturn.

Record xstate := mkx {
  xs : state;
  xd : dest;
  xobs : list (string * Z);
  xerr : option merr;            (* first memory error *)
  xh : nat                       (* index of the installed setjmp handler *)
}.
Definition set_xs (x : xstate) (s : state) : xstate := mkx s (xd x) (xobs x) (xerr x) (xh x).
Definition add_err (x : xstate) (e : merr) : xstate :=
  mkx (xs x) (xd x) (xobs x) (match xerr x with Some e0 => Some e0 | None => Some e end) (xh x).

Fixpoint exec (en : env) (c : cmd) (x : xstate) : xstate * ctl :=
  match c with
  | CSkip => (x, KNext)
  | CSeq a b => let (x1, k) := exec en a x in
                match k with KNext => exec en b x1 | _ => (x1, k) end
  | CSet f e => (set_xs x (upd_sc (xs x) f (eval en (xs x) e)), KNext)
  | CAlloc p => (set_xs x (upd_pt (xs x) p (Some (ep (xs x) (fst p)))), KNext)
  | CNull p => (set_xs x (upd_pt (xs x) p None), KNext)
  | CDeref p => match pstat (xs x) p with
                | PLive => (x, KNext)
                | PStale => (add_err x (UseAfterFree p), KNext)
                | PNull => (add_err x (NullDeref p), KNext)
                end
  | CIfNull p a b => match pt (xs x) p with None => exec en a x | Some _ => exec en b x end
  | CIf e a b => if Z.eqb (eval en (xs x) e) 0 then exec en b x else exec en a x
  | CAbort o => (set_xs x (abort (xs x) o), KNext)
  | CObs tag e => (mkx (xs x) (xd x) ((tag, eval en (xs x) e) :: xobs x) (xerr x) (xh x), KNext)
  | CRaise => (x, KHandler)
  | CSetjmp i => (mkx (xs x) (xd x) (xobs x) (xerr x) i, KNext)
  | CGoto TBailout => (x, KBailout)
  | CGoto TReturn => (x, KReturn)
  | CDest a al => (mkx (xs x) (dstep a (negb (Z.eqb (eval en (xs x) al) 0)) (xd x)) (xobs x) (xerr x) (xh x), KNext)
  end.

Record prog := mkprog { p_body : cmd; p_handlers : list cmd; p_bailout : cmd }.

(* body; a raised error runs the installed handler; handler and body fall into / jump to
   the bailout block; `return` leaves at once *)
Definition run_prog (en : env) (p : prog) (x : xstate) : xstate :=
  let (x1, k1) := exec en (p_body p) x in
  match k1 with
  | KReturn => x1
  | KNext | KBailout => fst (exec en (p_bailout p) x1)
  | KHandler =>
      let (x2, k2) := exec en (nth (xh x1) (p_handlers p) (CGoto TBailout)) x1 in
      match k2 with
      | KReturn => x2
      | _ => fst (exec en (p_bailout p) x2)
      end
  end.

(* ---------------------------------------------------------------- static analysis *)
(* abstract state: the two global_state values are tracked as constants (path by path);
   a_s = scalar members whose value is the same in the two runs being compared;
   a_p = pointer members that point into the current image pool of their object;
   a_n = pointer members known to be NULL *)
Record astate := mka { a_c : Z; a_d : Z; a_s : list fld; a_p : list fld; a_n : list fld }.

Definition is_gs (f : fld) : bool := fld_eqb f gsc || fld_eqb f gsd.
Definition sdef (a : astate) (f : fld) : bool := is_gs f || memf f (a_s a).
Definition alldef (a : astate) (l : list fld) : bool := forallb (sdef a) l.

(* three-valued evaluation using only constants and the two tracked global_state values *)
Fixpoint aeval (a : astate) (e : expr) : option Z :=
  match e with
  | EC z => Some z
  | EA _ => None
  | EG f => if fld_eqb f gsc then Some (a_c a) else if fld_eqb f gsd then Some (a_d a) else None
  | EEq x y => match aeval a x, aeval a y with Some u, Some v => Some (b2z (Z.eqb u v)) | _, _ => None end
  | ELt x y => match aeval a x, aeval a y with Some u, Some v => Some (b2z (Z.ltb u v)) | _, _ => None end
  | ELe x y => match aeval a x, aeval a y with Some u, Some v => Some (b2z (Z.leb u v)) | _, _ => None end
  | EAnd x y => match aeval a x, aeval a y with
                | Some u, Some v => Some (b2z (negb (Z.eqb u 0) && negb (Z.eqb v 0)))
                | Some u, None => if Z.eqb u 0 then Some 0 else None
                | None, Some v => if Z.eqb v 0 then Some 0 else None
                | None, None => None
                end
  | EOr x y => match aeval a x, aeval a y with
               | Some u, Some v => Some (b2z (negb (Z.eqb u 0) || negb (Z.eqb v 0)))
               | Some u, None => if Z.eqb u 0 then None else Some 1
               | None, Some v => if Z.eqb v 0 then None else Some 1
               | None, None => None
               end
  | ENot x => match aeval a x with Some u => Some (b2z (Z.eqb u 0)) | None => None end
  | EIte c x y => match aeval a c with
                  | Some u => if Z.eqb u 0 then aeval a y else aeval a x
                  | None => None
                  end
  end.

Fixpoint inter (l m : list fld) : list fld :=
  match l with [] => [] | f :: t => if memf f m then f :: inter t m else inter t m end.
Fixpoint removef (f : fld) (l : list fld) : list fld :=
  match l with [] => [] | g :: t => if fld_eqb g f then removef f t else g :: removef f t end.
Definition remove_obj (o : obj) (l : list fld) : list fld := filter (fun f => negb (obj_eqb (fst f) o)) l.
Definition addf (f : fld) (l : list fld) : list fld := if memf f l then l else f :: l.

(* sets of abstract states, one per (a_c, a_d) pair *)
Fixpoint ains (a : astate) (l : list astate) : list astate :=
  match l with
  | [] => [a]
  | b :: t => if Z.eqb (a_c a) (a_c b) && Z.eqb (a_d a) (a_d b)
              then mka (a_c b) (a_d b) (inter (a_s a) (a_s b)) (inter (a_p a) (a_p b)) (inter (a_n a) (a_n b)) :: t
              else b :: ains a t
  end.
Definition aunion (l m : list astate) : list astate := fold_right ains m l.

Record ares := mkr { r_next : list astate; r_hand : list astate; r_bail : list astate; r_ret : list astate }.
Definition rnext (a : astate) : ares := mkr [a] [] [] [].
Definition runion (r1 r2 : ares) : ares :=
  mkr (aunion (r_next r1) (r_next r2)) (aunion (r_hand r1) (r_hand r2)) (aunion (r_bail r1) (r_bail r2)) (aunion (r_ret r1) (r_ret r2)).

Definition set_gs (a : astate) (f : fld) (v : Z) : astate :=
  if fld_eqb f gsc then mka v (a_d a) (a_s a) (a_p a) (a_n a)
  else if fld_eqb f gsd then mka (a_c a) v (a_s a) (a_p a) (a_n a) else a.

(* run the analysis of b from every state of a list, accumulating *)
Fixpoint afold (f : astate -> option ares) (l : list astate) (acc : ares) : option ares :=
  match l with
  | [] => Some acc
  | a :: t => match f a with
              | Some r => afold f t (runion r acc)
              | None => None
              end
  end.

Fixpoint ana (c : cmd) (a : astate) : option ares :=
  match c with
  | CSkip => Some (rnext a)
  | CSeq x y =>
      match ana x a with
      | None => None
      | Some r => afold (ana y) (r_next r) (mkr [] (r_hand r) (r_bail r) (r_ret r))
      end
  | CSet f e =>
      if is_gs f then
        match aeval a e with Some v => Some (rnext (set_gs a f v)) | None => None end
      else if alldef a (reads e) then Some (rnext (mka (a_c a) (a_d a) (addf f (a_s a)) (a_p a) (a_n a))) else None
  | CAlloc p => Some (rnext (mka (a_c a) (a_d a) (a_s a) (addf p (a_p a)) (removef p (a_n a))))
  | CNull p => Some (rnext (mka (a_c a) (a_d a) (a_s a) (removef p (a_p a)) (addf p (a_n a))))
  | CDeref p => if memf p (a_p a) then Some (rnext a) else None
  | CIfNull p x y => if memf p (a_p a) then ana y a            (* known to be live, hence not NULL *)
                     else if memf p (a_n a) then ana x a       (* known to be NULL *)
                     else None
  | CIf e x y =>
      match aeval a e with
      | Some v => if Z.eqb v 0 then ana y a else ana x a
      | None => if alldef a (reads e) then
                  match ana x a, ana y a with Some r1, Some r2 => Some (runion r1 r2) | _, _ => None end
                else None
      end
  | CAbort o =>
      match o with
      | OC => Some (rnext (mka CSTART (a_d a) (a_s a) (remove_obj OC (a_p a)) (a_n a)))
      | OD => Some (rnext (mka (a_c a) DSTART (a_s a) (remove_obj OD (a_p a)) (addf (OD, "marker_list"%string) (a_n a))))
      | OT => Some (rnext (mka (a_c a) (a_d a) (a_s a) (remove_obj OT (a_p a)) (a_n a)))
      end
  | CObs _ e => if alldef a (reads e) then Some (rnext a) else None
  | CRaise => Some (mkr [] [a] [] [])
  | CSetjmp _ => Some (rnext a)
  | CGoto TBailout => Some (mkr [] [] [a] [])
  | CGoto TReturn => Some (mkr [] [] [] [a])
  | CDest _ al => if alldef a (reads al) then Some (rnext a) else None
  end.

(* whole program: every handler is analysed from every state in which an error can be
   raised, the bailout block from every state that can reach it; result = the abstract
   states in which the call can return *)
Definition ana_handlers (hs : list cmd) (l : list astate) : option ares :=
  afold (fun a => fold_right (fun h acc => match acc, ana h a with
                                          | Some r0, Some r => Some (runion r r0)
                                          | _, _ => None end) (Some (mkr [] [] [] [])) hs) l (mkr [] [] [] []).

Definition ana_prog (p : prog) (a : astate) : option (list astate) :=
  match ana (p_body p) a with
  | None => None
  | Some rb =>
      match ana_handlers (CGoto TBailout :: p_handlers p) (r_hand rb) with
      | None => None
      | Some rh =>
          (* a handler must not raise again *)
          match r_hand rh with
          | _ :: _ => None
          | [] =>
              let to_bail := aunion (r_next rb) (aunion (r_bail rb) (aunion (r_next rh) (r_bail rh))) in
              match afold (ana (p_bailout p)) to_bail (mkr [] [] [] []) with
              | None => None
              | Some rr =>
                  match r_hand rr with
                  | _ :: _ => None
                  | [] => Some (aunion (r_ret rb) (aunion (r_ret rh) (aunion (r_next rr) (aunion (r_bail rr) (r_ret rr)))))
                  end
              end
          end
      end
  end.

(* pointer members that are NULL whenever the instance is idle: the list of saved markers, and the
   "dummy marker-reader methods installed" / "dummy start_input_pass installed" marks of tj3DecodeYUVPlanes8 *)
Definition idle_nulls : list fld :=
  [(OD, "marker_list"%string); (OD, "marker->dummy_methods"%string); (OD, "inputctl->dummy_start_input_pass"%string)].
Definition at_start (a : astate) : bool :=
  Z.eqb (a_c a) CSTART && Z.eqb (a_d a) DSTART && forallb (fun p => memf p (a_n a)) idle_nulls.
