(* C05 -- word-shuffle semantics of the AVX2 instructions the accurate DCT kernels use for their in-register
   8x8 transposes (a ymm register = 16 word lanes = two 128-bit halves), and an interpreter for the DOTRANSPOSE
   macro bodies generated from jfdctint-avx2.asm / jidctint-avx2.asm.  Lanes carry tags 10*row + col. *)
From Coq Require Import List ZArith Bool String.
From LJT Require Import lib.Words gen.GenSimdConst.
Import ListNotations.
Local Open Scope Z_scope.

Definition half_lo (r : list Z) := firstn 8 r.
Definition half_hi (r : list Z) := skipn 8 r.
Definition inlane (f : list Z -> list Z -> list Z) (a b : list Z) : list Z :=
  f (half_lo a) (half_lo b) ++ f (half_hi a) (half_hi b).
(* one 128-bit lane = 8 words *)
Definition l_unpcklwd (a b : list Z) := interleave (firstn 4 a) (firstn 4 b).
Definition l_unpckhwd (a b : list Z) := interleave (skipn 4 a) (skipn 4 b).
Definition l_unpckldq (a b : list Z) := firstn 2 a ++ firstn 2 b ++ firstn 2 (skipn 2 a) ++ firstn 2 (skipn 2 b).
Definition l_unpckhdq (a b : list Z) := firstn 2 (skipn 4 a) ++ firstn 2 (skipn 4 b) ++ skipn 6 a ++ skipn 6 b.
Definition l_unpcklqdq (a b : list Z) := firstn 4 a ++ firstn 4 b.
Definition l_unpckhqdq (a b : list Z) := skipn 4 a ++ skipn 4 b.
(* vpermq dst, src, imm: qword i of dst = qword (imm >> 2i) & 3 of src *)
Definition qword (r : list Z) (i : Z) : list Z := firstn 4 (skipn (Z.to_nat (4 * i)) r).
Definition vpermq_w (r : list Z) (imm : Z) : list Z :=
  qword r (Z.land imm 3) ++ qword r (Z.land (Z.shiftr imm 2) 3) ++ qword r (Z.land (Z.shiftr imm 4) 3) ++ qword r (Z.land (Z.shiftr imm 6) 3).

Definition regs := list (list Z).      (* index 0 unused, 1..8 = macro parameters *)
Fixpoint set_nth {A} (n : nat) (v : A) (l : list A) : list A :=
  match n, l with O, _ :: t => v :: t | S k, x :: t => x :: set_nth k v t | _, [] => [] end.
Definition step (rf : regs) (ins : string * nat * nat * nat * Z) : option regs :=
  let '(mn, d, a, b, imm) := ins in
  let ra := nth a rf [] in let rb := nth b rf [] in
  let r := if String.eqb mn "vpunpcklwd" then Some (inlane l_unpcklwd ra rb)
           else if String.eqb mn "vpunpckhwd" then Some (inlane l_unpckhwd ra rb)
           else if String.eqb mn "vpunpckldq" then Some (inlane l_unpckldq ra rb)
           else if String.eqb mn "vpunpckhdq" then Some (inlane l_unpckhdq ra rb)
           else if String.eqb mn "vpunpcklqdq" then Some (inlane l_unpcklqdq ra rb)
           else if String.eqb mn "vpunpckhqdq" then Some (inlane l_unpckhqdq ra rb)
           else if String.eqb mn "vpermq" then Some (vpermq_w ra imm)
           else None in
  match r with Some v => Some (set_nth d v rf) | None => None end.
Fixpoint run (prog : list (string * nat * nat * nat * Z)) (rf : regs) : option regs :=
  match prog with [] => Some rf | i :: t => match step rf i with Some rf' => run t rf' | None => None end end.

Definition rowt (r : Z) : list Z := map (fun c => 10 * r + c) [0; 1; 2; 3; 4; 5; 6; 7].
Definition colt (c : Z) : list Z := map (fun r => 10 * r + c) [0; 1; 2; 3; 4; 5; 6; 7].
Definition regfile (r1 r2 r3 r4 : list Z) : regs := [[]; r1; r2; r3; r4; []; []; []; []].
Definition outs4 (o : option regs) : option (list (list Z)) :=
  match o with Some rf => Some [nth 1 rf []; nth 2 rf []; nth 3 rf []; nth 4 rf []] | None => None end.
