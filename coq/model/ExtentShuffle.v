(* C11 -- positional semantics of the re-packing instructions of jcsample-{sse2,avx2}.asm and
   jdsample-{sse2,avx2}.asm.  A register is a list of byte TAGS: tag >= 0 names the source byte (or the
   16-bit lane) that ends up at that position, -1 is a zero byte.  ymm = 32 tags (two 128-bit lanes),
   xmm = 16 tags.  No proofs. *)
From Coq Require Import List ZArith Bool.
Import ListNotations.
Local Open Scope Z_scope.

Definition lo (r : list Z) := firstn 16 r.
Definition hi (r : list Z) := skipn 16 r.
Definition zeros (n : nat) : list Z := repeat (-1) n.
Fixpoint iota (a : Z) (n : nat) : list Z := match n with O => [] | S k => a :: iota (a + 1) k end.

(* one 128-bit lane *)
Definition l_unpcklbw (a b : list Z) := flat_map (fun p => [fst p; snd p]) (combine (firstn 8 a) (firstn 8 b)).
Definition l_unpckhbw (a b : list Z) := flat_map (fun p => [fst p; snd p]) (combine (skipn 8 a) (skipn 8 b)).
Definition l_slldq (a : list Z) (k : nat) := zeros k ++ firstn (16 - k) a.
Definition l_srldq (a : list Z) (k : nat) := skipn k a ++ zeros k.
(* palignr dst, src1, src2, k: (src1 : src2) >> k bytes, src2 is the low half *)
Definition l_alignr (s1 s2 : list Z) (k : nat) := firstn 16 (skipn k (s2 ++ s1)).
(* a word lane holding a zero-extended byte carries the byte's tag; packuswb keeps the word's tag *)
Fixpoint word_tags (r : list Z) : list Z := match r with a :: _ :: t => a :: word_tags t | _ => [] end.
Definition l_packuswb (wa wb : list Z) := wa ++ wb.     (* 8 + 8 word tags of one lane -> 16 byte tags *)

(* SSE2 *)
Definition punpcklbw := l_unpcklbw.
Definition punpckhbw := l_unpckhbw.
Definition pslldq := l_slldq.
Definition psrldq := l_srldq.

(* AVX2: the same per lane, plus the cross-lane permutes *)
Definition per_lane2 (f : list Z -> list Z -> list Z) (a b : list Z) := f (lo a) (lo b) ++ f (hi a) (hi b).
Definition vpunpcklbw := per_lane2 l_unpcklbw.
Definition vpunpckhbw := per_lane2 l_unpckhbw.
Definition vpalignr (s1 s2 : list Z) (k : nat) := per_lane2 (fun x y => l_alignr x y k) s1 s2.
Definition vpslldq (a : list Z) (k : nat) := l_slldq (lo a) k ++ l_slldq (hi a) k.
Definition vpsrldq (a : list Z) (k : nat) := l_srldq (lo a) k ++ l_srldq (hi a) k.
Definition sel128 (s1 s2 : list Z) (c : Z) : list Z :=
  if c =? 0 then lo s1 else if c =? 1 then hi s1 else if c =? 2 then lo s2 else hi s2.
Definition vperm2i128 (s1 s2 : list Z) (imm : Z) := sel128 s1 s2 (imm mod 4) ++ sel128 s1 s2 (imm / 16 mod 4).
Definition qword (r : list Z) (i : Z) : list Z := firstn 8 (skipn (Z.to_nat (8 * i)) r).
Definition vpermq (r : list Z) (imm : Z) :=
  qword r (imm mod 4) ++ qword r (imm / 4 mod 4) ++ qword r (imm / 16 mod 4) ++ qword r (imm / 64 mod 4).
(* vpackuswb on word tags: 16 word tags per source (8 per lane) *)
Definition vpackuswb (wa wb : list Z) := l_packuswb (firstn 8 wa) (firstn 8 wb) ++ l_packuswb (skipn 8 wa) (skipn 8 wb).
