(* C13 -- executable model of the in-memory JPEG destination managers
     src/jdatadst-tj.c   jpeg_mem_dest_tj / empty_mem_output_buffer / term_mem_destination
     src/jdatadst.c      jpeg_mem_dest    / empty_mem_output_buffer / term_mem_destination
   over an abstract heap, with the compressor as an ARBITRARY producer (a list of
   single-byte emits, jcmarker.c emit_byte, and of byte chunks stored through the
   LOAD_BUFFER/STORE_BUFFER protocol of jchuff.c) and the application as an
   arbitrary sequence of caller actions around the calls (history).
   No proofs here.  Constants come from gen/GenDest.v (read from the source on
   every run).

   Heap abstraction.  An address is a token (0 = NULL); pointer arithmetic is
   (block address, offset).  The block AT an address is the most recent block
   allocated there.  A block records who allocated it (owner), whether it was
   freed, whether the library has handed it to the caller as a result, and the
   KNOWN PREFIX of its contents: [b_data] is the reversed list of the first
   [b_known] bytes, everything behind is junk.  A write at offset [off] keeps the
   known bytes below [off] and forgets the rest; memcpy of n bytes copies the
   known prefix.  malloc may hand out the address of a freed block again when the
   history asks for it ([recycle]); this is what makes pointer comparison
   (dest->buffer == *outbuffer) differ from block identity. *)
From Coq Require Import List ZArith Bool.
From LJT Require Import gen.GenDest.
Import ListNotations.
Local Open Scope Z_scope.

Definition SIZE_T_MOD : Z := 2 ^ 64.
Definition JUNK : Z := -1.

Inductive owner := Lib | Caller.
Definition owner_eqb (a b : owner) : bool :=
  match a, b with Lib, Lib | Caller, Caller => true | _, _ => false end.

Record block := mkB {
  b_id : Z; b_addr : Z; b_size : Z; b_owner : owner;
  b_freed : bool; b_handed : bool; b_known : Z; b_data : list Z }.

Inductive bad :=
| BadDoubleFree (id : Z)    (* library free() of an address without live block (id of the last block there) *)
| BadFreeForeign (id : Z)   (* library freed a block that the caller allocated *)
| BadFreeHanded (id : Z)    (* library freed a result it had handed over and that was not passed back *)
| BadOverrun (id off : Z)   (* write at an offset outside the live block at that address *)
| BadOverRead (id n : Z)    (* memcpy source range exceeds the block *)
| BadStalePair.             (* the result was stored through the (pointer, size) variables of an EARLIER call *)

(* things outside the contract: misuse by the caller, and the two hazards *)
Inductive note := NCallerFree | NCallerPass | NCallerSize | NCallerIndex | NRecycled | NZeroReuse.
Inductive status := StOk | StBufSize | StAbort | StFuel.

Inductive logent :=
| LMalloc (id size : Z) (o : owner)
| LFree (id : Z) (by_ : owner)
| LBad (b : bad)
| LNote (n : note)
| LResult (st : status) (ptr_id size : Z) (data : list Z).

Record heap := mkH {
  h_blocks : list block;      (* newest first *)
  h_fresh : Z;                (* next never-used address *)
  h_nextid : Z;
  h_lastfreed : Z;            (* address most recently passed to free() *)
  h_log : list logent }.      (* newest first *)

Definition heap0 : heap := mkH [] 1 1 0 [].

Definition addr_is (a : Z) (b : block) : bool := b_addr b =? a.
Definition blk (h : heap) (a : Z) : option block := find (addr_is a) (h_blocks h).
Definition live (h : heap) (a : Z) : option block :=
  match blk h a with
  | Some b => if b_freed b then None else Some b
  | None => None
  end.
Definition id_at (h : heap) (a : Z) : Z := match blk h a with Some b => b_id b | None => 0 end.

Fixpoint upd_addr (a : Z) (f : block -> block) (bs : list block) : list block :=
  match bs with
  | [] => []
  | b :: t => if addr_is a b then f b :: t else b :: upd_addr a f t
  end.

Definition h_logadd (e : logent) (h : heap) : heap :=
  mkH (h_blocks h) (h_fresh h) (h_nextid h) (h_lastfreed h) (e :: h_log h).
Definition h_upd (a : Z) (f : block -> block) (h : heap) : heap :=
  mkH (upd_addr a f (h_blocks h)) (h_fresh h) (h_nextid h) (h_lastfreed h) (h_log h).
Definition h_set_lastfreed (a : Z) (h : heap) : heap :=
  mkH (h_blocks h) (h_fresh h) (h_nextid h) a (h_log h).

Definition set_freed (b : block) : block :=
  mkB (b_id b) (b_addr b) (b_size b) (b_owner b) true (b_handed b) (b_known b) (b_data b).
Definition set_handed (b : block) : block :=
  mkB (b_id b) (b_addr b) (b_size b) (b_owner b) (b_freed b) true (b_known b) (b_data b).
Definition set_data (k : Z) (d : list Z) (b : block) : block :=
  mkB (b_id b) (b_addr b) (b_size b) (b_owner b) (b_freed b) (b_handed b) k d.

(* ---- malloc / free *)
Definition can_recycle (h : heap) : bool :=
  (0 <? h_lastfreed h) && (h_lastfreed h <? h_fresh h) &&
  match live h (h_lastfreed h) with None => true | Some _ => false end.

Definition h_malloc (h : heap) (sz : Z) (o : owner) (recycle : bool) : heap * Z :=
  let rc := recycle && can_recycle h in
  let a := if rc then h_lastfreed h else h_fresh h in
  let b := mkB (h_nextid h) a sz o false false 0 [] in
  (mkH (b :: h_blocks h) (if rc then h_fresh h else h_fresh h + 1) (h_nextid h + 1) (h_lastfreed h)
       (LMalloc (h_nextid h) sz o :: h_log h), a).

(* free() called by the library; [cur] = the pointer the caller passed to the current call *)
Definition h_free_lib (h : heap) (a cur : Z) : heap :=
  if a =? 0 then h else
  match live h a with
  | None => h_logadd (LBad (BadDoubleFree (id_at h a))) h
  | Some b =>
      let h1 := h_logadd (LFree (b_id b) Lib) (h_set_lastfreed a (h_upd a set_freed h)) in
      match b_owner b with
      | Caller => h_logadd (LBad (BadFreeForeign (b_id b))) h1
      | Lib => if b_handed b && negb (a =? cur) then h_logadd (LBad (BadFreeHanded (b_id b))) h1 else h1
      end
  end.

(* free() called by the application (validity is judged by [caller_may_free]) *)
Definition h_free_caller (h : heap) (a : Z) : heap :=
  if a =? 0 then h else
  match live h a with
  | None => h
  | Some b => h_logadd (LFree (b_id b) Caller) (h_set_lastfreed a (h_upd a set_freed h))
  end.

Definition caller_may_free (h : heap) (a : Z) : bool :=
  (a =? 0) ||
  match live h a with
  | None => false
  | Some b => match b_owner b with Caller => true | Lib => b_handed b end
  end.

(* ---- contents *)
Definition take_known (n : Z) (k : Z) (d : list Z) : list Z :=
  if n =? k then d
  else if n <? k then skipn (Z.to_nat (k - n)) d
  else repeat JUNK (Z.to_nat (n - k)) ++ d.

Definition put1 (off x : Z) (b : block) : block :=
  set_data (off + 1) (x :: take_known off (b_known b) (b_data b)) b.
Definition putn (off : Z) (xs : list Z) (b : block) : block :=
  set_data (off + Z.of_nat (length xs)) (rev_append xs (take_known off (b_known b) (b_data b))) b.

Definition h_write (h : heap) (a off x : Z) : heap :=
  match live h a with
  | Some b => if (0 <=? off) && (off <? b_size b) then h_upd a (put1 off x) h
              else h_logadd (LBad (BadOverrun (b_id b) off)) h
  | None => h_logadd (LBad (BadOverrun (id_at h a) off)) h
  end.

(* memcpy(a + off, xs, |xs|) *)
Definition h_write_list (h : heap) (a off : Z) (xs : list Z) : heap :=
  match xs with
  | [] => h
  | _ :: _ =>
    match live h a with
    | Some b => if (0 <=? off) && (off + Z.of_nat (length xs) <=? b_size b) then h_upd a (putn off xs) h
                else h_logadd (LBad (BadOverrun (b_id b) (Z.max off (b_size b)))) h
    | None => h_logadd (LBad (BadOverrun (id_at h a) off)) h
    end
  end.

(* memcpy(dst, src, n) between block starts *)
Definition h_copy (h : heap) (src dst n : Z) : heap :=
  match live h src with
  | Some b =>
      let h1 := if n <=? b_size b then h else h_logadd (LBad (BadOverRead (b_id b) n)) h in
      h_upd dst (set_data n (take_known n (b_known b) (b_data b))) h1
  | None => h_logadd (LBad (BadOverRead (id_at h src) n)) h
  end.

(* ---- destination object (my_mem_destination_mgr); outbuffer/outsize point to the
        caller's variables w_buf / w_size of the world *)
Record dest := mkD {
  d_buffer : Z; d_bufsize : Z; d_newbuffer : Z; d_alloc : bool;
  d_next_base : Z; d_next_off : Z;      (* pub.next_output_byte *)
  d_free : Z }.                         (* pub.free_in_buffer  *)

(* The caller keeps an array of (pointer variable, size variable) records; w_buf / w_size are the
   values of the CURRENT record, [p_list] holds the others.  [p_gen] counts the switches between
   records, [p_bound] is the generation at which dest->outbuffer / dest->outsize were bound. *)
Record pairs := mkP { p_list : list (Z * Z); p_ci : nat; p_gen : Z; p_bound : Z }.
Definition pairs0 : pairs := mkP (repeat (0, 0) 8) 0 0 0.

Record world := mkW {
  w_heap : heap;
  w_dest : option dest;       (* cinfo->dest (NULL before the first call) *)
  w_buf : Z; w_size : Z;      (* the caller's *jpegBuf and *jpegSize *)
  w_held : list Z;            (* other pointers the caller remembers *)
  w_reusable : bool;          (* w_buf is the result of the previous, successful call and untouched since *)
  w_cur : Z;                  (* ghost: pointer passed in by the caller to the current call *)
  w_ok : bool;                (* no caller misuse and no hazard so far *)
  w_px : pairs }.             (* the caller's other (pointer, size) records and which one is current *)

Definition world0 : world := mkW heap0 None 0 0 [] false 0 true pairs0.

Definition set_heap (h : heap) (w : world) : world :=
  mkW h (w_dest w) (w_buf w) (w_size w) (w_held w) (w_reusable w) (w_cur w) (w_ok w) (w_px w).
Definition set_dest (d : dest) (w : world) : world :=
  mkW (w_heap w) (Some d) (w_buf w) (w_size w) (w_held w) (w_reusable w) (w_cur w) (w_ok w) (w_px w).
Definition set_out (p s : Z) (w : world) : world :=
  mkW (w_heap w) (w_dest w) p s (w_held w) (w_reusable w) (w_cur w) (w_ok w) (w_px w).
Definition set_held (l : list Z) (w : world) : world :=
  mkW (w_heap w) (w_dest w) (w_buf w) (w_size w) l (w_reusable w) (w_cur w) (w_ok w) (w_px w).
Definition set_reusable (r : bool) (w : world) : world :=
  mkW (w_heap w) (w_dest w) (w_buf w) (w_size w) (w_held w) r (w_cur w) (w_ok w) (w_px w).
Definition set_cur (c : Z) (w : world) : world :=
  mkW (w_heap w) (w_dest w) (w_buf w) (w_size w) (w_held w) (w_reusable w) c (w_ok w) (w_px w).
Definition set_px (p : pairs) (w : world) : world :=
  mkW (w_heap w) (w_dest w) (w_buf w) (w_size w) (w_held w) (w_reusable w) (w_cur w) (w_ok w) p.
(* dest->outbuffer = outbuffer; dest->outsize = outsize; *)
Definition bind_out (w : world) : world :=
  set_px (mkP (p_list (w_px w)) (p_ci (w_px w)) (p_gen (w_px w)) (p_gen (w_px w))) w.
Definition bound_now (w : world) : bool := p_bound (w_px w) =? p_gen (w_px w).
Definition wlog (e : logent) (w : world) : world := set_heap (h_logadd e (w_heap w)) w.
(* record something outside the contract *)
Definition flag (n : note) (w : world) : world :=
  mkW (h_logadd (LNote n) (w_heap w)) (w_dest w) (w_buf w) (w_size w) (w_held w) (w_reusable w) (w_cur w) false (w_px w).
Definition flag_if (c : bool) (n : note) (w : world) : world := if c then flag n w else w.

Inductive mgr := TJ | IJG.
Record cfg := mkCfg {
  cf_mgr : mgr;
  cf_clr : bool;     (* the `else dest->newbuffer = NULL` rule is present (fix of F2) *)
  cf_zfix : bool;    (* the allocation branch is skipped for a reused buffer with *outsize = 0 *)
  cf_rebind : bool }. (* outbuffer / outsize are bound on EVERY call, also for a reused buffer *)
Definition cfg_tj : cfg := mkCfg TJ tj_clears_newbuffer tj_zero_size_keeps_reused tj_rebinds_out_always.
Definition cfg_tj_old : cfg := mkCfg TJ false tj_zero_size_keeps_reused tj_rebinds_out_always.   (* before the F2 fix *)
Definition cfg_tj_oldzero : cfg := mkCfg TJ tj_clears_newbuffer false tj_rebinds_out_always.     (* before the zero-size fix *)
Definition cfg_tj_norebind : cfg := mkCfg TJ tj_clears_newbuffer tj_zero_size_keeps_reused false. (* seeded change C13-5 *)
Definition cfg_ijg : cfg := mkCfg IJG true true ijg_rebinds_out_always.

Definition out_buf_size (m : mgr) : Z := match m with TJ => tj_output_buf_size | IJG => ijg_output_buf_size end.
Definition growth (m : mgr) : Z := match m with TJ => tj_growth | IJG => ijg_growth end.

(* dest as created the first time: newbuffer = buffer = NULL, everything else
   uninitialised pool memory (modelled as 0 / FALSE and never read before written) *)
Definition dest_new : dest := mkD 0 0 0 false 0 0 0.

(* jpeg_mem_dest_tj(cinfo, &w_buf, &w_size, alloc) -- returns None on normal return *)
Definition mem_dest_tj_body (clr zfix : bool) (alloc : bool) (w : world) : world * option status :=
  let d0 := match w_dest w with Some d => d | None => dest_new end in
  (* if (dest->buffer == *outbuffer && *outbuffer != NULL && alloc) reused = TRUE; else dest->newbuffer = NULL; *)
  let reused := (d_buffer d0 =? w_buf w) && negb (w_buf w =? 0) && alloc in
  let nb1 := if reused then d_newbuffer d0 else if clr then 0 else d_newbuffer d0 in
  (* dest->alloc = alloc; *)
  let d1 := mkD (d_buffer d0) (d_bufsize d0) nb1 alloc (d_next_base d0) (d_next_off d0) (d_free d0) in
  (* if ( *outbuffer == NULL || ( *outsize == 0 && !reused))     [before the fix: ... || *outsize == 0] *)
  if (w_buf w =? 0) || ((w_size w =? 0) && (if zfix then negb reused else true)) then
    if alloc then
      (* dest->newbuffer = *outbuffer = MALLOC(OUTPUT_BUF_SIZE); *outsize = OUTPUT_BUF_SIZE; *)
      let '(h1, a) := h_malloc (w_heap w) (out_buf_size TJ) Lib false in
      let w1 := set_out a (out_buf_size TJ) (set_heap h1 w) in
      (* dest->pub.next_output_byte = dest->buffer = *outbuffer; if (!reused) dest->bufsize = *outsize; free_in_buffer = bufsize *)
      let bs := if reused then d_bufsize d1 else out_buf_size TJ in
      (set_dest (mkD a bs a alloc a 0 bs) w1, None)
    else (set_dest d1 w, Some StBufSize)
  else
    let bs := if reused then d_bufsize d1 else w_size w in
    (* ghost: the old contents of the caller's buffer are junk from now on *)
    let h1 := h_upd (w_buf w) (set_data 0 []) (w_heap w) in
    (set_dest (mkD (w_buf w) bs nb1 alloc (w_buf w) 0 bs) (set_heap h1 w), None).

(* dest->outbuffer = outbuffer; dest->outsize = outsize;  -- unconditional in the tree ([rebind]); the
   alternative binds only when the buffer is not taken for a reused one *)
Definition mem_dest_tj (clr zfix rebind : bool) (alloc : bool) (w : world) : world * option status :=
  let d0 := match w_dest w with Some d => d | None => dest_new end in
  let reused := (d_buffer d0 =? w_buf w) && negb (w_buf w =? 0) && alloc in
  mem_dest_tj_body clr zfix alloc (if rebind || negb reused then bind_out w else w).

(* jpeg_mem_dest(cinfo, &w_buf, &w_size): no alloc flag (d_alloc := TRUE), newbuffer always reset, size always taken *)
Definition mem_dest_ijg_body (w : world) : world * option status :=
  if (w_buf w =? 0) || (w_size w =? 0) then
    let '(h1, a) := h_malloc (w_heap w) (out_buf_size IJG) Lib false in
    let w1 := set_out a (out_buf_size IJG) (set_heap h1 w) in
    (set_dest (mkD a (out_buf_size IJG) a true a 0 (out_buf_size IJG)) w1, None)
  else
    let h1 := h_upd (w_buf w) (set_data 0 []) (w_heap w) in
    (set_dest (mkD (w_buf w) (w_size w) 0 true (w_buf w) 0 (w_size w)) (set_heap h1 w), None).

Definition mem_dest_ijg (rebind : bool) (w : world) : world * option status :=
  mem_dest_ijg_body (if rebind then bind_out w else w).

Definition mem_dest (c : cfg) (alloc : bool) (w : world) : world * option status :=
  match cf_mgr c with TJ => mem_dest_tj (cf_clr c) (cf_zfix c) (cf_rebind c) alloc w | IJG => mem_dest_ijg (cf_rebind c) w end.

(* empty_mem_output_buffer: Some st = ERREXIT *)
Definition empty_output_buffer (m : mgr) (w : world) (d : dest) : world * dest * option status :=
  (* if (!dest->alloc) ERREXIT(cinfo, JERR_BUFFER_SIZE);   (jdatadst-tj.c only; d_alloc = TRUE for jdatadst.c) *)
  if negb (d_alloc d) then (w, d, Some StBufSize) else
  (* nextsize = dest->bufsize * 2; nextbuffer = MALLOC(nextsize); *)
  let nextsize := d_bufsize d * growth m in
  let '(h1, nb) := h_malloc (w_heap w) nextsize Lib false in
  (* memcpy(nextbuffer, dest->buffer, dest->bufsize); *)
  let h2 := h_copy h1 (d_buffer d) nb (d_bufsize d) in
  (* free(dest->newbuffer); *)
  let h3 := h_free_lib h2 (d_newbuffer d) (w_cur w) in
  (* newbuffer = nextbuffer; next_output_byte = nextbuffer + bufsize; free_in_buffer = bufsize; buffer = nextbuffer; bufsize = nextsize *)
  (set_heap h3 w, mkD nb nextsize nb (d_alloc d) nb (d_bufsize d) (d_bufsize d), None).

(* term_mem_destination *)
Definition term_destination (w : world) (d : dest) : world :=
  if bound_now w then set_out (if d_alloc d then d_buffer d else w_buf w) (d_bufsize d - d_free d) w
  else wlog (LBad BadStalePair) w.     (* *dest->outbuffer / *dest->outsize are another record's variables *)

(* ---- the producer *)
Inductive pop := PByte (x : Z) | PChunk (xs : list Z) | PAbort.

(* size_t subtraction *)
Definition sub_size_t (a b : Z) : Z := if b <=? a then a - b else a - b + SIZE_T_MOD.

(* jcmarker.c emit_byte: *next_output_byte++ = val; if (--free_in_buffer == 0) empty_output_buffer *)
Definition put_byte (m : mgr) (x : Z) (w : world) (d : dest) : world * dest * option status :=
  let h1 := h_write (w_heap w) (d_next_base d) (d_next_off d) x in
  let fr := sub_size_t (d_free d) 1 in
  let d1 := mkD (d_buffer d) (d_bufsize d) (d_newbuffer d) (d_alloc d) (d_next_base d) (d_next_off d + 1) fr in
  if fr =? 0 then empty_output_buffer m (set_heap h1 w) d1 else (set_heap h1 w, d1, None).

(* jchuff.c STORE_BUFFER, local-buffer branch:
   while (bytes > 0) { n = MIN(bytes, free); memcpy; next += n; free -= n; if (free == 0) dump_buffer; bytes -= n; } *)
Fixpoint store_local (fuel : nat) (m : mgr) (xs : list Z) (w : world) (d : dest) : world * dest * option status :=
  match xs with
  | [] => (w, d, None)
  | _ :: _ =>
    match fuel with
    | O => (w, d, Some StFuel)
    | S f =>
      let n := Z.min (Z.of_nat (length xs)) (d_free d) in
      let h1 := h_write_list (w_heap w) (d_next_base d) (d_next_off d) (firstn (Z.to_nat n) xs) in
      let d1 := mkD (d_buffer d) (d_bufsize d) (d_newbuffer d) (d_alloc d) (d_next_base d) (d_next_off d + n) (d_free d - n) in
      if d_free d1 =? 0 then
        match empty_output_buffer m (set_heap h1 w) d1 with
        | (w2, d2, None) => store_local f m (skipn (Z.to_nat n) xs) w2 d2
        | r => r
        end
      else store_local f m (skipn (Z.to_nat n) xs) (set_heap h1 w) d1
    end
  end.

(* LOAD_BUFFER / STORE_BUFFER: direct write into the destination when free_in_buffer >= BUFSIZE *)
Definition put_chunk (m : mgr) (xs : list Z) (w : world) (d : dest) : world * dest * option status :=
  if d_free d <? huff_local_bufsize then store_local (S (S (length xs))) m xs w d
  else
    let n := Z.of_nat (length xs) in
    let h1 := h_write_list (w_heap w) (d_next_base d) (d_next_off d) xs in
    (set_heap h1 w,
     mkD (d_buffer d) (d_bufsize d) (d_newbuffer d) (d_alloc d) (d_next_base d) (d_next_off d + n) (sub_size_t (d_free d) n),
     None).

Definition run_op (m : mgr) (o : pop) (w : world) (d : dest) : world * dest * option status :=
  match o with
  | PByte x => put_byte m x w d
  | PChunk xs => put_chunk m xs w d
  | PAbort => (w, d, Some StAbort)
  end.

Fixpoint run_ops (m : mgr) (ops : list pop) (w : world) (d : dest) : world * dest * status :=
  match ops with
  | [] => (w, d, StOk)
  | o :: t =>
    match run_op m o w d with
    | (w1, d1, None) => run_ops m t w1 d1
    | (w1, d1, Some st) => (w1, d1, st)
    end
  end.

Definition bytes_of_op (o : pop) : list Z := match o with PByte x => [x] | PChunk xs => xs | PAbort => [] end.
Definition bytes_of (ops : list pop) : list Z := flat_map bytes_of_op ops.

(* result contents: the first n bytes of the live block at address a, in order *)
Definition contents (h : heap) (a n : Z) : list Z :=
  match live h a with
  | Some b => if (0 <=? n) && (n <=? b_size b)
              then rev_append (take_known n (b_known b) (b_data b)) []   (* = rev, linear time *)
              else []
  | None => []
  end.

Definition hand_block (b : block) : block := match b_owner b with Lib => set_handed b | Caller => b end.
Definition hand_over (w : world) : world := set_heap (h_upd (w_buf w) hand_block (w_heap w)) w.

Definition st_ok (st : status) : bool := match st with StOk => true | _ => false end.

(* one compression: tj3Compress*/tj3Transform (TJ) or jpeg_mem_dest + jpeg_finish_compress (IJG).
   success: jpeg_finish_compress calls term_destination;
   error:   the TurboJPEG bailout calls term_destination only when alloc is set
            (turbojpeg-mp.c: if (cinfo->global_state > CSTATE_START && alloc) term_destination) *)
Definition run_call_st (c : cfg) (alloc : bool) (ops : list pop) (w : world) : world * status :=
  let w0 := set_cur (w_buf w) w in
  match mem_dest c alloc w0 with
  | (w1, Some st) => (set_reusable false (wlog (LResult st (id_at (w_heap w1) (w_buf w1)) (w_size w1) []) w1), st)
  | (w1, None) =>
    match w_dest w1 with
    | None => (w1, StFuel)      (* impossible: mem_dest always installs the object *)
    | Some d1 =>
      let '(w2, d2, st) := run_ops (cf_mgr c) ops w1 d1 in
      let w3 := set_dest d2 w2 in
      let w4 := if st_ok st || d_alloc d2 then term_destination w3 d2 else w3 in
      let w5 := hand_over w4 in
      let data := if st_ok st then contents (w_heap w5) (w_buf w5) (w_size w5) else [] in
      (set_reusable (st_ok st) (wlog (LResult st (id_at (w_heap w5) (w_buf w5)) (w_size w5) data) w5), st)
    end
  end.
Definition run_call (c : cfg) (alloc : bool) (ops : list pop) (w : world) : world := fst (run_call_st c alloc ops w).

(* ---- the application around the calls *)
Inductive hop :=
| HAlloc (n : Z) (recycle : bool)   (* buf = tj3Alloc(n); size = n *)
| HSetSize (z : Z)                  (* size = z *)
| HSetNull                          (* buf = NULL *)
| HSave                             (* remember buf *)
| HTake (k : nat)                   (* buf = k-th remembered pointer *)
| HFreeBuf                          (* tj3Free(buf); buf = NULL *)
| HFreeHeld (k : nat)               (* tj3Free(k-th remembered pointer) *)
| HCall (alloc : bool) (ops : list pop)
| HSwitch (copy : bool) (k : nat).  (* continue with record k [after copying the current pointer and size into it] *)

Fixpoint set_nth {A} (k : nat) (x : A) (l : list A) : list A :=
  match l, k with
  | [], _ => []
  | _ :: t, O => x :: t
  | y :: t, S k' => y :: set_nth k' x t
  end.

Fixpoint remove_nth {A} (k : nat) (l : list A) : list A :=
  match l, k with
  | [], _ => []
  | _ :: t, O => t
  | x :: t, S k' => x :: remove_nth k' t
  end.

(* what the documentation allows the caller to pass: NULL, or a live buffer whose size it
   states correctly -- except that *jpegSize "is ignored" when the buffer is reused from the
   previous call with reallocation enabled (TurboJPEG only) *)
Definition pass_ok (c : cfg) (alloc : bool) (w : world) : bool :=
  (w_buf w =? 0) ||
  match live (w_heap w) (w_buf w) with
  | None => false
  | Some b =>
      let ignored := match cf_mgr c with TJ => w_reusable w && alloc | IJG => false end in
      ignored || ((0 <=? w_size w) && (w_size w <=? b_size b))
  end.

(* hazard 2 (only without the zero-size fix): the library takes the buffer for a reused one
   although *jpegSize = 0 sends it down the allocation branch *)
Definition zero_reuse (c : cfg) (alloc : bool) (w : world) : bool :=
  negb (cf_zfix c) &&
  match cf_mgr c, w_dest w with
  | TJ, Some d => (d_buffer d =? w_buf w) && negb (w_buf w =? 0) && alloc && (w_size w =? 0)
  | _, _ => false
  end.

Definition run_hop (c : cfg) (o : hop) (w : world) : world :=
  match o with
  | HAlloc n rc =>
      let w1 := flag_if (n <? 0) NCallerSize (flag_if (rc && can_recycle (w_heap w)) NRecycled w) in
      let '(h1, a) := h_malloc (w_heap w1) n Caller rc in
      set_reusable false (set_out a n (set_heap h1 w1))
  | HSetSize z => set_out (w_buf w) z w
  | HSetNull => set_reusable false (set_out 0 (w_size w) w)
  | HSave => set_held (w_buf w :: w_held w) w
  | HTake k =>
      match nth_error (w_held w) k with
      | Some a => set_reusable false (set_out a (w_size w) (set_held (remove_nth k (w_held w)) w))
      | None => flag NCallerIndex w
      end
  | HFreeBuf =>
      let w1 := flag_if (negb (caller_may_free (w_heap w) (w_buf w))) NCallerFree w in
      set_reusable false (set_out 0 (w_size w1) (set_heap (h_free_caller (w_heap w1) (w_buf w1)) w1))
  | HFreeHeld k =>
      match nth_error (w_held w) k with
      | Some a =>
          let w1 := flag_if (negb (caller_may_free (w_heap w) a)) NCallerFree w in
          set_held (remove_nth k (w_held w1)) (set_heap (h_free_caller (w_heap w1) a) w1)
      | None => flag NCallerIndex w
      end
  | HCall alloc ops =>
      let w1 := flag_if (negb (pass_ok c alloc w)) NCallerPass w in
      let w2 := flag_if (zero_reuse c alloc w1) NZeroReuse w1 in
      run_call c alloc ops w2
  | HSwitch copy k =>
      let px := w_px w in
      let saved := set_nth (p_ci px) (w_buf w, w_size w) (p_list px) in
      let '(nb, ns) := if copy then (w_buf w, w_size w) else nth k saved (0, 0) in
      let w1 := set_px (mkP saved k (p_gen px + 1) (p_bound px)) (set_out nb ns w) in
      if copy then w1 else set_reusable false w1
  end.

Definition run_hist (c : cfg) (hs : list hop) (w : world) : world := fold_left (fun w o => run_hop c o w) hs w.
Definition run (c : cfg) (hs : list hop) : world := run_hist c hs world0.

(* ---- predicates on logs *)
Definition is_bad (e : logent) : bool := match e with LBad _ => true | _ => false end.
Definition lib_clean (w : world) : bool := negb (existsb is_bad (h_log (w_heap w))).

(* live blocks that the library allocated and never handed over: leaks between calls *)
Definition leaked (h : heap) : list block :=
  filter (fun b => owner_eqb (b_owner b) Lib && negb (b_freed b) && negb (b_handed b)) (h_blocks h).

Definition chunk_ok (o : pop) : bool :=
  match o with PChunk xs => Z.of_nat (length xs) <? huff_local_bufsize | PAbort => true | PByte _ => true end.
Definition no_abort (o : pop) : bool := match o with PAbort => false | _ => true end.
Definition hop_chunks_ok (o : hop) : bool := match o with HCall _ ops => forallb chunk_ok ops | _ => true end.

(* the records other than the current one *)
Definition other_pairs (w : world) : list (Z * Z) := p_list (w_px w).

(* ---- worst-case size: turbojpeg.c tj3JPEGBufSize, jcicc.c jpeg_write_icc_profile *)
Definition PAD (v p : Z) : Z := Z.land (v + p - 1) (Z.lnot (p - 1)).
Definition tj3JPEGBufSize (width height subsamp : Z) : Z :=
  let s := if subsamp =? -1 then tjsamp_444 else subsamp in
  let mcuw := nth (Z.to_nat s) tj_mcu_width 0 in
  let mcuh := nth (Z.to_nat s) tj_mcu_height 0 in
  let chromasf := if s =? tjsamp_gray then 0 else 4 * 64 / (mcuw * mcuh) in
  PAD width mcuw * PAD height mcuh * (bufsize_bytes_per_luma + chromasf) + bufsize_slack.

Definition icc_max_data : Z := icc_max_bytes_in_marker - icc_overhead_len.
(* bytes written by one APP2 marker carrying `length` profile bytes: FF E2, 2-byte length, 12-byte id, seq, count, data *)
Definition icc_marker_bytes (length : Z) : Z := 2 + 2 + icc_overhead_len + length.
Fixpoint icc_loop (fuel : nat) (remaining : Z) (acc : Z) : Z :=
  match fuel with
  | O => acc
  | S f => if remaining <=? 0 then acc else
           let length := Z.min remaining icc_max_data in
           icc_loop f (remaining - length) (acc + icc_marker_bytes length)
  end.
Definition icc_bytes (len : Z) : Z := icc_loop (Z.to_nat (len / icc_max_data + 1)) len 0.
