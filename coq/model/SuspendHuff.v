(* C09 -- the sequential Huffman entropy decoder (jdhuff.c, slow path) as a suspendable unit.

   One unit = one call of decode_mcu: optional process_restart (its own commit
   point: next_marker syncs the input, restarts_to_go is reset), then
   decode_mcu_slow, which works on a COPY of the bit-reader state
   (BITREAD_LOAD_STATE) and of savable_state and commits both, together with the
   source position, only after the last block (BITREAD_SAVE_STATE, saved = state).
   jpeg_fill_bit_buffer is modelled with its prefetch to MIN_GET_BITS = 25 bits,
   FF/00 unstuffing, FF FF .. fill skipping, marker detection (unread_marker) and the
   zero-padding / JWRN_HIT_MARKER path; HUFF_DECODE with the 8-bit look-ahead
   protocol and jpeg_huff_decode.                                                  *)
From Coq Require Import List ZArith Bool.
From LJT Require Import model.SuspendCore model.SuspendMarker.
Import ListNotations.
Local Open Scope Z_scope.

Record dtbl := { maxcode : list Z; valoffset : list Z; huffval : list Z }.   (* d_derived_tbl: maxcode[0..17] *)

(* working bit-reader state: br_state + the registers get_buffer / bits_left *)
Record br := {
  gb : Z;            (* get_buffer (64-bit register) *)
  bl : Z;            (* bits_left *)
  rest : list byte;  (* bytes from br_state.next_input_byte on *)
  um : Z;            (* cinfo->unread_marker *)
  insuf : bool;      (* entropy->insufficient_data *)
  wn : nat           (* warnings emitted (JWRN_HIT_MARKER, JWRN_HUFF_BAD_CODE) *)
}.

Inductive bres (A : Type) := BOk (a : A) (b : br) | BSusp.
Arguments BOk {A}. Arguments BSusp {A}.
Definition B (A : Type) := br -> bres A.
Definition bret {A} (a : A) : B A := fun b => BOk a b.
Definition bbind {A C} (m : B A) (f : A -> B C) : B C := fun b =>
  match m b with BOk a b' => f a b' | BSusp => BSusp end.
Notation "x <~ m ;; f" := (bbind m (fun x => f)) (at level 61, m at next level, right associativity).

Definition W64 := 18446744073709551616.
Definition HUFF_LOOKAHEAD := 8.
Definition FAST_FILL_THRESHOLD := 16.   (* FILL_BIT_BUFFER_FAST: if (bits_left <= 16) *)
Definition MIN_GET_BITS := 57.     (* BIT_BUF_SIZE - 7 with the 64-bit bit_buf_type; tied to jdhuff.c by C09_source_constants *)

(* the byte loop of jpeg_fill_bit_buffer; ff = inside the do { } while (c == 0xFF) loop *)
Inductive fres := FFull (g l : Z) (r : list byte) | FMarker (c g l : Z) (r : list byte) | FSuspend.

Fixpoint fill_go (r : list byte) (g l : Z) (ff : bool) : fres :=
  match r with
  | [] => FSuspend
  | c :: r' =>
    if ff then
      if c =? 255 then fill_go r' g l true
      else if c =? 0 then
        let g' := (g * 256 + 255) mod W64 in
        if l + 8 <? MIN_GET_BITS then fill_go r' g' (l + 8) false else FFull g' (l + 8) r'
      else FMarker c g l r'
    else
      if c =? 255 then fill_go r' g l true
      else
        let g' := (g * 256 + c) mod W64 in
        if l + 8 <? MIN_GET_BITS then fill_go r' g' (l + 8) false else FFull g' (l + 8) r'
  end.

(* no_more_bytes: *)
Definition no_more_bytes (nbits : Z) (b : br) : br :=
  if nbits >? bl b then
    {| gb := (gb b * 2 ^ (MIN_GET_BITS - bl b)) mod W64; bl := MIN_GET_BITS; rest := rest b; um := um b;
       insuf := true; wn := if insuf b then wn b else S (wn b) |}
  else b.

(* jpeg_fill_bit_buffer(state, get_buffer, bits_left, nbits) *)
Definition fill (nbits : Z) : B unit := fun b =>
  if um b =? 0 then
    if bl b <? MIN_GET_BITS then
      match fill_go (rest b) (gb b) (bl b) false with
      | FSuspend => BSusp
      | FFull g l r => BOk tt {| gb := g; bl := l; rest := r; um := um b; insuf := insuf b; wn := wn b |}
      | FMarker c g l r =>
          BOk tt (no_more_bytes nbits {| gb := g; bl := l; rest := r; um := c; insuf := insuf b; wn := wn b |})
      end
    else BOk tt b
  else BOk tt (no_more_bytes nbits b).

(* read the registers (never the source position) *)
Definition bread {X A} (g : br -> X) (k : X -> B A) : B A := fun b => k (g b) b.
(* CHECK_BIT_BUFFER / PEEK_BITS / DROP_BITS / GET_BITS *)
Definition check_bits (n : Z) : B unit := bread bl (fun l => if l <? n then fill n else bret tt).
Definition peek (n : Z) (b : br) : Z := Z.land (Z.shiftr (gb b) (bl b - n)) (2 ^ n - 1).
Definition drop (n : Z) : B unit := fun b =>
  BOk tt {| gb := gb b; bl := bl b - n; rest := rest b; um := um b; insuf := insuf b; wn := wn b |}.
Definition get_bits (n : Z) : B Z := bread (peek n) (fun v => _ <~ drop n ;; bret v).
Definition warn : B unit := fun b =>
  BOk tt {| gb := gb b; bl := bl b; rest := rest b; um := um b; insuf := insuf b; wn := S (wn b) |}.

Definition nz (l : list Z) (i : Z) : Z := nth (Z.to_nat i) l 0.

(* jpeg_huff_decode: the while (code > maxcode[l]) loop *)
Fixpoint hd_loop (fuel : nat) (t : dtbl) (code l : Z) : B Z :=
  match fuel with
  | O => bret 0
  | S f =>
    if code >? nz (maxcode t) l then
      _ <~ check_bits 1 ;;
      bit <~ get_bits 1 ;;
      hd_loop f t (code * 2 + bit) (l + 1)
    else if l >? 16 then (_ <~ warn ;; bret 0)
    else bret (nz (huffval t) (code + nz (valoffset t) l))
  end.

Definition huff_decode_slow (t : dtbl) (min_bits : Z) : B Z :=
  _ <~ check_bits min_bits ;;
  code <~ get_bits min_bits ;;
  hd_loop 18 t code min_bits.

(* the look-ahead table entry for the 8 peeked bits: smallest l <= 8 with code_l <= maxcode[l] *)
Fixpoint look_go (fuel : nat) (t : dtbl) (look l : Z) : option (Z * Z) :=
  match fuel with
  | O => None
  | S f =>
    let code := Z.shiftr look (HUFF_LOOKAHEAD - l) in
    if code <=? nz (maxcode t) l then Some (l, nz (huffval t) (code + nz (valoffset t) l))
    else look_go f t look (l + 1)
  end.

(* HUFF_DECODE(result, br_state, htbl, return FALSE, label) *)
Definition huff_decode (t : dtbl) : B Z :=
  _ <~ bread bl (fun l => if l <? HUFF_LOOKAHEAD then fill 0 else bret tt) ;;
  bread (fun b => (bl b, peek HUFF_LOOKAHEAD b)) (fun lk =>
    if fst lk <? HUFF_LOOKAHEAD then huff_decode_slow t 1
    else match look_go (Z.to_nat HUFF_LOOKAHEAD) t (snd lk) 1 with
         | Some (nb, sym) => _ <~ drop nb ;; bret sym
         | None => huff_decode_slow t (HUFF_LOOKAHEAD + 1)
         end).

(* HUFF_EXTEND(x, s) *)
Definition huff_extend (x s : Z) : Z := if x <? 2 ^ (s - 1) then x + 1 - 2 ^ s else x.

(* the AC loop: for (k = 1; k < 64; k++) *)
Fixpoint ac_loop (fuel : nat) (t : dtbl) (k : Z) (coef : list Z) : B (list Z) :=
  match fuel with
  | O => bret coef
  | S f =>
    if k <? 64 then
      s0 <~ huff_decode t ;;
      let r := Z.shiftr s0 4 in
      let s := Z.land s0 15 in
      if negb (s =? 0) then
        let k' := k + r in
        _ <~ check_bits s ;;
        v <~ get_bits s ;;
        ac_loop f t (k' + 1) (upd (Z.to_nat (Z.min k' 63)) (huff_extend v s) coef)
      else if negb (r =? 15) then bret coef
      else ac_loop f t (k + 16) coef
    else bret coef
  end.

(* one block; returns the new last_dc_val[] and the coefficients (zigzag positions) *)
Definition decode_block (ci : nat) (dc ac : dtbl) (last : list Z) : B (list Z * list Z) :=
  s <~ huff_decode dc ;;
  d <~ (if negb (s =? 0) then (_ <~ check_bits s ;; r <~ get_bits s ;; bret (huff_extend r s)) else bret 0) ;;
  let v := d + nth ci last 0 in
  coef <~ ac_loop 63 ac 1 (upd 0 v (repeat 0 64)) ;;
  bret (upd ci v last, coef).

Fixpoint decode_blocks (bls : list (nat * dtbl * dtbl)) (last : list Z) (acc : list (list Z)) : B (list Z * list (list Z)) :=
  match bls with
  | [] => bret (last, acc)
  | (ci, dc, ac) :: bls' =>
      r <~ decode_block ci dc ac last ;;
      decode_blocks bls' (fst r) (acc ++ [snd r])
  end.

(* ------------------------------------------------------------ permanent state *)
Record hstate := {
  h_gb : Z; h_bl : Z;                 (* entropy->bitstate *)
  h_last : list Z;                    (* entropy->saved.last_dc_val *)
  h_um : Z;                           (* cinfo->unread_marker *)
  h_insuf : bool;
  h_warn : nat;
  h_disc : Z;                         (* marker->discarded_bytes *)
  h_rtg : Z;                          (* entropy->restarts_to_go *)
  h_nrn : Z;                          (* marker->next_restart_num *)
  h_ri : Z;                           (* cinfo->restart_interval *)
  h_left : nat;                       (* MCUs still to decode in the scan *)
  h_out : list (list (list Z))        (* decoded MCUs *)
}.

Inductive herr := H_RESYNC.          (* restart marker mismatch: resync_to_restart, outside the valid-stream scope *)

(* process_restart + read_restart_marker, normal case *)
Inductive rres := ROk (s : hstate) (n : nat) | RMore (s : hstate) (n : nat) | RFail.

Definition with_restart (s : hstate) (bl' disc um' : Z) (warn' : nat) : hstate :=
  {| h_gb := h_gb s; h_bl := bl'; h_last := h_last s; h_um := um'; h_insuf := h_insuf s; h_warn := warn';
     h_disc := disc; h_rtg := h_rtg s; h_nrn := h_nrn s; h_ri := h_ri s; h_left := h_left s; h_out := h_out s |}.

Definition process_restart (s : hstate) (p : list byte) : rres :=
  (* cinfo->marker->discarded_bytes += bits_left / 8; bits_left = 0 : written before the read *)
  let disc0 := h_disc s + h_bl s / 8 in
  let found (s1 : hstate) (n : nat) : rres :=
    if h_um s1 =? 208 + h_nrn s1 then
      ROk {| h_gb := h_gb s1; h_bl := 0; h_last := repeat 0 (length (h_last s1)); h_um := 0; h_insuf := false;
             h_warn := h_warn s1; h_disc := h_disc s1; h_rtg := h_ri s1; h_nrn := Z.land (h_nrn s1 + 1) 7;
             h_ri := h_ri s1; h_left := h_left s1; h_out := h_out s1 |} n
    else RFail in
  if h_um s =? 0 then
    match nm p disc0 0 0 with
    | NM_more d n => RMore (with_restart s 0 d 0 (h_warn s)) n
    | NM_found c d n =>
        if d =? 0 then found (with_restart s 0 0 c (h_warn s)) n
        else found (with_restart s 0 0 c (S (h_warn s))) n      (* JWRN_EXTRANEOUS_DATA *)
    end
  else found (with_restart s 0 disc0 (h_um s) (h_warn s)) 0%nat.

Definition commit_mcu (s : hstate) (b : br) (last : list Z) (blocks : list (list Z)) : hstate :=
  {| h_gb := gb b; h_bl := bl b; h_last := last; h_um := um b; h_insuf := insuf b; h_warn := wn b;
     h_disc := h_disc s; h_rtg := if h_ri s =? 0 then h_rtg s else h_rtg s - 1; h_nrn := h_nrn s; h_ri := h_ri s;
     h_left := pred (h_left s); h_out := h_out s ++ [blocks] |}.

Definition load_br (s : hstate) (p : list byte) : br :=
  {| gb := h_gb s; bl := h_bl s; rest := p; um := h_um s; insuf := h_insuf s; wn := h_warn s |}.

(* decode_mcu after the restart step *)
Definition mcu_body (bls : list (nat * dtbl * dtbl)) (s : hstate) (p : list byte) (n0 : nat) : ures hstate herr :=
  if h_insuf s then
    (* out of data: leave the MCU zero *)
    Done (commit_mcu s (load_br s p) (h_last s) (map (fun _ => repeat 0 64) bls)) n0 0
  else
    match decode_blocks bls (h_last s) [] (load_br s p) with
    | BSusp => More s n0
    | BOk (last, blocks) b => Done (commit_mcu s b last blocks) (n0 + (length p - length (rest b))) 0
    end.

Definition mcu_unit (bls : list (nat * dtbl * dtbl)) (s : hstate) (p : list byte) : ures hstate herr :=
  match h_left s with
  | O => Halt
  | S _ =>
    if negb (h_ri s =? 0) && (h_rtg s =? 0) then
      match process_restart s p with
      | RFail => Fail H_RESYNC
      | RMore s1 n => More s1 n
      | ROk s1 n => mcu_body bls s1 (skipn n p) n
      end
    else mcu_body bls s p 0
  end.

Definition mcu_slack (s : hstate) : nat := h_left s.

Definition hinit (ncomp : nat) (ri : Z) (nmcu : nat) : hstate :=
  {| h_gb := 0; h_bl := 0; h_last := repeat 0 ncomp; h_um := 0; h_insuf := false; h_warn := 0; h_disc := 0;
     h_rtg := ri; h_nrn := 0; h_ri := ri; h_left := nmcu; h_out := [] |}.

Definition run_scan (bls : list (nat * dtbl * dtbl)) (cs : list (list byte)) (s : hstate) :=
  run_chunked (mcu_unit bls) mcu_slack cs s.

(* jpeg_make_d_derived_tbl (Figures C.1, C.2, F.15): maxcode / valoffset from bits[1..16] *)
Fixpoint derive_go (bits : list Z) (code p : Z) : list Z * list Z :=
  match bits with
  | [] => ([], [])
  | b :: bits' =>
      let (mc, vo) := derive_go bits' ((code + b) * 2) (p + b) in
      if b =? 0 then (-1 :: mc, 0 :: vo) else ((code + b - 1) :: mc, (p - code) :: vo)
  end.
Definition derive_dtbl (bits17 vals : list Z) : dtbl :=
  let (mc, vo) := derive_go (tl bits17) 0 0 in
  {| maxcode := (-1) :: mc ++ [1048575]; valoffset := 0 :: vo ++ [0]; huffval := vals |}.

(* MCU layout of the scan that the marker reader has just announced (JPEG_REACHED_SOS):
   per component of the scan, nblocks blocks using its DC / AC table *)
Definition scan_blocks (s : mstate) (nblk : list nat) : list (nat * dtbl * dtbl) :=
  let c := cells s in
  let tbl (ac : bool) (t : Z) := derive_dtbl (nth (R_BITS ac (Z.to_nat t)) (rows s) []) (nth (R_VALS ac (Z.to_nat t)) (rows s) []) in
  flat_map (fun i =>
      let ci := Z.to_nat (cget G_CUR i c - 1) in
      repeat (i, tbl false (cget G_DC ci c), tbl true (cget G_AC ci c)) (nth i nblk 0%nat))
    (seq 0 (Z.to_nat (cget G_SC S_CIS c))).

(* ------------------------------------------------------------ the fast path, jdhuff.c decode_mcu_fast
   Used by decode_mcu when no restart interval is active, unread_marker == 0 and at least
   BUFSIZE * blocks_in_MCU bytes are buffered; it never calls fill_input_buffer.  GET_BYTE pre-executes the
   FF/00 case; on a marker it records cinfo->unread_marker, backs the pointer out and feeds zero bytes.  If
   a marker was seen the whole MCU is abandoned (unread_marker = 0; return FALSE: nothing committed) and
   decode_mcu_slow redoes it from the saved state. *)
Definition FAST_BUFSIZE := 512%nat.       (* BUFSIZE = DCTSIZE2 * 8 *)

Record fbr := { f_gb : Z; f_bl : Z; f_rest : list byte; f_mark : Z }.
Definition F (A : Type) := fbr -> option (A * fbr).
Definition fret {A} (a : A) : F A := fun b => Some (a, b).
Definition fbind {A C} (m : F A) (f : A -> F C) : F C := fun b => match m b with Some (a, b') => f a b' | None => None end.
Notation "x <- m ;;; f" := (fbind m (fun x => f)) (at level 61, m at next level, right associativity).

(* GET_BYTE *)
Definition fget_byte : F unit := fun b =>
  match f_rest b with
  | c0 :: r =>
    if c0 =? 255 then
      match r with
      | c1 :: r' =>
        if c1 =? 0 then Some (tt, {| f_gb := (f_gb b * 256 + 255) mod W64; f_bl := f_bl b + 8; f_rest := r'; f_mark := f_mark b |})
        else Some (tt, {| f_gb := (f_gb b * 256) mod W64; f_bl := f_bl b + 8; f_rest := f_rest b; f_mark := c1 |})
      | [] => None
      end
    else Some (tt, {| f_gb := (f_gb b * 256 + c0) mod W64; f_bl := f_bl b + 8; f_rest := r; f_mark := f_mark b |})
  | [] => None                                (* can not happen: BUFSIZE bytes per block are buffered *)
  end.

(* FILL_BIT_BUFFER_FAST (64-bit register): if (bits_left <= 16) six GET_BYTEs *)
Definition ffill : F unit := fun b =>
  if f_bl b <=? FAST_FILL_THRESHOLD then
    (_ <- fget_byte ;;; _ <- fget_byte ;;; _ <- fget_byte ;;; _ <- fget_byte ;;; _ <- fget_byte ;;; fget_byte) b
  else Some (tt, b).

Definition fpeek (n : Z) (b : fbr) : Z := Z.land (Z.shiftr (f_gb b) (f_bl b - n)) (2 ^ n - 1).
Definition fdrop (n : Z) : F unit := fun b => Some (tt, {| f_gb := f_gb b; f_bl := f_bl b - n; f_rest := f_rest b; f_mark := f_mark b |}).
Definition fget_bits (n : Z) : F Z := fun b => fbind (fdrop n) (fun _ => fret (fpeek n b)) b.

Fixpoint fhd_loop (fuel : nat) (t : dtbl) (code l : Z) : F Z :=
  match fuel with
  | O => fret 0
  | S f =>
    if code >? nz (maxcode t) l then (bit <- fget_bits 1 ;;; fhd_loop f t (code * 2 + bit) (l + 1))
    else if l >? 16 then fret 0
    else fret (nz (huffval t) (Z.land (code + nz (valoffset t) l) 255))
  end.

(* HUFF_DECODE_FAST *)
Definition fhuff_decode (t : dtbl) : F Z :=
  _ <- ffill ;;;
  fun b =>
    match look_go (Z.to_nat HUFF_LOOKAHEAD) t (fpeek HUFF_LOOKAHEAD b) 1 with
    | Some (nb, sym) => fbind (fdrop nb) (fun _ => fret sym) b
    | None => fbind (fget_bits (HUFF_LOOKAHEAD + 1)) (fun code => fhd_loop 18 t code (HUFF_LOOKAHEAD + 1)) b
    end.

Fixpoint fac_loop (fuel : nat) (t : dtbl) (k : Z) (coef : list Z) : F (list Z) :=
  match fuel with
  | O => fret coef
  | S f =>
    if k <? 64 then
      s0 <- fhuff_decode t ;;;
      let r := Z.shiftr s0 4 in
      let s := Z.land s0 15 in
      if negb (s =? 0) then
        let k' := k + r in
        _ <- ffill ;;; v <- fget_bits s ;;;
        fac_loop f t (k' + 1) (upd (Z.to_nat (Z.min k' 63)) (huff_extend v s) coef)
      else if negb (r =? 15) then fret coef
      else fac_loop f t (k + 16) coef
    else fret coef
  end.

Definition fdecode_block (ci : nat) (dc ac : dtbl) (last : list Z) : F (list Z * list Z) :=
  s <- fhuff_decode dc ;;;
  d <- (if negb (s =? 0) then (_ <- ffill ;;; r <- fget_bits s ;;; fret (huff_extend r s)) else fret 0) ;;;
  let v := d + nth ci last 0 in
  coef <- fac_loop 63 ac 1 (upd 0 v (repeat 0 64)) ;;;
  fret (upd ci v last, coef).

Fixpoint fdecode_blocks (bls : list (nat * dtbl * dtbl)) (last : list Z) (acc : list (list Z)) : F (list Z * list (list Z)) :=
  match bls with
  | [] => fret (last, acc)
  | (ci, dc, ac) :: bls' => r <- fdecode_block ci dc ac last ;;; fdecode_blocks bls' (fst r) (acc ++ [snd r])
  end.

(* decode_mcu_fast: None = return FALSE (marker seen, or -- impossible in C -- the buffer ran out) *)
Definition fast_mcu (bls : list (nat * dtbl * dtbl)) (s : hstate) (p : list byte) : option (list Z * list (list Z) * fbr) :=
  match fdecode_blocks bls (h_last s) [] {| f_gb := h_gb s; f_bl := h_bl s; f_rest := p; f_mark := 0 |} with
  | Some (r, b) => if f_mark b =? 0 then Some (fst r, snd r, b) else None
  | None => None
  end.

Definition usefast (bls : list (nat * dtbl * dtbl)) (s : hstate) (p : list byte) : bool :=
  (h_ri s =? 0) && Nat.leb (FAST_BUFSIZE * length bls) (length p) && (h_um s =? 0).

(* decode_mcu with the fast/slow switch *)
Definition mcu_unit_sw (bls : list (nat * dtbl * dtbl)) (s : hstate) (p : list byte) : ures hstate herr :=
  match h_left s with
  | O => Halt
  | S _ =>
    if usefast bls s p && negb (h_insuf s) then
      match fast_mcu bls s p with
      | Some (last, blocks, b) =>
          Done (commit_mcu s {| gb := f_gb b; bl := f_bl b; rest := f_rest b; um := 0; insuf := false; wn := h_warn s |} last blocks)
               (length p - length (f_rest b)) 0
      | None => mcu_unit bls s p                 (* goto use_slow *)
      end
    else mcu_unit bls s p
  end.

Definition run_scan_sw (bls : list (nat * dtbl * dtbl)) (cs : list (list byte)) (s : hstate) :=
  run_chunked (mcu_unit_sw bls) mcu_slack cs s.
