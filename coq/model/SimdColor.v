(* C05 -- colour conversion: the C code (table look-ups) and the lane-wise
   dataflow of the SSE2/AVX2 kernels, per pixel.  No proofs here.

   C side      : src/jccolor.c rgb_ycc_start + src/jccolext.c rgb_ycc_convert_internal,
                 rgb_gray_convert_internal; src/jdcolor.c build_ycc_rgb_table +
                 src/jdcolext.c ycc_rgb_convert_internal; src/jdmerge.c
                 build_ycc_rgb_table + src/jdmrgext.c h2v1/h2v2_merged_upsample_internal.
   asm side    : simd/x86_64/jccolext-{sse2,avx2}.asm, jcgryext-*.asm, jdcolext-*.asm,
                 jdmrgext-*.asm (the AVX2 files execute the same lane operations on
                 16 instead of 8 word lanes).
   All numeric constants come from gen/GenSimdConst.v (regenerated from the tree). *)
From Coq Require Import List ZArith Bool.
From LJT Require Import lib.Words gen.GenSimdConst.
Import ListNotations.
Local Open Scope Z_scope.

(* ------------------------------------------------------------------ C side *)
(* one table slot: rgb_ycc_tab[i + SLOT_OFF] = coef * i + addend *)
Definition c_tab (slot : Z * Z) (i : Z) : Z := fst slot * i + snd slot.

(* (JSAMPLE)((ctab[r+R_x] + ctab[g+G_x] + ctab[b+B_x]) >> SCALEBITS) ; JLONG is 64 bit, the
   store to a JSAMPLE keeps the low 8 bits *)
Definition c_rgb_sum (sr sg sb : Z * Z) (r g b : Z) : Z :=
  w8 (Z.shiftr (c_tab sr r + c_tab sg g + c_tab sb b) c_jccolor_SCALEBITS).
Definition c_rgb_y := c_rgb_sum c_jccolor_R_Y c_jccolor_G_Y c_jccolor_B_Y.
Definition c_rgb_cb := c_rgb_sum c_jccolor_R_CB c_jccolor_G_CB c_jccolor_B_CB.
Definition c_rgb_cr := c_rgb_sum c_jccolor_R_CR c_jccolor_G_CR c_jccolor_B_CR.
Definition c_rgb_ycc (r g b : Z) : Z * Z * Z := (c_rgb_y r g b, c_rgb_cb r g b, c_rgb_cr r g b).

(* decompression tables; x = i - CENTERJSAMPLE *)
Record ycc_tabs := { t_bits : Z; t_Cr_r : Z * Z; t_Cb_b : Z * Z; t_Cr_g : Z * Z; t_Cb_g : Z * Z }.
Definition c_jdcolor_tabs : ycc_tabs :=
  {| t_bits := c_jdcolor_SCALEBITS; t_Cr_r := c_jdcolor_Cr_r; t_Cb_b := c_jdcolor_Cb_b;
     t_Cr_g := c_jdcolor_Cr_g; t_Cb_g := c_jdcolor_Cb_g |}.
Definition c_jdmerge_tabs : ycc_tabs :=
  {| t_bits := c_jdmerge_SCALEBITS; t_Cr_r := c_jdmerge_Cr_r; t_Cb_b := c_jdmerge_Cb_b;
     t_Cr_g := c_jdmerge_Cr_g; t_Cb_g := c_jdmerge_Cb_g |}.
(* Cr_r_tab[i] = (int)RIGHT_SHIFT(FIX(1.40200) * x + ONE_HALF, SCALEBITS) *)
Definition c_shifted_tab (T : ycc_tabs) (slot : Z * Z) (i : Z) : Z :=
  Z.shiftr (c_tab slot (i - 128)) (t_bits T).
Definition c_plain_tab (slot : Z * Z) (i : Z) : Z := c_tab slot (i - 128).
(* range_limit[] restricted to the index range the callers use = clamp to 0..255 *)
Definition range_limit (v : Z) : Z := if v <? 0 then 0 else if 255 <? v then 255 else v.
Definition c_ycc_r T (y cb cr : Z) : Z := range_limit (y + c_shifted_tab T (t_Cr_r T) cr).
Definition c_ycc_g T (y cb cr : Z) : Z :=
  range_limit (y + Z.shiftr (c_plain_tab (t_Cb_g T) cb + c_plain_tab (t_Cr_g T) cr) (t_bits T)).
Definition c_ycc_b T (y cb cr : Z) : Z := range_limit (y + c_shifted_tab T (t_Cb_b T) cb).
Definition c_ycc_rgb T (y cb cr : Z) : Z * Z * Z := (c_ycc_r T y cb cr, c_ycc_g T y cb cr, c_ycc_b T y cb cr).

(* ---------------------------------------------------------------- asm side *)
(* the constant rows an rgb->ycc kernel file defines; w.. = word pattern of a row element *)
Record cc_consts := {
  k_bits : Z;
  k_F0299 : Z; k_F0337 : Z;     (* PW_F0299_F0337 *)
  k_F0114 : Z; k_F0250 : Z;     (* PW_F0114_F0250 *)
  k_MF016 : Z; k_MF033 : Z;     (* PW_MF016_MF033 *)
  k_MF008 : Z; k_MF041 : Z;     (* PW_MF008_MF041 *)
  k_HALFM1_CJ : Z;              (* PD_ONEHALFM1_CJ *)
  k_HALF : Z                    (* PD_ONEHALF *) }.
Definition el (row : Z * list Z) (i : nat) : Z := nth i (snd row) 0.
Definition jccolor_sse2_consts : cc_consts :=
  {| k_bits := jccolor_sse2_SCALEBITS;
     k_F0299 := w16 (el jccolor_sse2_PW_F0299_F0337 0); k_F0337 := w16 (el jccolor_sse2_PW_F0299_F0337 1);
     k_F0114 := w16 (el jccolor_sse2_PW_F0114_F0250 0); k_F0250 := w16 (el jccolor_sse2_PW_F0114_F0250 1);
     k_MF016 := w16 (el jccolor_sse2_PW_MF016_MF033 0); k_MF033 := w16 (el jccolor_sse2_PW_MF016_MF033 1);
     k_MF008 := w16 (el jccolor_sse2_PW_MF008_MF041 0); k_MF041 := w16 (el jccolor_sse2_PW_MF008_MF041 1);
     k_HALFM1_CJ := w32 (el jccolor_sse2_PD_ONEHALFM1_CJ 0); k_HALF := w32 (el jccolor_sse2_PD_ONEHALF 0) |}.
Definition jccolor_avx2_consts : cc_consts :=
  {| k_bits := jccolor_avx2_SCALEBITS;
     k_F0299 := w16 (el jccolor_avx2_PW_F0299_F0337 0); k_F0337 := w16 (el jccolor_avx2_PW_F0299_F0337 1);
     k_F0114 := w16 (el jccolor_avx2_PW_F0114_F0250 0); k_F0250 := w16 (el jccolor_avx2_PW_F0114_F0250 1);
     k_MF016 := w16 (el jccolor_avx2_PW_MF016_MF033 0); k_MF033 := w16 (el jccolor_avx2_PW_MF016_MF033 1);
     k_MF008 := w16 (el jccolor_avx2_PW_MF008_MF041 0); k_MF041 := w16 (el jccolor_avx2_PW_MF008_MF041 1);
     k_HALFM1_CJ := w32 (el jccolor_avx2_PD_ONEHALFM1_CJ 0); k_HALF := w32 (el jccolor_avx2_PD_ONEHALF 0) |}.
(* the gray kernels define only the Y rows *)
Definition jcgray_sse2_consts : cc_consts :=
  {| k_bits := jcgray_sse2_SCALEBITS;
     k_F0299 := w16 (el jcgray_sse2_PW_F0299_F0337 0); k_F0337 := w16 (el jcgray_sse2_PW_F0299_F0337 1);
     k_F0114 := w16 (el jcgray_sse2_PW_F0114_F0250 0); k_F0250 := w16 (el jcgray_sse2_PW_F0114_F0250 1);
     k_MF016 := 0; k_MF033 := 0; k_MF008 := 0; k_MF041 := 0; k_HALFM1_CJ := 0;
     k_HALF := w32 (el jcgray_sse2_PD_ONEHALF 0) |}.
Definition jcgray_avx2_consts : cc_consts :=
  {| k_bits := jcgray_avx2_SCALEBITS;
     k_F0299 := w16 (el jcgray_avx2_PW_F0299_F0337 0); k_F0337 := w16 (el jcgray_avx2_PW_F0299_F0337 1);
     k_F0114 := w16 (el jcgray_avx2_PW_F0114_F0250 0); k_F0250 := w16 (el jcgray_avx2_PW_F0114_F0250 1);
     k_MF016 := 0; k_MF033 := 0; k_MF008 := 0; k_MF041 := 0; k_HALFM1_CJ := 0;
     k_HALF := w32 (el jcgray_avx2_PD_ONEHALF 0) |}.

(* One pixel of jccolext: r g b are the zero-extended bytes in word lanes
   (punpcklbw with zero); the pairs (R,G) and (B,G) are formed by punpck[lh]wd.
     Y  = (pmaddwd(R,G | F0299,F0337) + pmaddwd(B,G | F0114,F0250) + PD_ONEHALF) >> SCALEBITS
     Cb = (pmaddwd(R,G | -F0168,-F0331) + ((B << 16) >> 1) + PD_ONEHALFM1_CJ) >> SCALEBITS
     Cr = (pmaddwd(B,G | -F0081,-F0418) + ((R << 16) >> 1) + PD_ONEHALFM1_CJ) >> SCALEBITS
   psrld is a logical shift; packssdw then narrows; the byte stored is the low
   byte of the word (even lanes directly, odd lanes through psllw 8 / por). *)
Definition asm_rgb_y (K : cc_consts) (r g b : Z) : Z :=
  let rg := pmaddwd r g (k_F0299 K) (k_F0337 K) in
  let bg := pmaddwd b g (k_F0114 K) (k_F0250 K) in
  lo8 (packssdw (psrld (paddd (paddd bg rg) (k_HALF K)) (k_bits K))).
Definition asm_rgb_cb (K : cc_consts) (r g b : Z) : Z :=
  let rg := pmaddwd r g (k_MF016 K) (k_MF033 K) in
  let bh := psrld (dword_hi b) 1 in
  lo8 (packssdw (psrld (paddd (paddd rg bh) (k_HALFM1_CJ K)) (k_bits K))).
Definition asm_rgb_cr (K : cc_consts) (r g b : Z) : Z :=
  let bg := pmaddwd b g (k_MF008 K) (k_MF041 K) in
  let rh := psrld (dword_hi r) 1 in
  lo8 (packssdw (psrld (paddd (paddd bg rh) (k_HALFM1_CJ K)) (k_bits K))).
Definition asm_rgb_ycc K (r g b : Z) : Z * Z * Z := (asm_rgb_y K r g b, asm_rgb_cb K r g b, asm_rgb_cr K r g b).

(* ycc -> rgb constants (jdcolor-*.asm, jdmerge-*.asm) *)
Record dc_consts := {
  d_bits : Z; d_F0402 : Z; d_MF0228 : Z; d_MF0344 : Z; d_F0285 : Z; d_ONE : Z; d_HALF : Z;
  (* the equ constants, for the agreement theorems *)
  d_F_0_344 : Z; d_F_0_714 : Z; d_F_1_402 : Z; d_F_1_772 : Z; d_F_0_402 : Z; d_F_0_285 : Z; d_F_0_228 : Z }.
Definition jdcolor_sse2_consts : dc_consts :=
  {| d_bits := jdcolor_sse2_SCALEBITS; d_F0402 := w16 (el jdcolor_sse2_PW_F0402 0);
     d_MF0228 := w16 (el jdcolor_sse2_PW_MF0228 0); d_MF0344 := w16 (el jdcolor_sse2_PW_MF0344_F0285 0);
     d_F0285 := w16 (el jdcolor_sse2_PW_MF0344_F0285 1); d_ONE := w16 (el jdcolor_sse2_PW_ONE 0);
     d_HALF := w32 (el jdcolor_sse2_PD_ONEHALF 0);
     d_F_0_344 := jdcolor_sse2_F_0_344; d_F_0_714 := jdcolor_sse2_F_0_714; d_F_1_402 := jdcolor_sse2_F_1_402;
     d_F_1_772 := jdcolor_sse2_F_1_772; d_F_0_402 := jdcolor_sse2_F_0_402; d_F_0_285 := jdcolor_sse2_F_0_285;
     d_F_0_228 := jdcolor_sse2_F_0_228 |}.
Definition jdcolor_avx2_consts : dc_consts :=
  {| d_bits := jdcolor_avx2_SCALEBITS; d_F0402 := w16 (el jdcolor_avx2_PW_F0402 0);
     d_MF0228 := w16 (el jdcolor_avx2_PW_MF0228 0); d_MF0344 := w16 (el jdcolor_avx2_PW_MF0344_F0285 0);
     d_F0285 := w16 (el jdcolor_avx2_PW_MF0344_F0285 1); d_ONE := w16 (el jdcolor_avx2_PW_ONE 0);
     d_HALF := w32 (el jdcolor_avx2_PD_ONEHALF 0);
     d_F_0_344 := jdcolor_avx2_F_0_344; d_F_0_714 := jdcolor_avx2_F_0_714; d_F_1_402 := jdcolor_avx2_F_1_402;
     d_F_1_772 := jdcolor_avx2_F_1_772; d_F_0_402 := jdcolor_avx2_F_0_402; d_F_0_285 := jdcolor_avx2_F_0_285;
     d_F_0_228 := jdcolor_avx2_F_0_228 |}.
Definition jdmerge_sse2_consts : dc_consts :=
  {| d_bits := jdmerge_sse2_SCALEBITS; d_F0402 := w16 (el jdmerge_sse2_PW_F0402 0);
     d_MF0228 := w16 (el jdmerge_sse2_PW_MF0228 0); d_MF0344 := w16 (el jdmerge_sse2_PW_MF0344_F0285 0);
     d_F0285 := w16 (el jdmerge_sse2_PW_MF0344_F0285 1); d_ONE := w16 (el jdmerge_sse2_PW_ONE 0);
     d_HALF := w32 (el jdmerge_sse2_PD_ONEHALF 0);
     d_F_0_344 := jdmerge_sse2_F_0_344; d_F_0_714 := jdmerge_sse2_F_0_714; d_F_1_402 := jdmerge_sse2_F_1_402;
     d_F_1_772 := jdmerge_sse2_F_1_772; d_F_0_402 := jdmerge_sse2_F_0_402; d_F_0_285 := jdmerge_sse2_F_0_285;
     d_F_0_228 := jdmerge_sse2_F_0_228 |}.
Definition jdmerge_avx2_consts : dc_consts :=
  {| d_bits := jdmerge_avx2_SCALEBITS; d_F0402 := w16 (el jdmerge_avx2_PW_F0402 0);
     d_MF0228 := w16 (el jdmerge_avx2_PW_MF0228 0); d_MF0344 := w16 (el jdmerge_avx2_PW_MF0344_F0285 0);
     d_F0285 := w16 (el jdmerge_avx2_PW_MF0344_F0285 1); d_ONE := w16 (el jdmerge_avx2_PW_ONE 0);
     d_HALF := w32 (el jdmerge_avx2_PD_ONEHALF 0);
     d_F_0_344 := jdmerge_avx2_F_0_344; d_F_0_714 := jdmerge_avx2_F_0_714; d_F_1_402 := jdmerge_avx2_F_1_402;
     d_F_1_772 := jdmerge_avx2_F_1_772; d_F_0_402 := jdmerge_avx2_F_0_402; d_F_0_285 := jdmerge_avx2_F_0_285;
     d_F_0_228 := jdmerge_avx2_F_0_228 |}.

(* One pixel of jdcolext / jdmrgext.  cb, cr, y are bytes zero-extended to word lanes.
     cbw = cb + 0xFF80  (pcmpeqw ; psllw 7 gives 0xFF80 = -128)
     B-Y = ((pmulhw(2*cbw, -F_0_228) + 1) >>a 1) + cbw + cbw
     R-Y = ((pmulhw(2*crw,  F_0_402) + 1) >>a 1) + crw
     G-Y = packssdw((pmaddwd(cbw,crw | -F_0_344, F_0_285) + ONEHALF) >>a 16) - crw
     X   = packuswb(Y + (X-Y))                                                        *)
Definition minus128 : Z := psllw 65535 7.      (* 0xFF80 *)
Definition asm_b_y (D : dc_consts) (cb : Z) : Z :=
  let cbw := paddw cb minus128 in
  paddw (paddw (psraw (paddw (pmulhw (paddw cbw cbw) (d_MF0228 D)) (d_ONE D)) 1) cbw) cbw.
Definition asm_r_y (D : dc_consts) (cr : Z) : Z :=
  let crw := paddw cr minus128 in
  paddw (psraw (paddw (pmulhw (paddw crw crw) (d_F0402 D)) (d_ONE D)) 1) crw.
Definition asm_g_y (D : dc_consts) (cb cr : Z) : Z :=
  let cbw := paddw cb minus128 in
  let crw := paddw cr minus128 in
  psubw (packssdw (psrad (paddd (pmaddwd cbw crw (d_MF0344 D) (d_F0285 D)) (d_HALF D)) (d_bits D))) crw.
Definition asm_ycc_r D (y cb cr : Z) : Z := packuswb (paddw (asm_r_y D cr) y).
Definition asm_ycc_g D (y cb cr : Z) : Z := packuswb (paddw (asm_g_y D cb cr) y).
Definition asm_ycc_b D (y cb cr : Z) : Z := packuswb (paddw (asm_b_y D cb) y).
Definition asm_ycc_rgb D (y cb cr : Z) : Z * Z * Z := (asm_ycc_r D y cb cr, asm_ycc_g D y cb cr, asm_ycc_b D y cb cr).

(* merged upsampling: one chroma sample serves two (h2v1) luma samples of the row;
   h2v2 calls the h2v1 kernel once per luma row with the same chroma row *)
Definition c_merged_pair T (y0 y1 cb cr : Z) := (c_ycc_rgb T y0 cb cr, c_ycc_rgb T y1 cb cr).
Definition asm_merged_pair D (y0 y1 cb cr : Z) := (asm_ycc_rgb D y0 cb cr, asm_ycc_rgb D y1 cb cr).

(* row level, for the correspondence: lists of pixels *)
Definition row_rgb_ycc (f : Z -> Z -> Z -> Z * Z * Z) (px : list (Z * Z * Z)) : list (Z * Z * Z) :=
  map (fun p => f (fst (fst p)) (snd (fst p)) (snd p)) px.
