(* C10 -- executable model of the colour-conversion kernels that are instantiated once
   per packed-pixel layout (jccolext.c, jdcolext.c, jdmrgext.c), of the row-pointer
   construction of turbojpeg-mp.c and of gray extraction (jdcolor.c grayscale_convert).

   Memory is a flat list of samples; a row pointer is an index into it.  Every kernel
   is parametrised by a layout (roff, goff, boff, aoff, psz) -- the values of
   RGB_RED, RGB_GREEN, RGB_BLUE, RGB_ALPHA (-1 when not defined) and RGB_PIXELSIZE
   under which the template is compiled -- and by the sample precision.
   The fixed-point tables are rebuilt from the constants in gen/GenLayouts.v.
   No proofs here. *)
From Coq Require Import List ZArith Bool.
From LJT Require Import gen.GenLayouts.
Import ListNotations.
Local Open Scope Z_scope.

(* ------------------------------------------------------------------ layouts *)
Record layout := mkL { roff : Z; goff : Z; boff : Z; aoff : Z; psz : Z }.

Definition layout_of5 (t : Z * Z * Z * Z * Z) : layout :=
  let '(r, g, b, a, p) := t in mkL r g b a p.

Definition lookup5 (tab : list (Z * (Z * Z * Z * Z * Z))) (cs : Z) : option (Z * Z * Z * Z * Z) :=
  match find (fun e => fst e =? cs) tab with Some e => Some (snd e) | None => None end.

Definition znth (l : list Z) (i : Z) : Z := if i <? 0 then (-1) else nth (Z.to_nat i) l (-1).

(* the layout the decompression kernels are compiled with for colour space cs
   (offsets of jmorecfg.h's tables, alpha of the jdcolor.c instantiation) *)
Definition cs_layout (cs : Z) : layout :=
  mkL (znth rgb_red_tab cs) (znth rgb_green_tab cs) (znth rgb_blue_tab cs)
      (match lookup5 disp_jdcolor_ycc_rgb_convert cs with Some (_, _, _, a, _) => a | None => (-1) end)
      (znth rgb_pixelsize_tab cs).

(* the TurboJPEG view of pixel format pf *)
Definition pf_layout (pf : Z) : layout :=
  mkL (znth tjRedOffset_tab pf) (znth tjGreenOffset_tab pf) (znth tjBlueOffset_tab pf)
      (znth tjAlphaOffset_tab pf) (znth tjPixelSize_tab pf).

Definition wf_layoutb (L : layout) : bool :=
  ((psz L =? 3) || (psz L =? 4)) &&
  (0 <=? roff L) && (roff L <? psz L) && (0 <=? goff L) && (goff L <? psz L) &&
  (0 <=? boff L) && (boff L <? psz L) &&
  negb (roff L =? goff L) && negb (roff L =? boff L) && negb (goff L =? boff L) &&
  ((aoff L =? (-1)) ||
   ((0 <=? aoff L) && (aoff L <? psz L) &&
    negb (aoff L =? roff L) && negb (aoff L =? goff L) && negb (aoff L =? boff L))).

(* ------------------------------------------------------------------ memory *)
Definition rd (buf : list Z) (i : Z) : Z := nth (Z.to_nat i) buf 0.

Fixpoint upd_nat (buf : list Z) (i : nat) (v : Z) : list Z :=
  match buf with
  | [] => []
  | x :: t => match i with O => v :: t | S k => x :: upd_nat t k v end
  end.
Definition upd (buf : list Z) (i : Z) (v : Z) : list Z :=
  if i <? 0 then buf else upd_nat buf (Z.to_nat i) v.

(* row pointers as built by tj3Compress*/tj3Decompress* (turbojpeg-mp.c):
   row_pointer[i] = bottomUp ? &buf[(h - i - 1) * pitch] : &buf[i * pitch] *)
Definition rows (pitch : Z) (h : nat) (bottomUp : bool) : list Z :=
  map (fun i => if bottomUp then (Z.of_nat h - Z.of_nat i - 1) * pitch else Z.of_nat i * pitch) (seq 0 h).

(* ------------------------------------------------------------------ precision *)
Record sprec := mkP { sp_bits : Z; sp_max : Z; sp_center : Z }.
Definition prec8 := mkP 8 MAXJSAMPLE CENTERJSAMPLE.
Definition prec12 := mkP 12 MAXJ12SAMPLE CENTERJ12SAMPLE.

(* RANGE_LIMIT() of jccolor.c: mask for 12-bit samples, identity for 8-bit *)
Definition range_in (p : sprec) (v : Z) : Z := if sp_bits p =? 12 then Z.land v c_range_mask12 else v.
(* the (_JSAMPLE) cast: JSAMPLE = unsigned char, J12SAMPLE = short *)
Definition to_sample (p : sprec) (v : Z) : Z :=
  if sp_bits p =? 8 then v mod 256 else (v + 32768) mod 65536 - 32768.

(* ------------------------------------------------------------------ fixed point *)
(* FIX(x) = (JLONG)(x * 2^SCALEBITS + 0.5) for x = num/den > 0 *)
Definition fixc (sb num den : Z) : Z := (2 * num * 2 ^ sb + den) / (2 * den).

Definition c_entry (sec : Z) : option (Z * (Z * Z * Z) * (bool * bool * bool)) :=
  find (fun e => fst (fst e) =? sec) c_tab_entries.

(* rgb_ycc_tab[i + sec*(MAXJSAMPLE+1)] as filled by rgb_ycc_start *)
Definition ctab (p : sprec) (sec i : Z) : Z :=
  match c_entry sec with
  | Some (_, (sg, num, den), (cbcr, half, m1)) =>
      sg * fixc c_scalebits num den * i
      + (if cbcr then Z.shiftl (sp_center p) c_scalebits else 0)
      + (if half then 2 ^ (c_scalebits - 1) else 0)
      - (if m1 then 1 else 0)
  | None => 0
  end.

Definition y_raw (p : sprec) (r g b : Z) : Z :=
  Z.shiftr (ctab p c_R_Y_OFF r + ctab p c_G_Y_OFF g + ctab p c_B_Y_OFF b) c_scalebits.
Definition cb_raw (p : sprec) (r g b : Z) : Z :=
  Z.shiftr (ctab p c_R_CB_OFF r + ctab p c_G_CB_OFF g + ctab p c_B_CB_OFF b) c_scalebits.
Definition cr_raw (p : sprec) (r g b : Z) : Z :=
  Z.shiftr (ctab p c_R_CR_OFF r + ctab p c_G_CR_OFF g + ctab p c_B_CR_OFF b) c_scalebits.
Definition y_of_rgb (p : sprec) (r g b : Z) : Z := to_sample p (y_raw p r g b).
Definition cb_of_rgb (p : sprec) (r g b : Z) : Z := to_sample p (cb_raw p r g b).
Definition cr_of_rgb (p : sprec) (r g b : Z) : Z := to_sample p (cr_raw p r g b).

Definition px3 := (Z * Z * Z)%type.
Definition c0 (t : px3) : Z := fst (fst t).
Definition c1 (t : px3) : Z := snd (fst t).
Definition c2 (t : px3) : Z := snd t.

(* the per-pixel arithmetic of rgb_ycc_convert_internal on the three samples read *)
Definition ycc_of_rgb (p : sprec) (t : px3) : px3 :=
  let r := range_in p (c0 t) in let g := range_in p (c1 t) in let b := range_in p (c2 t) in
  (y_of_rgb p r g b, cb_of_rgb p r g b, cr_of_rgb p r g b).
Definition gray_of_rgb (p : sprec) (t : px3) : Z :=
  y_of_rgb p (range_in p (c0 t)) (range_in p (c1 t)) (range_in p (c2 t)).

(* build_ycc_rgb_table (jdcolor.c: dsel = false, jdmerge.c: dsel = true) *)
Definition dfix (mrg : bool) (which : Z) : Z :=
  let sb := if mrg then m_scalebits else d_scalebits in
  let nd := match which with
            | 0 => if mrg then m_Cr_r_tab_fix else d_Cr_r_tab_fix
            | 1 => if mrg then m_Cb_b_tab_fix else d_Cb_b_tab_fix
            | 2 => if mrg then m_Cr_g_tab_fix else d_Cr_g_tab_fix
            | _ => if mrg then m_Cb_g_tab_fix else d_Cb_g_tab_fix
            end in fixc sb (fst nd) (snd nd).
Definition dsb (mrg : bool) : Z := if mrg then m_scalebits else d_scalebits.
Definition Cr_r (p : sprec) (mrg : bool) (i : Z) : Z :=
  Z.shiftr (dfix mrg 0 * (i - sp_center p) + 2 ^ (dsb mrg - 1)) (dsb mrg).
Definition Cb_b (p : sprec) (mrg : bool) (i : Z) : Z :=
  Z.shiftr (dfix mrg 1 * (i - sp_center p) + 2 ^ (dsb mrg - 1)) (dsb mrg).
Definition Cr_g (p : sprec) (mrg : bool) (i : Z) : Z := - dfix mrg 2 * (i - sp_center p).
Definition Cb_g (p : sprec) (mrg : bool) (i : Z) : Z := - dfix mrg 3 * (i - sp_center p) + 2 ^ (dsb mrg - 1).

(* range_limit[] on the index range reached by the converters: a clamp *)
Definition clamp (p : sprec) (v : Z) : Z := if v <? 0 then 0 else if sp_max p <? v then sp_max p else v.

Definition chroma (p : sprec) (mrg : bool) (cb cr : Z) : px3 :=
  (Cr_r p mrg cr, Z.shiftr (Cb_g p mrg cb + Cr_g p mrg cr) (dsb mrg), Cb_b p mrg cb).
Definition rgb_of_ycc_gen (p : sprec) (mrg : bool) (t : px3) : px3 :=
  let ch := chroma p mrg (c1 t) (c2 t) in
  (clamp p (c0 t + c0 ch), clamp p (c0 t + c1 ch), clamp p (c0 t + c2 ch)).
Definition rgb_of_ycc (p : sprec) (t : px3) : px3 := rgb_of_ycc_gen p false t.

(* ------------------------------------------------------------------ jccolext.c *)
Definition unpack_pixel (L : layout) (buf : list Z) (ip : Z) : px3 :=
  (rd buf (ip + roff L), rd buf (ip + goff L), rd buf (ip + boff L)).

(* the column loop: inptr advances by RGB_PIXELSIZE *)
Fixpoint unpack_cols (L : layout) (buf : list Z) (ip : Z) (n : nat) : list px3 :=
  match n with O => [] | S k => unpack_pixel L buf ip :: unpack_cols L buf (ip + psz L) k end.
Definition unpack (L : layout) (buf : list Z) (ptrs : list Z) (w : nat) : list (list px3) :=
  map (fun ip => unpack_cols L buf ip w) ptrs.

Fixpoint rgb_ycc_cols (p : sprec) (L : layout) (buf : list Z) (ip : Z) (n : nat) : list px3 :=
  match n with O => [] | S k => ycc_of_rgb p (unpack_pixel L buf ip) :: rgb_ycc_cols p L buf (ip + psz L) k end.
Fixpoint rgb_gray_cols (p : sprec) (L : layout) (buf : list Z) (ip : Z) (n : nat) : list Z :=
  match n with O => [] | S k => gray_of_rgb p (unpack_pixel L buf ip) :: rgb_gray_cols p L buf (ip + psz L) k end.
Fixpoint rgb_rgb_cols (L : layout) (buf : list Z) (ip : Z) (n : nat) : list px3 :=
  match n with O => [] | S k => unpack_pixel L buf ip :: rgb_rgb_cols L buf (ip + psz L) k end.

(* the row loop: one output row (of triples = the three component planes) per input row pointer *)
Definition rgb_ycc_convert (p : sprec) (L : layout) (buf : list Z) (ptrs : list Z) (w : nat) : list (list px3) :=
  map (fun ip => rgb_ycc_cols p L buf ip w) ptrs.
Definition rgb_gray_convert (p : sprec) (L : layout) (buf : list Z) (ptrs : list Z) (w : nat) : list (list Z) :=
  map (fun ip => rgb_gray_cols p L buf ip w) ptrs.
Definition rgb_rgb_convert (L : layout) (buf : list Z) (ptrs : list Z) (w : nat) : list (list px3) :=
  map (fun ip => rgb_rgb_cols L buf ip w) ptrs.

Definition plane (k : Z) (img : list (list px3)) : list (list Z) :=
  map (map (fun t => match k with 0 => c0 t | 1 => c1 t | _ => c2 t end)) img.

(* ------------------------------------------------------------------ jdcolext.c *)
(* outptr[RGB_RED] = r; outptr[RGB_GREEN] = g; outptr[RGB_BLUE] = b;
   #ifdef RGB_ALPHA outptr[RGB_ALPHA] = _MAXJSAMPLE; *)
Definition put_pixel (amax : Z) (L : layout) (buf : list Z) (op : Z) (t : px3) : list Z :=
  let buf := upd buf (op + roff L) (c0 t) in
  let buf := upd buf (op + goff L) (c1 t) in
  let buf := upd buf (op + boff L) (c2 t) in
  if 0 <=? aoff L then upd buf (op + aoff L) amax else buf.

Fixpoint put_cols (amax : Z) (L : layout) (px : list px3) (buf : list Z) (op : Z) : list Z :=
  match px with [] => buf | t :: r => put_cols amax L r (put_pixel amax L buf op t) (op + psz L) end.
(* the row loop of every output routine: row k is written through output pointer k *)
Fixpoint write_rows {R : Type} (wr : R -> list Z -> Z -> list Z) (img : list R) (buf : list Z) (ptrs : list Z) : list Z :=
  match img, ptrs with
  | row :: ri, op :: rp => write_rows wr ri (wr row buf op) rp
  | _, _ => buf
  end.
Definition put_rows (amax : Z) (L : layout) : list (list px3) -> list Z -> list Z -> list Z :=
  write_rows (put_cols amax L).

Definition ycc_rgb_convert (p : sprec) (L : layout) (img : list (list px3)) (buf : list Z) (ptrs : list Z) : list Z :=
  put_rows (sp_max p) L (map (map (rgb_of_ycc p)) img) buf ptrs.
Definition gray_rgb_convert (amax : Z) (L : layout) (img : list (list Z)) (buf : list Z) (ptrs : list Z) : list Z :=
  put_rows amax L (map (map (fun y => (y, y, y))) img) buf ptrs.
Definition rgb_ext_convert (amax : Z) (L : layout) (img : list (list px3)) (buf : list Z) (ptrs : list Z) : list Z :=
  put_rows amax L img buf ptrs.

Fixpoint alpha_cols (L : layout) (buf : list Z) (ip : Z) (n : nat) : list Z :=
  match n with O => [] | S k => rd buf (ip + aoff L) :: alpha_cols L buf (ip + psz L) k end.
Definition unpack_alpha (L : layout) (buf : list Z) (ptrs : list Z) (w : nat) : list (list Z) :=
  map (fun ip => alpha_cols L buf ip w) ptrs.

(* grayscale_convert of jdcolor.c (JCS_YCbCr / JCS_GRAYSCALE -> JCS_GRAYSCALE):
   jcopy_sample_rows(input_buf[0], ...) -- component 0 is copied, one sample per pixel *)
Fixpoint put_gray_cols (ys : list Z) (buf : list Z) (op : Z) : list Z :=
  match ys with [] => buf | y :: r => put_gray_cols r (upd buf op y) (op + 1) end.
Definition put_gray_rows : list (list Z) -> list Z -> list Z -> list Z := write_rows put_gray_cols.
Definition grayscale_convert_d (img : list (list px3)) (buf : list Z) (ptrs : list Z) : list Z :=
  put_gray_rows (plane 0 img) buf ptrs.
(* build_rgb_y_table + rgb_gray_convert of jdcolor.c (JCS_RGB JPEG -> JCS_GRAYSCALE): the decompressor's own
   R,G,B => Y table (generated entries incl. the ONE_HALF term), no RANGE_LIMIT on the planes *)
Definition d_ytab (k : nat) (i : Z) : Z :=
  match nth k d_rgb_y_entries (0, 1, false) with
  | (num, den, half) => fixc d_scalebits num den * i + (if half then 2 ^ (d_scalebits - 1) else 0)
  end.
Definition rgb_gray_d (p : sprec) (t : px3) : Z :=
  to_sample p (Z.shiftr (d_ytab 0 (c0 t) + d_ytab 1 (c1 t) + d_ytab 2 (c2 t)) d_scalebits).
Definition rgb_gray_convert_d (p : sprec) (img : list (list px3)) (buf : list Z) (ptrs : list Z) : list Z :=
  put_gray_rows (map (map (rgb_gray_d p)) img) buf ptrs.
Fixpoint gray_cols (buf : list Z) (ip : Z) (n : nat) : list Z :=
  match n with O => [] | S k => rd buf ip :: gray_cols buf (ip + 1) k end.
Definition unpack_gray (buf : list Z) (ptrs : list Z) (w : nat) : list (list Z) :=
  map (fun ip => gray_cols buf ip w) ptrs.

(* ------------------------------------------------------------------ jdmrgext.c *)
(* h2v1_merged_upsample_internal: one chroma sample per pair of output pixels, odd
   last column handled separately *)
Fixpoint h2v1_cols (p : sprec) (L : layout) (ys cbs crs : list Z) (buf : list Z) (op : Z) : list Z :=
  match cbs, crs with
  | cb :: tcb, cr :: tcr =>
      let ch := chroma p true cb cr in
      match ys with
      | y0 :: y1 :: ty =>
          let buf := put_pixel (sp_max p) L buf op
                       (clamp p (y0 + c0 ch), clamp p (y0 + c1 ch), clamp p (y0 + c2 ch)) in
          let buf := put_pixel (sp_max p) L buf (op + psz L)
                       (clamp p (y1 + c0 ch), clamp p (y1 + c1 ch), clamp p (y1 + c2 ch)) in
          h2v1_cols p L ty tcb tcr buf (op + psz L + psz L)
      | [y0] =>
          put_pixel (sp_max p) L buf op (clamp p (y0 + c0 ch), clamp p (y0 + c1 ch), clamp p (y0 + c2 ch))
      | [] => buf
      end
  | _, _ => buf
  end.

(* the same row written pixel by pixel after replicating the chroma samples: the
   specification h2v1_cols is compared with *)
Fixpoint dup2 (l : list Z) : list Z := match l with [] => [] | x :: t => x :: x :: dup2 t end.
Fixpoint zip3 (a b c : list Z) : list px3 :=
  match a, b, c with x :: ta, y :: tb, z :: tc => (x, y, z) :: zip3 ta tb tc | _, _, _ => [] end.

Fixpoint zip3rows (a b c : list (list Z)) : list (list Z * list Z * list Z) :=
  match a, b, c with x :: ta, y :: tb, z :: tc => (x, y, z) :: zip3rows ta tb tc | _, _, _ => [] end.
Definition h2v1_rows (p : sprec) (L : layout) (ys cbs crs : list (list Z)) (buf : list Z) (ptrs : list Z) : list Z :=
  write_rows (fun r => h2v1_cols p L (fst (fst r)) (snd (fst r)) (snd r)) (zip3rows ys cbs crs) buf ptrs.
(* what merged upsampling is specified to equal: ordinary conversion of the row with every chroma sample used twice *)
Definition merged_image (ys cbs crs : list (list Z)) : list (list px3) :=
  map (fun r => zip3 (fst (fst r)) (dup2 (snd (fst r))) (dup2 (snd r))) (zip3rows ys cbs crs).
(* h2v2_merged_upsample_internal: two output rows share one chroma row *)
Fixpoint dup_rows {A : Type} (l : list A) : list A := match l with [] => [] | x :: t => x :: x :: dup_rows t end.
Definition h2v2_rows (p : sprec) (L : layout) (ys cbs crs : list (list Z)) (buf : list Z) (ptrs : list Z) : list Z :=
  h2v1_rows p L ys (dup_rows cbs) (dup_rows crs) buf ptrs.

Definition amax_of_bits (bits : Z) : Z :=
  if bits =? 8 then MAXJSAMPLE else if bits =? 12 then MAXJ12SAMPLE else MAXJ16SAMPLE.
Definition prec_of_bits (bits : Z) : sprec := if bits =? 12 then prec12 else prec8.

(* ------------------------------------------------------------------ building buffers *)
Definition quad := (Z * Z * Z * Z)%type.     (* r, g, b and the filler that goes to every other position *)
Definition rgb_of_quad (q : quad) : px3 := let '(r, g, b, _) := q in (r, g, b).
Definition zseq (n : Z) : list Z := map Z.of_nat (seq 0 (Z.to_nat n)).
Definition pack_pixel (L : layout) (q : quad) : list Z :=
  let '(r, g, b, x) := q in
  map (fun k => if k =? roff L then r else if k =? goff L then g else if k =? boff L then b else x) (zseq (psz L)).
Definition pack_row (L : layout) (row : list quad) : list Z := flat_map (pack_pixel L) row.
(* a presentation: rows (top-down) of pixels with their fillers, each with its pitch padding *)
Definition mkbuf (L : layout) (rowsp : list (list quad * list Z)) (bottomUp : bool) : list Z :=
  let chunks := map (fun rp => pack_row L (fst rp) ++ snd rp) rowsp in
  concat (if bottomUp then rev chunks else chunks).
Definition picture (rowsp : list (list quad * list Z)) : list (list px3) :=
  map (fun rp => map rgb_of_quad (fst rp)) rowsp.

(* ------------------------------------------------------------------ specification predicates *)
Definition WF (L : layout) : Prop :=
  (psz L = 3 \/ psz L = 4) /\ 0 <= roff L < psz L /\ 0 <= goff L < psz L /\ 0 <= boff L < psz L /\
  roff L <> goff L /\ roff L <> boff L /\ goff L <> boff L /\
  (aoff L = -1 \/ (0 <= aoff L < psz L /\ aoff L <> roff L /\ aoff L <> goff L /\ aoff L <> boff L)).

(* rowsp presents a picture of width w in layout L with row pitch `pitch`:
   every row has w pixels and is followed by exactly pitch - w*psz padding samples *)
Definition presentation (L : layout) (w : nat) (pitch : Z) (rowsp : list (list quad * list Z)) : Prop :=
  Forall (fun rp => length (fst rp) = w /\ Z.of_nat (length (snd rp)) = pitch - Z.of_nat w * psz L) rowsp.

(* output row pointers: rows of d samples starting at the pointers are pairwise disjoint and inside a buffer of n samples *)
Fixpoint separated (d : Z) (l : list Z) : Prop :=
  match l with [] => True | a :: t => Forall (fun b => a + d <= b \/ b + d <= a) t /\ separated d t end.
Definition in_bounds (d : Z) (n : nat) (l : list Z) : Prop := Forall (fun op => 0 <= op /\ op + d <= Z.of_nat n) l.
Definition outside_rows (d : Z) (l : list Z) (j : Z) : Prop := forall op, In op l -> j < op \/ op + d <= j.

(* ------------------------------------------------------------------ table checks (booleans run by vm_compute) *)
Definition same_rgbp (t : option (Z * Z * Z * Z * Z)) (L : layout) : bool :=
  match t with
  | Some (r, g, b, _, p) => (r =? roff L) && (g =? goff L) && (b =? boff L) && (p =? psz L)
  | None => false
  end.
Definition same_alpha (t : option (Z * Z * Z * Z * Z)) (L : layout) : bool :=
  match t with Some (_, _, _, a, _) => a =? aoff L | None => false end.

Definition rgbp_of (t : option (Z * Z * Z * Z * Z)) : option (Z * Z * Z * Z) :=
  match t with Some (r, g, b, _, p) => Some (r, g, b, p) | None => None end.
Definition alpha_of (t : option (Z * Z * Z * Z * Z)) : option Z :=
  match t with Some (_, _, _, a, _) => Some a | None => None end.
Definition layout_rgbp (L : layout) : Z * Z * Z * Z := (roff L, goff L, boff L, psz L).

Definition c_dispatch_tables := [disp_jccolor_rgb_ycc_convert; disp_jccolor_rgb_gray_convert; disp_jccolor_rgb_rgb_convert].
Definition d_dispatch_tables := [disp_jdcolor_ycc_rgb_convert; disp_jdcolor_gray_rgb_convert; disp_jdcolor_rgb_rgb_convert;
                                 disp_jdmerge_h2v1_merged_upsample; disp_jdmerge_h2v2_merged_upsample].

Definition cs_ok (cs : Z) : bool :=
  let L := cs_layout cs in
  wf_layoutb L &&
  forallb (fun tab => same_rgbp (lookup5 tab cs) L) (c_dispatch_tables ++ d_dispatch_tables ++ simd_dispatch_tables) &&
  forallb (fun tab => same_alpha (lookup5 tab cs) L) d_dispatch_tables &&
  ((psz L =? 3) || (0 <=? aoff L)).

Definition pf_ok (pf : Z) : bool :=
  let T := pf_layout pf in let cs := znth pf2cs_tab pf in let L := cs_layout cs in
  existsb (Z.eqb cs) rgb_family_cs &&
  (roff T =? roff L) && (goff T =? goff L) && (boff T =? boff L) && (psz T =? psz L) &&
  ((aoff T =? (-1)) || (aoff T =? aoff L)) &&
  (znth cs2pf_tab cs =? pf) && wf_layoutb T.

Fixpoint zlist_eqb (a b : list Z) : bool :=
  match a, b with
  | [], [] => true
  | x :: ta, y :: tb => (x =? y) && zlist_eqb ta tb
  | _, _ => false
  end.

Definition fix_ok : bool :=
  (c_scalebits =? 16) && (d_scalebits =? 16) && (m_scalebits =? 16) &&
  forallb (fun e => match e with (v, num, den) => fixc c_scalebits num den =? v end) simd_fix_consts &&
  zlist_eqb (map (fun e => match e with (_, (_, num, den), _) => fixc c_scalebits num den end) c_tab_entries) c_fix_values &&
  (dfix false 0 =? dfix true 0) && (dfix false 1 =? dfix true 1) && (dfix false 2 =? dfix true 2) && (dfix false 3 =? dfix true 3).

Definition layouts_ok : bool :=
  forallb cs_ok rgb_family_cs && forallb pf_ok tj_rgb_family_pf &&
  (Z.of_nat (length rgb_family_cs) =? 11) && (Z.of_nat (length tj_rgb_family_pf) =? 10) &&
  (znth cs2pf_tab (znth pf2cs_tab TJPF_GRAY) =? TJPF_GRAY) && (znth cs2pf_tab (znth pf2cs_tab TJPF_CMYK) =? TJPF_CMYK).
