(* LosslessBytes.v -- byte level of the lossless Huffman entropy coder:
     jclhuff.c  emit_bits (24-bit left-justified put_buffer, 0xFF stuffing),
                flush_bits (pad with 1-bits), emit_restart (0xFF, RST0+n),
                encode_mcus_huff (restart check at the start of a call, per-MCU
                restarts_to_go / next_restart_num), finish_pass_huff
     jdhuff.c   jpeg_fill_bit_buffer's byte reader (FF 00 -> FF, FF.. m -> marker)
     jdlhuff.c  process_restart (discard the remaining bits) + jdmarker.c
                read_restart_marker (the expected RSTn)
   No proofs here (proofs/LosslessBytesProofs.v).
   put_buffer is a size_t in C (size_t_wrap); bits above bit 23 are never read
   again.  The decoder side reads a whole entropy-coded segment
   up to the next marker at once (jpeg_fill_bit_buffer does it lazily). *)
From Coq Require Import List ZArith Bool.
From LJT Require Import model.Huff model.Lossless.
Import ListNotations.
Local Open Scope Z_scope.

(* ------------------------------------------------------- jclhuff.c emit_bits *)
Definition ebstate := (Z * Z)%type.          (* cur.put_buffer, cur.put_bits *)

(* put_buffer is a size_t (64 bits in this build): "put_buffer <<= 8" drops what leaves the word *)
Definition size_t_wrap (x : Z) : Z := x mod 18446744073709551616.

(* "emit_byte(c); if (c == 0xFF) emit_byte(0);" *)
Definition stuff1 (c : Z) : list Z := if c =? 255 then [255; 0] else [c].

(* "while (put_bits >= 8) { c = (put_buffer >> 16) & 0xFF; ...; put_buffer <<= 8; put_bits -= 8; }" *)
Fixpoint emit_loop (fuel : nat) (pb nb : Z) : list Z * ebstate :=
  match fuel with
  | O => ([], (pb, nb))
  | S k =>
      if 8 <=? nb then
        let c := Z.land (Z.shiftr pb 16) 255 in
        let (out, st) := emit_loop k (size_t_wrap (Z.shiftl pb 8)) (nb - 8) in
        (stuff1 c ++ out, st)
      else ([], (pb, nb))
  end.

Definition emit_bits (st : ebstate) (code size : Z) : list Z * ebstate :=
  let pb := Z.land code (Z.shiftl 1 size - 1) in    (* mask off any extra bits in code *)
  let nb := snd st + size in                        (* put_bits += size *)
  let pb := Z.shiftl pb (24 - nb) in                (* align incoming bits *)
  let pb := Z.lor pb (fst st) in                    (* merge with old buffer contents *)
  emit_loop 3 pb nb.

(* flush_bits: emit_bits(0x7F, 7), then reset the bit buffer to empty *)
Definition flush_bits (st : ebstate) : list Z * ebstate :=
  let (out, _) := emit_bits st 127 7 in (out, (0, 0)).

Definition JPEG_RST0 : Z := 208.
Definition emit_restart (st : ebstate) (num : Z) : list Z * ebstate :=
  let (out, st') := flush_bits st in (out ++ [255; JPEG_RST0 + num], st').

(* one difference: Huffman code of the category, then the extra bits
   ("if (nbits && nbits != 16)").  None = JERR_HUFF_MISSING_CODE (size 0) *)
Definition emit_tok (ct : ctbl) (st : ebstate) (d : Z) : option (list Z * ebstate) :=
  let (nb, extra) := encode_diff d in
  let si := nthZ (ehufsi ct) (Z.to_nat nb) in
  let co := nthZ (ehufco ct) (Z.to_nat nb) in
  if si =? 0 then None
  else
    let (o1, st1) := emit_bits st co si in
    if (nb =? 0) || (nb =? 16) then Some (o1, st1)
    else let (o2, st2) := emit_bits st1 extra nb in Some (o1 ++ o2, st2).

Fixpoint emit_toks (cts : Z -> ctbl) (st : ebstate) (l : list (Z * Z)) : option (list Z * ebstate) :=
  match l with
  | [] => Some ([], st)
  | (tbl, d) :: t =>
      match emit_tok (cts tbl) st d with
      | None => None
      | Some (o, st') =>
          match emit_toks cts st' t with
          | None => None
          | Some (o', st'') => Some (o ++ o', st'')
          end
      end
  end.

(* "if (cinfo->restart_interval) { if (restarts_to_go == 0) { restarts_to_go = restart_interval;
      next_restart_num++; next_restart_num &= 7; } restarts_to_go--; }"  after every MCU *)
Definition rst_after_mcu (ri : Z) (rs : Z * Z) : Z * Z :=
  if ri =? 0 then rs
  else
    let rs1 := if fst rs =? 0 then (ri, Z.land (snd rs + 1) 7) else rs in
    (fst rs1 - 1, snd rs1).

Fixpoint emit_mcus (cts : Z -> ctbl) (ri : Z) (st : ebstate) (rs : Z * Z) (mcus : list (list (Z * Z)))
  : option (list Z * ebstate * (Z * Z)) :=
  match mcus with
  | [] => Some ([], st, rs)
  | m :: t =>
      match emit_toks cts st m with
      | None => None
      | Some (o, st') =>
          match emit_mcus cts ri st' (rst_after_mcu ri rs) t with
          | None => None
          | Some (o', st'', rs'') => Some (o ++ o', st'', rs'')
          end
      end
  end.

(* encode_mcus_huff, one call = one MCU row: "Emit restart marker if needed"
   is tested once, at the start of the call *)
Definition encode_mcus_huff (cts : Z -> ctbl) (ri : Z) (st : ebstate) (rs : Z * Z)
           (mcus : list (list (Z * Z))) : option (list Z * ebstate * (Z * Z)) :=
  let (o0, st0) := if negb (ri =? 0) && (fst rs =? 0) then emit_restart st (snd rs) else ([], st) in
  match emit_mcus cts ri st0 rs mcus with
  | None => None
  | Some (o, st', rs') => Some (o0 ++ o, st', rs')
  end.

Fixpoint encode_rows_huff (cts : Z -> ctbl) (ri : Z) (st : ebstate) (rs : Z * Z)
         (rows : list (list (list (Z * Z)))) : option (list Z * ebstate * (Z * Z)) :=
  match rows with
  | [] => Some ([], st, rs)
  | r :: t =>
      match encode_mcus_huff cts ri st rs r with
      | None => None
      | Some (o, st', rs') =>
          match encode_rows_huff cts ri st' rs' t with
          | None => None
          | Some (o', st'', rs'') => Some (o ++ o', st'', rs'')
          end
      end
  end.

(* the MCUs (table, difference) of one MCU row of a scan whose components use the tables tbls *)
Definition mcus_of_row (tbls : list Z) (w : nat) (comps : list (list Z)) : list (list (Z * Z)) :=
  map (fun mcu => combine tbls mcu) (transpose w comps).

(* start_pass_lhuff (restarts_to_go = restart_interval, next_restart_num = 0, empty
   bit buffer), every MCU row through encode_mcus_huff, finish_pass_huff *)
Definition encode_scan_bytes (cts : Z -> ctbl) (ri : Z) (tbls : list Z) (w : nat)
           (drows : list (list (list Z))) : option (list Z) :=
  match encode_rows_huff cts ri (0, 0) (ri, 0) (map (mcus_of_row tbls w) drows) with
  | None => None
  | Some (o, st, _) => Some (o ++ fst (flush_bits st))
  end.

(* ------------------------------------------------- decoder: bytes -> bits *)
(* data bytes of the entropy-coded segment up to the next marker, and
   (marker code, bytes after it).  FF 00 is the data byte FF; FF FF.. is skipped *)
Fixpoint read_ecs (bs : list Z) : list Z * option (Z * list Z) :=
  match bs with
  | [] => ([], None)
  | c :: t =>
      if c =? 255 then
        (fix after_ff (t : list Z) : list Z * option (Z * list Z) :=
           match t with
           | [] => ([], None)
           | c2 :: t2 =>
               if c2 =? 255 then after_ff t2
               else if c2 =? 0 then let (d, m) := read_ecs t2 in (255 :: d, m)
               else ([], Some (c2, t2))
           end) t
      else let (d, m) := read_ecs t in (c :: d, m)
  end.

Definition bits_of_bytes (bs : list Z) : list bool := flat_map (bits_of 8) bs.

(* one restart interval: all its samples from the bits of its segment; what is
   left over (the padding) is discarded by process_restart *)
Definition dec_interval (dec : Z -> list bool -> option (Z * list bool)) (tblseq : list Z) (bytes : list Z)
  : option (list Z * option (Z * list Z)) :=
  let (data, mk) := read_ecs bytes in
  match decode_toks dec tblseq (bits_of_bytes data) with
  | None => None
  | Some (ds, _) => Some (ds, mk)
  end.

(* the intervals of a scan; between two of them read_restart_marker wants
   RST(next_restart_num).  Result: the samples of every interval and the marker
   that ends the scan with the bytes after it *)
Fixpoint dec_intervals (dec : Z -> list bool -> option (Z * list bool)) (segs : list (list Z)) (num : Z)
         (bytes : list Z) : option (list (list Z) * option (Z * list Z)) :=
  match segs with
  | [] => None
  | tblseq :: rest =>
      match dec_interval dec tblseq bytes with
      | None => None
      | Some (ds, mk) =>
          match rest with
          | [] => Some ([ds], mk)
          | _ :: _ =>
              match mk with
              | Some (m, tail) =>
                  if m =? JPEG_RST0 + num then
                    match dec_intervals dec rest (Z.land (num + 1) 7) tail with
                    | None => None
                    | Some (dss, mk') => Some (ds :: dss, mk')
                    end
                  else None
              | None => None
              end
          end
      end
  end.
