(* C05 -- fast integer inverse DCT: src/jidctfst.c (8-bit, DCTELEM = short in the SIMD build) and
   the lane dataflow of simd/x86_64/jidctfst-sse2.asm (used at the SSE2 and AVX2 level).
   Both execute the AA&N flow graph statement by statement; `ialg` is the lane algebra.
   C: every DCTELEM assignment truncates to a short, MULTIPLY is (int * const) >> CONST_BITS,
      the per-pass results are ints (workspace / IDESCALE argument), zero-AC shortcuts included.
   asm: paddw/psubw, psllw PRE_MULTIPLY_SCALE_BITS ; pmulhw (const << CONST_SHIFT), pmullw dequantisation,
      psraw (PASS1_BITS+3) ; packsswb ; paddb 128.                                  No proofs here. *)
From Coq Require Import List ZArith Bool.
From LJT Require Import lib.Words gen.GenSimdConst model.SimdDct.
Import ListNotations.
Local Open Scope Z_scope.

Record ialg := {
  I_add : Z -> Z -> Z;  I_sub : Z -> Z -> Z;
  I_mul1 : Z -> nat -> Z;            (* MULTIPLY(x, K)       K: 0 = 1.414213562, 1 = 1.847759065, 2 = 1.082392200 *)
  I_mul_add : Z -> Z -> nat -> Z;    (* MULTIPLY(x + y, K) *)
  I_mul_sub : Z -> Z -> nat -> Z;    (* MULTIPLY(x - y, K) *)
  I_mul_m2613 : Z -> Z;              (* MULTIPLY(x, -FIX_2_613125930) *)
  I_out_add : Z -> Z -> Z;  I_out_sub : Z -> Z -> Z }.   (* the eight results of a pass: tmpA +- tmpB *)

(* one pass on eight inputs (dequantised column / workspace row) *)
Definition idct1 (A : ialg) (d : list Z) : list Z :=
  match d with
  | [in0; in1; in2; in3; in4; in5; in6; in7] =>
      let add := I_add A in let sub := I_sub A in
      (* even part *)
      let tmp10 := add in0 in4 in let tmp11 := sub in0 in4 in
      let tmp13 := add in2 in6 in
      let tmp12 := sub (I_mul_sub A in2 in6 0) tmp13 in
      let tmp0 := add tmp10 tmp13 in let tmp3 := sub tmp10 tmp13 in
      let tmp1 := add tmp11 tmp12 in let tmp2 := sub tmp11 tmp12 in
      (* odd part *)
      let z13 := add in5 in3 in let z10 := sub in5 in3 in
      let z11 := add in1 in7 in let z12 := sub in1 in7 in
      let tmp7 := add z11 z13 in
      let t11 := I_mul_sub A z11 z13 0 in
      let z5 := I_mul_add A z10 z12 1 in
      let t10 := sub (I_mul1 A z12 2) z5 in
      let t12 := add (I_mul_m2613 A z10) z5 in
      let tmp6 := sub t12 tmp7 in
      let tmp5 := sub t11 tmp6 in
      let tmp4 := add t10 tmp5 in
      [I_out_add A tmp0 tmp7; I_out_add A tmp1 tmp6; I_out_add A tmp2 tmp5; I_out_sub A tmp3 tmp4;
       I_out_add A tmp3 tmp4; I_out_sub A tmp2 tmp5; I_out_sub A tmp1 tmp6; I_out_sub A tmp0 tmp7]
  | _ => []
  end.

(* ---- C ---- *)
Definition ci_K (k : nat) : Z := nth k [c_jidctfst_FIX_1_414213562; c_jidctfst_FIX_1_847759065; c_jidctfst_FIX_1_082392200] 0.
Definition ci_mul (v c : Z) : Z := sw (Z.shiftr (v * c) c_jidctfst_CONST_BITS).
Definition ci_alg : ialg :=
  {| I_add := fun a b => sw (a + b); I_sub := fun a b => sw (a - b);
     I_mul1 := fun x k => ci_mul x (ci_K k); I_mul_add := fun x y k => ci_mul (x + y) (ci_K k);
     I_mul_sub := fun x y k => ci_mul (x - y) (ci_K k);
     I_mul_m2613 := fun x => ci_mul x (- c_jidctfst_FIX_2_613125930);
     I_out_add := fun a b => a + b; I_out_sub := fun a b => a - b |}.     (* (int)(tmp0 + tmp7): not truncated *)
Definition all_zero (l : list Z) : bool := forallb (Z.eqb 0) l.
(* pass 1, one column: coefficients and multipliers (IFAST_MULT_TYPE = short) *)
Definition ci_col (coef q : list Z) : list Z :=
  if all_zero (tl coef) then repeat (hd 0 coef * hd 0 q) 8              (* dcval is an int *)
  else idct1 ci_alg (map2 (fun c m => sw (c * m)) coef q).             (* DEQUANTIZE into a DCTELEM *)
(* range_limit[] behind IDCT_range_limit(cinfo), indexed with & RANGE_MASK (src/jdmaster.c prepare_range_limit_table) *)
Definition idct_range_limit (v : Z) : Z :=
  let i := v mod 1024 in
  if i <? 128 then i + 128 else if i <? 512 then 255 else if i <? 896 then 0 else i - 896.
Definition ci_descale (x : Z) : Z := Z.shiftr x (jidctfst_sse2_PASS1_BITS + 3).
(* pass 2, one row of the int workspace *)
Definition ci_row (ws : list Z) : list Z :=
  if all_zero (tl ws) then repeat (idct_range_limit (ci_descale (hd 0 ws))) 8
  else map (fun s => idct_range_limit (ci_descale s)) (idct1 ci_alg (map sw ws)).
Definition c_idct_ifast (coef q : list Z) : list Z :=
  let cols := transpose (chunk8 8 coef) in let qc := transpose (chunk8 8 q) in
  let ws := transpose (map2 ci_col cols qc) in      (* workspace, row major *)
  concat (map ci_row ws).

(* ---- asm ---- *)
Definition ai_K (k : nat) : Z :=
  w16 (nth k [nth 0 (snd jidctfst_sse2_PW_F1414) 0; nth 0 (snd jidctfst_sse2_PW_F1847) 0; nth 0 (snd jidctfst_sse2_PW_F1082) 0] 0).
Definition ai_MF1613 : Z := w16 (nth 0 (snd jidctfst_sse2_PW_MF1613) 0).
Definition ai_pre : Z := jidctfst_sse2_PRE_MULTIPLY_SCALE_BITS.
Definition ai_alg : ialg :=
  {| I_add := paddw; I_sub := psubw;
     I_mul1 := fun x k => pmulhw (psllw x ai_pre) (ai_K k);
     I_mul_add := fun x y k => pmulhw (paddw (psllw x ai_pre) (psllw y ai_pre)) (ai_K k);
     I_mul_sub := fun x y k => pmulhw (psllw (psubw x y) ai_pre) (ai_K k);
     I_mul_m2613 := fun x => psubw (pmulhw (psllw x ai_pre) ai_MF1613) x;
     I_out_add := paddw; I_out_sub := psubw |}.
Definition packsswb (w : Z) : Z := let v := s16 w in w8 (if v <? -128 then -128 else if 127 <? v then 127 else v).
Definition ai_final (w : Z) : Z := w8 (packsswb (psraw w (jidctfst_sse2_PASS1_BITS + 3)) + nth 0 (snd jidctfst_sse2_PB_CENTERJSAMP) 0).
Definition asm_idct_ifast (coef q : list Z) : list Z :=
  let cols := transpose (chunk8 8 (map w16 coef)) in let qc := transpose (chunk8 8 (map w16 q)) in
  let ws := transpose (map2 (fun c m => idct1 ai_alg (map2 pmullw c m)) cols qc) in
  concat (map (fun r => map ai_final (idct1 ai_alg r)) ws).

(* ---- the boundary: what the C computation must satisfy for the 16-bit lanes to be exact ---- *)
Definition fits16b (v : Z) : bool := (-32768 <=? v) && (v <? 32768).
Definition ci_operands (d : list Z) : list Z :=     (* the five MULTIPLY operands of a pass (int values) *)
  match d with
  | [in0; in1; in2; in3; in4; in5; in6; in7] =>
      let z13 := sw (in5 + in3) in let z10 := sw (in5 - in3) in let z11 := sw (in1 + in7) in let z12 := sw (in1 - in7) in
      [in2 - in6; z11 - z13; z10 + z12; z12; z10]
  | _ => []
  end.
Definition finalb (s : Z) : bool := (-16384 <=? s) && (s <? 16384).
Definition c_idct_ifast_ok (coef q : list Z) : bool :=
  let cols := transpose (chunk8 8 coef) in let qc := transpose (chunk8 8 q) in
  let deq := map2 (map2 Z.mul) cols qc in
  let p1 := map2 ci_col cols qc in
  let ws := transpose p1 in
  forallb (forallb fits16b) deq &&                                  (* dequantised coefficients fit a short *)
  forallb (fun c => forallb in14b (ci_operands c)) deq &&           (* pass 1 multiply operands < 8192 *)
  forallb (forallb fits16b) p1 &&                                   (* workspace values fit a short *)
  forallb (fun r => forallb in14b (ci_operands r)) ws &&            (* pass 2 multiply operands < 8192 *)
  forallb (fun r => forallb finalb (idct1 ci_alg r)) ws.            (* results within the range-limit table's linear part *)
