(* Lossless.v -- executable model of the lossless (predictive) JPEG codec of
   libjpeg-turbo:
     jlossls.h   PREDICTOR1..7
     jclossls.c  DIFFERENCE_1D / DIFFERENCE_2D, jpeg_difference_first_row,
                 reset_predictor, simple_downscale / noscale, start_pass_lossless
     jcdiffct.c  compress_data: per component  scale, difference, SWAP_ROWS
     jclhuff.c   encode_mcus_huff: difference -> (category, extra bits)
     jdlhuff.c   decode_mcus: category 16 => 32768, HUFF_EXTEND
     jdlossls.c  UNDIFFERENCE_1D / UNDIFFERENCE_2D (explicit "& 0xFFFF"),
                 simple_upscale / noscale, start_pass_lossless
     jddiffct.c  decompress_data: restart_rows_to_go, process_restart
   No proofs here (proofs/LosslessProofs.v).  C ints are unbounded Z except
   where the code wraps on purpose or by type: "& 0xFFFF" (and16), the
   unsigned restart_rows_to_go counters (u32), the (_JSAMPLE) casts
   (cast_sample) and the unsigned arithmetic inside HUFF_EXTEND. *)
From Coq Require Import List ZArith Bool.
From LJT Require Import model.Huff.
Import ListNotations.
Local Open Scope Z_scope.

(* ------------------------------------------------------------ C operators *)
Definition RIGHT_SHIFT (x n : Z) : Z := Z.shiftr x n.      (* arithmetic shift *)
Definition and16 (x : Z) : Z := Z.land x 65535.            (* "& 0xFFFF"       *)
Definition u32 (x : Z) : Z := x mod 4294967296.            (* unsigned int     *)
Definition to_int32 (x : Z) : Z := (x + 2147483648) mod 4294967296 - 2147483648.

(* BITS_IN_JSAMPLE of the library copy that serves a given data precision
   (turbojpeg-mp.c / jcapistd.c: 2..8 -> 8, 9..12 -> 12, 13..16 -> 16) *)
Definition bits_of_prec (prec : Z) : Z :=
  if prec <=? 8 then 8 else if prec <=? 12 then 12 else 16.
(* (_JSAMPLE)x : unsigned char / short / unsigned short *)
Definition cast_sample (bits x : Z) : Z :=
  if bits =? 8 then x mod 256
  else if bits =? 12 then (x + 32768) mod 65536 - 32768
  else x mod 65536.

(* -------------------------------------------------- jlossls.h  PREDICTOR1..7 *)
Definition predictor (psv Ra Rb Rc : Z) : Z :=
  match psv with
  | 1 => Ra
  | 2 => Rb
  | 3 => Rc
  | 4 => Ra + Rb - Rc
  | 5 => Ra + RIGHT_SHIFT (Rb - Rc) 1
  | 6 => Rb + RIGHT_SHIFT (Ra - Rc) 1
  | 7 => RIGHT_SHIFT (Ra + Rb) 1
  | _ => 0
  end.
Definition psv_ok (psv : Z) : bool := (1 <=? psv) && (psv <=? 7).

(* INITIAL_PREDICTORx = 1 << (data_precision - Al - 1) *)
Definition initial_predictor_x (prec pt : Z) : Z := Z.shiftl 1 (prec - pt - 1).

(* ------------------------------------------------ jclossls.c  differencing *)
(* "while (--width) { Ra = samp; samp = *input_buf++; *diff_buf++ = samp - PREDICTOR1; }" *)
Fixpoint diff1d_loop (samp : Z) (input : list Z) : list Z :=
  match input with
  | [] => []
  | s :: t => (s - samp) :: diff1d_loop s t
  end.
Definition difference_1d (initial : Z) (input : list Z) : list Z :=
  match input with
  | [] => []
  | samp :: t => (samp - initial) :: diff1d_loop samp t
  end.

(* "while (--width) { Rc = Rb; Rb = *prev_row++; Ra = samp; samp = *input_buf++;
                      *diff_buf++ = samp - PREDICTOR; }" *)
Fixpoint diff2d_loop (psv samp Rb : Z) (prev input : list Z) {struct input} : list Z :=
  match input, prev with
  | s :: it, b :: pt => (s - predictor psv samp b Rb) :: diff2d_loop psv s b pt it
  | _, _ => []
  end.
Definition difference_2d (psv : Z) (prev input : list Z) : list Z :=
  match prev, input with
  | Rb :: pt, samp :: it => (samp - Rb) :: diff2d_loop psv samp Rb pt it
  | _, _ => []
  end.

(* predict_difference[ci]: jpeg_difference_first_row while [first], else
   jpeg_difference<psv> (psv 1 = DIFFERENCE_1D(prev_row[0])) *)
Definition diff_fn (first : bool) (psv prec pt : Z) (prev input : list Z) : list Z :=
  if first then difference_1d (initial_predictor_x prec pt) input
  else if psv =? 1 then difference_1d (hd 0 prev) input
  else difference_2d psv prev input.

(* state of one component: (predict_difference is the first-row function?,
   restart_rows_to_go) *)
Definition lstate := (bool * Z)%type.

(* reset_predictor *)
Definition reset_predictor (ri mpr : Z) : lstate := (true, ri / mpr).

(* tail of DIFFERENCE_1D/2D + the switch at the end of jpeg_difference_first_row *)
Definition after_first_row (first : bool) (psv : Z) : bool :=
  if first then negb (psv_ok psv) else false.
Definition enc_after_row (ri mpr psv : Z) (st : lstate) : lstate :=
  if ri =? 0 then (after_first_row (fst st) psv, snd st)
  else
    let rtg := u32 (snd st - 1) in
    if rtg =? 0 then reset_predictor ri mpr
    else (after_first_row (fst st) psv, rtg).

(* simple_downscale / noscale (compressor) *)
Definition scale_down (bits pt : Z) (row : list Z) : list Z :=
  if pt =? 0 then row else map (fun s => cast_sample bits (RIGHT_SHIFT s pt)) row.

(* jcdiffct.c compress_data for one component (v_samp_factor is forced to 1 in
   lossless mode, jcmaster.c): scale, difference against prev_row, swap *)
Fixpoint enc_rows (ri mpr psv prec pt : Z) (st : lstate) (prev : list Z)
         (rows : list (list Z)) : list (list Z) :=
  match rows with
  | [] => []
  | r :: t =>
      let cur := scale_down (bits_of_prec prec) pt r in
      diff_fn (fst st) psv prec pt prev cur
        :: enc_rows ri mpr psv prec pt (enc_after_row ri mpr psv st) cur t
  end.

(* start_pass_lossless: "restart_interval % MCUs_per_row != 0 => JERR_BAD_RESTART" *)
Definition start_pass_ok (ri mpr : Z) : bool := ri mod mpr =? 0.

(* jpeg_enable_lossless / validate_script: 1 <= Ss <= 7, 0 <= Al < data_precision *)
Definition params_ok (psv prec pt : Z) : bool := psv_ok psv && (0 <=? pt) && (pt <? prec).

Definition enc_component (ri mpr psv prec pt : Z) (rows : list (list Z)) : option (list (list Z)) :=
  if params_ok psv prec pt && start_pass_ok ri mpr
  then Some (enc_rows ri mpr psv prec pt (reset_predictor ri mpr) [] rows)
  else None.

(* ------------------------------- jclhuff.c / jdlhuff.c  difference coding *)
(* (category, extra bits as emit_bits masks them) *)
Definition encode_diff (d : Z) : Z * Z :=
  if negb (Z.land d 32768 =? 0) then              (* temp & 0x8000 *)
    let t := Z.land (- d) 32767 in                (* (-temp) & 0x7FFF *)
    let t := if t =? 0 then 32768 else t in       (* magnitude 32768 *)
    let t2 := Z.lnot t in                         (* ~temp *)
    let nb := nbits t in
    (nb, Z.land t2 (Z.shiftl 1 nb - 1))
  else
    let t := Z.land d 32767 in
    let nb := nbits t in
    (nb, Z.land t (Z.shiftl 1 nb - 1)).

(* ((x) + ((((x) - (1 << ((s) - 1))) >> 31) & (((NEG_1) << (s)) + 1))) in
   unsigned arithmetic, stored into an int *)
Definition huff_extend (x s : Z) : Z :=
  let sign := if x - Z.shiftl 1 (s - 1) <? 0 then 4294967295 else 0 in
  let off := u32 (u32 (Z.shiftl 4294967295 s) + 1) in
  to_int32 (u32 (x + Z.land sign off)).

Definition decode_diff (cat_extra : Z * Z) : Z :=
  let (s, r) := cat_extra in
  if s =? 0 then 0
  else if s =? 16 then 32768
  else huff_extend r s.

(* what the decoder hands to the undifferencer for an encoder difference d *)
Definition canon_diff (d : Z) : Z := decode_diff (encode_diff d).

(* bit level.  [code tbl sym] is the Huffman code of a category in table tbl;
   the extra bits go out most significant first.  "if (nbits && nbits != 16)" *)
Fixpoint bits_of (n : nat) (v : Z) : list bool :=
  match n with
  | O => []
  | S k => Z.odd (Z.shiftr v (Z.of_nat k)) :: bits_of k v
  end.
Fixpoint get_bits (n : nat) (acc : Z) (bs : list bool) : option (Z * list bool) :=
  match n with
  | O => Some (acc, bs)
  | S k => match bs with
           | [] => None
           | b :: t => get_bits k (2 * acc + (if b then 1 else 0)) t
           end
  end.

Definition encode_tok (code : Z -> Z -> list bool) (tbl d : Z) : list bool :=
  let (nb, extra) := encode_diff d in
  code tbl nb ++ (if (nb =? 0) || (nb =? 16) then [] else bits_of (Z.to_nat nb) extra).

Definition decode_tok (dec : Z -> list bool -> option (Z * list bool)) (tbl : Z)
           (bs : list bool) : option (Z * list bool) :=
  match dec tbl bs with
  | None => None
  | Some (s, rest) =>
      if s =? 0 then Some (0, rest)
      else if s =? 16 then Some (32768, rest)
      else match get_bits (Z.to_nat s) 0 rest with
           | None => None
           | Some (r, rest') => Some (huff_extend r s, rest')
           end
  end.

(* a run of samples, each with the table index of its component
   (entropy->cur_tbls[sampn]) *)
Fixpoint encode_toks (code : Z -> Z -> list bool) (l : list (Z * Z)) : list bool :=
  match l with
  | [] => []
  | (tbl, d) :: t => encode_tok code tbl d ++ encode_toks code t
  end.
Fixpoint decode_toks (dec : Z -> list bool -> option (Z * list bool)) (tbls : list Z)
         (bs : list bool) : option (list Z * list bool) :=
  match tbls with
  | [] => Some ([], bs)
  | tbl :: t =>
      match decode_tok dec tbl bs with
      | None => None
      | Some (d, rest) =>
          match decode_toks dec t rest with
          | None => None
          | Some (ds, rest') => Some (d :: ds, rest')
          end
      end
  end.

(* MCU order of an interleaved scan (all sampling factors 1): for each column,
   one sample of every component of the scan.  [transpose w rows] turns the
   component rows of one MCU row into its w MCUs, and back. *)
Fixpoint transpose (w : nat) (rows : list (list Z)) : list (list Z) :=
  match w with
  | O => []
  | S k => map (hd 0) rows :: transpose k (map (@tl Z) rows)
  end.
Definition mcu_row_toks (tbls : list Z) (w : nat) (rows : list (list Z)) : list (Z * Z) :=
  concat (map (fun mcu => combine tbls mcu) (transpose w rows)).
Fixpoint chunks (n : nat) (k : nat) (l : list Z) : list (list Z) :=
  match k with
  | O => []
  | S k' => firstn n l :: chunks n k' (skipn n l)
  end.
Definition encode_mcu_row (code : Z -> Z -> list bool) (tbls : list Z) (w : nat)
           (rows : list (list Z)) : list bool :=
  encode_toks code (mcu_row_toks tbls w rows).
Definition decode_mcu_row (dec : Z -> list bool -> option (Z * list bool)) (tbls : list Z)
           (w : nat) (bs : list bool) : option (list (list Z) * list bool) :=
  match decode_toks dec (concat (repeat tbls w)) bs with
  | None => None
  | Some (ds, rest) => Some (transpose (length tbls) (chunks (length tbls) w ds), rest)
  end.

(* ---------------------------------------------- jdlossls.c  undifferencing *)
Fixpoint undiff1d_loop (Ra : Z) (diffs : list Z) : list Z :=
  match diffs with
  | [] => []
  | d :: t => let Ra' := and16 (d + Ra) in Ra' :: undiff1d_loop Ra' t
  end.
Definition undifference_1d (initial : Z) (diffs : list Z) : list Z :=
  match diffs with
  | [] => []
  | d :: t => let Ra := and16 (d + initial) in Ra :: undiff1d_loop Ra t
  end.

Fixpoint undiff2d_loop (psv Ra Rb : Z) (prev diffs : list Z) {struct diffs} : list Z :=
  match diffs, prev with
  | d :: dt, b :: pt =>
      let Ra' := and16 (d + predictor psv Ra b Rb) in Ra' :: undiff2d_loop psv Ra' b pt dt
  | _, _ => []
  end.
Definition undifference_2d (psv : Z) (prev diffs : list Z) : list Z :=
  match prev, diffs with
  | Rb :: pt, d :: dt => let Ra := and16 (d + Rb) in Ra :: undiff2d_loop psv Ra Rb pt dt
  | _, _ => []
  end.

Definition undiff_fn (first : bool) (psv prec pt : Z) (prev diffs : list Z) : list Z :=
  if first then undifference_1d (initial_predictor_x prec pt) diffs
  else if psv =? 1 then undifference_1d (hd 0 prev) diffs
  else undifference_2d psv prev diffs.

(* simple_upscale / noscale (decompressor): (_JSAMPLE)(x << Al) / (_JSAMPLE)x *)
Definition scale_up (bits pt : Z) (row : list Z) : list Z :=
  if pt =? 0 then map (cast_sample bits) row
  else map (fun x => cast_sample bits (Z.shiftl x pt)) row.

(* jddiffct.c decompress_data for one component: restart check
   ("restart_rows_to_go == 0 => process_restart => start_pass_lossless"),
   decode_mcus (the difference row is the argument), "restart_rows_to_go--",
   undifference against the previous undifferenced row, scale *)
Definition dec_before_row (ri mpr : Z) (st : lstate) : lstate :=
  let st1 := if negb (ri =? 0) && (snd st =? 0) then (true, ri / mpr) else st in
  if ri =? 0 then st1 else (fst st1, u32 (snd st1 - 1)).

Fixpoint dec_rows (ri mpr psv prec pt : Z) (st : lstate) (prev : list Z)
         (drows : list (list Z)) : list (list Z) :=
  match drows with
  | [] => []
  | d :: t =>
      let st2 := dec_before_row ri mpr st in
      let u := undiff_fn (fst st2) psv prec pt prev d in
      scale_up (bits_of_prec prec) pt u
        :: dec_rows ri mpr psv prec pt (after_first_row (fst st2) psv, snd st2) u t
  end.

(* start_input_pass: same restart check; start_pass_lossless (decompressor):
   1 <= Ss <= 7, 0 <= Al < data_precision *)
Definition dec_component (ri mpr psv prec pt : Z) (drows : list (list Z)) : option (list (list Z)) :=
  if params_ok psv prec pt && start_pass_ok ri mpr
  then Some (dec_rows ri mpr psv prec pt (true, ri / mpr) [] drows)
  else None.

(* ------------------------------------------------ whole component pipeline *)
Definition codec_component (ri mpr psv prec pt : Z) (rows : list (list Z)) : option (list (list Z)) :=
  match enc_component ri mpr psv prec pt rows with
  | None => None
  | Some ds => dec_component ri mpr psv prec pt (map (map canon_diff) ds)
  end.

(* the specified result: every sample with its Pt low-order bits cleared *)
Definition clear_low (pt s : Z) : Z := Z.shiftl (Z.shiftr s pt) pt.

(* ------------------------------------------------- a whole scan, n components *)
(* An MCU row of a lossless scan is one sample row of every component of the
   scan (sampling factors are forced to 1).  The compressor keeps a first-row
   flag AND a restart counter per component (jclossls.c); the decompressor
   keeps a first-row flag per component (jdlossls.c) but ONE restart counter
   for the scan (jddiffct.c), and process_restart resets every component. *)
Fixpoint enc_mrow (psv prec pt : Z) (sts : list lstate) (prevs curs : list (list Z)) : list (list Z) :=
  match sts, prevs, curs with
  | st :: st', p :: p', c :: c' => diff_fn (fst st) psv prec pt p c :: enc_mrow psv prec pt st' p' c'
  | _, _, _ => []
  end.

Fixpoint enc_scan_rows (ri mpr psv prec pt : Z) (sts : list lstate) (prevs : list (list Z))
         (mrows : list (list (list Z))) : list (list (list Z)) :=
  match mrows with
  | [] => []
  | mr :: t =>
      let curs := map (scale_down (bits_of_prec prec) pt) mr in
      enc_mrow psv prec pt sts prevs curs
        :: enc_scan_rows ri mpr psv prec pt (map (enc_after_row ri mpr psv) sts) curs t
  end.

Fixpoint dec_mrow (psv prec pt : Z) (firsts : list bool) (prevs ds : list (list Z)) : list (list Z) :=
  match firsts, prevs, ds with
  | f :: f', p :: p', d :: d' => undiff_fn f psv prec pt p d :: dec_mrow psv prec pt f' p' d'
  | _, _, _ => []
  end.

Fixpoint dec_scan_rows (ri mpr psv prec pt : Z) (firsts : list bool) (rtg : Z) (prevs : list (list Z))
         (dmrows : list (list (list Z))) : list (list (list Z)) :=
  match dmrows with
  | [] => []
  | dm :: t =>
      let restart := negb (ri =? 0) && (rtg =? 0) in
      let firsts1 := if restart then map (fun _ => true) firsts else firsts in
      let rtg1 := if restart then ri / mpr else rtg in
      let rtg2 := if ri =? 0 then rtg1 else u32 (rtg1 - 1) in
      let us := dec_mrow psv prec pt firsts1 prevs dm in
      map (scale_up (bits_of_prec prec) pt) us
        :: dec_scan_rows ri mpr psv prec pt (map (fun f => after_first_row f psv) firsts1) rtg2 us t
  end.

Definition codec_scan (n : nat) (ri mpr psv prec pt : Z) (mrows : list (list (list Z)))
  : option (list (list (list Z))) :=
  if params_ok psv prec pt && start_pass_ok ri mpr then
    let ds := enc_scan_rows ri mpr psv prec pt (repeat (reset_predictor ri mpr) n) (repeat [] n) mrows in
    Some (dec_scan_rows ri mpr psv prec pt (repeat true n) (ri / mpr) (repeat [] n)
                        (map (map (map canon_diff)) ds))
  else None.

(* ------------------------------------ jdlhuff.c decode_mcus under I/O suspension *)
(* decode_mcus decodes up to n MCUs.  [dec_mcu st] is the inner "sampn" loop on
   the working bit-reader state: None = a HUFF_DECODE / CHECK_BIT_BUFFER fail
   action ("return mcu_num": the source has no more data right now); nothing
   permanent has been touched.  BITREAD_SAVE_STATE after EVERY completed MCU
   makes the permanent state the one after the last completed MCU, and the
   caller (jddiffct.c "diff->MCU_ctr += MCU_count") resumes at that column. *)
Section Suspension.
  Variable S : Type.
  Fixpoint decode_mcus_susp (dec_mcu : S -> option (list Z * S)) (n : nat) (st : S) : list (list Z) * S :=
    match n with
    | O => ([], st)
    | Datatypes.S k =>
        match dec_mcu st with
        | None => ([], st)
        | Some (m, st') => let (ms, st'') := decode_mcus_susp dec_mcu k st' in (m :: ms, st'')
        end
    end.

  (* the application receives more data between the calls: one decoder per call;
     the controller asks for the MCUs still missing, from the saved state *)
  Fixpoint resume_calls (calls : list (S -> option (list Z * S))) (last : S -> option (list Z * S))
           (n : nat) (st : S) : list (list Z) * S :=
    match calls with
    | [] => decode_mcus_susp last n st
    | d :: rest =>
        let (ms, st') := decode_mcus_susp d n st in
        let (ms', st'') := resume_calls rest last (n - length ms) st' in
        (ms ++ ms', st'')
    end.

  (* the seeded variant: state written back once, after all requested MCUs *)
  Fixpoint decode_mcus_hoisted_loop (dec_mcu : S -> option (list Z * S)) (n : nat) (st : S)
    : list (list Z) * option S :=
    match n with
    | O => ([], Some st)
    | Datatypes.S k =>
        match dec_mcu st with
        | None => ([], None)
        | Some (m, st') => let (ms, r) := decode_mcus_hoisted_loop dec_mcu k st' in (m :: ms, r)
        end
    end.
  Definition decode_mcus_hoisted (dec_mcu : S -> option (list Z * S)) (n : nat) (st : S) : list (list Z) * S :=
    let (ms, r) := decode_mcus_hoisted_loop dec_mcu n st in
    (ms, match r with Some st' => st' | None => st end).
End Suspension.
