(* CopyMulti.v -- executable model of ONE tj3Transform call with n transforms (C16):
     saveMarkers := 1 if some transform lacks TJXOPT_COPYNONE
     jcopy_markers_setup(dinfo, saveMarkers ? TJPARAM_SAVEMARKERS : JCOPYOPT_NONE);  read the source once;
     for each transform i: copyOption_i := COPYNONE_i ? JCOPYOPT_NONE : TJPARAM_SAVEMARKERS;
                           jcopy_markers_execute(dinfo, cinfo, copyOption_i); iccCopied_i (per transform);
                           instance profile written unless iccCopied_i.
   flags = the TJXOPT_COPYNONE bits.  No proofs here. *)
From Coq Require Import List ZArith Bool.
From LJT Require Import gen.GenIccConst model.MarkerRT model.Icc model.CopyMarkers.
Import ListNotations.
Local Open Scope Z_scope.

Definition tj_multi_setup_option (sm : Z) (flags : list bool) : Z :=
  tj_setup_option sm (forallb (fun b => b) flags).

Definition tj_transform_multi (sm : Z) (flags : list bool) (write_jfif write_adobe : bool) (fuel : nat)
  (src_after_soi : list Z) (icc_buf : list Z) : option (list (list segment)) :=
  match read_app_markers fuel (copy_setup (tj_multi_setup_option sm flags) cfg_init) hinfo_init [] src_after_soi with
  | None => None
  | Some (_, ms, _) => Some (map (fun cn => tj_transform_extras sm cn write_jfif write_adobe ms icc_buf) flags)
  end.

(* ---- jcapimin.c: state checks of jpeg_write_marker / jpeg_write_m_header, jcicc.c jpeg_write_icc_profile ---- *)
(* cinfo->global_state and cinfo->next_scanline of the compressor *)
Definition marker_write_allowed (global_state next_scanline : Z) : bool :=
  (next_scanline =? 0) && ((global_state =? CSTATE_SCANNING) || (global_state =? CSTATE_RAW_OK) || (global_state =? CSTATE_WRCOEFS)).

Inductive wres := WBadState | WBadLength | WBufferSize | WOk (bytes : list Z).

(* jpeg_write_marker: state check, then write_marker_header's length check *)
Definition jpeg_write_marker_api (global_state next_scanline : Z) (s : segment) : wres :=
  if marker_write_allowed global_state next_scanline then
    match write_marker s with Some b => WOk b | None => WBadLength end
  else WBadState.

(* jpeg_write_icc_profile: empty profile -> JERR_BUFFER_SIZE; global_state < CSTATE_SCANNING -> JERR_BAD_STATE;
   then jpeg_write_m_header (same state check as jpeg_write_marker) per segment *)
Definition jpeg_write_icc_profile_api (global_state next_scanline : Z) (p : list Z) : wres :=
  match p with
  | [] => WBufferSize
  | _ =>
      if global_state <? CSTATE_SCANNING then WBadState
      else if marker_write_allowed global_state next_scanline then
        match write_icc p with
        | Some segs => match write_markers segs with Some b => WOk b | None => WBadLength end
        | None => WBufferSize
        end
      else WBadState
  end.

(* ---- the whole header of each output of tj3Transform ---- *)
(* jctrans.c jpeg_copy_critical_parameters: JFIF version / density of the destination *)
Definition copy_jfif (h : hinfo) : jfif :=
  if h_saw_jfif h then
    mkJfif (if h_major h =? 1 then h_major h else 1) (if h_major h =? 1 then h_minor h else 1) (h_unit h) (h_xd h) (h_yd h)
  else mkJfif 1 1 0 1 1.
(* the markers write_file_header emits, as segments *)
Definition lib_segs (cs : cspace) (j : jfif) : list segment :=
  (if writes_jfif cs then [(M_APP0, jfif_data j)] else []) ++ (if writes_adobe cs then [(M_APP14, adobe_data cs)] else []).

(* bytes from SOI up to the first table marker, for every transform of one call; cs = JPEG colourspace of the source *)
Definition tj_transform_multi_bytes (sm : Z) (flags : list bool) (cs : cspace) (fuel : nat)
  (src_after_soi : list Z) (icc_buf : list Z) : option (list (option (list Z))) :=
  match read_app_markers fuel (copy_setup (tj_multi_setup_option sm flags) cfg_init) hinfo_init [] src_after_soi with
  | None => None
  | Some (h, ms, _) =>
      Some (map (fun cn => match write_markers (tj_transform_extras sm cn (writes_jfif cs) (writes_adobe cs) ms icc_buf) with
                           | Some b => Some (emit_file_header cs (copy_jfif h) ++ b)
                           | None => None
                           end) flags)
  end.

(* turbojpeg.c tj3TransformBufSize: what is added to tj3JPEGBufSize for the ICC profile.
   temp_size / temp_markers: profile extracted by tj3DecompressHeader and the number of APP2 markers carrying it *)
Definition tj_bufsize_icc (sm : Z) (copynone : bool) (temp_size temp_markers inst_size : Z) : Z :=
  if ((sm =? 2) || (sm =? 4)) && negb copynone && negb (temp_size =? 0) then temp_size + TJ_BUFSIZE_ICC_PER_MARKER * temp_markers
  else if negb (inst_size =? 0) then
    inst_size + TJ_BUFSIZE_ICC_PER_MARKER * (inst_size / TJ_BUFSIZE_ICC_CHUNK + (if inst_size mod TJ_BUFSIZE_ICC_CHUNK =? 0 then 0 else 1))
  else 0.

(* ---- the piecemeal marker API: jpeg_write_m_header then exactly datalen calls of jpeg_write_m_byte ----
   libjpeg.txt: "jpeg_write_m_header() ... then jpeg_write_m_byte() exactly datalen times"; jpeg_write_m_byte has no state
   check of its own (before jpeg_start_compress cinfo->marker is not even allocated).  The documented precondition
   is made explicit: a byte may be written only while the byte budget of an open header is not exhausted, and a new
   marker may be started only when the previous budget is used up.  None = precondition violated or ERREXIT. *)
Inductive mcall := CHeader (marker datalen : Z) | CByte (v : Z) | CMarker (s : segment).
Record mapi := mkMapi { ma_open : Z; ma_out : list Z }.
Definition mapi_step (gs ns : Z) (st : mapi) (c : mcall) : option mapi :=
  match c with
  | CHeader m n =>
      if negb (ma_open st =? 0) then None
      else if marker_write_allowed gs ns then
        match write_marker_header m n with
        | Some h => Some (mkMapi n (ma_out st ++ h))
        | None => None
        end
      else None
  | CByte v => if 0 <? ma_open st then Some (mkMapi (ma_open st - 1) (ma_out st ++ [byte_of v])) else None
  | CMarker s =>
      if negb (ma_open st =? 0) then None
      else match jpeg_write_marker_api gs ns s with WOk b => Some (mkMapi 0 (ma_out st ++ b)) | _ => None end
  end.
Fixpoint mapi_run (gs ns : Z) (st : mapi) (cs : list mcall) : option mapi :=
  match cs with
  | [] => Some st
  | c :: r => match mapi_step gs ns st c with Some st' => mapi_run gs ns st' r | None => None end
  end.
