(* CopyMulti.v -- executable model of ONE tj3Transform call with n transforms (C16):
     saveMarkers := 1 if some transform lacks TJXOPT_COPYNONE
     jcopy_markers_setup(dinfo, saveMarkers ? TJPARAM_SAVEMARKERS : JCOPYOPT_NONE);  read the source once;
     for each transform i: copyOption_i := COPYNONE_i ? JCOPYOPT_NONE : TJPARAM_SAVEMARKERS;
                           jcopy_markers_execute(dinfo, cinfo, copyOption_i); iccCopied_i (per transform);
                           instance profile written unless iccCopied_i.
   flags = the TJXOPT_COPYNONE bits.  No proofs here. *)
From Coq Require Import List ZArith Bool.
From LJT Require Import gen.GenIccConst model.MarkerRT model.Icc model.CopyMarkers.
Import ListNotations.
Local Open Scope Z_scope.

Definition tj_multi_setup_option (sm : Z) (flags : list bool) : Z :=
  tj_setup_option sm (forallb (fun b => b) flags).

Definition tj_transform_multi (sm : Z) (flags : list bool) (write_jfif write_adobe : bool) (fuel : nat)
  (src_after_soi : list Z) (icc_buf : list Z) : option (list (list segment)) :=
  match read_app_markers fuel (copy_setup (tj_multi_setup_option sm flags) cfg_init) hinfo_init [] src_after_soi with
  | None => None
  | Some (_, ms, _) => Some (map (fun cn => tj_transform_extras sm cn write_jfif write_adobe ms icc_buf) flags)
  end.

(* ---- jcapimin.c: state checks of jpeg_write_marker / jpeg_write_m_header, jcicc.c jpeg_write_icc_profile ---- *)
(* cinfo->global_state and cinfo->next_scanline of the compressor *)
Definition marker_write_allowed (global_state next_scanline : Z) : bool :=
  (next_scanline =? 0) && ((global_state =? CSTATE_SCANNING) || (global_state =? CSTATE_RAW_OK) || (global_state =? CSTATE_WRCOEFS)).

Inductive wres := WBadState | WBadLength | WBufferSize | WOk (bytes : list Z).

(* jpeg_write_marker: state check, then write_marker_header's length check *)
Definition jpeg_write_marker_api (global_state next_scanline : Z) (s : segment) : wres :=
  if marker_write_allowed global_state next_scanline then
    match write_marker s with Some b => WOk b | None => WBadLength end
  else WBadState.

(* jpeg_write_icc_profile: empty profile -> JERR_BUFFER_SIZE; global_state < CSTATE_SCANNING -> JERR_BAD_STATE;
   then jpeg_write_m_header (same state check as jpeg_write_marker) per segment *)
Definition jpeg_write_icc_profile_api (global_state next_scanline : Z) (p : list Z) : wres :=
  match p with
  | [] => WBufferSize
  | _ =>
      if global_state <? CSTATE_SCANNING then WBadState
      else if marker_write_allowed global_state next_scanline then
        match write_icc p with
        | Some segs => match write_markers segs with Some b => WOk b | None => WBadLength end
        | None => WBufferSize
        end
      else WBadState
  end.
