(* C12 -- bookkeeping of the libjpeg memory manager (jmemmgr.c): total_space_allocated is what
   realize_virt_arrays compares with max_memory_to_use (TJPARAM_MAXMEMORY).  alloc_small /
   alloc_large add the size of every new pool block; free_pool subtracts the blocks of the
   released pool, list by list, as far as the flags (regenerated from the source) say. *)
From Coq Require Import List ZArith.
Import ListNotations.
Local Open Scope Z_scope.

Record mm := mkmm { perm : Z; img_small : list Z; img_large : list Z; total : Z }.
Definition zsum (l : list Z) : Z := fold_right Z.add 0 l.

Inductive mop := ASmall (n : Z) | ALarge (n : Z) | APerm (n : Z) | Abort.

Definition mstep (sub_small sub_large : bool) (m : mm) (o : mop) : mm :=
  match o with
  | ASmall n => mkmm (perm m) (n :: img_small m) (img_large m) (total m + n)
  | ALarge n => mkmm (perm m) (img_small m) (n :: img_large m) (total m + n)
  | APerm n => mkmm (perm m + n) (img_small m) (img_large m) (total m + n)
  | Abort => mkmm (perm m) [] []
                  (total m - (if sub_small then zsum (img_small m) else 0) - (if sub_large then zsum (img_large m) else 0))
  end.
Definition mrun (ss sl : bool) (l : list mop) (m : mm) : mm := fold_left (mstep ss sl) l m.

(* jinit_memory_mgr: total_space_allocated = sizeof(my_memory_mgr) *)
Definition mm0 (base : Z) : mm := mkmm 0 [] [] base.
(* the total accounts exactly for what the pools hold *)
Definition consistent (base : Z) (m : mm) : Prop :=
  total m = base + perm m + zsum (img_small m) + zsum (img_large m).
