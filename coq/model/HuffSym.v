(* HuffSym.v -- executable models of the SYMBOL computations of the three
   statistics-gathering entropy encoders of libjpeg-turbo (what is counted into
   the long count arrays that jpeg_gen_optimal_table later consumes):
     jchuff.c  htest_one_block            (sequential DCT: DC table, AC table)
     jcphuff.c emit_symbol callers        (progressive: encode_mcu_DC_first,
               encode_mcu_AC_first, encode_mcu_AC_refine, emit_eobrun, with the
               EOBRUN / BE state threaded through MCUs, restarts, finish_pass)
     jclhuff.c encode_mcus_gather         (lossless: difference categories)
   No proofs here (proofs/HuffSymProofs.v).  Coefficients/differences are
   unbounded Z: the theorems hold for every value the ERREXIT guards allow.
   The bit-length loops "while (temp) { nbits++; temp >>= 1; }" and JPEG_NBITS
   are Huff.nbits (one constructor of the positive per iteration). *)
From Coq Require Import List ZArith Bool.
From LJT Require Import model.Huff.
Import ListNotations.
Local Open Scope Z_scope.

(* ---------------------------------------------------------------- constants *)
Definition COEF_BITS_EXTRA : Z := 2.     (* int max_coef_bits = cinfo->data_precision + 2;   *)
Definition DC_EXTRA : Z := 1.            (* if (nbits > max_coef_bits + 1) ERREXIT           *)
Definition ZRL : Z := 240.               (* ac_counts[0xF0]++ / emit_symbol(.., 0xF0)        *)
Definition EOB : Z := 0.                 (* ac_counts[0]++                                   *)
Definition RUN_SHIFT : Z := 4.           (* (r << 4) + nbits ; nbits << 4                    *)
Definition RUN_MAX : Z := 15.            (* while (r > 15)                                   *)
Definition ZRL_RUN : Z := 16.            (* r -= 16                                          *)
Definition EOBRUN_LIMIT : Z := 32767.    (* if (entropy->EOBRUN == 0x7FFF) emit_eobrun       *)
Definition EOBRUN_NBITS_MAX : Z := 14.   (* if (nbits > 14) ERREXIT(JERR_HUFF_MISSING_CODE)  *)
Definition MAX_CORR_BITS : Z := 1000.    (* #define MAX_CORR_BITS 1000                       *)
Definition DCTSIZE2 : Z := 64.
Definition MAX_DIFF_BITS : Z := 16.      (* jclhuff.c #define MAX_DIFF_BITS 16               *)
Definition DIFF_SIGN : Z := 32768.       (* temp & 0x8000, temp = 0x8000                     *)
Definition DIFF_MASK : Z := 32767.       (* & 0x7FFF                                         *)
Definition NCOUNTS : nat := 257.         (* memset(count_ptrs[tbl], 0, 257 * sizeof(long))   *)
Definition lossy_precisions : list Z := [8; 12].   (* jcmaster.c: != 8 && != 12 => error   *)
Definition JPEG_MAX_DIMENSION : Z := 65500.

Definition max_coef_bits (prec : Z) : Z := prec + COEF_BITS_EXTRA.

(* "if (temp < 0) temp = -temp;" + bit-length loop *)
Definition mag_bits (x : Z) : Z := nbits (Z.abs x).

(* ------------------------------------------- jchuff.c: htest_one_block *)
(* DC: temp = block[0] - last_dc_val; |temp|; nbits; guard; dc_counts[nbits]++ *)
Definition dc_symbol (prec diff : Z) : option Z :=
  let nb := mag_bits diff in
  if nb >? max_coef_bits prec + DC_EXTRA then None else Some nb.

(* "while (r > 15) { ac_counts[0xF0]++; r -= 16; }" on explicit fuel; returns the
   ZRL symbols counted and the remaining run *)
Fixpoint zrl_loop (fuel : nat) (r : Z) : list Z * Z :=
  match fuel with
  | O => ([], r)
  | S k => if r >? RUN_MAX
           then let '(l, r') := zrl_loop k (r - ZRL_RUN) in (ZRL :: l, r')
           else ([], r)
  end.

(* "for (k = 1; k < DCTSIZE2; k++)": coefs = block[jpeg_natural_order[1..63]];
   None = ERREXIT(JERR_BAD_DCT_COEF) *)
Fixpoint ac_scan (mcb : Z) (coefs : list Z) (r : Z) : option (list Z) :=
  match coefs with
  | [] => Some (if r >? 0 then [EOB] else [])
  | c :: t =>
      if c =? 0 then ac_scan mcb t (r + 1)
      else
        let '(zs, r') := zrl_loop 64 r in
        let nb := mag_bits c in
        if nb >? mcb then None
        else match ac_scan mcb t 0 with
             | None => None
             | Some rest => Some (zs ++ (Z.shiftl r' RUN_SHIFT + nb) :: rest)
             end
  end.

(* one block in zig-zag order: (symbol counted in the DC table, symbols counted in the AC table) *)
Definition htest_one_block (prec last_dc : Z) (zz : list Z) : option (Z * list Z) :=
  match zz with
  | [] => None
  | dc :: ac =>
      match dc_symbol prec (dc - last_dc) with
      | None => None
      | Some s => match ac_scan (max_coef_bits prec) ac 0 with
                  | None => None
                  | Some a => Some (s, a)
                  end
      end
  end.

(* --------------------------------------------------- jcphuff.c: DC first *)
(* temp2 = IRIGHT_SHIFT(block[0], Al); temp = temp2 - last_dc_val; same guard;
   returns (symbol, new last_dc_val) *)
Definition dc_first_symbol (prec Al coef last_dc : Z) : option (Z * Z) :=
  let t2 := Z.shiftr coef Al in
  match dc_symbol prec (t2 - last_dc) with
  | None => None
  | Some s => Some (s, t2)
  end.

(* ------------------------------------------- jcphuff.c: EOBRUN machinery *)
Record pstate := { eobrun : Z; be : Z }.     (* entropy->EOBRUN, entropy->BE *)
Definition pstate0 : pstate := {| eobrun := 0; be := 0 |}.

(* emit_eobrun: symbols counted + state after; None = ERREXIT(JERR_HUFF_MISSING_CODE) *)
Definition emit_eobrun (st : pstate) : option (list Z * pstate) :=
  if eobrun st >? 0 then
    let nb := nbits (eobrun st) - 1 in        (* JPEG_NBITS_NONZERO(temp) - 1 *)
    if nb >? EOBRUN_NBITS_MAX then None
    else Some ([Z.shiftl nb RUN_SHIFT], pstate0)
  else Some ([], st).

(* point transform of an AC coefficient: abs value, then >> Al *)
Definition pt_abs (Al c : Z) : Z := Z.shiftr (Z.abs c) Al.

(* ENCODE_COEFS_AC_FIRST over the prepared values; the bool is
   "cvalue < values + Sl" (trailing zeroes) *)
Fixpoint ac_first_scan (mcb : Z) (vals : list Z) (r : Z) : option (list Z * bool) :=
  match vals with
  | [] => Some ([], r >? 0)
  | v :: t =>
      if v =? 0 then ac_first_scan mcb t (r + 1)
      else
        let '(zs, r') := zrl_loop 64 r in
        let nb := nbits v in                  (* JPEG_NBITS_NONZERO(temp) *)
        if nb >? mcb then None
        else match ac_first_scan mcb t 0 with
             | None => None
             | Some (rest, tr) => Some (zs ++ (Z.shiftl r' RUN_SHIFT + nb) :: rest, tr)
             end
  end.

(* encode_mcu_AC_first: band = block[natural_order[Ss..Se]] *)
Definition ac_first_mcu (prec Al : Z) (st : pstate) (band : list Z) : option (list Z * pstate) :=
  let vals := map (pt_abs Al) band in
  let anynz := existsb (fun v => negb (v =? 0)) vals in
  (* if (zerobits && (entropy->EOBRUN > 0)) emit_eobrun(entropy); *)
  match (if anynz && (eobrun st >? 0) then emit_eobrun st else Some ([], st)) with
  | None => None
  | Some (pre, st1) =>
      match ac_first_scan (max_coef_bits prec) vals 0 with
      | None => None
      | Some (syms, trailing) =>
          if trailing then
            let st2 := {| eobrun := eobrun st1 + 1; be := be st1 |} in
            if eobrun st2 =? EOBRUN_LIMIT then
              match emit_eobrun st2 with
              | None => None
              | Some (post, st3) => Some (pre ++ syms ++ post, st3)
              end
            else Some (pre ++ syms, st2)
          else Some (pre ++ syms, st1)
      end
  end.

(* ------------------------------------------------- jcphuff.c: AC refine *)
(* encode_mcu_AC_refine_prepare: "if (temp == 1) EOB = k + koffset;" from EOB = 0 *)
Fixpoint eob_scan (vals : list Z) (k eob : Z) : Z :=
  match vals with
  | [] => eob
  | v :: t => eob_scan t (k + 1) (if v =? 1 then k else eob)
  end.

(* "while (r > 15 && (cabsvalue <= EOBPTR)) { emit_eobrun; emit_symbol(0xF0);
   r -= 16; ...; BR = 0; }"  the position test is constant during the loop *)
Fixpoint refine_zrl_loop (fuel : nat) (r : Z) (st : pstate)
  : option (list Z * Z * pstate * bool (* did an iteration run: BR := 0 *)) :=
  match fuel with
  | O => Some ([], r, st, false)
  | S k =>
      if r >? RUN_MAX then
        match emit_eobrun st with
        | None => None
        | Some (es, st1) =>
            match refine_zrl_loop k (r - ZRL_RUN) st1 with
            | None => None
            | Some (l, r', st2, _) => Some (es ++ ZRL :: l, r', st2, true)
            end
        end
      else Some ([], r, st, false)
  end.

(* ENCODE_COEFS_AC_REFINE over absvalues from position k; r = zero run,
   br = BR (correction bits appended in this MCU since the last symbol).
   Returns symbols, final r (incl. trailing zeroes), final BR, state. *)
Fixpoint ac_refine_scan (eobk : Z) (vals : list Z) (k r br : Z) (st : pstate)
  : option (list Z * Z * Z * pstate) :=
  match vals with
  | [] => Some ([], r, br, st)
  | v :: t =>
      if v =? 0 then ac_refine_scan eobk t (k + 1) (r + 1) br st
      else
        match (if k <=? eobk then refine_zrl_loop 64 r st else Some ([], r, st, false)) with
        | None => None
        | Some (zs, r1, st1, ran) =>
            let br1 := if ran then 0 else br in
            if v >? 1 then
              (* previously nonzero: only a correction bit, BR++ *)
              match ac_refine_scan eobk t (k + 1) r1 (br1 + 1) st1 with
              | None => None
              | Some (rest, rf, brf, stf) => Some (zs ++ rest, rf, brf, stf)
              end
            else
              match emit_eobrun st1 with
              | None => None
              | Some (es, st2) =>
                  match ac_refine_scan eobk t (k + 1) 0 0 st2 with
                  | None => None
                  | Some (rest, rf, brf, stf) =>
                      Some (zs ++ es ++ (Z.shiftl r1 RUN_SHIFT + 1) :: rest, rf, brf, stf)
                  end
              end
        end
  end.

Definition ac_refine_mcu (Al : Z) (st : pstate) (band : list Z) : option (list Z * pstate) :=
  let vals := map (pt_abs Al) band in
  let eobk := eob_scan vals 0 0 in
  match ac_refine_scan eobk vals 0 0 0 st with
  | None => None
  | Some (syms, r, br, st1) =>
      if (r >? 0) || (br >? 0) then
        let st2 := {| eobrun := eobrun st1 + 1; be := be st1 + br |} in
        if (eobrun st2 =? EOBRUN_LIMIT) || (be st2 >? MAX_CORR_BITS - DCTSIZE2 + 1) then
          match emit_eobrun st2 with
          | None => None
          | Some (post, st3) => Some (syms ++ post, st3)
          end
        else Some (syms, st2)
      else Some (syms, st1)
  end.

(* one AC scan of a progressive encode as a sequence of operations on the
   (EOBRUN, BE) state; PFlush = emit_restart / finish_pass_gather_phuff *)
Inductive pop :=
| PFirst (prec Al : Z) (band : list Z)
| PRefine (Al : Z) (band : list Z)
| PFlush.

Definition pop_step (st : pstate) (o : pop) : option (list Z * pstate) :=
  match o with
  | PFirst prec Al band => ac_first_mcu prec Al st band
  | PRefine Al band => ac_refine_mcu Al st band
  | PFlush => emit_eobrun st
  end.

Fixpoint pop_run (st : pstate) (ops : list pop) : option (list Z * pstate) :=
  match ops with
  | [] => Some ([], st)
  | o :: t => match pop_step st o with
              | None => None
              | Some (s1, st1) => match pop_run st1 t with
                                  | None => None
                                  | Some (s2, st2) => Some (s1 ++ s2, st2)
                                  end
              end
  end.

(* ---------------------------------------------- jclhuff.c: lossless *)
(* if (temp & 0x8000) { temp = (-temp) & 0x7FFF; if (temp == 0) temp = 0x8000; }
   else temp &= 0x7FFF;  nbits loop;  if (nbits > MAX_DIFF_BITS) ERREXIT;  counts[nbits]++ *)
Definition lossless_symbol (diff : Z) : option Z :=
  let temp :=
    if negb (Z.land diff DIFF_SIGN =? 0)
    then (let t := Z.land (- diff) DIFF_MASK in if t =? 0 then DIFF_SIGN else t)
    else Z.land diff DIFF_MASK in
  let nb := nbits temp in
  if nb >? MAX_DIFF_BITS then None else Some nb.

(* --------------------------------------------------------- count arrays *)
(* "counts[symbol]++" on a long[257] *)
Definition count_one (counts : list Z) (s : Z) : list Z :=
  upd (Z.to_nat s) (nthZ counts (Z.to_nat s) + 1) counts.
Definition zero_counts : list Z := repeat 0 NCOUNTS.
Definition count_syms (syms : list Z) : list Z := fold_left count_one syms zero_counts.

(* --------------------------------------------------------- symbol classes *)
Inductive tclass :=
| CDc (prec : Z)        (* DC table, sequential or progressive *)
| CAcSeq (prec : Z)     (* AC table, sequential                *)
| CAcProg (prec : Z)    (* AC table, progressive               *)
| CLossless.

Definition rs_ok (prec s : Z) : bool :=        (* RRRRSSSS with 1 <= SSSS <= prec + 2 *)
  (0 <=? s) && (s <? 256) && (1 <=? s mod 16) && (s mod 16 <=? max_coef_bits prec).
Definition class_ok (c : tclass) (s : Z) : bool :=
  match c with
  | CDc prec => (0 <=? s) && (s <=? max_coef_bits prec + DC_EXTRA)
  | CAcSeq prec => (s =? EOB) || (s =? ZRL) || rs_ok prec s
  | CAcProg prec => (s =? ZRL) || rs_ok prec s ||
                    ((0 <=? s) && (s mod 16 =? 0) && (s / 16 <=? EOBRUN_NBITS_MAX))
  | CLossless => (0 <=? s) && (s <=? MAX_DIFF_BITS)
  end.
Definition class_set (c : tclass) : list Z :=
  filter (class_ok c) (map Z.of_nat (seq 0 256)).
