(* C14 -- the configuration of the memory-manager model instantiated with the constants
   regenerated from the current source (gen/GenMemConst.v).  The struct sizes
   (my_memory_mgr and the virtual-array control blocks) and ALIGN_SIZE depend on the
   build; they are parameters (the theorems quantify over them). *)
From Coq Require Import ZArith List.
Import ListNotations.
From LJT Require Import model.MemMgr model.TjInit model.DestBuf gen.GenMemConst.
Local Open Scope Z_scope.

Definition gen_cfg (align mgr sctl bctl : Z) : cfg :=
  {| c_align := align; c_hdr := pool_hdr_size; c_max := max_alloc_chunk;
     c_first0 := first_pool_slop0; c_first1 := first_pool_slop1;
     c_extra0 := extra_pool_slop0; c_extra1 := extra_pool_slop1;
     c_minslop := min_slop; c_mgr := mgr; c_sctl := sctl; c_bctl := bctl;
     c_ptr := sizeof_ptr; c_block := sizeof_jblock; c_bigmh := big_minheights |}.

(* one step / a whole run of the faithful (mod 2^64) model *)
Definition step64 (c : cfg) := step w64 c.
Definition run64 (c : cfg) := run w64 c.

(* the limit checks with the comparison found in the source *)
Definition pixels_rejected_src (w h lim : Z) : bool := pixels_rejected limit_product_bits w h lim.
Definition scan_rejected_src (scan_no lim : Z) : bool := scan_rejected scan_limit_strict scan_no lim.
Definition max_memory_to_use_of (maxMemory : Z) : Z := maxMemory * maxmem_scale.

(* tj3Init + tj3Destroy with the handler found in the source (representative object sizes:
   the allocation COUNT and the leak do not depend on them as long as the PERMANENT
   objects fit the first pool) *)
Definition tjinit_src (c : cfg) (ty : itype) (oracle : list bool) : bool * heap :=
  tj3_init_destroy w64 c tjinit_handler_destroys ty (empty_heap oracle) 1000 [64; 88] [64; 200; 48; 56].

(* the destination-buffer protocol with the facts found in the source *)
Definition policy_of (z : Z) : policy := if z =? 0 then ResetAlways else if z =? 1 then ResetUnlessReused else ResetFirstOnly.
(* TurboJPEG API: jdatadst-tj.c + the exit paths of tj3Compress*, tj3CompressFromYUVPlanes8, tj3Transform *)
Definition dcfg_tj : dcfg :=
  {| pol := policy_of memdest_policy_tj; term_on_throw := tj_term_on_throw; term_on_longjmp := tj_term_on_longjmp |}.
(* libjpeg API: jdatadst.c; the APPLICATION calls term_destination on its error path (contract, see design/C14.md) *)
Definition dcfg_ljpeg : dcfg := {| pol := policy_of memdest_policy_ljpeg; term_on_throw := true; term_on_longjmp := true |}.
