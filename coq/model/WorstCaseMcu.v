(* C13, worst-case clause for interleaved multi-component scans (single-scan baseline): the blocks of the
   MCUs in scan order, each tagged with its component; every component has its own DC predictor and its own
   pair of Huffman tables; the bits of all blocks go through ONE bit packer (stuffing, final padding). *)
From Coq Require Import List ZArith Bool.
From LJT Require Import model.Huff model.WorstCase.
Import ListNotations.
Local Open Scope Z_scope.

Fixpoint scan_mcu (tbls : nat -> ctbl * ctbl) (blocks : list (nat * list Z)) (ldc : list Z) (st : Z * Z * Z) (nbits_acc : Z)
  : option (Z * Z) :=
  match blocks with
  | [] => Some (flush st, nbits_acc)
  | (ci, px) :: t =>
      let c := block_coefs px in
      match enc_block (fst (tbls ci)) (snd (tbls ci)) (nth ci ldc 0) c with
      | Some bs => let '(cur, n, acc) := st in
                   scan_mcu tbls t (upd ci (el c 0) ldc) (feed bs cur n acc) (nbits_acc + Z.of_nat (length bs))
      | None => None
      end
  end.

(* (bytes, bits) of the entropy-coded segment; ncomp predictors start at 0 *)
Definition scan_size_mcu (tbls : nat -> ctbl * ctbl) (ncomp : nat) (blocks : list (nat * list Z)) : option (Z * Z) :=
  scan_mcu tbls blocks (repeat 0 ncomp) (0, 0, 0) 0.
