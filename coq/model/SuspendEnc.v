(* C09 -- encoder side: encode_mcu_huff (jchuff.c) writing into a suspending destination.

   working_state = copy of (next_output_byte, free_in_buffer, entropy->saved); it is
   committed only when the whole MCU has been emitted.  empty_output_buffer is an
   oracle: `true` = the manager wants to refuse (return FALSE).  A refusal is honoured
   only when the library has moved next_output_byte since the buffer was installed
   (the restart point then lies in the current buffer; libjpeg.txt, "I/O suspension",
   multiple-buffer management) -- flag `strict`; with strict = false the manager
   refuses whenever it likes, which the documentation forbids.
   The Huffman coding of a block and flush_bits are parameters: the theorem holds for
   every block coder whose output fits the 512-byte local buffer.                      *)
From Coq Require Import List ZArith Bool.
From LJT Require Import model.SuspendCore.
Import ListNotations.

Definition BUFSIZE := 512%nat.      (* DCTSIZE2 * 8 *)

Record dest := {
  cap : nat;                 (* size of the application's work buffer *)
  wbuf : list byte;          (* bytes in the buffer: next_output_byte - buffer start *)
  wsink : list byte;         (* everything written out so far *)
  pub_pos : nat              (* dest->next_output_byte - buffer start as the manager sees it *)
}.

Definition total (d : dest) : list byte := wsink d ++ wbuf d.     (* = output after term_destination *)

Section Encoder.
  Variables wstate block : Type.
  Variable encode_block : wstate -> block -> list byte * wstate.   (* encode_one_block incl. last_dc_val update *)
  Variable flush_bits : wstate -> list byte * wstate.              (* pad with 1-bits, stuff, reset bit buffer *)
  Variable reset_dc : wstate -> wstate.                            (* last_dc_val[ci] = 0 *)
  Variable strict : bool.

  (* What the destination looks like after a refusal (return FALSE all the way up): the sink keeps
     everything that was accepted, the buffer is valid up to the manager's next_output_byte only;
     the bytes beyond it will be regenerated. *)
  Definition rolled_back (d : dest) : dest :=
    {| cap := cap d; wbuf := firstn (pub_pos d) (wbuf d); wsink := wsink d; pub_pos := pub_pos d |}.

  (* dump_buffer: inl = emptied (TRUE), inr = refused (FALSE); the oracle entry is consumed in both cases *)
  Definition dump (d : dest) (orc : list bool) : (dest + dest) * list bool :=
    let want_refuse := hd false orc in
    if want_refuse && (negb strict || negb (Nat.eqb (pub_pos d) 0)) then (inr (rolled_back d), tl orc)
    else (inl {| cap := cap d; wbuf := []; wsink := wsink d ++ wbuf d; pub_pos := 0 |}, tl orc).

  (* emit_byte / the copy loop of STORE_BUFFER: dump whenever free_in_buffer reaches 0 *)
  Fixpoint put (bs : list byte) (d : dest) (orc : list bool) : (dest + dest) * list bool :=
    match bs with
    | [] => (inl d, orc)
    | b :: bs' =>
        let d1 := {| cap := cap d; wbuf := wbuf d ++ [b]; wsink := wsink d; pub_pos := pub_pos d |} in
        if Nat.eqb (length (wbuf d1)) (cap d) then
          match dump d1 orc with
          | (inl d2, orc') => put bs' d2 orc'
          | (inr ds, orc') => (inr ds, orc')
          end
        else put bs' d1 orc
    end.

  (* LOAD_BUFFER / STORE_BUFFER: direct write when >= BUFSIZE bytes are free, else local buffer + copy loop *)
  Definition store (bs : list byte) (d : dest) (orc : list bool) : (dest + dest) * list bool :=
    if Nat.leb BUFSIZE (cap d - length (wbuf d)) then
      (inl {| cap := cap d; wbuf := wbuf d ++ bs; wsink := wsink d; pub_pos := pub_pos d |}, orc)
    else put bs d orc.

  Record estate := { saved : wstate; restarts_to_go : nat; next_restart_num : Z }.

  Fixpoint encode_blocks (bl : list block) (cur : wstate) (d : dest) (orc : list bool)
    : ((wstate * dest) + dest) * list bool :=
    match bl with
    | [] => (inl (cur, d), orc)
    | b :: bl' =>
        let (bs, cur') := encode_block cur b in
        match store bs d orc with
        | (inl d', orc') => encode_blocks bl' cur' d' orc'
        | (inr ds, orc') => (inr ds, orc')
        end
    end.

  (* emit_restart *)
  Definition emit_restart (cur : wstate) (num : Z) (d : dest) (orc : list bool)
    : ((wstate * dest) + dest) * list bool :=
    let (fb, cur1) := flush_bits cur in
    match store fb d orc with
    | (inr ds, o1) => (inr ds, o1)
    | (inl d1, o1) =>
      match put [255%Z] d1 o1 with
      | (inr ds, o2) => (inr ds, o2)
      | (inl d2, o2) =>
        match put [(208 + num)%Z] d2 o2 with
        | (inr ds, o3) => (inr ds, o3)
        | (inl d3, o3) => (inl (reset_dc cur1, d3), o3)
        end
      end
    end.

  (* encode_mcu_huff: inr = return FALSE: entropy state not committed, destination as left by the manager *)
  Definition encode_mcu (ri : nat) (e : estate) (m : list block) (d : dest) (orc : list bool)
    : ((estate * dest) + dest) * list bool :=
    let r1 := if negb (Nat.eqb ri 0) && Nat.eqb (restarts_to_go e) 0
              then emit_restart (saved e) (next_restart_num e) d orc
              else (inl (saved e, d), orc) in
    match r1 with
    | (inr ds, o1) => (inr ds, o1)
    | (inl (cur, d1), o1) =>
      match encode_blocks m cur d1 o1 with
      | (inr ds, o2) => (inr ds, o2)
      | (inl (cur', d2), o2) =>
          (* commit: dest pointers, entropy->saved, restart counters *)
          let d3 := {| cap := cap d2; wbuf := wbuf d2; wsink := wsink d2; pub_pos := length (wbuf d2) |} in
          let e' :=
            if Nat.eqb ri 0 then {| saved := cur'; restarts_to_go := restarts_to_go e; next_restart_num := next_restart_num e |}
            else if Nat.eqb (restarts_to_go e) 0
                 then {| saved := cur'; restarts_to_go := ri - 1; next_restart_num := Z.land (next_restart_num e + 1) 7 |}
                 else {| saved := cur'; restarts_to_go := restarts_to_go e - 1; next_restart_num := next_restart_num e |} in
          (inl (e', d3), o2)
      end
    end.

  (* the application between library calls: write out the data up to next_output_byte, reset *)
  Definition app_flush (d : dest) : dest :=
    {| cap := cap d; wbuf := []; wsink := wsink d ++ firstn (pub_pos d) (wbuf d); pub_pos := 0 |}.

  (* jpeg_write_scanlines loop: retry the MCU after a suspension; `vol` = voluntary flushes *)
  Inductive eres := EDone (e : estate) (d : dest) | EStuck.

  Fixpoint encode_all (ri : nat) (ms : list (list block)) (e : estate) (d : dest) (orc vol : list bool) : eres :=
    match ms with
    | [] => EDone e d
    | m :: ms' =>
        let d0 := if hd false vol then app_flush d else d in
        match encode_mcu ri e m d0 orc with
        | (inl (e', d'), o') => encode_all ri ms' e' d' o' (tl vol)
        | (inr ds, o') =>
            match encode_mcu ri e m (app_flush ds) o' with
            | (inl (e', d'), o'') => encode_all ri ms' e' d' o'' (tl vol)
            | (inr _, _) => EStuck
            end
        end
    end.

  (* the byte stream with no destination at all *)
  Definition mcu_pure (ri : nat) (e : estate) (m : list block) : list byte * estate :=
    let '(pre, cur) :=
      if negb (Nat.eqb ri 0) && Nat.eqb (restarts_to_go e) 0
      then let (fb, c1) := flush_bits (saved e) in (fb ++ [255%Z; (208 + next_restart_num e)%Z], reset_dc c1)
      else ([], saved e) in
    let '(body, cur') :=
      fold_left (fun acc b => let '(bs, c) := acc in let (x, c') := encode_block c b in (bs ++ x, c')) m ([], cur) in
    (pre ++ body,
     if Nat.eqb ri 0 then {| saved := cur'; restarts_to_go := restarts_to_go e; next_restart_num := next_restart_num e |}
     else if Nat.eqb (restarts_to_go e) 0
          then {| saved := cur'; restarts_to_go := ri - 1; next_restart_num := Z.land (next_restart_num e + 1) 7 |}
          else {| saved := cur'; restarts_to_go := restarts_to_go e - 1; next_restart_num := next_restart_num e |}).

  Fixpoint stream_pure (ri : nat) (ms : list (list block)) (e : estate) : list byte * estate :=
    match ms with
    | [] => ([], e)
    | m :: ms' => let (bs, e') := mcu_pure ri e m in let (rest, e'') := stream_pure ri ms' e' in (bs ++ rest, e'')
    end.
End Encoder.

Arguments EDone {wstate}. Arguments EStuck {wstate}.
Arguments saved {wstate}. Arguments restarts_to_go {wstate}. Arguments next_restart_num {wstate}.

Definition empty_dest (n : nat) : dest := {| cap := n; wbuf := []; wsink := []; pub_pos := 0 |}.

(* ---- a small concrete block coder for the examples: a block is a list of bytes that is
   emitted with 0xFF stuffing; the "bit buffer" holds one pending byte *)
Definition toy_state := option byte.
Fixpoint stuff (l : list byte) : list byte :=
  match l with [] => [] | b :: t => if Z.eqb b 255 then 255%Z :: 0%Z :: stuff t else b :: stuff t end.
Definition toy_block (w : toy_state) (b : list byte) : list byte * toy_state :=
  match rev b with
  | [] => ([], w)
  | last :: r => (stuff (match w with Some x => [x] | None => [] end ++ rev r), Some last)
  end.
Definition toy_flush (w : toy_state) : list byte * toy_state :=
  (stuff (match w with Some x => [x] | None => [] end), None).

Definition toy_run (strict : bool) (n ri : nat) (ms : list (list (list byte))) (orc vol : list bool) : option (list byte) :=
  match encode_all toy_state (list byte) toy_block toy_flush (fun w => w) strict ri ms
          {| saved := None; restarts_to_go := ri; next_restart_num := 0 |} (empty_dest n) orc vol with
  | EDone e d => Some (total d)
  | EStuck => None
  end.
Definition toy_pure (ri : nat) (ms : list (list (list byte))) : list byte :=
  fst (stream_pure toy_state (list byte) toy_block toy_flush (fun w => w) ri ms
         {| saved := None; restarts_to_go := ri; next_restart_num := 0 |}).
