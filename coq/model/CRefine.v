(* CRefine.v -- jcphuff.c encode_mcu_AC_refine: the bookkeeping of the correction-bit buffer
   (entropy->bit_buffer[MAX_CORR_BITS], entropy->BE, the per-block BR / BR_buffer, entropy->EOBRUN).
   A block is the list of classes of the Sl = Se-Ss+1 coefficients of the band, in scan order. *)
From Coq Require Import List ZArith Bool Lia.
From LJT Require Import model.Huff gen.GenParams model.CParams.
Import ListNotations.
Local Open Scope Z_scope.

Inductive cclass := Czero            (* (|coef| >> Al) = 0                                  *)
                  | Ccorr            (* (|coef| >> Al) > 1 : previously nonzero, one correction bit *)
                  | Cnew.            (* (|coef| >> Al) = 1 : newly nonzero                   *)

Record rstate := { r_EOBRUN : Z; r_BE : Z }.
(* emit_eobrun: "if (EOBRUN > 0) { ...; EOBRUN = 0; emit_buffered_bits(bit_buffer, BE); BE = 0; }" *)
Definition emit_eobrun (s : rstate) : rstate := if r_EOBRUN s >? 0 then {| r_EOBRUN := 0; r_BE := 0 |} else s.

(* position (1-based count of processed coefficients) of the last newly-nonzero coefficient = EOB *)
Fixpoint last_new (l : list cclass) (i acc : Z) : Z :=
  match l with [] => acc | Cnew :: t => last_new t (i + 1) (i + 1) | _ :: t => last_new t (i + 1) acc end.

(* one coefficient; st = (entropy state, base = BR_buffer - bit_buffer, BR, r, writes so far) ; k = its index *)
Record bstate := { b_s : rstate; b_base : Z; b_BR : Z; b_r : Z; b_writes : list Z }.
(* "while (r > 15 && (cabsvalue <= EOBPTR)) { emit_eobrun; ZRL; r -= 16; emit_buffered_bits(BR_buffer, BR); BR_buffer = bit_buffer; BR = 0; }" *)
Fixpoint zrl_loop (fuel : nat) (st : bstate) : bstate :=
  match fuel with
  | O => st
  | S f => if b_r st >? 15 then
             zrl_loop f {| b_s := emit_eobrun (b_s st); b_base := 0; b_BR := 0; b_r := b_r st - 16; b_writes := b_writes st |}
           else st
  end.
Definition coef_step (eob : Z) (st : bstate) (kc : Z * cclass) : bstate :=
  let '(k, c) := kc in
  match c with
  | Czero => {| b_s := b_s st; b_base := b_base st; b_BR := b_BR st; b_r := b_r st + 1; b_writes := b_writes st |}
  | _ =>
      let st1 := if k <=? eob then zrl_loop 8 st else st in
      match c with
      | Ccorr => (* BR_buffer[BR++] = ... *)
          {| b_s := b_s st1; b_base := b_base st1; b_BR := b_BR st1 + 1; b_r := b_r st1;
             b_writes := (b_base st1 + b_BR st1) :: b_writes st1 |}
      | _ => {| b_s := emit_eobrun (b_s st1); b_base := 0; b_BR := 0; b_r := 0; b_writes := b_writes st1 |}
      end
  end.

(* one block (MCU) of the scan; returns the entropy state and the bit_buffer indexes written *)
Definition refine_block (s : rstate) (blk : list cclass) : rstate * list Z :=
  let eob := last_new blk 0 0 in
  let st := fold_left (coef_step eob) (combine (map (fun i => Z.of_nat i + 1) (seq 0 (length blk))) blk)
                      {| b_s := s; b_base := r_BE s; b_BR := 0; b_r := 0; b_writes := [] |} in
  (* "r |= trailing count" (zero coefficients are counted in r as they are met);
     "if (r > 0 || BR > 0) { EOBRUN++; BE += BR; if (EOBRUN == 0x7FFF || BE > threshold) emit_eobrun }" *)
  let s1 := b_s st in
  if (b_r st >? 0) || (b_BR st >? 0) then
    let s2 := {| r_EOBRUN := r_EOBRUN s1 + 1; r_BE := r_BE s1 + b_BR st |} in
    ((if (r_EOBRUN s2 =? 32767) || (r_BE s2 >? g_CORR_FLUSH_THRESHOLD) then emit_eobrun s2 else s2), b_writes st)
  else (s1, b_writes st).

Fixpoint refine_scan (s : rstate) (blocks : list (list cclass)) : list Z :=
  match blocks with
  | [] => []
  | b :: r => let '(s', w) := refine_block s b in w ++ refine_scan s' r
  end.
