(* C11 -- how many destination ROWS one jpeg_read_scanlines call may write.  No proofs.
   jdapistd.c  _jpeg_read_scanlines(cinfo, scanlines, max_lines):
       row_ctr = 0; main->_process_data(cinfo, scanlines, &row_ctr, max_lines);
       cinfo->output_scanline += row_ctr; return row_ctr;
   jdmainct.c  process_data_context_main: up to two invocations of the post-processor /
       upsampler per call (postponed row group, then the next iMCU row), with
       a return when the row counter has reached out_rows_avail in between; process_data_simple_main: one.
   jdsample.c  sep_upsample / jdmerge.c merged_2v_upsample:
       num_rows = rows in the conversion buffer; clamp to rows_to_go;
       out_rows_avail -= *out_row_ctr;  clamp to out_rows_avail;
       rows output_buf[*out_row_ctr .. *out_row_ctr + num_rows - 1] are written.
   clamp_sub = the subtraction "out_rows_avail -= *out_row_ctr" is there (pinned by
   tools/gen_Align.py); without it the second invocation of a call overruns. *)
From Coq Require Import List ZArith Bool.
From LJT Require Import model.Extent.
Import ListNotations.
Local Open Scope Z_scope.

(* one invocation: (rows in the conversion buffer, rows_to_go) *)
Definition ups_num_rows (clamp_sub : bool) (have rtg ctr avail : Z) : Z :=
  Z.min (Z.min have rtg) (if clamp_sub then avail - ctr else avail).

(* the rows (indices into the caller's scanlines[] array) written by one call and the
   final row counter; invs = the upsampler invocations the main controller makes *)
Fixpoint read_call (clamp_sub : bool) (invs : list (Z * Z)) (ctr avail : Z) : list Z * Z :=
  match invs with
  | [] => ([], ctr)
  | (have, rtg) :: t =>
    if avail <=? ctr then ([], ctr)
    else
      let n := ups_num_rows clamp_sub have rtg ctr avail in
      let '(rows, c') := read_call clamp_sub t (ctr + n) avail in
      (comps_from ctr (Z.to_nat n) ++ rows, c')
  end.

Definition read_scanlines (clamp_sub : bool) (invs : list (Z * Z)) (max_lines : Z) : list Z * Z :=
  read_call clamp_sub invs 0 max_lines.

(* turbojpeg-mp.c, cropping loop of tj3Decompress8/12 (y = h = 0 region: y := 0, h := output_height):
     while (output_scanline < y + h)
       _jpeg_read_scanlines(dinfo, &row_pointer[output_scanline - y], y + h - output_scanline);
   calls = the invocations of each successive call; result = indices into row_pointer[] written *)
Fixpoint crop_loop (clamp_sub : bool) (calls : list (list (Z * Z))) (scan y h : Z) : list Z :=
  match calls with
  | [] => []
  | invs :: t =>
    if y + h <=? scan then []
    else
      let '(rows, n) := read_scanlines clamp_sub invs (y + h - scan) in
      map (fun r => scan - y + r) rows ++ crop_loop clamp_sub t (scan + n) y h
  end.
