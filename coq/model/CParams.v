(* CParams.v -- executable model of the compressor's parameter validation (C17):
     jcmaster.c  initial_setup, validate_script, select_scan_parameters, per_scan_setup,
                 jinit_c_master_control (statement order), the pass sequencing of
                 prepare_for_pass / finish_pass_master (event trace only)
     jcinit.c / jccolor.c / jcsample.c  the checks between master control and the first pass
                 (null colour conversion of JCS_UNKNOWN, integral down-sampling ratios,
                  lossless + arithmetic)
     jchuff.c    encode_one_block: PUT_BITS / PUT_CODE / FLUSH / EMIT_BYTE on the 64-bit
                 bit buffer, byte for byte, with the coefficient range checks
     jcphuff.c   the range checks of encode_mcu_DC_first / AC_first
     turbojpeg.c tj3Set acceptance, driven by the generated table
   Every array access the C code performs in the modelled functions is recorded in a
   trace (array, index); the proofs show that the trace stays inside the declared
   array sizes.  No proofs here. *)
From Coq Require Import List ZArith Bool Lia.
From LJT Require Import model.Huff gen.GenParams.
Import ListNotations.
Local Open Scope Z_scope.

(* ------------------------------------------------------------ error classes *)
Inductive cerr :=
  | EmptyImage | ImageTooBig | WidthOverflow | BadPrecision | ComponentCount
  | BadSampling | BadScanScript | BadProgScript | MissingData | BadMcuSize
  | FractSample | ConversionNotImpl | ArithNotImpl | BadDctCoef | MissingCode | NoQuantTable | NoHuffTable | BadRestart | BadState | BadLength.

(* ------------------------------------------- arrays of the C code and the trace *)
Inductive arr :=
  | A_comp_info          (* cinfo->comp_info[MAX_COMPONENTS]            *)
  | A_component_sent     (* boolean component_sent[MAX_COMPONENTS]      *)
  | A_last_bitpos        (* int last_bitpos[MAX_COMPONENTS][DCTSIZE2], flat index *)
  | A_component_index    (* scanptr->component_index[MAX_COMPS_IN_SCAN] *)
  | A_cur_comp_info      (* cinfo->cur_comp_info[MAX_COMPS_IN_SCAN]     *)
  | A_MCU_membership.    (* cinfo->MCU_membership[C_MAX_BLOCKS_IN_MCU]  *)

Definition arr_size (a : arr) : Z :=
  match a with
  | A_comp_info => g_MAX_COMPONENTS
  | A_component_sent => g_MAX_COMPONENTS
  | A_last_bitpos => g_MAX_COMPONENTS * g_DCTSIZE2
  | A_component_index => g_MAX_COMPS_IN_SCAN
  | A_cur_comp_info => g_MAX_COMPS_IN_SCAN
  | A_MCU_membership => g_C_MAX_BLOCKS_IN_MCU
  end.

Definition access := (arr * Z)%type.
Definition in_bounds (ac : access) : bool := (0 <=? snd ac) && (snd ac <? arr_size (fst ac)).

(* computation = trace of array accesses + (error | value) *)
Definition M (A : Type) := (list access * (cerr + A))%type.
Definition ret {A} (x : A) : M A := ([], inr x).
Definition fail {A} (e : cerr) : M A := ([], inl e).
Definition bind {A B} (m : M A) (f : A -> M B) : M B :=
  match m with
  | (t, inl e) => (t, inl e)
  | (t, inr x) => let r := f x in (t ++ fst r, snd r)
  end.
Definition touch (a : arr) (i : Z) : M unit := ([(a, i)], inr tt).
(* "if (b) ERREXIT(e);" *)
Definition guard (b : bool) (e : cerr) : M unit := if b then fail e else ret tt.
Notation "x <- m ;; f" := (bind m (fun x => f)) (at level 61, m at next level, right associativity).
Notation "m ;;; f" := (bind m (fun _ => f)) (at level 61, right associativity).

(* "for (i = lo; i < lo + n; i++) s = body(i, s);" *)
Fixpoint for_loop {S} (n : nat) (i : Z) (body : Z -> S -> M S) (s : S) : M S :=
  match n with
  | O => ret s
  | S k => s' <- body i s ;; for_loop k (i + 1) body s'
  end.

Definition nthB (l : list bool) (i : Z) : bool := nth (Z.to_nat i) l false.
Definition getZ (l : list Z) (i : Z) : Z := nth (Z.to_nat i) l 0.
Definition setZ (l : list Z) (i : Z) (x : Z) : list Z := upd (Z.to_nat i) x l.

(* ================================================================ scan scripts *)
Record scan := { s_ncomps : Z;          (* comps_in_scan                          *)
                 s_comps : list Z;      (* component_index[0..3] (the whole array) *)
                 s_Ss : Z; s_Se : Z; s_Ah : Z; s_Al : Z }.

Inductive smode := Sequential | Progressive | Lossless.

(* validation state: component_sent[] or last_bitpos[][] (one row per component) *)
Record vstate := { v_sent : list bool; v_lb : list (list Z) }.

Definition lb_get (lb : list (list Z)) (c k : Z) : Z := getZ (nth (Z.to_nat c) lb []) k.
Definition lb_set (lb : list (list Z)) (c k x : Z) : list (list Z) :=
  upd (Z.to_nat c) (setZ (nth (Z.to_nat c) lb []) k x) lb.

(* "for (ci = 0; ci < ncomps; ci++) { thisi = component_index[ci]; range; order }" *)
Definition check_comp_indexes (nc : Z) (s : scan) : M unit :=
  for_loop (Z.to_nat (s_ncomps s)) 0
    (fun ci _ =>
       touch A_component_index ci ;;;
       let thisi := getZ (s_comps s) ci in
       guard ((thisi <? 0) || (thisi >=? nc)) BadScanScript ;;;
       if 0 <? ci then
         touch A_component_index (ci - 1) ;;;
         guard (thisi <=? getZ (s_comps s) (ci - 1)) BadScanScript
       else ret tt) tt.

(* inner loop "for (coefi = Ss; coefi <= Se; coefi++)" of the progressive branch *)
Definition prog_coef_loop (s : scan) (c : Z) (lb : list (list Z)) : M (list (list Z)) :=
  for_loop (Z.to_nat (s_Se s - s_Ss s + 1)) (s_Ss s)
    (fun coefi lb =>
       touch A_last_bitpos (c * g_DCTSIZE2 + coefi) ;;;
       let last := lb_get lb c coefi in
       (if last <? 0 then guard (negb (s_Ah s =? 0)) BadProgScript
        else guard (negb (s_Ah s =? last) || negb (s_Al s =? s_Ah s - 1)) BadProgScript) ;;;
       ret (lb_set lb c coefi (s_Al s))) lb.

Definition prog_scan (prec : Z) (s : scan) (lb : list (list Z)) : M (list (list Z)) :=
  let max_Ah_Al := if prec =? g_AHAL_PREC then g_MAX_AH_AL_HI else g_MAX_AH_AL_LO in
  let Ss := s_Ss s in let Se := s_Se s in let Ah := s_Ah s in let Al := s_Al s in
  guard ((Ss <? 0) || (Ss >=? g_DCTSIZE2) || (Se <? Ss) || (Se >=? g_DCTSIZE2) ||
         (Ah <? 0) || (Ah >? max_Ah_Al) || (Al <? 0) || (Al >? max_Ah_Al)) BadProgScript ;;;
  (if Ss =? 0 then guard (negb (Se =? 0)) BadProgScript
   else guard (negb (s_ncomps s =? 1)) BadProgScript) ;;;
  for_loop (Z.to_nat (s_ncomps s)) 0
    (fun ci lb =>
       touch A_component_index ci ;;;
       let c := getZ (s_comps s) ci in
       (if negb (Ss =? 0) then
          touch A_last_bitpos (c * g_DCTSIZE2) ;;;
          guard (lb_get lb c 0 <? 0) BadProgScript
        else ret tt) ;;;
       prog_coef_loop s c lb) lb.

Definition seq_scan (lossless : bool) (prec : Z) (s : scan) (sent : list bool) : M (list bool) :=
  let Ss := s_Ss s in let Se := s_Se s in let Ah := s_Ah s in let Al := s_Al s in
  (if lossless then
     guard ((Ss <? g_PSV_MIN) || (Ss >? g_PSV_MAX) || negb (Se =? 0) || negb (Ah =? 0) ||
            (Al <? 0) || (Al >=? prec)) BadProgScript
   else
     guard (negb (Ss =? 0) || negb (Se =? g_DCTSIZE2 - 1) || negb (Ah =? 0) || negb (Al =? 0))
           BadProgScript) ;;;
  for_loop (Z.to_nat (s_ncomps s)) 0
    (fun ci sent =>
       touch A_component_index ci ;;;
       let thisi := getZ (s_comps s) ci in
       touch A_component_sent thisi ;;;
       guard (nthB sent thisi) BadScanScript ;;;
       ret (upd (Z.to_nat thisi) true sent)) sent.

Definition one_scan (mode : smode) (nc prec : Z) (s : scan) (st : vstate) : M vstate :=
  guard ((s_ncomps s <=? 0) || (s_ncomps s >? g_MAX_COMPS_IN_SCAN)) ComponentCount ;;;
  check_comp_indexes nc s ;;;
  match mode with
  | Progressive => lb <- prog_scan prec s (v_lb st) ;; ret {| v_sent := v_sent st; v_lb := lb |}
  | Sequential => sn <- seq_scan false prec s (v_sent st) ;; ret {| v_sent := sn; v_lb := v_lb st |}
  | Lossless => sn <- seq_scan true prec s (v_sent st) ;; ret {| v_sent := sn; v_lb := v_lb st |}
  end.

Fixpoint scan_loop (mode : smode) (nc prec : Z) (scans : list scan) (st : vstate) : M vstate :=
  match scans with
  | [] => ret st
  | s :: r => st' <- one_scan mode nc prec s st ;; scan_loop mode nc prec r st'
  end.

Definition script_mode (s0 : scan) : smode :=
  if negb (s_Ss s0 =? 0) && (s_Se s0 =? 0) then Lossless
  else if negb (s_Ss s0 =? 0) || negb (s_Se s0 =? g_DCTSIZE2 - 1) then Progressive
  else Sequential.

(* the initialisation loops run over ci < num_components WITHOUT a prior bound on it *)
Definition init_state (mode : smode) (nc : Z) : M vstate :=
  match mode with
  | Progressive =>
      for_loop (Z.to_nat nc) 0
        (fun ci _ => for_loop (Z.to_nat g_DCTSIZE2) 0
                       (fun coefi _ => touch A_last_bitpos (ci * g_DCTSIZE2 + coefi)) tt) tt ;;;
      ret {| v_sent := []; v_lb := repeat (repeat (-1) (Z.to_nat g_DCTSIZE2)) (Z.to_nat nc) |}
  | _ =>
      for_loop (Z.to_nat nc) 0 (fun ci _ => touch A_component_sent ci) tt ;;;
      ret {| v_sent := repeat false (Z.to_nat nc); v_lb := [] |}
  end.

Definition final_check (mode : smode) (nc : Z) (st : vstate) : M unit :=
  for_loop (Z.to_nat nc) 0
    (fun ci _ =>
       match mode with
       | Progressive => touch A_last_bitpos (ci * g_DCTSIZE2) ;;;
                        guard (lb_get (v_lb st) ci 0 <? 0) MissingData
       | _ => touch A_component_sent ci ;;; guard (negb (nthB (v_sent st) ci)) MissingData
       end) tt.

(* validate_script: scans = scan_info[0 .. num_scans-1] *)
Definition validate_script (nc prec : Z) (scans : list scan) : M smode :=
  match scans with
  | [] => fail BadScanScript
  | s0 :: _ =>
      (* the component count is checked before the per-component arrays are used *)
      (if g_NCOMP_CHECK_IN_VALIDATE =? 1 then guard (nc >? g_MAX_COMPONENTS) ComponentCount else ret tt) ;;;
      let mode := script_mode s0 in
      st0 <- init_state mode nc ;;
      st <- scan_loop mode nc prec scans st0 ;;
      final_check mode nc st ;;;
      ret mode
  end.

(* ============================================================== initial_setup *)
Record comp := { c_h : Z; c_v : Z }.
Record compdim := { d_h : Z; d_v : Z; d_wib : Z; d_hib : Z; d_dw : Z; d_dh : Z }.
Record setup := { u_max_h : Z; u_max_v : Z; u_comps : list compdim; u_total_iMCU_rows : Z }.

Definition jdiv_round_up (a b : Z) : Z := (a + b - 1) / b.
Definition getC (l : list comp) (i : Z) : comp := nth (Z.to_nat i) l {| c_h := 0; c_v := 0 |}.

Definition initial_setup (width height incomp nc prec : Z) (lossless : bool) (comps : list comp) : M setup :=
  let data_unit := if lossless then 1 else g_DCTSIZE in
  guard ((height <=? 0) || (width <=? 0) || (nc <=? 0) || (incomp <=? 0)) EmptyImage ;;;
  guard ((height >? g_JPEG_MAX_DIMENSION) || (width >? g_JPEG_MAX_DIMENSION)) ImageTooBig ;;;
  let samplesperrow := width * incomp in
  guard (negb (samplesperrow mod 2 ^ 32 =? samplesperrow)) WidthOverflow ;;;
  (if lossless then guard ((prec <? g_LOSSLESS_PREC_MIN) || (prec >? g_LOSSLESS_PREC_MAX)) BadPrecision
   else guard (negb (prec =? g_LOSSY_PREC_A) && negb (prec =? g_LOSSY_PREC_B)) BadPrecision) ;;;
  guard (nc >? g_MAX_COMPONENTS) ComponentCount ;;;
  mx <- for_loop (Z.to_nat nc) 0
         (fun ci mx =>
            touch A_comp_info ci ;;;
            let c := getC comps ci in
            guard ((c_h c <=? 0) || (c_h c >? g_MAX_SAMP_FACTOR) ||
                   (c_v c <=? 0) || (c_v c >? g_MAX_SAMP_FACTOR)) BadSampling ;;;
            ret (Z.max (fst mx) (c_h c), Z.max (snd mx) (c_v c))) (1, 1) ;;
  let max_h := fst mx in let max_v := snd mx in
  ds <- for_loop (Z.to_nat nc) 0
         (fun ci acc =>
            touch A_comp_info ci ;;;
            let c := getC comps ci in
            ret (acc ++ [{| d_h := c_h c; d_v := c_v c;
                            d_wib := jdiv_round_up (width * c_h c) (max_h * data_unit);
                            d_hib := jdiv_round_up (height * c_v c) (max_v * data_unit);
                            d_dw := jdiv_round_up (width * c_h c) max_h;
                            d_dh := jdiv_round_up (height * c_v c) max_v |}])) [] ;;
  ret {| u_max_h := max_h; u_max_v := max_v; u_comps := ds;
         u_total_iMCU_rows := jdiv_round_up height (max_v * data_unit) |}.

(* ============================================================= per_scan_setup *)
Record scaninfo := { i_blocks_in_MCU : Z; i_membership : list Z; i_MCUs_per_row : Z;
                     i_MCU_rows : Z; i_restart_interval : Z;
                     i_last : list (Z * Z) (* last_col_width, last_row_height per component in scan *) }.

Definition dflt_dim : compdim := {| d_h := 0; d_v := 0; d_wib := 0; d_hib := 0; d_dw := 0; d_dh := 0 |}.
Definition getD (l : list compdim) (i : Z) : compdim := nth (Z.to_nat i) l dflt_dim.
Definition nz_mod (a b : Z) : Z := let t := a mod b in if t =? 0 then b else t.

(* cur : component indexes of this scan (cur_comp_info[ci] = &comp_info[cur[ci]]) *)
Definition per_scan_setup (width height : Z) (lossless : bool) (u : setup) (ncur : Z) (cur : list Z)
           (restart_interval restart_in_rows : Z) : M scaninfo :=
  let data_unit := if lossless then 1 else g_DCTSIZE in
  r <- (if ncur =? 1 then
          touch A_cur_comp_info 0 ;;; touch A_comp_info (getZ cur 0) ;;;
          let d := getD (u_comps u) (getZ cur 0) in
          touch A_MCU_membership 0 ;;;
          ret (1, [0], d_wib d, d_hib d, [(1, nz_mod (d_hib d) (d_v d))])
        else
          guard ((ncur <=? 0) || (ncur >? g_MAX_COMPS_IN_SCAN)) ComponentCount ;;;
          st <- for_loop (Z.to_nat ncur) 0
                 (fun ci st =>
                    let '(blocks, mem, lasts) := st in
                    touch A_cur_comp_info ci ;;; touch A_comp_info (getZ cur ci) ;;;
                    let d := getD (u_comps u) (getZ cur ci) in
                    let mcublks := d_h d * d_v d in
                    guard (blocks + mcublks >? g_C_MAX_BLOCKS_IN_MCU) BadMcuSize ;;;
                    (* "while (mcublks-- > 0) MCU_membership[blocks_in_MCU++] = ci;" *)
                    for_loop (Z.to_nat mcublks) blocks (fun b _ => touch A_MCU_membership b) tt ;;;
                    ret (blocks + mcublks, mem ++ repeat ci (Z.to_nat mcublks),
                         lasts ++ [(nz_mod (d_wib d) (d_h d), nz_mod (d_hib d) (d_v d))]))
                 (0, [], []) ;;
          let '(blocks, mem, lasts) := st in
          ret (blocks, mem,
               jdiv_round_up width (u_max_h u * data_unit),
               jdiv_round_up height (u_max_v u * data_unit), lasts)) ;;
  let '(blocks, mem, mpr, rows, lasts) := r in
  let ri := if restart_in_rows >? 0 then Z.min (restart_in_rows * mpr) g_RESTART_MAX
            else restart_interval in
  (* "if (cinfo->restart_interval > 65535) cinfo->restart_interval = 65535;" *)
  let ri := if (g_RESTART_CLAMP_DIRECT =? 1) && (ri >? g_RESTART_MAX) then g_RESTART_MAX else ri in
  ret {| i_blocks_in_MCU := blocks; i_membership := mem; i_MCUs_per_row := mpr; i_MCU_rows := rows;
         i_restart_interval := ri; i_last := lasts |}.

(* ====================================================== jinit_c_master_control *)
Record cfg := { f_width : Z; f_height : Z; f_incomp : Z; f_ncomp : Z; f_prec : Z;
                f_lossless : bool;                (* master->lossless set by jpeg_enable_lossless *)
                f_comps : list comp;              (* comp_info[] as filled by the application     *)
                f_script : option (list scan);    (* scan_info, num_scans                          *)
                f_restart_interval : Z; f_restart_in_rows : Z;
                f_raw : bool; f_arith : bool }.

Record started := { t_lossless : bool; t_progressive : bool; t_ncomp : Z; t_setup : setup;
                    t_scan0 : scaninfo;
                    t_stale : bool   (* some scan refers to a component >= the final num_components *) }.

(* the scans the master will run: the script, or one scan with all components *)
Definition scans_of (c : cfg) (nc : Z) : list (Z * list Z) :=
  match f_script c with
  | Some scans => map (fun s => (s_ncomps s, firstn (Z.to_nat (s_ncomps s)) (s_comps s))) scans
  | None => [(nc, map Z.of_nat (seq 0 (Z.to_nat nc)))]
  end.

Fixpoint later_scans (c : cfg) (lossless : bool) (u : setup) (ri : Z) (l : list (Z * list Z)) : M unit :=
  match l with
  | [] => ret tt
  | (n, cur) :: r =>
      i <- per_scan_setup (f_width c) (f_height c) lossless u n cur ri (f_restart_in_rows c) ;;
      later_scans c lossless u (i_restart_interval i) r
  end.

(* in_color_space = jpeg_color_space = JCS_UNKNOWN throughout (the correspondence stream keeps it so) *)
Definition master_start (c : cfg) : M started :=
  md <- match f_script c with
        | Some scans => m <- validate_script (f_ncomp c) (f_prec c) scans ;; ret (Some m)
        | None => ret None
        end ;;
  let lossless := match md with Some Lossless => true | Some _ => false | None => f_lossless c end in
  let progressive := match md with Some Progressive => true | _ => false end in
  (* lossless: raw_data_in = FALSE, jpeg_default_colorspace (JCS_UNKNOWN: num_components =
     input_components, SET_COMP(ci, ci, 1,1, 0,0,0)), sampling factors forced to 1 *)
  nc <- (if lossless then
           guard ((f_incomp c <? 1) || (f_incomp c >? g_MAX_COMPONENTS)) ComponentCount ;;;
           (* the script is validated again against the new component count *)
           match f_script c with
           | Some scans => if g_REVALIDATE_AFTER_LOSSLESS =? 1
                           then validate_script (f_incomp c) (f_prec c) scans ;;; ret tt else ret tt
           | None => ret tt
           end ;;;
           ret (f_incomp c)
         else ret (f_ncomp c)) ;;
  let comps := if lossless then repeat {| c_h := 1; c_v := 1 |} (Z.to_nat g_MAX_COMPONENTS) else f_comps c in
  let raw := if lossless then false else f_raw c in
  u <- initial_setup (f_width c) (f_height c) (f_incomp c) nc (f_prec c) lossless comps ;;
  (* jinit_color_converter (null conversion), jinit_downsampler *)
  (if raw then ret tt
   else
     guard (negb (nc =? f_incomp c)) ConversionNotImpl ;;;
     for_loop (Z.to_nat nc) 0
       (fun ci _ =>
          touch A_comp_info ci ;;;
          let d := getD (u_comps u) ci in
          guard (negb ((u_max_h u mod d_h d =? 0) && (u_max_v u mod d_v d =? 0))) FractSample) tt) ;;;
  guard (lossless && f_arith c) ArithNotImpl ;;;
  (* prepare_for_pass: select_scan_parameters + per_scan_setup of the first scan *)
  let sl := scans_of c nc in
  guard (match f_script c with None => nc >? g_MAX_COMPS_IN_SCAN | Some _ => false end) ComponentCount ;;;
  match sl with
  | [] => fail BadScanScript
  | (n0, cur0) :: _ =>
      i0 <- per_scan_setup (f_width c) (f_height c) lossless u n0 cur0
                           (f_restart_interval c) (f_restart_in_rows c) ;;
      (* jclossls.c start_pass_lossless: the interval must be a whole number of MCU rows *)
      guard (lossless && negb (i_restart_interval i0 mod i_MCUs_per_row i0 =? 0)) BadRestart ;;;
      ret {| t_lossless := lossless; t_progressive := progressive; t_ncomp := nc; t_setup := u;
             t_scan0 := i0;
             t_stale := existsb (fun nc_cur => existsb (fun x => x >=? nc) (snd nc_cur)) sl |}
  end.

(* the remaining scans, as reached by jpeg_finish_compress *)
Definition master_rest (c : cfg) (t : started) : M unit :=
  later_scans c (t_lossless t) (t_setup t) (i_restart_interval (t_scan0 t)) (skipn 1 (scans_of c (t_ncomp t))).

(* ================================================= pass sequencing (event trace) *)
Inductive pass_type := main_pass | huff_opt_pass | output_pass.
Inductive event := EvSOI | EvFrameHeader | EvScanHeader (scan : Z) | EvGather (scan : Z)
                 | EvScanData (scan : Z) | EvEOI.

Record mstate := { m_pass_type : pass_type; m_scan : Z; m_pass : Z }.

(* prepare_for_pass + the pass + finish_pass_master; optimize = cinfo->optimize_coding,
   dcrefine k = "scan k is a Huffman DC refinement scan" (optimisation pass skipped) *)
Definition one_pass (optimize : bool) (dcrefine : Z -> bool) (m : mstate) : list event * mstate :=
  let hdr := (if m_scan m =? 0 then [EvFrameHeader] else []) ++ [EvScanHeader (m_scan m)] in
  match m_pass_type m with
  | main_pass =>
      if optimize then ([EvGather (m_scan m)],
                        {| m_pass_type := output_pass; m_scan := m_scan m; m_pass := m_pass m + 1 |})
      else (hdr ++ [EvScanData (m_scan m)],
            {| m_pass_type := output_pass; m_scan := m_scan m + 1; m_pass := m_pass m + 1 |})
  | huff_opt_pass =>
      if dcrefine (m_scan m) then
        (* falls through to the output pass; pass_number++ twice *)
        (hdr ++ [EvScanData (m_scan m)],
         {| m_pass_type := if optimize then huff_opt_pass else output_pass;
            m_scan := m_scan m + 1; m_pass := m_pass m + 2 |})
      else ([EvGather (m_scan m)],
            {| m_pass_type := output_pass; m_scan := m_scan m; m_pass := m_pass m + 1 |})
  | output_pass =>
      (hdr ++ [EvScanData (m_scan m)],
       {| m_pass_type := if optimize then huff_opt_pass else output_pass;
          m_scan := m_scan m + 1; m_pass := m_pass m + 1 |})
  end.

(* jpeg_start_compress .. jpeg_finish_compress: passes until pass_number reaches total_passes *)
Fixpoint run_passes (fuel : nat) (optimize : bool) (dcrefine : Z -> bool) (total : Z) (m : mstate)
  : option (list event) :=
  if m_pass m >=? total then Some [EvEOI]
  else match fuel with
       | O => None
       | S k => let '(ev, m') := one_pass optimize dcrefine m in
                match run_passes k optimize dcrefine total m' with
                | None => None
                | Some r => Some (ev ++ r)
                end
       end.

Definition run_master (num_scans : Z) (optimize : bool) (dcrefine : Z -> bool) : option (list event) :=
  let total := if optimize then num_scans * 2 else num_scans in
  match run_passes (Z.to_nat total + 1) optimize dcrefine total
                   {| m_pass_type := main_pass; m_scan := 0; m_pass := 0 |} with
  | None => None
  | Some r => Some (EvSOI :: r)
  end.

(* ===================================================== jchuff.c encode_one_block *)
Definition W64 : Z := 2 ^ g_BIT_BUF_SIZE.
Record bitstate := { b_put : Z;            (* put_buffer (unsigned, BIT_BUF_SIZE bits) *)
                     b_free : Z;           (* free_bits                                 *)
                     b_out : list Z }.     (* bytes written, most recent first          *)

(* EMIT_BYTE: the byte, and a stuffed 0 after 0xFF *)
Definition emit_byte (out : list Z) (b : Z) : list Z :=
  let b := b mod 256 in if b <? 255 then b :: out else 0 :: b :: out.

(* FLUSH(): both branches write the same bytes; BIT_BUF_SIZE / 8 of them, MSB first *)
Fixpoint flush_bytes (n : nat) (put : Z) (out : list Z) : list Z :=
  match n with
  | O => out
  | S k => flush_bytes k put (emit_byte out (Z.shiftr put (8 * Z.of_nat k)))
  end.

Definition put_bits (st : bitstate) (code size : Z) : bitstate :=
  let fb := b_free st - size in
  if fb <? 0 then
    (* PUT_AND_FLUSH *)
    let pb := (Z.shiftl (b_put st) (size + fb) mod W64) in
    let pb := Z.lor pb (Z.shiftr code (- fb)) mod W64 in
    {| b_put := code mod W64; b_free := fb + g_BIT_BUF_SIZE;
       b_out := flush_bytes (Z.to_nat (g_BIT_BUF_SIZE / 8)) pb (b_out st) |}
  else
    {| b_put := Z.lor (Z.shiftl (b_put st) size mod W64) code mod W64; b_free := fb; b_out := b_out st |}.

(* PUT_CODE(code, size) with the current temp / nbits *)
Definition put_code (st : bitstate) (temp nbits code size : Z) : cerr + bitstate :=
  if (g_MISSING_CODE_CHECK =? 1) && (size =? 0) then inl MissingCode
  else
    let t := Z.lor (Z.land temp (2 ^ nbits - 1)) (Z.shiftl code nbits) in
    inr (put_bits st t (nbits + size)).

(* "nbits = temp >> 31; temp += nbits; nbits ^= temp;" : (temp', |temp|) *)
Definition abs_trick (temp : Z) : Z * Z := if temp <? 0 then (temp - 1, - temp) else (temp, temp).

(* one kloop(): r in units of 16 as in the C *)
Definition ac_step (prec : Z) (actbl : ctbl) (v : Z) (acc : cerr + (bitstate * Z)) : cerr + (bitstate * Z) :=
  match acc with
  | inl e => inl e
  | inr (st, r) =>
      if v =? 0 then inr (st, r + 16)
      else
        let '(temp, mag) := abs_trick v in
        let nb := nbits mag in
        if nb >? prec + g_MAX_COEF_BITS_ADD then inl BadDctCoef
        else
          (* "while (r >= 16 * 16) { r -= 16 * 16; PUT_BITS(ehufco[0xf0], ehufsi[0xf0]) }" *)
          let nz := r / 256 in
          if (g_MISSING_ZRL_EOB_CHECK =? 1) && (0 <? nz) && (nthZ (ehufsi actbl) 240 =? 0) then inl MissingCode else
          let st1 := fold_left (fun s _ => put_bits s (nthZ (ehufco actbl) 240) (nthZ (ehufsi actbl) 240))
                               (seq 0 (Z.to_nat nz)) st in
          let r1 := r - nz * 256 + nb in
          match put_code st1 temp nb (nthZ (ehufco actbl) (Z.to_nat r1)) (nthZ (ehufsi actbl) (Z.to_nat r1)) with
          | inl e => inl e
          | inr st2 => inr (st2, 0)
          end
  end.

(* coefs: the 64 coefficients in the order encode_one_block visits them (block[0], kloop order) *)
Definition encode_one_block (prec : Z) (dctbl actbl : ctbl) (st : bitstate) (last_dc : Z) (coefs : list Z)
  : cerr + bitstate :=
  match coefs with
  | [] => inl BadDctCoef
  | dc :: acs =>
      let '(temp, mag) := abs_trick (dc - last_dc) in
      let nb := nbits mag in
      if nb >? prec + g_MAX_COEF_BITS_ADD + g_DC_EXTRA_BITS then inl BadDctCoef
      else
        match put_code st temp nb (nthZ (ehufco dctbl) (Z.to_nat nb)) (nthZ (ehufsi dctbl) (Z.to_nat nb)) with
        | inl e => inl e
        | inr st1 =>
            match fold_left (fun acc v => ac_step prec actbl v acc) acs (inr (st1, 0)) with
            | inl e => inl e
            | inr (st2, r) =>
                if (g_MISSING_ZRL_EOB_CHECK =? 1) && (r >? 0) && (nthZ (ehufsi actbl) 0 =? 0) then inl MissingCode
                else inr (if r >? 0 then put_bits st2 (nthZ (ehufco actbl) 0) (nthZ (ehufsi actbl) 0) else st2)
            end
        end
  end.

(* the pre-check of encode_one_block_simd: same verdict as the range tests above (all coefficients
   are tested before anything is emitted) *)
Definition simd_range_ok (prec last_dc : Z) (coefs : list Z) : bool :=
  match coefs with
  | [] => false
  | dc :: acs =>
      let max_coef := 2 ^ (prec + g_MAX_COEF_BITS_ADD) - 1 in
      (Z.abs (dc - last_dc) <=? 2 * max_coef + 1) &&
      (fold_left (fun a v => Z.lor a (Z.abs v)) acs 0 <=? max_coef)
  end.

(* flush_bits: whole bytes, then the partial byte filled with ones; returns the bytes in order *)
Fixpoint flush_loop (fuel : nat) (put nb : Z) (out : list Z) : Z * list Z :=
  match fuel with
  | O => (nb, out)
  | S k => if nb >=? 8 then flush_loop k put (nb - 8) (emit_byte out (Z.shiftr put (nb - 8))) else (nb, out)
  end.
Definition flush_bits (st : bitstate) : list Z :=
  let '(nb, out) := flush_loop 9 (b_put st) (g_BIT_BUF_SIZE - b_free st) (b_out st) in
  rev (if nb >? 0 then emit_byte out (Z.lor (Z.shiftl (b_put st) (8 - nb)) (Z.shiftr 255 nb)) else out).
Definition bitstate0 : bitstate := {| b_put := 0; b_free := g_BIT_BUF_SIZE; b_out := [] |}.

Definition zigzag_block (block : list Z) : list Z := map (fun k => nthZ block (Z.to_nat k)) g_kloop_order.

(* the coefficient range checks of the progressive encoder (jcphuff.c) *)
Definition prog_dc_ok (prec Al v last_shifted : Z) : bool :=
  nbits (Z.abs (Z.shiftr v Al - last_shifted)) <=? prec + g_MAX_COEF_BITS_ADD + g_DC_EXTRA_BITS.
Definition prog_ac_ok (prec Al v : Z) : bool :=
  nbits (Z.shiftr (Z.abs v) Al) <=? prec + g_MAX_COEF_BITS_ADD.
Definition seq_dc_ok (prec diff : Z) : bool := nbits (Z.abs diff) <=? prec + g_MAX_COEF_BITS_ADD + g_DC_EXTRA_BITS.
Definition seq_ac_ok (prec v : Z) : bool := nbits (Z.abs v) <=? prec + g_MAX_COEF_BITS_ADD.

(* ================================================================== tj3Set *)
Definition tj_lookup (param : Z) : option (Z * Z * Z * Z * Z) :=
  find (fun r => match r with (p, _, _, _, _) => p =? param end) g_tj_params.

(* init: 1 = COMPRESS instance, 2 = DECOMPRESS instance, 3 = both (transform) *)
Definition tj3set_accepts (init param value : Z) : bool :=
  match tj_lookup param with
  | None => false                                      (* default: THROW("Invalid parameter") *)
  | Some (_, kind, need, lo, hi) =>
      (if need =? 0 then true else Z.testbit init (need - 1)) &&
      (if kind =? 0 then (0 <=? value) && (value <=? 1)
       else if kind =? 1 then negb ((value <? lo) || ((hi >? 0) && (value >? hi)))
       else false)
  end.

(* jpeg_add_quant_table entry computation *)
Definition quant_entry (basic scale : Z) (force_baseline : bool) : Z :=
  let t := (basic * scale + 50) / 100 in
  let t := if t <=? 0 then g_QUANT_MIN else t in
  let t := if t >? g_QUANT_MAX then g_QUANT_MAX else t in
  if force_baseline && (t >? g_QUANT_BASELINE_MAX) then g_QUANT_BASELINE_MAX else t.

(* divisor handed to compute_reciprocal in 8-bit JDCT_ISLOW mode *)
Definition islow_divisor (quantval : Z) : Z :=
  let d := quantval * 8 in
  if g_DIVISOR_CLAMPED_EVERYWHERE =? 1 then (if d >? g_DIVISOR_CLAMP then g_DIVISOR_CLAMP else d)
  else d mod 65536.
