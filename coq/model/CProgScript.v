(* CProgScript.v -- jcparam.c jpeg_simple_progression: the script it writes (interpreting the generated call
   lists), the number of scan slots it announces, and the script workspace rule across calls on ONE
   compression object (script_space / script_space_size live in the permanent pool). *)
From Coq Require Import List ZArith Bool Lia.
From LJT Require Import model.Huff gen.GenParams model.CParams.
Import ListNotations.
Local Open Scope Z_scope.

Definition comp_array (l : list Z) : list Z := firstn 4 (l ++ [0; 0; 0; 0]).
Definition a_scan (ci Ss Se Ah Al : Z) : scan :=
  {| s_ncomps := 1; s_comps := comp_array [ci]; s_Ss := Ss; s_Se := Se; s_Ah := Ah; s_Al := Al |}.
Definition fill_scans (ncomps Ss Se Ah Al : Z) : list scan :=
  map (fun ci => a_scan (Z.of_nat ci) Ss Se Ah Al) (seq 0 (Z.to_nat ncomps)).
Definition fill_dc_scans (ncomps Ah Al : Z) : list scan :=
  if ncomps <=? g_MAX_COMPS_IN_SCAN then
    [{| s_ncomps := ncomps; s_comps := comp_array (map Z.of_nat (seq 0 (Z.to_nat ncomps)));
        s_Ss := 0; s_Se := 0; s_Ah := Ah; s_Al := Al |}]
  else fill_scans ncomps 0 0 Ah Al.

Definition sp_call (ncomps : Z) (c : Z * Z * Z * Z * Z * Z) : list scan :=
  let '(kind, a, b, c3, d, e) := c in
  if kind =? 0 then fill_dc_scans ncomps a b
  else if kind =? 1 then [a_scan a b c3 d e]
  else fill_scans ncomps a b c3 d.

(* ycc = (jpeg_color_space == JCS_YCbCr) *)
Definition sp_is_ycc (ncomps : Z) (ycc : bool) : bool := (ncomps =? g_SP_YCC_NCOMPS) && ycc.
Definition simple_progression (ncomps : Z) (ycc : bool) : list scan :=
  flat_map (sp_call ncomps) (if sp_is_ycc ncomps ycc then g_sp_ycc else g_sp_gen).
(* "Figure space needed for script.  Calculation must match code below!" *)
Definition simple_nscans (ncomps : Z) (ycc : bool) : Z :=
  if sp_is_ycc ncomps ycc then g_SP_YCC_NSCANS
  else if ncomps >? g_MAX_COMPS_IN_SCAN then g_SP_BIG_MUL * ncomps else g_SP_ADD + g_SP_MUL * ncomps.

(* the workspace: entries actually allocated (None = script_space == NULL) and the recorded size *)
Record wspace := { w_alloc : option Z; w_size : Z }.
Definition wspace0 : wspace := {| w_alloc := None; w_size := 0 |}.

Definition sp_workspace (w : wspace) (nscans : Z) : wspace :=
  if (match w_alloc w with None => true | Some _ => false end) || (w_size w <? nscans) then
    let newsize := if g_SP_SIZE_RULE =? 1 then Z.max nscans g_SP_MIN_SLOTS
                   else Z.max (w_size w) (Z.max nscans g_SP_MIN_SLOTS) in
    {| w_alloc := if g_SP_ALLOC_GUARD =? 1 then Some newsize
                  else match w_alloc w with None => Some newsize | Some a => Some a end;
       w_size := newsize |}
  else w.

(* a sequence of jpeg_simple_progression calls (one per image): every call writes slots 0 .. nscans-1;
   true = every slot written lies inside the allocation *)
Fixpoint sp_run (w : wspace) (calls : list Z) : bool :=
  match calls with
  | [] => true
  | n :: r => let w' := sp_workspace w n in
              (match w_alloc w' with Some a => n <=? a | None => false end) && sp_run w' r
  end.
