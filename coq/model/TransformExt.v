(* C06 round 4: crop EXTENSION as tj3Transform / jpegtran reach it: JXFORM_NONE with a region wider
   and/or taller than the image and crop_*_set = JCROP_POS (tj3Transform never sets JCROP_FORCE /
   JCROP_REFLECT: C06_source_tj_reachable) => jtransform_execute_transform calls do_crop_ext_zero:
   the source is placed at the crop offset inside a larger canvas, everything else is ZERO blocks,
   and in an extended direction the partial iMCU at the source's edge is zeroed too. *)
From Coq Require Import List ZArith Bool.
From LJT Require Import model.Transform.
Import ListNotations.
Local Open Scope Z_scope.

Definition zero_blk : blk := repeat 0 64%nat.

(* one axis of the crop computation, extension included: (extent of the output, offset, extended?) *)
Definition crop_axis2 (isnone : bool) (full cw : Z) (wset : bool) (cx0 : Z) (xset : oset) (imcu : Z)
  : xerr + (Z * Z * bool) :=
  match crop_axis isnone full cw wset cx0 xset with
  | inr (cw', off) => inr (cw' + off mod imcu, off / imcu, false)
  | inl ECropExt =>
      let cx := match xset with OUnset => 0 | _ => cx0 end in
      let off := match xset with ONeg => cw - full - cx | _ => cx end in
      inr (cw, off / imcu, true)
  | inl e => inl e
  end.

(* jtransform_request_workspace for JXFORM_NONE with a crop, extension allowed (no trim for NONE) *)
Definition request_workspace2 (im : image) (o : xopts) : xerr + plan :=
  match request_workspace im o with
  | inl ECropExt =>
      match xo_crop o with
      | None => inl ECropExt
      | Some c =>
          let ncs := Z.of_nat (length (i_comps im)) in
          let nc := if xo_gray o && (i_cs im =? 3) && (ncs =? 3) then 1 else ncs in
          let imw := if nc =? 1 then 8 else max_hs (i_comps im) * 8 in
          let imh := if nc =? 1 then 8 else max_vs (i_comps im) * 8 in
          match crop_axis2 true (i_w im) (cr_w c) (cr_wset c) (cr_x c) (cr_xset c) imw,
                crop_axis2 true (i_h im) (cr_h c) (cr_hset c) (cr_y c) (cr_yset c) imh with
          | inr (ow, xco, _), inr (oh, yco, _) => inr (mkplan nc ow oh imw imh xco yco)
          | inl e, _ => inl e
          | _, inl e => inl e
          end
      end
  | r => r
  end.

(* do_crop_ext_zero, destination block (x,y) of one component *)
Definition do_crop_ext_zero (g : geom) (ext_x ext_y : bool) (src : srcfn) : srcfn := fun x y =>
  let mcu_cols := g_sw g / (g_maxh g * 8) in
  let mcu_rows := g_sh g / (g_maxv g * 8) in
  let comp_width := mcu_cols * g_hs g in
  let comp_height := mcu_rows * g_vs g in
  let by_ := gbase y (g_vs g) in let oy := goff y (g_vs g) in
  if ext_y && ((by_ <? ycb g) || (ycb g + comp_height <=? by_)) then zero_blk else
  let srow := if ext_y then (by_ - ycb g) + oy else (by_ + ycb g) + oy in
  if ext_x then
    if x <? xcb g then zero_blk
    else if x <? xcb g + comp_width then src (x - xcb g) srow
    else zero_blk
  else src (x + xcb g) srow.

Definition transform2 (im : image) (o : xopts) : xerr + image :=
  match transform im o with
  | inl ECropExt =>
      match request_workspace2 im o with
      | inl e => inl e
      | inr p =>
          if negb (quant_ok im) then inl EQuantReuse else
          if xo_gray o && negb (gray_ok im) then inl ENoGray else
          let srcs := firstn (Z.to_nat (p_nc p)) (i_comps im) in
          let samps := map (dst_samp (p_nc p) false) srcs in
          let mh := fold_right (fun s m => Z.max (fst s) m) 1 samps in
          let mv := fold_right (fun s m => Z.max (snd s) m) 1 samps in
          let mk c :=
            let hs := fst (dst_samp (p_nc p) false c) in
            let vs := snd (dst_samp (p_nc p) false c) in
            let wb := cdiv (p_ow p * hs) (mh * 8) in
            let hb := cdiv (p_oh p * vs) (mv * 8) in
            let g := mkgeom hs vs wb hb (c_wb c) (i_w im) (i_h im) mh mv (p_xco p) (p_yco p) in
            mkcomp hs vs wb hb (c_tq c) (slot_of (i_slots im) (c_tq c))
                   (do_crop_ext_zero g (i_w im <? p_ow p) (i_h im <? p_oh p) (c_blk c)) in
          inr (mkimage (p_ow p) (p_oh p) (if xo_gray o then 1 else i_cs im) (i_slots im) (map mk srcs))
      end
  | r => r
  end.

Definition tj_precheck2 (im : image) (n : nat) (t : tjx) : option xerr :=
  match request_workspace2 im (tj_xopts n t) with
  | inl e => Some e
  | inr p =>
      if t_crop t then
        let d := get_dst_subsamp (get_subsamp im) (t_gray t) (t_op t) in
        if d =? -1 then Some EUnknownSubsamp else
        if negb (t_x t mod p_imw p =? 0) || negb (t_y t mod p_imh p =? 0)
        then Some EAlign else None
      else None
  end.

Definition tj_transform2 (im : image) (ts : list tjx) : xerr + list image :=
  let n := length ts in
  match first_err (tj_precheck2 im n) ts with
  | Some e => inl e
  | None => all_ok (fun t => transform2 im (tj_xopts n t)) ts
  end.
