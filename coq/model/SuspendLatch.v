(* C09 -- buffered-image mode, quantization tables: jdinput.c latch_quant_tables (at start_input_pass,
   once per component), jdmarker.c get_dqt (redefines the slot object in place), jddctmgr.c start_pass
   (at every output pass builds the multiplier table of a component from compptr->quant_table unless it
   has been built already or nothing is latched yet).
   by_copy = latch_quant_tables stores a private copy (the current source) / the slot pointer.        *)
From Coq Require Import List ZArith Bool.
Import ListNotations.

Inductive lop :=
| LDqt (slot : nat) (tbl : list Z)       (* DQT marker *)
| LScan (cs : list nat)                  (* SOS: start_input_pass for the components cs *)
| LData                                  (* consume_data *)
| LStartOutput.                          (* jpeg_start_output -> prepare_for_output_pass -> idct start_pass *)

Inductive latch := NotLatched | Copy (t : list Z) | Ref (slot : nat).

Record lcomp := { cid : nat; cq : nat (* quant_tbl_no *); cl : latch (* compptr->quant_table *);
                  cm : option (list Z) (* compptr->dct_table once built *) }.
Record lst := { slots : list (option (list Z)); comps : list lcomp }.

Fixpoint set_nth {A} (i : nat) (v : A) (l : list A) : list A :=
  match l with [] => [] | x :: t => match i with O => v :: t | S j => x :: set_nth j v t end end.

Definition of_latch (sl : list (option (list Z))) (l : latch) : option (list Z) :=
  match l with NotLatched => None | Copy t => Some t | Ref s => nth s sl None end.

Definition latch_comp (by_copy : bool) (sl : list (option (list Z))) (cs : list nat) (c : lcomp) : lcomp :=
  if existsb (Nat.eqb (cid c)) cs then
    match cl c with
    | NotLatched =>                                     (* "No work if we already saved Q-table" *)
        match nth (cq c) sl None with
        | Some t => {| cid := cid c; cq := cq c; cl := if by_copy then Copy t else Ref (cq c); cm := cm c |}
        | None => c                                     (* JERR_NO_QUANT_TABLE *)
        end
    | _ => c
    end
  else c.

Definition build_comp (sl : list (option (list Z))) (c : lcomp) : lcomp :=
  match cm c with
  | Some _ => c                                         (* idct->cur_method[ci] == method: already built *)
  | None => {| cid := cid c; cq := cq c; cl := cl c; cm := of_latch sl (cl c) |}
  end.

Definition lstep (by_copy : bool) (s : lst) (o : lop) : lst :=
  match o with
  | LDqt slot t => {| slots := set_nth slot (Some t) (slots s); comps := comps s |}
  | LScan cs => {| slots := slots s; comps := map (latch_comp by_copy (slots s) cs) (comps s) |}
  | LData => s
  | LStartOutput => {| slots := slots s; comps := map (build_comp (slots s)) (comps s) |}
  end.

Definition lrun (by_copy : bool) (ops : list lop) (s : lst) : lst := fold_left (lstep by_copy) ops s.

(* the input side alone *)
Definition lstrip (ops : list lop) : list lop :=
  filter (fun o => match o with LStartOutput => false | _ => true end) ops.

(* multiplier tables used by the final output pass *)
Definition final_tables (by_copy : bool) (ops : list lop) (s : lst) : list (option (list Z)) :=
  map cm (comps (lrun by_copy (ops ++ [LStartOutput]) s)).

Definition lfresh (s : lst) : Prop := Forall (fun c => cl c = NotLatched /\ cm c = None) (comps s).

Definition linit (qnos : list nat) : lst :=
  {| slots := [None; None; None; None];
     comps := map (fun iq => {| cid := fst iq; cq := snd iq; cl := NotLatched; cm := None |}) (combine (seq 0 (length qnos)) qnos) |}.
