(* Seq.v -- executable model of the sequential Huffman entropy coder of
   libjpeg-turbo over bit lists, and of the byte/segment layer shared by all
   Huffman scan types:
     jchuff.c  encode_one_block (DC difference: category + extra bits; AC
               run/size symbols, ZRL 0xF0, EOB 0x00, the unrolled zigzag),
               encode_mcu_huff (last_dc_val per component), flush_bits
               (1-padding), EMIT_BYTE (0xFF 0x00 stuffing), emit_restart
               (RSTn, n mod 8, predictor reset)
     jdhuff.c  decode_mcu_slow/fast (HUFF_DECODE, GET_BITS, HUFF_EXTEND,
               jpeg_natural_order[k] stores, k += 15 on ZRL), process_restart,
               jpeg_fill_bit_buffer (unstuffing, stop at a marker)
   The Huffman code itself is abstract: a [codec] is an encoder/decoder pair
   together with the proof that the decoder inverts the encoder in front of any
   continuation (what a prefix code gives).  No proofs here.
   Conventions: a block is a list of 64 coefficients in NATURAL order (the C
   JBLOCK); bits are MSB first; C ints are unbounded Z. *)
From Coq Require Import List ZArith Bool Lia.
From LJT Require Import model.Huff.
Import ListNotations.
Local Open Scope Z_scope.

(* ------------------------------------------------------------ zigzag order *)
(* jutils.c jpeg_natural_order[DCTSIZE2 + 16]; proofs/SeqProofs.v proves it equal
   to the literal regenerated from the source on every run (gen/GenNatOrder.v) *)
Definition natural_order : list nat :=
  [ 0;  1;  8; 16;  9;  2;  3; 10; 17; 24; 32; 25; 18; 11;  4;  5;
   12; 19; 26; 33; 40; 48; 41; 34; 27; 20; 13;  6;  7; 14; 21; 28;
   35; 42; 49; 56; 57; 50; 43; 36; 29; 22; 15; 23; 30; 37; 44; 51;
   58; 59; 52; 45; 38; 31; 39; 46; 53; 60; 61; 54; 47; 55; 62; 63;
   63; 63; 63; 63; 63; 63; 63; 63; 63; 63; 63; 63; 63; 63; 63; 63 ]%nat.

Definition order (k : nat) : nat := nth k natural_order 63%nat.

(* the block in zigzag order: what the kloop sequence reads *)
Definition zz_of (b : list Z) : list Z := map (fun i => nth i b 0) (firstn 64 natural_order).

(* ------------------------------------------------------------------ codec *)
Record codec := {
  c_enc : Z -> option (list bool);              (* None: ehufsi[sym] = 0 *)
  c_dec : list bool -> option (Z * list bool);  (* None: out of bits / bad code *)
  c_ok  : forall s bs rest, c_enc s = Some bs -> c_dec (bs ++ rest) = Some (s, rest)
}.

(* ------------------------------------------------ magnitude ("extra") bits *)
(* encoder: "temp += sign; PUT_CODE masks the low nbits bits" i.e. the low nb
   bits of v (v >= 0) or of v - 1 (v < 0), two's complement *)
Definition mag_bits (v nb : Z) : list bool :=
  bits_of (Z.to_nat nb) (if v <? 0 then v - 1 else v).

(* jdphuff.c / table form of HUFF_EXTEND: x < 2^(s-1) ? x + ((-1) << s) + 1 : x *)
Definition huff_extend (x s : Z) : Z := if x <? 2 ^ (s - 1) then x + (- (2 ^ s)) + 1 else x.

(* jdhuff.c branch-free form:
   x + (((x - (1 << (s-1))) >> 31) & (((unsigned)-1 << s) + 1))  on 32-bit ints *)
Definition huff_extend_branchless (x s : Z) : Z :=
  x + Z.land (Z.shiftr (x - Z.shiftl 1 (s - 1)) 31) (Z.shiftl (-1) s + 1).

(* GET_BITS(n) *)
Definition get_bits (n : Z) (bs : list bool) : option (Z * list bool) := take_code (Z.to_nat n) bs 0.

Fixpoint rep_bits (n : nat) (c : list bool) : list bool :=
  match n with O => [] | S k => c ++ rep_bits k c end.

(* ----------------------------------------------------- one block, encoder *)
Section Block.
Variable dc ac : codec.
Variable max_coef_bits : Z.          (* cinfo->data_precision + 2 *)

(* the kloop sequence from zigzag position k on; r = zeros seen since the last
   symbol (the C counts r in steps of 16 and loops "while (r >= 256) ZRL";
   here the loop is folded into r / 16 ZRL codes and the run r mod 16).
   Returns the bits and the final run. *)
Fixpoint enc_band (l : list Z) (r : Z) : option (list bool * Z) :=
  match l with
  | [] => Some ([], r)
  | v :: t =>
      if v =? 0 then enc_band t (r + 1)
      else
        let nb := nbits (Z.abs v) in
        if nb >? max_coef_bits then None            (* JERR_BAD_DCT_COEF *)
        else
          match (if r >=? 16 then c_enc ac 240 else Some []),
                c_enc ac ((r mod 16) * 16 + nb), enc_band t 0 with
          | Some z, Some c, Some (rest, r') =>
              Some (rep_bits (Z.to_nat (r / 16)) z ++ c ++ mag_bits v nb ++ rest, r')
          | _, _, _ => None
          end
  end.

(* "if (r > 0) PUT_BITS(actbl->ehufco[0], actbl->ehufsi[0])" *)
Definition enc_ac (l : list Z) : option (list bool) :=
  match enc_band l 0 with
  | None => None
  | Some (bits, r) =>
      if r >? 0 then match c_enc ac 0 with None => None | Some e => Some (bits ++ e) end
      else Some bits
  end.

Definition enc_dc_diff (d : Z) (extra : Z) : option (list bool) :=
  let nb := nbits (Z.abs d) in
  if nb >? max_coef_bits + extra then None
  else match c_enc dc nb with None => None | Some c => Some (c ++ mag_bits d nb) end.

Definition enc_block (last_dc : Z) (b : list Z) : option (list bool) :=
  match enc_dc_diff (nth 0%nat b 0 - last_dc) 1, enc_ac (skipn 1 (zz_of b)) with
  | Some d, Some a => Some (d ++ a)
  | _, _ => None
  end.

(* ----------------------------------------------------- one block, decoder *)
(* "for (k = 1; k < DCTSIZE2; k++) { HUFF_DECODE; r = s >> 4; s &= 15; ... }" *)
Fixpoint dec_ac (fuel : nat) (k : nat) (blk : list Z) (bs : list bool) : option (list Z * list bool) :=
  match fuel with
  | O => None
  | S f =>
      if (64 <=? k)%nat then Some (blk, bs)
      else
        match c_dec ac bs with
        | None => None
        | Some (sym, bs1) =>
            let r := sym / 16 in
            let s := sym mod 16 in
            if s =? 0 then
              if r =? 15 then dec_ac f (k + 16)%nat blk bs1    (* k += 15; k++ *)
              else Some (blk, bs1)                             (* break *)
            else
              let k' := (k + Z.to_nat r)%nat in
              match get_bits s bs1 with
              | None => None
              | Some (x, bs2) => dec_ac f (S k') (upd (order k') (huff_extend x s) blk) bs2
              end
        end
  end.

Definition dec_dc_diff (bs : list bool) : option (Z * list bool) :=
  match c_dec dc bs with
  | None => None
  | Some (s, bs1) =>
      if s =? 0 then Some (0, bs1)
      else match get_bits s bs1 with
           | None => None
           | Some (x, bs2) => Some (huff_extend x s, bs2)
           end
  end.

(* the block area is zeroed by the caller (jdcoefct.c jzero_far) *)
Definition dec_block (last_dc : Z) (bs : list bool) : option (list Z * list bool) :=
  match dec_dc_diff bs with
  | None => None
  | Some (d, bs1) => dec_ac 64 1 (upd 0 (d + last_dc) (repeat 0 64)) bs1
  end.
End Block.

(* ------------------------------------------------------------- MCU level *)
(* membership : component index (within the scan) of each block of an MCU
   (cinfo->MCU_membership); an MCU is the list of its blocks; dct/act give the
   derived table of each scan component; ldc = last_dc_val[] *)
Section Mcu.
Variable dct act : nat -> codec.
Variable max_coef_bits : Z.

Fixpoint enc_mcu (mem : list nat) (blocks : list (list Z)) (ldc : list Z) : option (list bool * list Z) :=
  match mem, blocks with
  | [], [] => Some ([], ldc)
  | ci :: mt, b :: bt =>
      match enc_block (dct ci) (act ci) max_coef_bits (nthZ ldc ci) b with
      | None => None
      | Some bits =>
          match enc_mcu mt bt (upd ci (nth 0%nat b 0) ldc) with
          | None => None
          | Some (rest, ldc') => Some (bits ++ rest, ldc')
          end
      end
  | _, _ => None
  end.

Fixpoint dec_mcu (mem : list nat) (ldc : list Z) (bs : list bool) : option (list (list Z) * list Z * list bool) :=
  match mem with
  | [] => Some ([], ldc, bs)
  | ci :: mt =>
      match dec_block (dct ci) (act ci) (nthZ ldc ci) bs with
      | None => None
      | Some (b, bs1) =>
          match dec_mcu mt (upd ci (nth 0%nat b 0) ldc) bs1 with
          | None => None
          | Some (bl, ldc', bs2) => Some (b :: bl, ldc', bs2)
          end
      end
  end.

(* all MCUs of one restart interval *)
Fixpoint enc_mcus (mem : list nat) (ms : list (list (list Z))) (ldc : list Z) : option (list bool) :=
  match ms with
  | [] => Some []
  | m :: t =>
      match enc_mcu mem m ldc with
      | None => None
      | Some (bits, ldc') =>
          match enc_mcus mem t ldc' with None => None | Some rest => Some (bits ++ rest) end
      end
  end.

Fixpoint dec_mcus (mem : list nat) (n : nat) (ldc : list Z) (bs : list bool)
  : option (list (list (list Z)) * list bool) :=
  match n with
  | O => Some ([], bs)
  | S k =>
      match dec_mcu mem ldc bs with
      | None => None
      | Some (m, ldc', bs1) =>
          match dec_mcus mem k ldc' bs1 with
          | None => None
          | Some (ml, bs2) => Some (m :: ml, bs2)
          end
      end
  end.
End Mcu.

(* ----------------------------------------------- bits <-> bytes, stuffing *)
Fixpoint byte_val (l : list bool) (acc : Z) : Z :=
  match l with [] => acc | b :: t => byte_val t (2 * acc + b2z b) end.

(* flush_bits: "fill partial byte with ones" *)
Definition pad8 (l : list bool) : list bool := l ++ repeat true (8 - length l).

Fixpoint pack (fuel : nat) (bs : list bool) : list Z :=
  match fuel with
  | O => []
  | S f => match bs with
           | [] => []
           | _ => byte_val (pad8 (firstn 8 bs)) 0 :: pack f (skipn 8 bs)
           end
  end.

(* EMIT_BYTE: 0xFF is followed by a stuffed 0x00 *)
Fixpoint stuff (l : list Z) : list Z :=
  match l with
  | [] => []
  | b :: t => if b =? 255 then 255 :: 0 :: stuff t else b :: stuff t
  end.

Definition seg_bytes (bits : list bool) : list Z := stuff (pack (length bits) bits).

(* jpeg_fill_bit_buffer: data bytes up to (not including) the next marker, with
   FF 00 -> FF; returns (data bytes, rest starting at the marker's FF) *)
Fixpoint load_seg (l : list Z) : list Z * list Z :=
  match l with
  | [] => ([], [])
  | b :: t =>
      if b =? 255 then
        match t with
        | 0 :: t' => let (d, r) := load_seg t' in (255 :: d, r)
        | _ => ([], l)
        end
      else let (d, r) := load_seg t in (b :: d, r)
  end.

Definition unpack (bytes : list Z) : list bool := flat_map (bits_of 8) bytes.

(* ------------------------------------------------ restart-interval layer *)
(* Generic over the unit M the scan type codes per MCU and over what the
   decoder is given per MCU (D: nothing for sequential scans, the current
   coefficient state for progressive scans).  enc_seg / dec_seg code ONE
   restart interval starting from the reset state (emit_restart /
   process_restart reset last_dc_val, EOBRUN, BE on both sides); the encoder's
   end-of-interval flush (pending EOBRUN) is part of enc_seg.
   Ri = 0: no restarts.  RSTn numbering: next_restart_num starts at 0 and is
   incremented "& 7" (jchuff.c), checked by read_restart_marker (jdmarker.c). *)
Section Scan.
Variables M D R : Type.
Variable enc_seg : list M -> option (list bool).
Variable dec_seg : list D -> list bool -> option (list R * list bool).

Definition seg_take {A} (Ri : nat) (l : list A) : list A := match Ri with O => l | _ => firstn Ri l end.
Definition seg_drop {A} (Ri : nat) (l : list A) : list A := match Ri with O => [] | _ => skipn Ri l end.

Fixpoint enc_segs (fuel Ri : nat) (n : Z) (ms : list M) : option (list Z) :=
  match fuel with
  | O => None
  | S f =>
      match enc_seg (seg_take Ri ms) with
      | None => None
      | Some bits =>
          match seg_drop Ri ms with
          | [] => Some (seg_bytes bits)
          | nxt => match enc_segs f Ri ((n + 1) mod 8) nxt with
                   | None => None
                   | Some rest => Some (seg_bytes bits ++ [255; 208 + n] ++ rest)
                   end
          end
      end
  end.

Definition enc_scan (Ri : nat) (ms : list M) : option (list Z) := enc_segs (S (length ms)) Ri 0 ms.

Fixpoint dec_segs (fuel Ri : nat) (n : Z) (ds : list D) (bytes : list Z) : option (list R) :=
  match fuel with
  | O => None
  | S f =>
      let (data, rest) := load_seg bytes in
      match dec_seg (seg_take Ri ds) (unpack data) with
      | None => None
      | Some (rs, _) =>                       (* process_restart: bits_left = 0 *)
          match seg_drop Ri ds with
          | [] => Some rs
          | nxt =>
              match rest with
              | 255 :: m :: rest' =>
                  if m =? 208 + n then
                    match dec_segs f Ri ((n + 1) mod 8) nxt rest' with
                    | None => None
                    | Some more => Some (rs ++ more)
                    end
                  else None                   (* jdmarker.c would try to resync *)
              | _ => None
              end
          end
      end
  end.

Definition dec_scan (Ri : nat) (ds : list D) (bytes : list Z) : option (list R) :=
  dec_segs (S (length ds)) Ri 0 ds bytes.
End Scan.

(* --------------------------------------------------- the sequential scan *)
(* ncomp = comps_in_scan (length of last_dc_val[] that is reset) *)
Definition seq_enc_scan (dct act : nat -> codec) (mcb : Z) (mem : list nat) (ncomp Ri : nat)
           (ms : list (list (list Z))) : option (list Z) :=
  enc_scan _ (fun seg => enc_mcus dct act mcb mem seg (repeat 0 ncomp)) Ri ms.

Definition seq_dec_scan (dct act : nat -> codec) (mem : list nat) (ncomp Ri : nat)
           (nmcu : nat) (bytes : list Z) : option (list (list (list Z))) :=
  dec_scan unit _ (fun seg bs => dec_mcus dct act mem (length seg) (repeat 0 ncomp) bs)
           Ri (repeat tt nmcu) bytes.
