(* C18 -- executable model of the PPM/PGM reader (src/rdppm.c), of the PPM/PGM
   writer (src/wrppm.c) and of the row placement of tj3LoadImage*/tj3SaveImage*
   (src/turbojpeg-mp.c).  No proofs here.

   A file is a list of bytes (Z in 0..255); getc = head of the list.
   Facts read from the current source by tools/gen_Pnm.py (gen/GenPnm.v) select
   the code variants: which `val > maxval` tests read_pbm_integer has, the size
   of rescale[], whether 16-bit samples are range-checked, when the raw-byte
   readers copy bytes unscaled, which scale rgb_to_cmyk gets, the byte order of
   the 16-bit writer, and the sample offsets of the 12 pixel formats.

   rgb_to_cmyk / cmyk_to_rgb (cmyk.h) work in double arithmetic; they are
   parameters of the model (Section variables). *)
From Coq Require Import List ZArith Bool.
From LJT Require Import gen.GenPnm.
Import ListNotations.
Local Open Scope Z_scope.

Inductive perr :=
| E_EOF        (* JERR_INPUT_EOF *)
| E_NONNUM     (* JERR_PPM_NONNUMERIC *)
| E_RANGE      (* JERR_PPM_OUTOFRANGE *)
| E_NOTPPM     (* JERR_PPM_NOT *)
| E_TOOBIG     (* JERR_IMAGE_TOO_BIG *)
| E_BADCS      (* JERR_BAD_IN_COLORSPACE *)
| E_OOB        (* NOT a C error: rescale[] indexed outside its allocation *)
| E_FUEL.      (* NOT a C error: the model ran out of fuel *)

Inductive res (A : Type) := Ok (a : A) | Err (e : perr).
Arguments Ok {A} a.
Arguments Err {A} e.

Definition bind {A B} (r : res A) (f : A -> res B) : res B :=
  match r with Ok a => f a | Err e => Err e end.
Notation "'let!' x ':=' r 'in' k" := (bind r (fun x => k))
  (at level 200, x pattern, r at level 100, k at level 200).

Definition two_p (n : Z) : Z := 2 ^ n.
Definition u32 (x : Z) : Z := x mod 4294967296.

(* ------------------------------------------------------------ pbm_getc *)
(* do { ch = getc } while (ch != '\n' && ch != EOF) *)
Fixpoint skip_comment (s : list Z) : option Z * list Z :=
  match s with
  | [] => (None, [])
  | c :: t => if c =? 10 then (Some 10, t) else skip_comment t
  end.

Definition pbm_getc (s : list Z) : option Z * list Z :=
  match s with
  | [] => (None, [])
  | c :: t => if c =? 35 then skip_comment t else (Some c, t)
  end.

(* ---------------------------------------------------- read_pbm_integer *)
Definition is_ws (c : Z) : bool := (c =? 32) || (c =? 9) || (c =? 10) || (c =? 13).
Definition is_digit (c : Z) : bool := (48 <=? c) && (c <=? 57).

(* do { ch = pbm_getc; if EOF error } while (whitespace) : first non-blank char *)
Fixpoint skip_ws (fuel : nat) (s : list Z) : res (Z * list Z) :=
  match fuel with
  | O => Err E_FUEL
  | S f =>
    match pbm_getc s with
    | (None, _) => Err E_EOF
    | (Some ch, s') => if is_ws ch then skip_ws f s' else Ok (ch, s')
    end
  end.

(* while ((ch = pbm_getc) is a digit) { val *= 10; val += ch - '0'; if (val > maxval) error }
   [if (val > maxval) error]  -- val is an unsigned int: u32 *)
Fixpoint read_digits (fuel : nat) (val maxval : Z) (s : list Z) : res (Z * list Z) :=
  match fuel with
  | O => Err E_FUEL
  | S f =>
    match pbm_getc s with
    | (Some ch, s') =>
      if is_digit ch then
        let val' := u32 (u32 (val * 10) + (ch - 48)) in
        if rpi_check_in_loop && (val' >? maxval) then Err E_RANGE
        else read_digits f val' maxval s'
      else if rpi_check_after_loop && (val >? maxval) then Err E_RANGE else Ok (val, s')
    | (None, s') =>
      if rpi_check_after_loop && (val >? maxval) then Err E_RANGE else Ok (val, s')
    end
  end.

Definition read_pbm_integer (maxval : Z) (s : list Z) : res (Z * list Z) :=
  let fuel := S (length s) in
  let! (ch, s1) := skip_ws fuel s in
  if negb (is_digit ch) then Err E_NONNUM
  else read_digits fuel (ch - 48) maxval s1.

(* ---------------------------------------------------------- rescale[] *)
Definition maxsample (prec : Z) : Z := two_p prec - 1.

Definition rescale_val (prec maxval v : Z) : Z :=
  (v * maxsample prec + maxval / 2) / maxval.

Definition table_len (maxval : Z) : Z := Z.max maxval rescale_floor + rescale_extra.

(* memset(0) then  for (val = 0; val <= maxval; val++) rescale[val] = ...  *)
Definition table_entry (prec maxval v : Z) : Z :=
  if (if rescale_loop_inclusive then v <=? maxval else v <? maxval)
  then rescale_val prec maxval v else 0.

Fixpoint zseq (lo : Z) (n : nat) : list Z :=
  match n with O => [] | S k => lo :: zseq (lo + 1) k end.

Definition build_table (prec maxval : Z) : list Z :=
  map (table_entry prec maxval) (zseq 0 (Z.to_nat (table_len maxval))).

(* rescale[i] through the table: an index outside the allocation is E_OOB *)
Definition look_tbl (prec maxval : Z) (i : Z) : res Z :=
  if i <? 0 then Err E_OOB else
  match nth_error (build_table prec maxval) (Z.to_nat i) with
  | Some v => Ok v
  | None => Err E_OOB
  end.

(* the same access without materialising the table (used by the extracted model;
   proofs/PnmProofs.look_fn_tbl shows the two agree on every index) *)
Definition look_fn (prec maxval : Z) (i : Z) : res Z :=
  if (0 <=? i) && (i <? table_len maxval) then Ok (table_entry prec maxval i) else Err E_OOB.

(* ------------------------------------------------------------- targets *)
(* sample offsets of an RGB-family pixel; l_a = -1 : no alpha sample *)
Record layout := { l_r : Z; l_g : Z; l_b : Z; l_a : Z; l_ps : Z }.

Inductive target := TGray | TRgb (l : layout) | TCmyk.

Definition layout_of_pf (pf : Z) : option target :=
  match nth_error pf_layouts (Z.to_nat pf) with
  | Some (r, g, b, a, ps) =>
    if pf =? 6 then Some TGray
    else if pf =? 11 then Some TCmyk
    else Some (TRgb {| l_r := r; l_g := g; l_b := b; l_a := a; l_ps := ps |})
  | None => None
  end.

(* positions the C code does not write (the X of RGBX) are 0 in the model; the
   harness masks them *)
Definition mk_pixel (l : layout) (r g b a : Z) : list Z :=
  map (fun i => if i =? l_r l then r else if i =? l_g l then g else if i =? l_b l then b
                else if i =? l_a l then a else 0)
      (zseq 0 (Z.to_nat (l_ps l))).

Definition target_ps (t : target) : Z :=
  match t with TGray => 1 | TRgb l => l_ps l | TCmyk => 4 end.

(* ----------------------------------------------------------- row readers *)
Inductive skind := KText | KByte | KWord.

Record pnm_hdr := { h_rgb : bool;      (* P3/P6 *)
                    h_kind : skind;
                    h_w : Z; h_h : Z; h_max : Z }.

Section Readers.
  (* rgb_to_cmyk(scale, r, g, b) = [c; m; y; k] *)
  Variable cmyk : Z -> Z -> Z -> Z -> list Z.
  (* rescale[] access *)
  Variable look : Z -> Z -> Z -> res Z.

  Variable prec : Z.

  (* one raw sample from the text stream / from the row buffer *)
  Definition get_raw (k : skind) (maxval : Z) (s : list Z) : res (Z * list Z) :=
    match k with
    | KText => read_pbm_integer maxval s
    | KByte => match s with b :: t => Ok (b, t) | [] => Err E_EOF end
    | KWord =>
      match s with
      | b0 :: b1 :: t =>
        let temp := b0 * 256 + b1 in   (* UCH(b0) << 8 | UCH(b1) *)
        if word_check && (temp >? maxval) then Err E_RANGE else Ok (temp, t)
      | _ => Err E_EOF
      end
    end.

  (* does this reader copy the file value unscaled?
     text -> gray always goes through rescale[]; text -> RGB/CMYK and the byte
     readers have a branch for maxval == (1U << precision) - 1U; the word
     readers always rescale *)
  Definition is_fast (k : skind) (t : target) (maxval : Z) : bool :=
    match k with
    | KWord => false
    | KText => match t with TGray => false | _ => maxval =? maxsample prec end
    | KByte => (maxval =? maxsample prec) && (if byte_fast_needs_255 then maxval =? 255 else true)
    end.

  Definition get_sample (k : skind) (fast : bool) (maxval : Z) (s : list Z) : res (Z * list Z) :=
    let! (v, s1) := get_raw k maxval s in
    if fast then Ok (v, s1) else let! x := look prec maxval v in Ok (x, s1).

  Definition cmyk_scale (fast : bool) (maxval : Z) : Z :=
    if fast then maxval else if cmyk_scale_by_prec then maxsample prec else maxval.

  Definition read_pixel (hd : pnm_hdr) (t : target) (fast : bool) (s : list Z) : res (list Z * list Z) :=
    let k := h_kind hd in
    let mv := h_max hd in
    if h_rgb hd then
      match t with
      | TGray => Err E_BADCS
      | TRgb l =>
        let! (r, s1) := get_sample k fast mv s in
        let! (g, s2) := get_sample k fast mv s1 in
        let! (b, s3) := get_sample k fast mv s2 in
        Ok (mk_pixel l r g b (maxsample prec), s3)
      | TCmyk =>
        let! (r, s1) := get_sample k fast mv s in
        let! (g, s2) := get_sample k fast mv s1 in
        let! (b, s3) := get_sample k fast mv s2 in
        Ok (cmyk (cmyk_scale fast mv) r g b, s3)
      end
    else
      let! (g, s1) := get_sample k fast mv s in
      match t with
      | TGray => Ok ([g], s1)
      | TRgb l => Ok (mk_pixel l g g g (maxsample prec), s1)
      | TCmyk => Ok (cmyk (cmyk_scale fast mv) g g g, s1)
      end.

  Fixpoint read_pixels (hd : pnm_hdr) (t : target) (fast : bool) (n : nat) (s : list Z) : res (list Z * list Z) :=
    match n with
    | O => Ok ([], s)
    | S m =>
      let! (px, s1) := read_pixel hd t fast s in
      let! (r, s2) := read_pixels hd t fast m s1 in
      Ok (px ++ r, s2)
    end.

  (* ReadOK(file, iobuffer, buffer_width) *)
  Fixpoint take_exact (n : nat) (s : list Z) : option (list Z * list Z) :=
    match n with
    | O => Some ([], s)
    | S m => match s with
             | [] => None
             | c :: t => match take_exact m t with Some (a, r) => Some (c :: a, r) | None => None end
             end
    end.

  Definition buffer_width (hd : pnm_hdr) : Z :=
    h_w hd * (if h_rgb hd then 3 else 1) * (match h_kind hd with KWord => 2 | _ => 1 end).

  Definition read_row (hd : pnm_hdr) (t : target) (s : list Z) : res (list Z * list Z) :=
    let fast := is_fast (h_kind hd) t (h_max hd) in
    match h_kind hd with
    | KText => read_pixels hd t fast (Z.to_nat (h_w hd)) s
    | _ =>
      match take_exact (Z.to_nat (buffer_width hd)) s with
      | None => Err E_EOF
      | Some (buf, rest) =>
        let! (row, _) := read_pixels hd t fast (Z.to_nat (h_w hd)) buf in
        Ok (row, rest)
      end
    end.

  Fixpoint read_rows (hd : pnm_hdr) (t : target) (n : nat) (s : list Z) : res (list (list Z)) :=
    match n with
    | O => Ok []
    | S m =>
      let! (row, s1) := read_row hd t s in
      let! rows := read_rows hd t m s1 in
      Ok (row :: rows)
    end.

  (* ------------------------------------------------------ start_input_ppm *)
  Definition read_header (maxpixels : Z) (s : list Z) : res (pnm_hdr * list Z) :=
    match s with
    | 80 :: c :: s0 =>
      if (c =? 50) || (c =? 51) || (c =? 53) || (c =? 54) then
        let! (w, s1) := read_pbm_integer hdr_limit s0 in
        let! (h, s2) := read_pbm_integer hdr_limit s1 in
        let! (mv, s3) := read_pbm_integer hdr_limit s2 in
        if (w <=? 0) || (h <=? 0) || (mv <=? 0) then Err E_NOTPPM
        else if negb (maxpixels =? 0) && (w * h >? maxpixels) then Err E_TOOBIG
        else
          let rgb := (c =? 51) || (c =? 54) in
          let kind := if (c =? 50) || (c =? 51) then KText
                      else if mv >? 255 then KWord else KByte in
          Ok ({| h_rgb := rgb; h_kind := kind; h_w := w; h_h := h; h_max := mv |}, s3)
      else Err E_NOTPPM
    | _ => Err E_NOTPPM
    end.

  (* in_color_space after the switch in start_input_ppm; None = TJPF_UNKNOWN *)
  Definition resolve_target (hd : pnm_hdr) (want : option target) : res target :=
    match want with
    | None => Ok (if h_rgb hd then
                    TRgb {| l_r := 0; l_g := 1; l_b := 2; l_a := -1; l_ps := 3 |}   (* JCS_EXT_RGB *)
                  else TGray)
    | Some TGray => if h_rgb hd then Err E_BADCS else Ok TGray
    | Some t => Ok t
    end.

  (* tj3LoadImage*: rows are stored top-down, or bottom-up when TJPARAM_BOTTOMUP
     (invert = this->bottomUp for PPM).  Result: width, height, target, rows in
     buffer order. *)
  Definition load_pnm (maxpixels : Z) (want : option target) (bottomup : bool) (s : list Z)
    : res (Z * Z * target * list (list Z)) :=
    let! (hd, s1) := read_header maxpixels s in
    let! t := resolve_target hd want in
    let! rows := read_rows hd t (Z.to_nat (h_h hd)) s1 in
    Ok (h_w hd, h_h hd, t, if bottomup then rev rows else rows).
End Readers.

(* ------------------------------------------------------------- wrppm.c *)
(* fprintf("%ld") *)
Fixpoint dec_rev (fuel : nat) (n : Z) : list Z :=
  match fuel with
  | O => []
  | S f => if n <? 10 then [48 + n] else (48 + n mod 10) :: dec_rev f (n / 10)
  end.
Definition dec (n : Z) : list Z := rev (dec_rev 20 n).

(* PUTPPMSAMPLE: one byte when BITS_IN_JSAMPLE == 8 (precision 2..8), else two *)
Definition put_sample (prec v : Z) : list Z :=
  if prec <=? 8 then [v mod 256]
  else if word_hi_first then [(v / 256) mod 256; v mod 256]
  else [v mod 256; (v / 256) mod 256].

Section Writer.
  (* cmyk_to_rgb(maxval, c, m, y, k) = (r, g, b) *)
  Variable uncmyk : Z -> Z -> Z -> Z -> Z -> (Z * Z * Z).
  Variable prec : Z.

  Definition nthz (l : list Z) (i : Z) : Z := nth (Z.to_nat i) l 0.

  Definition write_pixel (t : target) (px : list Z) : list Z :=
    match t with
    | TGray => put_sample prec (nthz px 0)
    | TRgb l => put_sample prec (nthz px (l_r l)) ++ put_sample prec (nthz px (l_g l)) ++ put_sample prec (nthz px (l_b l))
    | TCmyk =>
      let '(r, g, b) := uncmyk (maxsample prec) (nthz px 0) (nthz px 1) (nthz px 2) (nthz px 3) in
      put_sample prec r ++ put_sample prec g ++ put_sample prec b
    end.

  Fixpoint write_row (t : target) (n : nat) (row : list Z) : list Z :=
    match n with
    | O => []
    | S m =>
      let ps := Z.to_nat (target_ps t) in
      write_pixel t (firstn ps row) ++ write_row t m (skipn ps row)
    end.

  (* start_output_ppm: "P5\n%ld %ld\n%d\n" / "P6..." *)
  Definition ppm_header (t : target) (w h : Z) : list Z :=
    [80; match t with TGray => 53 | _ => 54 end; 10] ++ dec w ++ [32] ++ dec h ++ [10]
    ++ dec (maxsample prec) ++ [10].

  (* tj3SaveImage*: buffer rows top-down, or bottom-up when TJPARAM_BOTTOMUP *)
  Definition save_pnm (t : target) (bottomup : bool) (w h : Z) (rows : list (list Z)) : list Z :=
    ppm_header t w h ++
    flat_map (write_row t (Z.to_nat w)) (if bottomup then rev rows else rows).
End Writer.

(* exact-arithmetic counterparts of cmyk.h (no rounding error); used only for
   Examples, the extracted model gets the double versions from the driver *)
Definition cmyk_exact (m r g b : Z) : list Z :=
  let x := Z.max r (Z.max g b) in
  if x =? 0 then [m; m; m; 0]
  else [(2 * m * r + x) / (2 * x); (2 * m * g + x) / (2 * x); (2 * m * b + x) / (2 * x); x].
