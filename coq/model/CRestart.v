(* CRestart.v -- restart intervals across the scans of one image (jcmaster.c per_scan_setup recomputes
   restart_interval for EVERY scan from restart_in_rows; jcmarker.c write_scan_header decides when a DRI
   marker is written) and the row accounting of jpeg_write_raw_data (jcapistd.c). *)
From Coq Require Import List ZArith Bool Lia.
From LJT Require Import model.Huff gen.GenParams model.CParams.
Import ListNotations.
Local Open Scope Z_scope.

(* the restart interval each scan of the image is encoded with, in script order *)
Fixpoint scan_intervals (c : cfg) (lossless : bool) (u : setup) (ri : Z) (l : list (Z * list Z)) : M (list Z) :=
  match l with
  | [] => ret []
  | (n, cur) :: r =>
      i <- per_scan_setup (f_width c) (f_height c) lossless u n cur ri (f_restart_in_rows c) ;;
      rest <- scan_intervals c lossless u (i_restart_interval i) r ;;
      ret (i_restart_interval i :: rest)
  end.
Definition image_intervals (c : cfg) (t : started) : M (list Z) :=
  scan_intervals c (t_lossless t) (t_setup t) (f_restart_interval c) (scans_of c (t_ncomp t)).

(* write_scan_header: last = marker->last_restart_interval (0 after SOI); returns (DRI written?, new last) *)
Definition dri_step (last ri : Z) : bool * Z :=
  let emit := if g_DRI_RULE =? 1 then negb (ri =? last) else negb (ri =? 0) && (last =? 0) in
  if emit then (true, ri) else (false, last).

(* the decoder's view: the interval in force is the last DRI of the stream (none = 0).
   true = at every SOS the interval in force equals the one the scan is encoded with *)
Fixpoint dri_run (last inforce : Z) (intervals : list Z) : bool :=
  match intervals with
  | [] => true
  | ri :: r => let '(emit, last') := dri_step last ri in
               let inforce' := if emit then ri else inforce in
               (inforce' =? ri) && dri_run last' inforce' r
  end.

(* the documented caller loop of jpeg_write_raw_data: offer num_lines >= lines_per_iMCU_row until
   next_scanline reaches image_height; each call encodes ONE iMCU row.  Result: number of iMCU rows encoded *)
Fixpoint raw_loop (fuel : nat) (next height lines num_lines : Z) : option Z :=
  if next >=? height then Some 0
  else match fuel with
       | O => None
       | S k => match raw_loop k (next + (if g_RAW_ADVANCE =? 1 then lines else num_lines)) height lines num_lines with
                | Some n => Some (n + 1)
                | None => None
                end
       end.
