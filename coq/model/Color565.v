(* C10 round 3 -- more of the colour code inside the model:
   * prepare_range_limit_table of jdmaster.c (interpreted from the generated segment list),
   * jdcol565.c: the six RGB565 output converters (packing, ordered dithering, the alignment branch, the pair
     loop, the odd tail, and num_cols / d0 carried from row to row exactly as the C text does),
   * cmyk_ycck_convert (jccolor.c) and ycck_cmyk_convert (jdcolor.c).
   Memory is a flat list of samples (8-bit: bytes); `base` is the address of element 0 modulo 4. *)
From Coq Require Import List ZArith Bool.
From LJT Require Import gen.GenLayouts model.Color.
Import ListNotations.
Local Open Scope Z_scope.

(* ------------------------------------------------------------------ range-limit table *)
Definition rl_start (M C : Z) (e : Z * Z * Z * Z * Z) : Z := let '(_, a, c, _, _) := e in a * (M + 1) + c * C.
Definition rl_len (M C : Z) (e : Z * Z * Z * Z * Z) : Z := let '(_, _, _, la, lc) := e in la * (M + 1) + lc * C.
Definition rl_kind (e : Z * Z * Z * Z * Z) : Z := let '(k, _, _, _, _) := e in k.

(* value stored at index i (relative to sample_range_limit) by the statements executed so far *)
Fixpoint rl_eval (M C : Z) (ops : list (Z * Z * Z * Z * Z)) (done : Z -> option Z) (i : Z) : option Z :=
  match ops with
  | [] => done i
  | e :: t =>
      let s := rl_start M C e in let n := rl_len M C e in
      let done' := fun j =>
        if (s <=? j) && (j <? s + n) then
          (if rl_kind e =? 0 then Some 0
           else if rl_kind e =? 1 then Some j
           else if rl_kind e =? 2 then Some M
           else done (j - s))            (* memcpy from sample_range_limit[0..) as filled so far *)
        else done j in
      rl_eval M C t done' i
  end.
Definition range_limit_tab (M C : Z) (i : Z) : option Z := rl_eval M C range_limit_ops (fun _ => None) i.
Definition rl (p : sprec) (i : Z) : Z :=
  match range_limit_tab (sp_max p) (sp_center p) i with Some v => v | None => -1 end.

(* ------------------------------------------------------------------ RGB565 *)
Definition z5 (l : list Z) (k : nat) : Z := nth k l 0.
Definition pack565 (be : bool) (r g b : Z) : Z :=
  if be then
    Z.lor (Z.lor (Z.lor (Z.land r (z5 pack565_be 0)) (Z.shiftr g (z5 pack565_be 1)))
                 (Z.land (Z.shiftl g (z5 pack565_be 2)) (z5 pack565_be 3)))
          (Z.land (Z.shiftl b (z5 pack565_be 4)) (z5 pack565_be 5))
  else
    Z.lor (Z.lor (Z.land (Z.shiftl r (z5 pack565_le 0)) (z5 pack565_le 1))
                 (Z.land (Z.shiftl g (z5 pack565_le 2)) (z5 pack565_le 3)))
          (Z.shiftr b (z5 pack565_le 4)).
Definition pack_two (be : bool) (l r : Z) : Z := if be then Z.lor (Z.shiftl l 16) r else Z.lor (Z.shiftl r 16) l.

(* the INT16 store and the int store (WRITE_TWO_ALIGNED_PIXELS) through outptr, in the machine's byte order *)
Definition store16 (be : bool) (buf : list Z) (op v : Z) : list Z :=
  let lo := Z.land v 255 in let hi := Z.land (Z.shiftr v 8) 255 in
  if be then upd (upd buf op hi) (op + 1) lo else upd (upd buf op lo) (op + 1) hi.
Definition store32 (be : bool) (buf : list Z) (op v : Z) : list Z :=
  let b0 := Z.land v 255 in let b1 := Z.land (Z.shiftr v 8) 255 in
  let b2 := Z.land (Z.shiftr v 16) 255 in let b3 := Z.land (Z.shiftr v 24) 255 in
  if be then upd (upd (upd (upd buf op b3) (op + 1) b2) (op + 2) b1) (op + 3) b0
  else upd (upd (upd (upd buf op b0) (op + 1) b1) (op + 2) b2) (op + 3) b3.

Definition dith_r (v d : Z) : Z := v + Z.land d (z5 dither565 0).
Definition dith_g (v d : Z) : Z := v + Z.shiftr (Z.land d (z5 dither565 1)) (z5 dither565 2).
Definition dith_b (v d : Z) : Z := v + Z.land d (z5 dither565 3).
Definition dither_rot (x : Z) : Z :=
  Z.lor (Z.shiftl (Z.land x (z5 dither_rotate 0)) (z5 dither_rotate 1))
        (Z.land (Z.shiftr x (z5 dither_rotate 2)) (z5 dither_rotate 3)).
Definition dither_row (scanline : Z) : Z := nth (Z.to_nat (Z.land scanline DITHER_MASK)) dither_matrix 0.

(* the (r,g,b) handed to PACK_SHORT_565 by each of the six converters; src: 0 ycc, 1 rgb, 2 gray *)
Definition px565 (src : Z) (dith : bool) (d0 : Z) (t : px3) : px3 :=
  let p := prec8 in
  if src =? 0 then
    let ch := chroma p false (c1 t) (c2 t) in
    if dith then (rl p (dith_r (c0 t + c0 ch) d0), rl p (dith_g (c0 t + c1 ch) d0), rl p (dith_b (c0 t + c2 ch) d0))
    else (rl p (c0 t + c0 ch), rl p (c0 t + c1 ch), rl p (c0 t + c2 ch))
  else if src =? 1 then
    if dith then (rl p (dith_r (c0 t) d0), rl p (dith_g (c1 t) d0), rl p (dith_b (c2 t) d0)) else t
  else
    if dith then let g := rl p (dith_r (c0 t) d0) in (g, g, g) else (c0 t, c0 t, c0 t).
Definition pk (be : bool) (t : px3) : Z := pack565 be (c0 t) (c1 t) (c2 t).

(* the pair loop: (num_cols >> 1) iterations, two input pixels each; inputs past the end of the row read 0 *)
Fixpoint pairs565 (be : bool) (src : Z) (dith : bool) (n : nat) (inp : list px3) (buf : list Z) (op d0 : Z)
  : list px3 * list Z * Z * Z :=
  match n with
  | O => (inp, buf, op, d0)
  | S k =>
      let t1 := hd (0, 0, 0) inp in let i1 := tl inp in
      let v1 := pk be (px565 src dith d0 t1) in
      let d1 := if dith then dither_rot d0 else d0 in
      let t2 := hd (0, 0, 0) i1 in let i2 := tl i1 in
      let v2 := pk be (px565 src dith d1 t2) in
      let d2 := if dith then dither_rot d1 else d1 in
      pairs565 be src dith k i2 (store32 be buf op (pack_two be v1 v2)) (op + 4) d2
  end.

(* one iteration of the row loop; returns the buffer and the num_cols / d0 that the NEXT row starts with *)
Definition row565 (be : bool) (src : Z) (dith : bool) (base : Z) (inp : list px3) (buf : list Z) (op ncols d0 : Z)
  : list Z * Z * Z :=
  let '(inp1, buf1, op1, nc1) :=
    if negb (Z.land (base + op) pack_align_mask =? 0) then
      (tl inp, store16 be buf op (pk be (px565 src dith d0 (hd (0, 0, 0) inp))), op + 2, (ncols - 1) mod 2 ^ 32)
    else (inp, buf, op, ncols) in
  let '(inp2, buf2, op2, d2) := pairs565 be src dith (Z.to_nat (Z.shiftr nc1 1)) inp1 buf1 op1 d0 in
  let buf3 := if Z.odd nc1 then store16 be buf2 op2 (pk be (px565 src dith d2 (hd (0, 0, 0) inp2))) else buf2 in
  (buf3, nc1, d2).

(* the row loop of one color_convert call.  reset = is num_cols re-initialised per row (generated fact) *)
Fixpoint rows565 (reset be : bool) (src : Z) (dith : bool) (base w : Z) (img : list (list px3)) (buf : list Z)
  (ptrs : list Z) (ncols d0 : Z) : list Z :=
  match img, ptrs with
  | row :: ri, op :: rp =>
      let '(buf', nc', d') := row565 be src dith base row buf op (if reset then w else ncols) d0 in
      rows565 reset be src dith base w ri buf' rp nc' d'
  | _, _ => buf
  end.
Definition convert565 (be : bool) (src : Z) (dith : bool) (base : Z) (scanline : Z) (w : Z) (img : list (list px3))
  (buf : list Z) (ptrs : list Z) : list Z :=
  rows565 rgb565_numcols_reset_per_row be src dith base w img buf ptrs w (if dith then dither_row scanline else 0).

(* reading a row of 16-bit pixels back *)
Definition load16 (be : bool) (buf : list Z) (op : Z) : Z :=
  if be then rd buf op * 256 + rd buf (op + 1) else rd buf op + rd buf (op + 1) * 256.
Fixpoint cols565 (be : bool) (buf : list Z) (op : Z) (n : nat) : list Z :=
  match n with O => [] | S k => load16 be buf op :: cols565 be buf (op + 2) k end.
Definition unpack565 (be : bool) (buf : list Z) (ptrs : list Z) (w : nat) : list (list Z) :=
  map (fun op => cols565 be buf op w) ptrs.

(* ------------------------------------------------------------------ CMYK <-> YCCK *)
Definition px4 := (Z * Z * Z * Z)%type.
(* cmyk_ycck_convert: r = MAX - RANGE_LIMIT(in[c]) ...; K passes through as is (no RANGE_LIMIT, no cast change) *)
Definition cmyk_ycck_pixel (p : sprec) (buf : list Z) (ip : Z) : px4 :=
  let r := sp_max p - range_in p (rd buf (ip + z5 cmyk_in_offsets 0)) in
  let g := sp_max p - range_in p (rd buf (ip + z5 cmyk_in_offsets 1)) in
  let b := sp_max p - range_in p (rd buf (ip + z5 cmyk_in_offsets 2)) in
  (y_of_rgb p r g b, cb_of_rgb p r g b, cr_of_rgb p r g b, rd buf (ip + cmyk_in_k)).
Fixpoint cmyk_ycck_cols (p : sprec) (buf : list Z) (ip : Z) (n : nat) : list px4 :=
  match n with O => [] | S k => cmyk_ycck_pixel p buf ip :: cmyk_ycck_cols p buf (ip + cmyk_in_pixelsize) k end.
Definition cmyk_ycck_convert (p : sprec) (buf : list Z) (ptrs : list Z) (w : nat) : list (list px4) :=
  map (fun ip => cmyk_ycck_cols p buf ip w) ptrs.

(* ycck_cmyk_convert: out[k] = range_limit[MAX - (y + chroma_k)], out[3] = K *)
Definition ycck_cmyk_pixel (p : sprec) (t : px4) : px4 :=
  let '(y, cb, cr, k) := t in
  let ch := chroma p false cb cr in
  (rl p (sp_max p - (y + c0 ch)), rl p (sp_max p - (y + c1 ch)), rl p (sp_max p - (y + c2 ch)), k).
Definition put4 (buf : list Z) (op : Z) (t : px4) : list Z :=
  let '(a, b, c, k) := t in
  upd (upd (upd (upd buf (op + z5 ycck_out_offsets 0) a) (op + z5 ycck_out_offsets 1) b) (op + z5 ycck_out_offsets 2) c)
      (op + ycck_out_k) k.
Fixpoint put4_cols (px : list px4) (buf : list Z) (op : Z) : list Z :=
  match px with [] => buf | t :: r => put4_cols r (put4 buf op t) (op + ycck_out_pixelsize) end.
Definition ycck_cmyk_convert (p : sprec) (img : list (list px4)) (buf : list Z) (ptrs : list Z) : list Z :=
  write_rows put4_cols (map (map (ycck_cmyk_pixel p)) img) buf ptrs.
Definition get4 (buf : list Z) (ip : Z) : px4 := (rd buf ip, rd buf (ip + 1), rd buf (ip + 2), rd buf (ip + 3)).
Fixpoint get4_cols (buf : list Z) (ip : Z) (n : nat) : list px4 :=
  match n with O => [] | S k => get4 buf ip :: get4_cols buf (ip + 4) k end.
Definition unpack4 (buf : list Z) (ptrs : list Z) (w : nat) : list (list px4) := map (fun ip => get4_cols buf ip w) ptrs.

(* ------------------------------------------------------------------ jdmrg565.c: merged upsampling to RGB565 *)
(* WRITE_TWO_PIXELS of jdmerge.c: two INT16 stores (no alignment requirement, hence no alignment branch) *)
Definition write_two (be : bool) (buf : list Z) (op packed : Z) : list Z :=
  if be then store16 be (store16 be buf (op + 2) packed) op (Z.shiftr packed 16)
  else store16 be (store16 be buf op packed) (op + 2) (Z.shiftr packed 16).
(* r,g,b of one output pixel from its luma and the chroma terms shared by the pair *)
Definition mpx565 (dith : bool) (d y : Z) (ch : px3) : px3 :=
  let p := prec8 in
  if dith then (rl p (dith_r (y + c0 ch) d), rl p (dith_g (y + c1 ch) d), rl p (dith_b (y + c2 ch) d))
  else (rl p (y + c0 ch), rl p (y + c1 ch), rl p (y + c2 ch)).
Fixpoint m565_pairs (be dith : bool) (n : nat) (ys cbs crs : list Z) (buf : list Z) (op d : Z)
  : list Z * list Z * list Z * list Z * Z * Z :=
  match n with
  | O => (ys, cbs, crs, buf, op, d)
  | S k =>
      let ch := chroma prec8 true (hd 0 cbs) (hd 0 crs) in
      let v1 := pk be (mpx565 dith d (hd 0 ys) ch) in
      let d1 := if dith then dither_rot d else d in
      let v2 := pk be (mpx565 dith d1 (hd 0 (tl ys)) ch) in
      let d2 := if dith then dither_rot d1 else d1 in
      m565_pairs be dith k (tl (tl ys)) (tl cbs) (tl crs) (write_two be buf op (pack_two be v1 v2)) (op + 4) d2
  end.
(* h2v1_merged_upsample_565[D]_internal for one output row of width w *)
Definition m565_row (be dith : bool) (w : Z) (ys cbs crs : list Z) (buf : list Z) (op d : Z) : list Z :=
  let '(ys', cbs', crs', buf', op', d') := m565_pairs be dith (Z.to_nat (Z.shiftr w 1)) ys cbs crs buf op d in
  if Z.odd w then
    store16 be buf' op' (pk be (mpx565 dith d' (hd 0 ys') (chroma prec8 true (hd 0 cbs') (hd 0 crs'))))
  else buf'.
(* rows of one image; row r is produced while output_scanline = scan0 + r (h2v2: the two rows of a group use
   dither_matrix rows output_scanline and output_scanline + 1, i.e. again scan0 + r); crs/cbs already per output row *)
Fixpoint m565_rows (be dith : bool) (w scan : Z) (ys cbs crs : list (list Z)) (buf : list Z) (ptrs : list Z) : list Z :=
  match ys, cbs, crs, ptrs with
  | y :: ty, cb :: tcb, cr :: tcr, op :: tp =>
      m565_rows be dith w (scan + 1) ty tcb tcr
        (m565_row be dith w y cb cr buf op (if dith then dither_row scan else 0)) tp
  | _, _, _, _ => buf
  end.
Definition merged565 (be dith v2 : bool) (w scan0 : Z) (ys cbs crs : list (list Z)) (buf : list Z) (ptrs : list Z) : list Z :=
  if v2 then m565_rows be dith w scan0 ys (dup_rows cbs) (dup_rows crs) buf ptrs
  else m565_rows be dith w scan0 ys cbs crs buf ptrs.
