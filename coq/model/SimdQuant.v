(* C05 -- quantisation: src/jcdctmgr.c flss(), compute_reciprocal(), quantize()
   (8-bit, reciprocal path) and the lane dataflow of jsimd_quantize_sse2 /
   jsimd_quantize_avx2 (simd/x86_64/jquanti-*.asm).  DCTELEM is a 16-bit short;
   table entries are modelled as their 16-bit patterns.  No proofs here. *)
From Coq Require Import List ZArith Bool.
From LJT Require Import lib.Words.
Import ListNotations.
Local Open Scope Z_scope.

(* flss(UINT16 val): position of the highest set bit, 1-based *)
Definition flss (val : Z) : Z :=
  if val =? 0 then 0 else
  let bit := 16 in
  let '(bit, val) := if Z.land val 65280 =? 0 then (bit - 8, w16 (val * 256)) else (bit, val) in
  let '(bit, val) := if Z.land val 61440 =? 0 then (bit - 4, w16 (val * 16)) else (bit, val) in
  let '(bit, val) := if Z.land val 49152 =? 0 then (bit - 2, w16 (val * 4)) else (bit, val) in
  let '(bit, val) := if Z.land val 32768 =? 0 then (bit - 1, w16 (val * 2)) else (bit, val) in
  bit.

Record qparams := { q_recip : Z; q_corr : Z; q_scale : Z; q_shift : Z; q_ret : Z;
                    (* the untruncated values, for the side conditions *)
                    q_fq : Z; q_c : Z; q_r : Z }.
(* compute_reciprocal(UINT16 divisor, DCTELEM *dtbl) with WITH_SIMD defined *)
Definition compute_reciprocal (d : Z) : qparams :=
  if d =? 1 then
    {| q_recip := 1; q_corr := 0; q_scale := 1; q_shift := w16 (-16); q_ret := 0; q_fq := 1; q_c := 0; q_r := 0 |}
  else
    let b := flss d - 1 in
    let r := 16 + b in
    let fq := 2 ^ r / d in               (* UDCTELEM2 = unsigned 32 bit; r <= 31 *)
    let fr := 2 ^ r mod d in
    let c := d / 2 in
    let '(fq, c, r) :=
      if fr =? 0 then (fq / 2, c, r - 1)
      else if fr <=? d / 2 then (fq, c + 1, r)
      else (fq + 1, c, r) in
    {| q_recip := w16 fq; q_corr := w16 c; q_scale := w16 (2 ^ (32 - r)); q_shift := w16 (r - 16);
       q_ret := if r <=? 16 then 0 else 1; q_fq := fq; q_c := c; q_r := r |}.

(* quantize(), one coefficient.  temp is a DCTELEM; recip/corr are read as UDCTELEM,
   shift as int; product is UDCTELEM2 (32-bit unsigned).  Result: the JCOEF stored. *)
Definition c_quantize (recip corr shift x : Z) : Z :=
  let sh := s16 shift + 16 in
  if x <? 0 then
    let temp := s16 (w16 (- x)) in
    let product := w32 (w32 (temp + corr) * recip) / 2 ^ sh in
    s16 (w16 (- s16 (w16 product)))
  else
    let product := w32 (w32 (x + corr) * recip) / 2 ^ sh in
    s16 (w16 product).

(* jsimd_quantize_sse2, one word lane (x given as its 16-bit pattern) *)
Definition asm_quantize_sse2 (recip corr scale x : Z) : Z :=
  let sgn := psraw x 15 in
  let a := psubw (pxor16 x sgn) sgn in
  let p := pmulhuw (pmulhuw (paddw a corr) recip) scale in
  psubw (pxor16 p sgn) sgn.
(* jsimd_quantize_avx2 *)
Definition asm_quantize_avx2 (recip corr scale x : Z) : Z :=
  let a := pabsw x in
  let p := pmulhuw (pmulhuw (paddw a corr) recip) scale in
  psignw p x.

(* convsamp: sample - CENTERJSAMPLE into a DCTELEM; asm: punpcklbw with zero, paddw 0xFF80 *)
Definition c_convsamp (s : Z) : Z := s - 128.
Definition asm_convsamp (s : Z) : Z := paddw s (psllw 65535 7).
