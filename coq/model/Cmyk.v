(* C18 -- cmyk.h in exact (integer / rational) arithmetic.  rgb_to_cmyk computes, for x = max(r,g,b) > 0,
   c = trunc(maxval*r/x + 0.5) (likewise m, y) and k = x; for x = 0 it returns (maxval, maxval, maxval, 0).
   cmyk_to_rgb computes r = trunc(c*k/maxval + 0.5).  The C text does this in floating point
   (gen/GenCmyk.v: type and expression shapes); trunc(q + 1/2) of a rational q = a/b is (2a + b) / (2b). *)
From Coq Require Import List ZArith.
From LJT Require Import model.Pnm.
Import ListNotations.
Local Open Scope Z_scope.

Definition rgb_to_cmyk_z (M r g b : Z) : Z * Z * Z * Z :=
  match cmyk_exact M r g b with
  | [c; m; y; k] => (c, m, y, k)
  | _ => (0, 0, 0, 0)
  end.

Definition round_div (a b : Z) : Z := (2 * a + b) / (2 * b).

Definition cmyk_to_rgb_z (M c m y k : Z) : Z * Z * Z :=
  (round_div (c * k) M, round_div (m * k) M, round_div (y * k) M).
