(* DStream.v -- whole-datastream model at SCAN level (C01): read_markers, initial_setup at the first SOS,
   per_scan_setup at every SOS, the scan limit of the progress monitor (turbojpeg.c my_progress_monitor:
   "if (scan_no > scanLimit) error"), an abstract forward-only entropy consumer, and a work counter:
   every scan costs MCUs_per_row * MCU_rows_in_scan * blocks_in_MCU data units of at most 64 coefficient
   steps each (decode_block needs no more: C01_decode_block_index_safe).  No proofs here. *)
From Coq Require Import List ZArith Bool Lia.
From LJT Require Import gen.GenLimits model.Huff model.DMarkers.
Import ListNotations.
Local Open Scope Z_scope.

Definition scan_units (si : scaninfo) : Z := si_mcus_per_row si * si_mcu_rows si * si_blocks si.
Definition unit_steps : Z := L_DCTSIZE2.

Definition frame_area (h : hdr) : Z := f_width (h_frame h) * f_height (h_frame h).
(* amax: the largest declared image area of the frames the scans belonged to (one frame per datastream) *)
Inductive sres := SDone (h : hdr) (nscans work amax : Z) (s : io) | SSusp | SFail (e : derr) (nscans work : Z) (s : io) | SLimit (nscans work amax : Z) (s : io).

(* initial_setup is recomputed at every SOS: the C calls it once, at the first SOS, and keeps the result; the
   frame fields it reads (dimensions, precision, sampling factors) are not written by any later marker routine *)
Fixpoint decode_stream2 (ec : hdr -> io -> io) (limit : Z) (fuel : nat) (h : hdr) (nsos work amax : Z) (s : io) : sres :=
  match fuel with
  | O => SFail E_OUT_OF_FUEL nsos work s
  | S k =>
      match read_markers (marker_fuel s) h s with
      | Done (ReachedSOS h') s1 =>
          if nsos + 1 >? limit then SLimit nsos work amax s1 else
          match initial_setup h' s1 with
          | Done su' s2 =>
              match per_scan_setup h' su' s2 with
              | Done si s3 => decode_stream2 ec limit k h' (nsos + 1) (work + scan_units si * unit_steps) (Z.max amax (frame_area h')) (ec h' s3)
              | Susp => SSusp
              | Fail e s3 => SFail e nsos work s3
              end
          | Susp => SSusp
          | Fail e s2 => SFail e nsos work s2
          end
      | Done (ReachedEOI h') s1 => SDone h' nsos work amax s1
      | Done (Continue _) s1 => SFail E_OUT_OF_FUEL nsos work s1
      | Susp => SSusp
      | Fail e s1 => SFail e nsos work s1
      end
  end.

(* ------------------------------------------------------------------ the C's caching, modelled *)
(* Fixed at SOF (get_sof) and never written again by a marker routine: process flags, precision, dimensions,
   component count and each component's id / sampling factors / quantisation-table selector.  get_sos only
   rewrites the Huffman/arithmetic table selectors of the scan's components. *)
Definition cgeom (c : comp) : Z * Z * Z * Z := (c_id c, c_h c, c_v c, c_tq c).
Definition geom (h : hdr) : bool * bool * bool * Z * Z * Z * Z * list (Z * Z * Z * Z) :=
  let f := h_frame h in
  (f_prog f, f_lossless f, f_arith f, f_prec f, f_height f, f_width f, f_nc f, map cgeom (f_comps f)).
Definition hdr_of (r : step) : hdr := match r with Continue h | ReachedSOS h | ReachedEOI h => h end.

(* latch_quant_tables with its per-component memo ("if (compptr->quant_table != NULL) continue;") *)
Fixpoint latch_loop2 (cur : list Z) (ci : Z) (h : hdr) (latched : list Z) : M (list Z) :=
  match cur with
  | [] => ret latched
  | cidx :: t =>
      log ci bound_cur_comp_info ;;;
      if existsb (Z.eqb cidx) latched then latch_loop2 t (ci + 1) h latched else
      let q := c_tq (comp_at h cidx) in
      if (q <? 0) || (q >=? L_NUM_QUANT_TBLS) then fail E_NO_QUANT_TABLE else
      log q bound_quant_tbl_ptrs ;;;
      match nthd (q_tbls h) q None with
      | None => fail E_NO_QUANT_TABLE
      | Some _ => latch_loop2 t (ci + 1) h (cidx :: latched)
      end
  end.

(* consume_markers as the C does it: initial_setup ONCE (first SOS, result cached in su), per scan:
   per_scan_setup with the cached values + latch_quant_tables; later SOS need has_multiple_scans *)
Fixpoint decode_stream3 (ec : hdr -> io -> io) (limit : Z) (fuel : nat) (h : hdr) (su : option setup) (latched : list Z)
                        (nsos work amax : Z) (s : io) : sres :=
  match fuel with
  | O => SFail E_OUT_OF_FUEL nsos work s
  | S k =>
      match read_markers (marker_fuel s) h s with
      | Done (ReachedSOS h') s1 =>
          if nsos + 1 >? limit then SLimit nsos work amax s1 else
          match (match su with
                 | Some x => if su_multi x then Done x s1 else Fail E_EOI_EXPECTED s1
                 | None => initial_setup h' s1
                 end) with
          | Done su' s2 =>
              match (si <- per_scan_setup h' su' ;;
                     l <- (if f_lossless (h_frame h') then ret latched else latch_loop2 (s_cur (h_scan h')) 0 h' latched) ;;
                     ret (si, l)) s2 with
              | Done (si, l') s3 =>
                  decode_stream3 ec limit k h' (Some su') l' (nsos + 1) (work + scan_units si * unit_steps)
                                 (Z.max amax (frame_area h')) (ec h' s3)
              | Susp => SSusp
              | Fail e s3 => SFail e nsos work s3
              end
          | Susp => SSusp
          | Fail e s2 => SFail e nsos work s2
          end
      | Done (ReachedEOI h') s1 => SDone h' nsos work amax s1
      | Done (Continue _) s1 => SFail E_OUT_OF_FUEL nsos work s1
      | Susp => SSusp
      | Fail e s1 => SFail e nsos work s1
      end
  end.
