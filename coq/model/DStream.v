(* DStream.v -- whole-datastream model at SCAN level (C01): read_markers, initial_setup at the first SOS,
   per_scan_setup at every SOS, the scan limit of the progress monitor (turbojpeg.c my_progress_monitor:
   "if (scan_no > scanLimit) error"), an abstract forward-only entropy consumer, and a work counter:
   every scan costs MCUs_per_row * MCU_rows_in_scan * blocks_in_MCU data units of at most 64 coefficient
   steps each (decode_block needs no more: C01_decode_block_index_safe).  No proofs here. *)
From Coq Require Import List ZArith Bool Lia.
From LJT Require Import gen.GenLimits model.Huff model.DMarkers.
Import ListNotations.
Local Open Scope Z_scope.

Definition scan_units (si : scaninfo) : Z := si_mcus_per_row si * si_mcu_rows si * si_blocks si.
Definition unit_steps : Z := L_DCTSIZE2.

Definition frame_area (h : hdr) : Z := f_width (h_frame h) * f_height (h_frame h).
(* amax: the largest declared image area of the frames the scans belonged to (one frame per datastream) *)
Inductive sres := SDone (h : hdr) (nscans work amax : Z) (s : io) | SSusp | SFail (e : derr) (nscans work : Z) (s : io) | SLimit (nscans work amax : Z) (s : io).

(* initial_setup is recomputed at every SOS: the C calls it once, at the first SOS, and keeps the result; the
   frame fields it reads (dimensions, precision, sampling factors) are not written by any later marker routine *)
Fixpoint decode_stream2 (ec : hdr -> io -> io) (limit : Z) (fuel : nat) (h : hdr) (nsos work amax : Z) (s : io) : sres :=
  match fuel with
  | O => SFail E_OUT_OF_FUEL nsos work s
  | S k =>
      match read_markers (marker_fuel s) h s with
      | Done (ReachedSOS h') s1 =>
          if nsos + 1 >? limit then SLimit nsos work amax s1 else
          match initial_setup h' s1 with
          | Done su' s2 =>
              match per_scan_setup h' su' s2 with
              | Done si s3 => decode_stream2 ec limit k h' (nsos + 1) (work + scan_units si * unit_steps) (Z.max amax (frame_area h')) (ec h' s3)
              | Susp => SSusp
              | Fail e s3 => SFail e nsos work s3
              end
          | Susp => SSusp
          | Fail e s2 => SFail e nsos work s2
          end
      | Done (ReachedEOI h') s1 => SDone h' nsos work amax s1
      | Done (Continue _) s1 => SFail E_OUT_OF_FUEL nsos work s1
      | Susp => SSusp
      | Fail e s1 => SFail e nsos work s1
      end
  end.
