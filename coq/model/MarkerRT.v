(* MarkerRT.v -- executable model of the header-marker writers and readers of
   libjpeg-turbo (C16):
     jcmarker.c  emit_byte, emit_2bytes, write_marker_header, write_marker_byte,
                 emit_sof, emit_sos, emit_dri, emit_jfif_app0, emit_adobe_app14,
                 the SOF code selection of write_frame_header
     jcapimin.c  jpeg_write_marker / jpeg_write_m_header / jpeg_write_m_byte
     jdmarker.c  INPUT_2BYTES, get_sof, get_sos, get_dri, examine_app0, examine_app14,
                 get_interesting_appn, save_marker, skip_variable, jpeg_save_markers,
                 and the part of read_markers that dispatches on these codes
     jdapimin.c  default_decompress_parms (colourspace decision)
   Bytes are Z in 0..255; "(JOCTET)val" of emit_byte is written as byte_of.
   Constants come from gen/GenIccConst.v (regenerated from the source every run).
   No proofs here. *)
From Coq Require Import List ZArith Bool.
From LJT Require Import gen.GenIccConst.
Import ListNotations.
Local Open Scope Z_scope.

(* ------------------------------------------------------------ basic output *)
Definition byte_of (v : Z) : Z := v mod 256.                       (* (JOCTET)val *)
Definition emit_2bytes (v : Z) : list Z := [(v / 256) mod 256; v mod 256].
Definition emit_marker (code : Z) : list Z := [255; byte_of code].

(* a marker segment as handed to jpeg_write_marker: code and parameter bytes *)
Definition segment := (Z * list Z)%type.

(* write_marker_header: None = ERREXIT(JERR_BAD_LENGTH) *)
Definition write_marker_header (marker datalen : Z) : option (list Z) :=
  if WRITE_MARKER_MAX_DATALEN <? datalen then None
  else Some (emit_marker marker ++ emit_2bytes (datalen + 2)).

(* jpeg_write_marker (state checks of the API are outside the model) *)
Definition write_marker (s : segment) : option (list Z) :=
  match write_marker_header (fst s) (Zlength (snd s)) with
  | None => None
  | Some h => Some (h ++ map byte_of (snd s))
  end.

Fixpoint write_markers (l : list segment) : option (list Z) :=
  match l with
  | [] => Some []
  | s :: r => match write_marker s, write_markers r with
              | Some a, Some b => Some (a ++ b)
              | _, _ => None
              end
  end.

(* ------------------------------------------------------------- basic input *)
(* INPUT_2BYTES; None = no more data (suspension / premature end) *)
Definition get_2bytes (bs : list Z) : option (Z * list Z) :=
  match bs with hi :: lo :: r => Some (hi * 256 + lo, r) | _ => None end.
Definition get_byte (bs : list Z) : option (Z * list Z) :=
  match bs with b :: r => Some (b, r) | _ => None end.

Fixpoint zlist_eqb (a b : list Z) : bool :=
  match a, b with
  | [], [] => true
  | x :: a', y :: b' => (x =? y) && zlist_eqb a' b'
  | _, _ => false
  end.
Definition nthz (l : list Z) (i : Z) : Z := nth (Z.to_nat i) l 0.
Definition has_prefix (sig data : list Z) : bool := zlist_eqb (firstn (length sig) data) sig.

(* ------------------------------------------------------- saved marker list *)
(* struct jpeg_marker_struct: marker, original_length, data (data_length = length) *)
Record saved := mkSaved { sm_code : Z; sm_orig : Z; sm_data : list Z }.

(* length limits installed by jpeg_save_markers, as a function of the marker code;
   0 = the marker is not saved (skip_variable / get_interesting_appn) *)
Definition cfg := Z -> Z.
Definition cfg_init : cfg := fun _ => 0.
Definition eff_limit (code limit : Z) : Z :=
  if limit =? 0 then 0
  else if (code =? M_APP0) && (limit <? APP0_DATA_LEN) then APP0_DATA_LEN
  else if (code =? M_APP14) && (limit <? APP14_DATA_LEN) then APP14_DATA_LEN
  else limit.
Definition is_app_or_com (code : Z) : bool :=
  (code =? M_COM) || ((M_APP0 <=? code) && (code <=? M_APP15)).
(* jpeg_save_markers; a code outside COM/APPn is ERREXIT(JERR_UNKNOWN_MARKER): cfg unchanged here *)
Definition jpeg_save_markers (c : cfg) (code limit : Z) : cfg :=
  if is_app_or_com code then fun k => if k =? code then eff_limit code limit else c k else c.

(* fields filled in by examine_app0 / examine_app14 / get_dri (get_soi defaults) *)
Record hinfo := mkHinfo {
  h_saw_jfif : bool; h_major : Z; h_minor : Z; h_unit : Z; h_xd : Z; h_yd : Z;
  h_saw_adobe : bool; h_transform : Z; h_restart : Z }.
Definition hinfo_init : hinfo := mkHinfo false 1 1 0 1 1 false 0 0.

Definition examine_app0 (h : hinfo) (data : list Z) (datalen : Z) : hinfo :=
  if (APP0_DATA_LEN <=? datalen) && has_prefix jfif_sig_examine data then
    mkHinfo true (nthz data 5) (nthz data 6) (nthz data 7)
            (nthz data 8 * 256 + nthz data 9) (nthz data 10 * 256 + nthz data 11)
            (h_saw_adobe h) (h_transform h) (h_restart h)
  else h.
Definition examine_app14 (h : hinfo) (data : list Z) (datalen : Z) : hinfo :=
  if (APP14_DATA_LEN <=? datalen) && has_prefix adobe_sig_examine data then
    mkHinfo (h_saw_jfif h) (h_major h) (h_minor h) (h_unit h) (h_xd h) (h_yd h)
            true (byte_of (nthz data 11)) (h_restart h)
  else h.
Definition examine (code : Z) (h : hinfo) (data : list Z) (datalen : Z) : hinfo :=
  if code =? M_APP0 then examine_app0 h data datalen
  else if code =? M_APP14 then examine_app14 h data datalen else h.

(* save_marker, entered after the marker code; limit is length_limit_xxx.
   Result: (saved item if any, header info, remaining input); None = ran out of input. *)
Definition save_marker (limit code : Z) (h : hinfo) (bs : list Z)
  : option (option saved * hinfo * list Z) :=
  match get_2bytes bs with
  | None => None
  | Some (l, r) =>
      let length := l - 2 in
      if 0 <=? length then
        let lim := if length <? limit then length else limit in
        if Zlength r <? length then None
        else let data := firstn (Z.to_nat lim) r in
             Some (Some (mkSaved (byte_of code) length data), examine code h data lim,
                   skipn (Z.to_nat length) r)
      else Some (None, examine code h [] 0, r)
  end.

(* skip_variable / get_interesting_appn (marker not saved) *)
Definition skip_or_examine (code : Z) (h : hinfo) (bs : list Z) : option (hinfo * list Z) :=
  match get_2bytes bs with
  | None => None
  | Some (l, r) =>
      let length := l - 2 in
      if Zlength r <? length then None
      else
        let numtoread := if APPN_DATA_LEN <=? length then APPN_DATA_LEN
                         else if 0 <? length then length else 0 in
        let h' := if (code =? M_APP0) || (code =? M_APP14)
                  then examine code h (firstn (Z.to_nat numtoread) r) numtoread else h in
        Some (h', skipn (Z.to_nat length) r)
  end.

(* one COM/APPn marker, dispatched as read_markers does through process_COM/process_APPn *)
Definition process_app (c : cfg) (code : Z) (h : hinfo) (acc : list saved) (bs : list Z)
  : option (hinfo * list saved * list Z) :=
  if c code =? 0 then
    match skip_or_examine code h bs with
    | None => None
    | Some (h', r) => Some (h', acc, r)
    end
  else
    match save_marker (c code) code h bs with
    | None => None
    | Some (Some m, h', r) => Some (h', acc ++ [m], r)      (* appended at marker_list_end *)
    | Some (None, h', r) => Some (h', acc, r)
    end.

(* the two bytes FF, code at the head of the input (next_marker without fill bytes / garbage
   skipping: only well-formed marker sequences are in the model) *)
Definition next_marker (bs : list Z) : option (Z * list Z) :=
  match bs with
  | ff :: code :: r => if ff =? 255 then Some (code, r) else None
  | _ => None
  end.

(* the run of COM/APPn markers at the head of the input; stops (returning the input
   unchanged from there) at the first other marker.  fuel counts markers. *)
Fixpoint read_app_markers (fuel : nat) (c : cfg) (h : hinfo) (acc : list saved) (bs : list Z)
  : option (hinfo * list saved * list Z) :=
  match fuel with
  | O => None
  | S f =>
      match next_marker bs with
      | Some (code, r) =>
          if is_app_or_com code then
            match process_app c code h acc r with
            | None => None
            | Some (h', acc', r') => read_app_markers f c h' acc' r'
            end
          else Some (h, acc, bs)
      | None => Some (h, acc, bs)
      end
  end.

(* ------------------------------------------------------------------- SOFn *)
Record comp := mkComp { c_id : Z; c_h : Z; c_v : Z; c_tq : Z }.
Record frame := mkFrame { f_prec : Z; f_height : Z; f_width : Z; f_comps : list comp }.

Definition emit_comp (c : comp) : list Z :=
  [byte_of (c_id c); byte_of (c_h c * 16 + c_v c); byte_of (c_tq c)].

(* emit_sof; None = ERREXIT1(JERR_IMAGE_TOO_BIG) *)
Definition emit_sof (code : Z) (f : frame) : option (list Z) :=
  let n := Zlength (f_comps f) in
  if (65535 <? f_height f) || (65535 <? f_width f) then None
  else Some (emit_marker code ++ emit_2bytes (3 * n + 2 + 5 + 1) ++ [byte_of (f_prec f)]
             ++ emit_2bytes (f_height f) ++ emit_2bytes (f_width f) ++ [byte_of n]
             ++ flat_map emit_comp (f_comps f)).

Fixpoint get_comps (n : nat) (bs : list Z) : option (list comp * list Z) :=
  match n with
  | O => Some ([], bs)
  | S k =>
      match bs with
      | id :: c :: tq :: r =>
          match get_comps k r with
          | None => None
          | Some (cs, r') => Some (mkComp id ((c / 16) mod 16) (c mod 16) tq :: cs, r')
          end
      | _ => None
      end
  end.

(* get_sof, entered after the marker code.  None = ERREXIT (EMPTY_IMAGE, BAD_LENGTH) or
   no more data *)
Definition get_sof (bs : list Z) : option (frame * list Z) :=
  match get_2bytes bs with
  | None => None
  | Some (length, r0) =>
    match r0 with
    | prec :: r1 =>
      match get_2bytes r1 with
      | None => None
      | Some (height, r2) =>
        match get_2bytes r2 with
        | None => None
        | Some (width, r3) =>
          match r3 with
          | n :: r4 =>
              if (height <=? 0) || (width <=? 0) || (n <=? 0) then None
              else if negb (length - 8 =? n * 3) then None
              else match get_comps (Z.to_nat n) r4 with
                   | None => None
                   | Some (cs, r5) => Some (mkFrame prec height width cs, r5)
                   end
          | _ => None
          end
        end
      end
    | _ => None
    end
  end.

(* SOF code chosen by write_frame_header *)
Definition sof_code (arith prog lossless baseline : bool) : Z :=
  if arith then (if prog then M_SOF10 else M_SOF9)
  else if prog then M_SOF2 else if lossless then M_SOF3
  else if baseline then M_SOF0 else M_SOF1.
(* read_markers dispatch: (is_prog, is_lossless, is_arith); None = unsupported / not a SOF *)
Definition sof_flags (code : Z) : option (bool * bool * bool) :=
  if (code =? M_SOF0) || (code =? M_SOF1) then Some (false, false, false)
  else if code =? M_SOF2 then Some (true, false, false)
  else if code =? M_SOF3 then Some (false, true, false)
  else if code =? M_SOF9 then Some (false, false, true)
  else if code =? M_SOF10 then Some (true, false, true)
  else if code =? M_SOF11 then Some (false, true, true)
  else None.

(* -------------------------------------------------------------------- SOS *)
(* a scan component: index into the frame's component list, DC and AC table numbers *)
Record scomp := mkScomp { sc_ci : nat; sc_dc : Z; sc_ac : Z }.
Record scan := mkScan { s_comps : list scomp; s_Ss : Z; s_Se : Z; s_Ah : Z; s_Al : Z }.

Definition td_kept_in_lossless : bool := EMIT_SOS_TD_KEPT_IN_LOSSLESS =? 1.

(* the Td/Ta actually written by emit_sos *)
Definition sos_td (keep lossless : bool) (s : scan) (c : scomp) : Z :=
  if ((s_Ss s =? 0) && (s_Ah s =? 0)) || (keep && lossless) then sc_dc c else 0.
Definition sos_ta (s : scan) (c : scomp) : Z := if s_Se s =? 0 then 0 else sc_ac c.

Definition comp_id_at (ids : list Z) (ci : nat) : Z := nth ci ids 0.

Definition emit_sos_with (keep lossless : bool) (ids : list Z) (s : scan) : list Z :=
  let n := Zlength (s_comps s) in
  emit_marker M_SOS ++ emit_2bytes (2 * n + 2 + 1 + 3) ++ [byte_of n]
  ++ flat_map (fun c => [byte_of (comp_id_at ids (sc_ci c));
                         byte_of (sos_td keep lossless s c * 16 + sos_ta s c)]) (s_comps s)
  ++ [byte_of (s_Ss s); byte_of (s_Se s); byte_of (s_Ah s * 16 + s_Al s)].
Definition emit_sos (lossless : bool) (ids : list Z) (s : scan) : list Z :=
  emit_sos_with td_kept_in_lossless lossless ids s.

(* the component search of get_sos for scan slot i:
     for (ci = 0; ci < num_components && ci < MAX_COMPS_IN_SCAN; ci++)
       if (cc == compptr->component_id && !cinfo->cur_comp_info[ci]) goto id_found;
   cur_comp_info[ci] is non-NULL exactly for the slots ci < i already filled. *)
Fixpoint find_comp (ids : list Z) (ci : nat) (i : nat) (cc : Z) : option nat :=
  match ids with
  | [] => None
  | id :: r =>
      if (4 <=? Z.of_nat ci) then None
      else if (cc =? id) && (Nat.leb i ci) then Some ci
      else find_comp r (S ci) i cc
  end.

Fixpoint get_scomps (ids : list Z) (n : nat) (i : nat) (prev : list nat) (bs : list Z)
  : option (list scomp * list Z) :=
  match n with
  | O => Some ([], bs)
  | S k =>
      match bs with
      | cc :: c :: r =>
          match find_comp ids 0 i cc with
          | None => None                                  (* JERR_BAD_COMPONENT_ID *)
          | Some ci =>
              if existsb (Nat.eqb ci) prev then None      (* same component twice *)
              else match get_scomps ids k (S i) (ci :: prev) r with
                   | None => None
                   | Some (cs, r') => Some (mkScomp ci ((c / 16) mod 16) (c mod 16) :: cs, r')
                   end
          end
      | _ => None
      end
  end.

(* get_sos, entered after the marker code; ids = component ids of the frame *)
Definition get_sos (ids : list Z) (bs : list Z) : option (scan * list Z) :=
  match get_2bytes bs with
  | None => None
  | Some (length, r0) =>
    match r0 with
    | n :: r1 =>
        if negb (length =? n * 2 + 6) || (n <? 1) || (4 <? n) then None
        else match get_scomps ids (Z.to_nat n) 0 [] r1 with
             | None => None
             | Some (cs, r2) =>
                 match r2 with
                 | ss :: se :: a :: r3 => Some (mkScan cs ss se ((a / 16) mod 16) (a mod 16), r3)
                 | _ => None
                 end
             end
    | _ => None
    end
  end.

(* -------------------------------------------------------------------- DRI *)
Definition emit_dri (interval : Z) : list Z :=
  emit_marker M_DRI ++ emit_2bytes 4 ++ emit_2bytes interval.
Definition get_dri (bs : list Z) : option (Z * list Z) :=
  match get_2bytes bs with
  | None => None
  | Some (length, r) => if negb (length =? 4) then None else get_2bytes r
  end.

(* ------------------------------------------------------------ JFIF / Adobe *)
Record jfif := mkJfif { j_major : Z; j_minor : Z; j_unit : Z; j_xd : Z; j_yd : Z }.
Definition jfif_data (j : jfif) : list Z :=
  jfif_sig_emit ++ [byte_of (j_major j); byte_of (j_minor j); byte_of (j_unit j)]
  ++ emit_2bytes (j_xd j) ++ emit_2bytes (j_yd j) ++ [byte_of 0; byte_of 0].
Definition emit_jfif_app0 (j : jfif) : list Z :=
  emit_marker M_APP0 ++ emit_2bytes JFIF_SEGMENT_LENGTH ++ jfif_data j.

(* colourspaces that matter to the Adobe marker / default_decompress_parms *)
Inductive cspace := CS_UNKNOWN | CS_GRAY | CS_RGB | CS_YCbCr | CS_CMYK | CS_YCCK.
Definition adobe_transform_of (cs : cspace) : Z :=
  match cs with CS_YCbCr => ADOBE_TRANSFORM_YCbCr | CS_YCCK => ADOBE_TRANSFORM_YCCK
           | _ => ADOBE_TRANSFORM_OTHER end.
Definition adobe_data (cs : cspace) : list Z :=
  adobe_sig_emit ++ flat_map emit_2bytes adobe_version_flags ++ [byte_of (adobe_transform_of cs)].
Definition emit_adobe_app14 (cs : cspace) : list Z :=
  emit_marker M_APP14 ++ emit_2bytes ADOBE_SEGMENT_LENGTH ++ adobe_data cs.

(* jpeg_set_colorspace: which of the two markers the compressor writes *)
Definition writes_jfif (cs : cspace) : bool :=
  match cs with CS_GRAY | CS_YCbCr => true | _ => false end.
Definition writes_adobe (cs : cspace) : bool :=
  match cs with CS_RGB | CS_CMYK | CS_YCCK => true | _ => false end.

(* write_file_header after SOI *)
Definition emit_file_header (cs : cspace) (j : jfif) : list Z :=
  emit_marker M_SOI ++ (if writes_jfif cs then emit_jfif_app0 j else [])
  ++ (if writes_adobe cs then emit_adobe_app14 cs else []).

(* default_decompress_parms: jpeg_color_space from component count, markers, process and component ids.
   The decision itself (which tests, in which order, with which results) is NOT typed here: it is the decision
   tree ddp_cases / ddp_default that tools/gen_IccConst.py reads from the C text of the current tree; this
   function only interprets it. *)
Definition datom_holds (h : hinfo) (lossless : bool) (ids : list Z) (a : datom) : bool :=
  match a with
  | AJfif => h_saw_jfif h
  | AAdobe => h_saw_adobe h
  | ALossless => lossless
  | AId k v => nthz ids k =? v
  end.
Definition dcond_holds (h : hinfo) (lossless : bool) (ids : list Z) (c : list (bool * datom)) : bool :=
  forallb (fun l : bool * datom => if fst l then negb (datom_holds h lossless ids (snd l)) else datom_holds h lossless ids (snd l)) c.
Fixpoint eval_dtree (h : hinfo) (lossless : bool) (ids : list Z) (t : dtree) : Z :=
  match t with
  | DLeaf j => j
  | DIf c a b => if dcond_holds h lossless ids c then eval_dtree h lossless ids a else eval_dtree h lossless ids b
  | DAdobe alts d =>
      (fix look (l : list (Z * dtree)) : Z :=
         match l with
         | [] => eval_dtree h lossless ids d
         | vx :: r => if h_transform h =? fst vx then eval_dtree h lossless ids (snd vx) else look r
         end) alts
  end.
Definition cspace_of_jcs (j : Z) : cspace :=
  if j =? JCS_GRAYSCALE then CS_GRAY else if j =? JCS_RGB then CS_RGB else if j =? JCS_YCbCr then CS_YCbCr
  else if j =? JCS_CMYK then CS_CMYK else if j =? JCS_YCCK then CS_YCCK else CS_UNKNOWN.
Definition jcs_of_cspace (cs : cspace) : Z :=
  match cs with CS_UNKNOWN => JCS_UNKNOWN | CS_GRAY => JCS_GRAYSCALE | CS_RGB => JCS_RGB | CS_YCbCr => JCS_YCbCr
           | CS_CMYK => JCS_CMYK | CS_YCCK => JCS_YCCK end.
Definition ddp_tree (ncomp : Z) : dtree :=
  match find (fun kt => fst kt =? ncomp) ddp_cases with Some kt => snd kt | None => ddp_default end.
Definition decide_colorspace (ncomp : Z) (h : hinfo) (lossless : bool) (ids : list Z) : cspace :=
  cspace_of_jcs (eval_dtree h lossless ids (ddp_tree ncomp)).

(* ------------------------------------------------- header reading, top level *)
(* The part of read_markers / jpeg_read_header the property is about: SOI, then markers
   up to and including the first SOS.  DQT/DHT/DAC (and any other marker with a length
   word) are stepped over by their length word; their contents are outside C16. *)
Record header := mkHeader {
  hd_info : hinfo; hd_saved : list saved; hd_sofcode : Z; hd_frame : option frame;
  hd_scan : option scan }.

Definition skip_segment (bs : list Z) : option (list Z) :=
  match get_2bytes bs with
  | None => None
  | Some (l, r) => if (l <? 2) || (Zlength r <? l - 2) then None else Some (skipn (Z.to_nat (l - 2)) r)
  end.

Fixpoint read_header_loop (fuel : nat) (c : cfg) (hd : header) (bs : list Z)
  : option (header * list Z) :=
  match fuel with
  | O => None
  | S f =>
      match next_marker bs with
      | Some (code, r) =>
          if is_app_or_com code then
            match process_app c code (hd_info hd) (hd_saved hd) r with
            | None => None
            | Some (h', acc', r') =>
                read_header_loop f c (mkHeader h' acc' (hd_sofcode hd) (hd_frame hd) (hd_scan hd)) r'
            end
          else if code =? M_DRI then
            match get_dri r with
            | None => None
            | Some (ri, r') =>
                let h := hd_info hd in
                let h' := mkHinfo (h_saw_jfif h) (h_major h) (h_minor h) (h_unit h) (h_xd h) (h_yd h)
                                  (h_saw_adobe h) (h_transform h) ri in
                read_header_loop f c (mkHeader h' (hd_saved hd) (hd_sofcode hd) (hd_frame hd) (hd_scan hd)) r'
            end
          else if code =? M_SOS then
            match hd_frame hd with
            | None => None                                      (* JERR_SOS_NO_SOF *)
            | Some fr =>
                match get_sos (map c_id (f_comps fr)) r with
                | None => None
                | Some (s, r') =>
                    Some (mkHeader (hd_info hd) (hd_saved hd) (hd_sofcode hd) (hd_frame hd) (Some s), r')
                end
            end
          else
            match sof_flags code with
            | Some _ =>
                match hd_frame hd with
                | Some _ => None                                (* JERR_SOF_DUPLICATE *)
                | None =>
                    match get_sof r with
                    | None => None
                    | Some (fr, r') =>
                        read_header_loop f c (mkHeader (hd_info hd) (hd_saved hd) code (Some fr) None) r'
                    end
                end
            | None =>
                if (code =? M_DQT) || (code =? M_DHT) || (code =? M_DAC) then
                  match skip_segment r with
                  | None => None
                  | Some r' => read_header_loop f c hd r'
                  end
                else None
            end
      | None => None
      end
  end.

Definition read_header (c : cfg) (bs : list Z) : option (header * list Z) :=
  match next_marker bs with
  | Some (soi, r) =>
      if soi =? M_SOI then
        read_header_loop (S (length r)) c (mkHeader hinfo_init [] 0 None None) r
      else None
  | None => None
  end.
