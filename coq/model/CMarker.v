(* CMarker.v -- jcmarker.c, the compressor's marker writer, byte for byte:
     emit_dqt / emit_dht (with the sent_table flags), emit_dac, emit_dri, emit_sof, emit_sos,
     emit_jfif_app0, emit_adobe_app14, write_file_header, write_frame_header, write_scan_header,
     write_file_trailer,
   and the assembly of a whole datastream along the pass events of the master (CParams.run_master):
   SOI .. frame header .. (scan header, entropy-coded data)* .. EOI, with the Huffman optimisation pass
   replacing tables (sent_table := FALSE) before the scan header.
   Tables live in 12 slots: 0..3 quantisation, 4..7 DC Huffman, 8..11 AC Huffman. *)
From Coq Require Import List ZArith Bool Lia.
From LJT Require Import model.Huff gen.GenParams model.CParams model.CRestart.
Import ListNotations.
Local Open Scope Z_scope.

(* ---------------------------------------------------------------- markers *)
Inductive mk :=
  | MkSOI | MkEOI
  | MkAPP0 (major minor unit xd yd : Z)
  | MkAPP14 (transform : Z)
  | MkDQT (idx prec : Z) (vals : list Z)            (* vals in natural order; written in zigzag order *)
  | MkDHT (idx : Z) (bits vals : list Z)            (* idx has 0x10 set for AC; bits = bits[1..16] *)
  | MkDAC (entries : list (Z * Z))
  | MkDRI (v : Z)
  | MkSOF (code prec height width : Z) (comps : list (Z * Z * Z * Z))   (* id, h, v, Tq *)
  | MkSOS (comps : list (Z * Z * Z)) (Ss Se Ah Al : Z)                  (* id, Td, Ta *)
  | MkData (scan : Z) (bytes : list Z)
  | MkApp (code : Z) (data : list Z).               (* jpeg_write_marker: COM / APPn written by the application *)

Definition b8 (v : Z) : Z := v mod 256.
Definition emit_2bytes (v : Z) : list Z := [(v / 256) mod 256; v mod 256].
Definition marker (code : Z) : list Z := [255; code].

Definition encode_mk (m : mk) : list Z :=
  match m with
  | MkSOI => marker g_M_SOI
  | MkEOI => marker g_M_EOI
  | MkAPP0 major minor unit xd yd =>
      marker g_M_APP0 ++ emit_2bytes 16 ++ [74; 70; 73; 70; 0; b8 major; b8 minor; b8 unit] ++ emit_2bytes xd ++ emit_2bytes yd ++ [0; 0]
  | MkAPP14 tr =>
      marker g_M_APP14 ++ emit_2bytes 14 ++ [65; 100; 111; 98; 101] ++ emit_2bytes 100 ++ emit_2bytes 0 ++ emit_2bytes 0 ++ [b8 tr]
  | MkDQT idx prec vals =>
      marker g_M_DQT ++ emit_2bytes (if prec =? 0 then g_DCTSIZE2 + 1 + 2 else g_DCTSIZE2 * 2 + 1 + 2) ++ [b8 (idx + prec * 16)] ++
      flat_map (fun k => let q := nthZ vals (Z.to_nat k) in if prec =? 0 then [b8 q] else [b8 (q / 256); b8 q]) g_kloop_order
  | MkDHT idx bits vals => marker g_M_DHT ++ emit_2bytes (sumZ bits + 2 + 1 + 16) ++ [b8 idx] ++ map b8 bits ++ map b8 vals
  | MkDAC entries => marker g_M_DAC ++ emit_2bytes (Z.of_nat (length entries) * 2 + 2) ++ flat_map (fun e => [b8 (fst e); b8 (snd e)]) entries
  | MkDRI v => marker g_M_DRI ++ emit_2bytes 4 ++ emit_2bytes v
  | MkSOF code prec height width comps =>
      marker code ++ emit_2bytes (3 * Z.of_nat (length comps) + 2 + 5 + 1) ++ [b8 prec] ++ emit_2bytes height ++ emit_2bytes width ++
      [b8 (Z.of_nat (length comps))] ++ flat_map (fun c => match c with (id, h, v, tq) => [b8 id; b8 (h * 16 + v); b8 tq] end) comps
  | MkSOS comps Ss Se Ah Al =>
      marker g_M_SOS ++ emit_2bytes (2 * Z.of_nat (length comps) + 2 + 1 + 3) ++ [b8 (Z.of_nat (length comps))] ++
      flat_map (fun c => match c with (id, td, ta) => [b8 id; b8 (td * 16 + ta)] end) comps ++ [b8 Ss; b8 Se; b8 (Ah * 16 + Al)]
  | MkData _ bytes => bytes
  | MkApp code data => marker code ++ emit_2bytes (Z.of_nat (length data) + 2) ++ map b8 data
  end.
Definition bytes_of (tr : list mk) : list Z := flat_map encode_mk tr.

(* ---------------------------------------------------------------- table store *)
Record tbl := { t_a : list Z;      (* quantval[64]  |  bits[1..16] *)
                t_b : list Z;      (* []            |  huffval[]   *)
                t_sent : bool }.
Record wstate := { w_tbls : list (option tbl);     (* 12 slots *)
                   w_last_ri : Z }.                (* marker->last_restart_interval *)
Definition qslot (i : Z) : Z := i.
Definition dcslot (i : Z) : Z := 4 + i.
Definition acslot (i : Z) : Z := 8 + i.
Definition get_tbl (st : wstate) (slot : Z) : option tbl := nth (Z.to_nat slot) (w_tbls st) None.
Definition set_sent (st : wstate) (slot : Z) (t : tbl) : wstate :=
  {| w_tbls := upd (Z.to_nat slot) (Some {| t_a := t_a t; t_b := t_b t; t_sent := true |}) (w_tbls st);
     w_last_ri := w_last_ri st |}.
Definition bits16 (t : tbl) : list Z := firstn 16 (t_a t).
Definition huffvals (t : tbl) : list Z := firstn (Z.to_nat (sumZ (bits16 t))) (t_b t).
Definition tblno_ok (n : Z) : bool := (0 <=? n) && (n <? g_NUM_QUANT_TBLS).

(* emit_dqt: returns (markers, state, prec) *)
Definition emit_dqt (st : wstate) (index : Z) : cerr + (list mk * wstate * Z) :=
  if (g_DQT_INDEX_CHECK =? 1) && negb (tblno_ok index) then inl NoQuantTable else
  match get_tbl st (qslot index) with
  | None => inl NoQuantTable
  | Some q =>
      let prec := if existsb (fun v => v >? 255) (firstn (Z.to_nat g_DCTSIZE2) (t_a q)) then 1 else 0 in
      if t_sent q then inr ([], st, prec)
      else inr ([MkDQT index prec (t_a q)], set_sent st (qslot index) q, prec)
  end.

Definition emit_dht (st : wstate) (index : Z) (is_ac : bool) : cerr + (list mk * wstate) :=
  if negb (tblno_ok index) then inl NoHuffTable else
  let slot := if is_ac then acslot index else dcslot index in
  match get_tbl st slot with
  | None => inl NoHuffTable
  | Some h =>
      if t_sent h then inr ([], st)
      else inr ([MkDHT (if is_ac then index + 16 else index) (bits16 h) (huffvals h)], set_sent st slot h)
  end.

(* ---------------------------------------------------------------- image description *)
Record mcomp := { k_id : Z; k_h : Z; k_v : Z; k_tq : Z; k_td : Z; k_ta : Z }.
Record image := { im_prec : Z; im_width : Z; im_height : Z; im_comps : list mcomp;
                  im_arith : bool; im_progressive : bool; im_lossless : bool;
                  im_jfif : option (Z * Z * Z * Z * Z);      (* major, minor, unit, X, Y density *)
                  im_adobe : option Z;                        (* colour transform byte *)
                  im_dc_L : list Z; im_dc_U : list Z; im_ac_K : list Z }.
Record scanp := { sp_comps : list Z;       (* cur_comp_info: indexes into im_comps *)
                  sp_Ss : Z; sp_Se : Z; sp_Ah : Z; sp_Al : Z;
                  sp_ri : Z }.             (* cinfo->restart_interval during this scan *)
Definition dflt_comp : mcomp := {| k_id := 0; k_h := 0; k_v := 0; k_tq := 0; k_td := 0; k_ta := 0 |}.
Definition get_comp (img : image) (i : Z) : mcomp := nth (Z.to_nat i) (im_comps img) dflt_comp.

Definition write_file_header (img : image) (st : wstate) : list mk * wstate :=
  ([MkSOI] ++ (match im_jfif img with Some (ma, mi, u, x, y) => [MkAPP0 ma mi u x y] | None => [] end)
           ++ (match im_adobe img with Some t => [MkAPP14 t] | None => [] end),
   {| w_tbls := w_tbls st; w_last_ri := 0 |}).

(* "for (ci ...) prec += emit_dqt(cinfo, compptr->quant_tbl_no);" *)
Fixpoint dqt_loop (st : wstate) (comps : list mcomp) (acc : list mk) (prec : Z) : cerr + (list mk * wstate * Z) :=
  match comps with
  | [] => inr (acc, st, prec)
  | c :: r => match emit_dqt st (k_tq c) with
              | inl e => inl e
              | inr (m, st', p) => dqt_loop st' r (acc ++ m) (prec + p)
              end
  end.

Definition sof_code (img : image) (prec16 : Z) : Z :=
  if im_arith img then (if im_progressive img then g_M_SOF10 else g_M_SOF9)
  else if im_progressive img then g_M_SOF2
  else if im_lossless img then g_M_SOF3
  else
    let is_baseline :=
      negb (negb (im_prec img =? 8)) &&
      forallb (fun c => negb ((k_td c >? 1) || (k_ta c >? 1))) (im_comps img) && (prec16 =? 0) in
    if is_baseline then g_M_SOF0 else g_M_SOF1.

Definition write_frame_header (img : image) (st : wstate) : cerr + (list mk * wstate) :=
  match (if im_lossless img then inr ([], st, 0) else dqt_loop st (im_comps img) [] 0) with
  | inl e => inl e
  | inr (m, st', prec) =>
      inr (m ++ [MkSOF (sof_code img prec) (im_prec img) (im_height img) (im_width img)
                       (map (fun c => (k_id c, k_h c, k_v c, k_tq c)) (im_comps img))], st')
  end.

Definition needs_dc (img : image) (s : scanp) : bool := ((sp_Ss s =? 0) && (sp_Ah s =? 0)) || im_lossless img.
Definition needs_ac (img : image) (s : scanp) : bool := negb (sp_Se s =? 0) && negb (im_lossless img).

Fixpoint dht_loop (img : image) (s : scanp) (st : wstate) (comps : list Z) (acc : list mk) : cerr + (list mk * wstate) :=
  match comps with
  | [] => inr (acc, st)
  | ci :: r =>
      let c := get_comp img ci in
      match (if needs_dc img s then emit_dht st (k_td c) false else inr ([], st)) with
      | inl e => inl e
      | inr (m1, st1) =>
          match (if needs_ac img s then emit_dht st1 (k_ta c) true else inr ([], st1)) with
          | inl e => inl e
          | inr (m2, st2) => dht_loop img s st2 r (acc ++ m1 ++ m2)
          end
      end
  end.

(* emit_dac: one DAC with every conditioning table in use by the scan *)
Definition emit_dac (img : image) (s : scanp) : list mk :=
  let cs := map (get_comp img) (sp_comps s) in
  let dc_use i := (sp_Ss s =? 0) && (sp_Ah s =? 0) && existsb (fun c => k_td c =? i) cs in
  let ac_use i := negb (sp_Se s =? 0) && existsb (fun c => k_ta c =? i) cs in
  let entries := flat_map (fun n => let i := Z.of_nat n in
                    (if dc_use i then [(i, nthZ (im_dc_L img) n + nthZ (im_dc_U img) n * 16)] else []) ++
                    (if ac_use i then [(i + 16, nthZ (im_ac_K img) n)] else []))
                  (seq 0 (Z.to_nat g_NUM_ARITH_TBLS)) in
  match entries with [] => [] | _ => [MkDAC entries] end.

Definition sos_of (img : image) (s : scanp) : mk :=
  MkSOS (map (fun ci => let c := get_comp img ci in
                        (k_id c,
                         (if im_lossless img || ((sp_Ss s =? 0) && (sp_Ah s =? 0)) then k_td c else 0),
                         (if negb (sp_Se s =? 0) then k_ta c else 0))) (sp_comps s))
        (sp_Ss s) (sp_Se s) (sp_Ah s) (sp_Al s).

Definition write_scan_header (img : image) (s : scanp) (st : wstate) : cerr + (list mk * wstate) :=
  match (if im_arith img then inr (emit_dac img s, st) else dht_loop img s st (sp_comps s) []) with
  | inl e => inl e
  | inr (m, st1) =>
      let '(emit, last') := dri_step (w_last_ri st1) (sp_ri s) in
      inr (m ++ (if emit then [MkDRI (sp_ri s)] else []) ++ [sos_of img s],
           {| w_tbls := w_tbls st1; w_last_ri := last' |})
  end.

(* ---------------------------------------------------------------- the whole datastream *)
(* one pass event: scans k -> parameters, data k -> entropy-coded bytes of scan k (any bytes), regen k -> the
   state after the statistics pass of scan k installed new Huffman tables *)
Definition step_event (img : image) (scans : Z -> scanp) (data : Z -> list Z) (regen : Z -> wstate -> wstate)
           (e : event) (st : wstate) : cerr + (list mk * wstate) :=
  match e with
  | EvSOI => inr (write_file_header img st)
  | EvFrameHeader => write_frame_header img st
  | EvScanHeader k => write_scan_header img (scans k) st
  | EvGather k => inr ([], regen k st)
  | EvScanData k => inr ([MkData k (data k)], st)
  | EvEOI => inr ([MkEOI], st)
  end.

Fixpoint assemble (img : image) (scans : Z -> scanp) (data : Z -> list Z) (regen : Z -> wstate -> wstate)
         (ev : list event) (st : wstate) : cerr + list mk :=
  match ev with
  | [] => inr []
  | e :: r => match step_event img scans data regen e st with
              | inl x => inl x
              | inr (m, st') => match assemble img scans data regen r st' with
                                | inl x => inl x
                                | inr t => inr (m ++ t)
                                end
              end
  end.

(* finish_pass_gather (jchuff.c / jcphuff.c / jclhuff.c): the statistics pass of scan k installs new tables in
   exactly the slots the scan's header will need, with sent_table = FALSE (content = what the pass computed) *)
Definition unsend (newc : Z -> list Z * list Z) (st : wstate) (slot : Z) : wstate :=
  {| w_tbls := upd (Z.to_nat slot) (Some {| t_a := fst (newc slot); t_b := snd (newc slot); t_sent := false |}) (w_tbls st);
     w_last_ri := w_last_ri st |}.
Definition regen_std (img : image) (scans : Z -> scanp) (newc : Z -> Z -> list Z * list Z) (k : Z) (st : wstate) : wstate :=
  let s := scans k in
  fold_left (fun st ci => let c := get_comp img ci in
               let st1 := if needs_dc img s && tblno_ok (k_td c) then unsend (newc k) st (dcslot (k_td c)) else st in
               if needs_ac img s && tblno_ok (k_ta c) then unsend (newc k) st1 (acslot (k_ta c)) else st1)
            (sp_comps s) st.

(* cinfo->optimize_coding after jinit_c_master_control, and which scans skip their statistics pass *)
Definition optimize_eff (arith lossless progressive optimize force12 : bool) : bool :=
  if arith then false else lossless || progressive || optimize || force12.
Definition dcrefine_of (scans : Z -> scanp) (k : Z) : bool := (sp_Ss (scans k) =? 0) && negb (sp_Ah (scans k) =? 0).

(* ---------------------------------------------------------------- jpeg_write_tables / jpeg_write_marker *)
(* write_tables_only: SOI, every defined quantisation table, every defined Huffman table (unless arithmetic
   coding is selected), EOI -- through emit_dqt / emit_dht, so only unsent tables are written and all end up sent *)
Fixpoint wt_loop (st : wstate) (emit : wstate -> Z -> cerr + (list mk * wstate)) (present : wstate -> Z -> bool)
         (idx : list Z) (acc : list mk) : cerr + (list mk * wstate) :=
  match idx with
  | [] => inr (acc, st)
  | i :: r => if present st i then
                match emit st i with
                | inl e => inl e
                | inr (m, st') => wt_loop st' emit present r (acc ++ m)
                end
              else wt_loop st emit present r acc
  end.
Definition tbl_idx : list Z := map Z.of_nat (seq 0 (Z.to_nat g_NUM_QUANT_TBLS)).
Definition has (slotf : Z -> Z) (st : wstate) (i : Z) : bool := match get_tbl st (slotf i) with Some _ => true | None => false end.
Definition write_tables_only (arith : bool) (st0 : wstate) : cerr + (list mk * wstate) :=
  (* jpeg_write_tables runs jinit_marker_writer first: last_restart_interval = 0 *)
  let st := {| w_tbls := w_tbls st0; w_last_ri := 0 |} in
  match wt_loop st (fun st i => match emit_dqt st i with inl e => inl e | inr (m, st', _) => inr (m, st') end) (has qslot) tbl_idx [MkSOI] with
  | inl e => inl e
  | inr (m1, st1) =>
      if arith then inr (m1 ++ [MkEOI], st1) else
      match wt_loop st1 (fun st i =>
               match (if has dcslot st i then emit_dht st i false else inr ([], st)) with
               | inl e => inl e
               | inr (ma, sta) => match (if has acslot sta i then emit_dht sta i true else inr ([], sta)) with
                                  | inl e => inl e
                                  | inr (mb, stb) => inr (ma ++ mb, stb)
                                  end
               end) (fun _ _ => true) tbl_idx m1 with
      | inl e => inl e
      | inr (m2, st2) => inr (m2 ++ [MkEOI], st2)
      end
  end.

(* the API state machine of jcapimin.c / jcapistd.c as far as these calls look at it *)
Inductive gstate := CSTATE_START | CSTATE_SCANNING | CSTATE_RAW_OK | CSTATE_WRCOEFS.
(* jpeg_write_tables: only in CSTATE_START *)
Definition api_write_tables (g : gstate) (arith : bool) (st : wstate) : cerr + (list mk * wstate) :=
  match g with CSTATE_START => write_tables_only arith st | _ => inl BadState end.
(* jpeg_write_marker / jpeg_write_m_header: after jpeg_start_compress (or jpeg_write_coefficients) and before the
   first scanline; write_marker_header refuses more than 65533 data bytes *)
Definition api_write_marker (g : gstate) (next_scanline : Z) (code : Z) (data : list Z) : cerr + list mk :=
  if negb (next_scanline =? 0) || (match g with CSTATE_START => true | _ => false end) then inl BadState
  else if Z.of_nat (length data) >? g_MARKER_MAX_DATA then inl BadLength
  else inr [MkApp code data].

(* a compression whose application wrote `apps` right after jpeg_start_compress: the frame and scan headers are
   postponed (pass_startup / output pass), so the markers follow the file header *)
Definition assemble_with_apps (img : image) (scans : Z -> scanp) (data : Z -> list Z) (regen : Z -> wstate -> wstate)
           (apps : list (Z * list Z)) (ev : list event) (st : wstate) : cerr + list mk :=
  match ev with
  | EvSOI :: r =>
      let '(m, st') := write_file_header img st in
      match assemble img scans data regen r st' with
      | inl e => inl e
      | inr t => inr (m ++ map (fun a => MkApp (fst a) (snd a)) apps ++ t)
      end
  | _ => assemble img scans data regen ev st
  end.

(* ---------------------------------------------------------------- the reader's view *)
(* what a reader of the marker sequence knows: table contents per slot, restart interval in force *)
Record dview := { d_tbls : list (option (list Z * list Z)); d_ri : Z }.
Definition dview0 : dview := {| d_tbls := repeat None 12; d_ri := 0 |}.
Definition dview_step (d : dview) (m : mk) : dview :=
  match m with
  | MkSOI => {| d_tbls := d_tbls d; d_ri := 0 |}
  | MkDQT idx _ vals => {| d_tbls := upd (Z.to_nat (qslot idx)) (Some (vals, [])) (d_tbls d); d_ri := d_ri d |}
  | MkDHT idx bits vals =>
      {| d_tbls := upd (Z.to_nat (if idx <? 16 then dcslot idx else acslot (idx - 16))) (Some (bits, vals)) (d_tbls d); d_ri := d_ri d |}
  | MkDRI v => {| d_tbls := d_tbls d; d_ri := v |}
  | _ => d
  end.
Definition dget (d : dview) (slot : Z) : option (list Z * list Z) := nth (Z.to_nat slot) (d_tbls d) None.

(* the content a marker for this table carries *)
Definition content (slot : Z) (t : tbl) : list Z * list Z :=
  if slot <? 4 then (t_a t, []) else (bits16 t, huffvals t).

(* audit: replay the events; after the frame header every quantisation table a component refers to, and after
   every scan header every Huffman table the scan needs and the restart interval, must be known to the reader
   with exactly the content the encoder holds *)
Definition known (st : wstate) (d : dview) (slot : Z) : bool :=
  match get_tbl st slot, dget d slot with
  | Some t, Some c => let '(a, b) := content slot t in let '(a', b') := c in
                      (if list_eq_dec Z.eq_dec a a' then true else false) && (if list_eq_dec Z.eq_dec b b' then true else false)
  | _, _ => false
  end.
Definition check_event (img : image) (scans : Z -> scanp) (e : event) (st : wstate) (d : dview) : bool :=
  match e with
  | EvFrameHeader => im_lossless img || forallb (fun c => known st d (qslot (k_tq c))) (im_comps img)
  | EvScanHeader k =>
      let s := scans k in
      (d_ri d =? sp_ri s) &&
      (im_arith img ||
       forallb (fun ci => let c := get_comp img ci in
                  (negb (needs_dc img s) || known st d (dcslot (k_td c))) &&
                  (negb (needs_ac img s) || known st d (acslot (k_ta c)))) (sp_comps s))
  | _ => true
  end.
Fixpoint audit (img : image) (scans : Z -> scanp) (data : Z -> list Z) (regen : Z -> wstate -> wstate)
         (ev : list event) (st : wstate) (d : dview) : bool :=
  match ev with
  | [] => true
  | e :: r => match step_event img scans data regen e st with
              | inl _ => true
              | inr (m, st') => let d' := fold_left dview_step m d in
                                check_event img scans e st' d' && audit img scans data regen r st' d'
              end
  end.

(* number of table-definition markers for a slot in a trace *)
Definition defines (slot : Z) (m : mk) : bool :=
  match m with
  | MkDQT idx _ _ => qslot idx =? slot
  | MkDHT idx _ _ => (if idx <? 16 then dcslot idx else acslot (idx - 16)) =? slot
  | _ => false
  end.
Definition count_defs (slot : Z) (tr : list mk) : Z := Z.of_nat (length (filter (defines slot) tr)).

(* pass numbers reported at each prepare_for_pass (progress->completed_passes), and total_passes *)
Fixpoint pass_trace (fuel : nat) (optimize : bool) (dcrefine : Z -> bool) (total : Z) (m : mstate) : list Z :=
  if m_pass m >=? total then []
  else match fuel with
       | O => []
       | S k => let '(_, m') := one_pass optimize dcrefine m in
                (match m_pass_type m with huff_opt_pass => if dcrefine (m_scan m) then m_pass m + 1 else m_pass m | _ => m_pass m end)
                :: pass_trace k optimize dcrefine total m'
       end.
