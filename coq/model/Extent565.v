(* C11 -- store extent of the six RGB565 colour converters of src/jdcol565.c (ycc/rgb/gray, plain and
   dithered), one color_convert call = num_rows output rows.  Per row:
     outptr = *output_buf++;  num_cols = cinfo->output_width;              [reset_per_row]
     if (PACK_NEED_ALIGNMENT(outptr)) { store one INT16 at outptr; outptr += 2; num_cols--; }
     for (col = 0; col < (num_cols >> 1); col++) { WRITE_TWO_ALIGNED_PIXELS(outptr, rgb); outptr += 4; }
     if (num_cols & 1) store one INT16 at outptr;
   num_cols is a JDIMENSION (unsigned 32 bit).  reset_per_row = the assignment is inside the row loop
   (since 80b73fc; before, num_cols was initialised once per call).  No proofs. *)
From Coq Require Import List ZArith Bool.
From LJT Require Import model.Extent.
Import ListNotations.
Local Open Scope Z_scope.

Definition u32 (x : Z) : Z := x mod 2 ^ 32.
(* PACK_NEED_ALIGNMENT(ptr) = ((size_t)(ptr)) & 3 *)
Definition need_align (addr : Z) : bool := negb (addr mod 4 =? 0).

Fixpoint pair_stores (off : Z) (cnt : nat) : list (Z * Z) :=
  match cnt with O => [] | S k => (off, 4) :: pair_stores (off + 4) k end.

(* one row: the stores (byte offset relative to the row pointer, length), the value of num_cols after *)
Definition rgb565_row (num_cols addr : Z) : list (Z * Z) * Z :=
  let pre := need_align addr in
  let nc := if pre then u32 (num_cols - 1) else num_cols in
  let off := if pre then 2 else 0 in
  ((if pre then [(0, 2)] else []) ++ pair_stores off (Z.to_nat (nc / 2))
     ++ (if Z.odd nc then [(off + 4 * (nc / 2), 2)] else []), nc).
(* end of the stored extent of a row without building the list (nc may be ~2^32) *)
Definition rgb565_row_end (num_cols addr : Z) : Z :=
  let pre := need_align addr in
  let nc := if pre then u32 (num_cols - 1) else num_cols in
  (if pre then 2 else 0) + 4 * (nc / 2) + (if Z.odd nc then 2 else 0).

(* a call: rows at the given addresses; result = end of the stored extent of each row *)
Fixpoint rgb565_call_ends (reset_per_row : bool) (width : Z) (addrs : list Z) (num_cols : Z) : list Z :=
  match addrs with
  | [] => []
  | a :: t =>
    let nc0 := if reset_per_row then width else num_cols in
    let pre := need_align a in
    let nc := if pre then u32 (nc0 - 1) else nc0 in
    rgb565_row_end nc0 a :: rgb565_call_ends reset_per_row width t nc
  end.
