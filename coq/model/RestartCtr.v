(* RestartCtr.v -- the literal restart bookkeeping of the entropy coders, per MCU:
   encoder (jchuff.c encode_mcu_huff / jcphuff.c encode_mcu_* / jcarith.c):
       if (cinfo->restart_interval) if (entropy->restarts_to_go == 0) emit_restart(entropy->next_restart_num);
       ... code the MCU ...
       if (cinfo->restart_interval) { if (entropy->restarts_to_go == 0) { entropy->restarts_to_go = cinfo->restart_interval;
                                        entropy->next_restart_num++; entropy->next_restart_num &= 7; }
                                      entropy->restarts_to_go--; }
     start_pass: restarts_to_go = restart_interval; next_restart_num = 0
   decoder (jdhuff.c decode_mcu / jdphuff.c / jdarith.c + jdmarker.c read_restart_marker):
       if (cinfo->restart_interval) if (entropy->restarts_to_go == 0) process_restart();
            -> read_restart_marker expects M_RST0 + cinfo->marker->next_restart_num, then next_restart_num = (n + 1) & 7;
               restarts_to_go = cinfo->restart_interval
       ... decode the MCU ...;  restarts_to_go--
   The layer is independent of what an MCU is: it produces the sequence of events.  No proofs here. *)
From Coq Require Import List ZArith Bool Arith.
From LJT Require Import model.Seq.
Import ListNotations.
Local Open Scope Z_scope.

Inductive ev (M : Type) := EvRst (n : Z) | EvMcu (m : M).
Arguments EvRst {M} n.
Arguments EvMcu {M} m.
Inductive dev := DRst (n : Z) | DMcu.

Definition RST_MASK : Z := 7.

Section Ctr.
Variable M : Type.

Fixpoint enc_ctr (Ri rtg : nat) (num : Z) (ms : list M) : list (ev M) :=
  match ms with
  | [] => []
  | m :: t =>
      let restart := negb (Ri =? 0)%nat && (rtg =? 0)%nat in
      (if restart then [EvRst num] else []) ++
      EvMcu m ::
      (if (Ri =? 0)%nat then enc_ctr Ri rtg num t
       else if (rtg =? 0)%nat then enc_ctr Ri (Ri - 1) (Z.land (num + 1) RST_MASK) t
       else enc_ctr Ri (rtg - 1) num t)
  end.

Fixpoint dec_ctr (Ri rtg : nat) (num : Z) (count : nat) : list dev :=
  match count with
  | O => []
  | S c =>
      if negb (Ri =? 0)%nat && (rtg =? 0)%nat
      then DRst num :: DMcu :: dec_ctr Ri (Ri - 1) (Z.land (num + 1) RST_MASK) c
      else DMcu :: dec_ctr Ri (if (Ri =? 0)%nat then rtg else (rtg - 1)%nat) num c
  end.

Definition forget (e : ev M) : dev := match e with EvRst n => DRst n | EvMcu _ => DMcu end.

(* the chunked layer of model/Seq.v, as events *)
Fixpoint chunk_events (fuel Ri : nat) (n : Z) (ms : list M) : list (ev M) :=
  match fuel with
  | O => []
  | S f => map EvMcu (seg_take Ri ms) ++
           match seg_drop Ri ms with
           | [] => []
           | nxt => EvRst n :: chunk_events f Ri ((n + 1) mod 8) nxt
           end
  end.

(* bytes of an event sequence: the MCUs since the last restart are coded as one interval *)
Variable enc_seg : list M -> option (list bool).
Fixpoint render (evs : list (ev M)) (cur : list M) : option (list Z) :=
  match evs with
  | [] => match enc_seg cur with None => None | Some bits => Some (seg_bytes bits) end
  | EvMcu m :: t => render t (cur ++ [m])
  | EvRst n :: t =>
      match enc_seg cur with
      | None => None
      | Some bits => match render t [] with None => None | Some rest => Some (seg_bytes bits ++ [255; 208 + n] ++ rest) end
      end
  end.
End Ctr.
