(* CParamApi.v -- the parameter-setting API in front of jpeg_start_compress:
     jcparam.c   jpeg_quality_scaling, jpeg_set_quality, jpeg_set_linear_quality (through jpeg_add_quant_table =
                 CParams.quant_entry), jpeg_set_colorspace, jpeg_default_colorspace (tables generated from the switches)
     jcinit.c    jinit_compress_master: which modules are initialised for a parameter class
     turbojpeg-mp.c tj3Compress8/12/16 + turbojpeg.c setCompDefaults: the checks and the libjpeg parameters they produce *)
From Coq Require Import List ZArith Bool Lia.
From LJT Require Import model.Huff gen.GenParams model.CParams model.CMarker.
Import ListNotations.
Local Open Scope Z_scope.

(* ---------------------------------------------------------------- quality *)
Definition quality_scaling (quality : Z) : Z :=
  let q := if quality <=? 0 then g_QUALITY_MIN else quality in
  let q := if q >? g_QUALITY_MAX then g_QUALITY_MAX else q in
  if q <? 50 then g_QS_NUM / q else g_QS_BASE - q * g_QS_MUL.
(* jpeg_set_linear_quality: tables 0 and 1 *)
Definition linear_quality_tables (scale : Z) (force_baseline : bool) : list Z * list Z :=
  (map (fun b => quant_entry b scale force_baseline) g_std_luminance_quant_tbl,
   map (fun b => quant_entry b scale force_baseline) g_std_chrominance_quant_tbl).
Definition set_quality_tables (quality : Z) (force_baseline : bool) : list Z * list Z :=
  linear_quality_tables (quality_scaling quality) force_baseline.
(* what start_pass_fdctmgr demands of a table entry (F13 zero test) and hands to compute_reciprocal (F3) *)
Definition entry_passes_fdct (q : Z) : bool := negb (q =? 0) && (1 <=? islow_divisor q) && (islow_divisor q <=? 65535).

(* ---------------------------------------------------------------- colour spaces *)
Definition mk_comp (t : Z * Z * Z * Z * Z * Z) : mcomp :=
  let '(id, h, v, q, d, a) := t in {| k_id := id; k_h := h; k_v := v; k_tq := q; k_td := d; k_ta := a |}.
Record csinfo := { cs_jfif : bool; cs_adobe : bool; cs_comps : list mcomp }.
Inductive cs_err := BadJColorspace | CsComponentCount | BadInColorspace.
Definition set_colorspace (cs input_components : Z) : cs_err + csinfo :=
  if cs =? g_JCS_UNKNOWN then
    if (input_components <? 1) || (input_components >? g_MAX_COMPONENTS) then inl CsComponentCount
    else inr {| cs_jfif := false; cs_adobe := false;
                cs_comps := map (fun ci => mk_comp (Z.of_nat ci, 1, 1, 0, 0, 0)) (seq 0 (Z.to_nat input_components)) |}
  else match find (fun r => fst (fst (fst r)) =? cs) g_colorspaces with
       | Some (_, j, a, comps) => inr {| cs_jfif := j =? 1; cs_adobe := a =? 1; cs_comps := map mk_comp comps |}
       | None => inl BadJColorspace
       end.
Definition default_colorspace (in_cs input_components : Z) (lossless : bool) : cs_err + (Z * csinfo) :=
  match find (fun r => fst (fst r) =? in_cs) g_default_colorspace with
  | Some (_, lossy, lossl) => let cs := if lossless then lossl else lossy in
                              match set_colorspace cs input_components with inl e => inl e | inr i => inr (cs, i) end
  | None => inl BadInColorspace
  end.

(* ---------------------------------------------------------------- jinit_compress_master *)
Inductive entropy_enc := EncHuff | EncPhuff | EncLhuff | EncArith.
Record modules := { md_preprocess : bool;        (* colour converter + downsampler + prep controller *)
                    md_fdct : bool;              (* forward DCT + coefficient controller *)
                    md_lossless : bool;          (* lossless compressor + difference controller *)
                    md_entropy : entropy_enc;
                    md_full_buffer : bool }.     (* (num_scans > 1 || optimize_coding) *)
Definition select_modules (raw lossless arith progressive : bool) (prec num_scans : Z) (optimize : bool) : cerr + modules :=
  if lossless then
    if arith then inl ArithNotImpl
    else inr {| md_preprocess := negb raw; md_fdct := false; md_lossless := true; md_entropy := EncLhuff;
                md_full_buffer := (num_scans >? 1) || optimize |}
  else if negb ((prec =? 8) || (prec =? 12)) then inl BadPrecision
  else inr {| md_preprocess := negb raw; md_fdct := true; md_lossless := false;
              md_entropy := if arith then EncArith else if progressive then EncPhuff else EncHuff;
              md_full_buffer := (num_scans >? 1) || optimize |}.
(* the SOF marker each encoder's datastream carries *)
Definition sof_of_encoder (e : entropy_enc) (progressive baseline : bool) : Z :=
  match e with
  | EncArith => if progressive then g_M_SOF10 else g_M_SOF9
  | EncPhuff => g_M_SOF2
  | EncLhuff => g_M_SOF3
  | EncHuff => if baseline then g_M_SOF0 else g_M_SOF1
  end.

(* ---------------------------------------------------------------- TurboJPEG: tj3Compress8/12/16 *)
Record tjparams := { tp_quality : Z; tp_subsamp : Z; tp_precision : Z; tp_colorspace : Z;   (* -1 = unset *)
                     tp_lossless : bool; tp_psv : Z; tp_pt : Z;
                     tp_progressive : bool; tp_arith : bool; tp_optimize : bool;
                     tp_restart_blocks : Z; tp_restart_rows : Z }.
Inductive tj_err := TjInvalidArgument | TjQualityUnset | TjSubsampUnset | TjLibjpeg (e : cs_err) | TjBadProgression.
Record tjsetup := { ts_width : Z; ts_height : Z; ts_prec : Z; ts_in_components : Z; ts_lossless : bool;
                    ts_jcs : Z; ts_comps : list mcomp; ts_progressive : bool; ts_arith : bool; ts_optimize : bool;
                    ts_restart_interval : Z; ts_restart_in_rows : Z }.
Definition TJSAMP_GRAY : Z := 3.
Definition TJPF_CMYK : Z := 11.
(* bits = BITS_IN_JSAMPLE of the entry point (8, 12, 16) *)
Definition tj_compress_setup (bits : Z) (p : tjparams) (width height pixelFormat : Z) : tj_err + tjsetup :=
  if (width <=? 0) || (height <=? 0) || (pixelFormat <? 0) || (pixelFormat >=? g_TJ_NUMPF) then inl TjInvalidArgument
  else if negb (tp_lossless p) && (tp_quality p =? -1) then inl TjQualityUnset
  else if negb (tp_lossless p) && (tp_subsamp p =? -1) then inl TjSubsampUnset
  else
    let lo := if bits =? 8 then 2 else bits - 3 in
    let prec := if tp_lossless p && (lo <=? tp_precision p) && (tp_precision p <=? bits) then tp_precision p else bits in
    let in_cs := nthZ g_tj_pf2cs (Z.to_nat pixelFormat) in
    let incomp := nthZ g_tjPixelSize (Z.to_nat pixelFormat) in
    (* setCompDefaults: jpeg_set_defaults (default colour space), then either lossless or the lossy parameters *)
    match default_colorspace in_cs incomp false with
    | inl e => inl (TjLibjpeg e)
    | inr (cs0, i0) =>
        if tp_lossless p then
          (* jpeg_enable_lossless: Ss 1..7, Al < data_precision; the colour space is reset by the master *)
          if (tp_psv p <? g_PSV_MIN) || (tp_psv p >? g_PSV_MAX) || (tp_pt p <? 0) || (tp_pt p >=? prec) then inl TjBadProgression
          else inr {| ts_width := width; ts_height := height; ts_prec := prec; ts_in_components := incomp; ts_lossless := true;
                      ts_jcs := cs0; ts_comps := cs_comps i0; ts_progressive := false; ts_arith := false; ts_optimize := false;
                      ts_restart_interval := tp_restart_blocks p; ts_restart_in_rows := tp_restart_rows p |}
        else
          let subsamp := tp_subsamp p in
          let cs := if (0 <=? tp_colorspace p) && (tp_colorspace p <? g_TJ_NUMCS) then nthZ g_tjcs2jcs (Z.to_nat (tp_colorspace p))
                    else if subsamp =? TJSAMP_GRAY then g_JCS_GRAYSCALE
                    else if pixelFormat =? TJPF_CMYK then g_JCS_YCCK else g_JCS_YCbCr in
          match set_colorspace cs incomp with
          | inl e => inl (TjLibjpeg e)
          | inr i =>
              let hs := nthZ g_tjMCUWidth (Z.to_nat subsamp) / 8 in
              let vs := nthZ g_tjMCUHeight (Z.to_nat subsamp) / 8 in
              let comps := map (fun ic => let '(idx, c) := ic in
                                 if (idx =? 0)%nat || (idx =? 3)%nat then {| k_id := k_id c; k_h := hs; k_v := vs; k_tq := k_tq c; k_td := k_td c; k_ta := k_ta c |}
                                 else {| k_id := k_id c; k_h := 1; k_v := 1; k_tq := k_tq c; k_td := k_td c; k_ta := k_ta c |})
                               (combine (seq 0 (length (cs_comps i))) (cs_comps i)) in
              inr {| ts_width := width; ts_height := height; ts_prec := prec; ts_in_components := incomp; ts_lossless := false;
                     ts_jcs := cs; ts_comps := comps; ts_progressive := tp_progressive p; ts_arith := tp_arith p;
                     ts_optimize := (prec =? 8) && tp_optimize p;
                     ts_restart_interval := tp_restart_blocks p; ts_restart_in_rows := tp_restart_rows p |}
          end
    end.
