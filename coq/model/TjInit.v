(* C14 -- model of tj3Init() (src/turbojpeg.c) on top of the memory-manager model.

   tj3Init: this = malloc(sizeof(tjinstance)); memset; then
     TJINIT_COMPRESS   : _tjInitCompress(this)
     TJINIT_DECOMPRESS : _tjInitDecompress(this)
     TJINIT_TRANSFORM  : _tjInitCompress(this); if it failed return NULL; _tjInitDecompress(this)
   _tjInitCompress  : setjmp handler { [destroy]; free(this); return NULL; }
                      jpeg_create_compress (jinit_memory_mgr, PERMANENT small objects), jpeg_mem_dest_tj
   _tjInitDecompress: the same with jpeg_create_decompress / jpeg_mem_src_tj.
   [hd] = does the handler destroy the libjpeg object(s) created so far before free(this)?
   (gen/GenMemConst.v: tjinit_handler_destroys, read from the source.)
   tj3Destroy: jpeg_destroy_compress / jpeg_destroy_decompress as initialised, free(this). *)
From Coq Require Import List ZArith Bool.
From LJT Require Import model.MemMgr.
Import ListNotations.
Local Open Scope Z_scope.

Inductive itype := ICompress | IDecompress | ITransform.

Section TjInit.
Variable W : Z -> Z.
Variable c : cfg.
Variable hd : bool.

(* the PERMANENT small objects of one create call, in order; stops at the first ERREXIT *)
Fixpoint small_seq (m : mgr) (h : heap) (szs : list Z) : mgr * heap * bool :=
  match szs with
  | [] => (m, h, true)
  | sz :: r =>
      match alloc_small W c m h 0 sz with
      | (m1, h1, Some _) => (m1, h1, false)
      | (m1, h1, None) => small_seq m1 h1 r
      end
  end.

(* one half.  Result: the libjpeg object if it exists when the function returns, the heap,
   success.  On an ERREXIT the handler runs (without free(this), which the caller models). *)
Definition init_half (h : heap) (szs : list Z) : option mgr * heap * bool :=
  match jinit_memory_mgr W c h with
  | (None, h1, _) => (None, h1, false)
  | (Some m, h1, _) =>
      match small_seq m h1 szs with
      | (m1, h2, true) => (Some m1, h2, true)
      | (m1, h2, false) => if hd then (None, self_destruct c m1 h2, false) else (Some m1, h2, false)
      end
  end.

Record tjres := { r_ok : bool; r_heap : heap; r_objs : list mgr; r_this : option Z }.

Definition tj3_init (ty : itype) (h : heap) (sz_this : Z) (csz dsz : list Z) : tjres :=
  match malloc h (W sz_this) with
  | (h0, None) => {| r_ok := false; r_heap := h0; r_objs := []; r_this := None |}
  | (h0, Some this) =>
      match ty with
      | ICompress | IDecompress =>
          match init_half h0 (match ty with ICompress => csz | _ => dsz end) with
          | (Some m, h1, true) => {| r_ok := true; r_heap := h1; r_objs := [m]; r_this := Some this |}
          | (om, h1, _) =>
              {| r_ok := false; r_heap := free h1 this; r_objs := match om with Some m => [m] | None => [] end; r_this := None |}
          end
      | ITransform =>
          match init_half h0 csz with
          | (Some mc, h1, true) =>
              match init_half h1 dsz with
              | (Some md, h2, true) => {| r_ok := true; r_heap := h2; r_objs := [mc; md]; r_this := Some this |}
              | (omd, h2, _) =>
                  (* handler of the decompress half *)
                  let h3 := if hd then self_destruct c mc h2 else h2 in
                  {| r_ok := false; r_heap := free h3 this;
                     r_objs := (match omd with Some m => [m] | None => [] end) ++ (if hd then [] else [mc]); r_this := None |}
              end
          | (om, h1, _) =>
              {| r_ok := false; r_heap := free h1 this; r_objs := match om with Some m => [m] | None => [] end; r_this := None |}
          end
      end
  end.

(* tj3Destroy on the result of a successful tj3Init *)
Fixpoint destroy_all (objs : list mgr) (h : heap) : heap :=
  match objs with
  | [] => h
  | m :: r => destroy_all r (self_destruct c m h)
  end.

Definition tj3_destroy (r : tjres) : heap :=
  match r_this r with
  | Some this => free (destroy_all (r_objs r) (r_heap r)) this
  | None => r_heap r
  end.

(* what an application sees: init, and if it succeeded, destroy *)
Definition tj3_init_destroy (ty : itype) (h : heap) (sz_this : Z) (csz dsz : list Z) : bool * heap :=
  let r := tj3_init ty h sz_this csz dsz in (r_ok r, tj3_destroy r).

End TjInit.
