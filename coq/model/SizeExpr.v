(* C14 -- the size expressions of the malloc sites of the TurboJPEG API (generated: gen/GenTjAlloc.v) as trees
   evaluated (a) in unbounded integers and (b) as C evaluates them: every multiplication / addition / PAD() node in an
   unsigned type of [w] bits (w = 64 for size_t, 32 for JDIMENSION/unsigned, 31 for a non-negative int, whose overflow
   would be undefined).  Leaves: constants and variables with lower/upper bounds (C type range or libjpeg limit). *)
From Coq Require Import List ZArith Bool.
Import ListNotations.
Local Open Scope Z_scope.

Inductive sx :=
| SConst (n : Z)
| SVar (id : nat)
| SMul (w : Z) (a b : sx)
| SAdd (w : Z) (a b : sx)
| SDiv (a b : sx)
| SPad (w : Z) (a : sx) (p : Z).       (* PAD(a, p) = ((a + p - 1) & ~(p - 1)), p a power of two *)

Definition bounds := nat -> Z * Z.     (* variable -> (lower, upper) *)

Fixpoint exact (e : sx) (env : nat -> Z) : Z :=
  match e with
  | SConst n => n
  | SVar v => env v
  | SMul _ a b => exact a env * exact b env
  | SAdd _ a b => exact a env + exact b env
  | SDiv a b => exact a env / exact b env
  | SPad _ a p => (exact a env + p - 1) / p * p
  end.

Fixpoint wrapped (e : sx) (env : nat -> Z) : Z :=
  match e with
  | SConst n => n
  | SVar v => env v
  | SMul w a b => (wrapped a env * wrapped b env) mod 2 ^ w
  | SAdd w a b => (wrapped a env + wrapped b env) mod 2 ^ w
  | SDiv a b => wrapped a env / wrapped b env
  | SPad w a p => ((wrapped a env + p - 1) mod 2 ^ w) / p * p
  end.

(* upper bound of the value *)
Fixpoint ub (bd : bounds) (e : sx) : Z :=
  match e with
  | SConst n => n
  | SVar v => snd (bd v)
  | SMul _ a b => ub bd a * ub bd b
  | SAdd _ a b => ub bd a + ub bd b
  | SDiv a _ => ub bd a
  | SPad _ a p => ub bd a + p - 1
  end.

(* every node fits its C type; constants and bounds non-negative; divisors and PAD units at least 1 *)
Fixpoint fits (bd : bounds) (e : sx) : bool :=
  match e with
  | SConst n => 0 <=? n
  | SVar v => (0 <=? fst (bd v)) && (fst (bd v) <=? snd (bd v))
  | SMul w a b => fits bd a && fits bd b && (ub bd e <? 2 ^ w) && (0 <=? w)
  | SAdd w a b => fits bd a && fits bd b && (ub bd e <? 2 ^ w) && (0 <=? w)
  | SDiv a b => fits bd a && fits bd b && (match b with SVar v => 1 <=? fst (bd v) | SConst n => 1 <=? n | _ => false end)
  | SPad w a p => fits bd a && (1 <=? p) && (ub bd e <? 2 ^ w) && (0 <=? w)
  end.

Definition env_ok (bd : bounds) (env : nat -> Z) : Prop := forall v, fst (bd v) <= env v <= snd (bd v).
