(* CoefCtl.v -- the resume state machine of jccoefct.c compress_data / compress_output (and
   jctrans.c compress_output): one call processes the current iMCU row,
     for (yoffset = MCU_vert_offset; yoffset < MCU_rows_per_iMCU_row; yoffset++) {
       for (MCU_col_num = mcu_ctr; MCU_col_num < MCUs_per_row; MCU_col_num++)
         if (!encode_mcu(...)) { MCU_vert_offset = yoffset; mcu_ctr = MCU_col_num; return FALSE; }
       mcu_ctr = 0;                                   <- reset_per_row (generated fact)
     }
     iMCU_row_num++; start_iMCU_row();                 (mcu_ctr = 0; MCU_vert_offset = 0)
   The entropy encoder's success / suspension is an oracle: the list of results of the successive
   encode_mcu attempts (an exhausted list means "no more suspensions").  No proofs here. *)
From Coq Require Import List Arith Bool.
Import ListNotations.

Section Ctl.
Variable rows cols : nat.            (* MCU_rows_per_iMCU_row, MCUs_per_row *)
Variable reset_per_row : bool.

(* the MCU-column loop of row y from column col, n = columns left *)
Fixpoint col_loop (n col y : nat) (orc : list bool) : list (nat * nat) * option nat * list bool :=
  match n with
  | O => ([], None, orc)
  | S n' =>
      match orc with
      | false :: o' => ([], Some col, o')                       (* encode_mcu returned FALSE *)
      | _ => let '(e, r, o2) := col_loop n' (S col) y (tl orc) in ((y, col) :: e, r, o2)
      end
  end.

(* the yoffset loop: m rows left, current row y; c0 = value of coef->mcu_ctr when the row starts *)
Fixpoint row_loop (m y c0 : nat) (orc : list bool) : list (nat * nat) * option (nat * nat) * list bool :=
  match m with
  | O => ([], None, orc)
  | S m' =>
      let '(e, r, o1) := col_loop (cols - c0) c0 y orc in
      match r with
      | Some col => (e, Some (y, col), o1)
      | None => let '(e2, r2, o2) := row_loop m' (S y) (if reset_per_row then 0 else c0) o1 in (e ++ e2, r2, o2)
      end
  end.

(* repeated calls until the iMCU row is complete *)
Fixpoint drive (fuel : nat) (yoff ctr : nat) (orc : list bool) : option (list (nat * nat)) :=
  match fuel with
  | O => None
  | S f =>
      let '(e, r, o) := row_loop (rows - yoff) yoff ctr orc in
      match r with
      | None => Some e
      | Some (y, c) => match drive f y c o with Some e2 => Some (e ++ e2) | None => None end
      end
  end.

Definition raster : list (nat * nat) := flat_map (fun y => map (fun c => (y, c)) (seq 0 cols)) (seq 0 rows).
End Ctl.
