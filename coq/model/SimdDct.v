(* C05 -- fast integer forward DCT: src/jfdctfst.c (DCTELEM = short in the SIMD build) and
   the lane dataflow of simd/x86_64/jfdctfst-sse2.asm (used for SSE2 and AVX2 alike).
   Both execute the same AA&N flow graph; they differ in the lane algebra: the C code
   multiplies an int by the 8-bit constant and shifts right by CONST_BITS, the kernel
   shifts the 16-bit lane left by PRE_MULTIPLY_SCALE_BITS and takes pmulhw with the
   constant pre-shifted by CONST_SHIFT.  No proofs here. *)
From Coq Require Import List ZArith Bool.
From LJT Require Import lib.Words gen.GenSimdConst.
Import ListNotations.
Local Open Scope Z_scope.

Record alg := {
  A_add : Z -> Z -> Z;  A_sub : Z -> Z -> Z;
  A_mul1 : Z -> nat -> Z;            (* MULTIPLY(x, K)     *)
  A_mul_add : Z -> Z -> nat -> Z;    (* MULTIPLY(x + y, K) *)
  A_mul_sub : Z -> Z -> nat -> Z }.  (* MULTIPLY(x - y, K) *)
(* constant indices: 0 = 0.707106781, 1 = 0.382683433, 2 = 0.541196100, 3 = 1.306562965 *)

(* one 1-D pass of jpeg_fdct_ifast / of the kernel, statement by statement *)
Definition fdct1 (A : alg) (d : list Z) : list Z :=
  match d with
  | [d0; d1; d2; d3; d4; d5; d6; d7] =>
      let add := A_add A in let sub := A_sub A in
      let tmp0 := add d0 d7 in let tmp7 := sub d0 d7 in
      let tmp1 := add d1 d6 in let tmp6 := sub d1 d6 in
      let tmp2 := add d2 d5 in let tmp5 := sub d2 d5 in
      let tmp3 := add d3 d4 in let tmp4 := sub d3 d4 in
      (* even part *)
      let tmp10 := add tmp0 tmp3 in let tmp13 := sub tmp0 tmp3 in
      let tmp11 := add tmp1 tmp2 in let tmp12 := sub tmp1 tmp2 in
      let o0 := add tmp10 tmp11 in let o4 := sub tmp10 tmp11 in
      let z1 := A_mul_add A tmp12 tmp13 0 in
      let o2 := add tmp13 z1 in let o6 := sub tmp13 z1 in
      (* odd part *)
      let t10 := add tmp4 tmp5 in let t11 := add tmp5 tmp6 in let t12 := add tmp6 tmp7 in
      let z5 := A_mul_sub A t10 t12 1 in
      let z2 := add (A_mul1 A t10 2) z5 in
      let z4 := add (A_mul1 A t12 3) z5 in
      let z3 := A_mul1 A t11 0 in
      let z11 := add tmp7 z3 in let z13 := sub tmp7 z3 in
      let o5 := add z13 z2 in let o3 := sub z13 z2 in
      let o1 := add z11 z4 in let o7 := sub z11 z4 in
      [o0; o1; o2; o3; o4; o5; o6; o7]
  | _ => []
  end.

(* ---- C: every DCTELEM assignment truncates to a short; the multiply is done in int ---- *)
Definition sw (x : Z) : Z := s16 (w16 x).
Definition c_K (k : nat) : Z :=
  nth k [c_jfdctfst_FIX_0_707106781; c_jfdctfst_FIX_0_382683433; c_jfdctfst_FIX_0_541196100; c_jfdctfst_FIX_1_306562965] 0.
Definition c_mul (v : Z) (k : nat) : Z := sw (Z.shiftr (v * c_K k) c_jfdctfst_CONST_BITS).
Definition c_alg : alg :=
  {| A_add := fun a b => sw (a + b); A_sub := fun a b => sw (a - b);
     A_mul1 := fun x k => c_mul x k; A_mul_add := fun x y k => c_mul (x + y) k; A_mul_sub := fun x y k => c_mul (x - y) k |}.

(* ---- asm: word lanes ---- *)
Definition a_K (k : nat) : Z :=
  w16 (nth k [nth 0 (snd jfdctfst_sse2_PW_F0707) 0; nth 0 (snd jfdctfst_sse2_PW_F0382) 0;
              nth 0 (snd jfdctfst_sse2_PW_F0541) 0; nth 0 (snd jfdctfst_sse2_PW_F1306) 0] 0).
Definition a_pre : Z := jfdctfst_sse2_PRE_MULTIPLY_SCALE_BITS.
Definition asm_alg : alg :=
  {| A_add := paddw; A_sub := psubw;
     A_mul1 := fun x k => pmulhw (psllw x a_pre) (a_K k);
     A_mul_add := fun x y k => pmulhw (psllw (paddw x y) a_pre) (a_K k);
     A_mul_sub := fun x y k => pmulhw (psubw (psllw x a_pre) (psllw y a_pre)) (a_K k) |}.

(* the five multiply operands of a pass, as the C code sees them (int values) *)
Definition c_operands (d : list Z) : list Z :=
  match d with
  | [d0; d1; d2; d3; d4; d5; d6; d7] =>
      let tmp0 := sw (d0 + d7) in let tmp7 := sw (d0 - d7) in let tmp1 := sw (d1 + d6) in let tmp6 := sw (d1 - d6) in
      let tmp2 := sw (d2 + d5) in let tmp5 := sw (d2 - d5) in let tmp3 := sw (d3 + d4) in let tmp4 := sw (d3 - d4) in
      let tmp13 := sw (tmp0 - tmp3) in let tmp12 := sw (tmp1 - tmp2) in
      let t10 := sw (tmp4 + tmp5) in let t11 := sw (tmp5 + tmp6) in let t12 := sw (tmp6 + tmp7) in
      [tmp12 + tmp13; t10 - t12; t10; t12; t11]
  | _ => []
  end.

(* ---- the 8x8 transform: pass 1 on rows, pass 2 on columns ---- *)
Fixpoint transpose (m : list (list Z)) : list (list Z) :=
  match m with
  | [] => repeat [] 8
  | r :: t => map2 (fun x col => x :: col) r (transpose t)
  end.
Definition fdct2 (A : alg) (rows : list (list Z)) : list (list Z) :=
  transpose (map (fdct1 A) (transpose (map (fdct1 A) rows))).
Fixpoint chunk8 (n : nat) (l : list Z) : list (list Z) :=
  match n with O => [] | S k => firstn 8 l :: chunk8 k (skipn 8 l) end.
Definition c_fdct_ifast (blk : list Z) : list Z := concat (fdct2 c_alg (chunk8 8 blk)).
Definition asm_fdct_ifast (blk : list Z) : list Z := map s16 (concat (fdct2 asm_alg (chunk8 8 (map w16 blk)))).

(* does any multiply operand of the C computation (pass 1 on the rows, pass 2 on the columns of the
   pass-1 result) leave the 14-bit range a 2-bit pre-shift can hold?  Used by the check to classify blocks. *)
Definition in14b (v : Z) : bool := (-8192 <=? v) && (v <? 8192).
Definition c_wraps14 (blk : list Z) : bool :=
  let rows := chunk8 8 blk in
  let p1 := map (fdct1 c_alg) rows in
  negb (forallb (fun r => forallb in14b (c_operands r)) rows &&
        forallb (fun r => forallb in14b (c_operands r)) (transpose p1)).
