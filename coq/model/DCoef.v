(* DCoef.v -- extents and indices of the coefficient controller (jdcoefct.c) as functions of header fields only (C01).
   Virtual block array of a component (jinit_d_coef_controller):
       columns = jround_up(width_in_blocks, h_samp_factor), rows = jround_up(height_in_blocks, v_samp_factor)
   with width_in_blocks / height_in_blocks / total_iMCU_rows / MCUs_per_row as computed by initial_setup and
   per_scan_setup (model/DMarkers.v).  consume_data:
       access_virt_barray(whole_image[ci], input_iMCU_row * v, v)        input_iMCU_row < total_iMCU_rows
       buffer[ci][yindex + yoffset] + MCU_col_num * MCU_width + xindex    MCU_buffer[blkn++]
   No proofs here. *)
From Coq Require Import List ZArith Bool Lia.
From LJT Require Import gen.GenLimits model.Huff model.DMarkers.
Import ListNotations.
Local Open Scope Z_scope.

Definition round_up (a b : Z) : Z := div_round_up a b * b.

(* geometry of one component under a frame: sampling factors h v, frame maxima mh mv, image W x H, lossy (data unit 8) *)
Definition wib (W h mh : Z) : Z := div_round_up (W * h) (mh * L_DCTSIZE).
Definition hib (H v mv : Z) : Z := div_round_up (H * v) (mv * L_DCTSIZE).
Definition total_iMCU_rows (H mv : Z) : Z := div_round_up H (mv * L_DCTSIZE).
Definition varr_cols (W h mh : Z) : Z := round_up (wib W h mh) h.
Definition varr_rows (H v mv : Z) : Z := round_up (hib H v mv) v.

(* consume_data, one block fetch: (row window start, row inside window, column) for MCU column m, iMCU row r *)
Definition interleaved_col (m h x : Z) : Z := m * h + x.          (* MCU_col_num * MCU_width + xindex, MCU_width = h *)
Definition interleaved_mcus_per_row (W mh : Z) : Z := div_round_up W (mh * L_DCTSIZE).
Definition window_last_row (r v : Z) : Z := r * v + v - 1.        (* last row requested from access_virt_barray *)

(* blocks of one MCU in an interleaved scan: sum of h*v; MCU_buffer[blkn] with blkn below it *)
Definition mcu_blocks (comps : list (Z * Z)) : Z := fold_right (fun c a => fst c * snd c + a) 0 comps.
