(* LosslessPixels.v -- the packed-pixel side of the TurboJPEG lossless path:
     turbojpeg-mp.c tj3Compress*/tj3Decompress*: row_pointer[i] = &buf[i * pitch]
                    or &buf[(height - i - 1) * pitch] (TJPARAM_BOTTOMUP)
     jccolext.c rgb_rgb_convert_internal / jccolor.c null_convert, grayscale_convert:
                    outptr_k[col] = inptr[offset_k]; inptr += pixelsize
     jdcolext.c rgb_rgb_convert_internal / jdcolor.c null_convert, grayscale_convert:
                    outptr[offset_k] = inptr_k[col] (alpha := _MAXJSAMPLE); outptr += pixelsize
   In lossless mode no other colour conversion is allowed (jccolor.c / jdcolor.c).
   The buffer is a flat list of samples; offsets and pixel size per pixel format
   are generated from jmorecfg.h / turbojpeg.h (gen/GenLossless.v). *)
From Coq Require Import List ZArith Bool.
From LJT Require Import model.Huff.
Import ListNotations.

Definition row_start (bottomup : bool) (h pitch i : nat) : nat :=
  if bottomup then (h - i - 1) * pitch else i * pitch.

(* address of the sample of component slot k (offset offs[k]) of pixel x in row i *)
Definition addr (bottomup : bool) (h pitch ps : nat) (offs : list nat) (i x k : nat) : nat :=
  row_start bottomup h pitch i + x * ps + nth k offs 0.

(* compressor side: the component planes read from the packed buffer *)
Definition gather (bottomup : bool) (h pitch ps : nat) (offs : list nat) (buf : list Z) (k i x : nat) : Z :=
  nth (addr bottomup h pitch ps offs i x k) buf 0%Z.

(* decompressor side: the stores, in the order of the loops (rows, columns,
   component slots; an alpha slot is one more slot whose value is _MAXJSAMPLE) *)
Definition writes (bottomup : bool) (w h pitch ps : nat) (offs : list nat) (val : nat -> nat -> nat -> Z)
  : list (nat * Z) :=
  flat_map (fun i => flat_map (fun x =>
     map (fun k => (addr bottomup h pitch ps offs i x k, val k i x)) (seq 0 (length offs))) (seq 0 w)) (seq 0 h).

Definition scatter (bottomup : bool) (w h pitch ps : nat) (offs : list nat) (val : nat -> nat -> nat -> Z)
           (buf : list Z) : list Z :=
  fold_left (fun b av => upd (fst av) (snd av) b) (writes bottomup w h pitch ps offs val) buf.
