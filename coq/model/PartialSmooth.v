(* C08 -- interblock smoothing (jdcoefct.c decompress_smooth_data) under a horizontal crop:
   which block columns supply the 5x5 DC window of block column b.

   The C code slides DC01..DC25 over the block row: it starts at first_MCU_col[ci] with every
   column of the window initialised from that column, loads the two right-hand neighbours while
   block_num (+1) < last_block_column, and shifts left after each block.  In closed form the five
   columns read for block b (first <= b <= lbc) are
       max(b-2, first), max(b-1, first), b, min(b+1, lbc), min(b+2, lbc).
   A full-width decode has first = 0 and lbc = width_in_blocks - 1. *)
From Coq Require Import List ZArith Bool.
Import ListNotations.
Local Open Scope Z_scope.

Definition smooth_cols (first lbc b : Z) : list Z :=
  [Z.max (b - 2) first; Z.max (b - 1) first; b; Z.min (b + 1) lbc; Z.min (b + 2) lbc].

Definition full_cols (wib b : Z) : list Z := smooth_cols 0 (wib - 1) b.

(* last_block_column as the code computes it: width_in_blocks - 1 (generated flag true) or, as a
   crop-dependent variant would, last_MCU_col[ci] *)
Definition lbc_of (lbc_is_width : bool) (wib last : Z) : Z := if lbc_is_width then wib - 1 else last.

(* leftmost column the window may read: first_MCU_col[ci], or -- with the repair of crop-hazard7 (generated flag), which
   loads the real left-hand neighbours of the first block column of the region -- block column 0 *)
Definition lo_of (left_real : bool) (first : Z) : Z := if left_real then 0 else first.

(* region columns (relative to the aligned left edge) that the replicated left neighbours can reach:
   two block columns of the component with the widest blocks (= 2 * alignment), plus the one output
   column the triangle filter of fancy h2 upsampling adds *)
Definition smooth_left_band (left_real : bool) (align : Z) (fancy : bool) : Z :=
  if left_real then 0 else 2 * align + (if fancy then 1 else 0).

(* is interblock smoothing active for the frames the check generates?  mode: 1 complete simple progression,
   3..5 truncated after 1..3 scans, 6/7 incomplete scan scripts; bscan: buffered-image output pass *)
Definition smoothing_active (mode bscan : Z) : bool :=
  ((3 <=? mode) && (mode <=? 7)) || ((mode =? 1) && (1 <=? bscan) && (bscan <=? 3)).

(* turbojpeg-mp.c tj3Decompress8/12/16: row_pointer[i] = &dstBuf[anchor(i) * pitch].  The bottom-up anchor is
   croppedHeight - i - 1 (generated flag true); a variant anchored at the scaled image height is kept for comparison *)
Definition tj_row_anchor (bottomup anchored_at_cropped : bool) (outh croppedh i : Z) : Z :=
  if bottomup then (if anchored_at_cropped then croppedh else outh) - i - 1 else i.
