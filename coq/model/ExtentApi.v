(* C11 -- the API level: which caller-memory accesses the model attributes to each
   TurboJPEG call, and the documented extent they have to stay in.  No proofs.
   Buffer 0 is the packed-pixel buffer, buffer 1+c is plane c. *)
From Coq Require Import List ZArith Bool.
From LJT Require Import model.Extent.
Import ListNotations.
Local Open Scope Z_scope.

Inductive api_call :=
| CallCompress (w pitch h ps ssize : Z) (bottomUp : bool)                      (* tj3Compress8/12/16 *)
| CallDecompress (jw jh num den : Z) (crop : region) (pitch ps ssize : Z) (bottomUp : bool)
                                                                               (* tj3Decompress8/12/16 *)
| CallEncodeYUVPlanes (w pitch h ps : Z) (bottomUp : bool) (ss : Z) (strides : list Z)
| CallDecodeYUVPlanes (w pitch h ps : Z) (bottomUp : bool) (ss : Z) (strides : list Z)
| CallDecompressToYUVPlanes (jw jh num den ss : Z) (strides : list Z)
| CallCompressFromYUVPlanes (w h ss : Z) (strides : list Z).

Definition stride_of (strides : list Z) (comp : Z) : Z := nth (Z.to_nat comp) strides 0.
Definition to_plane_buf (a : access) : access := mkAcc (a_buf a + 1) (a_off a) (a_len a) (a_rw a).
Definition all_planes (ss : Z) (f : Z -> list access) : list access :=
  flat_map (fun c => map to_plane_buf (f c)) (comps_from 0 (Z.to_nat (ncomp ss))).

Definition model_trace (c : api_call) : list access :=
  match c with
  | CallCompress w pitch h ps ssize bu => packed_accesses R w pitch h ps ssize bu
  | CallDecompress jw jh num den crop pitch ps ssize bu => decompress_accesses jw jh num den crop pitch ps ssize bu
  | CallEncodeYUVPlanes w pitch h ps bu ss strides =>
      packed_accesses R w pitch h ps 1 bu ++ all_planes ss (fun c => encdec_plane W c w h ss (stride_of strides c))
  | CallDecodeYUVPlanes w pitch h ps bu ss strides =>
      all_planes ss (fun c => encdec_plane R c w h ss (stride_of strides c)) ++ packed_accesses W w pitch h ps 1 bu
  | CallDecompressToYUVPlanes jw jh num den ss strides =>
      all_planes ss (fun c => rawdata_plane W c (tjscaled jw num den) (tjscaled jh num den) ss (stride_of strides c) (8 * num / den))
  | CallCompressFromYUVPlanes w h ss strides =>
      all_planes ss (fun c => rawdata_plane R c w h ss (stride_of strides c) 8)
  end.

(* the documented extent: whole rows of the packed image / of the planes, of the right
   kind (the source is only read, the destination only written) *)
Definition in_packed (k : rw) (w pitch h ps ssize : Z) (a : access) : Prop :=
  a_buf a = 0 /\ a_rw a = k /\
  exists i, 0 <= i < h /\ i * (eff_pitch pitch w ps * ssize) <= a_off a /\
            a_off a + a_len a <= i * (eff_pitch pitch w ps * ssize) + w * ps * ssize.
Definition in_planes (k : rw) (width height ss : Z) (strides : list Z) (a : access) : Prop :=
  exists c, 0 <= c < ncomp ss /\ a_buf a = c + 1 /\ a_rw a = k /\
  let pw := plane_w c width ss in let st := eff_stride (stride_of strides c) pw in
  exists r, 0 <= r < plane_h c height ss /\ r * st <= a_off a /\ a_off a + a_len a <= r * st + pw.

Definition allowed (c : api_call) (a : access) : Prop :=
  match c with
  | CallCompress w pitch h ps ssize _ => in_packed R w pitch h ps ssize a
  | CallDecompress jw jh num den crop pitch ps ssize _ =>
      in_packed W (dec_out_w jw num den crop) pitch (dec_out_h jh num den crop) ps ssize a
  | CallEncodeYUVPlanes w pitch h ps _ ss strides => in_packed R w pitch h ps 1 a \/ in_planes W w h ss strides a
  | CallDecodeYUVPlanes w pitch h ps _ ss strides => in_packed W w pitch h ps 1 a \/ in_planes R w h ss strides a
  | CallDecompressToYUVPlanes jw jh num den ss strides =>
      in_planes W (tjscaled jw num den) (tjscaled jh num den) ss strides a
  | CallCompressFromYUVPlanes w h ss strides => in_planes R w h ss strides a
  end.

Definition crop_ok (jw jh num den : Z) (c : region) : Prop :=
  c = mkRegion 0 0 0 0 \/
  (1 <= r_w c /\ 1 <= r_h c /\ 0 <= r_x c /\ 0 <= r_y c /\
   r_x c + r_w c <= tjscaled jw num den /\ r_y c + r_h c <= tjscaled jh num den).
Definition pitch_ok (w pitch ps : Z) : Prop := pitch = 0 \/ w * ps <= pitch.
Definition strides_ok (width ss : Z) (strides : list Z) : Prop :=
  forall c, 0 <= c < ncomp ss -> stride_of strides c = 0 \/ plane_w c width ss <= stride_of strides c.

Definition valid_call (c : api_call) : Prop :=
  match c with
  | CallCompress w pitch h ps ssize _ => 1 <= w /\ 1 <= h /\ 1 <= ps /\ 1 <= ssize /\ pitch_ok w pitch ps
  | CallDecompress jw jh num den crop pitch ps ssize _ =>
      1 <= jw /\ 1 <= jh /\ 1 <= num /\ 1 <= den /\ crop_ok jw jh num den crop /\ 1 <= ps /\ 1 <= ssize /\
      pitch_ok (dec_out_w jw num den crop) pitch ps
  | CallEncodeYUVPlanes w pitch h ps _ ss strides
  | CallDecodeYUVPlanes w pitch h ps _ ss strides =>
      1 <= w /\ 1 <= h /\ 1 <= ps /\ pitch_ok w pitch ps /\ 0 <= ss <= 6 /\ strides_ok w ss strides
  | CallDecompressToYUVPlanes jw jh num den ss strides =>
      1 <= jw /\ 1 <= jh /\ 1 <= num /\ 1 <= den /\ 0 <= ss <= 6 /\ strides_ok (tjscaled jw num den) ss strides
  | CallCompressFromYUVPlanes w h ss strides => 1 <= w /\ 1 <= h /\ 0 <= ss <= 6 /\ strides_ok w ss strides
  end.

(* The property, as a statement about ANY function giving the caller-memory accesses
   of a call: applied to the accesses of the compiled library (machine loads and
   stores) it is C11 itself. *)
Definition extent_respected (trace : api_call -> list access) : Prop :=
  forall c, valid_call c -> forall a, In a (trace c) -> 0 < a_len a -> allowed c a.

(* ---- what the run-time tie prints for one buffer: its minimal size and the merged,
   sorted set of bytes the model says are written ---- *)
(* bytes from the buffer start to the end of the last row *)
Definition packed_size (w pitch h ps ssize : Z) : Z := ((h - 1) * eff_pitch pitch w ps + w * ps) * ssize.

(* unified-buffer entry points: plane c lives at unified_off c with stride PAD(pw_c, align);
   f c stride is the plane-relative access list; the YUV buffer is buffer 1 *)
Definition unified_planes (ss width height align : Z) (f : Z -> Z -> list access) : list access :=
  flat_map (fun c => map (fun a => mkAcc 1 (unified_off c width height ss align + a_off a) (a_len a) (a_rw a))
                         (f c (PAD (plane_w c width ss) align)))
           (comps_from 0 (Z.to_nat (ncomp ss))).

Definition writes (l : list access) : list access :=
  filter (fun a => match a_rw a with W => true | R => false end) l.
