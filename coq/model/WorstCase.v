(* C13, worst-case clause: the forward path of ONE 8-bit component at quality 100 with the
   standard Huffman tables -- sample centring, the accurate integer DCT (jfdctint.c
   jpeg_fdct_islow), quantisation by 8 (quantiser 1, jcdctmgr.c), and the bits that
   jchuff.c encode_one_block emits -- just enough to count how many bits an image costs.
   No proofs here.  Constants come from gen/GenWorstCase.v and gen/GenStdHuff.v. *)
From Coq Require Import List ZArith Bool.
From LJT Require Import gen.GenWorstCase gen.GenStdHuff gen.GenDest model.Huff model.Dest.
Import ListNotations.
Local Open Scope Z_scope.

Definition DESCALE (x n : Z) : Z := Z.shiftr (x + Z.shiftl 1 (n - 1)) n.
Definition el (l : list Z) (i : nat) : Z := nth i l 0.

(* one 8-point pass of jpeg_fdct_islow; pass2 = the column pass *)
Definition fdct_1d (pass2 : bool) (d : list Z) : list Z :=
  let tmp0 := el d 0 + el d 7 in let tmp7 := el d 0 - el d 7 in
  let tmp1 := el d 1 + el d 6 in let tmp6 := el d 1 - el d 6 in
  let tmp2 := el d 2 + el d 5 in let tmp5 := el d 2 - el d 5 in
  let tmp3 := el d 3 + el d 4 in let tmp4 := el d 3 - el d 4 in
  let tmp10 := tmp0 + tmp3 in let tmp13 := tmp0 - tmp3 in
  let tmp11 := tmp1 + tmp2 in let tmp12 := tmp1 - tmp2 in
  let sh := if pass2 then wc_const_bits + wc_pass1_bits else wc_const_bits - wc_pass1_bits in
  let o0 := if pass2 then DESCALE (tmp10 + tmp11) wc_pass1_bits else Z.shiftl (tmp10 + tmp11) wc_pass1_bits in
  let o4 := if pass2 then DESCALE (tmp10 - tmp11) wc_pass1_bits else Z.shiftl (tmp10 - tmp11) wc_pass1_bits in
  let z1 := (tmp12 + tmp13) * wc_FIX_0_541196100 in
  let o2 := DESCALE (z1 + tmp13 * wc_FIX_0_765366865) sh in
  let o6 := DESCALE (z1 + tmp12 * (- wc_FIX_1_847759065)) sh in
  let z1 := tmp4 + tmp7 in let z2 := tmp5 + tmp6 in
  let z3 := tmp4 + tmp6 in let z4 := tmp5 + tmp7 in
  let z5 := (z3 + z4) * wc_FIX_1_175875602 in
  let tmp4 := tmp4 * wc_FIX_0_298631336 in
  let tmp5 := tmp5 * wc_FIX_2_053119869 in
  let tmp6 := tmp6 * wc_FIX_3_072711026 in
  let tmp7 := tmp7 * wc_FIX_1_501321110 in
  let z1 := z1 * (- wc_FIX_0_899976223) in
  let z2 := z2 * (- wc_FIX_2_562915447) in
  let z3 := z3 * (- wc_FIX_1_961570560) + z5 in
  let z4 := z4 * (- wc_FIX_0_390180644) + z5 in
  let o7 := DESCALE (tmp4 + z1 + z3) sh in
  let o5 := DESCALE (tmp5 + z2 + z4) sh in
  let o3 := DESCALE (tmp6 + z2 + z3) sh in
  let o1 := DESCALE (tmp7 + z1 + z4) sh in
  [o0; o1; o2; o3; o4; o5; o6; o7].

Fixpoint rows8 (n : nat) (l : list Z) : list (list Z) :=
  match n with O => [] | S k => firstn 8 l :: rows8 k (skipn 8 l) end.
Definition col (m : list (list Z)) (j : nat) : list Z := map (fun r => el r j) m.
Definition transpose8 (m : list (list Z)) : list (list Z) := map (col m) (seq 0 8).

Definition fdct_islow (data : list Z) : list Z :=
  let p1 := map (fdct_1d false) (rows8 8 data) in
  let p2 := map (fdct_1d true) (transpose8 p1) in
  concat (transpose8 p2).

(* quantiser 1 at quality 100 -> divisor 8, rounding to nearest on the magnitude *)
Definition quant8 (t : Z) : Z := if t <? 0 then - ((- t + 4) / 8) else (t + 4) / 8.

(* the 64 quantised coefficients (natural order) of one block of samples *)
Definition block_coefs (px : list Z) : list Z := map quant8 (fdct_islow (map (fun x => x - wc_center) px)).

(* ---- jchuff.c encode_one_block with the standard luminance tables *)
Definition dc_tbl : option ctbl := make_c_derived std_bits_dc_luminance std_val_dc_luminance 15.
Definition ac_tbl : option ctbl := make_c_derived std_bits_ac_luminance std_val_ac_luminance 255.

(* nbits low bits of the value (value - 1 for negative values) *)
Definition val_bits (v nb : Z) : list bool := bits_of (Z.to_nat nb) (if v <? 0 then v - 1 else v).

Fixpoint rep_opt (n : nat) (c : option (list bool)) : option (list bool) :=
  match n with
  | O => Some []
  | S k => match c, rep_opt k c with Some a, Some b => Some (a ++ b) | _, _ => None end
  end.

Definition cat_opt (a b : option (list bool)) : option (list bool) :=
  match a, b with Some x, Some y => Some (x ++ y) | _, _ => None end.

(* AC coefficients in zigzag order, r = current run of zeros *)
Fixpoint enc_ac (ac : ctbl) (l : list Z) (r : Z) : option (list bool) :=
  match l with
  | [] => if 0 <? r then encode_sym ac 0 else Some []
  | v :: t =>
      if v =? 0 then enc_ac ac t (r + 1)
      else
        let nb := nbits (Z.abs v) in
        cat_opt (rep_opt (Z.to_nat (r / 16)) (encode_sym ac 240))
          (cat_opt (encode_sym ac ((r mod 16) * 16 + nb))
             (cat_opt (Some (val_bits v nb)) (enc_ac ac t 0)))
  end.

Definition enc_block (dc ac : ctbl) (last_dc : Z) (coefs : list Z) : option (list bool) :=
  let diff := el coefs 0 - last_dc in
  let nb := nbits (Z.abs diff) in
  let zz := map (el coefs) (skipn 1 wc_natural_order) in
  cat_opt (encode_sym dc nb) (cat_opt (Some (val_bits diff nb)) (enc_ac ac zz 0)).

(* ---- bytes of the entropy-coded segment: bits packed MSB first, a zero byte stuffed behind
        every 0xFF (jchuff.c EMIT_BYTE), the last byte padded with ones (flush_bits).
        state = (bits of the current byte, how many, bytes so far) *)
Fixpoint feed (bs : list bool) (cur n acc : Z) : Z * Z * Z :=
  match bs with
  | [] => (cur, n, acc)
  | b :: t =>
      let cur' := 2 * cur + (if b then 1 else 0) in
      if n =? 7 then feed t 0 0 (acc + (if cur' =? 255 then 2 else 1))
      else feed t cur' (n + 1) acc
  end.
Definition flush (st : Z * Z * Z) : Z :=
  let '(cur, n, acc) := st in
  if n =? 0 then acc
  else let v := cur * 2 ^ (8 - n) + (2 ^ (8 - n) - 1) in acc + (if v =? 255 then 2 else 1).

Fixpoint scan_from (dc ac : ctbl) (last_dc : Z) (blocks : list (list Z)) (st : Z * Z * Z) (nbits_acc : Z)
  : option (Z * Z) :=
  match blocks with
  | [] => Some (flush st, nbits_acc)
  | px :: t =>
      let c := block_coefs px in
      match enc_block dc ac last_dc c with
      | Some bs => let '(cur, n, acc) := st in
                   scan_from dc ac (el c 0) t (feed bs cur n acc) (nbits_acc + Z.of_nat (length bs))
      | None => None
      end
  end.

(* (bytes, bits) of the entropy-coded segment of a single-component scan, blocks in scan order *)
Definition scan_size (blocks : list (list Z)) : option (Z * Z) :=
  match dc_tbl, ac_tbl with
  | Some dc, Some ac => scan_from dc ac 0 blocks (0, 0, 0) 0
  | _, _ => None
  end.
Definition scan_bytes (blocks : list (list Z)) : option Z := option_map fst (scan_size blocks).

(* bits of one block given the previous DC value (for the correspondence driver) *)
Definition block_bits (last_dc : Z) (px : list Z) : option (list bool) :=
  match dc_tbl, ac_tbl with
  | Some dc, Some ac => enc_block dc ac last_dc (block_coefs px)
  | _, _ => None
  end.

Definition valid_block (px : list Z) : bool :=
  (length px =? 64)%nat && forallb (fun x => (0 <=? x) && (x <=? 255)) px.

(* the adversarial block found by hill climbing on the real encoder (harness/c13.c adv_block) *)
Definition adv_block : list Z :=
  [0; 3; 250; 255; 255; 255; 13; 4;      255; 255; 255; 0; 255; 250; 0; 0;
   15; 1; 252; 255; 255; 0; 4; 0;        0; 246; 0; 0; 0; 3; 251; 255;
   255; 0; 0; 0; 2; 255; 6; 0;           223; 255; 9; 14; 255; 247; 0; 255;
   250; 4; 0; 255; 10; 252; 0; 0;        255; 255; 0; 255; 0; 0; 15; 255].
