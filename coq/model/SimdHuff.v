(* C05 -- Huffman encoding of one block: src/jchuff.c encode_one_block (C path) and the data flow of
   simd/x86_64/jchuff-sse2.asm jsimd_huff_encode_one_block_sse2, at the level "sequence of PUT_BITS(code, size)"
   plus the two bit writers.  Tables are functions symbol -> code / size (c_derived_tbl.ehufco / ehufsi).
   The 64-bit non-zero mask of the kernel (pmovmskb of pcmpeqw results, inverted) is modelled as the list of
   its bits, least significant first: tzcnt = number of leading zeros of the list, shr = skipn.  No proofs here. *)
From Coq Require Import List ZArith Bool.
From LJT Require Import lib.Words gen.GenSimdConst.
Import ListNotations.
Local Open Scope Z_scope.

Record htbl := { h_co : Z -> Z; h_si : Z -> Z }.
Definition nb (x : Z) : Z := if x <=? 0 then 0 else Z.log2 x + 1.          (* JPEG_NBITS *)
Definition zigzag (block : list Z) : list Z := map (fun i => nth (Z.to_nat i) block 0) c_jpeg_natural_order.

(* ------------------------------------------------------------------ C *)
(* branch-less: nbits = temp >> 31; temp += nbits; nbits ^= temp;  (nbits = |x|, temp = x or x - 1) *)
Definition c_adj (x : Z) : Z := if x <? 0 then x - 1 else x.
Definition c_mag (x : Z) : Z := Z.abs x.
(* PUT_CODE(code, size): temp &= (1 << nbits) - 1; temp |= code << nbits; nbits += size; PUT_BITS(temp, nbits) *)
Definition c_put_code (T : htbl) (sym temp nbits : Z) : Z * Z :=
  (Z.lor (Z.land temp (2 ^ nbits - 1)) (Z.shiftl (h_co T sym) nbits), nbits + h_si T sym).
Fixpoint c_zrl (fuel : nat) (AC : htbl) (r : Z) : list (Z * Z) * Z :=
  match fuel with
  | O => ([], r)
  | S f => if 256 <=? r then let '(l, r') := c_zrl f AC (r - 256) in ((h_co AC 240, h_si AC 240) :: l, r') else ([], r)
  end.
(* kloop over zigzag positions 1..63 *)
Fixpoint c_ac (AC : htbl) (r : Z) (coefs : list Z) : list (Z * Z) :=
  match coefs with
  | [] => if 0 <? r then [(h_co AC 0, h_si AC 0)] else []          (* if (r > 0) PUT_BITS(ehufco[0], ehufsi[0]) *)
  | x :: t =>
      if x =? 0 then c_ac AC (r + 16) t
      else let nbits := nb (c_mag x) in
           let '(zs, r') := c_zrl 8 AC r in
           zs ++ [c_put_code AC (r' + nbits) (c_adj x) nbits] ++ c_ac AC 0 t
  end.
Definition c_encode_puts (DC AC : htbl) (block : list Z) (last_dc : Z) : list (Z * Z) :=
  let z := zigzag block in
  let d := hd 0 z - last_dc in
  let nbits := nb (c_mag d) in
  c_put_code DC nbits (c_adj d) nbits :: c_ac AC 0 (tl z).

(* ------------------------------------------------------------------ kernel *)
Fixpoint run_lookup (runs : list (Z * Z)) (x : Z) : Z :=
  match runs with [] => -1 | (c, v) :: t => if x <? c then v else run_lookup t (x - c) end.
Definition mirror_len : Z := fold_right (fun r a => fst r + a) 0 jchuff_sse2_nbits_mirror.
(* movzx nbits, byte [NBITS(codeq)] with a signed index: the mirror image lies directly below the table *)
Definition k_nbits (code : Z) : Z :=
  if code <? 0 then run_lookup jchuff_sse2_nbits_mirror (mirror_len + code) else run_lookup jchuff_sse2_nbits_rows code.
Definition k_mask (n : Z) : Z := nth (Z.to_nat n) jchuff_sse2_mask_bits 0.     (* and code, dword [MASK_BITS(nbits)] *)
(* pcmpgtw 0,w ; paddw : w += (w < 0 ? -1 : 0) in a word lane, read back with movsx *)
Definition k_adj (x : Z) : Z := s16 (paddw (w16 x) (if x <? 0 then 65535 else 0)).
Definition lc (i : nat) : Z := nth i jchuff_sse2_loop_consts 0.
Definition k_put_code (T : htbl) (sym code : Z) : Z * Z :=
  let n := k_nbits code in
  (Z.lor (Z.land code (k_mask n)) (Z.shiftl (h_co T sym) n), n + h_si T sym).
Fixpoint ctz (l : list bool) : nat := match l with false :: t => S (ctz t) | _ => O end.
(* .BRLOOP: while (nbits > 16) { put ZRL; nbits -= 16 } *)
Fixpoint k_zrl (fuel : nat) (AC : htbl) (nbits : Z) : list (Z * Z) * Z :=
  match fuel with
  | O => ([], nbits)
  | S f => if lc 1 <? nbits then let '(l, n') := k_zrl f AC (nbits - lc 0) in ((h_co AC (lc 2), h_si AC (lc 2)) :: l, n') else ([], nbits)
  end.
(* .BLOOP: t points at t[pos]; index = remaining mask bits *)
Fixpoint k_loop (fuel : nat) (AC : htbl) (t : list Z) (pos : Z) (index : list bool) : list (Z * Z) * Z :=
  match fuel with
  | O => ([], pos)
  | S f =>
      if existsb (fun b => b) index then
        let nbits := Z.of_nat (ctz index) + 1 in
        let pos' := pos + nbits in
        let index' := skipn (Z.to_nat nbits) index in
        let '(zs, n') := k_zrl 8 AC nbits in
        let code := nth (Z.to_nat pos') t 0 in
        let sym := n' * 2 * 8 + k_nbits code - lc 4 in
        let '(rest, posf) := k_loop f AC t pos' index' in
        (zs ++ [k_put_code AC sym code] ++ rest, posf)
      else ([], pos)
  end.
Definition k_encode_puts (DC AC : htbl) (block : list Z) (last_dc : Z) : list (Z * Z) :=
  let z := zigzag block in
  let t := map k_adj (tl z) in                      (* t[0..62] = zigzag positions 1..63 *)
  let index := map (fun w => negb (w =? 0)) t in    (* ~(mask of zero lanes) *)
  let d := hd 0 z - last_dc in
  let code := if d <? 0 then d - 1 else d in         (* cmp code, 1<<31 ; adc code, -1 *)
  let n := k_nbits code in
  let '(acs, posf) := k_loop 64 AC t (-1) index in
  k_put_code DC n code :: acs ++ (if posf =? 64 - lc 3 then [] else [(h_co AC 0, h_si AC 0)]).

(* ------------------------------------------------------------------ bit writers *)
Definition w64 (x : Z) : Z := x mod 18446744073709551616.
Definition qbytes (q : Z) : list Z := map (fun i => (q / 2 ^ (8 * i)) mod 256) [7; 6; 5; 4; 3; 2; 1; 0].   (* big endian *)
Definition stuff (bs : list Z) : list Z := flat_map (fun b => if b =? 255 then [255; 0] else [b]) bs.      (* EMIT_BYTE *)
Record wstate := { w_buf : Z; w_free : Z; w_out : list Z }.
(* C: PUT_BITS / PUT_AND_FLUSH / FLUSH (BIT_BUF_SIZE = 64).  FLUSH's "no 0xFF byte" fast path stores the same
   eight bytes as the EMIT_BYTE path does when no byte is 0xFF, so it is modelled by the byte-wise path. *)
Definition c_put (st : wstate) (cs : Z * Z) : wstate :=
  let '(code, size) := cs in
  let fb := w_free st - size in
  if fb <? 0 then
    let q := w64 (Z.lor (Z.shiftl (w_buf st) (size + fb)) (Z.shiftr code (- fb))) in
    {| w_buf := code; w_free := fb + 64; w_out := w_out st ++ stuff (qbytes q) |}
  else {| w_buf := w64 (Z.lor (Z.shiftl (w_buf st) size) code); w_free := fb; w_out := w_out st |}.
(* kernel: the DC put flushes when free_bits < 0 (jnl), every later put when free_bits <= 0 (jle / jg);
   EMIT_QWORD: shl put_buffer, nbits+free_bits ; temp = (code >> -free_bits) | put_buffer ; bswap ; stuffing ;
   put_buffer = code ; free_bits += 64 *)
Definition k_put (first : bool) (st : wstate) (cs : Z * Z) : wstate :=
  let '(code, size) := cs in
  let fb := w_free st - size in
  if (if first then fb <? 0 else fb <=? 0) then
    let q := Z.lor (Z.land (Z.shiftr code (- fb)) 4294967295) (w64 (Z.shiftl (w_buf st) (size + fb))) in   (* shr tempd: 32-bit *)
    {| w_buf := code; w_free := fb + 64; w_out := w_out st ++ stuff (qbytes q) |}
  else {| w_buf := w64 (Z.lor (Z.shiftl (w_buf st) size) code); w_free := fb; w_out := w_out st |}.
Definition c_write (st : wstate) (puts : list (Z * Z)) : wstate := fold_left c_put puts st.
Definition k_write (st : wstate) (puts : list (Z * Z)) : wstate :=
  match puts with [] => st | p :: t => fold_left (k_put false) t (k_put true st p) end.
Definition c_encode_block DC AC block last_dc st := c_write st (c_encode_puts DC AC block last_dc).
Definition k_encode_block DC AC block last_dc st := k_write st (k_encode_puts DC AC block last_dc).
(* what has been written, as a bit count and value: bytes before stuffing followed by the pending bits *)
Definition unstuff_len (out : list Z) : Z := Z.of_nat (length (filter (fun b => negb (b =? 0)) out)).
