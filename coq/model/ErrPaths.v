(* C12 -- abstract execution of the generated setjmp handlers / bailout blocks
   (gen/GenErrPaths.v): does every error path leave the libjpeg objects it drives in
   their START state?  No proofs in this file. *)
From Coq Require Import List ZArith String Bool.
From LJT Require Import gen.GenErrPaths.
Import ListNotations.
Local Open Scope Z_scope.

(* what the conditions of the handler statements can see *)
Record hst := mkh {
  h_c : bool;      (* cinfo->global_state > CSTATE_START *)
  h_d : bool;      (* dinfo->global_state > DSTATE_START *)
  h_err : bool;    (* retval == -1 *)
  h_alloc : bool;  (* alloc *)
  h_warn : bool    (* this->jerr.warning *)
}.

Definition hcond_holds (c : hcond) (s : hst) : bool :=
  match c with
  | HAlways => true
  | HIfGtStartC => h_c s
  | HIfGtStartD => h_d s
  | HIfGtStartCOrErr => h_c s || h_err s
  | HIfGtStartCAndAlloc => h_c s && h_alloc s
  | HIfAlloc => h_alloc s
  | HIfWarning => h_warn s
  | HIfRetNeg => h_err s
  | HIfFile => true
  end.

Inductive hres := HDone (s : hst) | HGoto (s : hst).

Fixpoint hrun (l : list hstmt) (s : hst) : hres :=
  match l with
  | [] => HDone s
  | h :: t =>
      match h with
      | HRetval c v => hrun t (if hcond_holds c s then mkh (h_c s) (h_d s) (Z.eqb v (-1)) (h_alloc s) (h_warn s) else s)
      | HGotoBailout c => if hcond_holds c s then HGoto s else hrun t s
      | HReturn c => if hcond_holds c s then HDone s else hrun t s
      | HAbortC c => hrun t (if hcond_holds c s then mkh false (h_d s) (h_err s) (h_alloc s) (h_warn s) else s)
      | HAbortD c => hrun t (if hcond_holds c s then mkh (h_c s) false (h_err s) (h_alloc s) (h_warn s) else s)
      | HWarnRet => hrun t (if h_warn s then mkh (h_c s) (h_d s) true (h_alloc s) (h_warn s) else s)
      | HTermDest _ | HFree _ _ | HDestroyTmp _ | HFclose _ | HOther _ _ | HRestoreMarkerMethods _ | HRestoreStartInputPass _ => hrun t s
      end
  end.

(* a handler (or a THROW = "retval = -1; goto bailout") followed by the bailout block *)
Definition hfinal (handler bail : list hstmt) (s : hst) : hst :=
  match hrun handler s with
  | HDone s' => s'
  | HGoto s' => match hrun bail s' with HDone s'' => s'' | HGoto s'' => s'' end
  end.

Definition bools := [true; false].
Definition all_hst : list hst :=
  flat_map (fun a => flat_map (fun b => flat_map (fun c => flat_map (fun d => map (fun e => mkh a b c d e) bools) bools) bools) bools) bools.

Definition bail_of (f : apifn) : list hstmt := match fn_bailout f with Some b => b | None => [] end.
Definition throw_path : list hstmt := [HRetval HAlways (-1); HGotoBailout HAlways].

Definition path_ok (f : apifn) (h : list hstmt) (s : hst) : bool :=
  let s' := hfinal h (bail_of f) s in
  (negb (fn_uses_c f) || negb (h_c s')) && (negb (fn_uses_d f) || negb (h_d s')).

(* does the statement list (handler + bailout) destroy the temporary instance? *)
Definition destroys_tmp (l : list hstmt) : bool :=
  existsb (fun h => match h with HDestroyTmp HAlways => true | _ => false end) l.

(* returns that bypass the bailout block after the function started to drive a libjpeg object: only the known
   shapes are accepted -- a tail call of an API function that itself drives (and on every error path resets) the same
   objects, the tables-only return of tj3DecompressHeader (jpeg_read_header has aborted), and the return after a
   parameter setter rejected a value taken from the library's own table (cannot happen) *)
Fixpoint find_api (n : string) (l : list apifn) : option apifn :=
  match l with [] => None | f :: t => if String.eqb (fn_name f) n then Some f else find_api n t end.
Definition early_return_ok (all : list apifn) (f : apifn) (r : eret) : bool :=
  match r with
  | ERTailCall callee =>
      match find_api callee all with
      | Some g => (negb (fn_uses_d f) || fn_uses_d g) && (negb (fn_uses_c f) || fn_uses_c g)
      | None => false
      end
  | ERTablesOnly => String.eqb (fn_name f) "tj3DecompressHeader"
  | ERSetterFailed => true
  | EROther _ => false
  end.
Definition early_returns_ok (all : list apifn) (f : apifn) : bool := forallb (early_return_ok all f) (fn_early_returns f).

Definition fn_ok (f : apifn) : bool :=
  forallb (fun s => forallb (fun h => path_ok f h s) (throw_path :: fn_handlers f)) all_hst &&
  (negb (fn_tmp_instance f) ||
   (destroys_tmp (bail_of f) &&
    forallb (fun h => existsb (fun x => match x with HGotoBailout HAlways => true | _ => false end) h) (fn_handlers f))).
