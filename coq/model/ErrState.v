(* C15 -- the error-message state of TurboJPEG as seen by ONE thread: per-instance (errStr, isInstanceError) and the
   thread-local errStr.  Executable model of src/turbojpeg.c:
     GET_INSTANCE / GET_CINSTANCE / GET_DINSTANCE / GET_TJINSTANCE   this->isInstanceError = FALSE      -> ECall
     THROW* macros, my_output_message + set_instance_error           both strings := message, flag TRUE  -> EFail
     THROWG / instance-less helpers                                  thread-local string := message      -> ETlsFail
     tj3GetErrorStr(handle)    flag ? this->errStr : errStr  (no write)                                  -> EGet
     tj3GetErrorStr(NULL)      errStr                                                                    -> EGetTls
     tj3Init                   this->errStr = "No error", flag FALSE                                     -> ENew
   Messages are abstract identifiers (Z); 0 is "No error".  No proofs here. *)
From Coq Require Import List ZArith Bool Arith.
From LJT Require Import model.Threads.
Import ListNotations.
Local Open Scope Z_scope.

Inductive eop :=
| ENew (i : nat)
| ECall (i : nat)                (* an API call on instance i begins (and does not fail, or fails later: EFail follows) *)
| EFail (i : nat) (m : Z)        (* the call on instance i fails (or warns) with message m *)
| ETlsFail (m : Z)               (* an instance-less function fails with message m *)
| EGet (i : nat)
| EGetTls.

Record est := mk_est { e_inst : nat -> (Z * bool); e_tls : Z }.

Definition est0 : est := mk_est (fun _ => (0, false)) 0.

Definition upd_inst (f : nat -> (Z * bool)) (i : nat) (v : Z * bool) : nat -> (Z * bool) :=
  fun j => if Nat.eqb j i then v else f j.

(* one operation: new state and, for the two queries, the message returned *)
Definition estep (o : eop) (s : est) : est * option Z :=
  match o with
  | ENew i => (mk_est (upd_inst (e_inst s) i (0, false)) (e_tls s), None)
  | ECall i => (mk_est (upd_inst (e_inst s) i (fst (e_inst s i), false)) (e_tls s), None)
  | EFail i m => (mk_est (upd_inst (e_inst s) i (m, true)) m, None)
  | ETlsFail m => (mk_est (e_inst s) m, None)
  | EGet i => (s, Some (if snd (e_inst s i) then fst (e_inst s i) else e_tls s))
  | EGetTls => (s, Some (e_tls s))
  end.

Fixpoint erun (tr : list eop) (s : est) : est * list Z :=
  match tr with
  | [] => (s, [])
  | o :: tr' =>
      let '(s1, r) := estep o s in
      let '(s2, rs) := erun tr' s1 in
      (s2, match r with Some m => m :: rs | None => rs end)
  end.

Definition touches_inst (i : nat) (o : eop) : bool :=
  match o with
  | ENew j | ECall j | EFail j _ => Nat.eqb j i
  | _ => false
  end.

(* the behaviour BEFORE the fix of finding F-C15-2 (kept to show that the model distinguishes them):
   libjpeg-level failures wrote only the thread-local string; tj3GetErrorStr cleared the flag *)
Definition estep_old (lib : bool) (o : eop) (s : est) : est * option Z :=
  match o with
  | EFail i m => if lib then (mk_est (e_inst s) m, None) else estep o s
  | EGet i => (mk_est (upd_inst (e_inst s) i (fst (e_inst s i), false)) (e_tls s),
               Some (if snd (e_inst s i) then fst (e_inst s i) else e_tls s))
  | _ => estep o s
  end.

Fixpoint erun_old (lib : bool) (tr : list eop) (s : est) : list Z :=
  match tr with
  | [] => []
  | o :: tr' =>
      let '(s1, r) := estep_old lib o s in
      match r with Some m => m :: erun_old lib tr' s1 | None => erun_old lib tr' s1 end
  end.

(* ---- as steps of the thread model: instance i's error state is Inst i 1 (string) and Inst i 2 (flag), the
   thread-local string is TlsL t 0 *)
Definition eop_step (t : nat) (o : eop) : step :=
  match o with
  | ENew i => mk_step [] [Inst i 1; Inst i 2] (fun _ _ => 0)
  | ECall i => mk_step [] [Inst i 2] (fun _ _ => 0)
  | EFail i m => mk_step [] [Inst i 1; Inst i 2; TlsL t 0] (fun _ l => match l with Inst _ 2 => 1 | _ => m end)
  | ETlsFail m => mk_step [] [TlsL t 0] (fun _ _ => m)
  | EGet i => mk_step [Inst i 1; Inst i 2; TlsL t 0] [] (fun _ _ => 0)
  | EGetTls => mk_step [TlsL t 0] [] (fun _ _ => 0)
  end.

Definition eop_inst (o : eop) : option nat :=
  match o with ENew i | ECall i | EFail i _ | EGet i => Some i | _ => None end.

(* what a query step observes in the thread model, decoded as the message it returns *)
Definition decode_get (vs : list val) : Z :=
  match vs with
  | [str; flag; tls] => if Z.eqb flag 0 then tls else str
  | [tls] => tls
  | _ => 0
  end.

(* ---- replay of a MERGED trace (tid, operation) in the thread model; returns what every query observes.
   This is what the extracted driver runs on the global event sequence logged by harness/c15.c. *)
Definition is_query (o : eop) : bool := match o with EGet _ | EGetTls => true | _ => false end.

Fixpoint replay (tr : list (nat * eop)) (s : state) : list Z :=
  match tr with
  | [] => []
  | (t, o) :: r =>
      let st := eop_step t o in
      (if is_query o then [decode_get (observe st s)] else []) ++ replay r (exec st s)
  end.

(* the same with a finite-map state (what is extracted; proved equal to replay in proofs/ErrStateProofs.v) *)
Definition lstate := list (loc * val).
Fixpoint lget (ls : lstate) (l : loc) : val :=
  match ls with
  | [] => 0
  | (k, v) :: r => if loc_eqb l k then v else lget r l
  end.
Definition lset (l : loc) (v : val) (ls : lstate) : lstate :=
  (l, v) :: filter (fun kv => negb (loc_eqb (fst kv) l)) ls.
Definition lexec (st : step) (ls : lstate) : lstate :=
  let vs := map (lget ls) (reads st) in
  fold_right (fun l acc => lset l (sem st vs l) acc) ls (writes st).
Fixpoint lreplay (tr : list (nat * eop)) (ls : lstate) : list Z :=
  match tr with
  | [] => []
  | (t, o) :: r =>
      let st := eop_step t o in
      (if is_query o then [decode_get (map (lget ls) (reads st))] else []) ++ lreplay r (lexec st ls)
  end.
