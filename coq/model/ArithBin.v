(* ArithBin.v -- binarisation layer of the arithmetic entropy coder for the DC
   difference (jcarith.c encode_mcu / encode_mcu_DC_first Figures F.4, F.6-F.9 and
   jdarith.c decode_mcu / decode_mcu_DC_first Figures F.19, F.21-F.24):
   which binary decisions are coded in which statistics bins, and the dc_context
   conditioning (arith_dc_L / arith_dc_U).  The QM coder itself (arith_encode /
   arith_decode: registers a, c, ct, sc, zc and the adaptive bins) is NOT modelled:
   the decoder below is parameterised by a function [next] that delivers the
   decision coded in a given bin.  Bin indices are relative to dc_stats[tbl]:
   S0 = dc_context, SS = S0+1, SP = S0+2, SN = S0+3, X1 = 20, M bins = X + 14.
   No proofs here. *)
From Coq Require Import List ZArith Bool Lia.
From LJT Require Import model.Huff.
Import ListNotations.
Local Open Scope Z_scope.

Definition decision := (Z * bool)%type.       (* (statistics bin, binary decision) *)
Definition X1 : Z := 20.

(* Figure F.8 (magnitude category) + F.9 (magnitude bit pattern) for w = |v| - 1.
   "m = 0; if (v -= 1) { encode(st,1); m = 1; v2 = v; st = X1;
      while (v2 >>= 1) { encode(st,1); m <<= 1; st += 1; } }
    encode(st,0);  ...  st += 14; while (m >>= 1) encode(st, (m & v) ? 1 : 0);"
   With n = nbits w the loops emit n-1 ones in bins X1.., a zero in bin X1+n-1, and the
   n-1 bits of w below its leading one, MSB first, in bin X1+n-1+14; m = 2^(n-1). *)
Definition enc_magnitude (st0 : Z) (w : Z) : list decision * Z :=
  if w =? 0 then ([(st0, false)], 0)
  else
    let n := nbits w in
    ((st0, true)
       :: map (fun i => (X1 + Z.of_nat i, true)) (seq 0 (Z.to_nat (n - 1)))
       ++ [(X1 + (n - 1), false)]
       ++ map (fun b => (X1 + (n - 1) + 14, b)) (bits_of (Z.to_nat (n - 1)) w),
     2 ^ (n - 1)).

(* Figure F.4 Encode_DC_DIFF; returns the decisions and the new dc_context[ci] *)
Definition enc_dc_arith (ctx L U : Z) (v : Z) : list decision * Z :=
  if v =? 0 then ([(ctx, false)], 0)
  else
    let sign := v <? 0 in
    let st := if sign then ctx + 3 else ctx + 2 in
    let '(ds, m) := enc_magnitude st (Z.abs v - 1) in
    let base := if sign then 8 else 4 in
    let ctx' := if m <? 2 ^ L / 2 then 0 else if m >? 2 ^ U / 2 then base + 8 else base in
    ((ctx, true) :: (ctx + 1, sign) :: ds, ctx').

Section Decoder.
Variable stream : Type.
Variable next : Z -> stream -> option (bool * stream).      (* arith_decode(cinfo, st) *)

(* "while (arith_decode(st)) { if ((m <<= 1) == 0x8000) error; st += 1; }" *)
Fixpoint dec_cat (fuel : nat) (st m : Z) (s : stream) : option (Z * Z * stream) :=
  match fuel with
  | O => None
  | S f =>
      match next st s with
      | None => None
      | Some (true, s') => let m' := 2 * m in if m' =? 32768 then None else dec_cat f (st + 1) m' s'
      | Some (false, s') => Some (st, m, s')
      end
  end.

(* "while (m >>= 1) if (arith_decode(st)) v |= m;" *)
Fixpoint dec_pattern (fuel : nat) (st m v : Z) (s : stream) : option (Z * stream) :=
  match fuel with
  | O => None
  | S f =>
      let m' := m / 2 in
      if m' =? 0 then Some (v, s)
      else match next st s with
           | None => None
           | Some (b, s') => dec_pattern f st m' (if b then Z.lor v m' else v) s'
           end
  end.

(* Figure F.19 Decode_DC_DIFF; returns the difference, the new dc_context, the stream *)
Definition dec_dc_arith (ctx L U : Z) (s : stream) : option (Z * Z * stream) :=
  match next ctx s with
  | None => None
  | Some (false, s1) => Some (0, 0, s1)
  | Some (true, s1) =>
      match next (ctx + 1) s1 with
      | None => None
      | Some (sign, s2) =>
          let st := ctx + 2 + (if sign then 1 else 0) in
          match next st s2 with
          | None => None
          | Some (m0, s3) =>
              match (if m0 then dec_cat 16 X1 1 s3 else Some (st, 0, s3)) with
              | None => None
              | Some (st', m, s4) =>
                  let ctx' := if m <? 2 ^ L / 2 then 0
                              else if m >? 2 ^ U / 2 then 12 + (if sign then 4 else 0)
                              else 4 + (if sign then 4 else 0) in
                  match dec_pattern 17 (st' + 14) m m s4 with
                  | None => None
                  | Some (v, s5) => Some (if sign then - (v + 1) else v + 1, ctx', s5)
                  end
              end
          end
      end
  end.
End Decoder.

(* ======================================================================== *)
(* AC coefficients (jcarith.c encode_mcu_AC_first / the AC part of encode_mcu,
   encode_mcu_AC_refine; jdarith.c decode_mcu_AC_first / decode_mcu /
   decode_mcu_AC_refine).  Bins are relative to ac_stats[tbl]: for zigzag position
   k: SE = 3(k-1) (end-of-band), S0 = SE+1 (zero / nonzero), SN/SP = SE+2 (first
   magnitude decisions and, in refinement scans, the correction bit), X bins from
   189 (k <= arith_ac_K) or 217, M bins = X + 14; the sign goes to entropy->fixed_bin. *)
From LJT Require Import model.Seq model.Prog.

Definition FIXED_BIN : Z := -1.
Definition se_bin (k : nat) : Z := 3 * (Z.of_nat k - 1).
Definition x_base (Kx : Z) (k : nat) : Z := if Z.of_nat k <=? Kx then 189 else 217.

Fixpoint ones_at (st : Z) (j : nat) : list decision :=
  match j with O => [] | S j' => (st, true) :: ones_at (st + 1) j' end.

(* Figures F.8 / F.9 for AC: w = |v| - 1, st = SE + 2.
   "m = 0; if (v -= 1) { encode(st,1); m = 1; v2 = v; if (v2 >>= 1) { encode(st,1); m <<= 1; st = X;
      while (v2 >>= 1) { encode(st,1); m <<= 1; st += 1; } } }  encode(st,0);
    st += 14; while (m >>= 1) encode(st, (m & v) ? 1 : 0);" *)
Definition enc_mag_ac (st xb : Z) (w : Z) : list decision :=
  if w =? 0 then [(st, false)]
  else
    let n := nbits w in
    if n =? 1 then [(st, true); (st, false)]
    else (st, true) :: (st, true) :: ones_at xb (Z.to_nat (n - 2)) ++ [(xb + (n - 2), false)]
         ++ map (fun b => (xb + (n - 2) + 14, b)) (bits_of (Z.to_nat (n - 1)) w).

Definition allz (l : list Z) : bool := forallb (Z.eqb 0) l.

(* Figure F.5 with the point transform: vs = the band values sign(v)*(|v| >> Al) for zigzag
   positions k, k+1, .., Se.  head = true at the top of the "for (k..)" loop (EOB decision due),
   false inside the zero-run loop.  "k > ke" is "everything from k on is zero". *)
Fixpoint enc_acf_a (Kx : Z) (vs : list Z) (k : nat) (head : bool) : list decision :=
  match vs with
  | [] => []
  | v :: t =>
      if head && allz vs then [(se_bin k, true)]
      else
        (if head then [(se_bin k, false)] else []) ++
        (if v =? 0 then (se_bin k + 1, false) :: enc_acf_a Kx t (S k) false
         else (se_bin k + 1, true) :: (FIXED_BIN, v <? 0)
              :: enc_mag_ac (se_bin k + 2) (x_base Kx k) (Z.abs v - 1) ++ enc_acf_a Kx t (S k) true)
  end.

Definition enc_acf_block_a (Kx : Z) (Ss Se : nat) (Al : Z) (b : list Z) : list decision :=
  enc_acf_a Kx (acf_band Ss Se Al b) Ss true.

(* Figure G.10 (refinement): l = (|v| >> Al, |v| >> Ah, v < 0) for positions k.. ;
   "k > kex" is "no coefficient from k on was nonzero at the previous stage" *)
Fixpoint enc_acr_a (l : list (Z * Z * bool)) (k : nat) (head : bool) : list decision :=
  match l with
  | [] => []
  | (a, hx, neg) :: t =>
      if head && allz (map (fun x => fst (fst x)) l) then [(se_bin k, true)]
      else
        (if head && allz (map (fun x => snd (fst x)) l) then [(se_bin k, false)] else []) ++
        (if a =? 0 then (se_bin k + 1, false) :: enc_acr_a t (S k) false
         else if negb (a / 2 =? 0) then (se_bin k + 2, Z.odd a) :: enc_acr_a t (S k) true
         else (se_bin k + 1, true) :: (FIXED_BIN, neg) :: enc_acr_a t (S k) true)
  end.

Definition acr_abs_a (Ss Se : nat) (Al Ah : Z) (b : list Z) : list (Z * Z * bool) :=
  map (fun k => let v := nth (order k) b 0 in (Z.shiftr (Z.abs v) Al, Z.shiftr (Z.abs v) Ah, v <? 0)) (band_idx Ss Se).

Definition enc_acr_block_a (Ss Se : nat) (Al Ah : Z) (b : list Z) : list decision :=
  enc_acr_a (acr_abs_a Ss Se Al Ah b) Ss true.

(* DC first / refine: Figure F.4 on the point-transformed value; one bit in the fixed bin *)
Definition enc_dcr_a (Al : Z) (b : list Z) : list decision := [(FIXED_BIN, Z.testbit (nth 0%nat b 0) Al)].

Section ACDecoder.
Variable stream : Type.
Variable next : Z -> stream -> option (bool * stream).
Variable Kx : Z.
Variable Se : nat.
Variable Al : Z.

(* Figures F.23 / F.24 for AC *)
Definition dec_mag_ac (st xb : Z) (s : stream) : option (Z * stream) :=
  match next st s with
  | None => None
  | Some (m0, s1) =>
      match (if m0 then
               match next st s1 with
               | None => None
               | Some (true, s2) => dec_cat stream next 16 xb 2 s2
               | Some (false, s2) => Some (st, 1, s2)
               end
             else Some (st, 0, s1)) with
      | None => None
      | Some (st', m, s3) => dec_pattern stream next 17 (st' + 14) m m s3
      end
  end.

(* decode_mcu_AC_first: "for (k = Ss; k <= Se; k++) { if (decode(st)) break; while (decode(st+1) == 0)
   { st += 3; k++; if (k > Se) error } sign; magnitude; block[natural_order[k]] = v << Al }" *)
Fixpoint dec_acf_a (fuel : nat) (k : nat) (head : bool) (blk : list Z) (s : stream) : option (list Z * stream) :=
  match fuel with
  | O => None
  | S f =>
      if (Se <? k)%nat then (if head then Some (blk, s) else None)      (* spectral overflow *)
      else if head then
        match next (se_bin k) s with
        | None => None
        | Some (true, s1) => Some (blk, s1)
        | Some (false, s1) => dec_acf_a f k false blk s1
        end
      else
        match next (se_bin k + 1) s with
        | None => None
        | Some (false, s1) => dec_acf_a f (S k) false blk s1
        | Some (true, s1) =>
            match next FIXED_BIN s1 with
            | None => None
            | Some (sign, s2) =>
                match dec_mag_ac (se_bin k + 2) (x_base Kx k) s2 with
                | None => None
                | Some (w, s3) =>
                    let v := if sign then - (w + 1) else w + 1 in
                    dec_acf_a f (S k) true (upd (order k) (Z.shiftl v Al) blk) s3
                end
            end
        end
  end.

(* decode_mcu_AC_refine; kexz k = "k > kex": no nonzero coefficient in the block from k to Se *)
Definition kexz (blk : list Z) (k : nat) : bool :=
  forallb (fun j => nth (order j) blk 0 =? 0) (seq k (S Se - k)).

Fixpoint dec_acr_a (fuel : nat) (k : nat) (head : bool) (blk : list Z) (s : stream) : option (list Z * stream) :=
  match fuel with
  | O => None
  | S f =>
      if (Se <? k)%nat then (if head then Some (blk, s) else None)
      else
        match (if head && kexz blk k then
                 match next (se_bin k) s with
                 | None => None
                 | Some (eob, s1) => Some (eob, s1)
                 end
               else Some (false, s)) with
        | None => None
        | Some (true, s1) => Some (blk, s1)
        | Some (false, s1) =>
            let c := nth (order k) blk 0 in
            if negb (c =? 0) then
              match next (se_bin k + 2) s1 with
              | None => None
              | Some (bit, s2) =>
                  dec_acr_a f (S k) true
                    (if bit then upd (order k) (if c <? 0 then c - p1 Al else c + p1 Al) blk else blk) s2
              end
            else
              match next (se_bin k + 1) s1 with
              | None => None
              | Some (false, s2) => dec_acr_a f (S k) false blk s2
              | Some (true, s2) =>
                  match next FIXED_BIN s2 with
                  | None => None
                  | Some (sign, s3) => dec_acr_a f (S k) true (upd (order k) (if sign then - p1 Al else p1 Al) blk) s3
                  end
              end
        end
  end.

Definition dec_dcr_a (blk : list Z) (s : stream) : option (list Z * stream) :=
  match next FIXED_BIN s with
  | None => None
  | Some (bit, s1) => Some (if bit then upd 0 (Z.lor (nth 0%nat blk 0) (Z.shiftl 1 Al)) blk else blk, s1)
  end.
End ACDecoder.

(* ======================================================================== *)
(* Whole arithmetic-coded scans: the QM coder is C04's model (model/T81Arith.v, imported
   read-only): per restart interval the decisions of all MCUs go through qm_encode_all
   (statistics, dc_context, last_dc_val start from zero: start_pass / emit_restart ->
   process_restart), the bytes are stuffed, intervals are separated by RSTn.  Statistics
   areas: dc_stats[tbl] = keys dck tbl i, ac_stats[tbl] = keys ack tbl i, fixed_bin = FIXED. *)
From LJT Require Import model.T81Arith.

Record acomp := { a_dct : Z; a_act : Z; a_L : Z; a_U : Z; a_K : Z }.
Definition acomp0 : acomp := {| a_dct := 0; a_act := 0; a_L := 0; a_U := 1; a_K := 5 |}.

Definition rekey (base : Z -> Z) (ds : list decision) : list decision :=
  map (fun d => (if fst d =? FIXED_BIN then FIXED else base (fst d), snd d)) ds.
Definition next_k (base : Z -> Z) (st : Z) (q : qdec) : option (bool * qdec) :=
  qm_decode (if st =? FIXED_BIN then FIXED else base st) q.

(* (JCOEF) of an int: two's complement 16 bit *)
Definition s16 (x : Z) : Z := let y := x mod 65536 in if y >=? 32768 then y - 65536 else y.

Section AScan.
Variables M D R : Type.
Variable enc_seg : list M -> option (list decision).
Variable dec_seg : list D -> qdec -> option (list R).

Fixpoint aenc_segs (fuel Ri : nat) (n : Z) (ms : list M) : option (list Z) :=
  match fuel with
  | O => None
  | S f =>
      match enc_seg (seg_take Ri ms) with
      | None => None
      | Some ds =>
          let bytes := stuff (qm_encode_all ds) in
          match seg_drop Ri ms with
          | [] => Some bytes
          | nxt => match aenc_segs f Ri ((n + 1) mod 8) nxt with
                   | None => None
                   | Some rest => Some (bytes ++ [255; 208 + n] ++ rest)
                   end
          end
      end
  end.
Definition aenc_scan (Ri : nat) (ms : list M) : option (list Z) := aenc_segs (S (length ms)) Ri 0 ms.

Fixpoint adec_segs (fuel Ri : nat) (n : Z) (ds : list D) (bytes : list Z) : option (list R) :=
  match fuel with
  | O => None
  | S f =>
      let (data, rest) := load_seg bytes in
      match dec_seg (seg_take Ri ds) (qm_init_dec data) with
      | None => None
      | Some rs =>
          match seg_drop Ri ds with
          | [] => Some rs
          | nxt =>
              match rest with
              | 255 :: m :: rest' =>
                  if m =? 208 + n then
                    match adec_segs f Ri ((n + 1) mod 8) nxt rest' with
                    | None => None
                    | Some more => Some (rs ++ more)
                    end
                  else None
              | _ => None
              end
          end
      end
  end.
Definition adec_scan (Ri : nat) (ds : list D) (bytes : list Z) : option (list R) := adec_segs (S (length ds)) Ri 0 ds bytes.
End AScan.

Section AProcs.
Variable cs : list acomp.               (* per scan component *)
Variable mem : list nat.                (* MCU_membership *)
Definition cmp (ci : nat) : acomp := nth ci cs acomp0.

(* ---- sequential: encode_mcu / decode_mcu ---- *)
Fixpoint aseq_enc_mcu (mm : list nat) (blocks : list (list Z)) (ldc ctx : list Z)
  : option (list decision * list Z * list Z) :=
  match mm, blocks with
  | [], [] => Some ([], ldc, ctx)
  | ci :: mt, b :: bt =>
      let c := cmp ci in
      let v := nth 0%nat b 0 - nthZ ldc ci in
      let '(dcd, ctx') := enc_dc_arith (nthZ ctx ci) (a_L c) (a_U c) v in
      let acd := enc_acf_block_a (a_K c) 1 63 0 b in
      match aseq_enc_mcu mt bt (upd ci (nth 0%nat b 0) ldc) (upd ci ctx' ctx) with
      | None => None
      | Some (rest, l', c') => Some (rekey (dck (a_dct c)) dcd ++ rekey (ack (a_act c)) acd ++ rest, l', c')
      end
  | _, _ => None
  end.

Fixpoint aseq_enc_mcus (ms : list (list (list Z))) (ldc ctx : list Z) : option (list decision) :=
  match ms with
  | [] => Some []
  | m :: t => match aseq_enc_mcu mem m ldc ctx with
              | None => None
              | Some (ds, l', c') => match aseq_enc_mcus t l' c' with None => None | Some r => Some (ds ++ r) end
              end
  end.

Fixpoint aseq_dec_mcu (mm : list nat) (ldc ctx : list Z) (q : qdec) : option (list (list Z) * list Z * list Z * qdec) :=
  match mm with
  | [] => Some ([], ldc, ctx, q)
  | ci :: mt =>
      let c := cmp ci in
      match dec_dc_arith qdec (next_k (dck (a_dct c))) (nthZ ctx ci) (a_L c) (a_U c) q with
      | None => None
      | Some (v, ctx', q1) =>
          let d := (nthZ ldc ci + v) mod 65536 in
          match dec_acf_a qdec (next_k (ack (a_act c))) (a_K c) 63 0 130 1 true (upd 0 (s16 d) (repeat 0 64)) q1 with
          | None => None
          | Some (blk, q2) =>
              match aseq_dec_mcu mt (upd ci d ldc) (upd ci ctx' ctx) q2 with
              | None => None
              | Some (bl, l', c', q3) => Some (blk :: bl, l', c', q3)
              end
          end
      end
  end.

Fixpoint aseq_dec_mcus (n : nat) (ldc ctx : list Z) (q : qdec) : option (list (list (list Z))) :=
  match n with
  | O => Some []
  | S k => match aseq_dec_mcu mem ldc ctx q with
           | None => None
           | Some (m, l', c', q') => match aseq_dec_mcus k l' c' q' with None => None | Some r => Some (m :: r) end
           end
  end.

(* ---- DC first: encode_mcu_DC_first / decode_mcu_DC_first ---- *)
Variable Al : Z.
Fixpoint adcf_enc_mcu (mm : list nat) (blocks : list (list Z)) (ldc ctx : list Z)
  : option (list decision * list Z * list Z) :=
  match mm, blocks with
  | [], [] => Some ([], ldc, ctx)
  | ci :: mt, b :: bt =>
      let c := cmp ci in
      let m := pt_dc Al (nth 0%nat b 0) in
      let '(dcd, ctx') := enc_dc_arith (nthZ ctx ci) (a_L c) (a_U c) (m - nthZ ldc ci) in
      match adcf_enc_mcu mt bt (upd ci m ldc) (upd ci ctx' ctx) with
      | None => None
      | Some (rest, l', c') => Some (rekey (dck (a_dct c)) dcd ++ rest, l', c')
      end
  | _, _ => None
  end.
Fixpoint adcf_enc_mcus (ms : list (list (list Z))) (ldc ctx : list Z) : option (list decision) :=
  match ms with
  | [] => Some []
  | m :: t => match adcf_enc_mcu mem m ldc ctx with
              | None => None
              | Some (ds, l', c') => match adcf_enc_mcus t l' c' with None => None | Some r => Some (ds ++ r) end
              end
  end.
Fixpoint adcf_dec_mcu (mm : list nat) (cur : list (list Z)) (ldc ctx : list Z) (q : qdec)
  : option (list (list Z) * list Z * list Z * qdec) :=
  match mm, cur with
  | [], [] => Some ([], ldc, ctx, q)
  | ci :: mt, blk :: ct =>
      let c := cmp ci in
      match dec_dc_arith qdec (next_k (dck (a_dct c))) (nthZ ctx ci) (a_L c) (a_U c) q with
      | None => None
      | Some (v, ctx', q1) =>
          let d := (nthZ ldc ci + v) mod 65536 in
          match adcf_dec_mcu mt ct (upd ci d ldc) (upd ci ctx' ctx) q1 with
          | None => None
          | Some (bl, l', c', q2) => Some (upd 0 (s16 (Z.shiftl d Al)) blk :: bl, l', c', q2)
          end
      end
  | _, _ => None
  end.
Fixpoint adcf_dec_mcus (cur : list (list (list Z))) (ldc ctx : list Z) (q : qdec) : option (list (list (list Z))) :=
  match cur with
  | [] => Some []
  | c :: t => match adcf_dec_mcu mem c ldc ctx q with
              | None => None
              | Some (m, l', c', q') => match adcf_dec_mcus t l' c' q' with None => None | Some r => Some (m :: r) end
              end
  end.

(* ---- DC refine ---- *)
Definition adcr_enc_mcus (ms : list (list (list Z))) : option (list decision) :=
  Some (rekey (fun x => x) (flat_map (fun m => flat_map (enc_dcr_a Al) m) ms)).
Fixpoint adcr_dec_blocks (cur : list (list Z)) (q : qdec) : option (list (list Z) * qdec) :=
  match cur with
  | [] => Some ([], q)
  | blk :: t => match dec_dcr_a qdec (next_k (fun x => x)) Al blk q with
                | None => None
                | Some (b', q1) => match adcr_dec_blocks t q1 with None => None | Some (r, q2) => Some (b' :: r, q2) end
                end
  end.
Fixpoint adcr_dec_mcus (cur : list (list (list Z))) (q : qdec) : option (list (list (list Z))) :=
  match cur with
  | [] => Some []
  | c :: t => match adcr_dec_blocks c q with
              | None => None
              | Some (m, q1) => match adcr_dec_mcus t q1 with None => None | Some r => Some (m :: r) end
              end
  end.

(* ---- AC first / AC refine (one component, one block per MCU) ---- *)
Variables Ss Se : nat.
Variable Ah : Z.
Definition aacf_enc_blocks (bl : list (list Z)) : option (list decision) :=
  Some (flat_map (fun b => rekey (ack (a_act (cmp 0))) (enc_acf_block_a (a_K (cmp 0)) Ss Se Al b)) bl).
Fixpoint aacf_dec_blocks (cur : list (list Z)) (q : qdec) : option (list (list Z)) :=
  match cur with
  | [] => Some []
  | blk :: t => match dec_acf_a qdec (next_k (ack (a_act (cmp 0)))) (a_K (cmp 0)) Se Al 130 Ss true blk q with
                | None => None
                | Some (b', q1) => match aacf_dec_blocks t q1 with None => None | Some r => Some (b' :: r) end
                end
  end.
Definition aacr_enc_blocks (bl : list (list Z)) : option (list decision) :=
  Some (flat_map (fun b => rekey (ack (a_act (cmp 0))) (enc_acr_block_a Ss Se Al Ah b)) bl).
Fixpoint aacr_dec_blocks (cur : list (list Z)) (q : qdec) : option (list (list Z)) :=
  match cur with
  | [] => Some []
  | blk :: t => match dec_acr_a qdec (next_k (ack (a_act (cmp 0)))) Se Al 65 Ss true blk q with
                | None => None
                | Some (b', q1) => match aacr_dec_blocks t q1 with None => None | Some r => Some (b' :: r) end
                end
  end.
End AProcs.

(* scans *)
Definition aseq_enc_scan cs mem (ncomp Ri : nat) ms :=
  aenc_scan _ (fun seg => aseq_enc_mcus cs mem seg (repeat 0 ncomp) (repeat 0 ncomp)) Ri ms.
Definition aseq_dec_scan cs mem (ncomp Ri nmcu : nat) bytes :=
  adec_scan unit _ (fun seg q => aseq_dec_mcus cs mem (length seg) (repeat 0 ncomp) (repeat 0 ncomp) q) Ri (repeat tt nmcu) bytes.
Definition adcf_enc_scan cs mem Al (ncomp Ri : nat) ms :=
  aenc_scan _ (fun seg => adcf_enc_mcus cs mem Al seg (repeat 0 ncomp) (repeat 0 ncomp)) Ri ms.
Definition adcf_dec_scan cs mem Al (ncomp Ri : nat) cur bytes :=
  adec_scan _ _ (fun seg q => adcf_dec_mcus cs mem Al seg (repeat 0 ncomp) (repeat 0 ncomp) q) Ri cur bytes.
Definition adcr_enc_scan Al (Ri : nat) ms := aenc_scan _ (adcr_enc_mcus Al) Ri ms.
Definition adcr_dec_scan Al (Ri : nat) cur bytes := adec_scan _ _ (adcr_dec_mcus Al) Ri cur bytes.
Definition aacf_enc_scan cs Al Ss Se (Ri : nat) bl := aenc_scan _ (aacf_enc_blocks cs Al Ss Se) Ri bl.
Definition aacf_dec_scan cs Al Ss Se (Ri : nat) cur bytes := adec_scan _ _ (aacf_dec_blocks cs Al Ss Se) Ri cur bytes.
Definition aacr_enc_scan cs Al Ss Se Ah (Ri : nat) bl := aenc_scan _ (aacr_enc_blocks cs Al Ss Se Ah) Ri bl.
Definition aacr_dec_scan cs Al Ss Se (Ri : nat) cur bytes := adec_scan _ _ (aacr_dec_blocks cs Al Ss Se) Ri cur bytes.
