(* ArithBin.v -- binarisation layer of the arithmetic entropy coder for the DC
   difference (jcarith.c encode_mcu / encode_mcu_DC_first Figures F.4, F.6-F.9 and
   jdarith.c decode_mcu / decode_mcu_DC_first Figures F.19, F.21-F.24):
   which binary decisions are coded in which statistics bins, and the dc_context
   conditioning (arith_dc_L / arith_dc_U).  The QM coder itself (arith_encode /
   arith_decode: registers a, c, ct, sc, zc and the adaptive bins) is NOT modelled:
   the decoder below is parameterised by a function [next] that delivers the
   decision coded in a given bin.  Bin indices are relative to dc_stats[tbl]:
   S0 = dc_context, SS = S0+1, SP = S0+2, SN = S0+3, X1 = 20, M bins = X + 14.
   No proofs here. *)
From Coq Require Import List ZArith Bool Lia.
From LJT Require Import model.Huff.
Import ListNotations.
Local Open Scope Z_scope.

Definition decision := (Z * bool)%type.       (* (statistics bin, binary decision) *)
Definition X1 : Z := 20.

(* Figure F.8 (magnitude category) + F.9 (magnitude bit pattern) for w = |v| - 1.
   "m = 0; if (v -= 1) { encode(st,1); m = 1; v2 = v; st = X1;
      while (v2 >>= 1) { encode(st,1); m <<= 1; st += 1; } }
    encode(st,0);  ...  st += 14; while (m >>= 1) encode(st, (m & v) ? 1 : 0);"
   With n = nbits w the loops emit n-1 ones in bins X1.., a zero in bin X1+n-1, and the
   n-1 bits of w below its leading one, MSB first, in bin X1+n-1+14; m = 2^(n-1). *)
Definition enc_magnitude (st0 : Z) (w : Z) : list decision * Z :=
  if w =? 0 then ([(st0, false)], 0)
  else
    let n := nbits w in
    ((st0, true)
       :: map (fun i => (X1 + Z.of_nat i, true)) (seq 0 (Z.to_nat (n - 1)))
       ++ [(X1 + (n - 1), false)]
       ++ map (fun b => (X1 + (n - 1) + 14, b)) (bits_of (Z.to_nat (n - 1)) w),
     2 ^ (n - 1)).

(* Figure F.4 Encode_DC_DIFF; returns the decisions and the new dc_context[ci] *)
Definition enc_dc_arith (ctx L U : Z) (v : Z) : list decision * Z :=
  if v =? 0 then ([(ctx, false)], 0)
  else
    let sign := v <? 0 in
    let st := if sign then ctx + 3 else ctx + 2 in
    let '(ds, m) := enc_magnitude st (Z.abs v - 1) in
    let base := if sign then 8 else 4 in
    let ctx' := if m <? 2 ^ L / 2 then 0 else if m >? 2 ^ U / 2 then base + 8 else base in
    ((ctx, true) :: (ctx + 1, sign) :: ds, ctx').

Section Decoder.
Variable stream : Type.
Variable next : Z -> stream -> option (bool * stream).      (* arith_decode(cinfo, st) *)

(* "while (arith_decode(st)) { if ((m <<= 1) == 0x8000) error; st += 1; }" *)
Fixpoint dec_cat (fuel : nat) (st m : Z) (s : stream) : option (Z * Z * stream) :=
  match fuel with
  | O => None
  | S f =>
      match next st s with
      | None => None
      | Some (true, s') => let m' := 2 * m in if m' =? 32768 then None else dec_cat f (st + 1) m' s'
      | Some (false, s') => Some (st, m, s')
      end
  end.

(* "while (m >>= 1) if (arith_decode(st)) v |= m;" *)
Fixpoint dec_pattern (fuel : nat) (st m v : Z) (s : stream) : option (Z * stream) :=
  match fuel with
  | O => None
  | S f =>
      let m' := m / 2 in
      if m' =? 0 then Some (v, s)
      else match next st s with
           | None => None
           | Some (b, s') => dec_pattern f st m' (if b then Z.lor v m' else v) s'
           end
  end.

(* Figure F.19 Decode_DC_DIFF; returns the difference, the new dc_context, the stream *)
Definition dec_dc_arith (ctx L U : Z) (s : stream) : option (Z * Z * stream) :=
  match next ctx s with
  | None => None
  | Some (false, s1) => Some (0, 0, s1)
  | Some (true, s1) =>
      match next (ctx + 1) s1 with
      | None => None
      | Some (sign, s2) =>
          let st := ctx + 2 + (if sign then 1 else 0) in
          match next st s2 with
          | None => None
          | Some (m0, s3) =>
              match (if m0 then dec_cat 16 X1 1 s3 else Some (st, 0, s3)) with
              | None => None
              | Some (st', m, s4) =>
                  let ctx' := if m <? 2 ^ L / 2 then 0
                              else if m >? 2 ^ U / 2 then 12 + (if sign then 4 else 0)
                              else 4 + (if sign then 4 else 0) in
                  match dec_pattern 17 (st' + 14) m m s4 with
                  | None => None
                  | Some (v, s5) => Some (if sign then - (v + 1) else v + 1, ctx', s5)
                  end
              end
          end
      end
  end.
End Decoder.
