(* C09 -- the remaining Huffman MCU decoders as suspendable units: jdphuff.c decode_mcu_DC_first,
   decode_mcu_AC_first, decode_mcu_DC_refine and jdlhuff.c decode_mcus (one MCU), without restart intervals
   (process_restart is the one of SuspendHuff.v / SuspendLossless.v).

   DC first / AC first / lossless: the working copies (bit reader, last_dc_val, EOBRUN) are committed at the
   end of the MCU; the coefficients / differences written before a suspension are plain assignments that
   the re-run repeats (C09_replay_absorbed pattern), so the unit is ATOMIC: More returns the state unchanged.
   DC refine ORs a bit into coefficients that live in the array: a suspended MCU leaves a DIRTY prefix of
   blocks ("since we use |=, repeating the assignment later is safe").                                   *)
From Coq Require Import List ZArith Bool.
From LJT Require Import model.SuspendCore model.SuspendMarker model.SuspendHuff.
Import ListNotations.
Local Open Scope Z_scope.

(* ------------------------------------------------------------ generic atomic MCU unit *)
Section Atomic.
  Variables S R : Type.
  Variable left : S -> nat.                       (* MCUs still to decode *)
  Variable load : S -> list byte -> br.           (* BITREAD_LOAD_STATE *)
  Variable body : S -> B R.
  Variable commit : S -> br -> R -> S.            (* BITREAD_SAVE_STATE; entropy->saved = state; output *)

  Definition atomic_unit (s : S) (p : list byte) : ures S unit :=
    match left s with
    | O => Halt
    | Datatypes.S _ =>
      match body s (load s p) with
      | BSusp => More s 0
      | BOk r b => Done (commit s b r) (length p - length (rest b)) 0
      end
    end.
End Atomic.

(* permanent state shared by the progressive / lossless units *)
Record pq := {
  pq_gb : Z; pq_bl : Z; pq_um : Z; pq_insuf : bool; pq_warn : nat;
  pq_last : list Z;              (* saved.last_dc_val *)
  pq_eob : Z;                    (* saved.EOBRUN *)
  pq_left : nat;
  pq_out : list (list Z)         (* per MCU: the values written into the coefficient / difference arrays *)
}.

Definition pq_load (s : pq) (p : list byte) : br :=
  {| gb := pq_gb s; bl := pq_bl s; rest := p; um := pq_um s; insuf := pq_insuf s; wn := pq_warn s |}.

Definition pq_commit (s : pq) (b : br) (last : list Z) (eob : Z) (vals : list Z) : pq :=
  {| pq_gb := gb b; pq_bl := bl b; pq_um := um b; pq_insuf := insuf b; pq_warn := wn b; pq_last := last; pq_eob := eob;
     pq_left := pred (pq_left s); pq_out := pq_out s ++ [vals] |}.

(* ------------------------------------------------------------ decode_mcu_DC_first *)
Fixpoint dcf_blocks (layout : list (nat * dtbl)) (al : Z) (last acc : list Z) : B (list Z * list Z) :=
  match layout with
  | [] => bret (last, acc)
  | (ci, t) :: l =>
      s <~ huff_decode t ;;
      d <~ (if negb (s =? 0) then (_ <~ check_bits s ;; r <~ get_bits s ;; bret (huff_extend r s)) else bret 0) ;;
      let v := d + nth ci last 0 in
      dcf_blocks l al (upd ci v last) (acc ++ [v * 2 ^ al])          (* block[0] = LEFT_SHIFT(s, Al) *)
  end.

Definition dcf_body (layout : list (nat * dtbl)) (al : Z) (s : pq) : B (list Z * Z * list Z) :=
  if pq_insuf s then bret (pq_last s, pq_eob s, map (fun _ => 0) layout)      (* leave the MCU set to zeroes *)
  else r <~ dcf_blocks layout al (pq_last s) [] ;; bret (fst r, pq_eob s, snd r).

Definition pq_commit3 (s : pq) (b : br) (r : list Z * Z * list Z) : pq := pq_commit s b (fst (fst r)) (snd (fst r)) (snd r).

Definition dc_first_unit (layout : list (nat * dtbl)) (al : Z) : pq -> list byte -> ures pq unit :=
  atomic_unit pq _ pq_left pq_load (dcf_body layout al) pq_commit3.

(* ------------------------------------------------------------ decode_mcu_AC_first (one block per MCU) *)
Fixpoint acf_loop (fuel : nat) (t : dtbl) (al se k : Z) (coef : list Z) : B (Z * list Z) :=
  match fuel with
  | O => bret (0, coef)
  | S f =>
    if k <=? se then
      s0 <~ huff_decode t ;;
      let r := Z.shiftr s0 4 in
      let s := Z.land s0 15 in
      if negb (s =? 0) then
        let k' := k + r in
        _ <~ check_bits s ;; v <~ get_bits s ;;
        acf_loop f t al se (k' + 1) (upd (Z.to_nat (Z.min k' 63)) (huff_extend v s * 2 ^ al) coef)
      else if r =? 15 then acf_loop f t al se (k + 16) coef             (* ZRL *)
      else if r =? 0 then bret (0, coef)                                (* EOBRUN = 1; EOBRUN-- *)
      else (_ <~ check_bits r ;; v <~ get_bits r ;; bret (2 ^ r + v - 1, coef))
    else bret (0, coef)
  end.

Definition acf_body (t : dtbl) (ss se al : Z) (s : pq) : B (list Z * Z * list Z) :=
  if pq_insuf s then bret (pq_last s, pq_eob s, repeat 0 64)
  else if pq_eob s >? 0 then bret (pq_last s, pq_eob s - 1, repeat 0 64)       (* if EOBRUN > 0, band is all zeroes *)
  else r <~ acf_loop 64 t al se ss (repeat 0 64) ;; bret (pq_last s, fst r, snd r).

Definition ac_first_unit (t : dtbl) (ss se al : Z) : pq -> list byte -> ures pq unit :=
  atomic_unit pq _ pq_left pq_load (acf_body t ss se al) pq_commit3.

(* ------------------------------------------------------------ jdlhuff.c decode_mcus, one MCU *)
Fixpoint lh_samples (tbls : list dtbl) (acc : list Z) : B (list Z) :=
  match tbls with
  | [] => bret acc
  | t :: l =>
      s <~ huff_decode t ;;
      d <~ (if s =? 0 then bret 0
            else if s =? 16 then bret 32768                             (* special case: always output 32768 *)
            else (_ <~ check_bits s ;; r <~ get_bits s ;; bret (huff_extend r s))) ;;
      lh_samples l (acc ++ [d])
  end.

Definition lh_body (tbls : list dtbl) (s : pq) : B (list Z * Z * list Z) :=
  r <~ lh_samples tbls [] ;; bret (pq_last s, pq_eob s, r).

Definition lossless_mcu_unit (tbls : list dtbl) : pq -> list byte -> ures pq unit :=
  atomic_unit pq _ pq_left pq_load (lh_body tbls) pq_commit3.

(* ------------------------------------------------------------ decode_mcu_DC_refine (in place, dirty) *)
Record dq := {
  dq_gb : Z; dq_bl : Z; dq_um : Z; dq_insuf : bool; dq_warn : nat;
  dq_todo : list (list Z);       (* per MCU still to refine: the DC coefficients of its blocks, in the array *)
  dq_done : list (list Z)
}.

Inductive dres := DOk (blocks : list Z) (b : br) | DSusp (blocks : list Z).

(* for each block: CHECK_BIT_BUFFER(1); if (GET_BITS(1)) block[0] |= p1 *)
Fixpoint dcr_blocks (p1 : Z) (blocks : list Z) (b : br) : dres :=
  match blocks with
  | [] => DOk [] b
  | c :: l =>
    match bbind (check_bits 1) (fun _ => get_bits 1) b with
    | BSusp => DSusp blocks                                           (* return FALSE: earlier blocks stay modified *)
    | BOk bit b1 =>
      let c' := if bit =? 0 then c else Z.lor c p1 in
      match dcr_blocks p1 l b1 with
      | DOk l' b2 => DOk (c' :: l') b2
      | DSusp l' => DSusp (c' :: l')
      end
    end
  end.

Definition dq_load (s : dq) (p : list byte) : br :=
  {| gb := dq_gb s; bl := dq_bl s; rest := p; um := dq_um s; insuf := dq_insuf s; wn := dq_warn s |}.

Definition dc_refine_unit (al : Z) (s : dq) (p : list byte) : ures dq unit :=
  match dq_todo s with
  | [] => Halt
  | blocks :: more =>
    match dcr_blocks (2 ^ al) blocks (dq_load s p) with
    | DOk blocks' b =>
        Done {| dq_gb := gb b; dq_bl := bl b; dq_um := um b; dq_insuf := insuf b; dq_warn := wn b;
                dq_todo := more; dq_done := dq_done s ++ [blocks'] |} (length p - length (rest b)) 0
    | DSusp dirty =>
        More {| dq_gb := dq_gb s; dq_bl := dq_bl s; dq_um := dq_um s; dq_insuf := dq_insuf s; dq_warn := dq_warn s;
                dq_todo := dirty :: more; dq_done := dq_done s |} 0
    end
  end.

Definition pq_init (ncomp : nat) (eob : Z) (n : nat) : pq :=
  {| pq_gb := 0; pq_bl := 0; pq_um := 0; pq_insuf := false; pq_warn := 0%nat; pq_last := repeat 0 ncomp; pq_eob := eob;
     pq_left := n; pq_out := [] |}.
Definition dq_init (mcus : list (list Z)) : dq :=
  {| dq_gb := 0; dq_bl := 0; dq_um := 0; dq_insuf := false; dq_warn := 0%nat; dq_todo := mcus; dq_done := [] |}.

Definition run_dc_first layout al cs s := run_chunked (dc_first_unit layout al) pq_left cs s.
Definition run_ac_first t ss se al cs s := run_chunked (ac_first_unit t ss se al) pq_left cs s.
Definition run_lossless_mcus tbls cs s := run_chunked (lossless_mcu_unit tbls) pq_left cs s.
Definition run_dc_refine al cs s := run_chunked (dc_refine_unit al) (fun s => length (dq_todo s)) cs s.
