(* DArith.v -- index structure of the arithmetic entropy decoder (jdarith.c decode_mcu, sequential) (C01).
   The binary decisions arith_decode() returns are an ARBITRARY oracle d : nat -> bool (the n-th call returns
   d n): the control flow of decode_mcu depends on the data only through them, so whatever holds for every d
   holds for every byte string, incl. the zero data supplied after a marker.  Recorded: every statistics-bin
   offset with the size of its area (dc_stats[tbl] + off : DC_STAT_BINS, ac_stats[tbl] + off : AC_STAT_BINS),
   natural_order[k], dc_context[ci].  m is kept as its exponent e (m = 2^e).  No proofs here. *)
From Coq Require Import List ZArith Bool Lia.
From LJT Require Import gen.GenLimits model.Huff model.DMarkers model.DProg.
Import ListNotations.
Local Open Scope Z_scope.

Inductive ares := AOk (n : nat) (st e : Z) (tr : list (Z * Z)) | AErr (n : nat) (tr : list (Z * Z)) | AFuel (tr : list (Z * Z)).

(* "while (arith_decode(cinfo, st)) { if ((m <<= 1) == 0x8000) { ct = -1; return TRUE; } st += 1; }" *)
Fixpoint mag_loop (fuel : nat) (d : nat -> bool) (n : nat) (st e bins : Z) (tr : list (Z * Z)) : ares :=
  match fuel with
  | O => AFuel tr
  | S f =>
      let tr1 := lg st bins tr in
      if d n then
        if e + 1 =? 15 then AErr (S n) tr1 else mag_loop f d (S n) (st + 1) (e + 1) bins tr1
      else AOk (S n) st e tr1
  end.

(* "st += 14; while (m >>= 1) if (arith_decode(cinfo, st)) v |= m;": e decisions, all on the same bin *)
Fixpoint bits_loop (k : nat) (n : nat) (st bins : Z) (tr : list (Z * Z)) : nat * list (Z * Z) :=
  match k with O => (n, tr) | S k' => bits_loop k' (S n) st bins (lg st bins tr) end.

(* DC coefficient of one block; ctx = dc_context[ci]; returns the new context *)
Inductive dres := DOk (n : nat) (ctx : Z) (tr : list (Z * Z)) | DErr (n : nat) (tr : list (Z * Z)) | DFuel (tr : list (Z * Z)).
Definition dc_decode (d : nat -> bool) (n : nat) (ctx : Z) (small large : bool) (tr : list (Z * Z)) : dres :=
  let tr0 := lg ctx L_DC_STAT_BINS tr in
  if negb (d n) then DOk (S n) 0 tr0 else
  let tr1 := lg (ctx + 1) L_DC_STAT_BINS tr0 in
  let sign := if d (S n) then 1 else 0 in
  let st := ctx + 2 + sign in
  let tr2 := lg st L_DC_STAT_BINS tr1 in
  let n3 := S (S (S n)) in
  let fin := fun n' st' e tr' =>
    (* dc_context: the comparison of m with arith_dc_L / arith_dc_U is abstracted by two arbitrary booleans *)
    let ctx' := if small then 0 else if large then 12 + sign * 4 else 4 + sign * 4 in
    let '(n'', tr'') := bits_loop (Z.to_nat e) n' (st' + 14) L_DC_STAT_BINS tr' in
    DOk n'' ctx' tr'' in
  if negb (d (S (S n))) then fin n3 st 0 tr2 else
  match mag_loop 16 d n3 20 0 L_DC_STAT_BINS tr2 with
  | AOk n' st' e tr' => fin n' st' e tr'
  | AErr n' tr' => DErr n' tr'
  | AFuel tr' => DFuel tr'
  end.

(* "while (arith_decode(cinfo, st + 1) == 0) { st += 3; k++; if (k > DCTSIZE2 - 1) error; }" *)
Inductive rres2 := ROk (n : nat) (k : Z) (tr : list (Z * Z)) | RErr (n : nat) (tr : list (Z * Z)) | RFuel2 (tr : list (Z * Z)).
Fixpoint run_loop (fuel : nat) (d : nat -> bool) (n : nat) (k : Z) (tr : list (Z * Z)) : rres2 :=
  match fuel with
  | O => RFuel2 tr
  | S f =>
      let tr1 := lg (3 * (k - 1) + 1) L_AC_STAT_BINS tr in
      if d n then ROk (S n) k tr1
      else if k + 1 >? L_DCTSIZE2 - 1 then RErr (S n) tr1 else run_loop f d (S n) (k + 1) tr1
  end.

(* "for (k = 1; k <= DCTSIZE2 - 1; k++) { st = ac_stats[tbl] + 3 * (k - 1); if (arith_decode(st)) break; ... }"
   kle : nat -> bool abstracts "k <= arith_ac_K[tbl]" (any conditioning value) *)
Fixpoint ac_decode (fuel : nat) (d : nat -> bool) (kle : Z -> bool) (n : nat) (k : Z) (tr : list (Z * Z)) : dres :=
  if k <=? L_DCTSIZE2 - 1 then
    match fuel with
    | O => DFuel tr
    | S f =>
        let tr0 := lg (3 * (k - 1)) L_AC_STAT_BINS tr in
        if d n then DOk (S n) k tr0 else
        match run_loop 64 d (S n) k tr0 with
        | RFuel2 tr' => DFuel tr'
        | RErr n' tr' => DErr n' tr'
        | ROk n1 k1 tr1 =>
            let tr2 := lg 0 bound_fixed_bin tr1 in                      (* sign = arith_decode(fixed_bin) *)
            let st := 3 * (k1 - 1) + 2 in
            let tr3 := lg st L_AC_STAT_BINS tr2 in
            let n2 := S (S n1) in                                       (* sign, then the first magnitude decision *)
            let fin := fun n' st' e tr' =>
              let '(n'', tr'') := bits_loop (Z.to_nat e) n' (st' + 14) L_AC_STAT_BINS tr' in
              let tr4 := lg k1 bound_natural_order tr'' in
              let tr5 := lg (nthd natural_order k1 (-1)) L_DCTSIZE2 tr4 in
              ac_decode f d kle n'' (k1 + 1) tr5 in
            if negb (d (S n1)) then fin n2 st 0 tr3 else
            let tr3' := lg st L_AC_STAT_BINS tr3 in                     (* second decision on the same bin *)
            if negb (d n2) then fin (S n2) st 0 tr3' else
            match mag_loop 16 d (S n2) (if kle k1 then 189 else 217) 1 L_AC_STAT_BINS tr3' with
            | AOk n' st' e tr' => fin n' st' e tr'
            | AErr n' tr' => DErr n' tr'
            | AFuel tr' => DFuel tr'
            end
        end
    end
  else DOk n k tr.

(* which statistics areas the MCU decoder selected by start_pass dereferences (decode_mcu: both;
   decode_mcu_DC_first: dc_stats[Td]; decode_mcu_AC_first / _AC_refine: ac_stats[Ta]; decode_mcu_DC_refine: fixed_bin only;
   selection: "if (cinfo->Ah == 0) { Ss == 0 ? DC_first : AC_first } else { Ss == 0 ? DC_refine : AC_refine }") *)
Definition decoder_uses_dc (prog : bool) (Ss Ah : Z) : bool := negb prog || ((Ss =? 0) && (Ah =? 0)).
Definition decoder_uses_ac (prog : bool) (Ss Ah : Z) : bool := negb prog || negb (Ss =? 0).
