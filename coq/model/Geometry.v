(* C20 -- executable model of the planar-YUV geometry code of src/turbojpeg.c.

   Every arithmetic expression and guard used here is a definition of
   gen/GenSubsamp.v, translated on every run from the C text of the function
   named in the comment; only the control flow (order of tests, loop, early
   returns) is written by hand and mirrors the C statement order.

   Conventions of the generated expressions: "ull" expressions reduce every
   + - * ~ modulo 2^64 (u64); "int" expressions come with a predicate <e>_ok
   (no intermediate result leaves [INT_MIN, INT_MAX]); the model answers UB when
   an int expression would overflow (undefined behaviour in C). *)
From Coq Require Import ZArith List Bool.
From LJT Require Import gen.GenSubsamp.
Import ListNotations.
Local Open Scope Z_scope.
Local Open Scope bool_scope.

Inductive cres := Val (v : Z) | UB.

(* ABI parameters: unsigned long has [ulbits] bits, size_t has [szbits] bits.
   "#if ULLONG_MAX > ULONG_MAX" is true iff ulbits < 64. *)
Definition ULONG_MAX (ulbits : Z) : Z := 2 ^ ulbits - 1.
Definition ulong_check (ulbits retval : Z) : bool := (ulbits <? 64) && (retval >? ULONG_MAX ulbits).
Definition to_size_t (szbits x : Z) : Z := x mod 2 ^ szbits.

(* ---- tj3YUVPlaneWidth / tj3YUVPlaneHeight (turbojpeg.c) ---- *)
Definition tj3YUVPlaneWidth (componentID width subsamp : Z) : Z :=
  if pw_guard width subsamp then 0 else
  let nc := pw_nc subsamp in
  if pw_compguard componentID nc then 0 else
  let pw := pw_luma width subsamp in
  let retval := pw_retval componentID pw subsamp in
  if pw_toolarge retval then 0 else retval.

Definition tj3YUVPlaneHeight (componentID height subsamp : Z) : Z :=
  if ph_guard height subsamp then 0 else
  let nc := ph_nc subsamp in
  if ph_compguard componentID nc then 0 else
  let ph := ph_luma height subsamp in
  let retval := ph_retval componentID ph subsamp in
  if ph_toolarge retval then 0 else retval.

(* legacy wrappers tjPlaneWidth / tjPlaneHeight: error value -1 *)
Definition tjPlaneWidth (componentID width subsamp : Z) : Z :=
  let r := tj3YUVPlaneWidth componentID width subsamp in if r =? 0 then -1 else r.
Definition tjPlaneHeight (componentID height subsamp : Z) : Z :=
  let r := tj3YUVPlaneHeight componentID height subsamp in if r =? 0 then -1 else r.

(* ---- tj3YUVBufSize ---- *)
Inductive lres := Return0 | Acc (retval : Z).

(* for (i = 0; i < nc; i++) { ... }   [n] = iterations left *)
Fixpoint bs_loop (n : nat) (i retval width align height subsamp : Z) : lres :=
  match n with
  | O => Acc retval
  | S n' =>
    let pw := tj3YUVPlaneWidth i width subsamp in
    let stride := bs_stride pw align in
    let ph := tj3YUVPlaneHeight i height subsamp in
    if bs_zero pw ph then Return0 else
    if bs_stride_toolarge stride then Return0 (* THROWG(..., 0) *) else
    bs_loop n' (i + 1) (u64 (retval + bs_term stride ph)) width align height subsamp
  end.

Definition tj3YUVBufSize (ulbits szbits width align height subsamp : Z) : Z :=
  if bs_guard align subsamp then 0 else
  let nc := bs_nc subsamp in
  match bs_loop (Z.to_nat nc) 0 0 width align height subsamp with
  | Return0 => 0
  | Acc retval => if ulong_check ulbits retval then 0 else to_size_t szbits retval
  end.

(* ---- tj3YUVPlaneSize ---- *)
Definition tj3YUVPlaneSize (ulbits szbits componentID width stride height subsamp : Z) : cres :=
  if ps_guard width height subsamp stride then Val 0 else
  let pw := tj3YUVPlaneWidth componentID width subsamp in
  let ph := tj3YUVPlaneHeight componentID height subsamp in
  if ps_zero pw ph then Val 0 else
  if negb (ps_stride_ok stride pw) then UB else
  let stride' := ps_stride stride pw in
  let retval := ps_retval stride' ph pw in
  if ulong_check ulbits retval then Val 0 else Val (to_size_t szbits retval).

(* ---- the unified-buffer functions tj3CompressFromYUV8 / tj3EncodeYUV8 /
        tj3DecompressToYUV8 / tj3DecodeYUV8: what they hand to the per-plane
        function.  Offsets are relative to the caller's buffer; None = NULL. ---- *)
Inductive ures :=
| UErr                                        (* THROW: returns -1, nothing is read or written *)
| UUB                                         (* signed overflow in an int expression *)
| ULayout (offs : list (option Z)) (strides : list Z).

Definition unified_layout (f : uni_fn) (width align height subsamp : Z) : ures :=
  (* argument test and unknown-level test of the function (translated; buffer pointers non-NULL).  tj3DecompressToYUV8 has
     no width/height test: its width/height are the scaled dimensions of the JPEG header *)
  if u_argguard f width align height then UErr else
  if u_unknown f subsamp then UErr else
  let pw0 := tj3YUVPlaneWidth 0 width subsamp in
  let ph0 := tj3YUVPlaneHeight 0 height subsamp in
  if u_padguard f pw0 ph0 align then UErr else
  if negb (u_stride0_ok f pw0 align) then UUB else
  let s0 := u_stride0 f pw0 align in
  if subsamp =? TJSAMP_GRAY then ULayout [Some 0; None; None] [s0; 0; 0] else
  let pw1 := if u_legacy_pw1 f then tjPlaneWidth 1 width subsamp else tj3YUVPlaneWidth 1 width subsamp in
  let ph1 := if u_legacy_ph1 f then tjPlaneHeight 1 height subsamp else tj3YUVPlaneHeight 1 height subsamp in
  if negb (u_stride1_ok f pw1 align) then UUB else
  let s1 := u_stride1 f pw1 align in
  if u_toolarge f s0 ph0 s1 ph1 then UErr else
  if negb (u_off1_ok f s0 ph0) || negb (u_off2_ok f s1 ph1) then UUB else
  let o1 := 0 + u_off1 f s0 ph0 in
  let o2 := o1 + u_off2 f s1 ph1 in
  ULayout [Some 0; Some o1; Some o2] [s0; s1; s1].

(* tj3DecompressToYUV8 applies the layout to the scaled JPEG dimensions *)
Definition scaled_dim (dim num denom : Z) : cres :=
  if TJSCALED_c_ok dim num denom then Val (TJSCALED_c dim num denom) else UB.

(* ---- plane dimensions as recomputed inside the per-plane codec paths ---- *)
Definition samp_h0 (s : Z) := comp_hsamp0 s.
Definition cfp_plane_w (i width subsamp : Z) : Z :=
  cfp_pw width (comp_hsamp0 subsamp) (if i =? 0 then comp_hsamp0 subsamp else 1).
Definition cfp_plane_h (i height subsamp : Z) : Z :=
  cfp_ph height (comp_vsamp0 subsamp) (if i =? 0 then comp_vsamp0 subsamp else 1).
Definition enc_plane_w (i width subsamp : Z) : Z :=
  enc_pw (enc_pw0 width (comp_hsamp0 subsamp)) (if i =? 0 then comp_hsamp0 subsamp else 1) (comp_hsamp0 subsamp).
Definition enc_plane_h (i height subsamp : Z) : Z :=
  enc_ph (enc_ph0 height (comp_vsamp0 subsamp)) (if i =? 0 then comp_vsamp0 subsamp else 1) (comp_vsamp0 subsamp).
Definition dec_plane_w (i width subsamp : Z) : Z :=
  dec_pw (dec_pw0 width (dec_hsamp0 subsamp)) (if i =? 0 then dec_hsamp0 subsamp else 1) (dec_hsamp0 subsamp).
Definition dec_plane_h (i height subsamp : Z) : Z :=
  dec_ph (dec_ph0 height (dec_vsamp0 subsamp)) (if i =? 0 then dec_vsamp0 subsamp else 1) (dec_vsamp0 subsamp).

(* ---- getSubsamp() for a 3-component YCbCr JPEG: the TJSAMP level that the sampling factors
        (Y yh x yv, Cb bh x bv, Cr rh x rv) denote, or TJSAMP_UNKNOWN.  Three rules per level i
        (standard form, non-standard 4:2:2 / 4:4:0 form, non-standard 4:4:4 form), first level wins. ---- *)
Definition gs_level_matches (i yh yv bh bv rh rv : Z) : bool :=
  (gs_std yh yv i && (bh =? 1) && (bv =? 1) && (rh =? 1) && (rv =? 1)) ||
  (gs_ns yh yv i && (bh =? gs_ns_href i) && (bv =? gs_ns_vref i) && (rh =? gs_ns_href i) && (rv =? gs_ns_vref i)) ||
  (gs_444 yh yv i && (bh =? yh) && (bv =? yv) && (rh =? yh) && (rv =? yv)).

Fixpoint gs_loop (n : nat) (i yh yv bh bv rh rv : Z) : Z :=
  match n with
  | O => TJSAMP_UNKNOWN
  | S n' =>
    if negb (i =? TJSAMP_GRAY) && gs_level_matches i yh yv bh bv rh rv then i
    else gs_loop n' (i + 1) yh yv bh bv rh rv
  end.

Definition getSubsamp3 (yh yv bh bv rh rv : Z) : Z := gs_loop (Z.to_nat TJ_NUMSAMP) 0 yh yv bh bv rh rv.

(* libjpeg's size of a component in samples: jdiv_round_up(image_width * h_samp_factor, max_h_samp_factor)
   (jdmaster.c downsampled_width; written by hand, not translated) *)
Definition downsampled_dim (dim samp max_samp : Z) : Z := (dim * samp + max_samp - 1) / max_samp.
