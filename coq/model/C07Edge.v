(* C07 -- edge replication of the compressor, statement by statement (no proofs here):
   src/jcprepct.c expand_bottom_edge (rows input_rows..output_rows-1 := copy of the first num_cols
   samples of row input_rows-1, through jcopy_sample_rows) and src/jcsample.c expand_right_edge
   (for each of num_rows rows: pixval = ptr[-1]; output_cols - input_cols stores of pixval).
   A sample array is a list of rows; rows are at least as long as the columns touched. *)
From Coq Require Import List ZArith Arith.
Import ListNotations.

Fixpoint set_nth {A} (l : list A) (n : nat) (v : A) : list A :=
  match l, n with
  | [], _ => []
  | _ :: t, O => v :: t
  | h :: t, S k => h :: set_nth t k v
  end.

(* for (count = numcols; count > 0; count--) *ptr++ = pixval; *)
Fixpoint fill_run (row : list Z) (pos : nat) (pixval : Z) (count : nat) : list Z :=
  match count with
  | O => row
  | S c => fill_run (set_nth row pos pixval) (S pos) pixval c
  end.

Definition expand_right_edge_row (row : list Z) (input_cols output_cols : nat) : list Z :=
  let numcols := (Z.of_nat output_cols - Z.of_nat input_cols)%Z in      (* int numcols = (int)(output_cols - input_cols) *)
  if (numcols >? 0)%Z then fill_run row input_cols (nth (input_cols - 1) row 0%Z) (output_cols - input_cols)
  else row.

(* LOCAL(void) expand_right_edge(image_data, num_rows, input_cols, output_cols) *)
Fixpoint expand_right_edge (image : list (list Z)) (num_rows input_cols output_cols : nat) : list (list Z) :=
  match image, num_rows with
  | row :: rest, S k => expand_right_edge_row row input_cols output_cols :: expand_right_edge rest k input_cols output_cols
  | _, _ => image
  end.

(* jcopy_sample_rows(image_data, src_row, image_data, dest_row, 1, num_cols): memcpy of num_cols samples *)
Definition copy_row (src dst : list Z) (num_cols : nat) : list Z := firstn num_cols src ++ skipn num_cols dst.

(* for (row = input_rows; row < output_rows; row++) copy row input_rows-1 into row *)
Fixpoint bottom_loop (image : list (list Z)) (num_cols src_row row : nat) (count : nat) : list (list Z) :=
  match count with
  | O => image
  | S c => bottom_loop (set_nth image row (copy_row (nth src_row image []) (nth row image []) num_cols)) num_cols src_row (S row) c
  end.
Definition expand_bottom_edge (image : list (list Z)) (num_cols input_rows output_rows : nat) : list (list Z) :=
  bottom_loop image num_cols (input_rows - 1) input_rows (output_rows - input_rows).

(* what one component of a 4:4:4 image goes through before the forward DCT sees it:
   pre_process_data pads the rows at the bottom of the image (over image_width columns),
   fullsize_downsample pads every row to the block boundary *)
Definition pad_component (image : list (list Z)) (w h W H : nat) : list (list Z) :=
  expand_right_edge (expand_bottom_edge image w h H) H w W.
