(* C11 -- value-level models of the downsampling / fancy-upsampling kernels: the C functions of
   src/jcsample.c and src/jdsample.c transcribed loop by loop, and the x86-64 SIMD kernels
   (simd/x86_64/jcsample-{sse2,avx2}.asm, jdsample-{sse2,avx2}.asm) at lane level: the chunking into
   vectors of V columns, the edge handling (expand_right_edge by rep stosb, zero-filled partial
   vectors, the dummy sample stored after the last column, the previous/next sample carried across
   vectors) and the 16-bit lane arithmetic with its wrap-around and saturation.  The byte<->word
   re-packing shuffles (punpck, pack, vperm) are treated as lane projections.  No proofs.
   Rows are lists of samples (index 0 first); nth _ _ 0 reads; counts are nat. *)
From Coq Require Import List ZArith Bool.
Import ListNotations.
Local Open Scope Z_scope.

Definition rd (l : list Z) (i : nat) : Z := nth i l 0.
Definition wrap16 (x : Z) : Z := x mod 65536.
(* packuswb: signed 16-bit -> unsigned 8-bit with saturation *)
Definition sat_ub (w : Z) : Z := if 32768 <=? w then 0 else Z.min w 255.
Definition round_up_nat (n v : nat) : nat := ((n + v - 1) / v * v)%nat.

(* ------------------------------------------------------------------ jcsample.c *)
(* expand_right_edge(image_data, num_rows, input_cols, output_cols), one row:
     numcols = output_cols - input_cols; if (numcols > 0) { pixval = ptr[-1]; for (count = numcols; ...) *ptr++ = pixval; } *)
Definition expand_right_edge (row : list Z) (input_cols output_cols : nat) : list Z :=
  if (input_cols <? output_cols)%nat
  then firstn input_cols row ++ repeat (rd row (input_cols - 1)) (output_cols - input_cols) ++ skipn output_cols row
  else row.

(* h2v1_downsample inner loop: *outptr++ = (inptr[0] + inptr[1] + bias) >> 1; bias ^= 1; inptr += 2; *)
Fixpoint h2v1_ds_loop (inp : list Z) (bias : Z) (outcols : nat) : list Z :=
  match outcols with
  | O => []
  | S k => ((rd inp 0 + rd inp 1 + bias) / 2) :: h2v1_ds_loop (skipn 2 inp) (Z.lxor bias 1) k
  end.
Definition h2v1_downsample_c (row : list Z) (image_width output_cols : nat) : list Z :=
  h2v1_ds_loop (expand_right_edge row image_width (2 * output_cols)) 0 output_cols.

(* h2v2_downsample: bias = 1,2,1,2,...; (inptr0[0] + inptr0[1] + inptr1[0] + inptr1[1] + bias) >> 2; bias ^= 3 *)
Fixpoint h2v2_ds_loop (in0 in1 : list Z) (bias : Z) (outcols : nat) : list Z :=
  match outcols with
  | O => []
  | S k => ((rd in0 0 + rd in0 1 + rd in1 0 + rd in1 1 + bias) / 4)
           :: h2v2_ds_loop (skipn 2 in0) (skipn 2 in1) (Z.lxor bias 3) k
  end.
Definition h2v2_downsample_c (row0 row1 : list Z) (image_width output_cols : nat) : list Z :=
  h2v2_ds_loop (expand_right_edge row0 image_width (2 * output_cols))
               (expand_right_edge row1 image_width (2 * output_cols)) 1 output_cols.

(* ---- jcsample-sse2.asm (V = 16) / jcsample-avx2.asm (V = 32).
   "-- expand_right_edge": rcx = output_cols*2 - image_width; jle skip; al = [rdi-1]; rep stosb   (same as C)
   column loop: while rcx >= V: two full vectors (2V input bytes) -> V output bytes;
   then, if rcx > 0 (.columnloop_r8 / _r16 / _r24): the remaining 2*rcx input bytes are loaded, the
   rest of the two registers is ZERO, rcx := V, one more full store of V output bytes.
   lanes: pand 0x00FF / psrlw 8 split each word into its two bytes; paddw; paddw bias; psrlw 1; packuswb.
   bias register: words {0,1,0,1,..} (h2v1, "mov rdx,0x00010000") / {1,2,1,2,..} (h2v2, 0x00020001). *)
Definition ds1_lane (a b bias : Z) : Z := sat_ub (wrap16 (wrap16 (a + b) + bias) / 2).
Definition ds2_lane (a0 a1 b0 b1 bias : Z) : Z :=
  sat_ub (wrap16 (wrap16 (wrap16 (a0 + a1) + wrap16 (b0 + b1)) + bias) / 4).

(* what the registers hold: input bytes below 2*output_cols, zero above *)
Definition ld_zfill (row : list Z) (limit i : nat) : Z := if (i <? limit)%nat then rd row i else 0.

Definition h2v1_downsample_simd (V : nat) (row : list Z) (image_width output_cols : nat) : list Z :=
  let inp := expand_right_edge row image_width (2 * output_cols) in
  flat_map (fun c =>
    map (fun i => let g := (c * V + i)%nat in
                  ds1_lane (ld_zfill inp (2 * output_cols) (2 * g)) (ld_zfill inp (2 * output_cols) (2 * g + 1))
                           (Z.of_nat (i mod 2)))
        (seq 0 V))
    (seq 0 (round_up_nat output_cols V / V)).

Definition h2v2_downsample_simd (V : nat) (row0 row1 : list Z) (image_width output_cols : nat) : list Z :=
  let in0 := expand_right_edge row0 image_width (2 * output_cols) in
  let in1 := expand_right_edge row1 image_width (2 * output_cols) in
  flat_map (fun c =>
    map (fun i => let g := (c * V + i)%nat in
                  ds2_lane (ld_zfill in0 (2 * output_cols) (2 * g)) (ld_zfill in0 (2 * output_cols) (2 * g + 1))
                           (ld_zfill in1 (2 * output_cols) (2 * g)) (ld_zfill in1 (2 * output_cols) (2 * g + 1))
                           (1 + Z.of_nat (i mod 2)))
        (seq 0 V))
    (seq 0 (round_up_nat output_cols V / V)).

(* ------------------------------------------------------------------ jdsample.c *)
(* The triangle filter shared by h2v1_fancy_upsample (s = the input row, rounding 1/2, shift 2) and
   h2v2_fancy_upsample (s = colsum = nearer*3 + further, rounding 8/7, shift 4), as the C loops are
   written: first column, general columns (colctr = downsampled_width - 2 .. 1), last column. *)
Fixpoint tri_general (s : list Z) (r_e r_o sh : Z) (i : nat) (cnt : nat) : list Z :=
  match cnt with
  | O => []
  | S k => ((rd s i * 3 + rd s (i - 1) + r_e) / 2 ^ sh) :: ((rd s i * 3 + rd s (i + 1) + r_o) / 2 ^ sh)
           :: tri_general s r_e r_o sh (S i) k
  end.
(* h2v1: first: out0 = s0, out1 = (s0*3 + s1 + 2) >> 2; last: (s*3 + s[-1] + 1) >> 2, s *)
Definition h2v1_fancy_c (inp : list Z) (n : nat) : list Z :=
  [rd inp 0; (rd inp 0 * 3 + rd inp 1 + 2) / 4]
  ++ tri_general inp 1 2 2 1 (n - 2)
  ++ [(rd inp (n - 1) * 3 + rd inp (n - 2) + 1) / 4; rd inp (n - 1)].
(* h2v2: thiscolsum = inptr0*3 + inptr1; first: (s0*4 + 8) >> 4, (s0*3 + s1 + 7) >> 4; last: (s*3 + last + 8) >> 4, (s*4 + 7) >> 4 *)
Definition colsum (in0 in1 : list Z) (n : nat) : list Z := map (fun i => rd in0 i * 3 + rd in1 i) (seq 0 n).
Definition h2v2_fancy_c (in0 in1 : list Z) (n : nat) : list Z :=
  let s := colsum in0 in1 n in
  [(rd s 0 * 4 + 8) / 16; (rd s 0 * 3 + rd s 1 + 7) / 16]
  ++ tri_general s 8 7 4 1 (n - 2)
  ++ [(rd s (n - 1) * 3 + rd s (n - 2) + 8) / 16; (rd s (n - 1) * 4 + 7) / 16].

(* ---- jdsample-sse2.asm (V = 16) / jdsample-avx2.asm (V = 32), one row:
   if (n mod V != 0) in[n] = in[n-1]            ("insert a dummy sample", a STORE into the input row)
   rax = round_up(n, V); register "previous" = in[0] for the first vector, afterwards the last sample
   of the vector before; register "next" = first sample of the following vector, or, for the last
   vector, its own last sample; every vector: 2V output bytes (even | odd << 8).
   lanes (words): pmullw 3, paddw rounding, paddw, psrlw. *)
Definition set_nth (l : list Z) (i : nat) (v : Z) : list Z := firstn i l ++ v :: skipn (S i) l.
Definition insert_dummy (V : nat) (inp : list Z) (n : nat) : list Z :=
  if (n mod V =? 0)%nat then inp else set_nth inp n (rd inp (n - 1)).

Definition tri_lane (x nb r sh : Z) : Z := wrap16 (wrap16 (nb + r) + wrap16 (x * 3)) / 2 ^ sh.
(* por even (psllw odd 8): the two output bytes of a word lane *)
Definition out_pair (e o : Z) : list Z := [e mod 256; wrap16 (o * 256) / 256 + e / 256].

Definition tri_simd (V : nat) (s : list Z) (n : nat) (r_e r_o sh : Z) : list Z :=
  let R := round_up_nat n V in
  flat_map (fun c =>
    flat_map (fun i => let g := (c * V + i)%nat in
        let prev := if (i =? 0)%nat then (if (c =? 0)%nat then rd s 0 else rd s (c * V - 1)) else rd s (g - 1) in
        let next := if (i =? V - 1)%nat then (if (S c =? R / V)%nat then rd s g else rd s ((S c) * V)) else rd s (g + 1) in
        out_pair (tri_lane (rd s g) prev r_e sh) (tri_lane (rd s g) next r_o sh))
      (seq 0 V))
    (seq 0 (R / V)).

Definition h2v1_fancy_simd (V : nat) (inp : list Z) (n : nat) : list Z :=
  tri_simd V (insert_dummy V inp n) n 1 2 2.
(* h2v2: the dummy sample goes into all input rows, then colsum (pmullw 3 + paddw, 16-bit) per lane *)
Definition h2v2_fancy_simd (V : nat) (in0 in1 : list Z) (n : nat) : list Z :=
  let R := round_up_nat n V in
  let a := insert_dummy V in0 n in let b := insert_dummy V in1 n in
  tri_simd V (map (fun i => wrap16 (wrap16 (rd a i * 3) + rd b i)) (seq 0 R)) n 8 7 4.

(* ---- caller-visible accesses of one row of these kernels, in samples: (reads of the input row,
   writes to the input row, writes to the output row) as half-open index ranges [0, k) / single index *)
Definition ds_input_read (output_cols : nat) : nat := (2 * output_cols)%nat.
Definition ds_output_written (V output_cols : nat) : nat := round_up_nat output_cols V.
Definition fu_input_read (V n : nat) : nat := round_up_nat n V.
Definition fu_input_dummy (V n : nat) : option nat := if (n mod V =? 0)%nat then None else Some n.
Definition fu_output_written (V n : nat) : nat := (2 * round_up_nat n V)%nat.
