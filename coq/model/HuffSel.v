(* HuffSel.v -- what C19 assumes about WHICH Huffman table the codecs use:
   the model (Huff.v) has one (bits, huffval) pair per encoder/decoder table; the
   six entropy codecs pick that pair through a component's dc_tbl_no (DC tables,
   lossless tables) or ac_tbl_no (AC tables), a table reaches the decoder through
   the DHT written when sent_table is FALSE, and jpeg_gen_optimal_table is a pure
   function of its histogram (automatic work arrays).  gen/GenHuffSel.v lists what
   the current sources do; proofs/HuffSelFacts.v compares. *)
From Coq Require Import List String Bool.
Import ListNotations.
Local Open Scope string_scope.

(* every DC-classed table array is indexed by dc_tbl_no, every AC-classed one by ac_tbl_no *)
Definition selection_consistent (l : list (bool * bool)) : bool :=
  forallb (fun p => Bool.eqb (fst p) (snd p)) l.

(* the only writers of a JHUFF_TBL's sent_table: a freshly allocated / standard /
   generated table is unsent; emit_dht marks it sent; jpeg_suppress_tables is the
   application's explicit override *)
Definition expected_sent_table_writers : list (string * string * string) := [
  ("jcapimin.c", "jpeg_suppress_tables", "suppress");
  ("jcapimin.c", "jpeg_suppress_tables", "suppress");
  ("jchuff.c", "jpeg_gen_optimal_table", "FALSE");
  ("jcmarker.c", "emit_dht", "TRUE");
  ("jcomapi.c", "jpeg_alloc_huff_table", "FALSE");
  ("jstdhuff.c", "add_huff_table", "FALSE")
].

Definition expected_genopt_work_arrays : list string :=
  ["bits"; "bit_pos"; "codesize"; "nz_index"; "others"].
