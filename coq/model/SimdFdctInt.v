(* C05 -- accurate integer forward DCT: src/jfdctint.c (JLONG = long arithmetic, results stored into
   DCTELEM shorts) and the lane dataflow of simd/x86_64/jfdctint-sse2.asm (16-bit paddw/psubw,
   pmaddwd pairs with the combined constants, paddd rounding, psrad, packssdw).  No proofs here. *)
From Coq Require Import List ZArith Bool.
From LJT Require Import lib.Words gen.GenSimdConst model.SimdDct model.SimdIdctFast.
Import ListNotations.
Local Open Scope Z_scope.

(* ---- C: one pass; pass2 = false: rows (PASS1 scaling up), true: columns (scaling down) ---- *)
Definition cf (k : nat) : Z :=
  nth k [c_jfdctint_FIX_0_298631336; c_jfdctint_FIX_0_390180644; c_jfdctint_FIX_0_541196100; c_jfdctint_FIX_0_765366865;
         c_jfdctint_FIX_0_899976223; c_jfdctint_FIX_1_175875602; c_jfdctint_FIX_1_501321110; c_jfdctint_FIX_1_847759065;
         c_jfdctint_FIX_1_961570560; c_jfdctint_FIX_2_053119869; c_jfdctint_FIX_2_562915447; c_jfdctint_FIX_3_072711026] 0.
Definition c_descale (x n : Z) : Z := Z.shiftr (x + 2 ^ (n - 1)) n.
Record fi_pre := { tmp10 : Z; tmp11 : Z; tmp12 : Z; tmp13 : Z; tmp4 : Z; tmp5 : Z; tmp6 : Z; tmp7 : Z }.
Definition fi_butterfly (d : list Z) : fi_pre :=
  let g i := nth i d 0 in
  let tmp0 := g 0%nat + g 7%nat in let tmp7 := g 0%nat - g 7%nat in let tmp1 := g 1%nat + g 6%nat in let tmp6 := g 1%nat - g 6%nat in
  let tmp2 := g 2%nat + g 5%nat in let tmp5 := g 2%nat - g 5%nat in let tmp3 := g 3%nat + g 4%nat in let tmp4 := g 3%nat - g 4%nat in
  {| tmp10 := tmp0 + tmp3; tmp13 := tmp0 - tmp3; tmp11 := tmp1 + tmp2; tmp12 := tmp1 - tmp2;
     tmp4 := tmp4; tmp5 := tmp5; tmp6 := tmp6; tmp7 := tmp7 |}.
(* the eight values before the final (DCTELEM) store *)
Definition c_fdctint1_wide (pass2 : bool) (d : list Z) : list Z :=
  let b := fi_butterfly d in
  let cb := c_jfdctint_CONST_BITS in let p1 := jfdctint_sse2_PASS1_BITS in
  let n := if pass2 then cb + p1 else cb - p1 in
  let o0 := if pass2 then c_descale (tmp10 b + tmp11 b) p1 else (tmp10 b + tmp11 b) * 2 ^ p1 in
  let o4 := if pass2 then c_descale (tmp10 b - tmp11 b) p1 else (tmp10 b - tmp11 b) * 2 ^ p1 in
  let z1e := (tmp12 b + tmp13 b) * cf 2 in
  let o2 := c_descale (z1e + tmp13 b * cf 3) n in
  let o6 := c_descale (z1e + tmp12 b * (- cf 7)) n in
  let z1 := tmp4 b + tmp7 b in let z2 := tmp5 b + tmp6 b in let z3 := tmp4 b + tmp6 b in let z4 := tmp5 b + tmp7 b in
  let z5 := (z3 + z4) * cf 5 in
  let t4 := tmp4 b * cf 0 in let t5 := tmp5 b * cf 9 in let t6 := tmp6 b * cf 11 in let t7 := tmp7 b * cf 6 in
  let z1 := z1 * (- cf 4) in let z2 := z2 * (- cf 10) in
  let z3 := z3 * (- cf 8) + z5 in let z4 := z4 * (- cf 1) + z5 in
  [o0; c_descale (t7 + z1 + z4) n; o2; c_descale (t6 + z2 + z3) n; o4; c_descale (t5 + z2 + z4) n; o6; c_descale (t4 + z1 + z3) n].
Definition c_fdctint1 (pass2 : bool) (d : list Z) : list Z := map sw (c_fdctint1_wide pass2 d).

(* ---- asm ---- *)
Definition rw (row : Z * list Z) (i : nat) : Z := w16 (nth i (snd row) 0).
Definition rd32 (row : Z * list Z) : Z := w32 (nth 0 (snd row) 0).
(* punpck[lh]wd a,b ; pmaddwd [k0,k1] (one dword lane) *)
Definition madd (a b : Z) (row : Z * list Z) : Z := pmaddwd a b (rw row 0) (rw row 1).
Definition pack_desc (x rnd n : Z) : Z := packssdw (psrad (paddd x rnd) n).
Definition asm_fdctint1 (pass2 : bool) (d : list Z) : list Z :=
  let g i := nth i d 0 in
  let tmp6 := psubw (g 1%nat) (g 6%nat) in let tmp7 := psubw (g 0%nat) (g 7%nat) in
  let tmp1 := paddw (g 1%nat) (g 6%nat) in let tmp0 := paddw (g 0%nat) (g 7%nat) in
  let tmp3 := paddw (g 3%nat) (g 4%nat) in let tmp2 := paddw (g 2%nat) (g 5%nat) in
  let tmp4 := psubw (g 3%nat) (g 4%nat) in let tmp5 := psubw (g 2%nat) (g 5%nat) in
  let tmp10 := paddw tmp0 tmp3 in let tmp11 := paddw tmp1 tmp2 in
  let tmp13 := psubw tmp0 tmp3 in let tmp12 := psubw tmp1 tmp2 in
  let p1 := jfdctint_sse2_PASS1_BITS in
  let rnd := if pass2 then rd32 jfdctint_sse2_PD_DESCALE_P2 else rd32 jfdctint_sse2_PD_DESCALE_P1 in
  let n := if pass2 then jfdctint_sse2_DESCALE_P2 else jfdctint_sse2_DESCALE_P1 in
  let o0 := if pass2 then psraw (paddw (paddw tmp10 tmp11) (rw jfdctint_sse2_PW_DESCALE_P2X 0)) p1 else psllw (paddw tmp10 tmp11) p1 in
  let o4 := if pass2 then psraw (paddw (psubw tmp10 tmp11) (rw jfdctint_sse2_PW_DESCALE_P2X 0)) p1 else psllw (psubw tmp10 tmp11) p1 in
  let o2 := pack_desc (madd tmp13 tmp12 jfdctint_sse2_PW_F130_F054) rnd n in
  let o6 := pack_desc (madd tmp13 tmp12 jfdctint_sse2_PW_F054_MF130) rnd n in
  let z3 := paddw tmp4 tmp6 in let z4 := paddw tmp5 tmp7 in
  let z3d := madd z3 z4 jfdctint_sse2_PW_MF078_F117 in let z4d := madd z3 z4 jfdctint_sse2_PW_F117_F078 in
  let o7 := pack_desc (paddd (madd tmp4 tmp7 jfdctint_sse2_PW_MF060_MF089) z3d) rnd n in
  let o1 := pack_desc (paddd (madd tmp4 tmp7 jfdctint_sse2_PW_MF089_F060) z4d) rnd n in
  let o5 := pack_desc (paddd (madd tmp5 tmp6 jfdctint_sse2_PW_MF050_MF256) z4d) rnd n in
  let o3 := pack_desc (paddd (madd tmp5 tmp6 jfdctint_sse2_PW_MF256_F050) z3d) rnd n in
  [o0; o1; o2; o3; o4; o5; o6; o7].

Definition c_fdct_islow (blk : list Z) : list Z :=
  concat (transpose (map (c_fdctint1 true) (transpose (map (c_fdctint1 false) (chunk8 8 blk))))).
Definition asm_fdct_islow (blk : list Z) : list Z :=
  map s16 (concat (transpose (map (asm_fdctint1 true) (transpose (map (asm_fdctint1 false) (chunk8 8 (map w16 blk))))))).

(* ---- boundary: every value a 16-bit lane must hold exactly ---- *)
Definition fi_checks (pass2 : bool) (d : list Z) : list Z :=
  let b := fi_butterfly d in
  [tmp12 b; tmp13 b; tmp4 b; tmp5 b; tmp6 b; tmp7 b; tmp4 b + tmp6 b; tmp5 b + tmp7 b] ++
  (if pass2 then [tmp10 b + tmp11 b + 2; tmp10 b - tmp11 b + 2] else []) ++
  (match c_fdctint1_wide pass2 d with [o0; o1; o2; o3; o4; o5; o6; o7] => [o1; o2; o3; o5; o6; o7] | _ => [] end).
Definition c_fdct_islow_ok (blk : list Z) : bool :=
  let rows := chunk8 8 blk in
  let p1 := map (c_fdctint1 false) rows in
  forallb (forallb fits16b) rows &&
  forallb (fun r => forallb fits16b (fi_checks false r)) rows &&
  forallb (fun r => forallb fits16b (fi_checks true r)) (transpose p1).
