(* CModules.v -- jinit_compress_master (jcinit.c): the module selection, obtained by INTERPRETING the decision tree
   that tools/gen_Params.py parses out of the C text (gen.GenParams.g_compress_master). *)
From Coq Require Import List ZArith Bool Lia.
From LJT Require Import model.Huff gen.GenParams model.CParams model.CMarker model.CParamApi.
Import ListNotations.
Local Open Scope Z_scope.

(* the parameters the tree looks at; the precision only through its comparisons with the constants of the tree *)
Record cm_env := { e_raw : bool; e_lossless : bool; e_arith : bool; e_prog : bool;
                   e_le : Z -> bool;      (* data_precision <= n *)
                   e_eq : Z -> bool }.    (* data_precision == n *)
Fixpoint eval_cond (env : cm_env) (c : cm_cond) : bool :=
  match c with
  | CRaw => e_raw env | CLossless => e_lossless env | CArith => e_arith env | CProg => e_prog env
  | CPrecLe n => e_le env n | CPrecEq n => e_eq env n
  | CNot c' => negb (eval_cond env c')
  end.

(* the calls made, in order, or the ERREXIT reached *)
Fixpoint run_tree (env : cm_env) (t : cm_tree) : cm_err + list (Z * cm_arg) :=
  match t with
  | TNop => inr []
  | TSeq l => (fix go (l : list cm_tree) : cm_err + list (Z * cm_arg) :=
                 match l with
                 | [] => inr []
                 | x :: r => match run_tree env x with
                             | inl e => inl e
                             | inr a => match go r with inl e => inl e | inr b => inr (a ++ b) end
                             end
                 end) l
  | TIf c a b => if eval_cond env c then run_tree env a else run_tree env b
  | TCall m a => inr [(m, a)]
  | TErr e => inl e
  end.

Definition has (calls : list (Z * cm_arg)) (m : Z) : bool := existsb (fun c => fst c =? m) calls.
Definition arg_of (calls : list (Z * cm_arg)) (m : Z) : cm_arg :=
  match find (fun c => fst c =? m) calls with Some (_, a) => a | None => ArgNone end.
Definition entropy_calls (calls : list (Z * cm_arg)) : list entropy_enc :=
  flat_map (fun c => if fst c =? g_MOD_lhuff_encoder then [EncLhuff] else if fst c =? g_MOD_arith_encoder then [EncArith]
                     else if fst c =? g_MOD_phuff_encoder then [EncPhuff] else if fst c =? g_MOD_huff_encoder then [EncHuff] else []) calls.

Definition modules_of_calls (calls : list (Z * cm_arg)) (num_scans : Z) (optimize : bool) : option modules :=
  match entropy_calls calls with
  | [enc] =>
      let buf := match (if has calls g_MOD_c_coef_controller then arg_of calls g_MOD_c_coef_controller else arg_of calls g_MOD_c_diff_controller) with
                 | ArgFullBuf => (num_scans >? 1) || optimize | _ => false end in
      Some {| md_preprocess := has calls g_MOD_color_converter && has calls g_MOD_downsampler && has calls g_MOD_c_prep_controller;
              md_fdct := has calls g_MOD_forward_dct && has calls g_MOD_c_coef_controller;
              md_lossless := has calls g_MOD_lossless_compressor && has calls g_MOD_c_diff_controller;
              md_entropy := enc; md_full_buffer := buf |}
  | _ => None
  end.

Definition mk_env (raw lossless arith progressive : bool) (prec : Z) : cm_env :=
  {| e_raw := raw; e_lossless := lossless; e_arith := arith; e_prog := progressive;
     e_le := fun n => prec <=? n; e_eq := fun n => prec =? n |}.

(* result of the generated tree; None = the tree did not select exactly one entropy encoder (excluded by the theorem) *)
Definition select_modules_gen (raw lossless arith progressive : bool) (prec num_scans : Z) (optimize : bool) : option (cerr + modules) :=
  match run_tree (mk_env raw lossless arith progressive prec) g_compress_master with
  | inl ArithNotImpl_ => Some (inl ArithNotImpl)
  | inl BadPrecision_ => Some (inl BadPrecision)
  | inl NotCompiled_ => None
  | inr calls => match modules_of_calls calls num_scans optimize with Some m => Some (inr m) | None => None end
  end.
