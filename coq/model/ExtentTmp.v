(* C11 -- the SOURCE side of the temporary-buffer copies of tj3DecompressToYUVPlanes8 /
   tj3CompressFromYUVPlanes8 (src/turbojpeg.c).  No proofs.
     iw[i] = compptr->width_in_blocks * dctsize;   th[i] = compptr->v_samp_factor * dctsize;
     tmpbufsize += iw[i] * th[i];   tmpbuf[i][row] = ptr; ptr += iw[i];
     memcpy(outbuf[i][crow[i] + j], tmpbuf[i][j], pw[i]);          (copy-out, j < th[i])
     memcpy(tmpbuf[i][j], inbuf[i][crow[i] + j], pw[i]);           (copy-in)
   `wide` = the temporary rows are MAX(iw[i], pw[i]) bytes apart instead of iw[i]; which of
   the two the current source does is read by tools/gen_Align.py (tmp_rows_cover_pw). *)
From Coq Require Import List ZArith Bool.
From LJT Require Import model.Extent.
Import ListNotations.
Local Open Scope Z_scope.

(* jdinput.c / jcmaster.c: width_in_blocks = jdiv_round_up(image_width * h_samp, max_h_samp * DCTSIZE) *)
Definition width_in_blocks (image_width h maxh : Z) : Z := (image_width * h + maxh * 8 - 1) / (maxh * 8).

Definition tmp_iw (image_width comp ss dct : Z) : Z :=
  width_in_blocks image_width (comp_h comp ss) (samp_h ss) * dct.
Definition tmp_th (comp ss dct : Z) : Z := comp_v comp ss * dct.

(* distance between temporary rows of component comp; pwidth = the width the planes are computed from *)
Definition tmp_stride (wide : bool) (image_width pwidth comp ss dct : Z) : Z :=
  if wide then Z.max (tmp_iw image_width comp ss dct) (plane_w comp pwidth ss) else tmp_iw image_width comp ss dct.

(* offset of component c's rows inside _tmpbuf, and its total size *)
Fixpoint tmp_off_from (wide : bool) (image_width pwidth ss dct c : Z) (n : nat) : Z :=
  match n with
  | O => 0
  | S k => tmp_stride wide image_width pwidth c ss dct * tmp_th c ss dct
           + tmp_off_from wide image_width pwidth ss dct (c + 1) k
  end.
Definition tmp_off (wide : bool) (image_width pwidth ss dct comp : Z) : Z :=
  tmp_off_from wide image_width pwidth ss dct 0 (Z.to_nat comp).
Definition tmp_total (wide : bool) (image_width pwidth ss dct : Z) : Z :=
  tmp_off_from wide image_width pwidth ss dct 0 (Z.to_nat (ncomp ss)).

(* the bytes of _tmpbuf the copy-out of temp row j of component comp reads: (offset, length);
   image_width is the JPEG width, the plane width is that of the scaled image *)
Definition copyout_read (wide : bool) (image_width ss num den comp j : Z) : Z * Z :=
  let dct := 8 * num / den in
  let pwidth := tjscaled image_width num den in
  (tmp_off wide image_width pwidth ss dct comp + j * tmp_stride wide image_width pwidth comp ss dct,
   plane_w comp pwidth ss).
Definition copyout_total (wide : bool) (image_width ss num den : Z) : Z :=
  tmp_total wide image_width (tjscaled image_width num den) ss (8 * num / den).
