(* T81Arith.v -- ITU-T T.81 Annex D (QM arithmetic coder) and F.1.4 / F.2.4 (sequential
   DCT arithmetic coding, process SOF9), transcribed from the Recommendation.
     Table D.3     probability estimation state machine (Qe, Next_LPS, Next_MPS, Switch)
     D.2           decoder: Initdec, Decode, Cond_LPS/MPS_exchange, Renorm_d, Byte_in
     D.1           encoder: Code_MPS / Code_LPS with conditional exchange, Renorm_e, Flush
                   (Clear_final_bits, Discard_final_zeros); the code register is kept
                   unbounded, so the B/ST/carry machinery of Byte_out, which only serialises
                   that number, is replaced by taking its bytes at the end
     F.1.4.1-4     binary decisions and statistics bins for DC differences and AC
                   coefficients (Tables F.4, F.5), DC conditioning bounds L/U and the AC
                   threshold Kx of the DAC marker (B.2.4.3, F.1.4.4.1.2, F.1.4.4.2)
   The decoder is parametrised by the binary-decision source, so that the binarisation
   can be stated against an abstract coder (proofs/T81ArithProofs.v). *)
From Coq Require Import List ZArith Bool Lia FMapPositive.
From LJT Require Import model.T81Spec.
Import ListNotations.
Local Open Scope Z_scope.

(* ------------------------------------------------------------- Table D.3 *)
(* (Qe_Value, Next_Index_LPS, Next_Index_MPS, Switch_MPS) for index 0..112 *)
Definition qe_table : list (Z * Z * Z * Z) :=
  [ (23069,1,1,1); (9606,14,2,0); (4372,16,3,0); (2059,18,4,0); (984,20,5,0); (474,23,6,0); (229,25,7,0); (111,28,8,0);
    (54,30,9,0); (26,33,10,0); (13,35,11,0); (6,9,12,0); (3,10,13,0); (1,12,13,0); (23167,15,15,1); (16165,36,16,0);
    (11506,38,17,0); (8316,39,18,0); (6073,40,19,0); (4482,42,20,0); (3311,43,21,0); (2465,45,22,0); (1839,46,23,0); (1372,48,24,0);
    (1030,49,25,0); (771,51,26,0); (576,52,27,0); (433,54,28,0); (324,56,29,0); (245,57,30,0); (183,59,31,0); (138,60,32,0);
    (104,62,33,0); (78,63,34,0); (59,32,35,0); (44,33,9,0); (23265,37,37,1); (18508,64,38,0); (14861,65,39,0); (12017,67,40,0);
    (9759,68,41,0); (7987,69,42,0); (6568,70,43,0); (5400,72,44,0); (4471,73,45,0); (3700,74,46,0); (3067,75,47,0); (2552,77,48,0);
    (2145,78,49,0); (1798,79,50,0); (1485,48,51,0); (1246,50,52,0); (1039,50,53,0); (867,51,54,0); (724,52,55,0); (604,53,56,0);
    (504,54,57,0); (420,55,58,0); (352,56,59,0); (293,57,60,0); (246,58,61,0); (203,59,62,0); (171,61,63,0); (143,61,32,0);
    (23314,65,65,1); (19716,80,66,0); (16684,81,67,0); (14296,82,68,0); (12264,83,69,0); (10556,84,70,0); (9081,86,71,0); (7903,87,72,0);
    (6825,87,73,0); (5966,72,74,0); (5156,72,75,0); (4508,74,76,0); (3947,74,77,0); (3409,75,78,0); (2998,77,79,0); (2624,77,48,0);
    (22578,80,81,1); (19740,88,82,0); (17294,89,83,0); (15325,90,84,0); (13550,91,85,0); (11950,92,86,0); (10650,93,87,0); (9494,86,71,0);
    (21872,88,89,1); (19625,95,90,0); (17625,96,91,0); (15906,97,92,0); (14372,99,93,0); (12980,99,94,0); (11799,93,86,0); (22184,95,96,1);
    (20294,101,97,0); (18405,102,98,0); (16847,103,99,0); (15421,104,100,0); (14174,99,93,0); (21041,105,102,0); (19471,106,103,0); (17977,107,104,0);
    (16734,103,99,0); (22055,105,106,1); (20711,108,107,0); (19333,109,103,0); (21911,110,109,0); (20559,111,107,0); (23056,110,111,1); (21794,112,109,0);
    (23019,112,111,1) ].

Definition qe_entry (i : Z) : Z * Z * Z * Z := nth (Z.to_nat i) qe_table (23069, 1, 1, 1).

(* ------------------------------------------------------- statistics areas *)
(* a statistics bin: (index into Table D.3, sense of the MPS); all bins start at (0, 0).
   bins are named by an integer key; key -1 is the fixed estimate Qe = X'5A1D', MPS = 0 used
   for the sign of AC coefficients (F.1.4.2) *)
Definition stats := PositiveMap.t (Z * Z).
Definition st_key (k : Z) : positive := Z.to_pos (k + 2).
Definition st_get (s : stats) (k : Z) : Z * Z :=
  if k =? -1 then (0, 0) else match PositiveMap.find (st_key k) s with Some v => v | None => (0, 0) end.
Definition st_set (s : stats) (k : Z) (v : Z * Z) : stats :=
  if k =? -1 then s else PositiveMap.add (st_key k) v s.

Definition est_mps (e : Z * Z) : Z * Z := let '(i, m) := e in let '(_, _, nm, _) := qe_entry i in (nm, m).
Definition est_lps (e : Z * Z) : Z * Z :=
  let '(i, m) := e in let '(_, nl, _, sw) := qe_entry i in (nl, if sw =? 1 then 1 - m else m).

(* bin keys: DC area of conditioning table tb: 0..48; AC area: 0..244 (Tables F.4, F.5) *)
Definition dck (tb i : Z) : Z := tb * 256 + i.
Definition ack (tb i : Z) : Z := (4 + tb) * 256 + i.
Definition FIXED : Z := -1.

(* ============================================================ D.2 decoder === *)
Record qdec := { qa : Z; qc : Z; qct : Z; qin : list Z; qst : stats }.

(* Byte_in: the entropy-coded bytes are already unstuffed; past the end (a marker) zeros *)
Definition byte_in (c : Z) (inp : list Z) : Z * list Z :=
  match inp with b :: t => (c + b * 256, t) | [] => (c, []) end.

Fixpoint renorm_d (fuel : nat) (a c ct : Z) (inp : list Z) : Z * Z * Z * list Z :=
  if a >=? 32768 then (a, c, ct, inp) else
  match fuel with
  | O => (a, c, ct, inp)
  | S f =>
    let '(c1, inp1, ct1) := if ct =? 0 then (let '(c', i') := byte_in c inp in (c', i', 8)) else (c, inp, ct) in
    renorm_d f (a * 2) (c1 * 2) (ct1 - 1) inp1
  end.

(* Initdec *)
Definition qm_init_dec (inp : list Z) : qdec :=
  let '(c1, i1) := byte_in 0 inp in
  let '(c2, i2) := byte_in (c1 * 256) i1 in
  {| qa := 65536; qc := c2 * 256; qct := 0; qin := i2; qst := PositiveMap.empty (Z * Z) |}.

(* Decode(S) *)
Definition qm_decode (key : Z) (q : qdec) : option (bool * qdec) :=
  let e := st_get (qst q) key in
  let '(idx, mps) := e in
  let '(qe, _, _, _) := qe_entry idx in
  let a1 := qa q - qe in
  let cx := qc q / 65536 in
  if cx <? a1 then
    if a1 <? 32768 then
      (* Cond_MPS_exchange *)
      let '(d, e') := if a1 <? qe then (1 - mps, est_lps e) else (mps, est_mps e) in
      let '(a2, c2, ct2, i2) := renorm_d 16 a1 (qc q) (qct q) (qin q) in
      Some (d =? 1, {| qa := a2; qc := c2; qct := ct2; qin := i2; qst := st_set (qst q) key e' |})
    else Some (mps =? 1, {| qa := a1; qc := qc q; qct := qct q; qin := qin q; qst := qst q |})
  else
    (* Cond_LPS_exchange *)
    let '(d, e') := if a1 <? qe then (mps, est_mps e) else (1 - mps, est_lps e) in
    let '(a2, c2, ct2, i2) := renorm_d 16 qe (qc q - a1 * 65536) (qct q) (qin q) in
    Some (d =? 1, {| qa := a2; qc := c2; qct := ct2; qin := i2; qst := st_set (qst q) key e' |}).

(* ============================================================ D.1 encoder === *)
(* registers A, C (0000 cbbb bbbb bsss xxxx xxxx xxxx xxxx), CT; B = last byte written (may
   still receive a carry), ST = number of stacked X'FF' bytes; output kept in reverse, UNSTUFFED
   (the X'00' after X'FF' is added by `stuff` when the segment is emitted) *)
Record qenc := { ea : Z; ec : Z; ect : Z; eb : option Z; estk : nat; eout : list Z; est : stats }.
Definition qm_init_enc : qenc :=
  {| ea := 65536; ec := 0; ect := 11; eb := None; estk := O; eout := []; est := PositiveMap.empty (Z * Z) |}.

(* Byte_out (Figure D.9) with Output_stacked_zeros / Output_stacked_XFFs *)
Definition byte_out (c : Z) (b : option Z) (stk : nat) (out : list Z) : Z * option Z * nat * list Z :=
  let t := c / 524288 in
  if t >? 255 then
    (c mod 524288, Some (t mod 256), O, repeat 0 stk ++ match b with Some v => (v + 1) :: out | None => out end)
  else if t =? 255 then (c mod 524288, b, S stk, out)
  else (c mod 524288, Some t, O, repeat 255 stk ++ match b with Some v => v :: out | None => out end).

Fixpoint renorm_e (fuel : nat) (a c ct : Z) (b : option Z) (stk : nat) (out : list Z)
  : Z * Z * Z * option Z * nat * list Z :=
  match fuel with
  | O => (a, c, ct, b, stk, out)
  | S f =>
    let a1 := a * 2 in let c1 := c * 2 in let ct1 := ct - 1 in
    let '(c2, b2, stk2, out2, ct2) :=
      if ct1 =? 0 then (let '(c', b', s', o') := byte_out c1 b stk out in (c', b', s', o', 8)) else (c1, b, stk, out, ct1) in
    if a1 >=? 32768 then (a1, c2, ct2, b2, stk2, out2) else renorm_e f a1 c2 ct2 b2 stk2 out2
  end.

Definition qm_encode (q : qenc) (kd : Z * bool) : qenc :=
  let '(key, d) := kd in
  let e := st_get (est q) key in
  let '(idx, mps) := e in
  let '(qe, _, _, _) := qe_entry idx in
  let a1 := ea q - qe in
  if Z.eqb (b2z d) mps then
    (* Code_MPS *)
    if a1 <? 32768 then
      let '(a2, c2) := if a1 <? qe then (qe, ec q + a1) else (a1, ec q) in
      let '(a3, c3, ct3, b3, s3, o3) := renorm_e 16 a2 c2 (ect q) (eb q) (estk q) (eout q) in
      {| ea := a3; ec := c3; ect := ct3; eb := b3; estk := s3; eout := o3; est := st_set (est q) key (est_mps e) |}
    else {| ea := a1; ec := ec q; ect := ect q; eb := eb q; estk := estk q; eout := eout q; est := est q |}
  else
    (* Code_LPS *)
    let '(a2, c2) := if a1 <? qe then (a1, ec q) else (qe, ec q + a1) in
    let '(a3, c3, ct3, b3, s3, o3) := renorm_e 16 a2 c2 (ect q) (eb q) (estk q) (eout q) in
    {| ea := a3; ec := c3; ect := ct3; eb := b3; estk := s3; eout := o3; est := st_set (est q) key (est_lps e) |}.

Fixpoint drop_zeros_rev (l : list Z) : list Z :=
  match l with 0 :: t => drop_zeros_rev t | _ => l end.

(* Flush (Figure D.15): Clear_final_bits, C <<= CT, Byte_out, C <<= 8, Byte_out, then the byte
   still held in B and any stacked X'FF', Discard_final_zeros *)
Definition qm_flush (q : qenc) : list Z :=
  let t0 := ((ec q + ea q - 1) / 65536) * 65536 in
  let t := if t0 <? ec q then t0 + 32768 else t0 in
  let '(c1, b1, s1, o1) := byte_out (t * 2 ^ ect q) (eb q) (estk q) (eout q) in
  let '(c2, b2, s2, o2) := byte_out (c1 * 256) b1 s1 o1 in
  let o3 := repeat 255 s2 ++ match b2 with Some v => v :: o2 | None => o2 end in
  rev (drop_zeros_rev o3).

Definition qm_encode_all (ds : list (Z * bool)) : list Z := qm_flush (fold_left qm_encode ds qm_init_enc).

(* ====================================== F.1.4: binary decisions (encoder side) === *)
(* magnitude category: decisions "Sz >= 2m ?" in bins key, key+1, ..; returns the decisions,
   the final m (largest power of two <= Sz) and the bin of the terminating 0-decision *)
Fixpoint enc_x (fuel : nat) (key m sz : Z) : list (Z * bool) * Z * Z :=
  match fuel with
  | O => ([], m, key)
  | S f => if sz >=? 2 * m then let '(l, m', k') := enc_x f (key + 1) (2 * m) sz in ((key, true) :: l, m', k')
           else ([(key, false)], m, key)
  end.
(* the bits of Sz below the leading one (weight m), most significant first, all in bin key *)
Fixpoint enc_mbits (fuel : nat) (key m sz : Z) : list (Z * bool) :=
  match fuel with
  | O => []
  | S f => if m <=? 1 then [] else (key, Z.testbit sz (Z.log2 (m / 2))) :: enc_mbits f key (m / 2) sz
  end.

(* F.1.4.4.1.2: conditioning category of a DC difference: 0 zero, 4/8 small +/-, 12/16 large +/- *)
Definition dc_lower (l : Z) : Z := if l =? 0 then 0 else 2 ^ (l - 1).
Definition dc_class (l u v : Z) : Z :=
  let m := Z.abs v in
  if m <=? dc_lower l then 0
  else if m >? 2 ^ u then (if v <? 0 then 16 else 12)
  else (if v <? 0 then 8 else 4).

(* F.1.4.1 Encode DC difference V with context ctx (= S0 offset of Table F.4) *)
Definition enc_dc (tb ctx : Z) (v : Z) : list (Z * bool) :=
  if v =? 0 then [(dck tb ctx, false)]
  else
    let sz := Z.abs v - 1 in
    let sgn := v <? 0 in
    let sb := ctx + 2 + b2z sgn in
    (dck tb ctx, true) :: (dck tb (ctx + 1), sgn) ::
    (if sz =? 0 then [(dck tb sb, false)]
     else let '(l, m, k) := enc_x 16 (dck tb 20) 1 sz in
          (dck tb sb, true) :: l ++ enc_mbits 16 (k + 14) m sz).

(* F.1.4.2 one non-zero AC coefficient at index k *)
Definition ac_xbase (tb kx k : Z) : Z := ack tb (if k <=? kx then 189 else 217).
Definition enc_ac_coef (tb kx k v : Z) : list (Z * bool) :=
  let sz := Z.abs v - 1 in
  let s1 := ack tb (3 * (k - 1) + 2) in
  (FIXED, v <? 0) ::
  (if sz =? 0 then [(s1, false)]
   else if sz =? 1 then [(s1, true); (s1, false)]
   else let '(l, m, kk) := enc_x 16 (ac_xbase tb kx k) 2 sz in
        (s1, true) :: (s1, true) :: l ++ enc_mbits 16 (kk + 14) m sz).

Definition all_zero (l : list Z) : bool := forallb (fun x => x =? 0) l.

(* coefficients k..63; after_zero: no EOB decision directly after a zero coefficient *)
Fixpoint enc_ac_seq (tb kx k : Z) (after_zero : bool) (zs : list Z) : list (Z * bool) :=
  match zs with
  | [] => []
  | z :: t =>
    let se := ack tb (3 * (k - 1)) in
    if negb after_zero && all_zero zs then [(se, true)]
    else (if after_zero then [] else [(se, false)]) ++
         (if z =? 0 then (se + 1, false) :: enc_ac_seq tb kx (k + 1) true t
          else (se + 1, true) :: enc_ac_coef tb kx k z ++ enc_ac_seq tb kx (k + 1) false t)
  end.

(* ====================================== F.2.4: decoding, abstract decision source === *)
Section Decisions.
  Variable St : Type.
  Variable decide : Z -> St -> option (bool * St).

  Fixpoint dec_x (fuel : nat) (key m : Z) (s : St) : option (Z * Z * St) :=
    match fuel with
    | O => None
    | S f => match decide key s with
             | None => None
             | Some (true, s1) => dec_x f (key + 1) (2 * m) s1
             | Some (false, s1) => Some (m, key, s1)
             end
    end.

  Fixpoint dec_mbits (fuel : nat) (key m v : Z) (s : St) : option (Z * St) :=
    match fuel with
    | O => None
    | S f => if m <=? 1 then Some (v, s)
             else match decide key s with
                  | None => None
                  | Some (b, s1) => dec_mbits f key (m / 2) (if b then v + m / 2 else v) s1
                  end
    end.

  Definition dec_dc (tb ctx : Z) (s : St) : option (Z * St) :=
    match decide (dck tb ctx) s with
    | None => None
    | Some (false, s1) => Some (0, s1)
    | Some (true, s1) =>
      match decide (dck tb (ctx + 1)) s1 with
      | None => None
      | Some (sgn, s2) =>
        match decide (dck tb (ctx + 2 + b2z sgn)) s2 with
        | None => None
        | Some (false, s3) => Some (if sgn then -1 else 1, s3)
        | Some (true, s3) =>
          match dec_x 17 (dck tb 20) 1 s3 with
          | None => None
          | Some (m, k, s4) =>
            match dec_mbits 17 (k + 14) m m s4 with
            | None => None
            | Some (sz, s5) => Some (if sgn then - (sz + 1) else sz + 1, s5)
            end
          end
        end
      end
    end.

  Definition dec_ac_coef (tb kx k : Z) (s : St) : option (Z * St) :=
    match decide FIXED s with
    | None => None
    | Some (sgn, s1) =>
      let s1k := ack tb (3 * (k - 1) + 2) in
      match decide s1k s1 with
      | None => None
      | Some (false, s2) => Some (if sgn then -1 else 1, s2)
      | Some (true, s2) =>
        match decide s1k s2 with
        | None => None
        | Some (false, s3) => Some (if sgn then -2 else 2, s3)
        | Some (true, s3) =>
          match dec_x 17 (ac_xbase tb kx k) 2 s3 with
          | None => None
          | Some (m, kk, s4) =>
            match dec_mbits 17 (kk + 14) m m s4 with
            | None => None
            | Some (sz, s5) => Some (if sgn then - (sz + 1) else sz + 1, s5)
            end
          end
        end
      end
    end.

  (* n = number of coefficients still to produce (k = 64 - n) *)
  Fixpoint dec_ac_seq (n : nat) (tb kx k : Z) (after_zero : bool) (s : St) : option (list Z * St) :=
    match n with
    | O => Some ([], s)
    | S n' =>
      let se := ack tb (3 * (k - 1)) in
      match (if after_zero then Some (false, s) else decide se s) with
      | None => None
      | Some (true, s1) => Some (repeat 0 n, s1)                    (* EOB *)
      | Some (false, s1) =>
        match decide (se + 1) s1 with
        | None => None
        | Some (false, s2) =>
            match n' with
            | O => None                                              (* zeros may not run past the block *)
            | _ => match dec_ac_seq n' tb kx (k + 1) true s2 with
                   | Some (l, s3) => Some (0 :: l, s3)
                   | None => None
                   end
            end
        | Some (true, s2) =>
          match dec_ac_coef tb kx k s2 with
          | None => None
          | Some (v, s3) =>
            match dec_ac_seq n' tb kx (k + 1) false s3 with
            | Some (l, s4) => Some (v :: l, s4)
            | None => None
            end
          end
        end
      end
    end.

  (* one block: conditioning tables (tbd: L, U ; tba: Kx), prediction and DC context of the component *)
  Definition dec_ablock (tbd l u tba kx : Z) (pred ctx : Z) (s : St) : option (list Z * Z * St) :=
    match dec_dc tbd ctx s with
    | None => None
    | Some (diff, s1) =>
      match dec_ac_seq 63 tba kx 1 false s1 with
      | None => None
      | Some (acs, s2) => Some ((pred + diff) :: acs, dc_class l u diff, s2)
      end
    end.
End Decisions.

Definition enc_ablock (tbd tba kx : Z) (pred ctx : Z) (zz : list Z) : list (Z * bool) :=
  match zz with
  | [] => []
  | dc :: acs => enc_dc tbd ctx (dc - pred) ++ enc_ac_seq tba kx 1 false acs
  end.

(* ================================================== blocks of a restart interval === *)
(* per scan component: (Tb DC, L, U, Tb AC, Kx) *)
Definition acond := (Z * Z * Z * Z * Z)%type.
Definition acond_at (cs : list acond) (j : nat) : acond := nth j cs (0, 0, 1, 0, 5).

Section DecBlocks.
  Variable St : Type.
  Variable decide : Z -> St -> option (bool * St).
  Fixpoint adec_blocks (cs : list acond) (preds ctxs : list Z) (js : list nat) (s : St)
    : option (list (nat * list Z) * St) :=
    match js with
    | [] => Some ([], s)
    | j :: t =>
      let '(tbd, l, u, tba, kx) := acond_at cs j in
      match dec_ablock St decide tbd l u tba kx (nth j preds 0) (nth j ctxs 0) s with
      | None => None
      | Some (zz, ctx', s1) =>
        match adec_blocks cs (set_nth j (hd 0 zz) preds) (set_nth j ctx' ctxs) t s1 with
        | Some (l', s2) => Some ((j, zz) :: l', s2)
        | None => None
        end
      end
    end.
End DecBlocks.

Fixpoint aenc_blocks (cs : list acond) (preds ctxs : list Z) (blocks : list (nat * list Z)) : list (Z * bool) :=
  match blocks with
  | [] => []
  | (j, zz) :: t =>
    let '(tbd, l, u, tba, kx) := acond_at cs j in
    enc_ablock tbd tba kx (nth j preds 0) (nth j ctxs 0) zz ++
    aenc_blocks cs (set_nth j (hd 0 zz) preds) (set_nth j (dc_class l u (hd 0 zz - nth j preds 0)) ctxs) t
  end.

(* one restart interval: Initenc / Initdec, statistics areas, predictions and contexts reset *)
Definition aenc_interval (cs : list acond) (ncomp : nat) (blocks : list (nat * list Z)) : list Z :=
  qm_encode_all (aenc_blocks cs (repeat 0 ncomp) (repeat 0 ncomp) blocks).
Definition adec_interval (cs : list acond) (ncomp : nat) (js : list nat) (d : list Z) : option (list (nat * list Z)) :=
  match adec_blocks qdec qm_decode cs (repeat 0 ncomp) (repeat 0 ncomp) js (qm_init_dec d) with
  | Some (l, _) => Some l
  | None => None
  end.

Fixpoint adec_intervals (cs : list acond) (ncomp : nat) (jss : list (list nat)) (ds : list (list Z))
  : option (list (nat * list Z)) :=
  match jss, ds with
  | [], [] => Some []
  | js :: jt, d :: dt =>
    match adec_interval cs ncomp js d, adec_intervals cs ncomp jt dt with
    | Some a, Some b => Some (a ++ b)
    | _, _ => None
    end
  | _, _ => None
  end.

(* ============================================================ stream walker === *)
Record astate := {
  as_sof : option (Z * Z * Z * Z * list fcomp);
  as_l : list Z; as_u : list Z; as_k : list Z;      (* conditioning per destination 0..3; defaults L=0 U=1 Kx=5 *)
  as_ri : Z;
  as_out : list (nat * Z * Z * list Z)
}.
Definition as0 : astate :=
  {| as_sof := None; as_l := repeat 0 4; as_u := repeat 1 4; as_k := repeat 5 4; as_ri := 0; as_out := [] |}.

Definition dac_apply (st : astate) (tabs : list (Z * Z * Z)) : astate :=
  fold_left (fun s (t : Z * Z * Z) =>
               let '(tc, tb, cs) := t in
               if tc =? 0 then {| as_sof := as_sof s; as_l := set_nth (Z.to_nat tb) (cs mod 16) (as_l s);
                                  as_u := set_nth (Z.to_nat tb) (cs / 16) (as_u s); as_k := as_k s;
                                  as_ri := as_ri s; as_out := as_out s |}
               else {| as_sof := as_sof s; as_l := as_l s; as_u := as_u s; as_k := set_nth (Z.to_nat tb) cs (as_k s);
                       as_ri := as_ri s; as_out := as_out s |}) tabs st.

Record ascan_ctx := { ax_info : list (nat * Z * Z * Z * Z); ax_conds : list acond; ax_pos : list (nat * Z * Z);
                      ax_geom : geom; ax_hv : list (Z * Z); ax_per : Z }.

Definition ascan_setup (st : astate) (sc : list scomp) : option ascan_ctx :=
  match as_sof st with
  | None => None
  | Some (n, p, y, x, fc) =>
    match scan_info fc sc with
    | None => None
    | Some info =>
      let g := geom_of y x fc in
      let hv := map (fun i : nat * Z * Z * Z * Z => let '(_, h, v, _, _) := i in (h, v)) info in
      Some {| ax_info := info;
              ax_conds := map (fun i : nat * Z * Z * Z * Z => let '(_, _, _, td, ta) := i in
                                 (td, nthZ (as_l st) td, nthZ (as_u st) td, ta, nthZ (as_k st) ta)) info;
              ax_pos := scan_positions g hv; ax_geom := g; ax_hv := hv;
              ax_per := as_ri st * blocks_per_mcu hv |}
    end
  end.

Definition aplace (cx : ascan_ctx) (blocks : list (nat * list Z)) : list (nat * Z * Z * list Z) :=
  map (fun pb : (nat * Z * Z) * (nat * list Z) =>
         let '((j, r, c), (_, zz)) := pb in
         let '(i, _, _, _, _) := nth j (ax_info cx) (O, 0, 0, 0, 0) in (i, r, c, zz))
      (combine (ax_pos cx) blocks).

Definition a_step (st : astate) (s : segment) : option astate :=
  match s with
  | SegDAC tabs => Some (dac_apply st tabs)
  | SegDRI ri => Some {| as_sof := as_sof st; as_l := as_l st; as_u := as_u st; as_k := as_k st; as_ri := ri; as_out := as_out st |}
  | SegSOF n p y x comps =>
      if n =? 9 then Some {| as_sof := Some (n, p, y, x, comps); as_l := as_l st; as_u := as_u st; as_k := as_k st;
                             as_ri := as_ri st; as_out := as_out st |}
      else None
  | SegSOS sc ss se ah al first rest =>
      match ascan_setup st sc with
      | None => None
      | Some cx =>
        match adec_intervals (ax_conds cx) (length sc)
                (intervals (ax_per cx) (map (fun p : nat * Z * Z => let '(j, _, _) := p in j) (ax_pos cx)))
                (first :: map snd rest) with
        | None => None
        | Some blocks =>
          Some {| as_sof := as_sof st; as_l := as_l st; as_u := as_u st; as_k := as_k st; as_ri := as_ri st;
                  as_out := as_out st ++ aplace cx blocks |}
        end
      end
  | _ => Some st
  end.

Fixpoint a_walk (st : astate) (segs : list (nat * segment)) : option astate :=
  match segs with
  | [] => Some st
  | (_, s) :: t => match a_step st s with Some st' => a_walk st' t | None => None end
  end.

Definition t81_decode_arith (s : stream) : option (list comp_coefs) :=
  match a_walk as0 (st_segs s) with
  | None => None
  | Some st =>
    coefs_of_state {| ds_sof := as_sof st; ds_dc := []; ds_ac := []; ds_ri := 0; ds_out := as_out st |}
  end.

(* ================================================================== writer === *)
Definition ascan_blocks (im : image) (cx : ascan_ctx) : list (nat * list Z) :=
  map (fun p : nat * Z * Z =>
         let '(j, r, c) := p in
         let '(i, h, _, _, _) := nth j (ax_info cx) (O, 0, 0, 0, 0) in
         (j, to_zigzag (nth (Z.to_nat (r * scan_wb (ax_geom cx) (ax_hv cx) h + c)) (nth i (im_coefs im) []) [])))
      (ax_pos cx).

(* items as for the Huffman writer: IMisc carries DAC / DQT / DRI / APPn / COM verbatim *)
Definition aw_step (im : image) (st : astate) (it : item) : option (astate * (nat * segment)) :=
  match it with
  | IMisc f s =>
      match s with
      | SegSOF _ _ _ _ _ | SegSOS _ _ _ _ _ _ _ => None
      | _ => match a_step st s with Some st' => Some (st', (f, s)) | None => None end
      end
  | IFrame f n =>
      let s := SegSOF n (im_p im) (im_y im) (im_x im) (im_comps im) in
      match a_step st s with Some st' => Some (st', (f, s)) | None => None end
  | IScan f sc rf =>
      match ascan_setup st sc with
      | None => None
      | Some cx =>
        let blocks := ascan_blocks im cx in
        match map (aenc_interval (ax_conds cx) (length sc)) (intervals (ax_per cx) blocks) with
        | d0 :: ds =>
            Some ({| as_sof := as_sof st; as_l := as_l st; as_u := as_u st; as_k := as_k st; as_ri := as_ri st;
                     as_out := as_out st ++ aplace cx blocks |},
                  (f, SegSOS sc 0 63 0 0 d0 (combine (map (fun k => nth k rf O) (seq 0 (length ds))) ds)))
        | [] => None
        end
      end
  end.

Fixpoint aw_walk (im : image) (st : astate) (its : list item) : option (list (nat * segment)) :=
  match its with
  | [] => Some []
  | it :: t =>
    match aw_step im st it with
    | None => None
    | Some (st', fs) => match aw_walk im st' t with Some l => Some (fs :: l) | None => None end
    end
  end.

Definition t81_emit_arith (ch : choices) (im : image) : option (list Z) :=
  match aw_walk im as0 (ch_items ch) with
  | Some segs => Some (emit_stream {| st_segs := segs; st_eoi_fill := ch_eoi_fill ch |})
  | None => None
  end.

(* ============================ G.1.3: progressive DCT, arithmetic coding (SOF10) === *)
(* DC first scan: F.1.4.1 on the point-transformed values (DC >> Al); DC refinement: one
   decision with the fixed estimate; AC first scan: F.1.4.2 restricted to the band Ss..Se on
   sign * (|ZZ(k)| >> Al); AC refinement (G.1.3.3): EOB decision only beyond the end-of-block
   of the previous stage (EOBx), correction decision for already non-zero coefficients,
   zero / newly-non-zero decision plus fixed-estimate sign for the others.
   No theorems about this part (model + correspondence). *)
Definition mag_shift (v al : Z) : Z := if v <? 0 then - ((- v) / 2 ^ al) else v / 2 ^ al.

(* last index in ss..se whose value satisfies p, ss - 1 if none *)
Definition last_idx (f : Z -> bool) (ss se : Z) : Z :=
  fold_left (fun acc k => if f k then k else acc) (map (fun i => ss + i) (zrange (se - ss + 1))) (ss - 1).

(* ---- encoder side: decisions of one block in an AC refinement scan *)
Fixpoint enc_ac_refine (fuel : nat) (tb : Z) (coef : Z -> Z) (al se ke kex k : Z) (inner : bool) : list (Z * bool) :=
  match fuel with
  | O => []
  | S f =>
    if k >? ke then (if k <=? se then [(ack tb (3 * (k - 1)), true)] else [])
    else
      let st := ack tb (3 * (k - 1)) in
      (if negb inner && (k >? kex) then [(st, false)] else []) ++
      let v := Z.abs (coef k) / 2 ^ al in
      if v =? 0 then (st + 1, false) :: enc_ac_refine f tb coef al se ke kex (k + 1) true
      else if v / 2 =? 0 then (st + 1, true) :: (FIXED, coef k <? 0) :: enc_ac_refine f tb coef al se ke kex (k + 1) false
      else (st + 2, Z.odd v) :: enc_ac_refine f tb coef al se ke kex (k + 1) false
  end.

(* all decisions of one block in a scan (ss, se, ah, al); zz = the 64 coefficients (zig-zag) *)
Definition penc_block (ss se ah al : Z) (cnd : acond) (pred ctx : Z) (zz : list Z) : list (Z * bool) * Z * Z :=
  let '(tbd, l, u, tba, kx) := cnd in
  if ss =? 0 then
    if ah =? 0 then
      let v := nthZ zz 0 / 2 ^ al in
      (enc_dc tbd ctx (v - pred), v, dc_class l u (v - pred))
    else ([(FIXED, Z.testbit (nthZ zz 0) al)], pred, ctx)
  else
    if ah =? 0 then
      (enc_ac_seq tba kx ss false (map (fun i => mag_shift (nthZ zz (ss + i)) al) (zrange (se - ss + 1))), pred, ctx)
    else
      let ke := last_idx (fun k => negb (Z.abs (nthZ zz k) / 2 ^ al =? 0)) ss se in
      let kex := last_idx (fun k => negb (Z.abs (nthZ zz k) / 2 ^ ah =? 0)) ss se in
      (enc_ac_refine 130 tba (nthZ zz) al se ke kex ss false, pred, ctx).

(* ---- decoder side *)
Fixpoint dec_ac_refine (fuel : nat) (tb : Z) (m : PM.t Z) (w r c al se kex k : Z) (inner : bool) (q : qdec)
  : option (PM.t Z * qdec) :=
  match fuel with
  | O => None
  | S f =>
    if k >? se then (if inner then None else Some (m, q))
    else
      let st := ack tb (3 * (k - 1)) in
      match (if negb inner && (k >? kex) then qm_decode st q else Some (false, q)) with
      | None => None
      | Some (true, q1) => Some (m, q1)                       (* EOB *)
      | Some (false, q1) =>
        let v := pget m w r c k in
        if v =? 0 then
          match qm_decode (st + 1) q1 with
          | None => None
          | Some (false, q2) => dec_ac_refine f tb m w r c al se kex (k + 1) true q2
          | Some (true, q2) =>
            match qm_decode FIXED q2 with
            | None => None
            | Some (sgn, q3) => dec_ac_refine f tb (pset m w r c k (if sgn then - 2 ^ al else 2 ^ al)) w r c al se kex (k + 1) false q3
            end
          end
        else
          match qm_decode (st + 2) q1 with
          | None => None
          | Some (b, q2) =>
            dec_ac_refine f tb (if b then pset m w r c k (if v <? 0 then v - 2 ^ al else v + 2 ^ al) else m)
                          w r c al se kex (k + 1) false q2
          end
      end
  end.

Fixpoint set_band (m : PM.t Z) (w r c k al : Z) (vs : list Z) : PM.t Z :=
  match vs with
  | [] => m
  | v :: t => set_band (if v =? 0 then m else pset m w r c k (v * 2 ^ al)) w r c (k + 1) al t
  end.

Fixpoint padec_blocks (ss se ah al : Z) (cs : list acond) (ws : list Z) (pos : list (nat * Z * Z))
         (arrs : list (PM.t Z)) (preds ctxs : list Z) (q : qdec) : option (list (PM.t Z)) :=
  match pos with
  | [] => Some arrs
  | (j, r, c) :: t =>
    let m := nth j arrs (PM.empty Z) in let w := nth j ws 1 in
    let '(tbd, l, u, tba, kx) := acond_at cs j in
    if ss =? 0 then
      if ah =? 0 then
        match dec_dc qdec qm_decode tbd (nth j ctxs 0) q with
        | None => None
        | Some (diff, q1) =>
          let p := nth j preds 0 + diff in
          padec_blocks ss se ah al cs ws t (set_nth j (pset m w r c 0 (p * 2 ^ al)) arrs)
                       (set_nth j p preds) (set_nth j (dc_class l u diff) ctxs) q1
        end
      else
        match qm_decode FIXED q with
        | None => None
        | Some (b, q1) =>
          padec_blocks ss se ah al cs ws t (set_nth j (pset m w r c 0 (pget m w r c 0 + b2z b * 2 ^ al)) arrs) preds ctxs q1
        end
    else
      if ah =? 0 then
        match dec_ac_seq qdec qm_decode (Z.to_nat (se - ss + 1)) tba kx ss false q with
        | None => None
        | Some (vs, q1) => padec_blocks ss se ah al cs ws t (set_nth j (set_band m w r c ss al vs) arrs) preds ctxs q1
        end
      else
        let kex := last_idx (fun k => negb (pget m w r c k =? 0)) ss se in
        match dec_ac_refine 130 tba m w r c al se kex ss false q with
        | None => None
        | Some (m', q1) => padec_blocks ss se ah al cs ws t (set_nth j m' arrs) preds ctxs q1
        end
  end.

Fixpoint padec_intervals (ss se ah al : Z) (cs : list acond) (ws : list Z) (ncomp : nat)
         (ivs : list (list (nat * Z * Z))) (ds : list (list Z)) (arrs : list (PM.t Z)) : option (list (PM.t Z)) :=
  match ivs, ds with
  | [], [] => Some arrs
  | pos :: it, d :: dt =>
    match padec_blocks ss se ah al cs ws pos arrs (repeat 0 ncomp) (repeat 0 ncomp) (qm_init_dec d) with
    | Some arrs' => padec_intervals ss se ah al cs ws ncomp it dt arrs'
    | None => None
    end
  | _, _ => None
  end.

Record pastate := {
  pa_sof : option (Z * Z * Z * list fcomp);
  pa_l : list Z; pa_u : list Z; pa_k : list Z; pa_ri : Z;
  pa_arr : list (PM.t Z)
}.
Definition pa0 : pastate :=
  {| pa_sof := None; pa_l := repeat 0 4; pa_u := repeat 1 4; pa_k := repeat 5 4; pa_ri := 0; pa_arr := [] |}.

Record pascan := { px_info : list (nat * Z * Z * Z * Z); px_conds : list acond; px_ws : list Z;
                   px_ivs : list (list (nat * Z * Z)); px_arrs : list (PM.t Z); px_g : geom; px_hv : list (Z * Z) }.

Definition pa_setup (st : pastate) (sc : list scomp) : option pascan :=
  match pa_sof st with
  | None => None
  | Some (p, y, x, fc) =>
    match scan_info fc sc with
    | None => None
    | Some info =>
      let g := geom_of y x fc in
      let hv := map (fun i : nat * Z * Z * Z * Z => let '(_, h, v, _, _) := i in (h, v)) info in
      Some {| px_info := info;
              px_conds := map (fun i : nat * Z * Z * Z * Z => let '(_, _, _, td, ta) := i in
                                 (td, nthZ (pa_l st) td, nthZ (pa_u st) td, ta, nthZ (pa_k st) ta)) info;
              px_ws := map (fun q : Z * Z => mcu_cols g * fst q) hv;
              px_ivs := intervals (pa_ri st * blocks_per_mcu hv) (scan_positions g hv);
              px_arrs := map (fun i : nat * Z * Z * Z * Z => let '(fi, _, _, _, _) := i in nth fi (pa_arr st) (PM.empty Z)) info;
              px_g := g; px_hv := hv |}
    end
  end.

Definition pa_store (st : pastate) (info : list (nat * Z * Z * Z * Z)) (arrs' : list (PM.t Z)) : pastate :=
  {| pa_sof := pa_sof st; pa_l := pa_l st; pa_u := pa_u st; pa_k := pa_k st; pa_ri := pa_ri st;
     pa_arr := fold_left (fun a (ia : (nat * Z * Z * Z * Z) * PM.t Z) => let '((fi, _, _, _, _), m) := ia in set_nth fi m a)
                         (combine info arrs') (pa_arr st) |}.

Definition pa_step (st : pastate) (s : segment) : option pastate :=
  match s with
  | SegDAC tabs =>
      let a := dac_apply {| as_sof := None; as_l := pa_l st; as_u := pa_u st; as_k := pa_k st; as_ri := 0; as_out := [] |} tabs in
      Some {| pa_sof := pa_sof st; pa_l := as_l a; pa_u := as_u a; pa_k := as_k a; pa_ri := pa_ri st; pa_arr := pa_arr st |}
  | SegDRI ri => Some {| pa_sof := pa_sof st; pa_l := pa_l st; pa_u := pa_u st; pa_k := pa_k st; pa_ri := ri; pa_arr := pa_arr st |}
  | SegSOF n p y x comps =>
      if n =? 10 then Some {| pa_sof := Some (p, y, x, comps); pa_l := pa_l st; pa_u := pa_u st; pa_k := pa_k st;
                              pa_ri := pa_ri st; pa_arr := repeat (PM.empty Z) (length comps) |}
      else None
  | SegSOS sc ss se ah al first rest =>
      match pa_setup st sc with
      | None => None
      | Some cx =>
        match padec_intervals ss se ah al (px_conds cx) (px_ws cx) (length sc) (px_ivs cx) (first :: map snd rest) (px_arrs cx) with
        | None => None
        | Some arrs' => Some (pa_store st (px_info cx) arrs')
        end
      end
  | _ => Some st
  end.

Fixpoint pa_walk (st : pastate) (segs : list (nat * segment)) : option pastate :=
  match segs with
  | [] => Some st
  | (_, s) :: t => match pa_step st s with Some st' => pa_walk st' t | None => None end
  end.

Definition coefs_of_maps (y x : Z) (fc : list fcomp) (arr : list (PM.t Z)) : list comp_coefs :=
  let g := geom_of y x fc in
  map (fun ic : nat * fcomp =>
         let '(i, (_, h, v, _)) := ic in
         let m := nth i arr (PM.empty Z) in let w := mcu_cols g * h in
         (comp_wb g h, comp_hb g v,
          flat_map (fun r => map (fun c => to_natural (map (fun k => pget m w r c k) (zrange 64)))
                                 (zrange (comp_wb g h))) (zrange (comp_hb g v))))
      (combine (seq 0 (length fc)) fc).

Definition t81_decode_arith_prog (s : stream) : option (list comp_coefs) :=
  match pa_walk pa0 (st_segs s) with
  | None => None
  | Some st => match pa_sof st with Some (p, y, x, fc) => Some (coefs_of_maps y x fc (pa_arr st)) | None => None end
  end.

(* ---- writer: the image gives every component's blocks over the MCU-padded array
   (width mcu_cols * H, height mcu_rows * V) whatever the scan; items: IMisc, IFrame (n = 10),
   and scans with their spectral selection / successive approximation parameters *)
Inductive paitem :=
| PAMisc (fill : nat) (s : segment)
| PAFrame (fill : nat)
| PAScan (fill : nat) (sc : list scomp) (ss se ah al : Z) (rst_fill : list nat).

Fixpoint paenc_blocks (ss se ah al : Z) (cs : list acond) (blocks : list (nat * list Z)) (preds ctxs : list Z) : list (Z * bool) :=
  match blocks with
  | [] => []
  | (j, zz) :: t =>
    let '(ds, p', c') := penc_block ss se ah al (acond_at cs j) (nth j preds 0) (nth j ctxs 0) zz in
    ds ++ paenc_blocks ss se ah al cs t (set_nth j p' preds) (set_nth j c' ctxs)
  end.

Definition paw_step (im : image) (st : pastate) (it : paitem) : option (pastate * (nat * segment)) :=
  match it with
  | PAMisc f s =>
      match s with
      | SegSOF _ _ _ _ _ | SegSOS _ _ _ _ _ _ _ => None
      | _ => match pa_step st s with Some st' => Some (st', (f, s)) | None => None end
      end
  | PAFrame f =>
      let s := SegSOF 10 (im_p im) (im_y im) (im_x im) (im_comps im) in
      match pa_step st s with Some st' => Some (st', (f, s)) | None => None end
  | PAScan f sc ss se ah al rf =>
      match pa_setup st sc with
      | None => None
      | Some cx =>
        let blk (p : nat * Z * Z) :=
          let '(j, r, c) := p in
          let '(i, h, _, _, _) := nth j (px_info cx) (O, 0, 0, 0, 0) in
          (j, to_zigzag (nth (Z.to_nat (r * (mcu_cols (px_g cx) * h) + c)) (nth i (im_coefs im) []) [])) in
        match map (fun pos => qm_encode_all (paenc_blocks ss se ah al (px_conds cx) (map blk pos)
                                                 (repeat 0 (length sc)) (repeat 0 (length sc)))) (px_ivs cx) with
        | d0 :: ds => Some (st, (f, SegSOS sc ss se ah al d0 (combine (map (fun k => nth k rf O) (seq 0 (length ds))) ds)))
        | [] => None
        end
      end
  end.

Fixpoint paw_walk (im : image) (st : pastate) (its : list paitem) : option (list (nat * segment)) :=
  match its with
  | [] => Some []
  | it :: t =>
    match paw_step im st it with
    | None => None
    | Some (st', fs) => match paw_walk im st' t with Some l => Some (fs :: l) | None => None end
    end
  end.

Definition t81_emit_arith_prog (its : list paitem) (eoi_fill : nat) (im : image) : option (list Z) :=
  match paw_walk im pa0 its with
  | Some segs => Some (emit_stream {| st_segs := segs; st_eoi_fill := eoi_fill |})
  | None => None
  end.
